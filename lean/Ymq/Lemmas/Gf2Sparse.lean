/-
C14 helper lemmas, part 3 (core only): sparse matrices and blocks of 64 vectors. Bit-level
specification (`prodBitFrom`) of `impl Mul<&Block> for &SparseMat` (`spMul_spec`) and of
`qs_optimize` followed by `impl Mul<&Block> for &SparseMatOpt` (`optMul_spec`), their equality,
independence of the order of the coordinate list, and the exchange of summations used by the
final stage of `kernel_lanczos`.
-/
import Ymq.Lemmas.Gf2Basic
namespace Ymq.Gf2

/-! ### words, arrays of words -/

/-- entry `i` of an array of words, `0` outside -/
def cell (a : Array Nat) (i : Nat) : Nat := (a[i]?).getD 0

/-- entry `(i, column)` of the matrix denoted by a sparse column: repeated indices cancel in pairs
(`out[i] ^= row` for every occurrence, `impl Mul<&Block> for &SparseMat`). -/
def colParity (col : List Nat) (i : Nat) : Bool := xsum (col.map (fun a => a == i))

/-- bit `t` of row `i` of the product `B · Y`, columns `cols` against the words `rhs[j], rhs[j+1], …` -/
def prodBitFrom (rhs : Array Nat) (i t : Nat) : Nat → List (List Nat) → Bool
  | _, [] => false
  | j, col :: cols => ((colParity col i && (cell rhs j).testBit t) ^^ prodBitFrom rhs i t (j + 1) cols)

theorem cell_modify (out : Array Nat) (i0 i : Nat) (f : Nat → Nat) (h : i0 < out.size) :
    cell (out.modify i0 f) i = if i0 = i then f (cell out i) else cell out i := by
  unfold cell
  rw [Array.getElem?_modify]
  split
  · rename_i he; subst he
    simp [Array.getElem?_eq_getElem h]
  · rfl

theorem cell_of_ge (out : Array Nat) (i : Nat) (h : out.size ≤ i) : cell out i = 0 := by
  unfold cell; rw [Array.getElem?_eq_none h]; rfl

theorem applyCoords_some (rhs : Array Nat) (cs : List (Nat × Nat)) (out : Array Nat)
    (h : ∀ c ∈ cs, c.1 < out.size ∧ c.2 < rhs.size) : ∃ out', applyCoords rhs cs out = some out' := by
  induction cs generalizing out with
  | nil => exact ⟨out, rfl⟩
  | cons c cs ih =>
    obtain ⟨i0, j0⟩ := c
    obtain ⟨h1, h2⟩ := h (i0, j0) (by simp)
    simp only [applyCoords, Array.getElem?_eq_getElem h2, h1, if_true]
    exact ih _ (fun c hc => by simpa using h c (by simp [hc]))

theorem applyCoords_spec (rhs : Array Nat) (cs : List (Nat × Nat)) (out out' : Array Nat)
    (h : applyCoords rhs cs out = some out') :
    out'.size = out.size ∧ ∀ i t, (cell out' i).testBit t =
      ((cell out i).testBit t ^^ xsum (cs.map (fun c => (c.1 == i && (cell rhs c.2).testBit t)))) := by
  induction cs generalizing out with
  | nil =>
    simp only [applyCoords, Option.some.injEq] at h
    subst h; simp
  | cons c cs ih =>
    obtain ⟨i0, j0⟩ := c
    simp only [applyCoords] at h
    split at h
    · simp at h
    · rename_i row hrow
      split at h
      · rename_i hi0
        obtain ⟨hs, hb⟩ := ih _ h
        refine ⟨by simpa using hs, fun i t => ?_⟩
        rw [hb i t, cell_modify _ _ _ _ hi0]
        have hcell : cell rhs j0 = row := by simp [cell, hrow]
        simp only [List.map_cons, xsum_cons, hcell]
        by_cases he : i0 = i
        · subst he
          simp [Nat.testBit_xor]
        · have : (i0 == i) = false := by simpa using he
          simp [he, this]
      · simp at h

theorem xsum_map_beq_and (col : List Nat) (i : Nat) (b : Bool) :
    xsum (col.map (fun a => (a == i && b))) = (colParity col i && b) := by
  unfold colParity
  induction col with
  | nil => simp
  | cons a col ih =>
    simp only [List.map_cons, xsum_cons, ih]
    cases (a == i) <;> cases b <;> simp


/-! ### `impl Mul<&Block> for &SparseMat` -/

theorem spMulAux_some (rhs : Array Nat) (j : Nat) (cols : List (List Nat)) (out : Array Nat)
    (hj : j + cols.length ≤ rhs.size) (hwf : ∀ col ∈ cols, ∀ a ∈ col, a < out.size) :
    ∃ out', spMulAux rhs j cols out = some out' := by
  induction cols generalizing j out with
  | nil => exact ⟨out, rfl⟩
  | cons col cols ih =>
    obtain ⟨o1, h1⟩ := applyCoords_some rhs (col.map (fun i => (i, j))) out (fun c hc => by
      simp only [List.mem_map] at hc
      obtain ⟨a, ha, rfl⟩ := hc
      exact ⟨hwf col (by simp) a ha, by simp at hj ⊢; omega⟩)
    have hs := (applyCoords_spec _ _ _ _ h1).1
    obtain ⟨o2, h2⟩ := ih (j + 1) o1 (by simp at hj ⊢; omega)
      (fun c hc a ha => by rw [hs]; exact hwf c (by simp [hc]) a ha)
    exact ⟨o2, by simp only [spMulAux, h1]; exact h2⟩

theorem spMulAux_spec (rhs : Array Nat) (j : Nat) (cols : List (List Nat)) (out out' : Array Nat)
    (h : spMulAux rhs j cols out = some out') :
    out'.size = out.size ∧ ∀ i t, (cell out' i).testBit t =
      ((cell out i).testBit t ^^ prodBitFrom rhs i t j cols) := by
  induction cols generalizing j out with
  | nil =>
    simp only [spMulAux, Option.some.injEq] at h
    subst h; simp [prodBitFrom]
  | cons col cols ih =>
    simp only [spMulAux] at h
    split at h
    · simp at h
    · rename_i o1 h1
      obtain ⟨hs1, hb1⟩ := applyCoords_spec _ _ _ _ h1
      obtain ⟨hs2, hb2⟩ := ih _ _ h
      refine ⟨by rw [hs2, hs1], fun i t => ?_⟩
      rw [hb2 i t, hb1 i t, prodBitFrom, List.map_map]
      have : xsum (col.map ((fun c : Nat × Nat => (c.1 == i && (cell rhs c.2).testBit t)) ∘ fun a => (a, j))) =
          (colParity col i && (cell rhs j).testBit t) := by
        simpa [Function.comp_def] using xsum_map_beq_and col i ((cell rhs j).testBit t)
      rw [this, Bool.xor_assoc]

/-! ### `qs_optimize` and `impl Mul<&Block> for &SparseMatOpt` -/

theorem testBit_one_shiftLeft (a i : Nat) : (1 <<< a).testBit i = (a == i) := by
  rw [Nat.one_shiftLeft, Nat.testBit_two_pow]
  by_cases h : a = i <;> simp [h]

theorem testBit_denseWord_aux (col : List Nat) (d i : Nat) :
    (col.foldl (fun d a => if a < 64 then d ^^^ (1 <<< a) else d) d).testBit i =
      (d.testBit i ^^ (decide (i < 64) && colParity col i)) := by
  induction col generalizing d with
  | nil => simp [colParity]
  | cons a col ih =>
    simp only [List.foldl_cons, ih]
    have hp : colParity (a :: col) i = ((a == i) ^^ colParity col i) := by simp [colParity]
    rw [hp]
    by_cases ha : a < 64
    · simp only [ha, if_true, Nat.testBit_xor, testBit_one_shiftLeft]
      by_cases hi : i < 64
      · simp [hi]
      · have : (a == i) = false := by simp; omega
        simp [hi, this]
    · simp only [ha, if_false]
      by_cases hi : i < 64
      · have : (a == i) = false := by simp; omega
        simp [hi, this]
      · simp [hi]

theorem testBit_denseWord (col : List Nat) (i : Nat) :
    (denseWord col).testBit i = (decide (i < 64) && colParity col i) := by
  unfold denseWord
  rw [testBit_denseWord_aux]; simp

theorem testBit_foldl_sel {α} (l : List α) (sel : α → Bool) (val : α → Nat) (w t : Nat) :
    (l.foldl (fun acc p => if sel p then acc ^^^ val p else acc) w).testBit t =
      (w.testBit t ^^ xsum (l.map (fun p => (sel p && (val p).testBit t)))) := by
  induction l generalizing w with
  | nil => simp
  | cons p l ih =>
    simp only [List.foldl_cons, ih, List.map_cons, xsum_cons]
    cases sel p <;> simp [Nat.testBit_xor]


theorem colParity_filter_ge (col : List Nat) (i : Nat) :
    colParity (col.filter (fun a => ¬ a < 64)) i = (decide (64 ≤ i) && colParity col i) := by
  unfold colParity
  induction col with
  | nil => simp
  | cons a col ih =>
    by_cases ha : a < 64
    · simp only [List.filter_cons, ha, not_true_eq_false, decide_false, Bool.false_eq_true, if_false, ih,
        List.map_cons, xsum_cons]
      by_cases hi : 64 ≤ i
      · have : (a == i) = false := by simp; omega
        simp [hi, this]
      · simp [hi]
    · simp only [List.filter_cons, ha, not_false_eq_true, decide_true, if_true, List.map_cons, xsum_cons, ih]
      by_cases hi : 64 ≤ i
      · simp [hi]
      · have : (a == i) = false := by simp; omega
        simp [hi, this]

theorem xsum_coordsOf (rhs : Array Nat) (i t j k : Nat) (col : List Nat) (hk : k ≤ U32) (hj : j < U32)
    (hwf : ∀ a ∈ col, a < k) :
    xsum ((coordsOf j col).map (fun c => (c.1 == i && (cell rhs c.2).testBit t))) =
      (decide (64 ≤ i) && (colParity col i && (cell rhs j).testBit t)) := by
  unfold coordsOf
  rw [List.map_map]
  have hcongr : (col.filter (fun a => ¬ a < 64)).map
        ((fun c : Nat × Nat => (c.1 == i && (cell rhs c.2).testBit t)) ∘ fun a => (a % U32, j % U32)) =
      (col.filter (fun a => ¬ a < 64)).map (fun a => (a == i && (cell rhs j).testBit t)) := by
    apply List.map_congr_left
    intro a ha
    have ha' : a < k := hwf a (List.mem_filter.mp ha).1
    simp only [Function.comp_def, Nat.mod_eq_of_lt hj, Nat.mod_eq_of_lt (show a < U32 by omega)]
  rw [hcongr, xsum_map_beq_and, colParity_filter_ge, Bool.and_assoc]

theorem xsum_coordsFrom (rhs : Array Nat) (i t j k : Nat) (cols : List (List Nat)) (hk : k ≤ U32)
    (hj : j + cols.length ≤ U32) (hwf : ∀ col ∈ cols, ∀ a ∈ col, a < k) :
    xsum ((coordsFrom j cols).map (fun c => (c.1 == i && (cell rhs c.2).testBit t))) =
      (decide (64 ≤ i) && prodBitFrom rhs i t j cols) := by
  induction cols generalizing j with
  | nil => simp [coordsFrom, prodBitFrom]
  | cons col cols ih =>
    simp only [coordsFrom, List.map_append, xsum_append, prodBitFrom]
    rw [xsum_coordsOf rhs i t j k col hk (by simp at hj; omega) (hwf col (by simp)),
      ih (j + 1) (by simp at hj ⊢; omega) (fun c hc => hwf c (by simp [hc]))]
    cases decide (64 ≤ i) <;> simp

theorem mem_coordsFrom (j k : Nat) (cols : List (List Nat)) (hk : k ≤ U32) (hj : j + cols.length ≤ U32)
    (hwf : ∀ col ∈ cols, ∀ a ∈ col, a < k) (c : Nat × Nat) (hc : c ∈ coordsFrom j cols) :
    c.1 < k ∧ j ≤ c.2 ∧ c.2 < j + cols.length := by
  induction cols generalizing j with
  | nil => simp [coordsFrom] at hc
  | cons col cols ih =>
    simp only [coordsFrom, List.mem_append] at hc
    rcases hc with hc | hc
    · simp only [coordsOf, List.mem_map, List.mem_filter] at hc
      obtain ⟨a, ⟨ha, _⟩, rfl⟩ := hc
      have := hwf col (by simp) a ha
      have hj' : j < U32 := by simp at hj; omega
      simp only [Nat.mod_eq_of_lt hj', Nat.mod_eq_of_lt (show a < U32 by omega), List.length_cons]
      omega
    · obtain ⟨h1, h2, h3⟩ := ih (j + 1) (by simp at hj ⊢; omega) (fun c hc => hwf c (by simp [hc])) hc
      simp only [List.length_cons]; omega

/-- the dense rows: sum over the zipped (dense word, block word) pairs -/
theorem xsum_zip_dense (y : List Nat) (i t j : Nat) (cols : List (List Nat)) (hi : i < 64)
    (hj : j + cols.length ≤ y.length) :
    xsum ((List.zip (cols.map denseWord) (y.drop j)).map (fun p => (p.1.testBit i && p.2.testBit t))) =
      prodBitFrom y.toArray i t j cols := by
  induction cols generalizing j with
  | nil => simp [prodBitFrom]
  | cons col cols ih =>
    have hjl : j < y.length := by simp at hj; omega
    rw [List.drop_eq_getElem_cons hjl]
    simp only [List.map_cons, List.zip_cons_cons, xsum_cons, prodBitFrom]
    rw [ih (j + 1) (by simp at hj ⊢; omega), testBit_denseWord]
    have : cell y.toArray j = y[j] := by simp [cell, hjl]
    simp [hi, this]


theorem prodBitFrom_of_ge (rhs : Array Nat) (i t j k : Nat) (cols : List (List Nat))
    (hwf : ∀ col ∈ cols, ∀ a ∈ col, a < k) (hi : k ≤ i) : prodBitFrom rhs i t j cols = false := by
  induction cols generalizing j with
  | nil => rfl
  | cons col cols ih =>
    simp only [prodBitFrom, ih (j + 1) (fun c hc => hwf c (by simp [hc]))]
    have : colParity col i = false := by
      unfold colParity
      apply xsum_eq_false_of_forall
      intro b hb
      simp only [List.mem_map] at hb
      obtain ⟨a, ha, rfl⟩ := hb
      have := hwf col (by simp) a ha
      simp; omega
    simp [this]

theorem list_ext_getD (l l' : List Nat) (hl : l.length = l'.length) (h : ∀ i, l.getD i 0 = l'.getD i 0) :
    l = l' := by
  apply List.ext_getElem hl
  intro i h1 h2
  have := h i
  simpa [List.getD, List.getElem?_eq_getElem h1, List.getElem?_eq_getElem h2] using this

/-- `optMul (qsOptimize k cols) y` is defined on well-formed input and its bits are those of `B·Y`. -/
theorem optMul_spec (k : Nat) (cols : List (List Nat)) (y : List Nat) (hk64 : 64 ≤ k) (hk : k ≤ U32)
    (hn : cols.length ≤ U32) (hy : y.length = cols.length) (hwf : ∀ col ∈ cols, ∀ a ∈ col, a < k) :
    ∃ blk, optMul (qsOptimize k cols) y = some blk ∧ blk.length = k ∧
      ∀ i t, (blk.getD i 0).testBit t = (decide (i < k) && prodBitFrom y.toArray i t 0 cols) := by
  have hbd : blockDot (cols.map denseWord) y = some ((List.range 64).map (fun i =>
      (List.zip (cols.map denseWord) y).foldl (fun acc p => if p.1.testBit i then acc ^^^ p.2 else acc) 0)) := by
    simp [blockDot, hy]
  generalize hdense : (List.range 64).map (fun i =>
      (List.zip (cols.map denseWord) y).foldl (fun acc p => if p.1.testBit i then acc ^^^ p.2 else acc) 0) = dense at hbd
  have hdl : dense.length = 64 := by rw [← hdense]; simp
  obtain ⟨out', ho⟩ := applyCoords_some y.toArray (coordsFrom 0 cols)
    (dense ++ List.replicate (k - 64) 0).toArray (fun c hc => by
      obtain ⟨h1, _, h3⟩ := mem_coordsFrom 0 k cols hk (by omega) hwf c hc
      simp only [List.size_toArray, List.length_append, List.length_replicate, hdl]
      omega)
  obtain ⟨hs, hb⟩ := applyCoords_spec _ _ _ _ ho
  have hsize : out'.size = k := by
    rw [hs]; simp only [List.size_toArray, List.length_append, List.length_replicate, hdl]; omega
  refine ⟨out'.toList, ?_, by simpa using hsize, fun i t => ?_⟩
  · simp only [optMul, qsOptimize, hy, ne_eq, not_true_eq_false, if_false, hbd,
      show ¬ k < 64 by omega, ho]
  · have hcell : out'.toList.getD i 0 = cell out' i := by simp [cell, List.getD]
    rw [hcell]
    by_cases hik : i < k
    · rw [hb i t, xsum_coordsFrom y.toArray i t 0 k cols hk (by omega) hwf]
      simp only [hik, decide_true, Bool.true_and]
      by_cases hi : i < 64
      · have h0 : cell (dense ++ List.replicate (k - 64) 0).toArray i = dense[i]'(by omega) := by
          simp [cell, List.getElem?_append_left (show i < dense.length by omega), List.getElem?_eq_getElem (show i < dense.length by omega)]
        have hword : dense[i]'(by omega) = (List.zip (cols.map denseWord) y).foldl
            (fun acc p => if p.1.testBit i then acc ^^^ p.2 else acc) 0 := by
          simp [← hdense]
        rw [h0, hword, testBit_foldl_sel]
        have := xsum_zip_dense y i t 0 cols hi (by omega)
        simp only [List.drop_zero] at this
        rw [this]
        simp [show ¬ 64 ≤ i by omega]
      · have h0 : cell (dense ++ List.replicate (k - 64) 0).toArray i = 0 := by
          simp only [cell, List.getElem?_toArray]
          rw [List.getElem?_append_right (by omega)]
          simp only [List.getElem?_replicate]
          split <;> rfl
        rw [h0]
        simp [show 64 ≤ i by omega]
    · rw [cell_of_ge _ _ (by omega)]
      simp [hik]

/-- `spMul k cols y` is defined on well-formed input and its bits are those of `B·Y`. -/
theorem spMul_spec (k : Nat) (cols : List (List Nat)) (y : List Nat)
    (hy : y.length = cols.length) (hwf : ∀ col ∈ cols, ∀ a ∈ col, a < k) :
    ∃ blk, spMul k cols y = some blk ∧ blk.length = k ∧
      ∀ i t, (blk.getD i 0).testBit t = (decide (i < k) && prodBitFrom y.toArray i t 0 cols) := by
  obtain ⟨out', ho⟩ := spMulAux_some y.toArray 0 cols (List.replicate k 0).toArray (by simp [hy])
    (fun c hc a ha => by simpa using hwf c hc a ha)
  obtain ⟨hs, hb⟩ := spMulAux_spec _ _ _ _ _ ho
  have hsize : out'.size = k := by rw [hs]; simp
  refine ⟨out'.toList, ?_, by simpa using hsize, fun i t => ?_⟩
  · unfold spMul
    rw [if_neg (fun h => h hy.symm), ho]; rfl
  have hcell : out'.toList.getD i 0 = cell out' i := by simp [cell, List.getD]
  rw [hcell]
  by_cases hik : i < k
  · rw [hb i t]
    have h0 : cell (List.replicate k 0).toArray i = 0 := by
      simp only [cell, List.getElem?_toArray, List.getElem?_replicate]
      split <;> rfl
    rw [h0]
    simp [hik]
  · rw [cell_of_ge _ _ (by omega)]
    simp [hik]

theorem optMul_eq_spMul (k : Nat) (cols : List (List Nat)) (y : List Nat) (hk64 : 64 ≤ k) (hk : k ≤ U32)
    (hn : cols.length ≤ U32) (hwf : ∀ col ∈ cols, ∀ a ∈ col, a < k) :
    optMul (qsOptimize k cols) y = spMul k cols y := by
  by_cases hy : y.length = cols.length
  · obtain ⟨b1, h1, l1, t1⟩ := optMul_spec k cols y hk64 hk hn hy hwf
    obtain ⟨b2, h2, l2, t2⟩ := spMul_spec k cols y hy hwf
    rw [h1, h2]
    congr 1
    apply list_ext_getD _ _ (by rw [l1, l2])
    intro i
    apply Nat.eq_of_testBit_eq
    intro t
    rw [t1, t2]
  · have hy' : ¬ cols.length = y.length := fun h => hy h.symm
    have h1 : optMul (qsOptimize k cols) y = none := by simp [optMul, qsOptimize, hy']
    have h2 : spMul k cols y = none := by simp [spMul, hy']
    rw [h1, h2]


/-! ### order of the coordinate list -/

theorem applyCoords_none (rhs : Array Nat) (cs : List (Nat × Nat)) (out : Array Nat)
    (h : ¬ ∀ c ∈ cs, c.1 < out.size ∧ c.2 < rhs.size) : applyCoords rhs cs out = none := by
  induction cs generalizing out with
  | nil => simp at h
  | cons c cs ih =>
    obtain ⟨i0, j0⟩ := c
    simp only [applyCoords]
    split
    · rfl
    · rename_i row hrow
      split
      · rename_i hi0
        apply ih
        intro hall
        apply h
        intro c hc
        rcases List.mem_cons.mp hc with rfl | hc
        · refine ⟨hi0, ?_⟩
          simp only
          apply Classical.byContradiction
          intro hj
          rw [Array.getElem?_eq_none (by omega)] at hrow
          simp at hrow
        · simpa using hall c hc
      · rfl

theorem array_ext_cell (a b : Array Nat) (hs : a.size = b.size) (h : ∀ i, cell a i = cell b i) : a = b := by
  apply Array.ext hs
  intro i h1 h2
  have := h i
  simpa [cell, Array.getElem?_eq_getElem h1, Array.getElem?_eq_getElem h2] using this

/-- the product does not depend on the order of the coordinate list (`sort_unstable_by_key`) -/
theorem applyCoords_perm (rhs : Array Nat) (cs cs' : List (Nat × Nat)) (out : Array Nat) (hp : cs.Perm cs') :
    applyCoords rhs cs out = applyCoords rhs cs' out := by
  by_cases hok : ∀ c ∈ cs, c.1 < out.size ∧ c.2 < rhs.size
  · have hok' : ∀ c ∈ cs', c.1 < out.size ∧ c.2 < rhs.size := fun c hc => hok c (hp.mem_iff.mpr hc)
    obtain ⟨o1, h1⟩ := applyCoords_some rhs cs out hok
    obtain ⟨o2, h2⟩ := applyCoords_some rhs cs' out hok'
    obtain ⟨s1, b1⟩ := applyCoords_spec _ _ _ _ h1
    obtain ⟨s2, b2⟩ := applyCoords_spec _ _ _ _ h2
    rw [h1, h2]
    congr 1
    apply array_ext_cell _ _ (by rw [s1, s2])
    intro i
    apply Nat.eq_of_testBit_eq
    intro t
    rw [b1, b2, xsum_perm (hp.map _)]
  · have hok' : ¬ ∀ c ∈ cs', c.1 < out.size ∧ c.2 < rhs.size := fun h => hok (fun c hc => h c (hp.mem_iff.mp hc))
    rw [applyCoords_none _ _ _ hok, applyCoords_none _ _ _ hok']

theorem optMul_perm (a : SparseOpt) (xy' : List (Nat × Nat)) (y : List Nat) (hp : a.xy.Perm xy') :
    optMul { a with xy := xy' } y = optMul a y := by
  simp only [optMul]
  split
  · rfl
  · split
    · rfl
    · split
      · rfl
      · rw [applyCoords_perm _ _ _ _ hp]

/-! ### the final stage of `kernel_lanczos` -/

/-- dense form of a sparse matrix with `k` rows (repeated indices cancel in pairs) -/
def denseOfSparse (k : Nat) (cols : List (List Nat)) : List BVec :=
  cols.map (fun col => (List.range k).map (colParity col))

/-- `sum_t kv[t] * f (s + t)` over GF(2) -/
def dotFrom (f : Nat → Bool) : Nat → BVec → Bool
  | _, [] => false
  | s, b :: k => ((b && f s) ^^ dotFrom f (s + 1) k)

theorem dotFrom_shift (f : Nat → Bool) (s : Nat) (kv : BVec) :
    dotFrom f (s + 1) kv = dotFrom (fun t => f (t + 1)) s kv := by
  induction kv generalizing s with
  | nil => rfl
  | cons b kv ih => simp only [dotFrom, ih]

theorem dotFrom_congr (f g : Nat → Bool) (s : Nat) (kv : BVec) (h : ∀ t, f t = g t) :
    dotFrom f s kv = dotFrom g s kv := by
  have : f = g := funext h
  rw [this]

theorem dotBits_eq (w : Nat) (kv : BVec) : dotBits w kv = dotFrom (fun t => w.testBit t) 0 kv := by
  induction kv generalizing w with
  | nil => rfl
  | cons b kv ih =>
    simp only [dotBits, dotFrom, ih, Nat.zero_add]
    rw [dotFrom_shift]
    have h0 : (w % 2 == 1) = w.testBit 0 := by
      rw [Nat.testBit_zero]
      by_cases h : w % 2 = 1 <;> simp [h]
    rw [h0]
    congr 1
    exact dotFrom_congr _ _ _ _ (fun t => by simp only [Nat.testBit_add_one])

theorem dotFrom_and_xor (c : Bool) (f g : Nat → Bool) (s : Nat) (kv : BVec) :
    dotFrom (fun t => ((c && f t) ^^ g t)) s kv = ((c && dotFrom f s kv) ^^ dotFrom g s kv) := by
  induction kv generalizing s with
  | nil => simp [dotFrom]
  | cons b kv ih =>
    simp only [dotFrom, ih]
    cases b <;> cases c <;> cases f s <;> cases g s <;> cases dotFrom f (s + 1) kv <;>
      cases dotFrom g (s + 1) kv <;> rfl

theorem dotFrom_false (s : Nat) (kv : BVec) : dotFrom (fun _ => false) s kv = false := by
  induction kv generalizing s with
  | nil => rfl
  | cons b kv ih => simp [dotFrom, ih]

/-- Fubini: `sum_t kv[t] * (B·Y)[i] bit t = sum_c B[i,c] * (sum_t kv[t] * Y[c] bit t)` -/
theorem dotFrom_prodBitFrom (rhs : Array Nat) (i j : Nat) (cols : List (List Nat)) (kv : BVec) :
    dotFrom (fun t => prodBitFrom rhs i t j cols) 0 kv =
      xsum ((List.range' j cols.length).zipWith (fun c col => (colParity col i && dotBits (cell rhs c) kv)) cols) := by
  induction cols generalizing j with
  | nil => simp [prodBitFrom, dotFrom_false]
  | cons col cols ih =>
    simp only [prodBitFrom, List.length_cons, List.range'_succ, List.zipWith_cons_cons, xsum_cons]
    rw [dotFrom_and_xor, ih (j + 1), dotBits_eq]

theorem zipWith_byBits (blk : List Nat) (i s n : Nat) (kv : BVec) (hkv : kv.length ≤ n) :
    xsum (List.zipWith (fun c b => (b && bitAt c i))
      ((List.range' s n).map (fun j => blk.map (fun w => w.testBit j))) kv) =
      dotFrom (fun t => (blk.getD i 0).testBit t) s kv := by
  induction kv generalizing s n with
  | nil => simp [dotFrom]
  | cons b kv ih =>
    cases n with
    | zero => simp at hkv
    | succ n =>
      simp only [List.range'_succ, List.map_cons, List.zipWith_cons_cons, xsum_cons, dotFrom]
      rw [ih (s + 1) n (by simpa using hkv)]
      congr 2
      simp only [bitAt, List.getD, List.getElem?_map]
      cases h : blk[i]? with
      | none => simp
      | some w => simp

end Ymq.Gf2
