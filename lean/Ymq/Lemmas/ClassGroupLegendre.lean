import Ymq.Model.ClassGroupLegendre
import Ymq.Lemmas.DividersUint
import Mathlib.NumberTheory.LegendreSymbol.Basic
import Mathlib.NumberTheory.LucasLehmer

/-
Helper lemmas for `Ymq.ClassGroup.legendre` (property C18, src/classgroup.rs `legendre`).
-/
namespace Ymq.ClassGroup
open Ymq.Limbs (W ofNat val Wf)
open Ymq.Dividers (Div Ok)

/-- arithmetic step of square-and-multiply, odd exponent -/
theorem sqmul_odd (p pow sq k : Nat) (hk : k % 2 = 1) :
    (pow * sq % p) * (sq * sq % p) ^ (k / 2) % p = pow * sq ^ k % p := by
  have e : sq ^ k = sq * (sq * sq) ^ (k / 2) := by
    conv_lhs => rw [← Nat.div_add_mod k 2, hk]
    rw [pow_succ, pow_mul, pow_two, Nat.mul_comm]
  rw [e, ← Nat.mul_assoc]
  have h1 : (pow * sq % p) * (sq * sq % p) ^ (k / 2) ≡ (pow * sq) * (sq * sq) ^ (k / 2) [MOD p] :=
    Nat.ModEq.mul (Nat.mod_modEq _ _) (Nat.ModEq.pow _ (Nat.mod_modEq _ _))
  exact h1

/-- arithmetic step of square-and-multiply, even exponent -/
theorem sqmul_even (p pow sq k : Nat) (hk : k % 2 ≠ 1) :
    pow * (sq * sq % p) ^ (k / 2) % p = pow * sq ^ k % p := by
  have hk0 : k % 2 = 0 := by omega
  have e : sq ^ k = (sq * sq) ^ (k / 2) := by
    conv_lhs => rw [← Nat.div_add_mod k 2, hk0]
    rw [Nat.add_zero, pow_mul, pow_two]
  rw [e]
  have h1 : pow * (sq * sq % p) ^ (k / 2) ≡ pow * (sq * sq) ^ (k / 2) [MOD p] :=
    Nat.ModEq.mul rfl (Nat.ModEq.pow _ (Nat.mod_modEq _ _))
  exact h1

/-- the square-and-multiply loop: with a divider returned by the constructor and reduced operands
it never panics and returns `pow * sq^k mod p` (fuel: one more than the bit length of `k`). -/
theorem legendreLoop_ok (dv : Div) (h : Ok dv) :
    ∀ (fuel k pow sq : Nat), k < 2 ^ fuel → pow < dv.p → sq < dv.p →
      legendreLoop dv (fuel + 1) k pow sq = some (pow * sq ^ k % dv.p) := by
  have hp30 := h.p30
  have hW : W = 2 ^ 64 := Dividers.W_eq
  have hprod : ∀ a b : Nat, a < dv.p → b < dv.p → a * b < 2 ^ 60 := by
    intro a b ha hb
    calc a * b < 2 ^ 30 * 2 ^ 30 := Nat.mul_lt_mul'' (by omega) (by omega)
      _ = 2 ^ 60 := by norm_num
  intro fuel
  induction fuel with
  | zero =>
    intro k pow sq hk hpow _
    have hk0 : k = 0 := by omega
    subst hk0
    unfold legendreLoop
    rw [if_pos rfl, Nat.pow_zero, Nat.mul_one, Nat.mod_eq_of_lt hpow]
  | succ f ih =>
    intro k pow sq hk hpow hsq
    unfold legendreLoop
    by_cases hk0 : k = 0
    · subst hk0
      rw [if_pos rfl, Nat.pow_zero, Nat.mul_one, Nat.mod_eq_of_lt hpow]
    · rw [if_neg hk0]
      have hps := hprod pow sq hpow hsq
      have hss := hprod sq sq hsq hsq
      have hk2 : k / 2 < 2 ^ f := by
        rw [Nat.div_lt_iff_lt_mul (by decide)]
        rw [Nat.pow_succ] at hk; exact hk
      have hsq' : sq * sq % dv.p < dv.p := Nat.mod_lt _ h.p_pos
      by_cases hodd : k % 2 = 1
      · simp only [if_pos hodd]
        rw [if_neg (by omega), Dividers.modu63_ok dv h _ (by omega)]
        simp only []
        rw [if_neg (by omega), Dividers.modu63_ok dv h _ (by omega)]
        simp only []
        rw [ih (k / 2) _ _ hk2 (Nat.mod_lt _ h.p_pos) hsq', sqmul_odd _ _ _ _ hodd]
      · simp only [if_neg hodd]
        rw [if_neg (by omega), Dividers.modu63_ok dv h _ (by omega)]
        simp only []
        rw [ih (k / 2) _ _ hk2 hpow hsq', sqmul_even _ _ _ _ hodd]

theorem asI32_small (x : Nat) (hx : x < 2 ^ 31) : asI32 x = (x : Int) := by
  unfold asI32
  simp only []
  rw [Nat.mod_eq_of_lt (by omega), if_pos hx]

/-- `legendre` after a successful `Dividers::new`: the residue `d^(p/2) mod p` decides. The only
remaining panic site is the debug assertion `pow == p - 1`. -/
theorem legendre_of_new (d p : Nat) (dv : Div) (hnew : Dividers.new p = some dv)
    (hd : d < 2 ^ 1024) :
    legendre d p =
      if d ^ (p / 2) % p > 1 then
        (if d ^ (p / 2) % p ≠ p - 1 then none else some ((d ^ (p / 2) % p : Nat) - (p : Int)))
      else some ((d ^ (p / 2) % p : Nat) : Int) := by
  obtain ⟨hdp, hok⟩ := Dividers.new_ok p dv hnew
  have hp30 : p < 2 ^ 30 := hdp ▸ hok.p30
  have hp0 : 0 < p := hdp ▸ hok.p_pos
  have hdW : d < W ^ 16 := by
    rw [Dividers.W_eq, ← Nat.pow_mul]
    exact hd
  have hne : ofNat 16 d ≠ [] := by
    intro e
    have := Limbs.ofNat_length 16 d
    rw [e] at this; simp at this
  unfold legendre
  rw [hnew]
  simp only []
  rw [Dividers.modUint_ok dv hok _ hne (Limbs.ofNat_Wf 16 d), Limbs.val_ofNat_of_lt hdW, hdp]
  simp only []
  have hr : d % p < p := Nat.mod_lt _ hp0
  rw [Nat.mod_eq_of_lt (show d % p < 2 ^ 32 by omega)]
  have h1p : 1 < dv.p := by
    rcases hok with e | g
    · rw [e]; decide
    · have := g.p3; omega
  have hloop := legendreLoop_ok dv hok 32 (p / 2) 1 (d % p) (by omega) h1p (by rw [hdp]; exact hr)
  rw [hloop, hdp, Nat.one_mul, ← Nat.pow_mod]
  simp only []
  have hx : d ^ (p / 2) % p < p := Nat.mod_lt _ hp0
  generalize d ^ (p / 2) % p = x at hx
  by_cases h1 : x > 1
  · rw [if_pos h1, if_pos h1, if_neg (by omega)]
    by_cases h2 : x ≠ p - 1
    · rw [if_pos h2, if_pos h2]
    · rw [if_neg h2, if_neg h2, asI32_small x (by omega), asI32_small p (by omega)]
      rw [if_neg (by omega)]
  · rw [if_neg h1, if_neg h1, asI32_small x (by omega)]

/-- an odd prime below `2^30` is accepted by `Dividers::new` -/
theorem new_of_odd_prime (p : Nat) (hp : p.Prime) (h2 : p ≠ 2) (h30 : p < 2 ^ 30) :
    ∃ dv, Dividers.new p = some dv := by
  have h3 : 3 ≤ p := by
    have := hp.two_le
    omega
  apply Dividers.new_some p h3 h30
  intro h0
  have hd : p ∣ 2 ^ 64 := by rw [← Dividers.W_eq]; exact Nat.dvd_of_mod_eq_zero h0
  have := hp.dvd_of_dvd_pow hd
  have := (Nat.prime_dvd_prime_iff_eq hp Nat.prime_two).mp this
  exact h2 this

/-- Euler's criterion read on the least non-negative residue -/
theorem euler_residue (p : Nat) [Fact p.Prime] (h2 : p ≠ 2) (d : Nat) :
    (legendreSym p d = 0 ∧ d ^ (p / 2) % p = 0) ∨
    (legendreSym p d = 1 ∧ d ^ (p / 2) % p = 1) ∨
    (legendreSym p d = -1 ∧ d ^ (p / 2) % p = p - 1) := by
  have hp : p.Prime := Fact.out
  have hp3 : 3 ≤ p := by have := hp.two_le; omega
  have hx : d ^ (p / 2) % p < p := Nat.mod_lt _ (by omega)
  have hcast : ((d ^ (p / 2) % p : Nat) : ZMod p) = (legendreSym p d : ZMod p) := by
    rw [legendreSym.eq_pow, ZMod.natCast_mod]
    push_cast
    rfl
  generalize d ^ (p / 2) % p = x at hx hcast
  by_cases hd0 : ((d : ℤ) : ZMod p) = 0
  · have hl : legendreSym p d = 0 := (legendreSym.eq_zero_iff p d).mpr hd0
    left
    refine ⟨hl, ?_⟩
    rw [hl, Int.cast_zero, ZMod.natCast_eq_zero_iff] at hcast
    exact Nat.eq_zero_of_dvd_of_lt hcast hx
  · rcases legendreSym.eq_one_or_neg_one p hd0 with hl | hl
    · right; left
      refine ⟨hl, ?_⟩
      rw [hl, Int.cast_one, ← Nat.cast_one, ZMod.natCast_eq_natCast_iff'] at hcast
      rw [Nat.mod_eq_of_lt hx, Nat.mod_eq_of_lt (by omega)] at hcast
      exact hcast
    · right; right
      refine ⟨hl, ?_⟩
      rw [hl, Int.cast_neg, Int.cast_one] at hcast
      have h0 : ((x + 1 : Nat) : ZMod p) = 0 := by
        push_cast
        rw [hcast]; ring
      rw [ZMod.natCast_eq_zero_iff] at h0
      have := Nat.le_of_dvd (by omega) h0
      omega

/-- `2^31 - 1` is prime (Lucas–Lehmer) -/
theorem prime_mersenne_31 : Nat.Prime 2147483647 := by
  have h : (mersenne 31).Prime := lucas_lehmer_sufficiency 31 (by norm_num) (by norm_num)
  have e : mersenne 31 = 2147483647 := by norm_num [mersenne]
  rwa [e] at h

end Ymq.ClassGroup
