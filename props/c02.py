"""C02 — automatic mode returns the complete prime factorization."""
# SIZE AUDIT (quick tier), measured on cases('quick', Random(1)): bit length of n handed to factor() (release profile only)
# sizes the code supports: factor() refuses above 500 bits; Auto switches on the bit length of the part left after trial division:
# < 52 Pollard rho, 52..128 ecm128 (u128 / M128 arithmetic), above 64 pm1_quick first and the Uint perfect-power test (u64 test up to
# 64), above 128 ecm_auto on ZmodN (2..8 words) then SIQS; fallback Ecm128 up to 80 bits, SIQS above.
#   selector   quick max   thorough max   supported   boundary lengths reached by quick BEFORE this audit (count)
#   auto       128         200            500         51 (102), 52 (149), 63 (86), 64 (166), 65 (110), 80 (156), 127 (8), 128 (17);
#                                                     81: none, 129 and above: NONE, so the general path of Auto (pm1_quick / ecm_auto on
#                                                     ZmodN / SIQS fallback, the Uint perfect-power test above 128 bits, pseudoprime on
#                                                     3..8 words) was never run by the quick tier of this property
#   ecm        100         200            500         none
#   ecm128     79          128            128         64 (1)
#   qs/mpqs/siqs 95/100/120 200           448         none (their size classes belong to C12 / C13)
#   factor_sweep (all selectors) n < 2^22 exhaustively: below every boundary
# Added: boundary_cases (both tiers, first, own rng stream, auto mode, ~90 requests, < 3 s): balanced semiprimes of EXACTLY 51, 52, 64,
# 65, 80, 81, 128, 129, 130, 144, 160 bits, products of the primes next to 2^32 and 2^64 (top of 64 / 128 bits, bottom of 65 / 129),
# 30-bit (22-bit above 257) prime times a prime of exactly 129, 192, 193, 256, 257, 320, 384, 448, 449, 499, 500 bits, primes of 64..500 bits, prime
# squares / cubes on both sides of 64 and 128 bits and at 500, smooth part times a 480-bit prime. (501 bits = refused: the oracle of
# this property only judges returned factor lists; the refusal is C03's.)
from vlib.pipeline import Case
from vlib import gen
from props import factor_common as fc

PID = "C02"
GEN = ["primality"]
LEAN = ["Ymq.Props.C02", "Ymq.Props.C02C06"]
AUDIT = "Ymq.Audit.C02"
THEOREMS = ['Ymq.C02.auto_composite_needs_giveup', 'Ymq.C02.auto_composite_needs_giveup_det', 'Ymq.C02.auto_complete', 'Ymq.C02.factor_composite_needs_giveup', 'Ymq.C02.factor_auto_complete', 'Ymq.C02.auto_complete_on', 'Ymq.C02.auto_complete_64']
PROFILES = ["release"]
TIMEOUT = 300.0
RULE = ("boundary family first, in both tiers (Auto): balanced semiprimes of exactly 51, 52, 64, 65, 80, 81, 128, 129, 130, 144, 160 bits, products "
        "of the primes next to 2^32 / 2^64, 30-bit prime times a prime at 129..500 bits (every ZmodN word count), primes and prime powers "
        "at 64..500 bits; then: exhaustive sweep of n < 2^22 (quick) / 2^26 (thorough) in Auto mode and smaller ranges for the other selectors, judged "
        "inside the harness by naive trial division; plus structured n with known factorisation (prime powers, squares of "
        "composites, p^2 q, many factors, tiny/close/repeated factors, factor-base primes) up to ~128 bits quick / ~200 bits "
        "thorough, threads in {none,2,4}, compared with the known multiset of primes; non-trivial = composite n; distinct by request line "
        "(a sweep request counts once; its size is reported in sweep_inputs)")
MODELLED = ["lib.rs factor_impl control flow (Ymq/Model/Factor.lean): every element of an Auto result is answered `true` by the "
            "primality oracle or is an explicit give-up event of the model"]
UNMODELLED = ["that no give-up event occurs (success of rho / ECM / SIQS) is heuristic and is explored, not proved",
              "pseudoprime's exactness is property C06"]
HYPOTHESES = ["auto_complete_64: Hpsi2, Hpsi5, Hpsi12 (minimal strong pseudoprimes 1373653, 2152302898747, > 2^64: literature facts as explicit hypotheses) and the primality oracle being the modelled pseudoprime (tied to the code under C06)", 'hsound: the primality oracle answers true only on primes (C06: exact below 2^64 under the psi hypotheses; heuristic above)', 'state-independent prime oracle (for the _det form)']
_sweep_inputs = [0]


def _fork(rng, label):
    """own stream for the boundary family: depends on the run's seed, leaves the stream of the older families untouched"""
    import random
    return random.Random(f"{label}:{rng.getstate()[1][:4]}")


def _exact_product(rng, bits, pbits):
    """primes p (pbits bits) and q with p*q of EXACTLY `bits` bits"""
    while True:
        p, q = gen.rand_prime(rng, pbits), gen.rand_prime(rng, bits - pbits + rng.randrange(2))
        if p != q and (p * q).bit_length() == bits:
            return p, q


def boundary_cases(rng, tier):
    """Auto mode at every size class of factor(): the bit lengths where the strategy switches (52, 64/65, 80/81, 128/129), the general
    path above 128 bits up to the 500-bit limit, word boundaries of ZmodN; all inputs finish in milliseconds (balanced semiprimes only
    up to 160 bits, above that a 30-bit factor, a prime, a prime power or a smooth part)"""
    reps = 2 if tier == "quick" else 6

    def case(fs, shape, toks=""):
        n = fc.prod(fs)
        return Case(f"factor {n} auto{toks}", k=False, tag=f"edge-{shape}|" + ",".join(map(str, sorted(fs))), profiles=["release"])

    for bits in (51, 52, 64, 65, 80, 81, 128, 129, 130, 144, 160):
        for r in range(reps):
            yield case(_exact_product(rng, bits, bits // 2), f"semi{bits}", " threads=2" if r == 1 and bits > 128 else "")
    # primes next to 2^32 / 2^64: products at the very top of 64 / 128 bits and at the very bottom of 65 / 129 bits
    for k in (32, 64):
        a1 = gen.prev_prime(1 << k)
        a2 = gen.prev_prime(a1)
        b1 = gen.next_prime(1 << k)
        b2 = gen.next_prime(b1)
        for fs in ([a1, a2], [a1, b1], [b1, b2], [a1, a1], [b1, b1]):
            assert fc.prod(fs).bit_length() in (2 * k, 2 * k + 1)
            yield case(fs, f"pow2-{2 * k}")
    # a 30-bit (22-bit) factor times a prime: every word count of ZmodN up to the limit
    for bits in (129, 192, 193, 256, 257, 320, 384, 448, 449, 499, 500):
        yield case(_exact_product(rng, bits, 30 if bits <= 257 else 22), f"small{bits}")     # (22: seconds of ECM otherwise)
    for bits in (64, 65, 128, 129, 192, 256, 448, 499, 500):
        yield case([gen.rand_prime(rng, bits)], f"prime{bits}")
    # zero 64-bit limbs below a non-zero one (after seeded change C02-4: the trial division of factor() skipped a zero limb although a
    # remainder was carried into it; every 2^k+1, k >= 129, crashed): n = a*2^(64j) + b with b < 2^64 and j = 2, 3, made a multiple of a
    # trial-division prime p (b = -a*2^(64j) mod p) with a prime cofactor, so that the expected answer is known
    for j in (2, 3, 4):
        for p0 in (3, 7, 61, 199) + ((11, 101, 193) if tier != "quick" else ()):
            for _ in range(200):
                a = rng.getrandbits(rng.choice([1, 17, 40, 63])) | 1
                b = (-(a << (64 * j))) % p0
                n = (a << (64 * j)) + b
                if n % p0 == 0 and gen.is_prime(n // p0) and n // p0 > 200:
                    yield case([p0, n // p0], f"zero-limb{j}")
                    break
    # prime powers: u64 perfect-power test up to 64 bits, Uint test above
    for pb, k in ((32, 2), (33, 2), (64, 2), (65, 2), (128, 2), (250, 2), (21, 3), (22, 3), (43, 3), (166, 3), (100, 5)):
        pr = gen.rand_prime(rng, pb)
        yield case([pr] * k, f"power{(pr ** k).bit_length()}")
    for _ in range(reps):
        fs = [rng.choice(fc.SMALL_PRIMES) for _ in range(rng.randint(2, 4))]
        fs.append(gen.rand_prime(rng, 500 - fc.prod(fs).bit_length()))
        if fc.prod(fs).bit_length() <= 500:
            yield case(fs, "smooth500")


def cases(tier, rng, extended=False):
    quick = tier == "quick"
    yield from boundary_cases(_fork(rng, "C02-boundary"), tier)
    top = 1 << (22 if quick else 26)
    step = 1 << 18
    for lo in range(0, top, step):
        yield Case(f"factor_sweep auto {lo} {lo + step}", k=False, tag="sweep", timeout=600)
    for alg, hi in (("ecm128", 1 << 17), ("ecm", 1 << 14), ("rho", 1 << 18), ("squfof", 1 << 16)):
        yield Case(f"factor_sweep {alg} 0 {hi if quick else hi * 8}", k=False, tag="sweep", timeout=900)
    # every row of the ECM128 curve table / every band of the automatic strategy, on the inputs that are hardest for the
    # group-order methods (balanced semiprimes): a row whose curve budget is too small makes Auto give up on a small
    # fraction (~1%) of one band only, so each band gets hundreds of inputs
    per_band = (250 if quick else 1500) * (4 if extended else 1)
    for bits in (50, 52, 56, 60, 64, 66, 68, 70, 72, 76, 80):
        for _ in range(per_band):
            p = gen.rand_prime(rng, bits // 2)
            q = gen.rand_prime(rng, bits - bits // 2)
            yield Case(f"factor {p * q} auto", k=False, tag=f"band{bits}|{min(p, q)},{max(p, q)}", profiles=["release"])
    for bits in (84, 88, 96, 104, 112, 120, 128):
        for _ in range(per_band // 10):
            p = gen.rand_prime(rng, bits // 2)
            q = gen.rand_prime(rng, bits - bits // 2)
            yield Case(f"factor {p * q} auto", k=False, tag=f"band{bits}|{min(p, q)},{max(p, q)}", profiles=["release"])
    # sieves inside their working range (tiny inputs crash: findings under C03)
    count = 140 if quick else 1500
    maxbits = 128 if quick else 200
    if extended:
        count *= 4
    ins = fc.structured_inputs(rng, count, maxbits, classes=("tiny", "s16", "s32", "s52", "s64"))
    big = 0
    for inp in ins:
        b = fc.nred_bits(inp.n)
        if b > 100:
            big += 1
            if quick and big > 25:
                continue
        algs = ["auto"]
        if rng.random() < 0.35 and 48 <= b:
            algs.append(rng.choice(["qs", "mpqs", "siqs"]) if b <= 110 else "siqs")
        if rng.random() < 0.3 and b <= 100:
            algs.append("ecm" if b > 64 or rng.random() < 0.5 else "ecm128")
        for alg in algs:
            toks = []
            if rng.random() < 0.4:
                toks.append(f"threads={rng.choice([2, 4])}")
            yield Case(" ".join([f"factor {inp.n} {alg}"] + toks), k=False, tag=inp.shape + "|" + ",".join(map(str, inp.factors)))


def oracle(case, ans):
    if case.op == "factor_sweep":
        kv = dict(x.split("=") for x in ans.split()) if "=" in ans else {}
        if not kv:
            return f"sweep did not answer ({ans})"
        _sweep_inputs[0] += int(kv["n"])
        if kv["bad_product"] != "0" or kv["composite"] != "0" or kv["failure"] != "0" or kv["panic"] != "0":
            return f"sweep found a bad input, first n = {kv['first']}: {ans}"
        return None
    kind, fs, trace, md = fc.parse_answer(ans)
    expected = sorted(int(x) for x in case.tag.split("|")[1].split(","))
    if kind != "ok":
        return f"no factor list returned ({kind}) for a product of known primes {expected}"
    if fs != expected:
        comp = [f for f in fs if not gen.is_prime(f)]
        return f"returned {fs}, prime factorisation is {expected}; composite elements {comp}"
    return None


followup = fc.replay_request


def klass(case, ans):
    if case.op == "factor_sweep":
        return "sweep/" + case.args[0]
    return f"{case.args[1]}/{case.tag.split('|')[0]}/{fc.parse_answer(ans)[0]}/{min(fc.nred_bits(int(case.args[0])) // 32 * 32, 192)}b"


def nontrivial(case, ans):
    return case.op == "factor_sweep" or not gen.is_prime(int(case.args[0]))


def extra_coverage():
    return {"sweep_inputs": _sweep_inputs[0]}


CLAIM = ("Lean theorem about the control-flow model: in Auto mode every returned element was accepted by the primality test or is an "
         "explicit give-up event (Ecm128/SIQS fallback failed, trivial divisors, abort); with an exact primality test and no give-up "
         "the result is the prime factorization. That no give-up occurs is heuristic and cannot be a theorem: it is explored "
         "exhaustively for n < 2^22 (quick) and on structured inputs up to ~128 bits, with an independent primality oracle. PARTIAL.")
LEVEL_NOTE = ("Trusted: Lean kernel (+3 standard axioms); trace-replay correspondence of the model; C06 for pseudoprime. The completeness "
              "half rests on exploration, stated as such.")
TECHNIQUE = "Lean 4 proof (structural theorem over oracle model) + trace replay + exhaustive/structured exploration of the heuristic premise"


def corpus_case(line):
    req, facs = line.split("|")
    return Case(req.strip(), k=False, tag="corpus|" + facs.strip())
