/-
Lemmas for the mechanism models of `Poly::_basic_mul` and `Poly::karatsuba`
(Ymq/Model/PolyMul.lean, property C10): polynomials of coefficient lists, the loop invariants of
the schoolbook base case (with its "first term" rule, for unequal lengths and stale buffers), and
the Karatsuba recursion with the slice arithmetic and buffer reuse of the code. Everything is
stated through a map `φ` from the coefficient operations into a commutative ring (`Hom`).
-/
import Ymq.Model.PolyMul
import Mathlib.Algebra.Polynomial.Coeff
import Mathlib.Algebra.Polynomial.Degree.Operations
import Mathlib.Tactic.Ring
import Mathlib.Tactic.Linarith

namespace Ymq.PolyMul
open Polynomial Finset

variable {α : Type} {R : Type} [CommRing R]

/-- `φ` maps the coefficient operations to those of a commutative ring -/
structure Hom (o : Ops α) (φ : α → R) : Prop where
  zero : φ o.zero = 0
  one : φ o.one = 1
  add : ∀ a b, φ (o.add a b) = φ a + φ b
  sub : ∀ a b, φ (o.sub a b) = φ a - φ b
  mul : ∀ a b, φ (o.mul a b) = φ a * φ b

theorem getD_ge {β : Type} (l : List β) (k : Nat) (d : β) (h : l.length ≤ k) : l.getD k d = d := by
  rw [List.getD_eq_getElem?_getD, List.getElem?_eq_none h]; rfl

theorem getD_set {β : Type} (l : List β) (i k : Nat) (a d : β) (hi : i < l.length) :
    (l.set i a).getD k d = if k = i then a else l.getD k d := by
  rw [List.getD_eq_getElem?_getD, List.getD_eq_getElem?_getD, List.getElem?_set]
  by_cases h : i = k
  · subst h; simp [hi]
  · rw [if_neg h, if_neg (Ne.symm h)]

/-- the polynomial with coefficient list `l` -/
noncomputable def poly : List R → R[X]
  | [] => 0
  | a :: l => C a + X * poly l

@[simp] theorem poly_nil : poly ([] : List R) = 0 := rfl
@[simp] theorem poly_cons (a : R) (l : List R) : poly (a :: l) = C a + X * poly l := rfl

theorem poly_append (a b : List R) : poly (a ++ b) = poly a + X ^ a.length * poly b := by
  induction a with
  | nil => simp
  | cons x xs ih => simp [ih, pow_succ]; ring

theorem poly_replicate_zero (m : Nat) : poly (List.replicate m (0 : R)) = 0 := by
  induction m with
  | zero => simp
  | succ m ih => simp [List.replicate_succ, ih]

theorem coeff_poly (l : List R) (k : Nat) : (poly l).coeff k = l.getD k 0 := by
  induction l generalizing k with
  | nil => simp
  | cons a l ih =>
    cases k with
    | zero => simp
    | succ k => simp [ih, coeff_C_succ]

theorem poly_zipWith_add (a b : List R) (h : a.length = b.length) :
    poly (List.zipWith (· + ·) a b) = poly a + poly b := by
  induction a generalizing b with
  | nil => cases b <;> simp_all
  | cons x xs ih =>
    cases b with
    | nil => simp at h
    | cons y ys =>
      simp only [List.length_cons, Nat.add_right_cancel_iff] at h
      simp [ih ys h]; ring

theorem poly_zipWith_sub (a b : List R) (h : a.length = b.length) :
    poly (List.zipWith (· - ·) a b) = poly a - poly b := by
  induction a generalizing b with
  | nil => cases b <;> simp_all
  | cons x xs ih =>
    cases b with
    | nil => simp at h
    | cons y ys =>
      simp only [List.length_cons, Nat.add_right_cancel_iff] at h
      simp [ih ys h]; ring

theorem poly_take_drop (l : List R) (h : Nat) (hl : h ≤ l.length) :
    poly l = poly (l.take h) + X ^ h * poly (l.drop h) := by
  conv_lhs => rw [← List.take_append_drop h l]
  rw [poly_append, List.length_take, Nat.min_eq_left hl]

theorem natDegree_poly_lt (l : List R) (k : Nat) (hk : l.length ≤ k) : (poly l).coeff k = 0 := by
  rw [coeff_poly, getD_ge _ _ _ hk]

/-- coefficient `k` of a product of two list polynomials: the schoolbook sum -/
theorem coeff_poly_mul (a b : List R) (k : Nat) :
    (poly a * poly b).coeff k = ∑ i ∈ range (k + 1), a.getD i 0 * b.getD (k - i) 0 := by
  rw [coeff_mul, Finset.Nat.sum_antidiagonal_eq_sum_range_succ_mk]
  simp [coeff_poly]

/-- a product of polynomials of `la` and `lb` coefficients has no coefficient from `la + lb - 1` on -/
theorem coeff_poly_mul_zero (a b : List R) (k : Nat) (hk : a.length + b.length ≤ k + 1) :
    (poly a * poly b).coeff k = 0 := by
  rw [coeff_poly_mul]
  apply Finset.sum_eq_zero
  intro i hi
  by_cases h : a.length ≤ i
  · rw [getD_ge _ _ _ h, zero_mul]
  · rw [getD_ge b _ _ (by simp at hi; omega), mul_zero]


theorem getD_map_hom {o : Ops α} {φ : α → R} (h : Hom o φ) (l : List α) (k : Nat) :
    (l.map φ).getD k 0 = φ (l.getD k o.zero) := by
  rw [List.getD_eq_getElem?_getD, List.getD_eq_getElem?_getD, List.getElem?_map]
  cases l[k]? with
  | none => simp [h.zero]
  | some a => simp

/-! ### `_basic_mul` -/

theorem rowLoop_spec (o : Ops α) (i lq : Nat) (pi : α) (qs : List α) (j : Nat) (z : List α)
    (hlen : i + j + qs.length ≤ z.length) :
    (rowLoop o i lq pi qs j z).length = z.length ∧
    ∀ k, (rowLoop o i lq pi qs j z).getD k o.zero =
      if i + j ≤ k ∧ k < i + j + qs.length then
        (if i = 0 ∨ k - i + 1 = lq then o.mul pi (qs.getD (k - i - j) o.zero)
         else o.add (z.getD k o.zero) (o.mul pi (qs.getD (k - i - j) o.zero)))
      else z.getD k o.zero := by
  induction qs generalizing j z with
  | nil => simp [rowLoop]
  | cons qj qs ih =>
    simp only [List.length_cons] at hlen
    unfold rowLoop
    simp only
    set z' := (if i = 0 ∨ j + 1 = lq then z.set (i + j) (o.mul pi qj)
      else z.set (i + j) (o.add (z.getD (i + j) o.zero) (o.mul pi qj))) with hz'
    have hzl : z'.length = z.length := by rw [hz']; split_ifs <;> simp
    obtain ⟨h1, h2⟩ := ih (j + 1) z' (by rw [hzl]; omega)
    refine ⟨by rw [h1, hzl], ?_⟩
    intro k
    rw [h2 k]
    have hz'k : z'.getD k o.zero = if k = i + j then
        (if i = 0 ∨ j + 1 = lq then o.mul pi qj else o.add (z.getD (i + j) o.zero) (o.mul pi qj))
        else z.getD k o.zero := by
      rw [hz']
      split_ifs with hc hk hk
      · rw [getD_set _ _ _ _ _ (by omega), if_pos hk]
      · rw [getD_set _ _ _ _ _ (by omega), if_neg hk]
      · rw [getD_set _ _ _ _ _ (by omega), if_pos hk]
      · rw [getD_set _ _ _ _ _ (by omega), if_neg hk]
    simp only [List.length_cons]
    by_cases hk1 : i + (j + 1) ≤ k ∧ k < i + (j + 1) + qs.length
    · have hc : i + j ≤ k ∧ k < i + j + (qs.length + 1) := by omega
      rw [if_pos hk1, if_pos hc]
      have hne : ¬ k = i + j := by omega
      rw [hz'k, if_neg hne]
      have hidx : k - i - j = (k - i - (j + 1)) + 1 := by omega
      rw [hidx, List.getD_cons_succ]
    · rw [if_neg hk1]
      by_cases hk : k = i + j
      · have hc : i + j ≤ k ∧ k < i + j + (qs.length + 1) := by omega
        rw [hz'k, if_pos hk, if_pos hc]
        have h0 : k - i - j = 0 := by omega
        have h1' : k - i + 1 = j + 1 := by omega
        rw [h0, List.getD_cons_zero, h1', hk]
      · have hc : ¬ (i + j ≤ k ∧ k < i + j + (qs.length + 1)) := by omega
        rw [hz'k, if_neg hk, if_neg hc]


/-- partial schoolbook sum over the rows `< i` -/
def partialSum (P Q : Nat → R) (i k : Nat) : R :=
  ∑ i' ∈ range i, if i' ≤ k then P i' * Q (k - i') else 0

theorem partialSum_succ (P Q : Nat → R) (i k : Nat) :
    partialSum P Q (i + 1) k = partialSum P Q i k + if i ≤ k then P i * Q (k - i) else 0 := by
  unfold partialSum; rw [sum_range_succ]

theorem rowsLoop_spec {o : Ops α} {φ : α → R} (h : Hom o φ) (p q : List α) (hp : 1 ≤ p.length)
    (hq : 1 ≤ q.length) (ps : List α) (i : Nat) (hps : ps = p.drop i) (z : List α)
    (hz : p.length + q.length - 1 ≤ z.length)
    (inv1 : ∀ k, 1 ≤ i → k < i + q.length - 1 →
      φ (z.getD k o.zero) = partialSum (fun a => φ (p.getD a o.zero)) (fun b => φ (q.getD b o.zero)) i k)
    (inv2 : ∀ k, p.length + q.length - 1 ≤ k → φ (z.getD k o.zero) = 0) :
    (rowsLoop o q ps i z).length = z.length ∧
    (∀ k, k < p.length + q.length - 1 → φ ((rowsLoop o q ps i z).getD k o.zero) =
      partialSum (fun a => φ (p.getD a o.zero)) (fun b => φ (q.getD b o.zero)) p.length k) ∧
    (∀ k, p.length + q.length - 1 ≤ k → φ ((rowsLoop o q ps i z).getD k o.zero) = 0) := by
  induction ps generalizing i z with
  | nil =>
    have hi : p.length ≤ i := by
      by_contra hcon
      have : (p.drop i).length = p.length - i := List.length_drop
      rw [← hps] at this; simp at this; omega
    unfold rowsLoop
    refine ⟨rfl, ?_, inv2⟩
    intro k hk
    -- rows beyond p.length contribute nothing
    have hext : ∀ m, p.length ≤ m → partialSum (fun a => φ (p.getD a o.zero))
        (fun b => φ (q.getD b o.zero)) m k = partialSum (fun a => φ (p.getD a o.zero))
        (fun b => φ (q.getD b o.zero)) p.length k := by
      intro m hm
      induction m with
      | zero => have : p.length = 0 := by omega
                rw [this]
      | succ m ihm =>
        rcases Nat.lt_or_ge m p.length with hlt | hge
        · have : m + 1 = p.length := by omega
          rw [this]
        · rw [partialSum_succ, ihm hge]
          simp only [getD_ge p m o.zero hge, h.zero, zero_mul, ite_self, add_zero]
    rw [inv1 k (by omega) (by omega), hext i hi]
  | cons pi ps' ih =>
    have hi : i < p.length := by
      by_contra hcon
      have : p.drop i = [] := List.drop_eq_nil_of_le (by omega)
      rw [this] at hps; simp at hps
    have hpi : pi = p.getD i o.zero := by
      have := List.drop_eq_getElem_cons hi
      rw [← hps] at this
      rw [List.getD_eq_getElem?_getD, List.getElem?_eq_getElem hi]
      simp only [List.cons.injEq] at this
      simp [this.1]
    have hps' : ps' = p.drop (i + 1) := by
      have := List.drop_eq_getElem_cons hi
      rw [← hps] at this
      simp only [List.cons.injEq] at this
      exact this.2
    unfold rowsLoop
    obtain ⟨r1, r2⟩ := rowLoop_spec o i q.length pi q 0 z (by omega)
    refine (ih (i + 1) hps' _ (by rw [r1]; exact hz) ?_ ?_) |> fun ⟨a, b, c⟩ => ⟨by rw [a, r1], b, c⟩
    · intro k _ hk
      rw [r2 k, partialSum_succ]
      by_cases hrange : i + 0 ≤ k ∧ k < i + 0 + q.length
      · rw [if_pos hrange, if_pos (by omega : i ≤ k)]
        have hsub : k - i - 0 = k - i := by omega
        rw [hsub]
        by_cases hfirst : i = 0 ∨ k - i + 1 = q.length
        · rw [if_pos hfirst, h.mul, hpi]
          -- the rows before contribute nothing at a fresh index
          have hzero : partialSum (fun a => φ (p.getD a o.zero)) (fun b => φ (q.getD b o.zero)) i k = 0 := by
            unfold partialSum
            apply Finset.sum_eq_zero
            intro i' hi'
            have hi'' : i' < i := by simpa using hi'
            have hge : q.length ≤ k - i' := by omega
            simp only [getD_ge q _ o.zero hge, h.zero, mul_zero, ite_self]
          rw [hzero, zero_add]
        · rw [if_neg hfirst, h.add, h.mul, hpi, inv1 k (by omega) (by omega)]
      · rw [if_neg hrange]
        have hlt : k < i := by omega
        rw [if_neg (by omega : ¬ i ≤ k), add_zero]
        exact inv1 k (by omega) (by omega)
    · intro k hk
      rw [r2 k, if_neg (by omega)]
      exact inv2 k hk


theorem partialSum_ext {o : Ops α} {φ : α → R} (h : Hom o φ) (p q : List α) (k m : Nat)
    (hm : p.length ≤ m) :
    partialSum (fun a => φ (p.getD a o.zero)) (fun b => φ (q.getD b o.zero)) m k =
      partialSum (fun a => φ (p.getD a o.zero)) (fun b => φ (q.getD b o.zero)) p.length k := by
  induction m with
  | zero => have : p.length = 0 := by omega
            rw [this]
  | succ m ihm =>
    rcases Nat.lt_or_ge m p.length with hlt | hge
    · have : m + 1 = p.length := by omega
      rw [this]
    · rw [partialSum_succ, ihm hge]
      simp only [getD_ge p m o.zero hge, h.zero, zero_mul, ite_self, add_zero]

theorem partialSum_full (P Q : Nat → R) (k M : Nat) (hM : k + 1 ≤ M) :
    partialSum P Q M k = ∑ i ∈ range (k + 1), P i * Q (k - i) := by
  unfold partialSum
  rw [← Finset.sum_subset (Finset.range_subset_range.2 hM)]
  · apply Finset.sum_congr rfl
    intro i hi
    rw [if_pos (by simp at hi; omega)]
  · intro i _ hi
    rw [if_neg (by simp at hi; omega)]

/-- **`_basic_mul` is the schoolbook product**, for arbitrary (unequal) operand lengths `≥ 1` and
any previous contents of `z`: the first `|p|+|q|-1` entries are the product coefficients, the rest
of `z` is zero. -/
theorem basicMul_spec {o : Ops α} {φ : α → R} (h : Hom o φ) (z p q : List α) (hp : 1 ≤ p.length)
    (hq : 1 ≤ q.length) (hz : p.length + q.length - 1 ≤ z.length) :
    ∃ z', basicMul o z p q = some z' ∧ z'.length = z.length ∧
      poly (z'.map φ) = poly (p.map φ) * poly (q.map φ) := by
  unfold basicMul
  rw [if_neg (by omega), if_neg (by omega)]
  simp only
  set m := p.length + q.length - 1 with hm
  set z0 := z.take m ++ List.replicate (z.length - m) o.zero with hz0
  have hz0l : z0.length = z.length := by
    rw [hz0, List.length_append, List.length_take, List.length_replicate]; omega
  have inv2 : ∀ k, m ≤ k → φ (z0.getD k o.zero) = 0 := by
    intro k hk
    have : z0.getD k o.zero = o.zero := by
      rw [hz0, List.getD_eq_getElem?_getD, List.getElem?_append_right (by rw [List.length_take]; omega)]
      rw [List.getElem?_replicate]
      split_ifs <;> rfl
    rw [this, h.zero]
  obtain ⟨r1, r2, r3⟩ := rowsLoop_spec h p q hp hq p 0 (by simp) z0 (by rw [hz0l]; exact hz)
    (fun k hk _ => by omega) inv2
  refine ⟨_, rfl, by rw [r1, hz0l], ?_⟩
  ext k
  rw [coeff_poly, getD_map_hom h, coeff_poly_mul]
  simp only [getD_map_hom h]
  by_cases hk : k < m
  · rw [r2 k hk, ← partialSum_ext h p q k (max p.length (k + 1)) (le_max_left _ _),
      partialSum_full _ _ k _ (le_max_right _ _)]
  · rw [r3 k (by omega)]
    symm
    apply Finset.sum_eq_zero
    intro i hi
    by_cases hge : p.length ≤ i
    · rw [getD_ge p _ _ hge, h.zero, zero_mul]
    · rw [getD_ge q _ _ (by simp at hi; omega), h.zero, mul_zero]


/-! ### `karatsuba` -/

theorem zipOp_eq (f : α → α → α) (z x : List α) (h : z.length = x.length) :
    zipOp f z x = some (List.zipWith f z x) := by
  unfold zipOp; rw [if_neg (by omega)]

theorem map_zipWith_add {o : Ops α} {φ : α → R} (h : Hom o φ) (a b : List α) :
    (List.zipWith o.add a b).map φ = List.zipWith (· + ·) (a.map φ) (b.map φ) := by
  induction a generalizing b with
  | nil => simp
  | cons x xs ih => cases b with
    | nil => simp
    | cons y ys => simp [ih, h.add]

theorem map_zipWith_sub {o : Ops α} {φ : α → R} (h : Hom o φ) (a b : List α) :
    (List.zipWith o.sub a b).map φ = List.zipWith (· - ·) (a.map φ) (b.map φ) := by
  induction a generalizing b with
  | nil => simp
  | cons x xs ih => cases b with
    | nil => simp
    | cons y ys => simp [ih, h.sub]

/-- adding `b` to the first `|b|` entries of `a` -/
theorem poly_addPrefix {o : Ops α} {φ : α → R} (h : Hom o φ) (a b : List α) (hl : b.length ≤ a.length) :
    poly ((List.zipWith o.add (a.take b.length) b ++ a.drop b.length).map φ) =
      poly (a.map φ) + poly (b.map φ) := by
  rw [List.map_append, poly_append, map_zipWith_add h, poly_zipWith_add _ _ (by simp; omega)]
  rw [poly_take_drop (a.map φ) b.length (by simpa using hl)]
  simp only [List.map_take, List.map_drop, List.length_zipWith, List.length_take, List.length_map]
  rw [Nat.min_eq_left (by omega : b.length ≤ a.length), Nat.min_self]
  ring

/-- subtracting `b` from the first `|b|` entries of `a` -/
theorem poly_subPrefix {o : Ops α} {φ : α → R} (h : Hom o φ) (a b : List α) (hl : b.length ≤ a.length) :
    poly ((List.zipWith o.sub (a.take b.length) b ++ a.drop b.length).map φ) =
      poly (a.map φ) - poly (b.map φ) := by
  rw [List.map_append, poly_append, map_zipWith_sub h, poly_zipWith_sub _ _ (by simp; omega)]
  rw [poly_take_drop (a.map φ) b.length (by simpa using hl)]
  simp only [List.map_take, List.map_drop, List.length_zipWith, List.length_take, List.length_map]
  rw [Nat.min_eq_left (by omega : b.length ≤ a.length), Nat.min_self]
  ring

/-- dropping entries whose coefficients vanish does not change the polynomial -/
theorem poly_take_of_zero (l : List R) (t : Nat) (hz : ∀ k, t ≤ k → (poly l).coeff k = 0) :
    poly (l.take t) = poly l := by
  ext k
  rw [coeff_poly]
  by_cases hk : k < t
  · rw [coeff_poly, List.getD_eq_getElem?_getD, List.getD_eq_getElem?_getD, List.getElem?_take_of_lt hk]
  · rw [hz k (by omega), getD_ge _ _ _ (by rw [List.length_take]; omega)]

theorem poly_three (A B C : List R) :
    poly (A ++ B ++ C) = poly A + X ^ A.length * poly B + X ^ (A.length + B.length) * poly C := by
  rw [poly_append, poly_append, List.length_append]

/-- adding `m` into `zz[off .. off + |m|]` -/
theorem poly_addAt {o : Ops α} {φ : α → R} (h : Hom o φ) (zz m : List α) (off : Nat)
    (hl : off + m.length ≤ zz.length) :
    poly ((setSlice zz off (List.zipWith o.add ((zz.drop off).take m.length) m)).map φ) =
      poly (zz.map φ) + X ^ off * poly (m.map φ) := by
  unfold setSlice
  have hB : ((zz.drop off).take m.length).length = m.length := by
    rw [List.length_take, List.length_drop]; omega
  have hA : (zz.take off).length = off := by rw [List.length_take]; omega
  have hsplit : zz = zz.take off ++ (zz.drop off).take m.length ++ zz.drop (off + m.length) := by
    conv_lhs => rw [← List.take_append_drop off zz]
    rw [List.append_assoc]
    congr 1
    conv_lhs => rw [← List.take_append_drop m.length (zz.drop off)]
    rw [List.drop_drop]
  have hzl : (List.zipWith o.add ((zz.drop off).take m.length) m).length = m.length := by
    rw [List.length_zipWith, hB, Nat.min_self]
  rw [hzl]
  have e1 : poly ((zz.take off ++ List.zipWith o.add ((zz.drop off).take m.length) m ++
      zz.drop (off + m.length)).map φ) =
      poly ((zz.take off).map φ) + X ^ off * (poly (((zz.drop off).take m.length).map φ) + poly (m.map φ)) +
        X ^ (off + m.length) * poly ((zz.drop (off + m.length)).map φ) := by
    rw [List.map_append, List.map_append, poly_three, List.length_map, List.length_map, hA, hzl,
      map_zipWith_add h, poly_zipWith_add _ _ (by rw [List.length_map, List.length_map, hB])]
  have e2 : poly (zz.map φ) =
      poly ((zz.take off).map φ) + X ^ off * poly (((zz.drop off).take m.length).map φ) +
        X ^ (off + m.length) * poly ((zz.drop (off + m.length)).map φ) := by
    conv_lhs => rw [hsplit]
    rw [List.map_append, List.map_append, poly_three, List.length_map, List.length_map, hA, hB]
  rw [e1, e2]; ring


/-- **`Poly::karatsuba` is the schoolbook product** on its domain `karaOk` (every operand-length
pair for which the code neither reaches a panic site nor forms a product with an empty operand),
with the code's split point, buffer reuse and recombination: the returned `z` holds the product
coefficients followed by zeros. -/
theorem karatsuba_spec {o : Ops α} {φ : α → R} (h : Hom o φ) : ∀ (f : Nat) (z p q tmp : List α),
    karaOk f p.length q.length z.length tmp.length = true →
    ∃ z' tmp', karatsuba o f z p q tmp = some (z', tmp') ∧ z'.length = z.length ∧
      tmp'.length = tmp.length ∧ poly (z'.map φ) = poly (p.map φ) * poly (q.map φ) := by
  intro f
  induction f with
  | zero => intro z p q tmp hok; simp [karaOk] at hok
  | succ f ih =>
    intro z p q tmp hok
    unfold karaOk at hok
    unfold karatsuba
    simp only at hok ⊢
    by_cases hbase : (p.length ≤ 20 ∧ q.length ≤ 20) ∨ p.length ≤ (max p.length q.length + 1) / 2 ∨
        q.length ≤ (max p.length q.length + 1) / 2
    · rw [if_pos hbase] at hok ⊢
      simp only [decide_eq_true_eq] at hok
      obtain ⟨z', hz', hl, hpoly⟩ := basicMul_spec h z p q hok.1 hok.2.1 hok.2.2
      exact ⟨z', tmp, by rw [hz']; rfl, hl, rfl, hpoly⟩
    · rw [if_neg hbase] at hok ⊢
      simp only [Bool.and_eq_true, decide_eq_true_eq] at hok
      obtain ⟨⟨⟨⟨hz1, ht1, hz3⟩, ok1⟩, ok2⟩, ok3⟩ := hok
      set half := (max p.length q.length + 1) / 2 with hhalf
      have hp1 : half < p.length := by omega
      have hq1 : half < q.length := by omega
      have hM1 := le_max_left p.length q.length
      have hM2 := le_max_right p.length q.length
      have hp2 : p.length ≤ 2 * half := by omega
      have hq2 : q.length ≤ 2 * half := by omega
      rw [if_neg (by omega), if_neg (by omega), if_neg (by omega)]
      -- lengths of the slices
      have lplo : (p.take half).length = half := by rw [List.length_take]; omega
      have lqlo : (q.take half).length = half := by rw [List.length_take]; omega
      have lphi : (p.drop half).length = p.length - half := List.length_drop
      have lqhi : (q.drop half).length = q.length - half := List.length_drop
      have ltmplo : (tmp.take (2 * half)).length = 2 * half := by rw [List.length_take]; omega
      have ltmphi : (tmp.drop (2 * half)).length = tmp.length - 2 * half := List.length_drop
      rw [zipOp_eq o.add _ _ (by rw [List.length_take, lplo, lphi]; omega),
        zipOp_eq o.add _ _ (by rw [List.length_take, lqlo, lqhi]; omega)]
      simp only
      set ps := List.zipWith o.add ((p.take half).take (p.drop half).length) (p.drop half) ++
        (p.take half).drop (p.drop half).length with hps
      set qs := List.zipWith o.add ((q.take half).take (q.drop half).length) (q.drop half) ++
        (q.take half).drop (q.drop half).length with hqs
      have lps : ps.length = half := by
        simp only [hps, List.length_append, List.length_zipWith, List.length_take, List.length_drop]; omega
      have lqs : qs.length = half := by
        simp only [hqs, List.length_append, List.length_zipWith, List.length_take, List.length_drop]; omega
      have pps : poly (ps.map φ) = poly ((p.take half).map φ) + poly ((p.drop half).map φ) :=
        poly_addPrefix h _ _ (by rw [lplo, lphi]; omega)
      have pqs : poly (qs.map φ) = poly ((q.take half).map φ) + poly ((q.drop half).map φ) :=
        poly_addPrefix h _ _ (by rw [lqlo, lqhi]; omega)
      set tmphi1 := ps ++ qs ++ (tmp.drop (2 * half)).drop (2 * half) with htmphi1
      have ltmphi1 : tmphi1.length = tmp.length - 2 * half := by
        rw [htmphi1, List.length_append, List.length_append, lps, lqs, List.length_drop, ltmphi]; omega
      -- middle product
      obtain ⟨mid, z1, e1, lmid, lz1, pmid⟩ := ih (tmp.take (2 * half)) ps qs z
        (by rw [lps, lqs, ltmplo]; exact ok1)
      rw [e1]; simp only
      rw [ltmplo] at lmid
      -- low product
      have lz1t : (z1.take (2 * half)).length = 2 * half := by rw [List.length_take]; omega
      obtain ⟨lo, tmphi2, e2, llo, ltmphi2, plo⟩ := ih (z1.take (2 * half)) (p.take half) (q.take half) tmphi1
        (by rw [lplo, lqlo, lz1t, ltmphi1]; exact ok2)
      rw [e2]; simp only
      rw [lz1t] at llo
      -- high product
      have lz1d : (z1.drop (2 * half)).length = z.length - 2 * half := by rw [List.length_drop, lz1]
      obtain ⟨hi, tmphi3, e3, lhi, ltmphi3, phi'⟩ := ih (z1.drop (2 * half)) (p.drop half) (q.drop half) tmphi2
        (by rw [lphi, lqhi, lz1d, ltmphi2, ltmphi1]; exact ok3)
      rw [e3]; simp only
      rw [lz1d] at lhi
      rw [if_neg (by rw [lphi, lqhi]; omega)]
      set hilen := (p.drop half).length + (q.drop half).length - 1 with hhilen
      have hhl : hilen = p.length - half + (q.length - half) - 1 := by rw [hhilen, lphi, lqhi]
      rw [if_neg (by rw [lhi]; omega)]
      rw [zipOp_eq o.sub mid lo (by rw [lmid, llo])]
      simp only
      set m1 := List.zipWith o.sub mid lo with hm1
      have lm1 : m1.length = 2 * half := by rw [hm1, List.length_zipWith, lmid, llo, Nat.min_self]
      rw [zipOp_eq o.sub _ _ (by rw [List.length_take, List.length_take, lm1, lhi]; omega)]
      simp only
      set m2 := List.zipWith o.sub (m1.take hilen) (hi.take hilen) ++ m1.drop hilen with hm2
      have lm2 : m2.length = 2 * half := by
        rw [hm2, List.length_append, List.length_zipWith, List.length_take, List.length_take,
          List.length_drop, lm1, lhi]; omega
      rw [if_neg (by rw [List.length_append, llo, lhi]; omega)]
      have lzz : (lo ++ hi).length = z.length := by rw [List.length_append, llo, lhi]; omega
      rw [zipOp_eq o.add _ _ (by rw [List.length_take, List.length_drop, lzz, lm2]; omega)]
      simp only
      refine ⟨_, _, rfl, ?_, ?_, ?_⟩
      · -- length of z
        unfold setSlice
        simp only [List.length_append, List.length_take, List.length_drop, List.length_zipWith, lzz, lm2]
        omega
      · rw [List.length_append, lm2, ltmphi3, ltmphi2, ltmphi1]; omega
      · -- the polynomial identity
        have pm1 : poly (m1.map φ) = poly (mid.map φ) - poly (lo.map φ) := by
          rw [hm1, map_zipWith_sub h, poly_zipWith_sub _ _ (by rw [List.length_map, List.length_map, lmid, llo])]
        have lhit : (hi.take hilen).length = hilen := by rw [List.length_take, lhi]; omega
        have pm2 : poly (m2.map φ) = poly (m1.map φ) - poly ((hi.take hilen).map φ) := by
          have := poly_subPrefix h m1 (hi.take hilen) (by rw [lhit, lm1]; omega)
          rw [lhit] at this
          exact this
        have phit : poly ((hi.take hilen).map φ) = poly (hi.map φ) := by
          rw [List.map_take]
          apply poly_take_of_zero
          intro k hk
          rw [phi']
          exact coeff_poly_mul_zero _ _ k (by rw [List.length_map, List.length_map, lphi, lqhi]; omega)
        have hfin := poly_addAt h (lo ++ hi) m2 half (by rw [lzz, lm2]; omega)
        rw [lm2] at hfin
        rw [hfin, List.map_append, poly_append, List.length_map, llo, pm2, pm1, phit, pmid, plo, phi', pps, pqs]
        rw [poly_take_drop (p.map φ) half (by rw [List.length_map]; omega),
          poly_take_drop (q.map φ) half (by rw [List.length_map]; omega)]
        simp only [List.map_take, List.map_drop]
        ring


/-- **every pair of operand lengths is in the domain** (after the fix): `|z| ≥ lp + lq`,
`|tmp| ≥ 3·max(lp, lq)`, fuel `f + 1` for `max(lp, lq) ≤ 20·2^f` -/
theorem karaOk_total : ∀ (f lp lq zl tl : Nat), 1 ≤ lp → 1 ≤ lq → max lp lq ≤ 20 * 2 ^ f → lp + lq ≤ zl →
    3 * max lp lq ≤ tl → karaOk (f + 1) lp lq zl tl = true := by
  intro f
  induction f with
  | zero =>
    intro lp lq zl tl h1 h2 h3 h4 h5
    have hM1 := le_max_left lp lq
    have hM2 := le_max_right lp lq
    unfold karaOk
    simp only
    rw [if_pos (Or.inl (by omega))]
    simp only [decide_eq_true_eq]; omega
  | succ f ih =>
    intro lp lq zl tl h1 h2 h3 h4 h5
    have hM1 := le_max_left lp lq
    have hM2 := le_max_right lp lq
    have hMx : max lp lq = lp ∨ max lp lq = lq := by
      rcases le_total lp lq with h | h
      · right; exact max_eq_right h
      · left; exact max_eq_left h
    unfold karaOk
    simp only
    set half := (max lp lq + 1) / 2 with hhalf
    by_cases hb : (lp ≤ 20 ∧ lq ≤ 20) ∨ lp ≤ half ∨ lq ≤ half
    · rw [if_pos hb]; simp only [decide_eq_true_eq]; omega
    · rw [if_neg hb]
      simp only [Bool.and_eq_true, decide_eq_true_eq]
      have hpow : 2 ^ (f + 1) = 2 * 2 ^ f := by rw [pow_succ]; ring
      have hmm : max half half = half := max_self half
      have hM3 : max (lp - half) (lq - half) ≤ half := max_le (by omega) (by omega)
      refine ⟨⟨⟨by omega, ?_⟩, ?_⟩, ?_⟩
      · exact ih _ _ _ _ (by omega) (by omega) (by rw [hmm]; omega) (by omega) (by rw [hmm]; omega)
      · exact ih _ _ _ _ (by omega) (by omega) (by rw [hmm]; omega) (by omega) (by rw [hmm]; omega)
      · exact ih _ _ _ _ (by omega) (by omega) (by omega) (by omega) (by omega)

theorem karaOk_equal (f l zl tl : Nat) (h1 : 1 ≤ l) (h2 : l ≤ 20 * 2 ^ f) (h3 : 2 * l ≤ zl) (h4 : 3 * l ≤ tl) :
    karaOk (f + 1) l l zl tl = true :=
  karaOk_total f l l zl tl h1 h1 (by rw [max_self]; exact h2) (by omega) (by rw [max_self]; exact h4)

/-- **`Poly::mul_karatsuba`** for ALL operand lengths `1 ≤ |q| ≤ |p| ≤ 20·2^63` (`z` of `2|p|`, `tmp` of
`6|p|` zero entries): no panic site is reached and the result is the schoolbook product padded with
zeros to `2|p|` coefficients. -/
theorem mulKaratsuba_spec {o : Ops α} {φ : α → R} (h : Hom o φ) (p q : List α)
    (hl : q.length ≤ p.length) (h1 : 1 ≤ q.length) (h2 : p.length ≤ 20 * 2 ^ 63) :
    ∃ z', mulKaratsuba o p q = some z' ∧ z'.length = 2 * p.length ∧
      poly (z'.map φ) = poly (p.map φ) * poly (q.map φ) := by
  unfold mulKaratsuba FUEL
  obtain ⟨z', tmp', e, lz, _, hp⟩ := karatsuba_spec h 64 (List.replicate (2 * p.length) o.zero) p q
    (List.replicate (6 * p.length) o.zero) (by
      rw [List.length_replicate, List.length_replicate]
      exact karaOk_total 63 _ _ _ _ (by omega) h1 (by rw [max_eq_left hl]; exact h2) (by omega)
        (by rw [max_eq_left hl]; omega))
  rw [e]
  exact ⟨z', rfl, by rw [lz, List.length_replicate], hp⟩

end Ymq.PolyMul
