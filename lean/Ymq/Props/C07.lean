/-
C07 — Montgomery modular arithmetic equals ordinary arithmetic modulo n.
Only property theorems live here (helper lemmas: Ymq/Lemmas).
-/
import Ymq.Lemmas.Mg64

namespace Ymq.C07
open Ymq.Mg64

/-- `mg_redc`: on its documented domain (`x < n·2^64`, `n·ninv ≡ -1 mod 2^64`) the routine does
not panic (no underflow/overflow/debug assertion in either profile), returns a fully reduced
residue `r < n`, and `r·2^64 ≡ x (mod n)`. -/
theorem mgRedc_spec (n ninv x : Nat) (hn : 0 < n) (hnW : n < W) (hninv : (n * ninv + 1) % W = 0)
    (hx : x < n * W) :
    ∃ r, mgRedc n ninv x = some r ∧ r < n ∧ r * W % n = x % n := by
  unfold mgRedc
  have hW0 : 0 < W := by decide
  have hxhin : x / W < n := by
    rw [Nat.div_lt_iff_lt_mul hW0]; exact hx
  have hxhi : x / W % W = x / W := Nat.mod_eq_of_lt (lt_trans hxhin hnW)
  simp only [hxhi]
  by_cases hlo : x % W = 0
  · simp only [hlo, if_true]
    refine ⟨x / W, rfl, hxhin, ?_⟩
    have : x = x / W * W := by
      have := Nat.div_add_mod x W; rw [hlo] at this; rw [Nat.mul_comm]; omega
    rw [← this]
  · simp only [hlo, if_false]
    have hk := redc_low_word_cancels n ninv (x % W) hW0 hninv hlo (Nat.mod_lt _ hW0)
    generalize hmul : x % W * ninv % W = mul at hk
    have hmulW : mul < W := by rw [← hmul]; exact Nat.mod_lt _ hW0
    have hm : mul * n < W * n := Nat.mul_lt_mul_of_pos_right hmulW hn
    have hmhi : mul * n / W < n := by
      rw [Nat.div_lt_iff_lt_mul hW0, Nat.mul_comm n W]; exact hm
    have hmhi' : mul * n / W % W = mul * n / W := Nat.mod_eq_of_lt (lt_trans hmhi hnW)
    have hdbg : (x % W + mul * n % W) % W = 0 := by rw [hk]; exact Nat.mod_self W
    simp only [hmhi', hdbg, ne_eq, not_true_eq_false, if_false]
    have h1 : ¬ n < mul * n / W + 1 := by omega
    simp only [h1, if_false]
    -- t * W = x + m
    have hsum : (x / W + mul * n / W + 1) * W = x + mul * n := by
      have e1 := Nat.div_add_mod x W
      have e2 := Nat.div_add_mod (mul * n) W
      nlinarith
    have hmod : ∀ t, t * W = x + mul * n → t * W % n = x % n := by
      intro t ht; rw [ht, Nat.add_mul_mod_self_right]
    have hlt2 : x / W + mul * n / W + 1 < 2 * n := by
      have : (x / W + mul * n / W + 1) * W < 2 * n * W := by rw [hsum]; nlinarith
      exact Nat.lt_of_mul_lt_mul_right this
    by_cases hge : x / W ≥ n - mul * n / W - 1
    · simp only [hge, if_true]
      refine ⟨_, rfl, by omega, ?_⟩
      have : (x / W - (n - mul * n / W - 1)) * W + n * W = x + mul * n := by
        have : x / W - (n - mul * n / W - 1) + n = x / W + mul * n / W + 1 := by omega
        rw [← hsum, ← this]; ring
      have h2 : (x / W - (n - mul * n / W - 1)) * W % n = ((x / W - (n - mul * n / W - 1)) * W + n * W) % n := by
        rw [Nat.add_mul_mod_self_left]
      rw [h2, this, Nat.add_mul_mod_self_right]
    · simp only [hge, if_false]
      have h3 : ¬ (x / W + mul * n / W + 1 ≥ W) := by omega
      simp only [h3, if_false]
      exact ⟨_, rfl, by omega, hmod _ hsum⟩

/-- `mg_mul`: Montgomery product of two reduced residues. -/
theorem mgMul_spec (n ninv x y : Nat) (hn : 0 < n) (hnW : n < W) (hninv : (n * ninv + 1) % W = 0)
    (hx : x < n) (hy : y < W) :
    ∃ r, mgMul n ninv x y = some r ∧ r < n ∧ r * W % n = x * y % n := by
  unfold mgMul
  exact mgRedc_spec n ninv (x * y) hn hnW hninv (Nat.mul_lt_mul_of_lt_of_lt hx hy)

/-- non-vacuity: the hypotheses are met by n = 7, ninv = 10540996613548315209. -/
example : (7 * 10540996613548315209 + 1) % W = 0 ∧ mgMul 7 10540996613548315209 3 5 = some 4 ∧
    4 * W % 7 = 3 * 5 % 7 := by decide

end Ymq.C07
