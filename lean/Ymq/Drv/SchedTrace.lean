/-
Driver for the protocol traces of classical QS, ECM and class groups (C04/C05, op `sched_model`): the MODEL's
answer to "which polls and how many adds between them, and how does the driver end", computed from the generated
shapes (Ymq/Gen/SchedShape.lean) with the step function of Ymq/Model/Sched.lean.

`sched_model <name> <units> <T> <flip|-> [final]`
  name   a name of `namedShapes` (qs-st, qs-mt, ecm, cg-st, ...)
  units  relations added per unit (comma list): a large block pair of QS (all given to the forward arm: a count does not
         say which arm), a curve of ECM (0 = reports nothing, 1 = reports), an A value (one polynomial)
  T      the store is complete when it holds T relations (0 = never)
  flip   the k-th poll (0-based) and every later one answers true; `-` = never
  final  the driver polls once more after the loop (classgroup(): `if prefs.abort() { return None; }`)
One worker, fresh flag reads, on the unit-level model (Ymq/Model/SchedUnits.lean: `initU`, `stepU`): a poll answered true ends
the loop when the generated `leavesLoop` says so and only the unit otherwise (the next unit polls again); a flag seen set
ends the worker. Answer: `<events>/<outcome>` as printed by harness/src/ops_schedtrace.rs (`a<c>` only for QS).
No Mathlib.
-/
import Ymq.Drv.Util
import Ymq.Model.SchedUnits

namespace Ymq.Drv
open Ymq.Sched Ymq.Gen.SchedShape

structure TraceSt where
  c : UCfg Nat Nat
  polls : Nat := 0
  pend : Nat := 0
  ev : Array String := #[]
  fired : Bool := false

/-- worker 0 of the unit-level model (`stepU`, the function the theorems `abort_unit_bounded` ... are about) run to its end with
fresh flag reads; the j-th poll answers `flip ≤ j`; `fuel` bounds the number of steps (actions + units) -/
def runTrace (leaves : Bool) (T : Nat) (flip : Option Nat) (showAdds : Bool) : Nat → TraceSt → TraceSt
  | 0, st => st
  | fuel + 1, st =>
    let enough : Nat → Bool := fun s => T > 0 && s ≥ T
    match (st.c.ws[0]? : Option (UWorker Nat)) with
    | none => st
    | some { cur := [], rest := [] } => st
    | some { cur := [], rest := _ :: _ } =>
      runTrace leaves T flip showAdds fuel { st with c := stepU leaves (fun s _ => s + 1) enough st.c 0 false false }
    | some { cur := a :: _, rest := _ } =>
      let ab := match a with
        | Act.poll => (match flip with | some k => decide (k ≤ st.polls) | none => false)
        | _ => false
      let st1 : TraceSt := match a with
        | Act.poll =>
          let ev := if showAdds && st.pend > 0 then st.ev.push s!"a{st.pend}" else st.ev
          { st with polls := st.polls + 1, pend := 0, ev := ev.push (if ab then "p1" else "p0"), fired := st.fired || ab }
        | Act.add _ => { st with pend := st.pend + 1 }
        | _ => st
      runTrace leaves T flip showAdds fuel { st1 with c := stepU leaves (fun s _ => s + 1) enough st.c 0 false ab }

def handleSchedTrace : Handler
  | "sched_model" :: name :: units :: t :: flip :: opt => do
    let sh ← namedShapes.lookup name
    let leaves := (leavesLoop.lookup name).getD true
    let counts ← parseNatList units
    let T ← parseNat t
    let fl ← if flip = "-" then some none else (parseNat flip).map some
    let final := opt == ["final"]
    if opt ≠ [] ∧ !final then none else
    let isQs := name == "qs-st" || name == "qs-mt"
    let f := if name == "qs-mt" then qsMtFork else qsStFork
    let us : List (List (List Nat)) := counts.map (fun c =>
      if isQs then forkUnit f (List.replicate c 1, [], [])
      else if name == "ecm" then curveUnit (if c = 0 then none else some 1)
      else [List.replicate c 1])
    let c0 : UCfg Nat Nat := initU sh 0 [us]
    let fuel := ((us.map (fun u => (compileUnit sh u).length + 1)).foldl (· + ·) 0) + 1
    let st := runTrace leaves T fl isQs fuel { c := c0 }
    let st := if final then
        let ab := match fl with | some k => decide (k ≤ st.polls) | none => false
        { st with polls := st.polls + 1, ev := st.ev.push (if ab then "p1" else "p0"), fired := st.fired || ab }
      else st
    let ev := if isQs && st.pend > 0 then st.ev.push s!"a{st.pend}" else st.ev
    let tr := if ev.isEmpty then "-" else ",".intercalate ev.toList
    let oc := if st.fired then "abort" else if st.c.done then "done" else (if final then "panic" else "exhausted")
    some s!"{tr}/{oc}"
  | _ => none

end Ymq.Drv
