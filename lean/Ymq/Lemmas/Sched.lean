/- Helper lemmas for the shared-store scheduling model (C04). -/
import Ymq.Model.Sched
import Mathlib.Tactic.Linarith
import Mathlib.Data.List.Basic

namespace Ymq.Sched
variable {ρ σ : Type}

/-- all relations that may still be added -/
def pend (c : Cfg ρ σ) : List ρ := c.pcs.flatMap pendingAdds

theorem mem_flatMap_set {pcs : List (List (Act ρ))} {w : Nat} {v : List (Act ρ)} {r : ρ}
    (h : r ∈ (pcs.set w v).flatMap pendingAdds) :
    r ∈ pcs.flatMap pendingAdds ∨ r ∈ pendingAdds v := by
  rw [List.mem_flatMap] at h
  obtain ⟨l, hl, hr⟩ := h
  rcases List.mem_or_eq_of_mem_set hl with h1 | h1
  · exact Or.inl (List.mem_flatMap.mpr ⟨l, h1, hr⟩)
  · subst h1; exact Or.inr hr

theorem getElem?_mem_flatMap {pcs : List (List (Act ρ))} {w : Nat} {l : List (Act ρ)} {r : ρ}
    (h : pcs[w]? = some l) (hr : r ∈ pendingAdds l) : r ∈ pcs.flatMap pendingAdds :=
  List.mem_flatMap.mpr ⟨l, List.mem_of_getElem? h, hr⟩

/-- one step: the log grows by at most one pending relation, and what remains pending was pending -/
theorem step_log_pend (add : σ → ρ → σ) (enough : σ → Bool) (c : Cfg ρ σ) (w : Nat) (st : Bool) :
    (∀ r ∈ pend (step add enough c w st), r ∈ pend c) ∧
    ((step add enough c w st).log = c.log ∧ (step add enough c w st).store = c.store ∨
     ∃ r, r ∈ pend c ∧ (step add enough c w st).log = c.log ++ [r] ∧
       (step add enough c w st).store = add c.store r) := by
  unfold step
  split
  · exact ⟨fun r h => h, Or.inl ⟨rfl, rfl⟩⟩
  · exact ⟨fun r h => h, Or.inl ⟨rfl, rfl⟩⟩
  · rename_i rest hw
    split
    · refine ⟨?_, Or.inl ⟨rfl, rfl⟩⟩
      intro r h
      rcases mem_flatMap_set h with h | h
      · exact h
      · simp [pendingAdds] at h
    · refine ⟨?_, Or.inl ⟨rfl, rfl⟩⟩
      intro r h
      rcases mem_flatMap_set h with h | h
      · exact h
      · exact getElem?_mem_flatMap hw (by simpa [pendingAdds] using h)
  · rename_i r rest hw
    refine ⟨?_, Or.inr ⟨r, getElem?_mem_flatMap hw (by simp [pendingAdds]), rfl, rfl⟩⟩
    intro r' h
    rcases mem_flatMap_set h with h | h
    · exact h
    · exact getElem?_mem_flatMap hw (by simp [pendingAdds, h])
  · rename_i rest hw
    refine ⟨?_, Or.inl ⟨rfl, rfl⟩⟩
    intro r h
    rcases mem_flatMap_set h with h | h
    · exact h
    · exact getElem?_mem_flatMap hw (by simpa [pendingAdds] using h)

end Ymq.Sched

namespace Ymq.Sched
variable {ρ σ : Type}

/-- The store is exactly the sequential replay of the linearised history, the history only
contains relations of the workers' programs, and any invariant that `add` preserves for good
relations holds — for EVERY schedule and every pattern of stale flag reads. -/
theorem run_spec (add : σ → ρ → σ) (enough : σ → Bool) (Inv : σ → Prop) (Good : ρ → Prop)
    (hadd : ∀ s r, Inv s → Good r → Inv (add s r)) :
    ∀ (sched : List (Nat × Bool)) (c : Cfg ρ σ) (s0 : σ),
      c.store = c.log.foldl add s0 → Inv c.store → (∀ r ∈ c.log, Good r) → (∀ r ∈ pend c, Good r) →
      let c' := run add enough c sched
      c'.store = c'.log.foldl add s0 ∧ Inv c'.store ∧ (∀ r ∈ c'.log, Good r) ∧
        (∀ r ∈ pend c', Good r) ∧ (∀ r ∈ c'.log, r ∈ c.log ∨ r ∈ pend c) := by
  intro sched
  induction sched with
  | nil =>
    intro c s0 h1 h2 h3 h4
    exact ⟨h1, h2, h3, h4, fun r h => Or.inl h⟩
  | cons a sched ih =>
    intro c s0 h1 h2 h3 h4
    obtain ⟨w, st⟩ := a
    have hs := step_log_pend add enough c w st
    obtain ⟨hp, hl⟩ := hs
    simp only [run]
    rcases hl with ⟨hlog, hstore⟩ | ⟨r, hr, hlog, hstore⟩
    · have := ih (step add enough c w st) s0 (by rw [hstore, hlog]; exact h1) (by rw [hstore]; exact h2)
        (by rw [hlog]; exact h3) (fun r h => h4 r (hp r h))
      obtain ⟨a1, a2, a3, a4, a5⟩ := this
      refine ⟨a1, a2, a3, a4, ?_⟩
      intro r h
      rcases a5 r h with h | h
      · rw [hlog] at h; exact Or.inl h
      · exact Or.inr (hp r h)
    · have hg : Good r := h4 r hr
      have := ih (step add enough c w st) s0
        (by rw [hstore, hlog, List.foldl_append, ← h1]; rfl)
        (by rw [hstore]; exact hadd _ _ h2 hg)
        (by rw [hlog]; intro x hx; rcases List.mem_append.mp hx with hx | hx
            · exact h3 x hx
            · simp at hx; subst hx; exact hg)
        (fun r h => h4 r (hp r h))
      obtain ⟨a1, a2, a3, a4, a5⟩ := this
      refine ⟨a1, a2, a3, a4, ?_⟩
      intro x h
      rcases a5 x h with h | h
      · rw [hlog] at h
        rcases List.mem_append.mp h with h | h
        · exact Or.inl h
        · simp at h; subst h; exact Or.inr hr
      · exact Or.inr (hp x h)

theorem pendingAdds_compile (prog : List (List ρ)) : pendingAdds (compile prog) = prog.flatten := by
  induction prog with
  | nil => rfl
  | cons u us ih =>
    simp only [compile, pendingAdds, List.flatten_cons]
    have : ∀ (l : List ρ) (rest : List (Act ρ)), pendingAdds (l.map Act.add ++ rest) = l ++ pendingAdds rest := by
      intro l rest
      induction l with
      | nil => rfl
      | cons x xs ihx => simp [pendingAdds, ihx]
    rw [this, pendingAdds, ih]

/-- `done` is monotone: once set it stays set -/
theorem step_done_mono (add : σ → ρ → σ) (enough : σ → Bool) (c : Cfg ρ σ) (w : Nat) (st : Bool)
    (h : c.done = true) : (step add enough c w st).done = true := by
  unfold step
  split <;> try exact h
  · split <;> exact h
  · simp [h]

theorem run_done_mono (add : σ → ρ → σ) (enough : σ → Bool) (sched : List (Nat × Bool)) :
    ∀ c : Cfg ρ σ, c.done = true → (run add enough c sched).done = true := by
  induction sched with
  | nil => intro c h; exact h
  | cons a sched ih => intro c h; exact ih _ (step_done_mono add enough c a.1 a.2 h)

end Ymq.Sched

namespace Ymq.Sched
variable {ρ σ : Type}

theorem sum_set_length : ∀ (pcs : List (List (Act ρ))) (w : Nat) (l v : List (Act ρ)),
    pcs[w]? = some l →
    ((pcs.set w v).map List.length).sum + l.length = (pcs.map List.length).sum + v.length
  | [], w, l, v, h => by simp at h
  | p :: ps, 0, l, v, h => by
    simp at h; subst h
    simp only [List.set_cons_zero, List.map_cons, List.sum_cons]; omega
  | p :: ps, w + 1, l, v, h => by
    simp at h
    have := sum_set_length ps w l v h
    simp only [List.set_cons_succ, List.map_cons, List.sum_cons]; omega

/-- a scheduling choice is effective when the chosen worker still has an action to perform -/
def effective (c : Cfg ρ σ) (w : Nat) : Prop := ∃ a rest, c.pcs[w]? = some (a :: rest)

/-- every step consumes at most the actions it performs; an effective step consumes at least one -/
theorem step_remaining (add : σ → ρ → σ) (enough : σ → Bool) (c : Cfg ρ σ) (w : Nat) (st : Bool) :
    remaining (step add enough c w st) ≤ remaining c ∧
    (effective c w → remaining (step add enough c w st) < remaining c) := by
  unfold step remaining effective
  split
  · rename_i h; exact ⟨le_refl _, fun ⟨a, rest, h'⟩ => by rw [h] at h'; cases h'⟩
  · rename_i h; exact ⟨le_refl _, fun ⟨a, rest, h'⟩ => by rw [h] at h'; cases h'⟩
  · rename_i rest h
    split
    · have := sum_set_length c.pcs w _ [] h
      simp only [setPc, List.length_cons, List.length_nil] at *
      exact ⟨by omega, fun _ => by omega⟩
    · have := sum_set_length c.pcs w _ rest h
      simp only [setPc, List.length_cons] at *
      exact ⟨by omega, fun _ => by omega⟩
  · rename_i r rest h
    have := sum_set_length c.pcs w _ rest h
    simp only [setPc, List.length_cons] at *
    exact ⟨by omega, fun _ => by omega⟩
  · rename_i rest h
    have := sum_set_length c.pcs w _ rest h
    simp only [setPc, List.length_cons] at *
    exact ⟨by omega, fun _ => by omega⟩

/-- a schedule all of whose choices are effective -/
def allEffective (add : σ → ρ → σ) (enough : σ → Bool) : Cfg ρ σ → List (Nat × Bool) → Prop
  | _, [] => True
  | c, (w, st) :: sched => effective c w ∧ allEffective add enough (step add enough c w st) sched

/-- bounded work: no schedule can make the workers perform more than `remaining` actions -/
theorem effective_steps_bounded (add : σ → ρ → σ) (enough : σ → Bool) :
    ∀ (sched : List (Nat × Bool)) (c : Cfg ρ σ), allEffective add enough c sched →
      sched.length + remaining (run add enough c sched) ≤ remaining c := by
  intro sched
  induction sched with
  | nil => intro c _; simp [run]
  | cons a sched ih =>
    intro c h
    obtain ⟨w, st⟩ := a
    obtain ⟨h1, h2⟩ := h
    have := ih _ h2
    have hs := (step_remaining add enough c w st).2 h1
    simp only [run, List.length_cons]
    omega

/-- progress: unless every worker has finished, some worker can take an effective step
(no action ever blocks on another worker) -/
theorem progress (c : Cfg ρ σ) (h : finished c = false) : ∃ w, effective c w := by
  unfold finished at h
  rw [List.all_eq_false] at h
  obtain ⟨l, hl, hne⟩ := h
  obtain ⟨w, hw, rfl⟩ := List.getElem_of_mem hl
  refine ⟨w, ?_⟩
  cases hcw : c.pcs[w] with
  | nil => simp [hcw] at hne
  | cons a rest => exact ⟨a, rest, by rw [List.getElem?_eq_getElem hw, hcw]⟩

end Ymq.Sched
