/-
`doubles_disjoint` (C11): no stored double-large-prime relation has a prime that is a key of
`partial`. The recursive walk is handled with a set `T` of tolerated vertices (the roots of the
walks still in progress further up the stack): `walk_doubles(root)` turns "every offending double
touches `root` or `T`" into "every offending double touches `T`".
-/
import Ymq.Lemmas.RelationsMono

namespace Ymq.Relations

/-- every stored double that has a prime in `partial` touches a tolerated vertex -/
def Tol (T : Nat → Prop) (s : Store) : Prop :=
  ∀ k, dkey s k → (pkey s k.1 ∨ pkey s k.2) → (T k.1 ∨ T k.2)

/-- the invariant named by the property: "No key is common with partial map" -/
def Disj (s : Store) : Prop := ∀ k, dkey s k → ¬ pkey s k.1 ∧ ¬ pkey s k.2

theorem disj_iff_tol (s : Store) : Disj s ↔ Tol (fun _ => False) s := by
  unfold Disj Tol
  constructor
  · intro h k hk hb
    rcases hb with hb | hb
    · exact absurd hb (h k hk).1
    · exact absurd hb (h k hk).2
  · intro h k hk
    constructor
    · intro hp; have := h k hk (Or.inl hp); tauto
    · intro hp; have := h k hk (Or.inr hp); tauto

theorem tol_of_same {T : Nat → Prop} {s s' : Store} (h : Tol T s)
    (hp : ∀ k, pkey s' k ↔ pkey s k) (hd : ∀ e ∈ s'.doubles, e ∈ s.doubles) : Tol T s' := by
  intro k hk hb
  obtain ⟨b, hb'⟩ := hk
  refine h k ⟨b, hd _ hb'⟩ ?_
  rw [← hp, ← hp]; exact hb

/-- what `combine_double` does to the keys: either nothing, or one new key followed by a walk -/
theorem combineDouble_shape {walk : Nat → Store → M Store}
    {r : Relation} {p q : Nat} {s s' : Store} {done : Bool}
    (h : combineDouble walk r p q s = .ok (done, s')) (hi : Inv s) (hn : s.n ≤ X512)
    (hrt : Typed r) (hrn : NoOne r.factors) (hrv : Valid s.n r)
    (hc : r.cofactor = p * q) (hp1 : p ≠ 1) (hq1 : q ≠ 1) (hp32 : p < W32) (hq32 : q < W32) :
    ((∀ k, pkey s' k ↔ pkey s k) ∧ s'.doubles = s.doubles ∧ s'.doublesRev = s.doublesRev) ∨
    (∃ key b, (key = p ∨ key = q) ∧ key < W32 ∧
      Inv ({ s with nCombined12 := s.nCombined12 + 1 }.setPartial key b) ∧
      walk (key % W32) ({ s with nCombined12 := s.nCombined12 + 1 }.setPartial key b) = .ok s') := by
  unfold combineDouble at h
  split at h
  · simp only [bind_eq_ok, pure_eq_ok, Prod.mk.injEq] at h
    obtain ⟨s1, hs1, _, h⟩ := h
    rw [← h]
    obtain ⟨_, hp, hd, hr⟩ := addCycle_mono hs1
    exact Or.inl ⟨fun k => by unfold pkey; rw [hp], hd, hr⟩
  · split at h
    · rename_i bp bq hlp hlq
      left
      simp only [bind_eq_ok] at h
      obtain ⟨rp, _, rq, _, r1, _, r2, _, s1, hs1, h⟩ := h
      obtain ⟨_, hp, hd, hr⟩ := addCycle_mono hs1
      have hpk : ∀ k, pkey s1 k ↔ pkey s k := fun k => by unfold pkey; rw [hp]
      have hset : ∀ key b, pkey s key → ∀ k, pkey (s1.setPartial key b) k ↔ pkey s k := by
        intro key b hkey k
        rw [pkey_setPartial, hpk]
        constructor
        · rintro (hk | hk)
          · rw [hk]; exact hkey
          · exact hk
        · exact fun hk => Or.inr hk
      split at h
      · simp only [bind_eq_ok] at h
        obtain ⟨rpq, _, h⟩ := h
        split at h
        · simp [throw_ne_ok] at h
        · simp only [bind_eq_ok, pure_eq_ok, Prod.mk.injEq] at h
          obtain ⟨b, _, _, h⟩ := h
          rw [← h]
          exact ⟨hset q b (pkey_of_lookup hlq), hd, hr⟩
      · split at h
        · simp only [bind_eq_ok] at h
          obtain ⟨rqp, _, h⟩ := h
          split at h
          · simp [throw_ne_ok] at h
          · simp only [bind_eq_ok, pure_eq_ok, Prod.mk.injEq] at h
            obtain ⟨b, _, _, h⟩ := h
            rw [← h]
            exact ⟨hset p b (pkey_of_lookup hlp), hd, hr⟩
        · simp only [pure_eq_ok, Prod.mk.injEq] at h
          rw [← h.2]
          exact ⟨hpk, hd, hr⟩
    · rename_i bp hlp hlq
      right
      obtain ⟨_, _, rp', hup', hcp, hvp⟩ := hi.par _ (alookup_mem hlp)
      simp only at hup' hcp hvp
      simp only [bind_eq_ok] at h
      obtain ⟨rp, hup, rq, hrq, h⟩ := h
      rw [hup'] at hup; cases hup
      obtain ⟨htp, hnp, _⟩ := unpack_facts hup'
      have h3 := combine_stored hrq hrv hrt hrn hvp htp hnp hcp
        (by rw [hc]; exact Nat.mul_mod_right _ _) hp1 hp32
      split at h
      · simp [throw_ne_ok] at h
      · rename_i hcof
        simp only [not_not] at hcof
        simp only [bind_eq_ok, pure_eq_ok, Prod.mk.injEq] at h
        obtain ⟨b, hb, s1, hs1, _, h⟩ := h
        rw [← h]
        have hi0 : Inv { s with nCombined12 := s.nCombined12 + 1 } :=
          ⟨hi.cyc, hi.par, hi.dbl, hi.rev⟩
        refine ⟨q, b, Or.inr rfl, hq32, inv_setPartial hi0 hq1 hq32 ?_, hs1⟩
        rw [← hcof]
        exact goodP_of_pack hb h3.2.1 h3.2.2.1 (lt_of_lt_of_le h3.2.2.2.1 hn) h3.1
    · rename_i bq hlp hlq
      right
      obtain ⟨_, _, rq', huq', hcq, hvq⟩ := hi.par _ (alookup_mem hlq)
      simp only at huq' hcq hvq
      simp only [bind_eq_ok] at h
      obtain ⟨rq, huq, rp, hrp, h⟩ := h
      rw [huq'] at huq; cases huq
      obtain ⟨htq, hnq, _⟩ := unpack_facts huq'
      have h3 := combine_stored hrp hrv hrt hrn hvq htq hnq hcq
        (by rw [hc]; exact Nat.mul_mod_left _ _) hq1 hq32
      split at h
      · simp [throw_ne_ok] at h
      · rename_i hcof
        simp only [not_not] at hcof
        simp only [bind_eq_ok, pure_eq_ok, Prod.mk.injEq] at h
        obtain ⟨b, hb, s1, hs1, _, h⟩ := h
        rw [← h]
        have hi0 : Inv { s with nCombined12 := s.nCombined12 + 1 } :=
          ⟨hi.cyc, hi.par, hi.dbl, hi.rev⟩
        refine ⟨p, b, Or.inl rfl, hp32, inv_setPartial hi0 hp1 hp32 ?_, hs1⟩
        rw [← hcof]
        exact goodP_of_pack hb h3.2.1 h3.2.2.1 (lt_of_lt_of_le h3.2.2.2.1 hn) h3.1
    · simp only [pure_eq_ok, Prod.mk.injEq] at h
      rw [← h.2]
      exact Or.inl ⟨fun _ => Iff.rfl, rfl, rfl⟩

/-- the specification of a walk with tolerated vertices -/
def WalkTol (walk : Nat → Store → M Store) : Prop :=
  ∀ (root : Nat) (s s' : Store) (T : Nat → Prop), Inv s → s.n ≤ X512 → walk root s = .ok s' →
    Tol (fun v => v = root ∨ T v) s → Tol T s'

theorem tol_setPartial {T : Nat → Prop} {s : Store} (h : Tol T s) (key : Nat) (b : List Nat) :
    Tol (fun v => v = key ∨ T v) (s.setPartial key b) := by
  intro k hk hb
  have hk' : dkey s k := hk
  by_cases h1 : k.1 = key
  · exact Or.inl (Or.inl h1)
  · by_cases h2 : k.2 = key
    · exact Or.inr (Or.inl h2)
    · have : pkey s k.1 ∨ pkey s k.2 := by
        rcases hb with hb | hb
        · rcases pkey_setPartial.mp hb with hb | hb
          · exact absurd hb h1
          · exact Or.inl hb
        · rcases pkey_setPartial.mp hb with hb | hb
          · exact absurd hb h2
          · exact Or.inr hb
      rcases h k hk' this with ht | ht
      · exact Or.inl (Or.inr ht)
      · exact Or.inr (Or.inr ht)

theorem combineDouble_tol {walk : Nat → Store → M Store} (hwalk : WalkTol walk)
    {r : Relation} {p q : Nat} {s s' : Store} {done : Bool} {T : Nat → Prop}
    (h : combineDouble walk r p q s = .ok (done, s')) (hi : Inv s) (hn : s.n ≤ X512)
    (hrt : Typed r) (hrn : NoOne r.factors) (hrv : Valid s.n r)
    (hc : r.cofactor = p * q) (hp1 : p ≠ 1) (hq1 : q ≠ 1) (hp32 : p < W32) (hq32 : q < W32)
    (ht : Tol T s) : Tol T s' := by
  rcases combineDouble_shape h hi hn hrt hrn hrv hc hp1 hq1 hp32 hq32 with
    ⟨hp, hd, _⟩ | ⟨key, b, _, hk32, hi2, hw⟩
  · exact tol_of_same ht hp (by rw [hd]; exact fun _ h => h)
  · rw [Nat.mod_eq_of_lt hk32] at hw
    refine hwalk key _ s' T hi2 hn hw ?_
    have ht0 : Tol T { s with nCombined12 := s.nCombined12 + 1 } := ht
    exact tol_setPartial ht0 key b

theorem walkStep_tol {walk : Nat → Store → M Store} (hwalk : WalkTol walk)
    {p q : Nat} {s s' : Store} {T : Nat → Prop} (h : walkStep walk p q s = .ok s') (hi : Inv s)
    (hn : s.n ≤ X512) (ht : Tol T s) : Tol T s' := by
  unfold walkStep at h
  split at h
  · simp only [pure_eq_ok] at h
    rw [← h]; exact ht
  · rename_i blob hlook
    obtain ⟨hlt, hp1, hq1, hq32, r', hu', hc', hv'⟩ := hi.dbl _ (alookup_mem hlook)
    simp only at hlt hp1 hq1 hq32 hu' hc' hv'
    simp only [bind_eq_ok] at h
    obtain ⟨r, hu, res, hres, h⟩ := h
    rw [hu'] at hu; cases hu
    obtain ⟨hty, hno, _⟩ := unpack_facts hu'
    split at h
    · simp only [pure_eq_ok] at h
      rw [← h]
      have hi0 := inv_erase_double hi p q
      obtain ⟨hpk, hsub, _⟩ := mono_erase s p q
      have ht0 := tol_of_same ht hpk hsub
      exact combineDouble_tol hwalk (done := res.1) (s' := res.2) hres hi0 hn hty hno hv' hc'
        hp1 hq1 (lt_trans hlt hq32) hq32 ht0
    · simp [throw_ne_ok] at h

/-- `Keeps` for a walk given as a function (shape used by the loop lemmas) -/
def WalkKeeps (walk : Nat → Store → M Store) : Prop :=
  ∀ root s s', Inv s → s.n ≤ X512 → walk root s = .ok s' → Keeps s s'

theorem walkLoop1_tol {walk : Nat → Store → M Store} (hwalk : WalkTol walk) (hk : WalkKeeps walk)
    {T : Nat → Prop} : ∀ (l : List (Nat × Nat)) (s s' : Store), walkLoop1 walk l s = .ok s' →
      Inv s → s.n ≤ X512 → Tol T s → Tol T s' := by
  intro l
  induction l with
  | nil =>
    intro s s' h _ _ ht
    simp only [walkLoop1, pure_eq_ok] at h
    rw [← h]; exact ht
  | cons e t ih =>
    obtain ⟨p, q⟩ := e
    intro s s' h hi hn ht
    simp only [walkLoop1, bind_eq_ok] at h
    obtain ⟨s1, hs1, h⟩ := h
    have hk1 := walkStep_keeps hk hs1 hi hn
    exact ih s1 s' h hk1.2.2 (by rw [hk1.1]; exact hn) (walkStep_tol hwalk hs1 hi hn ht)

theorem walkLoop2_tol {walk : Nat → Store → M Store} (hwalk : WalkTol walk) (hk : WalkKeeps walk)
    {T : Nat → Prop} : ∀ (l : List (Nat × Nat)) (s s' : Store), walkLoop2 walk l s = .ok s' →
      Inv s → s.n ≤ X512 → Tol T s → Tol T s' := by
  intro l
  induction l with
  | nil =>
    intro s s' h _ _ ht
    simp only [walkLoop2, pure_eq_ok] at h
    rw [← h]; exact ht
  | cons e t ih =>
    obtain ⟨q, p⟩ := e
    intro s s' h hi hn ht
    simp only [walkLoop2, bind_eq_ok] at h
    obtain ⟨s1, hs1, h⟩ := h
    have hk1 := walkStep_keeps hk hs1 hi hn
    exact ih s1 s' h hk1.2.2 (by rw [hk1.1]; exact hn) (walkStep_tol hwalk hs1 hi hn ht)

theorem walkRec_tol {walk : Nat → Store → M Store} (hwalk : WalkTol walk) (hk : WalkKeeps walk)
    {T : Nat → Prop} (root : Nat) : ∀ (l : List (Nat × Nat)) (s s' : Store),
      walkRec walk root l s = .ok s' → Inv s → s.n ≤ X512 → Tol T s → Tol T s' := by
  intro l
  induction l with
  | nil =>
    intro s s' h _ _ ht
    simp only [walkRec, pure_eq_ok] at h
    rw [← h]; exact ht
  | cons e t ih =>
    obtain ⟨a, b⟩ := e
    intro s s' h hi hn ht
    unfold walkRec at h
    split at h
    · simp [throw_ne_ok] at h
    · simp only [bind_eq_ok] at h
      obtain ⟨s1, hs1, h⟩ := h
      have hk1 := hk _ _ _ hi hn hs1
      refine ih s1 s' h hk1.2.2 (by rw [hk1.1]; exact hn) (hwalk b s s1 T hi hn hs1 ?_)
      intro k hkk hb
      rcases ht k hkk hb with h1 | h1
      · exact Or.inl (Or.inr h1)
      · exact Or.inr (Or.inr h1)

theorem walkDoubles_walkKeeps (fuel : Nat) : WalkKeeps (walkDoubles fuel) :=
  fun root s s' hi hn h => walkDoubles_keeps fuel root s s' hi hn h

theorem walkDoubles_tol : ∀ (fuel : Nat), WalkTol (walkDoubles fuel) := by
  intro fuel
  induction fuel with
  | zero => intro root s s' T _ _ h; simp [walkDoubles, throw_ne_ok] at h
  | succ fuel ih =>
    intro root s s' T hi hn h ht
    have hkf := walkDoubles_walkKeeps fuel
    have hmf : ∀ root s s', walkDoubles fuel root s = .ok s' → Mono s s' :=
      fun root s s' h => walkDoubles_mono fuel root s s' h
    rw [walkDoubles_unfold] at h
    split at h
    · simp [throw_ne_ok] at h
    · simp only [bind_eq_ok] at h
      obtain ⟨s1, hs1, s2, hs2, s3, hs3, h⟩ := h
      have k1 := walkLoop1_keeps hkf _ _ _ hs1 hi hn
      have hn1 : s1.n ≤ X512 := by rw [k1.1]; exact hn
      have k2 := walkLoop2_keeps hkf _ _ _ hs2 k1.2.2 hn1
      have hn2 : s2.n ≤ X512 := by rw [k2.1]; exact hn1
      have k3 := walkRec_keeps hkf root _ _ _ hs3 k2.2.2 hn2
      have hn3 : s3.n ≤ X512 := by rw [k3.1]; exact hn2
      have t1 := walkLoop1_tol ih hkf _ _ _ hs1 hi hn ht
      have t2 := walkLoop2_tol ih hkf _ _ _ hs2 k1.2.2 hn1 t1
      obtain ⟨m1, g1, _⟩ := walkLoop1_mono hmf _ _ _ hs1
      obtain ⟨m2, g2, _⟩ := walkLoop2_mono hmf _ _ _ hs2
      -- no double of s2 touches root any more
      have hclear : ∀ k, dkey s2 k → k.1 ≠ root ∧ k.2 ≠ root := by
        intro k hk2
        obtain ⟨b, hb⟩ := hk2
        have hks1 : dkey s1 k := ⟨b, m2.dsub _ hb⟩
        have hks : dkey s k := ⟨b, m1.dsub _ (m2.dsub _ hb)⟩
        constructor
        · intro h1
          exact g1 k (mem_pqsOf.mpr ⟨hks, h1⟩) hks1
        · intro h2
          have : (k.2, k.1) ∈ qpsOf s root := (mem_qpsOf hi).mpr ⟨hks, h2⟩
          exact g2 _ this ⟨b, hb⟩
      have t2' : Tol T s2 := by
        intro k hk hb
        obtain ⟨c1, c2⟩ := hclear k hk
        rcases t2 k hk hb with (h1 | h1) | (h1 | h1)
        · exact absurd h1 c1
        · exact Or.inl h1
        · exact absurd h1 c2
        · exact Or.inr h1
      have t3 := walkRec_tol ih hkf root _ _ _ hs3 k2.2.2 hn2 t2'
      exact walkRec_tol ih hkf root _ _ _ h k3.2.2 hn3 t3

/-- one `add` keeps partial keys and double primes apart -/
theorem add_disj {r : Relation} {pq : Option (Nat × Nat)} {s s' : Store}
    (h : add r pq s = .ok s') (hi : Inv s) (hn : s.n ≤ X512) (hin : InputOK s.n r pq)
    (hd : Disj s) : Disj s' := by
  obtain ⟨hrt, hrv, hrn, hpair⟩ := hin
  rw [disj_iff_tol] at hd ⊢
  unfold add at h
  split at h
  · simp [throw_ne_ok] at h
  · rename_i hx
    simp only [not_not] at hx
    split at h
    · obtain ⟨_, hp, hdd, _⟩ := addCycle_mono h
      exact tol_of_same hd (fun k => by unfold pkey; rw [hp]) (by rw [hdd]; exact fun _ h => h)
    · rename_i hc1
      split at h
      · simp only [bind_eq_ok] at h
        obtain ⟨res, hres, h⟩ := h
        have hi0 : Inv { s with nPartials := s.nPartials + 1 } := ⟨hi.cyc, hi.par, hi.dbl, hi.rev⟩
        have hk1 : Keeps { s with nPartials := s.nPartials + 1 } res.2 :=
          combineSingle_keeps (done := res.1) (s' := res.2) hres hi0 hn hrt hrn hrv hx
        obtain ⟨_, hpk, hdd, _⟩ := combineSingle_mono (done := res.1) (s' := res.2) hres
        have hd0 : Tol (fun _ => False) { s with nPartials := s.nPartials + 1 } := hd
        have t1 : Tol (fun _ => False) res.2 :=
          tol_of_same hd0 hpk (by rw [hdd]; exact fun _ h => h)
        split at h
        · simp only [pure_eq_ok] at h
          rw [← h]; exact t1
        · simp only [bind_eq_ok] at h
          obtain ⟨b, hb, h⟩ := h
          split at h
          · simp [throw_ne_ok] at h
          · rename_i h32
            have hn1 : res.2.n ≤ X512 := by rw [hk1.1]; exact hn
            have hi2 : Inv (res.2.setPartial r.cofactor b) := by
              refine inv_setPartial hk1.2.2 hc1 (by omega) ?_
              rw [hk1.1]
              exact goodP_of_pack hb hrt hrn (lt_of_lt_of_le hx hn) hrv
            exact walkDoubles_tol _ _ _ _ _ hi2 hn1 h (tol_setPartial t1 _ _)
      · split at h
        · simp only [pure_eq_ok] at h
          rw [← h]; exact hd
        · rename_i p q
          obtain ⟨hc, hp1, hq1⟩ := hpair p q rfl
          split at h
          · simp [throw_ne_ok] at h
          · rename_i h32
            have hp32 : p < W32 := by omega
            have hq32 : q < W32 := by omega
            simp only [bind_eq_ok] at h
            obtain ⟨res, hres, h⟩ := h
            have hi0 : Inv { s with nDoubles := s.nDoubles + 1 } := ⟨hi.cyc, hi.par, hi.dbl, hi.rev⟩
            have hd0 : Tol (fun _ => False) { s with nDoubles := s.nDoubles + 1 } := hd
            have t1 : Tol (fun _ => False) res.2 :=
              combineDouble_tol (walkDoubles_tol _) (done := res.1) (s' := res.2) hres hi0 hn
                hrt hrn hrv hc hp1 hq1 hp32 hq32 hd0
            split at h
            · simp only [pure_eq_ok] at h
              rw [← h]; exact t1
            · rename_i hdone
              simp only [bind_eq_ok, pure_eq_ok] at h
              obtain ⟨b, _, h⟩ := h
              rw [← h]
              obtain ⟨_, _, hfalse⟩ := combineDouble_mono
                (fun root s s' h => walkDoubles_mono _ root s s' h) (done := res.1) (s' := res.2) hres
              obtain ⟨hs, hnp, hnq⟩ := hfalse (by simpa using hdone)
              intro k hk hb
              obtain ⟨b', hb'⟩ := hk
              simp only [mem_ainsert] at hb'
              have hpk : ∀ v, pkey { res.2 with
                  doubles := ainsert ltPair (if p < q then (p, q) else (q, p)) b res.2.doubles,
                  doublesRev := sinsert ((if p < q then (p, q) else (q, p)).2,
                    (if p < q then (p, q) else (q, p)).1) res.2.doublesRev } v ↔ pkey res.2 v :=
                fun _ => Iff.rfl
              rw [hpk, hpk] at hb
              rcases hb' with hb' | ⟨hb', _⟩
              · simp only [Prod.mk.injEq] at hb'
                rw [hs] at hb
                exfalso
                by_cases hlt : p < q
                · rw [if_pos hlt] at hb'
                  rw [hb'.1] at hb
                  rcases hb with hb | hb
                  · exact hnp hb
                  · exact hnq hb
                · rw [if_neg hlt] at hb'
                  rw [hb'.1] at hb
                  rcases hb with hb | hb
                  · exact hnq hb
                  · exact hnp hb
              · exact t1 k ⟨b', hb'⟩ hb

theorem runHistory_disj : ∀ (ops : List (Relation × Option (Nat × Nat))) (s s' : Store),
    runHistory ops s = .ok s' → Inv s → s.n ≤ X512 → HistoryOK s.n ops → Disj s → Disj s' := by
  intro ops
  induction ops with
  | nil =>
    intro s s' h _ _ _ hd
    simp only [runHistory, pure_eq_ok] at h
    rw [← h]; exact hd
  | cons op t ih =>
    obtain ⟨r, pq⟩ := op
    intro s s' h hi hn hok hd
    simp only [runHistory, bind_eq_ok] at h
    obtain ⟨s1, hs1, h⟩ := h
    have hin := hok (r, pq) (by simp)
    have hk := add_keeps hs1 hi hn hin
    refine ih s1 s' h hk.2.2 (by rw [hk.1]; exact hn) ?_ (add_disj hs1 hi hn hin hd)
    intro op hop
    rw [hk.1]
    exact hok op (List.mem_cons_of_mem _ hop)

end Ymq.Relations
