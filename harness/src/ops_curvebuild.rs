//! Curve constructors (C15): src/ecm.rs `Suyama11::{new, element, params_point}`,
//! `Curve::{twisted_from_point, from_point}`, the curve selection of `ecm::ecm` and `ecm128::ecm`
//! (observed through the real entry points), `impl From<&ecm::Curve> for ecm128::Curve`.
//!
//! Residues travel as ordinary integers in [0, n). The `prof` argument (`release` / `chk`) is only read
//! by the Lean driver: the generator sends such a line to the harness of that profile only.
use crate::util::*;
use yamaquasi::arith_montgomery::{MInt, ZmodN};
use yamaquasi::ecm::verif_hooks as eh;
use yamaquasi::ecm::Curve;
use yamaquasi::ecm128;
use yamaquasi::ecm128::verif_hooks_curve as eh128;
use yamaquasi::{Preferences, Uint, Verbosity};

fn res(zn: &ZmodN, s: &str) -> Option<MInt> {
    let x = uint_of(s)?;
    Some(zn.from_int(x % zn.n))
}

fn show_curve(c: &Curve) -> String {
    let (zn, tw, d) = eh::curve_parts(c);
    let g = eh::xyz(c.gen()).iter().map(|x| zn.to_int(*x).to_string()).collect::<Vec<_>>().join(" ");
    format!("{} {} {}", if tw { -1 } else { 1 }, zn.to_int(d), g)
}

fn show_pair(r: Option<(Uint, Uint)>) -> String {
    match r {
        None => "none".to_string(),
        Some((p, q)) => format!("{p} {q}"),
    }
}

pub fn handle(op: &str, a: &[&str]) -> Option<String> {
    match (op, a) {
        // the two families exactly as `ecm::ecm` composes them
        ("curve_build", [_prof, n, fam, seed]) => {
            let zn = ZmodN::new(uint_of(n)?);
            let seed = u32_of(seed)?;
            let r = match *fam {
                "s" => {
                    let su = match eh::suyama_new(&zn) {
                        Ok(s) => s,
                        Err(f) => return Some(format!("err {f}")),
                    };
                    su.element(seed)
                        .and_then(|p| su.params_point(&p))
                        .and_then(|g| Curve::twisted_from_point(zn.clone(), g))
                        .map_err(|e| eh::large_factor(&e).to_string())
                }
                "e" => {
                    let s = seed as u64 % (1 << 24);
                    eh::from_point(zn.clone(), 3 * s + 5, 4 * s + 5).map_err(|f| f.to_string())
                }
                _ => return None,
            };
            Some(match r {
                Ok(c) => show_curve(&c),
                Err(f) => format!("err {f}"),
            })
        }
        ("from_point", [_prof, n, x, y]) => {
            let zn = ZmodN::new(uint_of(n)?);
            Some(match eh::from_point(zn, u64_of(x)?, u64_of(y)?) {
                Ok(c) => show_curve(&c),
                Err(f) => format!("err {f}"),
            })
        }
        // the real `ecm::ecm` (sequential): `p q` or `none`
        ("ecm_select", [_prof, n, curves]) => {
            let mut prefs = Preferences::default();
            prefs.verbosity = Verbosity::Silent;
            Some(show_pair(yamaquasi::ecm::ecm(uint_of(n)?, curves.parse().ok()?, 16, 660., &prefs, None)))
        }
        // the real `ecm128::ecm`
        ("ecm128_select", [n, curves]) => {
            let r = ecm128::verif_hooks_stage2::vh_ecm(n.parse().ok()?, curves.parse().ok()?, 16, 660.);
            Some(show_pair(r.map(|(p, q)| (Uint::from(p), Uint::from(q)))))
        }
        // conversion of a multiprecision curve to the 128-bit representation: generator after `to_int`
        ("curve128_from", [n, tw, d, x, y, z]) => {
            let zn = ZmodN::new(uint_of(n)?);
            let r = |s: &&str| res(&zn, s);
            let g = eh::point(r(x)?, r(y)?, r(z)?);
            let c = eh::curve(zn.clone(), bool_of(tw)?, r(d)?, g);
            let c128 = ecm128::Curve::from(&c);
            Some(eh128::xyz(c128.gen()).map(|x| eh128::to_int(&c128, x).to_string()).join(" "))
        }
        _ => None,
    }
}
