#!/usr/bin/env python3
"""Tie census: which executable definitions of lean/Ymq/Model and lean/Ymq/Gen are reachable from a handler of the
native driver (lean/Ymq/Drv), i.e. are actually run against the real code by some K stream, and which are only
mentioned by theorems.  Textual (identifier-level) call graph: a definition `f` of namespace N is a node; an edge
f -> g exists when the body of f mentions the last component of g's name (or its qualified name).  Over-approximates
reachability (name clashes across namespaces count as edges), so the 'unreached' list is a sound list of definitions
NO driver handler can run.  Usage: vlib/tie_census.py [--md] [--list]"""
import os, re, sys, collections
ROOT = os.path.dirname(os.path.dirname(os.path.abspath(__file__)))
L = os.path.join(ROOT, "lean", "Ymq")
DEF = re.compile(r"^(?:@\[[^\]]*\]\s*)?(?:private\s+|protected\s+|partial\s+|noncomputable\s+)*(def|abbrev|instance|structure|inductive|theorem|lemma|example)\s+([A-Za-z_][\w.'!?₀-₉]*)?", re.M)
def strip_comments(s):
    s = re.sub(r"/-.*?-/", " ", s, flags=re.S)
    return re.sub(r"--[^\n]*", "", s)
def blocks(path):
    s = strip_comments(open(path).read())
    ms = list(DEF.finditer(s))
    for i, m in enumerate(ms):
        yield m.group(1), (m.group(2) or ""), s[m.end(): ms[i + 1].start() if i + 1 < len(ms) else len(s)]
def ident_set(body):
    ids = set(re.findall(r"[A-Za-z_][\w'!?]*", body))
    return ids
nodes = {}   # (file, name) -> idents
byname = collections.defaultdict(list)
for sub in ("Model", "Gen"):
    d = os.path.join(L, sub)
    for f in sorted(os.listdir(d)):
        if not f.endswith(".lean"): continue
        for kind, name, body in blocks(os.path.join(d, f)):
            if kind not in ("def", "abbrev") or not name: continue
            key = (sub + "/" + f, name)
            while key in nodes:          # same short name in another namespace of the same file
                key = (key[0], key[1] + "'")
            nodes[key] = ident_set(body)
            byname[name.split(".")[-1]].append(key)
roots = set()
for dp, _, fs in os.walk(os.path.join(L, "Drv")):
    for f in fs:
        if f.endswith(".lean"):
            roots |= ident_set(strip_comments(open(os.path.join(dp, f)).read()))
roots |= ident_set(strip_comments(open(os.path.join(ROOT, "lean", "Driver.lean")).read())) if os.path.exists(os.path.join(ROOT, "lean", "Driver.lean")) else set()
reach = set(); todo = [k for n in roots for k in byname.get(n, [])]
while todo:
    k = todo.pop()
    if k in reach: continue
    reach.add(k)
    for n in nodes[k]:
        for k2 in byname.get(n, []):
            if k2 not in reach: todo.append(k2)
# which unreached defs do theorems mention?
thm_ids = set()
for sub in ("Props", "Lemmas"):
    for f in os.listdir(os.path.join(L, sub)):
        if f.endswith(".lean"):
            thm_ids |= ident_set(strip_comments(open(os.path.join(L, sub, f)).read()))
per = collections.defaultdict(lambda: [0, 0, []])
for k in nodes:
    per[k[0]][0] += 1
    if k in reach: per[k[0]][1] += 1
    else: per[k[0]][2].append(k[1])
tot = sum(v[0] for v in per.values()); tr = sum(v[1] for v in per.values())
md = "--md" in sys.argv
if md:
    print("| model file | executable defs | run by a driver handler | only in theorems / specs |"); print("|---|---|---|---|")
for f in sorted(per):
    n, r, un = per[f]
    spec = [u for u in un if u.split(".")[-1] in thm_ids]
    if md: print(f"| {f} | {n} | {r} | {len(un)} |")
    else:
        print(f"{f}: {r}/{n} reached" + (f"; unreached: {', '.join(un[:12])}{' …' if len(un) > 12 else ''}" if un and '--list' in sys.argv else ""))
print(("| **total** | %d | %d | %d |" if md else "TOTAL defs=%d reached=%d unreached=%d") % (tot, tr, tot - tr))
