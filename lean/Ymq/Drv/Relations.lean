import Ymq.Drv.Util
import Ymq.Model.Relations
import Ymq.Model.RelationsWalk
import Ymq.Model.Pseudoprime

/-!
Driver ops for the relation store model (property C11).

relation token  `x:cofactor:cyclelen:F`, `F` = `p^k*p^k*...` (`m1` = -1) or `-` (no factor)
history         items joined by `;`, item = `<rel>|<pq>` or `<tid>|<rel>|<pq>`, `<pq>` = `p,q` or `-`
                (items `new|<n>|<fbsize>|<maxlarge>` of a recorded history are skipped)

  rel_verify n rel                       -> true | false | panic
  rs_combine n rel1 rel2                 -> rel | panic
  rel_pack rel                           -> b,b,b,... | panic
  rel_unpack b,b,...                     -> rel | panic
  rel_roundtrip rel                      -> rel (= unpack (pack rel)) | panic
  try_factor n a b                       -> none | p,q | panic
  final_combine n x,x,.. F               -> a,b | panic
  kernel_step n slots rel;rel;.. i,i,..  -> a,b,none | a,b,p,q | panic     (model only)
  final_replay n p,p,.. rel;rel;.. i,i;i,i,i;..  -> d,d,.. | - | panic
      (model of `final_step` around the kernel solver: factor base primes in index order, relations,
       kernel vectors as index lists into the filtered relations; `crate::pseudoprime` = C06 model)
  rs_history_stack ..                    -> same request and answer as rs_history, answered with the
                                            explicit-stack model of walk_doubles (Model/RelationsWalk.lean)
  rs_history_stats ..                    -> `cycles=<count> stats=..` only, explicit-stack model
  rs_history n fbsize maxlarge history   -> rec;rec;...;rec | cycles=<count> partial=.. doubles=.. rev=.. stats=..
                                            or `panic@<i>` (the i-th add, 0-based, does not return)
      rec = <tag>{=<rel of a newly published cycle>}*
      tag = <kind><hp><hq><rep>.<dc>.<dp>.<dd>   (see `tagOf`)
-/
namespace Ymq.Drv
open Ymq.Relations

def showPrime (p : Int) : String := if p = -1 then "m1" else toString p

def showFactors (fs : List (Int × Nat)) : String :=
  if fs.isEmpty then "-" else "*".intercalate (fs.map fun f => s!"{showPrime f.1}^{f.2}")

def showRel (r : Relation) : String :=
  s!"{r.x}:{r.cofactor}:{r.cyclelen}:{showFactors r.factors}"

def parseFactor (s : String) : Option (Int × Nat) :=
  match s.splitOn "^" with
  | [p, k] => do
    let p ← if p = "m1" then some (-1 : Int) else parseInt p
    let k ← parseNat k
    some (p, k)
  | _ => none

def parseFactors (s : String) : Option (List (Int × Nat)) :=
  if s = "-" then some [] else (s.splitOn "*").mapM parseFactor

def parseRel (s : String) : Option Relation :=
  match s.splitOn ":" with
  | [x, c, l, f] => do
    let x ← parseNat x; let c ← parseNat c; let l ← parseNat l; let f ← parseFactors f
    some { x := x, cofactor := c, cyclelen := l, factors := f }
  | _ => none

def parsePQ (s : String) : Option (Option (Nat × Nat)) :=
  if s = "-" then some none else
  match s.splitOn "," with
  | [p, q] => do
    let p ← parseNat p; let q ← parseNat q
    some (some (p, q))
  | _ => none

def parseItem (s : String) : Option (Relation × Option (Nat × Nat)) :=
  match s.splitOn "|" with
  | [r, pq] => do some ((← parseRel r), (← parsePQ pq))
  | [_, r, pq] => do some ((← parseRel r), (← parsePQ pq))
  | _ => none

def parseHistory (s : String) : Option (List (Relation × Option (Nat × Nat))) :=
  if s = "-" then some [] else ((s.splitOn ";").filter (fun t => !t.startsWith "new|" && !t.startsWith "final|")).mapM parseItem

def cap3 (v : Nat) : String := toString (min v 3)

def b01 (b : Bool) : String := if b then "1" else "0"

/-- branch tag of one `add`, computed from observable state before/after (the harness computes the
same string from the real `RelationSet`).
kind: c complete, s single large prime, x dropped (no pq), q p = q, d double.
hp/hq: the large prime(s) were keys of `partial` before; rep: the entry of such a key changed.
dc/dp: growth of `cycles`/`partial` (capped at 3); dd: doubles removed (capped) or `+` stored. -/
def tagOf (r : Relation) (pq : Option (Nat × Nat)) (s s' : Store) : String :=
  let kind := if r.cofactor = 1 then "c" else if r.cofactor < s.maxlarge then "s" else
    match pq with
    | none => "x"
    | some (p, q) => if p = q then "q" else "d"
  let keys : List Nat := if kind = "s" then [r.cofactor] else
    match kind, pq with
    | "d", some (p, q) => [p, q]
    | "q", some (p, q) => [p, q]
    | _, _ => []
  let has := keys.map fun k => (alookup k s.partials).isSome
  let hp := has.getD 0 false
  let hq := has.getD 1 false
  let rep := keys.any fun k =>
    match alookup k s.partials with
    | some b => alookup k s'.partials != some b
    | none => false
  let dd := if s'.doubles.length > s.doubles.length then "+" else cap3 (s.doubles.length - s'.doubles.length)
  s!"{kind}{b01 hp}{b01 hq}{b01 rep}.{cap3 (s'.cycles.length - s.cycles.length)}.{cap3 (s'.partials.length - s.partials.length)}.{dd}"

def showUnpacked (b : List Nat) : String :=
  match unpack b with
  | .ok r => showRel r
  | .error _ => "corrupt"

def showStore (s : Store) : String :=
  let part := if s.partials.isEmpty then "-" else "+".intercalate (s.partials.map fun e => s!"{e.1}>{showUnpacked e.2}")
  let dbl := if s.doubles.isEmpty then "-" else "+".intercalate (s.doubles.map fun e => s!"{e.1.1},{e.1.2}>{showUnpacked e.2}")
  let rev := if s.doublesRev.isEmpty then "-" else "+".intercalate (s.doublesRev.map fun e => s!"{e.1},{e.2}")
  s!"cycles={s.cycles.length} partial={part} doubles={dbl} rev={rev} stats={s.nPartials},{s.nDoubles},{s.nCombined12},{showList s.nCycles}"

/-- `addF` = `add` (recursive walk model) or `addStack` (explicit-stack walk model) -/
def historyLoop (addF : Relation → Option (Nat × Nat) → Store → M Store) :
    List (Relation × Option (Nat × Nat)) → Nat → Store → List String → String
  | [], _, s, acc => ";".intercalate acc.reverse ++ " | " ++ showStore s
  | (r, pq) :: t, i, s, acc =>
    match addF r pq s with
    | .error _ => s!"panic@{i}"
    | .ok s' =>
      let news := s'.cycles.drop s.cycles.length
      let rec_ := "=".intercalate (tagOf r pq s s' :: news.map showRel)
      historyLoop addF t (i + 1) s' (rec_ :: acc)

/-- counters only (long chains: the store dump is quadratic) -/
def statsLoop (addF : Relation → Option (Nat × Nat) → Store → M Store) :
    List (Relation × Option (Nat × Nat)) → Nat → Store → String
  | [], _, s => s!"cycles={s.cycles.length} stats={s.nPartials},{s.nDoubles},{s.nCombined12},{showList s.nCycles}"
  | (r, pq) :: t, i, s =>
    match addF r pq s with
    | .error _ => s!"panic@{i}"
    | .ok s' => statsLoop addF t (i + 1) s'

def showM {α} (f : α → String) : M α → String
  | .ok a => f a
  | .error _ => "panic"

def handleRelations : Handler
  | ["rel_verify", n, r] => do
    let n ← parseNat n; let r ← parseRel r
    some (showM showBool (verify n r))
  | ["rs_combine", n, r1, r2] => do
    let n ← parseNat n; let r1 ← parseRel r1; let r2 ← parseRel r2
    some (showM showRel (combine n r1 r2))
  | ["rel_pack", r] => do
    let r ← parseRel r
    some (showM showList (pack r))
  | ["rel_roundtrip", r] => do
    let r ← parseRel r
    some (showM showRel (pack r >>= unpack))
  | ["rel_unpack", b] => do
    let b ← parseNatList b
    some (showM showRel (unpack b))
  | ["try_factor", n, a, b] => do
    let n ← parseNat n; let a ← parseNat a; let b ← parseNat b
    some (showM (fun o => match o with | none => "none" | some (p, q) => s!"{p},{q}") (tryFactor n a b))
  | ["final_combine", n, xs, f] => do
    let n ← parseNat n; let xs ← parseNatList xs; let f ← parseFactors f
    -- `ZmodN::new(n)` (property C07) asserts an odd modulus of at most 512 bits
    if n % 2 = 0 ∨ n ≥ 2 ^ 512 then some "panic" else
    some (showM (fun ab => s!"{ab.1},{ab.2}") (combineAB n xs f))
  | ["kernel_step", n, slots, rels, eq] => do
    let n ← parseNat n; let slots ← parseIntList slots; let eq ← parseNatList eq
    let rels ← if rels = "-" then some [] else (rels.splitOn ";").mapM parseRel
    some (showM (fun r => match r.2.2 with
      | none => s!"{r.1},{r.2.1},none"
      | some (p, q) => s!"{r.1},{r.2.1},{p},{q}") (kernelStep n slots rels eq))
  | ["final_replay", n, fb, rels, kernel] => do
    let n ← parseNat n; let fb ← parseNatList fb
    let rels ← if rels = "-" then some [] else (rels.splitOn ";").mapM parseRel
    let kernel ← if kernel = "-" then some [] else (kernel.splitOn ";").mapM parseNatList
    let isPrime := fun p => (Ymq.Pseudoprime.pseudoprime p).getD false
    some (showM (fun r => showList r.2.2) (finalStep n fb rels kernel isPrime))
  | ["rs_history", n, fbsize, maxlarge, h] => do
    let n ← parseNat n; let fbsize ← parseNat fbsize; let maxlarge ← parseNat maxlarge
    let h ← parseHistory h
    some (historyLoop add h 0 (Store.new n fbsize maxlarge) [])
  | ["rs_history_stack", n, fbsize, maxlarge, h] => do
    let n ← parseNat n; let fbsize ← parseNat fbsize; let maxlarge ← parseNat maxlarge
    let h ← parseHistory h
    some (historyLoop addStack h 0 (Store.new n fbsize maxlarge) [])
  | ["rs_history_stats", n, fbsize, maxlarge, h] => do
    let n ← parseNat n; let fbsize ← parseNat fbsize; let maxlarge ← parseNat maxlarge
    let h ← parseHistory h
    some (statsLoop addStack h 0 (Store.new n fbsize maxlarge))
  | _ => none

end Ymq.Drv
