/-
C10: the in-place number-theoretic transform of `MultiZmodP` (model Ymq/Model/Ntt.lean) is the radix-2
recursion `fftRec` of `dft_conv` per prime, on the bit-reversed input (`nttInplace_spec`), given the
root tables (`RootsOk`). Scalar facts: `mg_mul64`, the butterfly and `div_pow2` on Montgomery forms
(`mgMul64_mf`, `addsub1_mf`, `divPow2_mf`, on top of C07's `mgMul_spec`/`mgRedc_spec`).
-/
import Ymq.Model.Ntt
import Ymq.Props.C07
import Ymq.Lemmas.PolyDft
import Mathlib.Data.ZMod.Basic
import Mathlib.Tactic.LinearCombination
import Mathlib.Tactic.Ring
import Mathlib.Tactic.Linarith
import Mathlib.Tactic.NormNum

namespace Ymq.Crt
open Ymq.Mg64 (W mgMul mgRedc)

/-- a prime of the table: odd, below `2^59`, Montgomery constant `p - 2` -/
structure PrimeOk (p : Nat) : Prop where
  pos : 1 < p
  lt : p < 2 ^ 59
  inv : (p * (p - 2) + 1) % W = 0
  odd : p % 2 = 1

theorem W_val' : W = 18446744073709551616 := rfl

theorem PrimeOk.ltW {p : Nat} (h : PrimeOk p) : p < W := by
  have := h.lt
  have h59 : (2 : Nat) ^ 59 = 576460752303423488 := by norm_num
  rw [h59] at this; rw [W_val']; omega

/-- `1/R` in `ℤ/p` -/
noncomputable def uinv (p : Nat) : ZMod p := ((W : Nat) : ZMod p)⁻¹

theorem W_uinv {p : Nat} (h : PrimeOk p) : ((W : Nat) : ZMod p) * uinv p = 1 := by
  unfold uinv
  apply ZMod.coe_mul_inv_eq_one
  have hW : W = 2 ^ 64 := by decide
  rw [hW]
  apply Nat.Coprime.pow_left
  exact (Nat.Prime.coprime_iff_not_dvd Nat.prime_two).2 (by intro hd; have := h.odd; omega)

/-- the residue represented by the Montgomery form `x` -/
noncomputable def mf (p x : Nat) : ZMod p := (x : ZMod p) * uinv p

theorem mf_of_mulW {p : Nat} (h : PrimeOk p) (z : Nat) (t : ZMod p) (hz : (z : ZMod p) * ((W : Nat) : ZMod p) = t) :
    mf p z = t * uinv p * uinv p := by
  unfold mf
  have := W_uinv h
  calc (z : ZMod p) * uinv p = (z : ZMod p) * (((W : Nat) : ZMod p) * uinv p) * uinv p := by rw [this, mul_one]
    _ = ((z : ZMod p) * ((W : Nat) : ZMod p)) * uinv p * uinv p := by ring
    _ = t * uinv p * uinv p := by rw [hz]

theorem mgMul64_mf {p : Nat} (h : PrimeOk p) (x y : Nat) (hx : x < p) (hy : y < W) :
    ∃ z, mgMul64 p x y = some z ∧ z < p ∧ mf p z = mf p x * mf p y := by
  obtain ⟨r, hr, hlt, hmod⟩ := Ymq.C07.mgMul_spec p (p - 2) x y (by have := h.pos; omega) h.ltW h.inv hx hy
  refine ⟨r, hr, hlt, ?_⟩
  have hc : ((r * W : Nat) : ZMod p) = ((x * y : Nat) : ZMod p) := (ZMod.natCast_eq_natCast_iff' _ _ _).2 hmod
  push_cast at hc
  rw [mf_of_mulW h r _ hc]
  unfold mf; ring

theorem addsub1_mf {p : Nat} (h : PrimeOk p) (x y : Nat) (hx : x < p) (hy : y < p) :
    ∃ a b, addsub1 p x y = some (a, b) ∧ a < p ∧ b < p ∧ mf p a = mf p x + mf p y ∧
      mf p b = mf p x - mf p y := by
  have hp := h.ltW
  have h59 := h.lt
  have e59 : (2 : Nat) ^ 59 = 576460752303423488 := by norm_num
  rw [e59] at h59
  unfold addsub1
  rw [if_neg (by rw [W_val']; omega)]
  have hpz : ((p : Nat) : ZMod p) = 0 := ZMod.natCast_self p
  refine ⟨_, _, rfl, ?_, ?_, ?_, ?_⟩
  · split_ifs <;> omega
  · split_ifs <;> omega
  · unfold mf
    split_ifs with hc
    · have : ((x + y - p : Nat) : ZMod p) = (x : ZMod p) + (y : ZMod p) := by
        rw [Nat.cast_sub hc]; push_cast; rw [hpz]; ring
      rw [this]; ring
    · push_cast; ring
  · unfold mf
    have hxy : ((x + p - y : Nat) : ZMod p) = (x : ZMod p) - (y : ZMod p) := by
      rw [Nat.cast_sub (by omega)]; push_cast; rw [hpz]; ring
    split_ifs with hc
    · have : ((x + p - y - p : Nat) : ZMod p) = (x : ZMod p) - (y : ZMod p) := by
        rw [Nat.cast_sub hc, hxy, hpz]; ring
      rw [this]; ring
    · rw [hxy]; ring

theorem divPow2_mf {p : Nat} (h : PrimeOk p) (x k : Nat) (hx : x < p) (hk : k ≤ 64) :
    ∃ z, mgRedc p (p - 2) (x * 2 ^ (64 - k) % 2 ^ 128) = some z ∧ z < p ∧ mf p z * 2 ^ k = mf p x := by
  have hpow : 2 ^ (64 - k) ≤ W := by
    rw [show W = 2 ^ 64 by decide]; exact Nat.pow_le_pow_right (by decide) (by omega)
  have hX : x * 2 ^ (64 - k) < p * W := by
    calc x * 2 ^ (64 - k) ≤ x * W := Nat.mul_le_mul_left _ hpow
      _ < p * W := Nat.mul_lt_mul_of_pos_right hx (by decide)
  have h128 : x * 2 ^ (64 - k) % 2 ^ 128 = x * 2 ^ (64 - k) := by
    apply Nat.mod_eq_of_lt
    have : p * W < W * W := Nat.mul_lt_mul_of_pos_right h.ltW (by decide)
    have hWW : W * W = 2 ^ 128 := by rw [W_val']; norm_num
    omega
  rw [h128]
  obtain ⟨r, hr, hlt, hmod⟩ := Ymq.C07.mgRedc_spec p (p - 2) _ (by have := h.pos; omega) h.ltW h.inv hX
  refine ⟨r, hr, hlt, ?_⟩
  have hc : ((r * W : Nat) : ZMod p) = ((x * 2 ^ (64 - k) : Nat) : ZMod p) :=
    (ZMod.natCast_eq_natCast_iff' _ _ _).2 hmod
  push_cast at hc
  rw [mf_of_mulW h r _ hc]
  unfold mf
  have hW2 : ((W : Nat) : ZMod p) = 2 ^ (64 - k) * 2 ^ k := by
    rw [← pow_add, show 64 - k + k = 64 by omega, show W = 2 ^ 64 by decide]; push_cast; norm_num
  have hu := W_uinv h
  calc (x : ZMod p) * 2 ^ (64 - k) * uinv p * uinv p * 2 ^ k
      = (x : ZMod p) * uinv p * ((2 ^ (64 - k) * 2 ^ k) * uinv p) := by ring
    _ = (x : ZMod p) * uinv p := by rw [← hW2, hu, mul_one]


/-! ### elements (`w` residues) -/

/-- the `j`-th prime of the context -/
abbrev P (m : Mzp) (j : Nat) : Nat := m.primes.getD j 0

def TabOk (m : Mzp) : Prop := ∀ j, j < m.w → PrimeOk (P m j)

/-- an element: `w` reduced residues -/
def EltOk (m : Mzp) (x : List Nat) : Prop := x.length = m.w ∧ ∀ j, j < m.w → x.getD j 0 < P m j

/-- residue `j` of an element -/
noncomputable def mfe (m : Mzp) (x : List Nat) (j : Nat) : ZMod (P m j) := mf (P m j) (x.getD j 0)

theorem mapM_range' {α : Type} (d : α) {Q : Nat → α → Prop} (f : Nat → Option α) :
    ∀ w, (∀ i, i < w → ∃ r, f i = some r ∧ Q i r) →
      ∃ l, (List.range w).mapM f = some l ∧ l.length = w ∧ ∀ i, i < w → Q i (l.getD i d) := by
  intro w
  induction w with
  | zero => intro _; exact ⟨[], rfl, rfl, fun i hi => by omega⟩
  | succ w ih =>
    intro h
    obtain ⟨l, e, ll, hl⟩ := ih (fun i hi => h i (by omega))
    obtain ⟨r, er, hr⟩ := h w (by omega)
    refine ⟨l ++ [r], ?_, by simp [ll], ?_⟩
    · rw [List.range_succ, List.mapM_append, e]
      simp [er]
    · intro i hi
      by_cases hiw : i < w
      · rw [List.getD_eq_getElem?_getD, List.getElem?_append_left (by omega), ← List.getD_eq_getElem?_getD]
        exact hl i hiw
      · have : i = w := by omega
        subst this
        rw [List.getD_eq_getElem?_getD, List.getElem?_append_right (by omega), ll]; simpa using hr

theorem mulE_spec (m : Mzp) (ht : TabOk m) (x y : List Nat) (hx : EltOk m x) (hy : EltOk m y) :
    ∃ z, mulE m x y = some z ∧ EltOk m z ∧ ∀ j, j < m.w → mfe m z j = mfe m x j * mfe m y j := by
  obtain ⟨l, e, ll, hl⟩ := mapM_range' (α := Nat) 0
    (Q := fun j r => r < P m j ∧ mf (P m j) r = mf (P m j) (x.getD j 0) * mf (P m j) (y.getD j 0))
    (fun j => mgMul64 (m.primes.getD j 0) (x.getD j 0) (y.getD j 0)) m.w (by
      intro j hj
      obtain ⟨z, h1, h2, h3⟩ := mgMul64_mf (ht j hj) _ _ (hx.2 j hj) (lt_trans (hy.2 j hj) (ht j hj).ltW)
      exact ⟨z, h1, h2, h3⟩)
  exact ⟨l, e, ⟨ll, fun j hj => (hl j hj).1⟩, fun j hj => (hl j hj).2⟩

theorem getD_unzip_fst (l : List (Nat × Nat)) (j : Nat) : l.unzip.1.getD j 0 = (l.getD j (0, 0)).1 := by
  rw [List.unzip_fst, List.getD_eq_getElem?_getD, List.getD_eq_getElem?_getD, List.getElem?_map]
  cases l[j]? <;> rfl

theorem getD_unzip_snd (l : List (Nat × Nat)) (j : Nat) : l.unzip.2.getD j 0 = (l.getD j (0, 0)).2 := by
  rw [List.unzip_snd, List.getD_eq_getElem?_getD, List.getD_eq_getElem?_getD, List.getElem?_map]
  cases l[j]? <;> rfl

/-- `muladdsub_inplace` on one element: `(x + r·y, x - r·y)` -/
theorem muladdsubE_spec (m : Mzp) (ht : TabOk m) (x y r : List Nat) (hx : EltOk m x) (hy : EltOk m y)
    (hr : EltOk m r) :
    ∃ a b, muladdsubE m x y r = some (a, b) ∧ EltOk m a ∧ EltOk m b ∧
      ∀ j, j < m.w → mfe m a j = mfe m x j + mfe m r j * mfe m y j ∧
        mfe m b j = mfe m x j - mfe m r j * mfe m y j := by
  obtain ⟨l, e, ll, hl⟩ := mapM_range' (α := Nat × Nat) (0, 0)
    (Q := fun j ab => ab.1 < P m j ∧ ab.2 < P m j ∧
      mf (P m j) ab.1 = mf (P m j) (x.getD j 0) + mf (P m j) (r.getD j 0) * mf (P m j) (y.getD j 0) ∧
      mf (P m j) ab.2 = mf (P m j) (x.getD j 0) - mf (P m j) (r.getD j 0) * mf (P m j) (y.getD j 0))
    (fun j => muladdsub1 (m.primes.getD j 0) (x.getD j 0) (y.getD j 0) (r.getD j 0)) m.w (by
      intro j hj
      obtain ⟨z, h1, h2, h3⟩ := mgMul64_mf (ht j hj) _ _ (hy.2 j hj) (lt_trans (hr.2 j hj) (ht j hj).ltW)
      obtain ⟨a, b, g1, g2, g3, g4, g5⟩ := addsub1_mf (ht j hj) (x.getD j 0) z (hx.2 j hj) h2
      refine ⟨(a, b), ?_, g2, g3, ?_, ?_⟩
      · unfold muladdsub1; simp only [h1]; exact g1
      · rw [g4, h3]; ring
      · rw [g5, h3]; ring)
  refine ⟨l.unzip.1, l.unzip.2, ?_, ⟨by simp [ll], ?_⟩, ⟨by simp [ll], ?_⟩, ?_⟩
  · unfold muladdsubE; rw [e]; rfl
  · intro j hj; rw [getD_unzip_fst]; exact (hl j hj).1
  · intro j hj; rw [getD_unzip_snd]; exact (hl j hj).2.1
  · intro j hj
    unfold mfe
    rw [getD_unzip_fst, getD_unzip_snd]
    exact ⟨(hl j hj).2.2.1, (hl j hj).2.2.2⟩

/-- `addsub_inplace` on two elements -/
theorem addsubE_spec (m : Mzp) (ht : TabOk m) (x y : List Nat) (hx : EltOk m x) (hy : EltOk m y) :
    ∃ a b, addsubE m x y = some (a, b) ∧ EltOk m a ∧ EltOk m b ∧
      ∀ j, j < m.w → mfe m a j = mfe m x j + mfe m y j ∧ mfe m b j = mfe m x j - mfe m y j := by
  obtain ⟨l, e, ll, hl⟩ := mapM_range' (α := Nat × Nat) (0, 0)
    (Q := fun j ab => ab.1 < P m j ∧ ab.2 < P m j ∧
      mf (P m j) ab.1 = mf (P m j) (x.getD j 0) + mf (P m j) (y.getD j 0) ∧
      mf (P m j) ab.2 = mf (P m j) (x.getD j 0) - mf (P m j) (y.getD j 0))
    (fun j => addsub1 (m.primes.getD j 0) (x.getD j 0) (y.getD j 0)) m.w (by
      intro j hj
      obtain ⟨a, b, g1, g2, g3, g4, g5⟩ := addsub1_mf (ht j hj) (x.getD j 0) (y.getD j 0) (hx.2 j hj) (hy.2 j hj)
      exact ⟨(a, b), g1, g2, g3, g4, g5⟩)
  refine ⟨l.unzip.1, l.unzip.2, ?_, ⟨by simp [ll], ?_⟩, ⟨by simp [ll], ?_⟩, ?_⟩
  · unfold addsubE; rw [if_neg (by rw [hx.1, hy.1]; simp), e]; rfl
  · intro j hj; rw [getD_unzip_fst]; exact (hl j hj).1
  · intro j hj; rw [getD_unzip_snd]; exact (hl j hj).2.1
  · intro j hj
    unfold mfe
    rw [getD_unzip_fst, getD_unzip_snd]
    exact ⟨(hl j hj).2.2.1, (hl j hj).2.2.2⟩

/-- `div_pow2` on an element -/
theorem divPow2E_spec (m : Mzp) (ht : TabOk m) (x : List Nat) (k : Nat) (hx : EltOk m x) (hk : k ≤ 64) :
    ∃ z, divPow2E m x k = some z ∧ EltOk m z ∧ ∀ j, j < m.w → mfe m z j * 2 ^ k = mfe m x j := by
  obtain ⟨l, e, ll, hl⟩ := mapM_range' (α := Nat) 0
    (Q := fun j r => r < P m j ∧ mf (P m j) r * 2 ^ k = mf (P m j) (x.getD j 0))
    (fun j => mgRedc (m.primes.getD j 0) (m.primes.getD j 0 - 2) (x.getD j 0 * 2 ^ (64 - k) % 2 ^ 128)) m.w (by
      intro j hj
      obtain ⟨z, h1, h2, h3⟩ := divPow2_mf (ht j hj) (x.getD j 0) k (hx.2 j hj) hk
      exact ⟨z, h1, h2, h3⟩)
  refine ⟨l, ?_, ⟨ll, fun j hj => (hl j hj).1⟩, fun j hj => (hl j hj).2⟩
  unfold divPow2E; rw [if_neg (by omega), e]


/-! ### vectors of elements -/

def VecOk (m : Mzp) (v : List (List Nat)) (n : Nat) : Prop := v.length = n ∧ ∀ e ∈ v, EltOk m e

theorem VecOk.getD {m : Mzp} {v : List (List Nat)} {n : Nat} (h : VecOk m v n) (i : Nat) (hi : i < n) :
    EltOk m (v.getD i []) := by
  apply h.2
  rw [List.getD_eq_getElem?_getD, List.getElem?_eq_getElem (by rw [h.1]; exact hi)]
  simp

theorem muladdsubV_spec (m : Mzp) (ht : TabOk m) : ∀ (xs ys rs : List (List Nat)) (h : Nat),
    VecOk m xs h → VecOk m ys h → VecOk m rs h →
    ∃ as bs, muladdsubV m xs ys rs = some (as, bs) ∧ VecOk m as h ∧ VecOk m bs h ∧
      ∀ i, i < h → ∀ j, j < m.w →
        mfe m (as.getD i []) j = mfe m (xs.getD i []) j + mfe m (rs.getD i []) j * mfe m (ys.getD i []) j ∧
        mfe m (bs.getD i []) j = mfe m (xs.getD i []) j - mfe m (rs.getD i []) j * mfe m (ys.getD i []) j := by
  intro xs
  induction xs with
  | nil =>
    intro ys rs h hx _ _
    have : h = 0 := by have := hx.1; simpa using this.symm
    subst this
    refine ⟨[], [], by cases ys <;> simp [muladdsubV], ⟨rfl, fun e he => by cases he⟩,
      ⟨rfl, fun e he => by cases he⟩, fun i hi => by omega⟩
  | cons x xs ih =>
    intro ys rs h hx hy hr
    cases ys with
    | nil => have := hx.1; have := hy.1; simp at *; omega
    | cons y ys =>
      cases rs with
      | nil => have := hx.1; have := hr.1; simp at *; omega
      | cons r rs =>
        obtain ⟨a, b, e1, ha, hb, hab⟩ := muladdsubE_spec m ht x y r (hx.2 x List.mem_cons_self)
          (hy.2 y List.mem_cons_self) (hr.2 r List.mem_cons_self)
        have hh : h = xs.length + 1 := by have := hx.1; simpa using this.symm
        obtain ⟨as, bs, e2, has, hbs, habs⟩ := ih ys rs xs.length
          ⟨rfl, fun e he => hx.2 e (List.mem_cons_of_mem _ he)⟩
          ⟨by have := hy.1; simp at this; omega, fun e he => hy.2 e (List.mem_cons_of_mem _ he)⟩
          ⟨by have := hr.1; simp at this; omega, fun e he => hr.2 e (List.mem_cons_of_mem _ he)⟩
        refine ⟨a :: as, b :: bs, by simp only [muladdsubV, e1, e2], ?_, ?_, ?_⟩
        · refine ⟨by simp [has.1, hh], ?_⟩
          intro e he
          rcases List.mem_cons.1 he with rfl | he
          · exact ha
          · exact has.2 e he
        · refine ⟨by simp [hbs.1, hh], ?_⟩
          intro e he
          rcases List.mem_cons.1 he with rfl | he
          · exact hb
          · exact hbs.2 e he
        · intro i hi j hj
          cases i with
          | zero => simpa using hab j hj
          | succ i => simpa using habs i (by omega) j hj

/-! ### bit reversal -/

theorem bitrev_lt : ∀ (k i : Nat), bitrev k i < 2 ^ k := by
  intro k
  induction k with
  | zero => intro i; simp [bitrev]
  | succ k ih =>
    intro i
    unfold bitrev
    have := ih (i / 2)
    have h2 : i % 2 < 2 := Nat.mod_lt _ (by decide)
    have : i % 2 * 2 ^ k ≤ 1 * 2 ^ k := Nat.mul_le_mul_right _ (by omega)
    rw [pow_succ]; omega

theorem bitrev_even (k t : Nat) : bitrev (k + 1) (2 * t) = bitrev k t := by
  conv_lhs => unfold bitrev
  rw [Nat.mul_mod_right, Nat.zero_mul, Nat.zero_add, Nat.mul_div_cancel_left _ (by decide)]

theorem bitrev_odd (k t : Nat) : bitrev (k + 1) (2 * t + 1) = 2 ^ k + bitrev k t := by
  conv_lhs => unfold bitrev
  rw [show (2 * t + 1) % 2 = 1 by omega, Nat.one_mul, show (2 * t + 1) / 2 = t by omega]

/-! ### the transform -/

/-- what `ntt_inplace` needs of the root tables: per prime a family of roots `om j k fwd` (level `k`,
direction) with `om(k+1)² = om k`, `om k ^ 2^(k-1) = -1`, forward·backward `= 1`, and the table entries
of level `k`: `2^(k-1)` forward powers followed by `2^(k-1)` backward powers -/
structure RootsOk (m : Mzp) (rts : List (List (List Nat)))
    (om : (j : Nat) → Nat → Bool → ZMod (P m j)) : Prop where
  sq : ∀ j k d, j < m.w → 1 ≤ k → k < m.k → om j (k + 1) d * om j (k + 1) d = om j k d
  half : ∀ j k d, j < m.w → 1 ≤ k → k ≤ m.k → om j k d ^ 2 ^ (k - 1) = -1
  inv : ∀ j k, j < m.w → 1 ≤ k → k ≤ m.k → om j k true * om j k false = 1
  tab : ∀ k, 1 ≤ k → k ≤ m.k → ∃ rk, rts[k]? = some rk ∧ VecOk m rk (2 ^ k) ∧
    ∀ i, i < 2 ^ (k - 1) → ∀ j, j < m.w →
      mfe m (rk.getD i []) j = om j k true ^ i ∧ mfe m (rk.getD (2 ^ (k - 1) + i) []) j = om j k false ^ i

theorem getD_app_l' {α} (a b : List α) (i : Nat) (d : α) (h : i < a.length) : (a ++ b).getD i d = a.getD i d := by
  simp [List.getD_eq_getElem?_getD, List.getElem?_append_left h]

theorem getD_app_r' {α} (a b : List α) (i : Nat) (d : α) (h : a.length ≤ i) :
    (a ++ b).getD i d = b.getD (i - a.length) d := by
  simp [List.getD_eq_getElem?_getD, List.getElem?_append_right h]

theorem getD_take' {α} (l : List α) (n i : Nat) (d : α) (h : i < n) : (l.take n).getD i d = l.getD i d := by
  simp [List.getD_eq_getElem?_getD, List.getElem?_take_of_lt h]

theorem getD_drop' {α} (l : List α) (n i : Nat) (d : α) : (l.drop n).getD i d = l.getD (n + i) d := by
  simp [List.getD_eq_getElem?_getD, List.getElem?_drop]

open Ymq.Dft in
/-- **`ntt_inplace` is the radix-2 recursion of `dft_conv` per prime**, on the bit-reversed input, forward
and inverse (the inverse divides by `2^(depth+k)`), with no panic site reached and every residue
reduced -/
theorem nttInplace_spec (m : Mzp) (ht : TabOk m) (rts : List (List (List Nat)))
    (om : (j : Nat) → Nat → Bool → ZMod (P m j)) (hr : RootsOk m rts om) (fwd : Bool) :
    ∀ (k : Nat) (v : List (List Nat)) (depth : Nat), 1 ≤ k → k ≤ m.k → VecOk m v (2 ^ k) → depth + k ≤ 64 →
      ∃ out, nttInplace m rts k v depth fwd = some out ∧ VecOk m out (2 ^ k) ∧
        ∀ j, j < m.w → ∀ i, i < 2 ^ k →
          mfe m (out.getD i []) j * (if fwd then 1 else 2 ^ (depth + k)) =
            fftRec k (om j k fwd) (fun t => mfe m (v.getD (bitrev k t) []) j) i := by
  intro k
  induction k with
  | zero => intro v depth h1; omega
  | succ k ih =>
    intro v depth _ hkm hv hdep
    unfold nttInplace
    rw [if_neg (by rw [hv.1]; simp)]
    by_cases hk0 : k = 0
    · subst hk0
      rw [if_pos rfl]
      match v, hv with
      | [v0, v1], hv =>
        obtain ⟨a, b, e, ha, hb, hab⟩ := addsubE_spec m ht v0 v1 (hv.2 v0 List.mem_cons_self)
          (hv.2 v1 (List.mem_cons_of_mem _ List.mem_cons_self))
        simp only [e]
        cases fwd with
        | true =>
          refine ⟨[a, b], rfl, ⟨rfl, ?_⟩, ?_⟩
          · intro e he
            simp only [List.mem_cons, List.not_mem_nil, or_false] at he
            rcases he with rfl | rfl
            · exact ha
            · exact hb
          · intro j hj i hi
            have : i = 0 ∨ i = 1 := by simp at hi; omega
            rcases this with rfl | rfl
            · simp [fftRec, bitrev, (hab j hj).1]
            · simp [fftRec, bitrev, (hab j hj).2]
        | false =>
          obtain ⟨a', ea, ha', haa⟩ := divPow2E_spec m ht a (depth + 1) ha (by omega)
          obtain ⟨b', eb, hb', hbb⟩ := divPow2E_spec m ht b (depth + 1) hb (by omega)
          simp only [ea, eb, Bool.false_eq_true, if_false]
          refine ⟨[a', b'], rfl, ⟨rfl, ?_⟩, ?_⟩
          · intro e he
            simp only [List.mem_cons, List.not_mem_nil, or_false] at he
            rcases he with rfl | rfl
            · exact ha'
            · exact hb'
          · intro j hj i hi
            have : i = 0 ∨ i = 1 := by simp at hi; omega
            rcases this with rfl | rfl
            · simp [fftRec, bitrev, haa j hj, (hab j hj).1]
            · simp [fftRec, bitrev, hbb j hj, (hab j hj).2]
    · rw [if_neg hk0]
      simp only
      have hp : 0 < 2 ^ k := Nat.pow_pos (by decide)
      have hlen2 : v.length = 2 ^ k + 2 ^ k := by rw [hv.1, pow_succ]; omega
      obtain ⟨rk, erk, hrk, htab⟩ := hr.tab (k + 1) (by omega) hkm
      rw [erk]
      simp only
      have hvt : VecOk m (v.take (2 ^ k)) (2 ^ k) :=
        ⟨by rw [List.length_take]; omega, fun e he => hv.2 e (List.mem_of_mem_take he)⟩
      have hvd : VecOk m (v.drop (2 ^ k)) (2 ^ k) :=
        ⟨by rw [List.length_drop]; omega, fun e he => hv.2 e (List.mem_of_mem_drop he)⟩
      obtain ⟨a, ea, ha, hsa⟩ := ih (v.take (2 ^ k)) (depth + 1) (by omega) (by omega) hvt (by omega)
      obtain ⟨b, eb, hb, hsb⟩ := ih (v.drop (2 ^ k)) (depth + 1) (by omega) (by omega) hvd (by omega)
      rw [ea, eb]
      simp only
      set rs := (if fwd then rk.take (2 ^ k) else rk.drop (2 ^ k)) with hrs
      have hrsok : VecOk m rs (2 ^ k) := by
        rw [hrs]
        have hl : rk.length = 2 ^ k + 2 ^ k := by rw [hrk.1, pow_succ]; omega
        split_ifs
        · exact ⟨by rw [List.length_take]; omega, fun e he => hrk.2 e (List.mem_of_mem_take he)⟩
        · exact ⟨by rw [List.length_drop]; omega, fun e he => hrk.2 e (List.mem_of_mem_drop he)⟩
      have hrsv : ∀ i, i < 2 ^ k → ∀ j, j < m.w → mfe m (rs.getD i []) j = om j (k + 1) fwd ^ i := by
        intro i hi j hj
        obtain ⟨t1, t2⟩ := htab i (by simpa using hi) j hj
        rw [hrs]
        cases fwd with
        | true => simp only [if_true]; rw [getD_take' _ _ _ _ hi]; exact t1
        | false =>
          simp only [Bool.false_eq_true, if_false]; rw [getD_drop']
          simpa using t2
      rw [if_neg (by rw [hrsok.1]; simp)]
      obtain ⟨as, bs, em, has, hbs, hab⟩ := muladdsubV_spec m ht a b rs (2 ^ k) ha hb hrsok
      rw [em]
      refine ⟨as ++ bs, rfl, ⟨by rw [List.length_append, has.1, hbs.1, pow_succ]; omega, ?_⟩, ?_⟩
      · intro e he
        rcases List.mem_append.1 he with h | h
        · exact has.2 e h
        · exact hbs.2 e h
      · intro j hj i hi
        have hsc : (if fwd then (1 : ZMod (P m j)) else 2 ^ (depth + (k + 1))) =
            (if fwd then 1 else 2 ^ (depth + 1 + k)) := by
          rw [show depth + (k + 1) = depth + 1 + k by omega]
        rw [hsc]
        simp only [fftRec]
        rw [hr.sq j k fwd hj (by omega) (by omega)]
        have he := hsa j hj
        have ho := hsb j hj
        simp only [bitrev_even, bitrev_odd]
        have hE : ∀ t, (v.take (2 ^ k)).getD (bitrev k t) [] = v.getD (bitrev k t) [] :=
          fun t => getD_take' _ _ _ _ (bitrev_lt k t)
        have hO : ∀ t, (v.drop (2 ^ k)).getD (bitrev k t) [] = v.getD (2 ^ k + bitrev k t) [] :=
          fun t => getD_drop' _ _ _ _
        simp only [hE] at he
        simp only [hO] at ho
        by_cases hik : i < 2 ^ k
        · rw [if_pos hik, ← he i hik, ← ho i hik, getD_app_l' _ _ _ _ (by rw [has.1]; exact hik)]
          rw [(hab i hik j hj).1, hrsv i hik j hj]; ring
        · rw [if_neg hik]
          have hi2 : i - 2 ^ k < 2 ^ k := by rw [pow_succ] at hi; omega
          rw [← he _ hi2, ← ho _ hi2, getD_app_r' _ _ _ _ (by rw [has.1]; omega), has.1]
          rw [(hab _ hi2 j hj).2, hrsv _ hi2 j hj]; ring

end Ymq.Crt
