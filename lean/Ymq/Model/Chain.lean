/-
Model of the addition-chain builders and chain interpreters of src/ecm.rs / src/ecm128.rs:
`Curve::make_addition_chain`, `Curve::make_addition_chain_long`, `Curve::scalar64_chainmul`,
`Curve::scalar1024_chainmul`, `Curve::scalar64_mul_dbladd`, `ecm128::Curve::scalar64_mul`.

Conventions as in Model/Mg64.lean: machine words are `Nat`, `i8` opcodes are `Int`; every site
where the checked profile panics (u64/u32/u128/i8 overflow or underflow, shift >= width, index out
of range) returns `none`; `as` casts wrap silently as in Rust; loops take fuel.
A chain is the list `chain[0..l]` in array order (the builders return `l`).
The capacity of the opcode buffers comes from the source (Gen/Curves.lean).
No Mathlib import: linked into the native driver.
-/
import Ymq.Gen.Curves

namespace Ymq.Chain

/-- 2^64 -/
def W : Nat := 18446744073709551616
/-- 2^128 -/
def W128 : Nat := 340282366920938463463374607431768211456

/-- trailing zeros of a non-zero word (fuel = word size) -/
def tzAux : Nat → Nat → Nat
  | 0, _ => 0
  | f + 1, n => if n % 2 = 1 then 0 else 1 + tzAux f (n / 2)

/-- `u64::trailing_zeros` -/
def tz64 (n : Nat) : Nat := if n = 0 then 64 else tzAux 64 n
/-- `u128::trailing_zeros` -/
def tz128 (n : Nat) : Nat := if n = 0 then 128 else tzAux 128 n

/-- `x as i8` for an unsigned `x` (wrapping, never panics) -/
def asI8 (x : Nat) : Int := if x % 256 < 128 then (x % 256 : Nat) else ((x % 256 : Nat) : Int) - 256

/-- an `i8` arithmetic result: `none` when it does not fit (checked profile panics) -/
def i8 (v : Int) : Option Int := if -128 ≤ v ∧ v ≤ 127 then some v else none

/-- bit length: `Uint::bits`, `128 - u128::leading_zeros` -/
def bitLen (n : Nat) : Nat := if n = 0 then 0 else Nat.log2 n + 1

/-! ### make_addition_chain -/

/-- the `loop` of `make_addition_chain`: `l` opcodes written so far, `kk` left to encode.
Returns the opcodes `chain[l..]` written from here on. -/
def mk64Loop (cap : Nat) : Nat → Nat → Nat → Option (List Int)
  | 0, _, _ => none
  | f + 1, l, kk =>
    if kk % 2 = 0 then
      let t := tz64 kk
      if l ≥ cap then none                       -- chain[l]
      else if t ≥ 64 then none                   -- kk >>= tz
      else do
        let op ← i8 (2 * asI8 t)                 -- 2 * tz as i8
        let r ← mk64Loop cap f (l + 1) (kk / 2 ^ t)
        some (op :: r)
    else if kk ≤ 7 then
      if l ≥ cap then none else some [asI8 kk]
    else
      let r := kk % 16
      if r < 8 then
        if l ≥ cap then none
        else do
          let c ← mk64Loop cap f (l + 1) ((kk - r) / 2)
          some (asI8 r :: c)
      else
        let rop := 16 - r
        if l ≥ cap then none
        else do
          let op ← i8 (-(asI8 rop))
          let kk' := kk / 2 + rop / 2 + 1
          if kk' ≥ W then none
          else do
            let c ← mk64Loop cap f (l + 1) kk'
            some (op :: c)

/-- `make_addition_chain(&mut chain, k)` with a buffer of `cap` opcodes: `chain[..l]`.
Every iteration that does not return writes one opcode, so `cap + 1` iterations always suffice. -/
def makeChainCap (cap k : Nat) : Option (List Int) :=
  if k = 0 then (if cap = 0 then none else some [0]) else mk64Loop cap (cap + 1) 0 k

/-- `make_addition_chain` as compiled (buffer size read from the source) -/
def makeChain (k : Nat) : Option (List Int) := makeChainCap Ymq.Gen.Curves.chainCap k

/-! ### make_addition_chain_long -/

structure LongSt where
  exp : Nat
  nextword : Nat
  idx : Nat
  bits : Nat
  curbits : Nat

/-- top of an iteration: `if curbits <= 32 && nextword <= lastword { exp += (nd[nextword] as u128) << curbits; .. }`;
`nd i` = i-th 64-bit digit of `n`. -/
def longRefill (nd : Nat → Nat) (lastword : Nat) (s : LongSt) : Option LongSt :=
  if s.curbits ≤ 32 ∧ s.nextword ≤ lastword then
    if s.nextword ≥ 16 then none                          -- nd[nextword]
    else
      let e := s.exp + nd s.nextword * 2 ^ s.curbits       -- shift < 128, no bits lost
      if e ≥ W128 then none
      else some { s with exp := e, nextword := s.nextword + 1, curbits := s.curbits + 64 }
  else some s

/-- rest of an iteration: one opcode is written; `.inl ops` = the loop is left through `break` with
`ops` written from here on, `.inr (op, s')` = opcode `op` written, continue in state `s'`. -/
def longStep (cap nbits : Nat) (s : LongSt) : Option (List Int ⊕ (Int × LongSt)) :=
  if s.idx ≥ cap then none                                  -- chain[idx] (every branch writes)
  else if s.exp % 2 = 0 then
    let t := min 60 (min (tz128 s.exp) s.curbits)
    -- exp >>= tz; bits += tz; curbits -= tz; chain[idx] = 2 * tz as i8
    match i8 (2 * asI8 t) with
    | none => none
    | some op =>
      some (.inr (op, { s with exp := s.exp / 2 ^ t, bits := s.bits + t, curbits := s.curbits - t, idx := s.idx + 1 }))
  else
    let low := s.exp % 128
    if low < 64 then
      let e := s.exp - low
      if e = 0 ∧ nbits < s.bits then none                   -- nbits - bits underflows
      else if e = 0 ∧ nbits - s.bits ≤ 6 then some (.inl [asI8 low])
      else if s.curbits = 0 then none                       -- curbits -= 1
      else some (.inr (asI8 low, { s with exp := e / 2, bits := s.bits + 1, curbits := s.curbits - 1, idx := s.idx + 1 }))
    else
      match i8 (-(asI8 (128 - low))) with
      | none => none
      | some op =>
        let e := s.exp + (128 - low)
        if e ≥ W128 then none
        else if s.curbits = 0 then none
        else some (.inr (op, { s with exp := e / 2, bits := s.bits + 1, curbits := s.curbits - 1, idx := s.idx + 1 }))

/-- the `while bits < nbits || exp > 0` loop of `make_addition_chain_long` -/
def mkLongLoop (cap : Nat) (nd : Nat → Nat) (nbits lastword : Nat) : Nat → LongSt → Option (List Int)
  | 0, _ => none
  | f + 1, s =>
    if ¬ (s.bits < nbits ∨ s.exp > 0) then some []
    else
      match longRefill nd lastword s with
      | none => none
      | some s1 =>
        match longStep cap nbits s1 with
        | none => none
        | some (.inl ops) => some ops
        | some (.inr (op, s2)) =>
          match mkLongLoop cap nd nbits lastword f s2 with
          | none => none
          | some r => some (op :: r)

/-- `make_addition_chain_long(&mut chain, n)` with a buffer of `cap` opcodes, `n < 2^1024`. -/
def makeChainLongCap (cap n : Nat) : Option (List Int) :=
  let nd := fun i => n / 2 ^ (64 * i) % W
  let exp := nd 0
  let nbits := bitLen n
  let curbits := if nbits ≥ 64 then 64 else bitLen exp
  if nbits = 0 then none                                          -- nbits as usize - 1
  else
    let lastword := (nbits - 1) / 64
    mkLongLoop cap nd nbits lastword (cap + 1)
      { exp := exp, nextword := 1, idx := 0, bits := 0, curbits := curbits }

def makeChainLong (n : Nat) : Option (List Int) := makeChainLongCap Ymq.Gen.Curves.chainLongCap n

/-! ### what a chain denotes -/

/-- The scalar denoted by `chain[0..l]` when interpreted as `scalar64_chainmul` /
`scalar1024_chainmul` / `ecm128::scalar64_mul` interpret it: the last opcode `i` selects the
initial element `gaps[i / 2] = (2 (i/2) + 1) P`; the others are applied from the end to the front:
even `2y` = `y` doublings, odd `x` : `Q ↦ 2 Q + x P`. -/
def evalChain : List Int → Int
  | [] => 0
  | [i] => 2 * (i / 2) + 1
  | op :: rest =>
    if op % 2 = 0 then 2 ^ (op / 2).toNat * evalChain rest else 2 * evalChain rest + op

/-- an opcode other than the initial one: odd with `|x| ≤ m`, or even in `[2, 126]` -/
def OpOk (m : Int) (x : Int) : Prop :=
  (x % 2 = 1 ∧ -m ≤ x ∧ x ≤ m) ∨ (x % 2 = 0 ∧ 2 ≤ x ∧ x ≤ 126)

/-- well-formed chain: non-empty, the last (initial) opcode is odd in `[1, m]`, every other opcode
satisfies `OpOk m` (`m = 7` for the 64-bit builder, `63` for the long one). -/
def WF (m : Int) : List Int → Prop
  | [] => False
  | [i] => i % 2 = 1 ∧ 1 ≤ i ∧ i ≤ m
  | x :: rest => OpOk m x ∧ WF m rest

/-! ### interpreters over abstract point operations

`P` projective points, `E` extended points, `D` what the doubling of the double-add step returns
(`ExtPoint` in ecm.rs; ecm128.rs fuses it: `D = P`, `dblx = id`, `addp = dbladd`). -/

section Interp
variable {P E D : Type}

/-- `for _ in 0..n { q = double(q) }` -/
def iter (f : P → P) : Nat → P → P
  | 0, q => q
  | n + 1, q => iter f n (f q)

/-- one opcode of the main loop of `scalar64_chainmul` (ops are `i8`: `op / 2` truncates,
a negative even count gives an empty range; `gaps[..]` is bounds checked). -/
def stepOp (double : P → P) (dblx : P → D) (addp subp : D → E → P) (gaps : List E) (q : P) (op : Int) :
    Option P :=
  if op % 2 = 0 then some (iter double (Int.tdiv op 2).toNat q)
  else if op > 0 then
    match gaps[op.toNat / 2]? with
    | none => none
    | some g => some (addp (dblx q) g)
  else if op = -128 then none                                      -- (-op) overflows
  else
    match gaps[(-op).toNat / 2]? with
    | none => none
    | some g => some (subp (dblx q) g)

def foldOps (step : P → Int → Option P) : List Int → P → Option P
  | [], q => some q
  | op :: ops, q =>
    match step q op with
    | none => none
    | some q' => foldOps step ops q'

/-- the part of `scalar64_chainmul` after the chain is built: `q = gaps[c[l-1] as usize / 2]`,
then `for idx in 1..l { op = c[l-1-idx]; .. }`. -/
def runChain (toProj : E → P) (double : P → P) (dblx : P → D) (addp subp : D → E → P) (gaps : List E)
    (c : List Int) : Option P :=
  match c.reverse with
  | [] => none                                                     -- c[l - 1] with l = 0
  | i :: ops =>
    if i < 0 then none                                             -- negative i8 as usize: out of range
    else
      match gaps[i.toNat / 2]? with
      | none => none
      | some g => foldOps (stepOp double dblx addp subp gaps) ops (toProj g)

/-- `gaps = [pext, p3, p5, ..]` : `cnt` odd multiples, each `addext(previous, p2)` -/
def mkGaps (addext : E → E → E) (p2 : E) : Nat → E → List E
  | 0, _ => []
  | n + 1, g => g :: mkGaps addext p2 n (addext g p2)

/-- `Curve::scalar64_chainmul(k, p)` (ecm.rs) over abstract operations -/
def scalar64Chainmul (zero : P) (toExt : P → E) (toProj : E → P) (double : P → P) (dblext : P → E)
    (addext : E → E → E) (addp subp : E → E → P) (k : Nat) (p : P) : Option P :=
  if k = 0 then some zero
  else
    let gaps := mkGaps addext (dblext p) 4 (toExt p)
    match makeChain k with
    | none => none
    | some c => runChain toProj double dblext addp subp gaps c

/-- `Curve::scalar1024_chainmul(k, p)` (ecm.rs) over abstract operations -/
def scalar1024Chainmul (zero : P) (toExt : P → E) (toProj : E → P) (double : P → P) (dblext : P → E)
    (addext : E → E → E) (addp subp : E → E → P) (k : Nat) (p : P) : Option P :=
  if k = 0 then some zero
  else
    let gaps := mkGaps addext (dblext p) 32 (toExt p)
    match makeChainLong k with
    | none => none
    | some c => runChain toProj double dblext addp subp gaps c

/-- `ecm128::Curve::scalar64_mul(k, p)`: the double-add is fused (`dbladd`), subtraction negates
the gap first. -/
def scalar64Mul128 (zero : P) (toExt : P → E) (toProj : E → P) (double : P → P) (dblext : P → E)
    (addext : E → E → E) (dbladd : P → E → P) (neg : E → E) (k : Nat) (p : P) : Option P :=
  if k = 0 then some zero
  else
    let gaps := mkGaps addext (dblext p) 4 (toExt p)
    match makeChain k with
    | none => none
    | some c => runChain toProj double id dbladd (fun q g => dbladd q (neg g)) gaps c

/-- `Curve::scalar64_mul_dbladd(k, p)` : `while k > 0 { if k & 1 == 1 { res = add(res, sq) }; sq = double(sq); k >>= 1 }` -/
def dblAddLoop (add : P → P → P) (double : P → P) : Nat → Nat → P → P → Option P
  | 0, _, _, _ => none
  | f + 1, k, res, sq =>
    if k = 0 then some res
    else dblAddLoop add double f (k / 2) (if k % 2 = 1 then add res sq else res) (double sq)

def scalar64MulDbladd (zero : P) (add : P → P → P) (double : P → P) (k : Nat) (p : P) : Option P :=
  dblAddLoop add double 65 k zero p

end Interp

end Ymq.Chain
