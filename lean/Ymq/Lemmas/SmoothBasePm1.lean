/-
The stage-1 exponent stream of `pm1_impl` over one list of numbers (C17), for a flush threshold
`thr` with `thr + 64 ≤ 1024`: no panic site is reached (no `u64` / `U1024` overflow), every
exponent fits its type, the product of the exponents used so far times the two pending blocks
grows by exactly `pow` at every number `p ≤ b1`, and at the first `p > b1` everything is flushed.
-/
import Ymq.Lemmas.SmoothBasePack

namespace Ymq.Pm1
open Ymq.Primes Ymq.SmoothBase

/-- product of the exponents -/
def evProd (evs : List Ev) : Nat := (evs.map Ev.val).prod

/-- every exponent fits the type it is passed in -/
def EvOK : Ev → Prop
  | .small e => e < 2 ^ 64
  | .large e => e < 2 ^ 1024

structure Inv (thr : Nat) (st : St) : Prop where
  exp_pos : 1 ≤ st.expblock
  exp_lt : st.expblock < 2 ^ 64
  lg_pos : 1 ≤ st.lg
  lg_lt : st.lg < 2 ^ thr
  ev_ok : ∀ e ∈ st.evs, EvOK e

/-- the exponent accumulated so far, pending blocks included -/
def total (st : St) : Nat := evProd st.evs * (st.expblock * st.lg)

theorem evProd_cons (e : Ev) (evs : List Ev) : evProd (e :: evs) = e.val * evProd evs := by
  simp [evProd]

theorem evProd_reverse (evs : List Ev) : evProd evs.reverse = evProd evs := by
  simp [evProd, List.prod_reverse]

theorem two_pow_thr_mul {thr a b : Nat} (hthr : thr + 64 ≤ 1024) (ha : a < 2 ^ thr)
    (hb : b < 2 ^ 64) : a * b < 2 ^ 1024 := by
  have h : a * b < 2 ^ thr * 2 ^ 64 := Nat.mul_lt_mul'' ha hb
  rw [← Nat.pow_add] at h
  exact lt_of_lt_of_le h (Nat.pow_le_pow_right (by decide) hthr)

theorem inv_st0 (thr : Nat) (hthr : 1 ≤ thr) : Inv thr st0 := by
  constructor
  · exact Nat.le_refl 1
  · show 1 < 2 ^ 64
    exact Nat.one_lt_two_pow (by decide)
  · exact Nat.le_refl 1
  · show 1 < 2 ^ thr
    exact Nat.one_lt_two_pow (by omega)
  · intro e he; simp [st0] at he

theorem total_st0 : total st0 = 1 := by simp [total, st0, evProd]

/-- the small-block flush: never overflows for `thr + 64 ≤ 1024` -/
theorem flushSmall_spec (thr b1 pow : Nat) (stop : Bool) (st : St) (hthr : thr + 64 ≤ 1024)
    (h : Inv thr st) (hpow : pow < 2 ^ 64) :
    ∃ st', flushSmall b1 pow stop st = some st' ∧ total st' = total st ∧
      1 ≤ st'.expblock ∧ st'.expblock < 2 ^ 64 ∧ (stop = true → st'.expblock = 1) ∧
      (stop = false → st'.expblock * pow < 2 ^ 64) ∧
      1 ≤ st'.lg ∧ st'.lg < 2 ^ 1024 ∧ (∀ e ∈ st'.evs, EvOK e) ∧ st'.pPrev = st.pPrev := by
  have he0 : st.expblock ≠ 0 := by have := h.exp_pos; omega
  have hlg1024 : st.lg < 2 ^ 1024 := by
    have := two_pow_thr_mul hthr h.lg_lt (Nat.one_lt_two_pow (by decide : 64 ≠ 0))
    simpa using this
  unfold flushSmall
  have hn : ¬ (stop = false ∧ st.expblock = 0) := fun hc => he0 hc.2
  rw [if_neg hn]
  by_cases hfl : stop = true ∨ 2 ^ (64 - bitlen st.expblock) ≤ pow
  · rw [if_pos hfl]
    by_cases hsm : b1 < 65536
    · rw [if_pos hsm]
      refine ⟨_, rfl, ?_, Nat.le_refl 1, Nat.one_lt_two_pow (by decide), fun _ => rfl,
        fun _ => by simpa using hpow, h.lg_pos, hlg1024, ?_, rfl⟩
      · simp only [total, evProd_cons, Ev.val]; ring
      · intro e he
        simp only [List.mem_cons] at he
        rcases he with rfl | he
        · exact h.exp_lt
        · exact h.ev_ok e he
    · rw [if_neg hsm]
      have hmul := two_pow_thr_mul hthr h.lg_lt h.exp_lt
      rw [if_pos hmul]
      refine ⟨_, rfl, ?_, Nat.le_refl 1, Nat.one_lt_two_pow (by decide), fun _ => rfl,
        fun _ => by simpa using hpow, ?_, hmul, h.ev_ok, rfl⟩
      · simp only [total]; ring
      · have : 1 * 1 ≤ st.lg * st.expblock := Nat.mul_le_mul h.lg_pos h.exp_pos
        simpa using this
  · rw [if_neg hfl]
    have hns : stop = false := by
      cases stop
      · rfl
      · exact absurd (Or.inl rfl) hfl
    have hfl2 : ¬ 2 ^ (64 - bitlen st.expblock) ≤ pow := fun hc => hfl (Or.inr hc)
    refine ⟨st, rfl, rfl, h.exp_pos, h.exp_lt, fun hs => ?_,
      fun _ => mul_lt_of_flush_test h.exp_lt hfl2, h.lg_pos, hlg1024, h.ev_ok, rfl⟩
    rw [hns] at hs; exact absurd hs (by decide)

theorem flushLg_spec (thr : Nat) (stop : Bool) (st : St) (hthr : 1 ≤ thr) (hlg1 : 1 ≤ st.lg)
    (hlg : st.lg < 2 ^ 1024) (hev : ∀ e ∈ st.evs, EvOK e) :
    total (flushLg thr stop st) = total st ∧ (flushLg thr stop st).expblock = st.expblock ∧
      (flushLg thr stop st).pPrev = st.pPrev ∧
      1 ≤ (flushLg thr stop st).lg ∧ (flushLg thr stop st).lg < 2 ^ thr ∧
      (stop = true → (flushLg thr stop st).lg = 1) ∧
      (∀ e ∈ (flushLg thr stop st).evs, EvOK e) := by
  unfold flushLg
  split
  · refine ⟨?_, rfl, rfl, Nat.le_refl 1, Nat.one_lt_two_pow (by omega), fun _ => rfl, ?_⟩
    · simp only [total, evProd_cons, Ev.val]; ring
    · intro e he
      simp only [List.mem_cons] at he
      rcases he with rfl | he
      · exact hlg
      · exact hev e he
  · rename_i hnot
    have hns : stop = false := by
      cases stop
      · rfl
      · exact absurd (Or.inl rfl) hnot
    refine ⟨rfl, rfl, rfl, hlg1, ?_, fun hs => ?_, hev⟩
    · exact lt_of_bitlen_le (by
        have : ¬ bitlen st.lg > thr := fun hc => hnot (Or.inr hc)
        omega)
    · rw [hns] at hs; exact absurd hs (by decide)

/-- one number `p ≤ b1`: the accumulated exponent is multiplied by `pow` -/
theorem step_spec_go (thr b1 : Nat) (st : St) (p pow : Nat) (hthr : thr + 64 ≤ 1024)
    (hthr1 : 1 ≤ thr) (h : Inv thr st) (hpow : powBelow 64 p p b1 = some pow) (hpos : 1 ≤ pow)
    (hpow64 : pow < 2 ^ 64) (hle : p ≤ b1) :
    ∃ st', step thr b1 st p = some (st', false) ∧ Inv thr st' ∧ total st' = total st * pow ∧
      st'.pPrev = p % 2 ^ 32 := by
  have hstop : decide (p > b1) = false := by simp; omega
  obtain ⟨st1, e1, t1, x1, x2, _, x4, l1, l2, ev1, _⟩ :=
    flushSmall_spec thr b1 pow (decide (p > b1)) st hthr h hpow64
  obtain ⟨t2, x5, _, l3, l4, _, ev2⟩ := flushLg_spec thr (decide (p > b1)) st1 hthr1 l1 l2 ev1
  unfold step
  rw [hpow]
  simp only [e1]
  rw [hstop] at *
  simp only [Bool.false_eq_true, if_false]
  have hm : (flushLg thr false st1).expblock * pow < 2 ^ 64 := by rw [x5]; exact x4 rfl
  rw [if_pos hm]
  refine ⟨_, rfl, ⟨?_, hm, l3, l4, ev2⟩, ?_, rfl⟩
  · show 1 ≤ (flushLg thr false st1).expblock * pow
    rw [x5]
    have : 1 * 1 ≤ st1.expblock * pow := Nat.mul_le_mul x1 hpos
    simpa using this
  · simp only [total] at t1 t2 ⊢
    rw [x5] at t2 ⊢
    have : evProd (flushLg thr false st1).evs * (st1.expblock * pow * (flushLg thr false st1).lg) =
        evProd (flushLg thr false st1).evs * (st1.expblock * (flushLg thr false st1).lg) * pow := by
      ring
    rw [this, t2, t1]

/-- the first number `p > b1`: both pending blocks are flushed and the loop is left -/
theorem step_spec_stop (thr b1 : Nat) (st : St) (p pow : Nat) (hthr : thr + 64 ≤ 1024)
    (hthr1 : 1 ≤ thr) (h : Inv thr st) (hpow : powBelow 64 p p b1 = some pow)
    (hpow64 : pow < 2 ^ 64) (hgt : p > b1) :
    ∃ st', step thr b1 st p = some (st', true) ∧ Inv thr st' ∧ total st' = total st ∧
      st'.expblock = 1 ∧ st'.lg = 1 ∧ st'.pPrev = p % 2 ^ 32 := by
  have hstop : decide (p > b1) = true := by simp; omega
  obtain ⟨st1, e1, t1, x1, x2, x3, _, l1, l2, ev1, _⟩ :=
    flushSmall_spec thr b1 pow (decide (p > b1)) st hthr h hpow64
  obtain ⟨t2, x5, _, l3, l4, l5, ev2⟩ := flushLg_spec thr (decide (p > b1)) st1 hthr1 l1 l2 ev1
  unfold step
  rw [hpow]
  simp only [e1]
  rw [hstop] at *
  simp only [if_true]
  refine ⟨_, rfl, ⟨?_, ?_, l3, l4, ev2⟩, ?_, ?_, l5 rfl, rfl⟩
  · show 1 ≤ (flushLg thr true st1).expblock
    rw [x5]; exact x1
  · show (flushLg thr true st1).expblock < 2 ^ 64
    rw [x5]; exact x2
  · show total { flushLg thr true st1 with pPrev := p % 2 ^ 32 } = total st
    have : total { flushLg thr true st1 with pPrev := p % 2 ^ 32 } = total (flushLg thr true st1) :=
      rfl
    rw [this, t2, t1]
  · show (flushLg thr true st1).expblock = 1
    rw [x5]; exact x3 rfl

/-- what `powBelow` returns for a number `2 ≤ p < 2^32` (bound `b1 ≤ 2^32`): positive, below 2^64,
a multiple of `p` and of every `p^k < b1` -/
theorem powBelow_pm1 (b1 p : Nat) (hb : b1 ≤ 2 ^ 32) (hp : 2 ≤ p) (hp32 : p < 2 ^ 32) :
    ∃ pow, powBelow 64 p p b1 = some pow ∧ 1 ≤ pow ∧ pow < 2 ^ 64 ∧ p ∣ pow ∧
      ∀ k, p ^ k < b1 → p ^ k ∣ pow := by
  obtain ⟨j, hj, hj2, hj3⟩ := powBelow_start p b1 hp hp32 hb
  refine ⟨_, hj, Nat.one_le_pow _ _ (by omega), ?_, Dvd.intro_left (p ^ j) rfl,
    fun k hk => pow_dvd_of_lt hp hj2 hk⟩
  rcases hj3 with h | h
  · subst h
    simp only [Nat.zero_add, Nat.pow_one]
    omega
  · omega

/-- **Inner loop.** For a strictly increasing list of numbers `2 ≤ p < 2^32`: no panic; if the loop
was left at a number `> b1` both pending blocks are empty; otherwise every list element is `≤ b1`.
In both cases `p` and every `p^k < b1` divide the accumulated exponent for every element `p ≤ b1`. -/
theorem block_spec (thr b1 : Nat) (hthr : thr + 64 ≤ 1024) (hthr1 : 1 ≤ thr) (hb : b1 < 2 ^ 32) :
    ∀ ps st, Inv thr st → (∀ p ∈ ps, 2 ≤ p ∧ p < 2 ^ 32) → ps.Pairwise (· < ·) →
      st.pPrev ≤ b1 →
      ∃ st' fl, block thr b1 ps st = some (st', fl) ∧ Inv thr st' ∧ total st ∣ total st' ∧
        (∀ p ∈ ps, p ≤ b1 → p ∣ total st' ∧ ∀ k, p ^ k < b1 → p ^ k ∣ total st') ∧
        (fl = true → st'.expblock = 1 ∧ st'.lg = 1 ∧ st'.pPrev > b1 ∧ ∃ q ∈ ps, q > b1) ∧
        (fl = false → st'.pPrev ≤ b1 ∧ ∀ p ∈ ps, p ≤ b1) := by
  intro ps
  induction ps with
  | nil =>
    intro st h _ _ hpp
    exact ⟨st, false, rfl, h, dvd_refl _, by simp, by simp, fun _ => ⟨hpp, by simp⟩⟩
  | cons p ps ih =>
    intro st h hps hsort hpp
    rw [List.pairwise_cons] at hsort
    have hp2 := (hps p (by simp)).1
    have hp32 := (hps p (by simp)).2
    obtain ⟨pow, hpow, hpos, hpow64, hpdvd, hkdvd⟩ :=
      powBelow_pm1 b1 p (Nat.le_of_lt hb) hp2 hp32
    unfold block
    by_cases hle : p ≤ b1
    · obtain ⟨st1, hs1, hi1, ht1, hp1⟩ :=
        step_spec_go thr b1 st p pow hthr hthr1 h hpow hpos hpow64 hle
      rw [hs1]
      simp only
      have hpp1 : st1.pPrev ≤ b1 := by
        rw [hp1, Nat.mod_eq_of_lt hp32]; exact hle
      obtain ⟨st', fl, hs', hi', hd', hall, hT, hF⟩ :=
        ih st1 hi1 (fun q hq => hps q (by simp [hq])) hsort.2 hpp1
      have hd1 : total st ∣ total st1 := by rw [ht1]; exact Dvd.intro _ rfl
      have hpowd : pow ∣ total st1 := by rw [ht1]; exact Dvd.intro_left _ rfl
      refine ⟨st', fl, hs', hi', dvd_trans hd1 hd', ?_, ?_, ?_⟩
      · intro q hq hqb
        simp only [List.mem_cons] at hq
        rcases hq with rfl | hq
        · exact ⟨dvd_trans (dvd_trans hpdvd hpowd) hd',
            fun k hk => dvd_trans (dvd_trans (hkdvd k hk) hpowd) hd'⟩
        · exact hall q hq hqb
      · intro hfl
        obtain ⟨a, b, c, q, hq, hqb⟩ := hT hfl
        exact ⟨a, b, c, q, by simp [hq], hqb⟩
      · intro hfl
        obtain ⟨a, b⟩ := hF hfl
        refine ⟨a, ?_⟩
        intro q hq
        simp only [List.mem_cons] at hq
        rcases hq with rfl | hq
        · exact hle
        · exact b q hq
    · have hgt : p > b1 := Nat.lt_of_not_le hle
      obtain ⟨st1, hs1, hi1, ht1, he1, hl1, hp1⟩ :=
        step_spec_stop thr b1 st p pow hthr hthr1 h hpow hpow64 hgt
      rw [hs1]
      simp only
      refine ⟨st1, true, rfl, hi1, by rw [ht1], ?_, ?_, by simp⟩
      · intro q hq hqb
        simp only [List.mem_cons] at hq
        rcases hq with rfl | hq
        · omega
        · have := hsort.1 q hq; omega
      · intro _
        refine ⟨he1, hl1, ?_, p, by simp, hgt⟩
        rw [hp1, Nat.mod_eq_of_lt hp32]; exact hgt

end Ymq.Pm1
