/-
Mechanism models of the middle product and of the power-series routines of src/arith_poly.rs
(property C10): `_longmul` (NTT / Karatsuba switch), `_fft_longmul`, `_fft_midmul`,
`_middlemul` (Hanrot–Quercia–Zimmermann recursion with its two NTT shortcuts),
`_middlemul_xn`, `_middlemul_1x`, `_inv_mod_xn` and `_div_mod_xn` (Newton iteration with the code's
precision schedule `half_up = ⌈len/2⌉`, the `1 + xC` shortcut conditions after commit f80a81f, the
base cases of length 1, 2, 3), and the public wrappers `middlemul`, `div_mod_xn`.

Level of detail: value level. A routine returns the list of output coefficients it is documented
to produce (`|q|` for a middle product, `len` for a series); scratch buffers are represented by
their LENGTH only (every `assert!(tmp.len() >= …)`, slice range and index is a panic site = `none`),
because no routine reads scratch contents it has not written. The coefficient ring is abstract
(`Ops α`, Ymq/Model/PolyMul.lean). The multi-prime NTT convolution `convolve_modn_ntt` is NOT a
mechanism here: `_fft_longmul`/`_fft_midmul` return the exact (cyclic) convolution coefficients,
with the asserts of `convolve_modn_ntt` (`mzp.k ≥ log₂ size`, `size ≥ 2`) as panic sites — its
correctness is covered by the K/O streams (`pf_convolve_ntt`) and by `dft_conv`/`crt_*`.
`Ctx.mzp = some k` stands for `PolyRing { mzp: Some(MultiZmodP::new(zn, k)) }`.
No Mathlib import: this file is linked into the native driver.
-/
import Ymq.Model.PolyMul
import Ymq.Gen.Params

namespace Ymq.PolyMul

/-- `PolyRing`: the NTT context, if any, with its maximal transform size `2^k` -/
structure Ctx where
  mzp : Option Nat

/-- `PolyRing::new(zn, size)` -/
def Ctx.new (size : Nat) : Ctx :=
  if size ≥ Ymq.Gen.Params.FFT_THRESHOLD then
    ⟨some (Ymq.Checked.bitlen (size - 1) + 1)⟩       -- logsize = usize::BITS - leading_zeros(size - 1)
  else ⟨none⟩

variable {α : Type}

/-- `Σ_{a < m} f a · g a` accumulated left to right -/
def dot (o : Ops α) (f g : Nat → α) (m : Nat) : α :=
  (List.range m).foldl (fun acc a => o.add acc (o.mul (f a) (g a))) o.zero

/-- coefficient `k` of the plain product -/
def mulCoefO (o : Ops α) (p q : List α) (k : Nat) : α :=
  dot o (fun a => p.getD a o.zero) (fun a => q.getD (k - a) o.zero) (k + 1)

/-- coefficient `k` of the cyclic product of length `size` -/
def cycCoefO (o : Ops α) (size : Nat) (p q : List α) (k : Nat) : α :=
  dot o (fun a => p.getD a o.zero) (fun a => q.getD ((k + size - a) % size) o.zero) size

def isPow2 (x : Nat) : Bool := x ≠ 0 && x == 2 ^ x.log2

/-- `_fft_longmul(mzp, z, p, q)` with `|z| = zlen`: `convolve_modn_ntt(mzp, 2^logsize, p, q, z, 0)`,
`logsize = bitlen(deg p + deg q)` (no wrap-around: the plain product, zero beyond the size) -/
def fftLongmul (k : Nat) (o : Ops α) (zlen : Nat) (p q : List α) : Option (List α) :=
  if p.length = 0 ∨ q.length = 0 then none                  -- p.len() - 1
  else
    let logsize := Ymq.Checked.bitlen (p.length - 1 + (q.length - 1))
    if logsize = 0 then none                                -- ntt_inplace: assert!(k > 0)
    else if k < logsize then none                           -- assert!(mzp.k >= logsize)
    else
      some ((List.range zlen).map fun i => if i < 2 ^ logsize then mulCoefO o p q i else o.zero)

/-- `_fft_midmul(mzp, z, p, q)` with `|z| = zlen`: coefficients `|q|-1 …` of the cyclic product of
length `2|q|` -/
def fftMidmul (k : Nat) (o : Ops α) (zlen : Nat) (p q : List α) : Option (List α) :=
  if !isPow2 q.length then none                             -- assert!(qlen & (qlen - 1) == 0)
  else if p.length ≠ 2 * q.length - 1 then none
  else if k < q.length.log2 + 1 then none                   -- assert!(mzp.k >= logsize)
  else
    let size := 2 * q.length
    some ((List.range zlen).map fun t =>
      if q.length - 1 + t < size then cycCoefO o size p q (q.length - 1 + t) else o.zero)

/-- `Poly::mul_fft(p, q)`: `_fft_longmul(p.r.mzp.as_ref().unwrap(), pq, p, q)` with `|pq| = |p| + |q| - 1` -/
def mulFft (c : Ctx) (o : Ops α) (p q : List α) : Option (List α) :=
  match c.mzp with
  | none => none                                            -- unwrap()
  | some k =>
    if p.length + q.length = 0 then none                    -- p.c.len() + q.c.len() - 1
    else fftLongmul k o (p.length + q.length - 1) p q

/-- `_longmul(zr, z, p, q, tmp)` with `|z| = zlen`, `|tmp| = tmplen` (the Karatsuba path runs the
buffer-exact model on zero-filled buffers: inside its domain the result does not depend on them) -/
def longmul (c : Ctx) (o : Ops α) (zlen tmplen : Nat) (p q : List α) : Option (List α) :=
  match c.mzp with
  | some k =>
    if p.length ≥ Ymq.Gen.Params.FFT_THRESHOLD then fftLongmul k o zlen p q
    else (karatsuba o FUEL (List.replicate zlen o.zero) p q (List.replicate tmplen o.zero)).map (·.1)
  | none => (karatsuba o FUEL (List.replicate zlen o.zero) p q (List.replicate tmplen o.zero)).map (·.1)

/-- `z0 = p[0]·q[n]; for i in 1..=n { z0 += p[i]·q[n-i] }` -/
def edgeSum (o : Ops α) (p q : List α) (n : Nat) : α :=
  (List.range n).foldl (fun acc i => o.add acc (o.mul (p.getD (i + 1) o.zero) (q.getD (n - (i + 1)) o.zero)))
    (o.mul (p.getD 0 o.zero) (q.getD n o.zero))

/-- which path `_middlemul` takes for `|q| = n ≥ 3`: `(1, k)` NTT with `n` a power of two, `(2, k)`
NTT with `n - 1` a power of two, `(0, _)` the recursion (`USE_FFT && q.len() >= FFT_THRESHOLD &&
zr.mzp.is_some()` and the two shape tests) -/
def mmMode (c : Ctx) (n : Nat) : Nat × Nat :=
  match c.mzp with
  | some k =>
    if n ≥ Ymq.Gen.Params.FFT_THRESHOLD then
      if isPow2 n then (1, k) else if isPow2 (n - 1) then (2, k) else (0, 0)
    else (0, 0)
  | none => (0, 0)

/-- `_middlemul(zr, z, p, q, tmp)`: the `|q|` coefficients `|q|-1 … 2|q|-2` of `p·q`
(`|p| = 2|q| - 1`); `zlen = |z|`, `tmplen = |tmp|` -/
def middlemul (c : Ctx) (o : Ops α) : Nat → Nat → List α → List α → Nat → Option (List α)
  | 0, _, _, _, _ => none
  | f + 1, zlen, p, q, tmplen =>
    if q.length = 0 then none                               -- 2 * q.len() - 1
    else if p.length ≠ 2 * q.length - 1 then none           -- assert!
    else if zlen < q.length then none                       -- z[..] too short
    else if q.length = 1 then some [o.mul (p.getD 0 o.zero) (q.getD 0 o.zero)]
    else if q.length = 2 then
      some [o.add (o.mul (p.getD 1 o.zero) (q.getD 0 o.zero)) (o.mul (p.getD 0 o.zero) (q.getD 1 o.zero)),
            o.add (o.mul (p.getD 2 o.zero) (q.getD 0 o.zero)) (o.mul (p.getD 1 o.zero) (q.getD 1 o.zero))]
    else
      match mmMode c q.length with
      | (1, k) => (fftMidmul k o zlen p q).map (·.take q.length)          -- |q| a power of two
      | (2, k) =>                                                          -- |q| - 1 a power of two
        let n := q.length - 1
        match fftMidmul k o (zlen - 1) ((p.drop 1).take (2 * n - 1)) (q.drop 1) with
        | none => none
        | some m =>
          some (edgeSum o p q n ::
            (List.range n).map fun t =>
              o.add (m.getD t o.zero) (o.mul (p.getD (n + t + 1) o.zero) (q.getD 0 o.zero)))
      | _ =>
        if tmplen < 2 * p.length then none                  -- assert!(tmp.len() >= 2 * p.len())
        else
          let half := q.length / 2
          let half_up := q.length - half
          let tl := List.zipWith o.add (p.take (p.length - half_up)) (p.drop half_up) ++
            p.drop (p.length - half_up)
          let t2 := (q.drop half).take (half_up - half) ++
            List.zipWith o.sub ((q.drop half).drop (half_up - half)) (q.take half)
          match middlemul c o f half_up (tl.take (2 * half_up - 1)) (q.drop half) (tmplen - p.length),
                middlemul c o f half ((tl.drop half_up).take (p.length - 2 * half_up)) (q.take half)
                  (tmplen - p.length),
                middlemul c o f half_up ((p.drop half_up).take (2 * half_up - 1)) t2 (tmplen - p.length) with
          | some a, some cc, some b =>
            some (List.zipWith o.sub a b ++ List.zipWith o.add cc (b.take half))
          | _, _, _ => none

/-- a scratch length that suffices for `_middlemul` on `|q| = n` when no NTT shortcut applies:
`2·|p|` at every level of the recursion (the sub-calls receive `tmp[|p|..]`) -/
def mmNeed (n : Nat) : Nat :=
  if h : n ≤ 2 then 0
  else max (2 * (2 * n - 1)) (2 * n - 1 + max (mmNeed (n - n / 2)) (mmNeed (n / 2)))
termination_by n
decreasing_by all_goals omega

/-- `_middlemul_xn(zr, z, p, q, tmp)`: middle product of `p` by `x^n + q` -/
def middlemulXn (c : Ctx) (o : Ops α) (zlen : Nat) (p q : List α) (tmplen : Nat) : Option (List α) :=
  if p.length = 0 then none                                 -- &p[1..]
  else
    match middlemul c o FUEL zlen (p.drop 1) q tmplen with
    | none => none
    | some m =>
      if p.length < q.length then none                      -- p[i]
      else some (List.zipWith o.add m (p.take q.length))

/-- `_middlemul_1x(zr, z, p, q, tmp)`: middle product of `p` by `1 + x·q` -/
def middlemul1x (c : Ctx) (o : Ops α) (zlen : Nat) (p q : List α) (tmplen : Nat) : Option (List α) :=
  if p.length = 0 then none                                 -- p.len() - 1
  else
    match middlemul c o FUEL zlen (p.take (p.length - 1)) q tmplen with
    | none => none
    | some m =>
      if p.length < 2 * q.length then none                  -- p[i + degq]
      else some (List.zipWith o.add m ((p.drop q.length).take q.length))

/-- `(x - 1) & (x - 2) == 0` for `x ≥ 2` (the guards added by the fix make `x ≥ 2` explicit) -/
def pow2m1 (x : Nat) : Bool := isPow2 (x - 1)

/-- the step shared by `_inv_mod_xn` and `_div_mod_xn`: the coefficients `u …` of `l·S` (`|S| = u`,
`|l| = len`), either by the `1 + xC` shortcut (`S[0] == 1`, `u ≥ 2`, `len = 2u - 1`, `u - 1` a power
of two: `_middlemul_1x(l[1..], S[1..u])`, `u - 1` outputs) or by the general middle product of
`l[1..]` padded with `pad` zeros (`u` outputs) -/
def seriesMid (c : Ctx) (o : Ops α) (u len mullen pad : Nat) (l S : List α) : Option (List α) :=
  if o.eq (S.getD 0 o.zero) o.one ∧ u ≥ 2 ∧ len = 2 * u - 1 ∧ pow2m1 u then
    middlemul1x c o u (l.drop 1) ((S.drop 1).take (u - 1)) mullen
  else
    middlemul c o FUEL u ((l.drop 1 ++ List.replicate pad o.zero).take (2 * u - 1)) S mullen

/-- `_inv_mod_xn(zr, z, p, tmp)`: `1/p mod x^len`, `len = |p|`; `tmplen = |tmp|` -/
def invModXn (c : Ctx) (o : Ops α) : Nat → List α → Nat → Option (List α)
  | 0, _, _ => none
  | f + 1, p, tmplen =>
    match p with
    | [] => none                                            -- p[0]
    | p0 :: _ =>
      if o.eq p0 o.one ∧ p.length = 2 then some [o.one, o.sub o.zero (p.getD 1 o.zero)]
      else if o.eq p0 o.one ∧ p.length = 3 then
        some [o.one, o.sub o.zero (p.getD 1 o.zero),
              o.sub (o.mul (p.getD 1 o.zero) (p.getD 1 o.zero)) (p.getD 2 o.zero)]
      else if p.length = 1 then (o.inv p0).map fun i => [i]     -- zn.inv(p[0]).unwrap()
      else if tmplen < 4 * p.length then none               -- assert!(tmp.len() >= 4 * p.len())
      else
        let half := p.length / 2
        let half_up := p.length - half
        match invModXn c o f (p.take half_up) tmplen with
        | none => none
        | some zi =>
          let mullen := tmplen - half_up - p.length           -- |tmp_mul|
          -- tmp_p = p[1..] followed by one zero
          match seriesMid c o half_up p.length mullen 1 p zi with
          | none => none
          | some t =>
            match longmul c o (2 * half) mullen (t.take half) (zi.take half) with
            | none => none
            | some lm => some (zi ++ (lm.take half).map fun x => o.sub o.zero x)

/-- first half of the quotient in `_div_mod_xn`: `α·p mod x^u`, by the `(1 + α')(1 + β')` shortcut
(`p[0] == 1`, `α[0] == 1`, `u ≥ 2`, `u - 1` a power of two) or by a plain low product -/
def divZlo (c : Ctx) (o : Ops α) (u hilen : Nat) (p alpha : List α) : Option (List α) :=
  if o.eq (p.getD 0 o.zero) o.one ∧ o.eq (alpha.getD 0 o.zero) o.one ∧ u ≥ 2 ∧ pow2m1 u then
    match longmul c o (2 * u - 2) hilen ((alpha.drop 1).take (u - 1)) ((p.drop 1).take (u - 1)) with
    | none => none
    | some lm =>
      some (o.one :: o.add (alpha.getD 1 o.zero) (p.getD 1 o.zero) ::
        (List.range (u - 2)).map fun i =>
          o.add (lm.getD i o.zero) (o.add (alpha.getD (i + 2) o.zero) (p.getD (i + 2) o.zero)))
  else (longmul c o (2 * u) hilen alpha (p.take u)).map (·.take u)

/-- `_div_mod_xn(zr, z, p, q, tmp)`: `p/q mod x^len` -/
def divModXn (c : Ctx) (o : Ops α) (p q : List α) (tmplen : Nat) : Option (List α) :=
  if p.length ≠ q.length then none                          -- assert!(p.len() == q.len())
  else if tmplen < 5 * p.length then none                   -- assert!(tmp.len() >= 5 * p.len())
  else
    match p, q with
    | [], _ => none
    | _, [] => none
    | p0 :: _, q0 :: _ =>
      if p.length = 1 then (o.inv q0).map fun i => [o.mul p0 i]
      else
        let half := q.length / 2
        let half_up := q.length - half
        let hilen := tmplen - 4 * half_up                     -- |tmphi|
        match invModXn c o FUEL (q.take half_up) hilen with
        | none => none
        | some alpha =>
          match divZlo c o half_up hilen p alpha with
          | none => none
          | some zlo =>
            -- tmpmul = q[1..] followed by zeros up to 2·half_up entries
            match seriesMid c o half_up q.length hilen (2 * half_up - (q.length - 1)) q zlo with
            | none => none
            | some g =>
              let targ := (List.range half).map fun i => o.sub (p.getD (half_up + i) o.zero) (g.getD i o.zero)
              match longmul c o (2 * half) hilen (alpha.take half) targ with
              | none => none
              | some lm2 => some (zlo ++ lm2.take half)

/-- `Poly::div_mod_xn(p, q)`: scratch of `6·len` entries (after commit f80a81f) -/
def divModXnPub (c : Ctx) (o : Ops α) (p q : List α) : Option (List α) := divModXn c o p q (6 * p.length)

/-- `Poly::middlemul(p, q)`: `z` of `|q|`, scratch of `2·|p| + 16` entries -/
def middlemulPub (c : Ctx) (o : Ops α) (p q : List α) : Option (List α) :=
  if q.length = 0 then none
  else if p.length ≠ 2 * q.length - 1 then none
  else middlemul c o FUEL q.length p q (2 * p.length + 16)

end Ymq.PolyMul
