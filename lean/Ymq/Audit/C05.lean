import Ymq.Props.C05
#print axioms Ymq.C05.abort_never_wrong_product
#print axioms Ymq.C05.abort_consistent
#print axioms Ymq.C05.abort_stops
