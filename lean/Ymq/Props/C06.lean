/-
C06 — Primality decisions are exact on 64 bits and one-sided above.
Only property theorems live here (helper lemmas: Ymq/Lemmas/Miller*.lean).

Models: `Ymq.Mg64.isprime64` (word-exact, Montgomery form, panics and fuel = `none`) and
`Ymq.Pseudoprime.pseudoprime` (ZmodN operations taken as exact modular arithmetic — C07).
The small-prime table, the three base sets, the two shift thresholds and the presence of the
even guard are *generated* from the Rust source (Ymq/Gen/Primality.lean); the proofs below
consume them through `decide` facts, so that a changed constant breaks the build.
`SPRP n b` is the textbook strong-probable-prime predicate (Ymq/Lemmas/MillerSpec.lean).
-/
import Ymq.Lemmas.MillerTiers

namespace Ymq.C06
open Ymq.Mg64 Ymq.Pseudoprime Ymq.Gen.Primality

/-- `mg_2adic_inv`: for every odd `n` the loop stops within the 65 turns of fuel of the model
(termination: the number of correct low bits grows at every turn), nothing overflows or underflows,
and the result `v < 2^64` satisfies `n v ≡ -1 (mod 2^64)`. -/
theorem mg2adicInv_spec (n : Nat) (hodd : n % 2 = 1) :
    ∃ v, mg2adicInv n = some v ∧ v < 2 ^ 64 ∧ (n * v + 1) % 2 ^ 64 = 0 := by
  simpa [W_eq] using mg2adicInv_odd n hodd

example : mg2adicInv 7 = some 10540996613548315209 := by decide +kernel

/-- The Miller closure of `isprime64` decides the strong-probable-prime predicate: on odd
`3 ≤ p < 2^64` the Montgomery set-up succeeds and, for every base `b < p`, `miller` does not
panic and answers `true` iff `p` is a strong probable prime to base `b`. -/
theorem miller_iff_sprp (p : Nat) (h3 : 3 ≤ p) (hodd : p % 2 = 1) (hlt : p < 2 ^ 64) :
    ∃ c, mkCtx p = some c ∧ ∀ b, b < p → ∃ r, miller c b = some r ∧ (r = true ↔ SPRP p b) := by
  rw [← W_eq] at hlt
  obtain ⟨pinv, hok, hmk⟩ := mkCtx_spec p (by omega) hodd hlt
  obtain ⟨_, _, hpd, hd, hd64⟩ := tz_podd_spec p (by omega) hodd hlt
  refine ⟨_, hmk, fun b hb => ⟨_, miller_eq_millerBase hok _ _ b hd64 hb, ?_⟩⟩
  exact millerBase_iff_SPRP p _ _ b (by omega) hodd hd hpd
    (lt_trans hd64 (Nat.pow_lt_pow_right (by decide) (by decide)))

example : SPRP 2047 2 := ⟨1023, 1, by decide, by decide, Or.inl (by decide +kernel)⟩

/-- **The 64-bit test never rejects a prime.** -/
theorem isprime64_complete (p : Nat) (hp : Nat.Prime p) (hlt : p < 2 ^ 64) :
    isprime64 p = some true := by
  rw [← W_eq] at hlt
  rcases Nat.lt_or_ge p 199 with h | h
  · rw [isprime64_small p h, (smallTable_exact p h).2 hp]
  · have hodd : p % 2 = 1 := by
      rcases hp.eq_two_or_odd with h2 | h2
      · omega
      · exact h2
    obtain ⟨_, _, hpd, _, hd64⟩ := tz_podd_spec p (by omega) hodd hlt
    rw [isprime64_odd_eq p h hodd hlt,
      runTiersN_prime p _ _ hp hpd (lt_trans hd64 (Nat.pow_lt_pow_right (by decide) (by decide)))
        tiers (fun t ht b hb => ⟨(tiers_bases_small t ht b hb).1,
          lt_of_lt_of_le (tiers_bases_small t ht b hb).2 h⟩)]

example : Nat.Prime 18446744073709551557 → isprime64 18446744073709551557 = some true :=
  fun h => isprime64_complete _ h (by decide)
example : isprime64 18446744073709551557 = some true := by decide +kernel

/-- **Even inputs**: the answer is `p = 2`, and the code returns (no hang, no panic).
Needs the generated flag `rejectsEven = true`: on a tree without the even guard this theorem does
not build (there `mg_2adic_inv` never returns for even `p ≥ 200`). -/
theorem isprime64_even (p : Nat) (heven : p % 2 = 0) (_hlt : p < 2 ^ 64) :
    isprime64 p = some (decide (p = 2)) := by
  rcases Nat.lt_or_ge p 199 with h | h
  · rw [isprime64_small p h, smallTable_even p h heven]
  · have hg : rejectsEven = true := by decide
    unfold isprime64
    rw [if_neg (by rw [smallTable_last]; omega), if_pos (by simp [hg, heven])]
    have : p ≠ 2 := by omega
    simp [this]

example : isprime64 200 = some false ∧ isprime64 2 = some true := by decide +kernel

/-- **Totality**: `isprime64` returns normally (no panic in either profile, loops within their
fuel) on every 64-bit input. -/
theorem isprime64_total (p : Nat) (hlt : p < 2 ^ 64) : isprime64 p ≠ none := by
  rcases Nat.lt_or_ge p 199 with h | h
  · rw [isprime64_small p h]; simp
  · rcases Nat.mod_two_eq_zero_or_one p with h2 | h2
    · rw [isprime64_even p h2 hlt]; simp
    · rw [isprime64_odd_eq p h h2 (by rw [W_eq]; exact hlt)]; simp

/-- **Soundness of the 64-bit test** relative to the published minimal strong pseudoprimes
(Pomerance–Selfridge–Wagstaff 1980, Jaeschke 1993, Sorenson–Webster 2015), which enter as the
explicit named hypotheses `Hψ2`, `Hψ5`, `Hψ12` with the literature constants written out:
no odd composite below ψ₂ = 1373653 is a strong probable prime to bases 2, 3; none below
ψ₅ = 2152302898747 to bases 2..11; none below 2^64 (< ψ₁₂) to the twelve prime bases up to 37.
The proof uses the *generated* tiers: `tiers_cover_0/20/40` (`decide`) say that the bases active
from 0, 2^20, 2^40 on contain these sets, and 2^20 ≤ ψ₂, 2^40 ≤ ψ₅. -/
theorem isprime64_sound
    (Hψ2 : ∀ n, n % 2 = 1 → 1 < n → n < 1373653 → (∀ b ∈ [2, 3], SPRP n b) → Nat.Prime n)
    (Hψ5 : ∀ n, n % 2 = 1 → 1 < n → n < 2152302898747 →
      (∀ b ∈ [2, 3, 5, 7, 11], SPRP n b) → Nat.Prime n)
    (Hψ12 : ∀ n, n % 2 = 1 → 1 < n → n < 2 ^ 64 →
      (∀ b ∈ [2, 3, 5, 7, 11, 13, 17, 19, 23, 29, 31, 37], SPRP n b) → Nat.Prime n)
    (p : Nat) (hlt : p < 2 ^ 64) (h : isprime64 p = some true) : Nat.Prime p := by
  rcases Nat.lt_or_ge p 199 with h199 | h199
  · rw [isprime64_small p h199] at h
    exact (smallTable_exact p h199).1 (Option.some.inj h)
  · rcases Nat.mod_two_eq_zero_or_one p with h2 | hodd
    · exfalso
      rw [isprime64_even p h2 hlt] at h
      have : p ≠ 2 := by omega
      simp [this] at h
    · have hltW : p < W := by rw [W_eq]; exact hlt
      obtain ⟨_, _, hpd, hd, hd64⟩ := tz_podd_spec p (by omega) hodd hltW
      rw [isprime64_odd_eq p h199 hodd hltW] at h
      have hrun := Option.some.inj h
      have hd1024 := lt_trans hd64 (Nat.pow_lt_pow_right (by decide : 1 < 2) (by decide : 64 < 1024))
      have sprp : ∀ k, 2 ^ k ≤ p → ∀ b ∈ basesUpTo k tiers, SPRP p b := fun k hk b hb =>
        (millerBase_iff_SPRP p _ _ b (by omega) hodd hd hpd hd1024).1
          (runTiersN_true p _ _ k hk tiers hrun b hb)
      rcases Nat.lt_or_ge p (2 ^ 20) with c20 | c20
      · exact Hψ2 p hodd (by omega) (lt_of_lt_of_le c20 (by norm_num))
          (fun b hb => sprp 0 (by omega) b (tiers_cover_0 b hb))
      · rcases Nat.lt_or_ge p (2 ^ 40) with c40 | c40
        · exact Hψ5 p hodd (by omega) (lt_of_lt_of_le c40 (by norm_num))
            (fun b hb => sprp 20 c20 b (tiers_cover_20 b hb))
        · exact Hψ12 p hodd (by omega) hlt
            (fun b hb => sprp 40 c40 b (tiers_cover_40 b hb))

/-- **Exactness on 64 bits** (the statement of the property), under the same three literature
hypotheses: `isprime64 p` returns, and returns `true` exactly for the primes. -/
theorem isprime64_exact
    (Hψ2 : ∀ n, n % 2 = 1 → 1 < n → n < 1373653 → (∀ b ∈ [2, 3], SPRP n b) → Nat.Prime n)
    (Hψ5 : ∀ n, n % 2 = 1 → 1 < n → n < 2152302898747 →
      (∀ b ∈ [2, 3, 5, 7, 11], SPRP n b) → Nat.Prime n)
    (Hψ12 : ∀ n, n % 2 = 1 → 1 < n → n < 2 ^ 64 →
      (∀ b ∈ [2, 3, 5, 7, 11, 13, 17, 19, 23, 29, 31, 37], SPRP n b) → Nat.Prime n)
    (p : Nat) (hlt : p < 2 ^ 64) : ∃ r, isprime64 p = some r ∧ (r = true ↔ Nat.Prime p) := by
  cases hr : isprime64 p with
  | none => exact absurd hr (isprime64_total p hlt)
  | some r =>
    refine ⟨r, rfl, ?_, ?_⟩
    · intro hrt; subst hrt; exact isprime64_sound Hψ2 Hψ5 Hψ12 p hlt hr
    · intro hp
      have := isprime64_complete p hp hlt
      rw [hr] at this; exact Option.some.inj this

/-- The constants of `Hψ2` and `Hψ5` are sharp, and `SPRP` means what the literature means: ψ₂ is
composite and a strong probable prime to bases 2 and 3 (not 5); ψ₅ to bases 2, 3, 5, 7, 11 (not
13). Hence neither bound can be raised and the thresholds 2^20, 2^40 of the code cannot be moved
above ψ₂, ψ₅. -/
example : SPRP 1373653 2 ∧ SPRP 1373653 3 ∧ ¬ SPRP 1373653 5 ∧ ¬ Nat.Prime 1373653 := by
  refine ⟨?_, ?_, ?_, ?_⟩
  · exact (sprp_iff_millerBase _ _ (by decide) (by decide) (by decide)).2 (by decide +kernel)
  · exact (sprp_iff_millerBase _ _ (by decide) (by decide) (by decide)).2 (by decide +kernel)
  · rw [sprp_iff_millerBase _ _ (by decide) (by decide) (by decide)]; decide +kernel
  · intro h
    have := h.eq_one_or_self_of_dvd 829 ⟨1657, by decide⟩
    omega

example : (∀ b ∈ [2, 3, 5, 7, 11], SPRP 2152302898747 b) ∧ ¬ SPRP 2152302898747 13 ∧
    ¬ Nat.Prime 2152302898747 := by
  refine ⟨?_, ?_, ?_⟩
  · intro b hb
    rw [sprp_iff_millerBase _ _ (by decide) (by decide) (by decide)]
    revert b; decide +kernel
  · rw [sprp_iff_millerBase _ _ (by decide) (by decide) (by decide)]; decide +kernel
  · intro h
    have := h.eq_one_or_self_of_dvd 6763 ⟨10627 * 29947, by decide⟩
    omega

/-- the premise of soundness is satisfiable, and a composite that fools bases 2 and 3 alone
(ψ₂ itself, above 2^20) is rejected by the model thanks to the second tier -/
example : isprime64 1000003 = some true ∧ isprime64 1373653 = some false := by decide +kernel

/-! ### `pseudoprime` (multiprecision) -/

/-- **`pseudoprime` never rejects a prime**, at every size the function accepts (`ZmodN::new`
asserts at most 512 bits; see `pseudoprime_oversize`). -/
theorem pseudoprime_complete (p : Nat) (hp : Nat.Prime p) (hlt : p < 2 ^ 512) :
    pseudoprime p = some true := by
  unfold pseudoprime
  rcases hp.eq_two_or_odd with h2 | hodd
  · subst h2; rfl
  · rw [if_neg (by omega)]
    by_cases hW : p < W
    · rw [if_pos hW]; exact isprime64_complete p hp (by rw [← W_eq]; exact hW)
    · rw [if_neg hW, if_neg (by omega)]
      simp only [Option.some.injEq, List.all_eq_true]
      intro b hb
      obtain ⟨b0, bW⟩ := smallPrimes_small b hb
      refine millerBase_prime p _ _ b hp (pp_split p hodd)
        (fun hdv => by have := Nat.le_of_dvd b0 hdv; omega) ?_
      calc p / 2 ^ tz64 (p % W - 1) ≤ p := Nat.div_le_self _ _
        _ < 2 ^ 512 := hlt
        _ < 2 ^ 1024 := Nat.pow_lt_pow_right (by decide) (by decide)

/-- a 68-bit prime whose low word is 1 (`p = 12·2^64 + 1`: the `s = 64`, even `p >> s` corner)
is accepted by the model -/
example : pseudoprime 221360928884514619393 = some true := by decide +kernel

/-- **Even inputs** of any size: the answer is `p = 2`. -/
theorem pseudoprime_even (p : Nat) (heven : p % 2 = 0) : pseudoprime p = some (decide (p = 2)) := by
  unfold pseudoprime; rw [if_pos heven]

example : pseudoprime (2 ^ 700) = some false ∧ pseudoprime 2 = some true := by
  constructor
  · rw [pseudoprime_even _ (by decide +kernel)]; decide +kernel
  · decide +kernel

/-- **Agreement with the 64-bit test** on every input that fits in 64 bits (including the even
ones, which `pseudoprime` answers itself). -/
theorem pseudoprime_eq_isprime64 (p : Nat) (hlt : p < 2 ^ 64) : pseudoprime p = isprime64 p := by
  rcases Nat.mod_two_eq_zero_or_one p with h2 | h2
  · rw [pseudoprime_even p h2, isprime64_even p h2 hlt]
  · unfold pseudoprime
    rw [if_neg (by omega), if_pos (by rw [W_eq]; exact hlt)]

example : pseudoprime 1373653 = some false := by
  rw [pseudoprime_eq_isprime64 _ (by norm_num)]; decide +kernel

/-- `pseudoprime` returns normally on every input below 2^512. -/
theorem pseudoprime_total (p : Nat) (hlt : p < 2 ^ 512) : pseudoprime p ≠ none := by
  rcases Nat.mod_two_eq_zero_or_one p with h2 | h2
  · rw [pseudoprime_even p h2]; simp
  · by_cases hW : p < 2 ^ 64
    · rw [pseudoprime_eq_isprime64 p hW]; exact isprime64_total p hW
    · unfold pseudoprime
      rw [if_neg (by omega), if_neg (by rw [W_eq]; exact hW), if_neg (by omega)]
      simp

/-- Odd inputs of more than 512 bits are *refused by a panic* (`assert!` in `ZmodN::new`), in
both build profiles: the model returns `none`. (This is finding F12 of DESIGN.md §4, judged under
C03; it bounds `pseudoprime_complete`.) -/
theorem pseudoprime_oversize (p : Nat) (hodd : p % 2 = 1) (hge : 2 ^ 512 ≤ p) :
    pseudoprime p = none := by
  unfold pseudoprime
  have : ¬ p < W := by
    rw [W_eq]
    have : (2 : Nat) ^ 64 < 2 ^ 512 := Nat.pow_lt_pow_right (by decide) (by decide)
    omega
  rw [if_neg (by omega), if_neg this, if_pos hge]

end Ymq.C06
