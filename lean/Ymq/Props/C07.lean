/-
C07 — Montgomery modular arithmetic equals ordinary arithmetic modulo n.
Only property theorems live here (helper lemmas: Ymq/Lemmas).

Reading guide. `ZmodN.Valid c` (Ymq/Lemmas/ZmodN.lean) says that the context `c` is what
`ZmodN::new` builds: `1 ≤ k ≤ 8`, `n` odd, `n < W^k` (`W = 2^64`, so `R = W^k = 2^(64k)`),
`n·ninv ≡ -1 (mod 2^64)`, `r`, `r2` = the 8-word forms of `R mod n`, `R² mod n`; `new_spec` proves
that `new n` returns such a context for every odd `n < 2^512`. An `MInt` is a list `m` with
`m.length = 8` and `Wf m` (all entries `< 2^64`); `val m` is its integer value. `f … = some r`
means "the Rust routine returns `r` without reaching any panic site (debug assertion, overflow
check, index check) in either build profile".
All theorems are about the word-level model (Ymq/Model/{Mg64,Limbs,ZmodN,M128}.lean).
-/
import Ymq.Lemmas.Mg64
import Ymq.Lemmas.MillerTz
import Ymq.Lemmas.ZmodNNew
import Ymq.Lemmas.M128
import Ymq.Model.Mg64Inv
import Ymq.Lemmas.ArithGcd

namespace Ymq.C07

section Word64
open Ymq.Mg64

/-- `mg_redc`: on its documented domain (`x < n·2^64`, `n·ninv ≡ -1 mod 2^64`) the routine does
not panic (no underflow/overflow/debug assertion in either profile), returns a fully reduced
residue `r < n`, and `r·2^64 ≡ x (mod n)`. -/
theorem mgRedc_spec (n ninv x : Nat) (hn : 0 < n) (hnW : n < W) (hninv : (n * ninv + 1) % W = 0)
    (hx : x < n * W) :
    ∃ r, mgRedc n ninv x = some r ∧ r < n ∧ r * W % n = x % n := by
  unfold mgRedc
  have hW0 : 0 < W := by decide
  have hxhin : x / W < n := by
    rw [Nat.div_lt_iff_lt_mul hW0]; exact hx
  have hxhi : x / W % W = x / W := Nat.mod_eq_of_lt (lt_trans hxhin hnW)
  simp only [hxhi]
  by_cases hlo : x % W = 0
  · simp only [hlo, if_true]
    refine ⟨x / W, rfl, hxhin, ?_⟩
    have : x = x / W * W := by
      have := Nat.div_add_mod x W; rw [hlo] at this; rw [Nat.mul_comm]; omega
    rw [← this]
  · simp only [hlo, if_false]
    have hk := redc_low_word_cancels n ninv (x % W) hW0 hninv hlo (Nat.mod_lt _ hW0)
    generalize hmul : x % W * ninv % W = mul at hk
    have hmulW : mul < W := by rw [← hmul]; exact Nat.mod_lt _ hW0
    have hm : mul * n < W * n := Nat.mul_lt_mul_of_pos_right hmulW hn
    have hmhi : mul * n / W < n := by
      rw [Nat.div_lt_iff_lt_mul hW0, Nat.mul_comm n W]; exact hm
    have hmhi' : mul * n / W % W = mul * n / W := Nat.mod_eq_of_lt (lt_trans hmhi hnW)
    have hdbg : (x % W + mul * n % W) % W = 0 := by rw [hk]; exact Nat.mod_self W
    simp only [hmhi', hdbg, ne_eq, not_true_eq_false, if_false]
    have h1 : ¬ n < mul * n / W + 1 := by omega
    simp only [h1, if_false]
    -- t * W = x + m
    have hsum : (x / W + mul * n / W + 1) * W = x + mul * n := by
      have e1 := Nat.div_add_mod x W
      have e2 := Nat.div_add_mod (mul * n) W
      nlinarith
    have hmod : ∀ t, t * W = x + mul * n → t * W % n = x % n := by
      intro t ht; rw [ht, Nat.add_mul_mod_self_right]
    have hlt2 : x / W + mul * n / W + 1 < 2 * n := by
      have : (x / W + mul * n / W + 1) * W < 2 * n * W := by rw [hsum]; nlinarith
      exact Nat.lt_of_mul_lt_mul_right this
    by_cases hge : x / W ≥ n - mul * n / W - 1
    · simp only [hge, if_true]
      refine ⟨_, rfl, by omega, ?_⟩
      have : (x / W - (n - mul * n / W - 1)) * W + n * W = x + mul * n := by
        have : x / W - (n - mul * n / W - 1) + n = x / W + mul * n / W + 1 := by omega
        rw [← hsum, ← this]; ring
      have h2 : (x / W - (n - mul * n / W - 1)) * W % n = ((x / W - (n - mul * n / W - 1)) * W + n * W) % n := by
        rw [Nat.add_mul_mod_self_left]
      rw [h2, this, Nat.add_mul_mod_self_right]
    · simp only [hge, if_false]
      have h3 : ¬ (x / W + mul * n / W + 1 ≥ W) := by omega
      simp only [h3, if_false]
      exact ⟨_, rfl, by omega, hmod _ hsum⟩

/-- `mg_mul`: Montgomery product of two reduced residues. -/
theorem mgMul_spec (n ninv x y : Nat) (hn : 0 < n) (hnW : n < W) (hninv : (n * ninv + 1) % W = 0)
    (hx : x < n) (hy : y < W) :
    ∃ r, mgMul n ninv x y = some r ∧ r < n ∧ r * W % n = x * y % n := by
  unfold mgMul
  exact mgRedc_spec n ninv (x * y) hn hnW hninv (Nat.mul_lt_mul_of_lt_of_lt hx hy)

/-- `mg_2adic_inv`: for every odd `n` (a `u64`; the statement does not even need `n < 2^64`) the
loop terminates within the fuel (at most 64 turns), nothing overflows, and the result `v < 2^64`
satisfies `n·v ≡ -1 (mod 2^64)`. (Loop analysis: Ymq/Lemmas/MillerTz.lean, shared with C06.) -/
theorem mg2adicInv_spec (n : Nat) (hodd : n % 2 = 1) :
    ∃ v, mg2adicInv n = some v ∧ v < W ∧ (n * v + 1) % W = 0 :=
  mg2adicInv_odd n hodd

/-- non-vacuity: the hypotheses are met by n = 7, ninv = 10540996613548315209. -/
example : (7 * 10540996613548315209 + 1) % W = 0 ∧ mgMul 7 10540996613548315209 3 5 = some 4 ∧
    4 * W % 7 = 3 * 5 % 7 := by decide

/-- `mg_inv(n, ninv, r2, x)` (64-bit inversion in Montgomery form: input `x = a·R`, output `R/a`), for
every odd `n < 2^64`, valid `ninv`, any words `r2`, `x`: no panic site of `mg_redc`, `inv_mod64`
(C08 model and theorem `invMod64_spec`, i128 extended Euclid after the repair dd3553b) or `mg_mul` is
reached; the call returns `None` exactly when `gcd(x, n) ≠ 1`, and otherwise `r < n` with
`r·x ≡ r2 (mod n)` — with the intended `r2 = R² mod n` this is `r·x ≡ R²`, i.e. `r = (x/R)⁻¹·R`. -/
theorem mgInv_spec (n ninv r2 x : Nat) (hodd : n % 2 = 1) (hnW : n < W)
    (hninv : (n * ninv + 1) % W = 0) (hr2 : r2 < W) (hx : x < W) :
    (Nat.gcd x n = 1 → ∃ r, mgInv n ninv r2 x = some (some r) ∧ r < n ∧ r * x % n = r2 % n) ∧
    (Nat.gcd x n ≠ 1 → mgInv n ninv r2 x = some none) := by
  have hn : 0 < n := by omega
  have hW64 : W = 2 ^ 64 := W_eq
  have hcop : Nat.Coprime W n := by
    have h2 : Nat.Coprime n 2 := Ymq.ZmodN.coprime_two_of_odd n hodd
    rw [hW64]; exact (Nat.Coprime.pow_right 64 h2).symm
  obtain ⟨mm, e1, e2, e3⟩ := mgRedc_spec n ninv x hn hnW hninv
    (lt_of_lt_of_le hx (Nat.le_mul_of_pos_left W hn))
  -- gcd(mm, n) = gcd(x, n)
  have hg : Nat.gcd mm n = Nat.gcd x n := by
    have h1 : Nat.gcd (mm * W) n = Nat.gcd mm n := Nat.Coprime.gcd_mul_right_cancel mm hcop
    have h2 : Nat.gcd (mm * W % n) n = Nat.gcd (mm * W) n := by
      rw [← Nat.gcd_rec, Nat.gcd_comm]
    have h3 : Nat.gcd (x % n) n = Nat.gcd x n := by
      rw [← Nat.gcd_rec, Nat.gcd_comm]
    rw [← h1, ← h2, e3, h3]
  obtain ⟨i1, i2⟩ := Ymq.Arith.invMod64_spec mm n (by rw [← hW64]; exact lt_trans e2 hnW)
    (by rw [← hW64]; exact hnW) hn
  unfold mgInv
  rw [e1]
  constructor
  · intro hgx
    obtain ⟨mi, f1, f2, f3⟩ := i1 (by rw [hg]; exact hgx)
    obtain ⟨r, g1, g2, g3⟩ := mgMul_spec n ninv mi r2 hn hnW hninv f2 hr2
    simp only [f1, g1]
    refine ⟨r, rfl, g2, ?_⟩
    -- r·W ≡ mi·r2, mm·W ≡ x, mm·mi ≡ 1  ⟹  r·x·W ≡ r2·W
    have hA : r * W ≡ mi * r2 [MOD n] := g3
    have hB : mm * W ≡ x [MOD n] := e3
    have hC : mm * mi ≡ 1 [MOD n] := f3
    have h1 : r * x * W ≡ r2 * W [MOD n] := by
      calc r * x * W = (r * W) * x := by ring
        _ ≡ (mi * r2) * x [MOD n] := hA.mul_right x
        _ ≡ (mi * r2) * (mm * W) [MOD n] := (hB.symm).mul_left _
        _ = (mm * mi) * (r2 * W) := by ring
        _ ≡ 1 * (r2 * W) [MOD n] := hC.mul_right _
        _ = r2 * W := by ring
    exact Nat.ModEq.cancel_right_of_coprime hcop.symm h1
  · intro hgx
    simp only [i2 (by rw [hg]; exact hgx)]


/-- non-vacuity / concrete values: n = 2^64 - 59 (above 2^63), r2 = R² mod n; a non-unit for n = 15. -/
example :
    mgInv 18446744073709551557 14694863923124558067 3481 12345 = some (some 7810541212902375536) ∧
    7810541212902375536 * 12345 % 18446744073709551557 = 3481 ∧
    mgInv 15 1229782938247303441 1 6 = some none := by decide +kernel

end Word64

/-! ## The multiword ring `ZmodN` -/

open Ymq.Limbs Ymq.ZmodN

/-- `ZmodN::new(n)`: for every odd `n < 2^512` the constructor does not panic (the 2-adic inverse
loop terminates) and returns a well-formed context with `k = words(n)`. -/
theorem new_spec (n : Nat) (hodd : n % 2 = 1) (hlt : n < 2 ^ 512) :
    ∃ c, ZmodN.new n = some c ∧ Valid c ∧ c.n = n ∧ c.k = nwords n :=
  new_valid' n hodd hlt

/-- `ZmodN::mul` (`_mint_mulmod` + final conditional subtraction), every modulus the constructor
admits (up to 512 bits): for `x, y < n` no panic site is reached, the result is fully reduced and
`r·R ≡ x·y (mod n)`. -/
theorem mulmod_spec (c : Ctx) (hc : Valid c) (x y : List Nat) (hx : Wf x) (hlx : x.length = 8)
    (hly : y.length = 8) (hvx : val x < c.n) (hvy : val y < c.n) :
    ∃ r, ZmodN.mul c x y = some r ∧ val r < c.n ∧ val r * W ^ c.k % c.n = val x * val y % c.n ∧
      r.length = 8 ∧ Wf r :=
  mul_spec' hc x y hx hlx hly hvx hvy

/-- `_mint_mulmod` alone: for `y < n` and ANY 8 words `x` it returns (no `debug_assert!(z[i] == 0)`
failure, no out-of-bounds `res[8]` write) a value below `2n` congruent to `x[..k]·y·R⁻¹`. -/
theorem mintMulmod_spec (c : Ctx) (hc : Valid c) (x y : List Nat) (hx : Wf x) (hlx : x.length = 8)
    (hly : y.length = 8) (hvy : val y < c.n) :
    ∃ m, mintMulmod c x y = some m ∧ m.length = 8 ∧ Wf m ∧ val m < 2 * c.n ∧
      val m * W ^ c.k % c.n = val (x.take c.k) * val y % c.n :=
  ZmodN.mintMulmod_spec hc x y hx hlx hly hvy

/-- Answer to the `FIXME: can it happen?` in `_mint_mulmod`: no. Whenever the row loop ends with
`overflow = true`, adding `2^(64k) - n` to the `k` result words produces carry 0, so the
`res[SIZE] = 1` write (out of bounds for `SIZE = 8`) is unreachable for `y < n`. -/
theorem mulmod_overflow_carry_zero (c : Ctx) (hc : Valid c) (x y : List Nat) (hx : Wf x)
    (hlx : x.length = 8) (hly : y.length = 8) (hvy : val y < c.n) (res : List Nat)
    (hres : mulRows c.k c.ninv (c.nd.take c.k) (y.take c.k) (x.take c.k) (zeros (c.k + 1)) =
      some (res, true)) :
    (addc res (compl (c.nd.take c.k)) 1).2 = 0 :=
  overflow_carry_zero hc x y hx hlx hly hvy res hres

/-- `ZmodN::add` for moduli below 2^511 (`2n ≤ 2^512`; covers the documented 500-bit range):
no panic, result reduced and `≡ x + y`. See `add_512bit_counterexample` for 512-bit moduli. -/
theorem add_spec (c : Ctx) (hc : Valid c) (h2n : 2 * c.n ≤ W ^ 8) (x y : List Nat) (hx : Wf x) (hy : Wf y)
    (hlx : x.length = 8) (hly : y.length = 8) (hvx : val x < c.n) (hvy : val y < c.n) :
    ∃ r, ZmodN.add c x y = some r ∧ val r < c.n ∧ val r % c.n = (val x + val y) % c.n ∧
      r.length = 8 ∧ Wf r :=
  add_spec' hc x y hx hy hlx hly hvx hvy (by right; omega)

/-- `ZmodN::sub` for moduli below 2^511: no panic, result reduced and `r + y ≡ x`. -/
theorem sub_spec (c : Ctx) (hc : Valid c) (h2n : 2 * c.n ≤ W ^ 8) (x y : List Nat) (hx : Wf x) (hy : Wf y)
    (hlx : x.length = 8) (hly : y.length = 8) (hvx : val x < c.n) (hvy : val y < c.n) :
    ∃ r, ZmodN.sub c x y = some r ∧ val r < c.n ∧ (val r + val y) % c.n = val x % c.n ∧
      r.length = 8 ∧ Wf r :=
  sub_spec' hc x y hx hy hlx hly hvx hvy (by right; right; omega)

/-- Exact domain of `add`: it also works for 449..512-bit moduli as long as `x + y < 2^512`. -/
theorem add_spec_partial (c : Ctx) (hc : Valid c) (x y : List Nat) (hx : Wf x) (hy : Wf y)
    (hlx : x.length = 8) (hly : y.length = 8) (hvx : val x < c.n) (hvy : val y < c.n)
    (hfit : c.k < 8 ∨ val x + val y < W ^ 8) :
    ∃ r, ZmodN.add c x y = some r ∧ val r < c.n ∧ val r % c.n = (val x + val y) % c.n ∧
      r.length = 8 ∧ Wf r :=
  add_spec' hc x y hx hy hlx hly hvx hvy hfit

/-- Exact domain of `sub`: fine for 8-word moduli unless `x < y` and `x + n ≥ 2^512`. -/
theorem sub_spec_partial (c : Ctx) (hc : Valid c) (x y : List Nat) (hx : Wf x) (hy : Wf y)
    (hlx : x.length = 8) (hly : y.length = 8) (hvx : val x < c.n) (hvy : val y < c.n)
    (hfit : c.k < 8 ∨ val y ≤ val x ∨ val x + c.n < W ^ 8) :
    ∃ r, ZmodN.sub c x y = some r ∧ val r < c.n ∧ (val r + val y) % c.n = val x % c.n ∧
      r.length = 8 ∧ Wf r :=
  sub_spec' hc x y hx hy hlx hly hvx hvy hfit

set_option exponentiation.threshold 600 in
/-- Counter-witness outside the documented 500-bit range: for the 512-bit modulus `n = 2^512 - 1`
and `x = y = n - 1` the sum needs 513 bits, `mint_add` drops the carry
(`debug_assert!(carry == 0)`: panic in the checked profile, i.e. `none` in the model; the release
build returns `x + y - 2^512`, which is not `x + y mod n`). `sub` has the same shape of failure
(`x < y`, `x + n ≥ 2^512`) in the checked profile only. -/
theorem add_512bit_counterexample :
    (ZmodN.new (2 ^ 512 - 1)).bind
      (fun c => ZmodN.add c (ofNat 8 (2 ^ 512 - 2)) (ofNat 8 (2 ^ 512 - 2))) = none ∧
    (ZmodN.new (2 ^ 512 - 1)).bind
      (fun c => ZmodN.sub c (ofNat 8 1) (ofNat 8 2)) = none := by
  decide +kernel

/-- `ZmodN::redc` (after the carry fix, commit dcd4c9f) for moduli below 2^511: every 16-word
`x < n·R` is reduced without panic (the carry ripple never leaves the array) to `r < n` with
`r·R ≡ x (mod n)`. -/
theorem redc_spec (c : Ctx) (hc : Valid c) (h2n : 2 * c.n ≤ W ^ 8) (x : List Nat) (hx : Wf x)
    (hlx : x.length = 16) (hvx : val x < c.n * W ^ c.k) :
    ∃ r, ZmodN.redc c x = some r ∧ val r < c.n ∧ val r * W ^ c.k % c.n = val x % c.n ∧
      r.length = 8 ∧ Wf r :=
  redc_spec' hc x hx hlx hvx (redc_fit_of_small hc _ hvx h2n)

/-- Exact condition used by the proof, valid for every admitted modulus: `x + R·n ≤ 2^1024`. -/
theorem redc_spec_partial (c : Ctx) (hc : Valid c) (x : List Nat) (hx : Wf x)
    (hlx : x.length = 16) (hvx : val x < c.n * W ^ c.k) (hfit : val x + W ^ c.k * c.n ≤ W ^ 16) :
    ∃ r, ZmodN.redc c x = some r ∧ val r < c.n ∧ val r * W ^ c.k % c.n = val x % c.n ∧
      r.length = 8 ∧ Wf r :=
  redc_spec' hc x hx hlx hvx hfit

/-- `ZmodN::from_int`: `x < n` is mapped to the reduced representative of `x·R`. -/
theorem from_int_spec (c : Ctx) (hc : Valid c) (x : Nat) (hx : x < c.n) :
    ∃ m, ZmodN.fromInt c x = some m ∧ val m = x * W ^ c.k % c.n ∧ m.length = 8 ∧ Wf m := by
  obtain ⟨m, e1, _, e3, e4, e5⟩ := fromInt_spec hc x hx
  exact ⟨m, e1, e3, e4, e5⟩

/-- `ZmodN::to_int`, every admitted modulus: `r < n`, `r·R ≡ m`. -/
theorem to_int_spec (c : Ctx) (hc : Valid c) (m : List Nat) (hm : Wf m) (hlm : m.length = 8)
    (hvm : val m < c.n) :
    ∃ r, ZmodN.toInt c m = some r ∧ r < c.n ∧ r * W ^ c.k % c.n = val m % c.n :=
  toInt_spec hc m hm hlm hvm

/-- Conversion into the internal representation and back is the identity, for every admitted
modulus (up to 512 bits) and every `x < n`. -/
theorem from_to_int (c : Ctx) (hc : Valid c) (x : Nat) (hx : x < c.n) :
    ∃ m, ZmodN.fromInt c x = some m ∧ ZmodN.toInt c m = some x :=
  from_to_int' hc x hx

/-- `ZmodN::redc_large` for moduli below 2^511: a slice of `k ≤ len ≤ k+16`, `len < 24` words
with value `< n·R²` is reduced to `r < n`, `r·R ≡ x (mod n)`. -/
theorem redc_large_spec (c : Ctx) (hc : Valid c) (h2n : 2 * c.n ≤ W ^ 8) (x : List Nat) (hx : Wf x)
    (hl1 : c.k ≤ x.length) (hl2 : x.length ≤ c.k + 16) (hl3 : x.length < 24)
    (hvx : val x < c.n * W ^ c.k * W ^ c.k) :
    ∃ r, ZmodN.redcLarge c x = some r ∧ val r < c.n ∧ val r * W ^ c.k % c.n = val x % c.n ∧
      r.length = 8 ∧ Wf r :=
  redcLarge_spec' hc h2n x hx hl1 hl2 hl3 hvx

/-- `ZmodN::inv`, relative to the specification of `arith_gcd::inv_mod` (property C09), given as
the named hypothesis `inv_mod_spec`: the call returns `None` only if `gcd(x, n) ≠ 1`, and
otherwise the Montgomery form of the inverse: `r·x ≡ R² (mod n)` (i.e. `r = (x/R)⁻¹·R`).
Inversion therefore fails exactly when the operand shares a factor with `n`
(`r·x ≡ R²` with `gcd(R, n) = 1` forces `gcd(x, n) = 1`). -/
theorem inv_spec (c : Ctx) (hc : Valid c) (invmod : Nat → Nat → Option Nat) (x : List Nat)
    (inv_mod_spec : ∀ a, match invmod a c.n with
      | some i => i < c.n ∧ i * a % c.n = 1 % c.n
      | none => Nat.gcd a c.n ≠ 1) :
    (Nat.gcd (val x) c.n ≠ 1 ∧ ZmodN.inv invmod c x = some none) ∨
    (∃ r, ZmodN.inv invmod c x = some (some r) ∧ val r < c.n ∧
      val r * val x % c.n = W ^ c.k * W ^ c.k % c.n ∧ r.length = 8 ∧ Wf r) :=
  inv_spec' hc invmod x inv_mod_spec

/-- `ZmodN::gcd` is `gcd(n, x)` by definition of the model (`arith_gcd::big_gcd` is C09). -/
theorem gcd_spec (c : Ctx) (x : List Nat) : ZmodN.gcd c x = Nat.gcd c.n (val x) := rfl

/-! ### non-vacuity: a concrete 3-word modulus `n = 2^192 - 237` satisfies every hypothesis -/

set_option exponentiation.threshold 600 in
example : ∃ c, ZmodN.new (2 ^ 192 - 237) = some c ∧ Valid c ∧ 2 * c.n ≤ W ^ 8 := by
  obtain ⟨c, h1, h2, h3, _⟩ := new_spec (2 ^ 192 - 237) (by decide) (by decide)
  refine ⟨c, h1, h2, ?_⟩
  rw [h3]; decide

example :
    let n := 2 ^ 192 - 237
    (ZmodN.new n).bind (fun c => ZmodN.mul c (ofNat 8 3) (ofNat 8 5)) =
      some (ofNat 8 3098822375697222149235389715254417597822681801697434759414) ∧
    3098822375697222149235389715254417597822681801697434759414 * W ^ 3 % n = 3 * 5 % n ∧
    (ZmodN.new n).bind (fun c => ZmodN.add c (ofNat 8 3) (ofNat 8 5)) = some (ofNat 8 8) ∧
    (ZmodN.new n).bind (fun c => ZmodN.sub c (ofNat 8 3) (ofNat 8 5)) = some (ofNat 8 (n - 2)) ∧
    (ZmodN.new n).bind (fun c => ZmodN.redc c (ofNat 16 12345678901234567890123456789)) =
      some (ofNat 8 5641445863448789040915709481617068743918577823792107487988) ∧
    (ZmodN.new n).bind (fun c => ZmodN.fromInt c 42) = some (ofNat 8 9954) ∧
    (ZmodN.new n).bind (fun c => ZmodN.toInt c (ofNat 8 9954)) = some 42 ∧
    (ZmodN.new n).bind (fun c => ZmodN.redcLarge c [1, 2, 3, 4, 5]) =
      some (ofNat 8 5005789991510897317999936911759543325129247206926122638380) ∧
    (ZmodN.new n).bind (fun c => ZmodN.inv invModRef c (ofNat 8 3)) = some (some (ofNat 8 18723)) := by
  decide +kernel

/-- the `overflow = true` path of `_mint_mulmod` is really taken (so `mulmod_overflow_carry_zero`
is not vacuous): `n = 2^64 - 1`, `x = y = n - 1`. -/
example :
    mulRows 1 1 [2 ^ 64 - 1] [2 ^ 64 - 2] [2 ^ 64 - 2] (zeros 2) = some ([0], true) := by
  decide +kernel

/-! ## The 128-bit type `M128` (src/ecm128.rs) -/

/-- `M128::mul`: Montgomery product with multiplier `R = 2^64` when `n < 2^64` (the code then
calls `mg_mul` on the low words) and `R = 2^128` otherwise; `ninv` must satisfy
`n·ninv ≡ -1 (mod R)`. No overflow in `mul256`, no underflow in the final correction. -/
theorem M128_mul_spec (n ninv x y : Nat) (hn : 0 < n) (hn2 : n < M128.W2)
    (hninv : if n < Mg64.W then (n * ninv + 1) % Mg64.W = 0 else (n * ninv + 1) % M128.W2 = 0)
    (hx : x < n) (hy : y < n) :
    ∃ r, M128.mul n ninv x y = some r ∧ r < n ∧
      r * (if n < Mg64.W then Mg64.W else M128.W2) % n = x * y % n := by
  by_cases hs : n < Mg64.W
  · simp only [hs, if_true] at hninv ⊢
    have hd : n / Mg64.W = 0 := Nat.div_eq_of_lt hs
    have h1 : (n * (ninv % Mg64.W) + 1) % Mg64.W = 0 := by
      rw [Nat.add_mod, Nat.mul_mod, Nat.mod_mod, ← Nat.mul_mod, ← Nat.add_mod]; exact hninv
    unfold M128.mul
    simp only [hd, if_true, Nat.mod_eq_of_lt hs, Nat.mod_eq_of_lt (lt_trans hx hs),
      Nat.mod_eq_of_lt (lt_trans hy hs)]
    exact mgMul_spec n (ninv % Mg64.W) x y hn hs h1 hx (lt_trans hy hs)
  · simp only [hs, if_false] at hninv ⊢
    exact M128.mul_spec_big n ninv x y (by omega) hn2 hninv hx (lt_trans hy hn2)

/-- `M128::add`, `M128::sub`: modular addition / subtraction without overflow or underflow. -/
theorem M128_add_sub_spec (n x y : Nat) (hn2 : n < M128.W2) (hx : x < n) (hy : y < n) :
    (∃ r, M128.add n x y = some r ∧ r < n ∧ r % n = (x + y) % n) ∧
    (∃ r, M128.sub n x y = some r ∧ r < n ∧ (r + y) % n = x % n) :=
  ⟨M128.add_spec n x y hn2 hx hy, M128.sub_spec n x y hn2 hx hy⟩

set_option exponentiation.threshold 600 in
/-- The 128-bit variant computes the same function as the general ring on its domain: for an odd
modulus `n < 2^128` (1 or 2 words), `c = ZmodN::new(n)`, and residues `x, y < n`, `M128::mul`,
`add`, `sub` return exactly the integer value of the `MInt` returned by `ZmodN::mul`, `add`, `sub`
(same representation: `R = 2^64` for one word, `2^128` for two). -/
theorem M128_eq_ZmodN (n ninv x y : Nat) (hodd : n % 2 = 1) (hn2 : n < M128.W2)
    (hninv : if n < Mg64.W then (n * ninv + 1) % Mg64.W = 0 else (n * ninv + 1) % M128.W2 = 0)
    (hx : x < n) (hy : y < n) (c : Ctx) (hc : ZmodN.new n = some c) :
    (ZmodN.mul c (fromUint x) (fromUint y)).map val = M128.mul n ninv x y ∧
    (ZmodN.add c (fromUint x) (fromUint y)).map val = M128.add n x y ∧
    (ZmodN.sub c (fromUint x) (fromUint y)).map val = M128.sub n x y ∧
    M128.mul n ninv x y ≠ none := by
  have hW2 : M128.W2 = Limbs.W ^ 2 := by decide
  have hWW : Mg64.W = Limbs.W := rfl
  have hn512 : n < 2 ^ 512 := lt_trans hn2 (by decide)
  obtain ⟨c', h1, hv, hcn, hck⟩ := new_spec n hodd hn512
  rw [hc] at h1; cases h1
  have hnp : 0 < n := by omega
  have hn8 : n < Limbs.W ^ 8 := hcn ▸ hv.nlt8
  have hx8 : x < Limbs.W ^ 8 := lt_trans hx hn8
  have hy8 : y < Limbs.W ^ 8 := lt_trans hy hn8
  -- R of the two variants agree
  have hR : (if n < Mg64.W then Mg64.W else M128.W2) = Limbs.W ^ c.k := by
    have hk2 : nwords n ≤ 2 := nwordsAux_le _ _ _ (by rw [← hW2]; exact hn2)
    have hk1 : 1 ≤ nwords n := nwordsAux_pos _ _ (by omega)
    have hlt : n < Limbs.W ^ nwords n :=
      nwordsAux_lt _ _ (lt_of_lt_of_le hn8 (Nat.pow_le_pow_right Limbs.W_pos (by decide)))
    by_cases hs : n < Mg64.W
    · have : nwords n = 1 := by
        have := nwordsAux_le 200 n 1 (by rw [pow_one]; exact hs)
        exact Nat.le_antisymm this hk1
      simp only [hs, if_true, hck, this, pow_one]; rfl
    · have : nwords n = 2 := by
        by_contra hne
        have h1 : nwords n = 1 := by omega
        rw [h1, pow_one] at hlt
        exact hs hlt
      simp only [hs, if_false, hck, this, hW2]
  have hfit : 2 * c.n ≤ Limbs.W ^ 8 := by
    rw [hcn]
    have : M128.W2 * 2 ≤ Limbs.W ^ 8 := by decide
    omega
  obtain ⟨r1, a1, a2, a3⟩ := M128_mul_spec n ninv x y hnp hn2 hninv hx hy
  obtain ⟨m1, b1, b2, b3, _, _⟩ := mulmod_spec c hv (fromUint x) (fromUint y) (fromUint_Wf x)
    (fromUint_length x) (fromUint_length y) (by rw [fromUint_val hx8, hcn]; exact hx)
    (by rw [fromUint_val hy8, hcn]; exact hy)
  obtain ⟨⟨r2, c1, c2, c3⟩, ⟨r3, d1, d2, d3⟩⟩ := M128_add_sub_spec n x y hn2 hx hy
  obtain ⟨m2, e1, e2, e3, _, _⟩ := add_spec c hv hfit (fromUint x) (fromUint y) (fromUint_Wf x)
    (fromUint_Wf y) (fromUint_length x) (fromUint_length y)
    (by rw [fromUint_val hx8, hcn]; exact hx) (by rw [fromUint_val hy8, hcn]; exact hy)
  obtain ⟨m3, f1, f2, f3, _, _⟩ := sub_spec c hv hfit (fromUint x) (fromUint y) (fromUint_Wf x)
    (fromUint_Wf y) (fromUint_length x) (fromUint_length y)
    (by rw [fromUint_val hx8, hcn]; exact hx) (by rw [fromUint_val hy8, hcn]; exact hy)
  rw [fromUint_val hx8, fromUint_val hy8, hcn] at b3 e3 f3
  rw [hcn] at b2 e2 f2
  rw [hR] at a3
  refine ⟨?_, ?_, ?_, by rw [a1]; simp⟩
  · rw [a1, b1, Option.map_some]
    congr 1
    have : val m1 % c.n = r1 % c.n := cancel_R hv (by rw [hcn, b3, a3])
    rw [hcn, Nat.mod_eq_of_lt b2, Nat.mod_eq_of_lt a2] at this
    exact this
  · rw [c1, e1, Option.map_some]
    congr 1
    have : val m2 % n = r2 % n := by rw [e3, c3]
    rwa [Nat.mod_eq_of_lt e2, Nat.mod_eq_of_lt c2] at this
  · rw [d1, f1, Option.map_some]
    congr 1
    have h1 : (val m3 + y) % n = (r3 + y) % n := by rw [f3, d3]
    have h2 : val m3 % n = r3 % n := Nat.ModEq.add_right_cancel' y h1
    rwa [Nat.mod_eq_of_lt f2, Nat.mod_eq_of_lt d2] at h2

/-- non-vacuity of the M128 theorems: `n = 2^128 - 159` (two words) with its 128-bit inverse. -/
example :
    let n := 340282366920938463463374607431768211297
    let ninv := 235415473970460572207366080613172976479
    n % 2 = 1 ∧ n < M128.W2 ∧ ¬ n < Mg64.W ∧ (n * ninv + 1) % M128.W2 = 0 ∧
    M128.mul n ninv 3 5 = some 128408440347523948476745134879912532565 ∧
    (ZmodN.new n).bind (fun c => (ZmodN.mul c (fromUint 3) (fromUint 5)).map val) =
      some 128408440347523948476745134879912532565 := by
  decide +kernel

/-- `M128::inv_2adic` (after /repo commit a0db7d0 "fix: M128::inv_2adic overflowed u128 ..."): for
every odd `n < 2^128` the loop terminates within the fuel, no panic site is reached and the result
`v < R` satisfies `n·v ≡ -1 (mod R)` (`R = 2^64` for `n < 2^64`, else `2^128`). Before the fix the
statement was false in the checked profile: the loop starts from `mg_2adic_inv(n as u64)` (the
NEGATED 64-bit inverse) and `x += 1 << 127` overflowed for `n = (2^129+1)/3`. -/
theorem M128_inv2adic_spec (n : Nat) (hodd : n % 2 = 1) (hn2 : n < M128.W2) :
    ∃ v, M128.inv2adic n = some v ∧
      (if n < Mg64.W then v < Mg64.W ∧ (n * v + 1) % Mg64.W = 0
       else v < M128.W2 ∧ (n * v + 1) % M128.W2 = 0) :=
  M128.inv2adic_spec n hodd hn2

/-- the former overflow witness `n = (2^129+1)/3` now returns `2^128 - 3` -/
example : M128.inv2adic 226854911280625642308916404954512140971 =
    some 340282366920938463463374607431768211453 := by decide +kernel

/-- `M128::r_r2`: returns `(R mod n, R² mod n)` for the multiplier `R` of `M128::mul`
(the seven Montgomery squarings of `2R` give `2^128·R`). -/
theorem M128_r_r2_spec (n ninv : Nat) (hodd : n % 2 = 1) (hn2 : n < M128.W2)
    (hninv : if n < Mg64.W then (n * ninv + 1) % Mg64.W = 0 else (n * ninv + 1) % M128.W2 = 0) :
    M128.rR2 n ninv = some (if n < Mg64.W then (Mg64.W % n, Mg64.W * Mg64.W % n)
      else (M128.W2 % n, M128.W2 * M128.W2 % n)) :=
  M128.rR2_spec n ninv hodd hn2 hninv

end Ymq.C07
