/-
The `u64` counters of the relation store cannot overflow on realistic histories (C11).
Potential: `t ≥ (cycle length of any pending single) + (sum of the cycle lengths of the pending
doubles)`; a walk moves the cycle length of a consumed double from the sum into a single, so the
potential does not grow inside walks, and an `add` raises it by at most the cycle length of its
input. Exponents: `total r.factors + 2 ≤ M · r.cyclelen` (`RelB`), additive under `combine` (which
adds the squared cofactor, exponent 2).
-/
import Ymq.Lemmas.RelationsWalkBound

namespace Ymq.Relations

/-- sum of all exponents of a factor list -/
def total : List (Int × Nat) → Nat
  | [] => 0
  | (_, k) :: t => k + total t

theorem total_append (a b : List (Int × Nat)) : total (a ++ b) = total a + total b := by
  induction a with
  | nil => simp [total]
  | cons h t ih => obtain ⟨p, k⟩ := h; simp only [List.cons_append, total, ih]; omega

theorem bump_total (p : Int) (k : Nat) : ∀ (fs fs' : List (Int × Nat)),
    bump p k fs = .ok fs' → hasPrime p fs = true → total fs' = total fs + k := by
  intro fs
  induction fs with
  | nil => intro fs' _ hp; simp [hasPrime] at hp
  | cons f t ih =>
    obtain ⟨p', k'⟩ := f
    intro fs' h hp
    unfold bump at h
    split at h
    · split at h
      · simp only [pure_eq_ok] at h
        subst h; simp only [total]; omega
      · simp [throw_ne_ok] at h
    · rename_i hne
      simp only [bind_eq_ok, pure_eq_ok] at h
      obtain ⟨t', ht', h⟩ := h
      subst h
      have hp' : hasPrime p t = true := by
        simp only [hasPrime, List.any_cons, Bool.or_eq_true, beq_iff_eq] at hp
        rcases hp with hp | hp
        · exact absurd hp hne
        · exact hp
      simp only [total, ih t' ht' hp']; omega

theorem mergeFactors_total : ∀ (fs acc out : List (Int × Nat)),
    mergeFactors acc fs = .ok out → total out = total acc + total fs := by
  intro fs
  induction fs with
  | nil => intro acc out h; simp only [mergeFactors, pure_eq_ok] at h; subst h; simp [total]
  | cons f t ih =>
    obtain ⟨p, k⟩ := f
    intro acc out h
    unfold mergeFactors at h
    split at h
    · rename_i hp
      simp only [bind_eq_ok] at h
      obtain ⟨acc', hb, h⟩ := h
      rw [ih acc' out h, bump_total p k acc acc' hb hp]; simp only [total]; omega
    · rw [ih _ out h, total_append]; simp only [total]; omega

/-- `bump` and `mergeFactors` return when the exponent sums stay below 2^64 -/
theorem bump_tot (p : Int) (k : Nat) : ∀ (fs : List (Int × Nat)), total fs + k < W64 →
    ∃ fs', bump p k fs = .ok fs' := by
  intro fs
  induction fs with
  | nil => intro _; exact ⟨[], rfl⟩
  | cons f t ih =>
    obtain ⟨p', k'⟩ := f
    intro h
    simp only [total] at h
    unfold bump
    split
    · rw [if_pos (by omega)]; exact ⟨_, rfl⟩
    · obtain ⟨t', ht'⟩ := ih (by omega)
      rw [ht']; exact ⟨_, rfl⟩

theorem mergeFactors_tot : ∀ (fs acc : List (Int × Nat)), total acc + total fs < W64 →
    ∃ out, mergeFactors acc fs = .ok out := by
  intro fs
  induction fs with
  | nil => intro acc _; exact ⟨acc, rfl⟩
  | cons f t ih =>
    obtain ⟨p, k⟩ := f
    intro acc h
    simp only [total] at h
    unfold mergeFactors
    split
    · rename_i hp
      obtain ⟨acc', hb⟩ := bump_tot p k acc (by omega)
      rw [hb]
      simp only [ok_bind]
      exact ih acc' (by rw [bump_total p k acc acc' hb hp]; omega)
    · exact ih _ (by rw [total_append]; simp only [total]; omega)

theorem normFactors_total (fs : List (Int × Nat)) : total (normFactors fs) ≤ total fs := by
  induction fs with
  | nil => exact Nat.le_refl _
  | cons f t ih =>
    obtain ⟨p, k⟩ := f
    rw [normFactors_cons]
    split
    · split
      · simp only [total]; omega
      · simp only [total]; omega
    · simp only [total]; omega

/-- exponent bound of one relation -/
def RelB (M : Nat) (r : Relation) : Prop := total r.factors + 2 ≤ M * r.cyclelen

theorem combine_total {n : Nat} {r1 r2 rr : Relation} (h : combine n r1 r2 = .ok rr) :
    total rr.factors = total r1.factors + total r2.factors + 2 ∧
      rr.cyclelen = r1.cyclelen + r2.cyclelen := by
  obtain ⟨_, _, fs, hfs, hf⟩ := combine_divisor h
  obtain ⟨_, _, _, _, hlen, _⟩ := combine_ok h
  refine ⟨?_, hlen⟩
  rw [hf, total_append, mergeFactors_total _ _ _ hfs]
  simp [total]

theorem combine_relB {n M : Nat} {r1 r2 rr : Relation} (h : combine n r1 r2 = .ok rr)
    (h1 : RelB M r1) (h2 : RelB M r2) : RelB M rr := by
  obtain ⟨ht, hl⟩ := combine_total h
  unfold RelB at *
  rw [ht, hl, Nat.mul_add]
  omega

/-- `combine` does not overflow when the sums stay below 2^64 -/
theorem combine_ne_overflow {n : Nat} {r1 r2 : Relation}
    (ht : total r1.factors + total r2.factors < W64) (hl : r1.cyclelen + r2.cyclelen < W64) :
    combine n r1 r2 ≠ .error .overflow := by
  unfold combine
  obtain ⟨fs, hfs⟩ := mergeFactors_tot _ _ ht
  rw [hfs]
  simp only [ok_bind]
  repeat' split
  all_goals first
    | (intro hc; cases hc)
    | (exfalso; omega)

/-- a packed relation keeps its cycle length and its exponent bound -/
theorem relB_pack {M : Nat} {r : Relation} {b : List Nat} (h : pack r = .ok b) (hty : Typed r)
    (hno : NoOne r.factors) (hb : RelB M r) :
    ∃ r', unpack b = .ok r' ∧ r'.cyclelen = r.cyclelen ∧ RelB M r' := by
  refine ⟨_, unpack_pack' h hty hno, rfl, ?_⟩
  unfold RelB at *
  have := normFactors_total r.factors
  simp only
  omega

/-! ### the potential -/

def blobLen (b : List Nat) : Nat :=
  match unpack b with
  | .ok r => r.cyclelen
  | .error _ => 0

def dsum : List ((Nat × Nat) × List Nat) → Nat
  | [] => 0
  | e :: t => blobLen e.2 + dsum t

theorem blobLen_le_dsum {e : (Nat × Nat) × List Nat} : ∀ {l : List ((Nat × Nat) × List Nat)},
    e ∈ l → blobLen e.2 ≤ dsum l := by
  intro l
  induction l with
  | nil => intro h; cases h
  | cons x t ih =>
    intro h
    rcases List.mem_cons.mp h with h | h
    · subst h; simp only [dsum]; omega
    · have := ih h; simp only [dsum]; omega

theorem aerase_cons' (k : Nat × Nat) (x : (Nat × Nat) × List Nat) (t : List ((Nat × Nat) × List Nat)) :
    aerase k (x :: t) = if x.1 ≠ k then x :: aerase k t else aerase k t := by
  unfold aerase
  rw [List.filter_cons]
  by_cases h : x.1 = k <;> simp [h]

theorem dsum_erase_le (k : Nat × Nat) : ∀ (l : List ((Nat × Nat) × List Nat)),
    dsum (aerase k l) ≤ dsum l := by
  intro l
  induction l with
  | nil => exact Nat.le_refl _
  | cons x t ih =>
    rw [aerase_cons']
    split
    · simp only [dsum]; omega
    · simp only [dsum]; omega

theorem dsum_erase {k : Nat × Nat} {b : List Nat} : ∀ {l : List ((Nat × Nat) × List Nat)},
    (k, b) ∈ l → dsum (aerase k l) + blobLen b ≤ dsum l := by
  intro l
  induction l with
  | nil => intro h; cases h
  | cons x t ih =>
    intro h
    have hle := dsum_erase_le k t
    rw [aerase_cons']
    rcases List.mem_cons.mp h with h | h
    · subst h
      rw [if_neg (by simp)]
      simp only [dsum]
      omega
    · have := ih h
      split
      · simp only [dsum]; omega
      · simp only [dsum]; omega

theorem dsum_insertOrd (k : Nat × Nat) (b : List Nat) : ∀ (l : List ((Nat × Nat) × List Nat)),
    dsum (ainsertOrd ltPair k b l) = blobLen b + dsum l := by
  intro l
  induction l with
  | nil => simp [ainsertOrd, dsum]
  | cons x t ih =>
    obtain ⟨k', v'⟩ := x
    unfold ainsertOrd
    split
    · simp only [dsum]
    · simp only [dsum, ih]; omega

theorem dsum_insert (k : Nat × Nat) (b : List Nat) (l : List ((Nat × Nat) × List Nat)) :
    dsum (ainsert ltPair k b l) ≤ dsum l + blobLen b := by
  unfold ainsert
  rw [dsum_insertOrd]
  have := dsum_erase_le k l
  omega

/-- the potential invariant: `t` bounds (cycle length of any pending single) + (sum over the
pending doubles); every pending relation satisfies the exponent bound -/
structure Inv3 (M t : Nat) (s : Store) : Prop where
  ds : dsum s.doubles ≤ t
  par : ∀ e ∈ s.partials, ∃ r, unpack e.2 = .ok r ∧ r.cyclelen + dsum s.doubles ≤ t ∧ RelB M r
  dbl : ∀ e ∈ s.doubles, ∃ r, unpack e.2 = .ok r ∧ RelB M r

theorem inv3_new (M t n fbsize maxlarge : Nat) : Inv3 M t (Store.new n fbsize maxlarge) := by
  refine ⟨Nat.zero_le _, ?_, ?_⟩
  · intro e he; cases he
  · intro e he; cases he

theorem inv3_mono {M t0 t : Nat} {s : Store} (h : Inv3 M t0 s) (ht : t0 ≤ t) : Inv3 M t s := by
  refine ⟨Nat.le_trans h.ds ht, ?_, h.dbl⟩
  intro e he
  obtain ⟨r, h1, h2, h3⟩ := h.par e he
  exact ⟨r, h1, by omega, h3⟩

theorem inv3_of_lists {M t : Nat} {s s' : Store} (h : Inv3 M t s) (hp : s'.partials = s.partials)
    (hd : s'.doubles = s.doubles) : Inv3 M t s' := by
  refine ⟨by rw [hd]; exact h.ds, ?_, by rw [hd]; exact h.dbl⟩
  rw [hp, hd]; exact h.par

theorem inv3_setPartial {M t : Nat} {s : Store} (h : Inv3 M t s) (p : Nat) {b : List Nat}
    (hb : ∃ r, unpack b = .ok r ∧ r.cyclelen + dsum s.doubles ≤ t ∧ RelB M r) :
    Inv3 M t (s.setPartial p b) := by
  refine ⟨h.ds, ?_, h.dbl⟩
  intro e he
  simp only [Store.setPartial] at he
  rw [mem_ainsert] at he
  rcases he with he | ⟨he, _⟩
  · subst he; exact hb
  · exact h.par e he

theorem blobLen_of {b : List Nat} {r : Relation} (h : unpack b = .ok r) : blobLen b = r.cyclelen := by
  unfold blobLen; rw [h]

theorem inv3_erase {M t : Nat} {s : Store} (h : Inv3 M t s) {p q : Nat} {blob : List Nat}
    (hm : ((p, q), blob) ∈ s.doubles) :
    blobLen blob ≤ t ∧ Inv3 M (t - blobLen blob)
      { s with doubles := aerase (p, q) s.doubles, doublesRev := serase (q, p) s.doublesRev } := by
  have h1 := dsum_erase hm
  have h2 := h.ds
  refine ⟨by omega, ⟨by simp only; omega, ?_, ?_⟩⟩
  · intro e he
    obtain ⟨r, e1, e2, e3⟩ := h.par e he
    exact ⟨r, e1, by simp only; omega, e3⟩
  · intro e he
    exact h.dbl e (mem_aerase.mp he).1

/-- `combine_double_step` (hence `combine_double` before the requested walk) keeps the potential:
the double `r` is not (any more) counted in `t0` -/
theorem step_inv3 {M t0 t : Nat} {r : Relation} {p q : Nat} {s : Store} {res : Bool × Option Nat × Store}
    (h : combineDoubleStep r p q s = .ok res) (hi : Inv s) (hrt : Typed r) (hrn : NoOne r.factors)
    (hrv : Valid s.n r) (hc : r.cofactor = p * q) (hp1 : p ≠ 1) (hq1 : q ≠ 1) (hp32 : p < W32)
    (hq32 : q < W32) (h3 : Inv3 M t0 s) (hb : RelB M r) (ht : t0 + r.cyclelen ≤ t) :
    Inv3 M t res.2.2 := by
  have h3t : Inv3 M t s := inv3_mono h3 (by omega)
  -- the new single obtained by combining r with the stored single of `key`
  have hnew : ∀ (key : Nat) (bk : List Nat) (rk rr : Relation) (b : List Nat) (s1 : Store),
      alookup key s.partials = some bk → unpack bk = .ok rk → combine s.n r rk = .ok rr →
      r.cofactor % key = 0 → key ≠ 1 → key < W32 → pack rr = .ok b → s1.doubles = s.doubles →
      ∃ r', unpack b = .ok r' ∧ r'.cyclelen + dsum s1.doubles ≤ t ∧ RelB M r' := by
    intro key bk rk rr b s1 hl hu hcomb hdvd hk1 hk32 hpk hd
    obtain ⟨_, _, rk', hu', hck, hvk⟩ := hi.par _ (alookup_mem hl)
    simp only at hu' hck hvk
    rw [hu] at hu'; cases hu'
    obtain ⟨rk3, hu3, hl3, hb3⟩ := h3.par _ (alookup_mem hl)
    simp only at hu3
    rw [hu] at hu3; cases hu3
    obtain ⟨htk, hnk, _⟩ := unpack_facts hu
    have hs := combine_stored hcomb hrv hrt hrn hvk htk hnk hck hdvd hk1 hk32
    obtain ⟨r', e1, e2, e3⟩ := relB_pack hpk hs.2.1 hs.2.2.1 (combine_relB hcomb hb hb3)
    refine ⟨r', e1, ?_, e3⟩
    rw [e2, (combine_total hcomb).2, hd]
    omega
  unfold combineDoubleStep at h
  split at h
  · simp only [bind_eq_ok, pure_eq_ok] at h
    obtain ⟨s1, hs1, h⟩ := h
    obtain ⟨_, hp, hd, _⟩ := addCycle_mono hs1
    rw [← h]; exact inv3_of_lists h3t hp hd
  · have hmodp : r.cofactor % p = 0 := by rw [hc]; exact Nat.mul_mod_right _ _
    have hmodq : r.cofactor % q = 0 := by rw [hc]; exact Nat.mul_mod_left _ _
    split at h
    · rename_i bp bq hlp hlq
      simp only [bind_eq_ok] at h
      obtain ⟨rp, hup, rq, huq, r1, _, r2, _, s1, hs1, h⟩ := h
      obtain ⟨_, hp, hd, _⟩ := addCycle_mono hs1
      have h31 : Inv3 M t s1 := inv3_of_lists h3t hp hd
      split at h
      · simp only [bind_eq_ok] at h
        obtain ⟨rpq, hrpq, h⟩ := h
        split at h
        · simp [throw_ne_ok] at h
        · simp only [bind_eq_ok, pure_eq_ok] at h
          obtain ⟨b, hb', h⟩ := h
          rw [← h]
          exact inv3_setPartial h31 q (hnew p bp rp rpq b s1 hlp hup hrpq hmodp hp1 hp32 hb' hd)
      · split at h
        · simp only [bind_eq_ok] at h
          obtain ⟨rqp, hrqp, h⟩ := h
          split at h
          · simp [throw_ne_ok] at h
          · simp only [bind_eq_ok, pure_eq_ok] at h
            obtain ⟨b, hb', h⟩ := h
            rw [← h]
            exact inv3_setPartial h31 p (hnew q bq rq rqp b s1 hlq huq hrqp hmodq hq1 hq32 hb' hd)
        · simp only [pure_eq_ok] at h
          rw [← h]; exact h31
    · rename_i bp hlp hlq
      simp only [bind_eq_ok] at h
      obtain ⟨rp, hup, rq, hrq, h⟩ := h
      split at h
      · simp [throw_ne_ok] at h
      · simp only [bind_eq_ok, pure_eq_ok] at h
        obtain ⟨b, hb', h⟩ := h
        rw [← h]
        have h30 : Inv3 M t { s with nCombined12 := s.nCombined12 + 1 } := inv3_of_lists h3t rfl rfl
        exact inv3_setPartial h30 q (hnew p bp rp rq b _ hlp hup hrq hmodp hp1 hp32 hb' rfl)
    · rename_i bq hlp hlq
      simp only [bind_eq_ok] at h
      obtain ⟨rq, huq, rp, hrp, h⟩ := h
      split at h
      · simp [throw_ne_ok] at h
      · simp only [bind_eq_ok, pure_eq_ok] at h
        obtain ⟨b, hb', h⟩ := h
        rw [← h]
        have h30 : Inv3 M t { s with nCombined12 := s.nCombined12 + 1 } := inv3_of_lists h3t rfl rfl
        exact inv3_setPartial h30 p (hnew q bq rq rp b _ hlq huq hrp hmodq hq1 hq32 hb' rfl)
    · simp only [pure_eq_ok] at h
      rw [← h]; exact h3t

theorem combineSingle_inv3 {M t : Nat} {r : Relation} {s s' : Store} {done : Bool}
    (h : combineSingle r s = .ok (done, s')) (h3 : Inv3 M t s) (hrt : Typed r)
    (hrn : NoOne r.factors) (hb : RelB M r) : Inv3 M t s' := by
  unfold combineSingle at h
  split at h
  · simp only [pure_eq_ok, Prod.mk.injEq] at h
    rw [← h.2]; exact h3
  · rename_i blob hlook
    obtain ⟨r0', hu0, hl0, _⟩ := h3.par _ (alookup_mem hlook)
    simp only at hu0
    simp only [bind_eq_ok] at h
    obtain ⟨r0, hu, rr, _, h⟩ := h
    rw [hu0] at hu; cases hu
    split at h
    · simp only [pure_eq_ok, Prod.mk.injEq] at h
      rw [← h.2]; exact h3
    · split at h
      · simp only [bind_eq_ok] at h
        obtain ⟨s1, hs1, h⟩ := h
        obtain ⟨_, hp, hd, _⟩ := addCycle_mono hs1
        have h31 : Inv3 M t s1 := inv3_of_lists h3 hp hd
        split at h
        · rename_i hlt
          simp only [bind_eq_ok, pure_eq_ok, Prod.mk.injEq] at h
          obtain ⟨b, hb', _, h⟩ := h
          rw [← h]
          obtain ⟨r', e1, e2, e3⟩ := relB_pack hb' hrt hrn hb
          exact inv3_setPartial h31 _ ⟨r', e1, by rw [e2, hd]; omega, e3⟩
        · simp only [pure_eq_ok, Prod.mk.injEq] at h
          rw [← h.2]; exact h31
      · simp [throw_ne_ok] at h

theorem removeStep_inv3 {M t : Nat} {p q : Nat} {s : Store} {res : StepRes × Store}
    (h : removeStep p q s = .ok res) (hi : Inv s) (h3 : Inv3 M t s) : Inv3 M t res.2 := by
  unfold removeStep at h
  split at h
  · simp only [pure_eq_ok] at h
    rw [← h]; exact h3
  · rename_i blob hlook
    have hm := alookup_mem hlook
    obtain ⟨hlt, hp1, hq1, hq32, r', hu', hc', hv'⟩ := hi.dbl _ hm
    obtain ⟨r3, hu3, hb3⟩ := h3.dbl _ hm
    simp only at hlt hp1 hq1 hq32 hu' hc' hv' hu3
    rw [hu'] at hu3; cases hu3
    obtain ⟨hty, hno, _⟩ := unpack_facts hu'
    obtain ⟨hle, h3e⟩ := inv3_erase h3 hm
    rw [blobLen_of hu'] at hle h3e
    simp only [bind_eq_ok] at h
    obtain ⟨r, hu, res', hstep, h⟩ := h
    rw [hu'] at hu; cases hu
    split at h
    · simp only [pure_eq_ok] at h
      rw [← h]
      exact step_inv3 hstep (inv_erase_double hi p q) hty hno hv' hc' hp1 hq1 (lt_trans hlt hq32) hq32
        h3e hb3 (by omega)
    · simp [throw_ne_ok] at h

/-! ### walks keep the potential -/

theorem runActs_inv3 {M t : Nat} {w : Nat → Store → Except Err Store}
    (hw3 : ∀ x s s', Good s → Inv3 M t s → w x s = .ok s' → Inv3 M t s') (hg : GoodKeep w) (root : Nat) :
    ∀ (l : List Act) (s s' : Store), Good s → Inv3 M t s → runActs w root l s = .ok s' →
      Inv3 M t s' := by
  intro l
  induction l with
  | nil => intro s s' _ h3 h; simp only [runActs, pure_eq_ok] at h; rw [← h]; exact h3
  | cons a rest ih =>
    intro s s' hgood h3 h
    cases a with
    | rem p q =>
      simp only [runActs, walkStep_eq_remove, bind_assoc', bind_eq_ok] at h
      obtain ⟨res, hrs, s1, hs1, h⟩ := h
      have hg1 := removeStep_good hrs hgood
      have h31 := removeStep_inv3 hrs hgood.1 h3
      obtain ⟨r0, s0⟩ := res
      cases r0 with
      | pop =>
        simp only [afterRemove, pure_eq_ok] at hs1
        rw [← hs1] at h; exact ih _ _ hg1 h31 h
      | next nx =>
        cases nx with
        | none =>
          simp only [afterRemove, pure_eq_ok] at hs1
          rw [← hs1] at h; exact ih _ _ hg1 h31 h
        | some x =>
          simp only [afterRemove] at hs1
          exact ih _ _ (hg x _ _ hg1 hs1) (hw3 x _ _ hg1 h31 hs1) h
    | go a' b' =>
      simp only [runActs] at h
      split at h
      · simp [throw_ne_ok] at h
      · simp only [bind_eq_ok] at h
        obtain ⟨s1, hs1, h⟩ := h
        exact ih _ _ (hg b' _ _ hgood hs1) (hw3 b' _ _ hgood h3 hs1) h

theorem walkDoubles_inv3 {M t : Nat} : ∀ (f x : Nat) (s s' : Store), Good s → Inv3 M t s →
    walkDoubles f x s = .ok s' → Inv3 M t s' := by
  intro f
  induction f with
  | zero => intro x s s' _ _ h; simp [walkDoubles, throw_ne_ok] at h
  | succ f ih =>
    intro x s s' hgood h3 h
    rw [walkDoubles_acts] at h
    split at h
    · simp [throw_ne_ok] at h
    · exact runActs_inv3 (fun x s s' a b c => ih x s s' a b c) (goodKeep_walkDoubles f) x _ s s' hgood h3 h

/-- one `add` raises the potential by at most the cycle length of its input -/
theorem add_inv3 {M t : Nat} {r : Relation} {pq : Option (Nat × Nat)} {s s' : Store}
    (h : add r pq s = .ok s') (hi : Inv s) (hn : s.n ≤ X512) (hin : InputOK s.n r pq)
    (h3 : Inv3 M t s) (hb : RelB M r) : Inv3 M (t + r.cyclelen) s' := by
  obtain ⟨hrt, hrv, hrn, hpair⟩ := hin
  have h3t : Inv3 M (t + r.cyclelen) s := inv3_mono h3 (by omega)
  unfold add at h
  split at h
  · simp [throw_ne_ok] at h
  · rename_i hx
    simp only [not_not] at hx
    split at h
    · obtain ⟨_, hp, hd, _⟩ := addCycle_mono h
      exact inv3_of_lists h3t hp hd
    · rename_i hc1
      split at h
      · simp only [bind_eq_ok] at h
        obtain ⟨res, hres, h⟩ := h
        have hi0 : Inv { s with nPartials := s.nPartials + 1 } := ⟨hi.cyc, hi.par, hi.dbl, hi.rev⟩
        have h30 : Inv3 M t { s with nPartials := s.nPartials + 1 } := inv3_of_lists h3 rfl rfl
        have hk0 : Keeps s { s with nPartials := s.nPartials + 1 } := ⟨rfl, rfl, hi0⟩
        have hk1 : Keeps s res.2 := Keeps.trans hk0
          (combineSingle_keeps (done := res.1) (s' := res.2) hres hi0 hn hrt hrn hrv hx)
        have h31 := combineSingle_inv3 (done := res.1) (s' := res.2) hres h30 hrt hrn hb
        split at h
        · simp only [pure_eq_ok] at h
          rw [← h]; exact inv3_mono h31 (by omega)
        · simp only [bind_eq_ok] at h
          obtain ⟨b, hpk, h⟩ := h
          split at h
          · simp [throw_ne_ok] at h
          · rename_i h32
            have hk2 : Keeps s (res.2.setPartial r.cofactor b) := by
              refine hk1.trans (keeps_setPartial hk1.2.2 hc1 (by omega) ?_)
              rw [hk1.1]
              exact goodP_of_pack hpk hrt hrn (lt_of_lt_of_le hx hn) hrv
            obtain ⟨r', e1, e2, e3⟩ := relB_pack hpk hrt hrn hb
            have h32' : Inv3 M (t + r.cyclelen) (res.2.setPartial r.cofactor b) :=
              inv3_setPartial (inv3_mono h31 (by omega)) _
                ⟨r', e1, by rw [e2]; have := h31.ds; omega, e3⟩
            exact walkDoubles_inv3 _ _ _ _ ⟨hk2.2.2, by rw [hk2.1]; exact hn⟩ h32' h
      · split at h
        · simp only [pure_eq_ok] at h
          rw [← h]; exact h3t
        · rename_i p q
          obtain ⟨hc, hp1, hq1⟩ := hpair p q rfl
          split at h
          · simp [throw_ne_ok] at h
          · rename_i h32
            have hp32 : p < W32 := by omega
            have hq32 : q < W32 := by omega
            have hi0 : Inv { s with nDoubles := s.nDoubles + 1 } := ⟨hi.cyc, hi.par, hi.dbl, hi.rev⟩
            have h30 : Inv3 M t { s with nDoubles := s.nDoubles + 1 } := inv3_of_lists h3 rfl rfl
            simp only [bind_eq_ok] at h
            obtain ⟨res, hres, h⟩ := h
            -- the store after combine_double
            have h3r : Inv3 M (t + r.cyclelen) res.2 := by
              have hres' := hres
              rw [combineDouble_eq_step] at hres'
              simp only [bind_eq_ok] at hres'
              obtain ⟨res0, hst, haft⟩ := hres'
              have h3s := step_inv3 hst hi0 hrt hrn hrv hc hp1 hq1 hp32 hq32 h30 hb (Nat.le_refl _)
              obtain ⟨ok, nx, s2⟩ := res0
              cases nx with
              | none =>
                simp only [afterStep, pure_eq_ok] at haft
                rw [← haft]; exact h3s
              | some x =>
                simp only [afterStep, bind_eq_ok, pure_eq_ok] at haft
                obtain ⟨s3, hw, haft⟩ := haft
                rw [← haft]
                have hcd : combineDouble idWalk r p q { s with nDoubles := s.nDoubles + 1 } = .ok (ok, s2) := by
                  rw [combineDouble_eq_step, hst]; rfl
                have hk2 := combineDouble_keeps idWalk_keeps hcd hi0 hn hrt hrn hrv hc hp1 hq1 hp32 hq32
                exact walkDoubles_inv3 _ _ _ _ ⟨hk2.2.2, by rw [hk2.1]; exact hn⟩ h3s hw
            split at h
            · simp only [pure_eq_ok] at h
              rw [← h]; exact h3r
            · rename_i hdone
              simp only [bind_eq_ok, pure_eq_ok] at h
              obtain ⟨b, hpk, h⟩ := h
              rw [← h]
              obtain ⟨_, _, hfalse⟩ := combineDouble_mono
                (fun root s s' h => walkDoubles_mono _ root s s' h) (done := res.1) (s' := res.2) hres
              obtain ⟨hs, _, _⟩ := hfalse (by simpa using hdone)
              obtain ⟨r', e1, e2, e3⟩ := relB_pack hpk hrt hrn hb
              have hbl : blobLen b = r.cyclelen := by rw [blobLen_of e1, e2]
              have hd2 : res.2.doubles = s.doubles := by rw [hs]
              have hp2 : res.2.partials = s.partials := by rw [hs]
              have hins := dsum_insert (if p < q then (p, q) else (q, p)) b res.2.doubles
              rw [hd2, hbl] at hins
              have hds := h3.ds
              refine ⟨?_, ?_, ?_⟩
              · show dsum (ainsert ltPair (if p < q then (p, q) else (q, p)) b res.2.doubles) ≤ _
                rw [hd2]; omega
              · intro e he
                have he' : e ∈ s.partials := by rw [← hp2]; exact he
                obtain ⟨r0, f1, f2, f3⟩ := h3.par e he'
                refine ⟨r0, f1, ?_, f3⟩
                show r0.cyclelen + dsum (ainsert ltPair (if p < q then (p, q) else (q, p)) b res.2.doubles) ≤ _
                rw [hd2]; omega
              · intro e he
                have he' : e ∈ ainsert ltPair (if p < q then (p, q) else (q, p)) b res.2.doubles := he
                rw [hd2, mem_ainsert] at he'
                rcases he' with he' | ⟨he', _⟩
                · subst he'; exact ⟨r', e1, e3⟩
                · exact h3.dbl e he'

/-- after a history of inputs with cycle length 1 the potential is at most the number of adds -/
theorem runHistory_inv3 {M : Nat} : ∀ (ops : List (Relation × Option (Nat × Nat))) (s s' : Store) (t : Nat),
    runHistory ops s = .ok s' → Inv s → s.n ≤ X512 → HistoryOK s.n ops →
    (∀ op ∈ ops, RelB M op.1 ∧ op.1.cyclelen = 1) → Inv3 M t s → Inv3 M (t + ops.length) s' := by
  intro ops
  induction ops with
  | nil =>
    intro s s' t h _ _ _ _ h3
    simp only [runHistory, pure_eq_ok] at h
    rw [← h]; exact h3
  | cons op rest ih =>
    obtain ⟨r, pq⟩ := op
    intro s s' t h hi hn hok hbs h3
    simp only [runHistory, bind_eq_ok] at h
    obtain ⟨s1, hs1, h⟩ := h
    have hin := hok (r, pq) List.mem_cons_self
    obtain ⟨hb, hl⟩ := hbs (r, pq) List.mem_cons_self
    simp only at hb hl
    have hk := add_keeps hs1 hi hn hin
    have h31 := add_inv3 hs1 hi hn hin h3 hb
    rw [hl] at h31
    have := ih s1 s' (t + 1) h hk.2.2 (by rw [hk.1]; exact hn)
      (fun op hop => by rw [hk.1]; exact hok op (List.mem_cons_of_mem _ hop))
      (fun op hop => hbs op (List.mem_cons_of_mem _ hop)) h31
    rw [List.length_cons, show t + (rest.length + 1) = t + 1 + rest.length by omega]
    exact this

/-! ### no counter overflows -/

/-- "does not end in a counter overflow" -/
def NOv {α : Type} (x : Except Err α) : Prop := x ≠ .error .overflow

theorem nov_ok {α : Type} (a : α) : NOv (.ok a : Except Err α) := by intro h; cases h
theorem nov_pure {α : Type} (a : α) : NOv (pure a : Except Err α) := nov_ok a
theorem nov_panic {α : Type} : NOv (throw .panic : Except Err α) := by intro h; cases h
theorem nov_debug {α : Type} : NOv (throw .debug : Except Err α) := by intro h; cases h
theorem nov_fuel {α : Type} : NOv (throw .fuel : Except Err α) := by intro h; cases h

theorem nov_bind {α β : Type} {x : Except Err α} {f : α → Except Err β} (hx : NOv x)
    (hf : ∀ a, x = .ok a → NOv (f a)) : NOv (x >>= f) := by
  cases x with
  | error e => intro h; simp only [bind, Except.bind] at h; cases h; exact hx rfl
  | ok a => exact hf a rfl

theorem addCycle_nov (r : Relation) (s : Store) : NOv (addCycle r s) := by
  unfold addCycle
  split
  · exact nov_panic
  · split
    · exact nov_panic
    · exact nov_pure _

theorem packFactors_nov : ∀ (fs : List (Int × Nat)), NOv (packFactors fs) := by
  intro fs
  induction fs with
  | nil => exact nov_pure _
  | cons f t ih =>
    obtain ⟨p, k⟩ := f
    rw [packFactors_cons]
    by_cases hp : p = -1
    · rw [if_pos hp]
      split
      · exact ih
      · exact nov_bind ih (fun _ _ => nov_pure _)
    · rw [if_neg hp]
      by_cases hd : ¬ (p > 0 ∧ p < (W32 : Int) ∧ k > 0)
      · rw [if_pos hd]; exact nov_panic
      · rw [if_neg hd]
        by_cases ho : (if p = 2 then 1 else p.toNat) % 2 ≠ 1
        · rw [if_pos ho]; exact nov_panic
        · rw [if_neg ho]
          refine nov_bind ih (fun _ _ => ?_)
          by_cases hk : k > 1
          · rw [if_pos hk]; exact nov_pure _
          · rw [if_neg hk]; exact nov_pure _

theorem pack_nov (r : Relation) : NOv (pack r) := by
  unfold pack packInts
  exact nov_bind (nov_bind (packFactors_nov _) (fun _ _ => nov_pure _)) (fun _ _ => nov_pure _)

/-- the numeric side condition: cycle lengths up to `T`, exponent sums up to `M·len` -/
structure Cap (M T : Nat) : Prop where
  h1 : M * (3 * T) < W64
  h2 : 3 * T < W64

theorem Cap.mono {M T T' : Nat} (h : Cap M T) (hle : T' ≤ T) : Cap M T' :=
  ⟨lt_of_le_of_lt (Nat.mul_le_mul_left M (by omega)) h.h1, by have := h.h2; omega⟩

theorem combine_nov_of {M T n : Nat} {r1 r2 : Relation} (hc : Cap M T) (h1 : RelB M r1)
    (h2 : RelB M r2) (hl : r1.cyclelen + r2.cyclelen ≤ 3 * T) : NOv (combine n r1 r2) := by
  unfold RelB at h1 h2
  have := Nat.mul_le_mul_left M hl
  rw [Nat.mul_add] at this
  have := hc.h1
  have := hc.h2
  exact combine_ne_overflow (by omega) (by omega)

theorem step_nov {M t0 T : Nat} {r : Relation} {p q : Nat} {s : Store} (hc : Cap M T) (hi : Inv s)
    (h3 : Inv3 M t0 s) (hb : RelB M r) (hT : t0 ≤ T) (hr : r.cyclelen ≤ T) :
    NOv (combineDoubleStep r p q s) := by
  -- a stored single: decodes, bounded
  have hpar : ∀ key bk, alookup key s.partials = some bk →
      ∃ rk, unpack bk = .ok rk ∧ rk.cyclelen ≤ T ∧ RelB M rk := by
    intro key bk hl
    obtain ⟨rk, hu, hl3, hb3⟩ := h3.par _ (alookup_mem hl)
    exact ⟨rk, hu, by omega, hb3⟩
  unfold combineDoubleStep
  split
  · exact nov_bind (addCycle_nov _ _) (fun _ _ => nov_pure _)
  · cases hlp : alookup p s.partials with
    | none =>
      cases hlq : alookup q s.partials with
      | none => exact nov_pure _
      | some bq =>
        obtain ⟨rq, huq, hlq', hbq⟩ := hpar q bq hlq
        simp only [huq, ok_bind]
        refine nov_bind (combine_nov_of hc hb hbq (by omega)) (fun rp _ => ?_)
        split
        · exact nov_panic
        · exact nov_bind (pack_nov _) (fun _ _ => nov_pure _)
    | some bp =>
      obtain ⟨rp, hup, hlp', hbp⟩ := hpar p bp hlp
      cases hlq : alookup q s.partials with
      | none =>
        simp only [hup, ok_bind]
        refine nov_bind (combine_nov_of hc hb hbp (by omega)) (fun rq _ => ?_)
        split
        · exact nov_panic
        · exact nov_bind (pack_nov _) (fun _ _ => nov_pure _)
      | some bq =>
        obtain ⟨rq, huq, hlq', hbq⟩ := hpar q bq hlq
        simp only [hup, huq, ok_bind]
        refine nov_bind (combine_nov_of hc hb hbp (by omega)) (fun r1 hr1 => ?_)
        have hb1 := combine_relB hr1 hb hbp
        have hl1 := (combine_total hr1).2
        refine nov_bind (combine_nov_of hc hb1 hbq (by omega)) (fun r2 _ => ?_)
        refine nov_bind (addCycle_nov _ _) (fun s1 _ => ?_)
        split
        · refine nov_bind (combine_nov_of hc hb hbp (by omega)) (fun rpq _ => ?_)
          split
          · exact nov_panic
          · exact nov_bind (pack_nov _) (fun _ _ => nov_pure _)
        · split
          · refine nov_bind (combine_nov_of hc hb hbq (by omega)) (fun rqp _ => ?_)
            split
            · exact nov_panic
            · exact nov_bind (pack_nov _) (fun _ _ => nov_pure _)
          · exact nov_pure _

theorem combineSingle_nov {M t T : Nat} {r : Relation} {s : Store} (hc : Cap M T) (h3 : Inv3 M t s)
    (hb : RelB M r) (hT : t ≤ T) (hr : r.cyclelen ≤ T) : NOv (combineSingle r s) := by
  unfold combineSingle
  cases hl : alookup r.cofactor s.partials with
  | none => exact nov_pure _
  | some blob =>
    obtain ⟨r0, hu, hl3, hb3⟩ := h3.par _ (alookup_mem hl)
    simp only at hu
    simp only [hu, ok_bind]
    refine nov_bind (combine_nov_of hc hb hb3 (by omega)) (fun rr _ => ?_)
    split
    · exact nov_pure _
    · split
      · refine nov_bind (addCycle_nov _ _) (fun s1 _ => ?_)
        split
        · exact nov_bind (pack_nov _) (fun _ _ => nov_pure _)
        · exact nov_pure _
      · exact nov_debug

theorem removeStep_nov {M t T : Nat} {p q : Nat} {s : Store} (hc : Cap M T) (hi : Inv s)
    (h3 : Inv3 M t s) (hT : t ≤ T) : NOv (removeStep p q s) := by
  unfold removeStep
  cases hlook : alookup (p, q) s.doubles with
  | none => exact nov_pure _
  | some blob =>
    have hm := alookup_mem hlook
    obtain ⟨_, _, _, _, r', hu', _, _⟩ := hi.dbl _ hm
    obtain ⟨r3, hu3, hb3⟩ := h3.dbl _ hm
    simp only at hu' hu3
    rw [hu'] at hu3; cases hu3
    obtain ⟨hle, h3e⟩ := inv3_erase h3 hm
    rw [blobLen_of hu'] at hle h3e
    simp only [hu', ok_bind]
    refine nov_bind (step_nov hc (inv_erase_double hi p q) h3e hb3 (by omega) (by omega)) (fun res _ => ?_)
    split
    · exact nov_pure _
    · exact nov_panic

theorem runActs_nov {M t T : Nat} {w : Nat → Store → Except Err Store} (hc : Cap M T) (hT : t ≤ T)
    (hwn : ∀ x s, Good s → Inv3 M t s → NOv (w x s))
    (hw3 : ∀ x s s', Good s → Inv3 M t s → w x s = .ok s' → Inv3 M t s') (hg : GoodKeep w)
    (root : Nat) : ∀ (l : List Act) (s : Store), Good s → Inv3 M t s → NOv (runActs w root l s) := by
  intro l
  induction l with
  | nil => intro s _ _; exact nov_pure _
  | cons a rest ih =>
    intro s hgood h3
    cases a with
    | rem p q =>
      simp only [runActs, walkStep_eq_remove, bind_assoc']
      refine nov_bind (removeStep_nov hc hgood.1 h3 hT) (fun res hrs => ?_)
      have hg1 := removeStep_good hrs hgood
      have h31 := removeStep_inv3 hrs hgood.1 h3
      obtain ⟨r0, s0⟩ := res
      cases r0 with
      | pop => exact ih _ hg1 h31
      | next nx =>
        cases nx with
        | none => exact ih _ hg1 h31
        | some x =>
          simp only [afterRemove]
          exact nov_bind (hwn x _ hg1 h31)
            (fun s1 hs1 => ih _ (hg x _ _ hg1 hs1) (hw3 x _ _ hg1 h31 hs1))
    | go a' b' =>
      simp only [runActs]
      split
      · exact nov_panic
      · exact nov_bind (hwn b' _ hgood h3)
          (fun s1 hs1 => ih _ (hg b' _ _ hgood hs1) (hw3 b' _ _ hgood h3 hs1))

theorem walkDoubles_nov {M t T : Nat} (hc : Cap M T) (hT : t ≤ T) : ∀ (f x : Nat) (s : Store),
    Good s → Inv3 M t s → NOv (walkDoubles f x s) := by
  intro f
  induction f with
  | zero => intro x s _ _; simp only [walkDoubles]; exact nov_fuel
  | succ f ih =>
    intro x s hgood h3
    rw [walkDoubles_acts]
    split
    · exact nov_panic
    · exact runActs_nov hc hT ih (fun x s s' a b c => walkDoubles_inv3 f x s s' a b c)
        (goodKeep_walkDoubles f) x _ s hgood h3

theorem add_nov {M t T : Nat} {r : Relation} {pq : Option (Nat × Nat)} {s : Store} (hc : Cap M T)
    (hi : Inv s) (hn : s.n ≤ X512) (hin : InputOK s.n r pq) (h3 : Inv3 M t s) (hb : RelB M r)
    (hT : t + r.cyclelen ≤ T) : NOv (add r pq s) := by
  obtain ⟨hrt, hrv, hrn, hpair⟩ := hin
  unfold add
  split
  · exact nov_debug
  · rename_i hx
    simp only [not_not] at hx
    split
    · exact addCycle_nov _ _
    · rename_i hc1
      split
      · have hi0 : Inv { s with nPartials := s.nPartials + 1 } := ⟨hi.cyc, hi.par, hi.dbl, hi.rev⟩
        have h30 : Inv3 M t { s with nPartials := s.nPartials + 1 } := inv3_of_lists h3 rfl rfl
        refine nov_bind (combineSingle_nov hc h30 hb (by omega) (by omega)) (fun res hres => ?_)
        have hk0 : Keeps s { s with nPartials := s.nPartials + 1 } := ⟨rfl, rfl, hi0⟩
        have hk1 : Keeps s res.2 := Keeps.trans hk0
          (combineSingle_keeps (done := res.1) (s' := res.2) hres hi0 hn hrt hrn hrv hx)
        have h31 := combineSingle_inv3 (done := res.1) (s' := res.2) hres h30 hrt hrn hb
        split
        · exact nov_pure _
        · refine nov_bind (pack_nov _) (fun b hpk => ?_)
          split
          · exact nov_panic
          · rename_i h32
            have hk2 : Keeps s (res.2.setPartial r.cofactor b) := by
              refine hk1.trans (keeps_setPartial hk1.2.2 hc1 (by omega) ?_)
              rw [hk1.1]
              exact goodP_of_pack hpk hrt hrn (lt_of_lt_of_le hx hn) hrv
            obtain ⟨r', e1, e2, e3⟩ := relB_pack hpk hrt hrn hb
            have h32' : Inv3 M (t + r.cyclelen) (res.2.setPartial r.cofactor b) :=
              inv3_setPartial (inv3_mono h31 (by omega)) _
                ⟨r', e1, by rw [e2]; have := h31.ds; omega, e3⟩
            exact walkDoubles_nov hc hT _ _ _ ⟨hk2.2.2, by rw [hk2.1]; exact hn⟩ h32'
      · split
        · exact nov_pure _
        · rename_i p q
          obtain ⟨hcof, hp1, hq1⟩ := hpair p q rfl
          split
          · exact nov_panic
          · rename_i h32
            have hp32 : p < W32 := by omega
            have hq32 : q < W32 := by omega
            have hi0 : Inv { s with nDoubles := s.nDoubles + 1 } := ⟨hi.cyc, hi.par, hi.dbl, hi.rev⟩
            have h30 : Inv3 M t { s with nDoubles := s.nDoubles + 1 } := inv3_of_lists h3 rfl rfl
            refine nov_bind ?_ (fun res _ => ?_)
            · rw [combineDouble_eq_step]
              refine nov_bind (step_nov hc hi0 h30 hb (by omega) (by omega)) (fun res0 hst => ?_)
              have h3s := step_inv3 hst hi0 hrt hrn hrv hcof hp1 hq1 hp32 hq32 h30 hb (Nat.le_refl _)
              obtain ⟨ok, nx, s2⟩ := res0
              cases nx with
              | none => exact nov_pure _
              | some x =>
                simp only [afterStep]
                have hcd : combineDouble idWalk r p q { s with nDoubles := s.nDoubles + 1 } = .ok (ok, s2) := by
                  rw [combineDouble_eq_step, hst]; rfl
                have hk2 := combineDouble_keeps idWalk_keeps hcd hi0 hn hrt hrn hrv hcof hp1 hq1 hp32 hq32
                exact nov_bind (walkDoubles_nov hc hT _ _ _ ⟨hk2.2.2, by rw [hk2.1]; exact hn⟩ h3s)
                  (fun _ _ => nov_pure _)
            · split
              · exact nov_pure _
              · exact nov_bind (pack_nov _) (fun _ _ => nov_pure _)

theorem runHistory_nov {M T : Nat} (hc : Cap M T) : ∀ (ops : List (Relation × Option (Nat × Nat)))
    (s : Store) (t : Nat), Inv s → s.n ≤ X512 → HistoryOK s.n ops →
    (∀ op ∈ ops, RelB M op.1 ∧ op.1.cyclelen = 1) → Inv3 M t s → t + ops.length ≤ T →
    NOv (runHistory ops s) := by
  intro ops
  induction ops with
  | nil => intro s t _ _ _ _ _ _; exact nov_pure _
  | cons op rest ih =>
    obtain ⟨r, pq⟩ := op
    intro s t hi hn hok hbs h3 hT
    have hin := hok (r, pq) List.mem_cons_self
    obtain ⟨hb, hl⟩ := hbs (r, pq) List.mem_cons_self
    simp only at hb hl
    simp only [List.length_cons] at hT
    unfold runHistory
    refine nov_bind (add_nov hc hi hn hin h3 hb (by rw [hl]; omega)) (fun s1 hs1 => ?_)
    have hk := add_keeps hs1 hi hn hin
    have h31 := add_inv3 hs1 hi hn hin h3 hb
    rw [hl] at h31
    exact ih s1 (t + 1) hk.2.2 (by rw [hk.1]; exact hn)
      (fun op hop => by rw [hk.1]; exact hok op (List.mem_cons_of_mem _ hop))
      (fun op hop => hbs op (List.mem_cons_of_mem _ hop)) h31 (by omega)

end Ymq.Relations
