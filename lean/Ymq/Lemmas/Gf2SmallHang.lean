/-
C14 "small", helper lemmas part 10 (Mathlib): a Lean link for the non-termination of `genblock`:
the Gram matrix tested by `genblock` is `Pᵗ·P` with `P = B·(ay)` (`ay = mul_aab_opt(b, y)`), hence
`rank(Gram) ≤ rank(B)`: with `rank(B) < 64` every block of EVERY stream is refused.
-/
import Ymq.Lemmas.Gf2Rank
import Ymq.Lemmas.Gf2Lanczos
import Ymq.Lemmas.Gf2SmallRank
import Ymq.Model.Gf2Genblock

namespace Ymq.Gf2Small
open Ymq.Gf2 Ymq.Gf2Genblock
open scoped Matrix

theorem toZ_xsum_map {α} (l : List α) (f : α → Bool) :
    toZ (xsum (l.map f)) = ∑ r : Fin l.length, toZ (f l[r.1]) := by
  rw [Fin.sum_univ_fun_getElem l (fun a => toZ (f a))]
  induction l with
  | nil => simp
  | cons a l ih => simp only [List.map_cons, xsum_cons, toZ_xor, ih, List.sum_cons]

theorem zip_self (l : List Nat) : List.zip l l = l.map (fun w => (w, w)) := by
  induction l with
  | nil => rfl
  | cons a l ih => simp [ih]

/-- the dense matrix of a sparse matrix given by its columns -/
def sparseMat (k : Nat) (cols : List (List Nat)) : Matrix (Fin k) (Fin cols.length) (ZMod 2) :=
  fun i j => toZ (colParity cols[j.1] i.1)

/-- a block (one word per row) as a matrix with 64 columns -/
def blockMat (blk : List Nat) : Matrix (Fin blk.length) (Fin 64) (ZMod 2) :=
  fun r t => toZ (blk[r.1].testBit t.1)

/-- the words of an array as a matrix with 64 columns -/
def cellMat (rhs : Array Nat) (n : Nat) : Matrix (Fin n) (Fin 64) (ZMod 2) :=
  fun j t => toZ ((cell rhs j.1).testBit t.1)

theorem vec_eq_toZ (n w : Nat) (j : Fin n) : vec n w j = toZ (w.testBit j) := rfl

/-- `&Block * &Block` of a block with itself is `Pᵗ·P` -/
theorem toMat_blockDot_self (bay g : List Nat) (h : blockDot bay bay = some g) :
    g.length = 64 ∧ toMat 64 g = (blockMat bay)ᵀ * blockMat bay ∧
    ((∀ w ∈ bay, w < 2 ^ 64) → ∀ i, i < 64 → row g i < 2 ^ 64) := by
  simp only [blockDot, if_true, Option.some.injEq] at h
  subst h
  have hrow : ∀ i, i < 64 → ∀ t, (row ((List.range 64).map (fun i =>
      (List.zip bay bay).foldl (fun acc p => if p.1.testBit i then acc ^^^ p.2 else acc) 0)) i).testBit t =
      xsum (bay.map (fun w => (w.testBit i && w.testBit t))) := by
    intro i hi t
    rw [row_map_range 64 _ hi, testBit_foldl_sel (List.zip bay bay) (fun p => p.1.testBit i) (fun p => p.2) 0 t,
      zip_self, List.map_map]
    simp [Function.comp_def]
  refine ⟨by simp, ?_, ?_⟩
  · funext i t
    rw [Matrix.mul_apply]
    show vec 64 _ t = _
    rw [vec_eq_toZ, hrow i.1 i.2 t.1, toZ_xsum_map]
    apply Finset.sum_congr rfl
    intro r _
    rw [toZ_and]
    rfl
  · intro hb i hi
    apply Nat.lt_pow_two_of_testBit
    intro t ht
    rw [hrow i hi t]
    apply xsum_eq_false_of_forall
    intro b hbm
    obtain ⟨w, hw, rfl⟩ := List.mem_map.mp hbm
    rw [testBit_of_lt_of_ge (hb w hw) ht, Bool.and_false]

theorem toZ_prodBitFrom (rhs : Array Nat) (i t : Nat) (cols : List (List Nat)) : ∀ j0,
    toZ (prodBitFrom rhs i t j0 cols) =
      ∑ j : Fin cols.length, toZ (colParity cols[j.1] i) * toZ ((cell rhs (j0 + j.1)).testBit t) := by
  induction cols with
  | nil => intro j0; simp [prodBitFrom]
  | cons col cols ih =>
    intro j0
    rw [prodBitFrom, toZ_xor, toZ_and, ih (j0 + 1)]
    refine Eq.trans ?_ (Fin.sum_univ_succ (fun j : Fin (cols.length + 1) =>
      toZ (colParity (col :: cols)[j.1] i) * toZ ((cell rhs (j0 + j.1)).testBit t))).symm
    congr 1
    apply Finset.sum_congr rfl
    intro j _
    simp only [Fin.val_succ, List.getElem_cons_succ]
    rw [show j0 + 1 + j.1 = j0 + (j.1 + 1) by omega]

theorem prodBitFrom_high (rhs : Array Nat) (i t : Nat) (cols : List (List Nat))
    (h : ∀ j, (cell rhs j).testBit t = false) : ∀ j0, prodBitFrom rhs i t j0 cols = false := by
  induction cols with
  | nil => intro j0; rfl
  | cons col cols ih => intro j0; rw [prodBitFrom, h, ih (j0 + 1)]; simp

/-- the product `B · ay` of the model is the matrix product, whatever `ay` is -/
theorem rank_optMul_le (k : Nat) (cols : List (List Nat)) (ay bay : List Nat)
    (hk : k ≤ U32) (hn : cols.length ≤ U32) (hwf : ∀ col ∈ cols, ∀ a ∈ col, a < k)
    (h : optMul (qsOptimize k cols) ay = some bay) :
    (blockMat bay).rank ≤ (sparseMat k cols).rank ∧
    ((∀ w ∈ ay, w < 2 ^ 64) → ∀ w ∈ bay, w < 2 ^ 64) := by
  obtain ⟨hy, hk64⟩ := optMul_some_inv k cols ay bay h
  obtain ⟨blk, hb, hlen, hbits⟩ := optMul_spec k cols ay hk64 hk hn hy hwf
  rw [h] at hb
  injection hb with hb
  subst hb
  subst hlen
  constructor
  · have hP : blockMat bay = sparseMat bay.length cols *
        cellMat ay.toArray cols.length := by
      funext r t
      rw [Matrix.mul_apply]
      show toZ (bay[r.1].testBit t.1) = _
      have := hbits r.1 t.1
      rw [List.getD_eq_getElem?_getD, List.getElem?_eq_getElem r.2] at this
      simp only [Option.getD_some, r.2, decide_true, Bool.true_and] at this
      rw [this, toZ_prodBitFrom]
      apply Finset.sum_congr rfl
      intro j _
      rw [Nat.zero_add]
      rfl
    rw [hP]
    exact Matrix.rank_mul_le_left _ _
  · intro hay w hw
    obtain ⟨r, hr, rfl⟩ := List.getElem_of_mem hw
    apply Nat.lt_pow_two_of_testBit
    intro t ht
    have := hbits r t
    rw [List.getD_eq_getElem?_getD, List.getElem?_eq_getElem hr] at this
    simp only [Option.getD_some] at this
    rw [this, prodBitFrom_high _ _ _ _ (fun j => ?_) 0, Bool.and_false]
    simp only [cell]
    cases hj : ay.toArray[j]? with
    | none => simp
    | some w' =>
      simp only [Option.getD_some]
      have hmem : w' ∈ ay := by
        have := Array.mem_of_getElem? hj
        simpa using this
      exact testBit_of_lt_of_ge (hay w' hmem) ht

theorem comb_lt (a : Nat) (B : Mat) (h : ∀ b ∈ B, b < 2 ^ 64) : ∀ k0, comb a B k0 < 2 ^ 64 := by
  induction B with
  | nil => intro k0; simp [comb]
  | cons b B ih =>
    intro k0
    rw [comb]
    apply Nat.xor_lt_two_pow
    · split
      · exact h b (by simp)
      · exact Nat.two_pow_pos 64
    · exact ih (fun b' hb' => h b' (by simp [hb'])) (k0 + 1)

theorem cell_lt_of (l : List Nat) (h : ∀ w ∈ l, w < 2 ^ 64) (i : Nat) : cell l.toArray i < 2 ^ 64 := by
  simp only [cell]
  cases hj : l.toArray[i]? with
  | none => simp
  | some w =>
    simp only [Option.getD_some]
    have := Array.mem_of_getElem? hj
    exact h w (by simpa using this)

/-- `mul_aab_opt` keeps 64-bit words -/
theorem mulAabOpt_lt (k : Nat) (cols : List (List Nat)) (y ay : List Nat)
    (hk : k ≤ U32) (hn : cols.length ≤ U32) (hwf : ∀ col ∈ cols, ∀ a ∈ col, a < k)
    (hy : ∀ w ∈ y, w < 2 ^ 64) (h : mulAabOpt (qsOptimize k cols) y = some ay) :
    ∀ w ∈ ay, w < 2 ^ 64 := by
  unfold mulAabOpt at h
  cases ht : optMul (qsOptimize k cols) y with
  | none => rw [ht] at h; cases h
  | some tmp =>
    rw [ht] at h
    simp only [] at h
    have htmp := (rank_optMul_le k cols y tmp hk hn hwf ht).2 hy
    cases ha : applyCoords tmp.toArray (List.map (fun p => (p.2, p.1)) (qsOptimize k cols).xy)
        (List.map (fun r => comb r (List.take 64 tmp) 0) (qsOptimize k cols).block).toArray with
    | none => rw [ha] at h; cases h
    | some out' =>
      rw [ha] at h
      simp only [Option.map_some, Option.some.injEq] at h
      subst h
      obtain ⟨_, hbits⟩ := applyCoords_spec _ _ _ _ ha
      intro w hw
      obtain ⟨i, hi, rfl⟩ := List.getElem_of_mem hw
      have hcell : out'.toList[i] = cell out' i := by
        simp only [cell]
        rw [Array.getElem?_eq_getElem (by simpa using hi)]
        simp
      rw [hcell]
      apply Nat.lt_pow_two_of_testBit
      intro t ht64
      rw [hbits i t]
      have h0 : (cell (List.map (fun r => comb r (List.take 64 tmp) 0) (qsOptimize k cols).block).toArray i).testBit t
          = false := by
        apply testBit_of_lt_of_ge _ ht64
        apply cell_lt_of
        intro w hw
        obtain ⟨r, _, rfl⟩ := List.mem_map.mp hw
        exact comb_lt r _ (fun b hb => htmp b (List.mem_of_mem_take hb)) 0
      rw [h0, Bool.false_xor]
      apply xsum_eq_false_of_forall
      intro b hb
      obtain ⟨c, _, rfl⟩ := List.mem_map.mp hb
      rw [testBit_of_lt_of_ge (cell_lt_of tmp htmp c.2) ht64, Bool.and_false]

/-- the Gram matrix tested by `genblock` has rank at most `rank B` -/
theorem gram_rank_le (k : Nat) (cols : List (List Nat)) (y g : List Nat)
    (hk : k ≤ U32) (hn : cols.length ≤ U32) (hwf : ∀ col ∈ cols, ∀ a ∈ col, a < k)
    (hy : ∀ w ∈ y, w < 2 ^ 64) (h : gramOf (qsOptimize k cols) y = some g) :
    (∀ i, i < 64 → row g i < 2 ^ 64) ∧ (toMat 64 g).rank ≤ (sparseMat k cols).rank := by
  unfold gramOf at h
  cases h1 : mulAabOpt (qsOptimize k cols) y with
  | none => rw [h1] at h; cases h
  | some ay =>
    rw [h1] at h
    simp only [] at h
    cases h2 : optMul (qsOptimize k cols) ay with
    | none => rw [h2] at h; cases h
    | some bay =>
      rw [h2] at h
      simp only [] at h
      have hay := mulAabOpt_lt k cols y ay hk hn hwf hy h1
      obtain ⟨hrank, hbay⟩ := rank_optMul_le k cols ay bay hk hn hwf h2
      obtain ⟨_, hmat, hlt⟩ := toMat_blockDot_self bay g h
      refine ⟨hlt (hbay hay), ?_⟩
      rw [hmat]
      exact Nat.le_trans (Matrix.rank_mul_le_right _ _) hrank

/-- Lean link for the hang: when `rank B < 64` the model of `genblock` refuses every block of every
stream (of 64-bit words) it does not panic on -/
theorem genblock_refuses_all (dbg : Bool) (k : Nat) (cols : List (List Nat)) (ys : List (List Nat))
    (hk : k ≤ U32) (hn : cols.length ≤ U32) (hwf : ∀ col ∈ cols, ∀ a ∈ col, a < k)
    (hrank : (sparseMat k cols).rank < 64)
    (hys : ∀ y ∈ ys, (∀ w ∈ y, w < 2 ^ 64) ∧ ∃ g, gramOf (qsOptimize k cols) y = some g) :
    ∀ y ∈ ys, ∃ g rk mk, gramOf (qsOptimize k cols) y = some g ∧ rank 64 dbg g = some (rk, mk) ∧ rk ≠ 64 := by
  intro y hy
  obtain ⟨hy64, g, hg⟩ := hys y hy
  obtain ⟨hlt, hle⟩ := gram_rank_le k cols y g hk hn hwf hy64 hg
  obtain ⟨rk, mk, hr, hF⟩ := rank_spec_aux dbg hlt
  refine ⟨g, rk, mk, hg, hr, ?_⟩
  have := hF.matrix_rank
  omega

/-- `gramOf` does not panic on a well-formed matrix with at least 64 rows and a block of the right length -/
theorem gramOf_total (k : Nat) (cols : List (List Nat)) (y : List Nat) (hk64 : 64 ≤ k)
    (hk : k ≤ U32) (hn : cols.length ≤ U32) (hwf : ∀ col ∈ cols, ∀ a ∈ col, a < k)
    (hy : y.length = cols.length) : ∃ g, gramOf (qsOptimize k cols) y = some g := by
  obtain ⟨tmp, ht, htl, _⟩ := optMul_spec k cols y hk64 hk hn hy hwf
  obtain ⟨out', ha⟩ := applyCoords_some tmp.toArray (List.map (fun p => (p.2, p.1)) (qsOptimize k cols).xy)
    (List.map (fun r => comb r (List.take 64 tmp) 0) (qsOptimize k cols).block).toArray (by
      intro c hc
      obtain ⟨p, hp, rfl⟩ := List.mem_map.mp hc
      have := mem_coordsFrom 0 k cols hk (by omega) hwf p hp
      simp only [qsOptimize, List.size_toArray, List.length_map, htl]
      omega)
  have hsize := (applyCoords_spec _ _ _ _ ha).1
  have hay : mulAabOpt (qsOptimize k cols) y = some out'.toList := by
    unfold mulAabOpt; rw [ht]; simp only []; rw [ha]; rfl
  have hayl : out'.toList.length = cols.length := by
    simp only [Array.length_toList, hsize, qsOptimize, List.size_toArray, List.length_map]
  obtain ⟨bay, hb, _, _⟩ := optMul_spec k cols out'.toList hk64 hk hn hayl hwf
  unfold gramOf
  rw [hay]; simp only []; rw [hb]; simp only [blockDot, if_true]
  exact ⟨_, rfl⟩

end Ymq.Gf2Small
