/-
C09 — multiprecision gcd and modular inverse are exact, with valid Bezout cofactors.
Only property theorems live here (helper lemmas: Ymq/Lemmas/Gcd*.lean).
The model (Ymq/Model/Gcd.lean) returns `none` wherever the real code panics in the checked
profile (overflow of i64 / BUint / BInt arithmetic, index out of range, assertion) or where the
fuel of a loop runs out.
-/
import Ymq.Lemmas.GcdLoop
import Ymq.Lemmas.GcdReduceInv
import Ymq.Lemmas.GcdTerm
import Ymq.Lemmas.GcdOne
import Ymq.Lemmas.GcdInv
import Ymq.Lemmas.GcdTotal
import Ymq.Lemmas.GcdCof

namespace Ymq.C09
open Ymq.Gcd

/-- a unimodular integer matrix applied to `(x, y)` preserves the gcd (one Lehmer step, one
quotient step: every step of `gcd_internal` has this shape). -/
theorem step_gcd (a b c d : Int) (x y : Nat) (hdet : a * d - b * c = 1 ∨ a * d - b * c = -1) :
    Nat.gcd (a * x + b * y).natAbs (c * x + d * y).natAbs = Nat.gcd x y :=
  nat_gcd_unimodular a b c d x y hdet

example : (2 : Int) * 3 - 5 * 1 = 1 ∧
    Nat.gcd ((2 : Int) * (12 : Nat) + 5 * (18 : Nat)).natAbs ((1 : Int) * (12 : Nat) + 3 * (18 : Nat)).natAbs
      = Nat.gcd 12 18 := by decide

/-- `reduce64(x, y)` for **all** pairs of 64-bit words (no precondition is needed): no panic (no i64
overflow, no failing debug assertion, the loop ends within 70 iterations), the returned matrix
satisfies `a x + b y = u`, `c x + d y = v` for the final `(u, v)` of the loop, which are not larger
than the inputs, `a d - b c = ±1`, and every entry is bounded by `2^36` in absolute value (the
code's debug assertions; in fact the bound is strict). -/
theorem reduce64_inv (x y : Nat) (hx : x < 2 ^ 64) (hy : y < 2 ^ 64) :
    ∃ (a b c d : Int) (u v : Nat), reduce64 x y = some (a, b, c, d) ∧
      a * x + b * y = u ∧ c * x + d * y = v ∧ u ≤ max x y ∧ v ≤ max x y ∧
      (a * d - b * c = 1 ∨ a * d - b * c = -1) ∧
      a.natAbs ≤ 2 ^ 36 ∧ b.natAbs ≤ 2 ^ 36 ∧ c.natAbs ≤ 2 ^ 36 ∧ d.natAbs ≤ 2 ^ 36 := by
  obtain ⟨a, b, c, d, u, v, hr, hinv, _⟩ := reduce64_spec x y (by rw [W_eq]; exact hx) (by rw [W_eq]; exact hy)
  refine ⟨a, b, c, d, u, v, hr, hinv.relu, hinv.relv, ?_, ?_, hinv.det, ?_, ?_, ?_, ?_⟩
  · rcases hinv.phase with ⟨_, _, _, _, rfl, rfl⟩ | ⟨_, _, _, _, rfl, rfl, _⟩ | ⟨h1, h2, _⟩ <;> omega
  · rcases hinv.phase with ⟨_, _, _, _, rfl, rfl⟩ | ⟨_, _, _, _, rfl, rfl, _⟩ | ⟨h1, h2, _⟩ <;> omega
  all_goals
    first
    | (have h := hinv.ba; rw [Int.abs_eq_natAbs] at h; omega)
    | (have h := hinv.bb; rw [Int.abs_eq_natAbs] at h; omega)
    | (have h := hinv.bc; rw [Int.abs_eq_natAbs] at h; omega)
    | (have h := hinv.bd; rw [Int.abs_eq_natAbs] at h; omega)

example : reduce64 18446744073709551615 12345678901234567 =
    some (-3133215, 4681606876, 11521471, -17215223933) := by decide +kernel

/-- `gcd_internal::<N, EXT>` (partial correctness, all operands, every fuel): whenever the loop
returns, `d = gcd(n, p)` and, in the extended variant, `u*n + v*p = d` over the integers.
No bound on the operands is needed: every arithmetic overflow is a panic site of the model, and the
only silent wrap (`BInt::cast_from(q)` of a quotient `>= 2^(64N-1)`) can only happen when `y = 1`,
where the wrapped row has value 0 and is never used.
(`gcdLoop N K` : `K` = width of the `BInt` cofactors, the real code is `K = N`, and
`gcdInternal N ext n p = gcdLoop N N ext (gcdFuel N) (initSt n p)`.) -/
theorem gcd_internal_spec (N : Nat) (hN : 0 < N) (ext : Bool) (fuel n p d : Nat) (u v : Int)
    (h : gcdLoop N N ext fuel (initSt n p) = some (d, u, v)) :
    d = Nat.gcd n p ∧ (ext = true → u * n + v * p = d) :=
  gcdLoop_spec hN fuel _ d u v h (GInv_init ext n p)

example : gcdLoop 16 16 true 10 (initSt 1234567890123456789012345678901234567890
      9876543210987654321098765432109876543210) = some (90000000009000000000900000000090, -8, 1) := by
  decide +kernel

/-- termination of `gcd_internal` with an explicit fuel bound: for operands that are values of
`BUint<N>`, running the loop with more than `3 (bits n + bits p) + 1` units of fuel gives the same
result as running it with exactly that much — so with that fuel (and with the fuel
`gcdFuel N = 384 N + 3` used by `gcdInternal`, which is larger) the model never returns `none` for
lack of fuel: `none` can only be a panic site. Reason: every iteration that continues shrinks the
product `x * y` by a factor `3/4` at least (quotient steps: `1/2`; Lehmer steps: analysis of
`reduce64` on the top words). -/
theorem gcd_terminates (N : Nat) (ext : Bool) (n p : Nat) (hn : n < 2 ^ (64 * N)) (hp : p < 2 ^ (64 * N))
    (f : Nat) (hf : 3 * (bits n + bits p) + 1 ≤ f) :
    gcdLoop N N ext f (initSt n p) = gcdLoop N N ext (3 * (bits n + bits p) + 1) (initSt n p) ∧
    3 * (bits n + bits p) + 1 ≤ gcdFuel N :=
  ⟨gcdLoop_fuel hn hp f hf, gcdFuel_ge hn hp⟩

example : (12345678901234567890 : Nat) < 2 ^ (64 * 4) ∧ 3 * (bits 12345678901234567890 + bits 987654321) + 1 = 283 ∧
    gcdFuel 4 = 1539 := by decide +kernel

/-- `big_gcd::<N>` returns the gcd (including zero operands) whenever it returns. -/
theorem big_gcd_spec (N : Nat) (hN : 0 < N) (n p d : Nat) (h : bigGcd N n p = some d) :
    d = Nat.gcd n p := by
  unfold bigGcd at h
  split at h
  · rename_i hp; simp at h; subst h; subst hp; simp
  · split at h
    · rename_i hn; simp at h; subst h; subst hn; simp
    · split at h
      · simp at h
      · rename_i d' u v hg
        simp at h; subst h
        exact (gcd_internal_spec N hN false _ n p _ u v hg).1

example : bigGcd 8 (2 ^ 300 * 3) (2 ^ 200 * 9) = some (2 ^ 200 * 3) := by decide +kernel

/-- `mulword::<N>(w, sz, n)`: the index `nd[sz]` (and `nd[i]`, `i < sz`) is in range and the result
is the exact product whenever `sz <= N`, the operand fits in its `sz` low words and either a free
word is left for the carry (`sz < N`) or the product fits in `sz` words — the situation of
`dot_product` inside `gcd_internal`, where `n < 2^bits`, `w < 2^36`, `bits + 36 < 64 N`. -/
theorem mulword_no_panic (N w sz n : Nat) (hsz : sz ≤ N) (hn : n < (2 ^ 64) ^ sz)
    (h : sz < N ∨ n * w < (2 ^ 64) ^ sz) : mulword N w sz n = some (w * n) := by
  rw [← W_eq] at hn h
  obtain ⟨r, hr⟩ := mulword_total (N := N) (w := w) hsz hn h
  rw [hr, mulword_some hr hn]

example : mulword 2 5 2 (2 ^ 100) = some (5 * 2 ^ 100) ∧ mulword 2 (2 ^ 40) 2 (2 ^ 100) = none := by
  decide +kernel

/-- `no_panic`, non-extended variant (`big_gcd`, hence `ZmodN::gcd`): on the whole of `BUint<N>`
(no bound below the type width is needed), including operands within 36 bits of the type width
(quotient fallback), operands with a small top word, the `mulword` index, the `BUint` addition in
`dot_product`, every i64 operation and debug assertion of `reduce64`, `top64`, and fuel: `big_gcd`
returns, and what it returns is the gcd. The extended variant is `no_panic_ext`. -/
theorem no_panic (N : Nat) (hN : 0 < N) (n p : Nat) (hn : n < 2 ^ (64 * N)) (hp : p < 2 ^ (64 * N)) :
    bigGcd N n p = some (Nat.gcd n p) := by
  have hd : ∃ d, bigGcd N n p = some d := by
    unfold bigGcd
    split
    · exact ⟨_, rfl⟩
    · split
      · exact ⟨_, rfl⟩
      · obtain ⟨⟨d, u, v⟩, hr⟩ := gcdInternal_noext_total (N := N) hn hp
        rw [hr]; exact ⟨_, rfl⟩
  obtain ⟨d, hd⟩ := hd
  rw [hd, big_gcd_spec N hN n p d hd]

example : ((2 ^ 1018 + 12345) * 35 : Nat) < 2 ^ (64 * 16) ∧ bigGcd 16 ((2 ^ 1018 + 12345) * 35) ((2 ^ 1000 + 15) * 35) = some 35 := by
  decide +kernel

/-- Outside the domain of `no_panic_ext`, on the whole of `BUint<N>`: the only panic sites the
extended variant can reach are the `BInt` range checks on the cofactors. The model's loop takes the
width `K` (in words) of the `BInt` cofactors as a separate parameter (the real code is `K = N`); for
every pair of `BUint<N>` operands there is a width `K` for which `gcd_internal::<N, true>` returns the
gcd with valid Bezout cofactors — so the `mulword` index, the `BUint` operations, `top64`,
`reduce64`, the i64 `extended_gcd` and the fuel are never the reason of a panic, for any operands. -/
theorem no_panic_ext_any_width (N : Nat) (hN : 0 < N) (n p : Nat) (hn : n < 2 ^ (64 * N)) (hp : p < 2 ^ (64 * N)) :
    ∃ (K d : Nat) (u v : Int), gcdLoop N K true (gcdFuel N) (initSt n p) = some (d, u, v) ∧
      d = Nat.gcd n p ∧ u * n + v * p = d := by
  obtain ⟨K, ⟨d, u, v⟩, hr⟩ := gcdLoop_ext_exists hN (n := n) (p := p) hn hp
  obtain ⟨h1, h2⟩ := gcdLoop_spec hN _ _ d u v hr (GInv_init true n p)
  exact ⟨K, d, u, v, hr, h1, h2 rfl⟩

example : gcdInternal 4 true 1234567890123456789012345678901234567890 987654321098765432109876543210 =
    gcdLoop 4 4 true (gcdFuel 4) (initSt 1234567890123456789012345678901234567890 987654321098765432109876543210) :=
  rfl

/-- `no_panic`, extended variant with the real cofactor width: for operands below `2^(64N-12)`
(1012 bits for N = 16, 500 bits for N = 8, 244 bits for N = 4 — exactly the supported range of the
property) `gcd_internal::<N, true>` never panics: no `BInt<N>` cofactor operation overflows (nor any
other site), and it returns the gcd with valid Bezout cofactors.
Invariant behind it (Ymq/Lemmas/GcdCof.lean): in every loop state, (cofactors of the larger value) *
(smaller value) `<= 1023 * max(n, p)`; the determinant identity `x*C = A*y -+ p` then bounds every
product formed by the quotient step, the Lehmer step and the final i64 `extended_gcd` combination
by `2047 * max(n, p) < 2^(64N-1)`. The constant is not far from reality: intermediate products of
about `50 * max(n, p)` do occur, see `no_panic_ext_domain_sharp`. -/
theorem no_panic_ext (N : Nat) (hN : 0 < N) (n p : Nat) (hn : n < 2 ^ (64 * N - 12))
    (hp : p < 2 ^ (64 * N - 12)) :
    ∃ (d : Nat) (u v : Int), gcdInternal N true n p = some (d, u, v) ∧
      d = Nat.gcd n p ∧ u * n + v * p = d := by
  obtain ⟨d, u, v, hr, _⟩ := gcdInternal_ext_total hN hn hp
  have hr' := hr
  unfold gcdInternal at hr'
  obtain ⟨h1, h2⟩ := gcdLoop_spec hN _ _ d u v hr' (GInv_init true n p)
  exact ⟨d, u, v, hr, h1, h2 rfl⟩

example : (2 ^ 243 + 12345 : Nat) < 2 ^ (64 * 4 - 12) ∧
    ∃ u v, gcdInternal 4 true (2 ^ 243 + 12345) (2 ^ 240 + 77) = some (1, u, v) := by
  refine ⟨by decide, ?_⟩
  obtain ⟨d, u, v, h, hd, _⟩ := no_panic_ext 4 (by decide) (2 ^ 243 + 12345) (2 ^ 240 + 77)
    (by decide) (by decide)
  have : d = 1 := by rw [hd]; decide +kernel
  subst this
  exact ⟨u, v, h⟩

/-- the domain of `no_panic_ext` cannot be extended to `64N - 6` bits: for N = 4 this pair of 250-bit
operands makes the `BInt<4>` cofactor arithmetic of the final `<64`-bit combination overflow (model:
`none`; real code: panic "attempt to multiply with overflow" in the checked profile, a correct
result in the release profile, where the wrapped products cancel). Between `64N - 11` and `64N - 7`
bits the question is open (no panic found by the runs). -/
theorem no_panic_ext_domain_sharp :
    (1685388928722287561573468839125071511021812907006236161640012683817539665347 : Nat) < 2 ^ (64 * 4 - 6) ∧
    (1724353979614899190960037120248823706984006128851863788760191301092522462335 : Nat) < 2 ^ (64 * 4 - 6) ∧
    gcdInternal 4 true 1685388928722287561573468839125071511021812907006236161640012683817539665347
      1724353979614899190960037120248823706984006128851863788760191301092522462335 = none := by
  decide +kernel

/-- `inv_mod::<N>(n, p)` never panics for a non-zero modulus and operands below `2^(64N-12)`
(what it returns is described by `inv_mod_spec`). -/
theorem inv_mod_no_panic (N : Nat) (hN : 0 < N) (n p : Nat) (hp0 : p ≠ 0)
    (hn : n < 2 ^ (64 * N - 12)) (hp : p < 2 ^ (64 * N - 12)) : ∃ r, invMod N n p = some r := by
  unfold invMod
  rw [if_neg hp0]
  split
  · split <;> exact ⟨_, rfl⟩
  · obtain ⟨d, u, v, hr, hu⟩ := gcdInternal_ext_total hN hn hp
    rw [hr]
    simp only
    split
    · exact ⟨_, rfl⟩
    · split
      · have hd := (Dom_of_lt hN hn hp).L
        rw [chkB_of_abs hd (by rw [abs_neg]; linarith)]
        exact ⟨_, rfl⟩
      · exact ⟨_, rfl⟩

/-- `inv_mod::<N>(n, p)` for every `n` and every modulus `p` (`p = 0` is refused by the assertion:
the model returns `none`): whenever it returns,
* `Ok(x)`: `x < p` and `n * x ≡ 1 (mod p)` (for `p = 1` this reads `x = 0`);
* `Err(d)`: `d = gcd(n, p)` and `d ≠ 1` (for `n = 0`, `p ≠ 1` the gcd is `p`).
On the pinned tree `inv_mod(0, 1)` returned `Err(1)`, violating the second clause (and the doc
comment "Err(gcd) if gcd > 1"); repaired by the `fix:` commit 370d025 in /repo, which the model
follows. The case `p = 1`, `n > 0` needs the sign of the cofactor: `gcdLoop_one_nonneg`. -/
theorem inv_mod_spec (N : Nat) (hN : 0 < N) (n p : Nat) (r : InvRes)
    (h : invMod N n p = some r) :
    match r with
    | .ok x => x < p ∧ n * x % p = 1 % p
    | .err d => d = Nat.gcd n p ∧ d ≠ 1 := by
  by_cases hp2 : 2 ≤ p
  · exact invMod_spec_ge2 N hN n p hp2 r h
  · have hp : p = 0 ∨ p = 1 := by omega
    rcases hp with rfl | rfl
    · simp [invMod] at h
    · unfold invMod at h
      rw [if_neg (by omega)] at h
      split at h
      · simp at h; subst h; simp
      · rename_i hn0
        split at h
        · simp at h
        · rename_i d u v hg
          have hd := (gcdLoop_spec hN _ _ d u v hg (GInv_init true n 1)).1
          have hu := gcdLoop_one_nonneg hN (Nat.pos_of_ne_zero hn0) _ d u v hg
          rw [Nat.gcd_one_right] at hd
          rw [if_neg (by omega), if_neg (by omega)] at h
          simp at h; subst h
          simp [Nat.mod_one]

example : invMod 8 3 7 = some (.ok 5) ∧ invMod 8 6 9 = some (.err 3) ∧ invMod 8 0 9 = some (.err 9) ∧
    invMod 8 0 1 = some (.ok 0) ∧ invMod 8 5 1 = some (.ok 0) := by
  decide +kernel

end Ymq.C09
