/-
Specifications of the helper routines of the group-order methods (C16): chebyshev_modn (Lucas
ladder), exp_modn (3-bit windows), gcd_factors, the return guards of rho64.
Models: Ymq/Model/ExpModn.lean.
-/
import Ymq.Model.ExpModn
import Ymq.Lemmas.Stage2Algebra
import Mathlib.Tactic.IntervalCases

namespace Ymq.ExpModn
open Ymq.Stage2 Ymq.Gen

/-! ### chebyshev_modn -/

theorem chebLoop_spec {R : Type*} [CommRing R] (g : R) (k expbits : Nat) : ∀ (f j : Nat), j + f + 1 ≤ expbits →
    chebLoop (· * ·) (· - ·) (2 : R) g k expbits f (j + 1)
        (chebV g (k / 2 ^ (expbits - j)), chebV g (k / 2 ^ (expbits - j) + 1)) =
      (chebV g (k / 2 ^ (expbits - (j + f))), chebV g (k / 2 ^ (expbits - (j + f)) + 1))
  | 0, j, _ => by simp [chebLoop]
  | f + 1, j, h => by
    have e1 : expbits - j = (expbits - (j + 1)) + 1 := by omega
    have hdiv : k / 2 ^ (expbits - j) = k / 2 ^ (expbits - (j + 1)) / 2 := by
      rw [e1, pow_succ, Nat.div_div_eq_div_mul]
    have ih := chebLoop_spec g k expbits f (j + 1) (by omega)
    have e2 : j + (f + 1) = j + 1 + f := by omega
    rw [chebLoop, e2, ← ih, hdiv]
    generalize k / 2 ^ (expbits - (j + 1)) = K
    have hK := Nat.div_add_mod K 2
    congr 1
    rcases Nat.mod_two_eq_zero_or_one K with h0 | h1
    · have hK2 : K = 2 * (K / 2) := by omega
      rw [if_pos h0, Prod.mk.injEq]
      constructor
      · show chebV g (K / 2) * chebV g (K / 2) - 2 = chebV g K
        rw [← chebV_double, ← hK2]
      · show chebV g (K / 2) * chebV g (K / 2 + 1) - g = chebV g (K + 1)
        rw [← chebV_double_add_one, ← hK2]
    · have hK2 : K = 2 * (K / 2) + 1 := by omega
      have hK3 : K + 1 = 2 * (K / 2 + 1) := by omega
      rw [if_neg (by omega), Prod.mk.injEq]
      constructor
      · show chebV g (K / 2) * chebV g (K / 2 + 1) - g = chebV g K
        rw [← chebV_double_add_one, ← hK2]
      · show chebV g (K / 2 + 1) * chebV g (K / 2 + 1) - 2 = chebV g (K + 1)
        rw [hK3, chebV_double]

theorem bitlen_spec {k : Nat} (hk : k ≠ 0) : k < 2 ^ bitlen k ∧ 1 ≤ bitlen k := by
  unfold bitlen
  rw [if_neg hk]
  exact ⟨Nat.lt_log2_self, by omega⟩

theorem chebyshevModn_eq {R : Type*} [CommRing R] (g : R) (k : Nat) :
    chebyshevModn (· * ·) (· - ·) 2 g ((Stage2Arms.chebZero : Nat) : R) k = chebV g k := by
  unfold chebyshevModn
  by_cases hk : k = 0
  · subst hk
    delta Stage2Arms.chebZero
    simp [chebV]
  · rw [if_neg hk]
    obtain ⟨hlt, hb1⟩ := bitlen_spec hk
    set eb := bitlen k with heb
    have h0 : k / 2 ^ (eb - 0) = 0 := by simp [Nat.div_eq_of_lt hlt]
    have hloop := chebLoop_spec g k eb (eb - 1) 0 (by omega)
    rw [h0] at hloop
    have e1 : (0 : Nat) + 1 = 1 := rfl
    have e2 : eb - (0 + (eb - 1)) = 1 := by omega
    rw [e2, pow_one] at hloop
    simp only [chebV, e1] at hloop
    simp only [hloop]
    have hK := Nat.div_add_mod k 2
    rcases Nat.mod_two_eq_zero_or_one k with h0' | h1'
    · rw [if_pos h0']
      have : k = 2 * (k / 2) := by omega
      show chebV g (k / 2) * chebV g (k / 2) - 2 = chebV g k
      rw [← chebV_double, ← this]
    · rw [if_neg (by omega)]
      have : k = 2 * (k / 2) + 1 := by omega
      show chebV g (k / 2) * chebV g (k / 2 + 1) - g = chebV g k
      rw [← chebV_double_add_one, ← this]

/-! ### return guards -/

theorem guard_spec {n x a b : Nat} (h : guard n (Nat.gcd n x) = some (a, b)) :
    a * b = n ∧ 1 < a ∧ a < n ∧ 1 < b := by
  unfold guard at h
  split at h
  · rename_i hc
    simp only [Option.some.injEq, Prod.mk.injEq] at h
    obtain ⟨rfl, rfl⟩ := h
    have hd : Nat.gcd n x ∣ n := Nat.gcd_dvd_left n x
    have hmul : Nat.gcd n x * (n / Nat.gcd n x) = n := Nat.mul_div_cancel' hd
    refine ⟨hmul, hc.1, hc.2, ?_⟩
    generalize n / Nat.gcd n x = q at hmul ⊢
    generalize Nat.gcd n x = d at hmul hc
    by_contra hcon
    have : q = 0 ∨ q = 1 := by omega
    rcases this with rfl | rfl
    · omega
    · omega
  · exact absurd h (by simp)

theorem rhoStep_inl {n ninv c e2 : Nat} {s : RhoState} {r : Nat × Nat}
    (h : rhoStep n ninv c s e2 = some (.inl r)) : ∃ x, guard n (Nat.gcd n x) = some r := by
  unfold rhoStep at h
  simp only [Option.bind_eq_bind] at h
  cases hsq : Mg64.mgMul n ninv s.x2 s.x2 with
  | none => simp [hsq] at h
  | some sq =>
    simp only [hsq, Option.bind_some] at h
    split at h
    · exact absurd h (by simp)
    · split at h
      · exact absurd h (by simp)
      · cases hp : Mg64.mgMul n ninv s.prod (absDiff s.x1 (sq + c)) with
        | none => simp [hp] at h
        | some pn =>
          simp only [hp, Option.bind_some] at h
          split at h
          · rename_i r1 hr1
            simp only [Option.some.injEq, Sum.inl.injEq] at h
            subst h
            split at hr1
            · exact ⟨_, hr1⟩
            · exact absurd hr1 (by simp)
          · split at h
            · rename_i r2 hr2
              simp only [Option.some.injEq, Sum.inl.injEq] at h
              subst h
              split at hr2
              · exact ⟨_, hr2⟩
              · exact absurd hr2 (by simp)
            · split at h
              · split at h <;> exact absurd h (by simp)
              · exact absurd h (by simp)

theorem rhoLoop_some {n ninv c iters : Nat} {r : Nat × Nat} : ∀ (f e2 : Nat) (s : RhoState),
    rhoLoop n ninv c iters f e2 s = some (some r) → ∃ x, guard n (Nat.gcd n x) = some r
  | 0, _, s, h => by
    simp only [rhoLoop, Option.some.injEq] at h; exact ⟨_, h⟩
  | f + 1, e2, s, h => by
    rw [rhoLoop] at h
    split at h
    · simp only [Option.some.injEq] at h; exact ⟨_, h⟩
    · split at h
      · exact absurd h (by simp)
      · rename_i r' hstep
        simp only [Option.some.injEq] at h
        subst h
        exact rhoStep_inl hstep
      · exact rhoLoop_some f _ _ h

theorem rho64_spec {n c iters a b : Nat} (h : rho64 n c iters = some (some (a, b))) :
    a * b = n ∧ 1 < a ∧ a < n ∧ 1 < b := by
  unfold rho64 at h
  simp only [Option.bind_eq_bind] at h
  cases hi : Mg64.mg2adicInv n with
  | none => simp [hi] at h
  | some ninv =>
    simp only [hi, Option.bind_some] at h
    obtain ⟨x, hx⟩ := rhoLoop_some _ _ _ h
    exact guard_spec hx

/-! ### gcd_factors -/

theorem findFactors_spec (G : Nat → Nat) (pp : Nat → Bool) : ∀ (fuel lo len : Nat) (acc : List Nat),
    1 ≤ len → len < fuel →
    (∀ i j, lo ≤ i → i ≤ j → j ≤ lo + len - 1 → G i ∣ G j) → (∀ i, lo ≤ i → i ≤ lo + len - 1 → 0 < G i) →
    ∃ facs, findFactors G pp fuel lo len (G lo) (G (lo + len - 1)) acc = some (acc ++ facs) ∧
      facs.prod * G lo = G (lo + len - 1) ∧ (∀ f ∈ facs, 1 < f) ∧
      ∀ f ∈ facs, pp f = true ∨ ∃ j, lo ≤ j ∧ j + 1 ≤ lo + len - 1 ∧ f * G j = G (j + 1)
  | 0, _, _, _, _, h, _, _ => by omega
  | f + 1, lo, len, acc, hlen, hfuel, hchain, hpos => by
    rw [findFactors]
    by_cases heq : G lo = G (lo + len - 1)
    · rw [if_pos heq]
      exact ⟨[], by simp, by simpa using heq, by simp, by simp⟩
    · rw [if_neg heq]
      have hp1 : 0 < G lo := hpos lo (Nat.le_refl _) (by omega)
      have hdvd : G lo ∣ G (lo + len - 1) := hchain lo (lo + len - 1) (Nat.le_refl _) (by omega) (Nat.le_refl _)
      have hp2 : 0 < G (lo + len - 1) := hpos _ (by omega) (Nat.le_refl _)
      rw [if_neg (by omega)]
      have hmul : G (lo + len - 1) / G lo * G lo = G (lo + len - 1) := Nat.div_mul_cancel hdvd
      have hgt : G (lo + len - 1) > G lo := by
        obtain ⟨c, hc⟩ := hdvd
        rcases c with _ | _ | c
        · rw [hc] at hp2; simp at hp2
        · rw [hc] at heq; simp at heq
        · rw [hc]; have : G lo * (c + 1 + 1) = G lo * c + 2 * G lo := by ring
          omega
      have hpgt : 1 < G (lo + len - 1) / G lo := by
        generalize G (lo + len - 1) / G lo = q at hmul
        by_contra hcon
        have : q = 0 ∨ q = 1 := by omega
        rcases this with rfl | rfl
        · omega
        · omega
      have hassert : ¬ ¬ (G (lo + len - 1) > G lo ∧ G (lo + len - 1) = G (lo + len - 1) / G lo * G lo) :=
        not_not.mpr ⟨hgt, hmul.symm⟩
      simp only [if_neg hassert]
      by_cases hstop : (pp (G (lo + len - 1) / G lo) || decide (len ≤ 2)) = true
      · rw [if_pos hstop]
        refine ⟨[G (lo + len - 1) / G lo], rfl, by simpa using hmul, by simpa using hpgt, ?_⟩
        intro f hf
        simp only [List.mem_singleton] at hf
        subst hf
        simp only [Bool.or_eq_true, decide_eq_true_eq] at hstop
        rcases hstop with h | h
        · exact Or.inl h
        · right
          have hlen2 : len = 2 := by
            by_contra hne
            have : len = 1 := by omega
            subst this
            simp at heq
          subst hlen2
          exact ⟨lo, Nat.le_refl _, by omega, by simpa using hmul⟩
      · rw [if_neg hstop]
        have hlen3 : 3 ≤ len := by
          simp only [Bool.or_eq_true, decide_eq_true_eq, not_or] at hstop; omega
        have hmid := Nat.div_add_mod len 2
        have hmidlt : len % 2 < 2 := Nat.mod_lt _ (by decide)
        -- left half: vals[lo ..= lo+mid]
        have e1 : lo + (len / 2 + 1) - 1 = lo + len / 2 := by omega
        obtain ⟨facs1, hf1, hprod1, hgt1, hsep1⟩ := findFactors_spec G pp f lo (len / 2 + 1) acc (by omega) (by omega)
          (fun i j hi hij hj => hchain i j hi hij (by omega)) (fun i hi hj => hpos i hi (by omega))
        rw [e1] at hf1 hprod1 hsep1
        -- right half: vals[lo+mid ..]
        have e2 : lo + len / 2 + (len - len / 2) - 1 = lo + len - 1 := by omega
        obtain ⟨facs2, hf2, hprod2, hgt2, hsep2⟩ := findFactors_spec G pp f (lo + len / 2) (len - len / 2) (acc ++ facs1)
          (by omega) (by omega)
          (fun i j hi hij hj => hchain i j (by omega) hij (by omega)) (fun i hi hj => hpos i (by omega) (by omega))
        rw [e2] at hf2 hprod2 hsep2
        simp only [hf1, hf2]
        refine ⟨facs1 ++ facs2, by simp [List.append_assoc], ?_, ?_, ?_⟩
        · rw [List.prod_append, ← hprod2, ← hprod1]; ring
        · intro x hx
          rcases List.mem_append.mp hx with h | h
          · exact hgt1 x h
          · exact hgt2 x h
        · intro x hx
          rcases List.mem_append.mp hx with h | h
          · rcases hsep1 x h with hp | ⟨j, h1, h2, h3⟩
            · exact Or.inl hp
            · exact Or.inr ⟨j, h1, by omega, h3⟩
          · rcases hsep2 x h with hp | ⟨j, h1, h2, h3⟩
            · exact Or.inl hp
            · exact Or.inr ⟨j, by omega, h2, h3⟩

theorem divAll_spec : ∀ (facs : List Nat) (n : Nat), (∀ f ∈ facs, 0 < f) → divAll n facs = some (n / facs.prod)
  | [], n, _ => by simp [divAll]
  | f :: fs, n, h => by
    have hf : 0 < f := h f (List.mem_cons_self ..)
    rw [divAll, if_neg (by omega), divAll_spec fs (n / f) (fun x hx => h x (List.mem_cons_of_mem _ hx)),
      List.prod_cons, Nat.div_div_eq_div_mul]

theorem gcdFactors_spec (n : Nat) (vals : List Nat) (pp : Nat → Bool) (hn : 0 < n) (hne : vals ≠ [])
    (hchain : ∀ i j, i ≤ j → j < vals.length → Nat.gcd n (vals.getD i 0) ∣ Nat.gcd n (vals.getD j 0)) :
    ∃ facs rest, gcdFactors n vals pp = some (facs, rest) ∧
      facs.prod * Nat.gcd n (vals.getD 0 0) = Nat.gcd n (vals.getD (vals.length - 1) 0) ∧
      facs.prod * rest = n ∧ (∀ f ∈ facs, 1 < f) ∧
      ∀ f ∈ facs, pp f = true ∨ ∃ j, j + 1 < vals.length ∧
        f * Nat.gcd n (vals.getD j 0) = Nat.gcd n (vals.getD (j + 1) 0) := by
  have hlen : 1 ≤ vals.length := by
    cases vals with
    | nil => exact absurd rfl hne
    | cons a t => simp
  obtain ⟨facs, hf, hprod, hgt, hsep⟩ := findFactors_spec (fun i => Nat.gcd n (vals.getD i 0)) pp (vals.length + 2) 0
    vals.length [] hlen (by omega)
    (fun i j _ hij hj => hchain i j hij (by omega)) (fun i _ _ => Nat.gcd_pos_of_pos_left _ hn)
  simp only [Nat.zero_add, List.nil_append] at hf hprod hsep
  have hdiv := divAll_spec facs n (fun f hf' => by have := hgt f hf'; omega)
  have hdvd : facs.prod ∣ n :=
    Dvd.dvd.trans ⟨_, hprod.symm⟩ (Nat.gcd_dvd_left n _)
  refine ⟨facs, n / facs.prod, ?_, hprod, Nat.mul_div_cancel' hdvd, hgt, ?_⟩
  swap
  · intro f hf'
    rcases hsep f hf' with h | ⟨j, _, h2, h3⟩
    · exact Or.inl h
    · exact Or.inr ⟨j, by omega, h3⟩
  unfold gcdFactors
  cases vals with
  | nil => exact absurd rfl hne
  | cons a t =>
    simp only [hf, hdiv]

end Ymq.ExpModn
