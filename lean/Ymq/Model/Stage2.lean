/-
Index structure of the second stages of the group-order methods (C16).

  src/ecm.rs      `ecm_curve`            (lines "ECM stage 2" .. end)      -> `ecmIsGrid`
  src/ecm128.rs   `ecm_curve`            same loops                         -> `ecm128IsGrid`
  src/pp1.rs      `pp1`                  baby/giant Lucas steps             -> `pp1IsGrid`
  src/pollard_pm1.rs `pm1_stage2_polyeval` chirp-z evaluation indices       -> `pm1IsGrid`
  src/pollard_pm1.rs `pm1_impl`          prime walk (b2 <= MULTIEVAL_THRESHOLD) -> `walkCovers`

Only the *sets of exponents that are tested* are modelled here: a stage 2 multiplies together
differences f(i*d1) - f(b) over a grid of giant steps i and baby steps b (f = y-coordinate,
Lucas value V, or power of g); the algebra that turns "l divides a grid value" into "the prime
factor is found" is in the theorems (Lemmas/Stage2Algebra.lean).  The loop bounds are not copied
by hand: they come from Gen/Stage2Arms.lean, which the translator reads from the source text.

`none` = the Rust code panics (assert, index out of range, underflow) for these parameters.
No Mathlib import: this file is linked into the native driver.
-/
import Ymq.Gen.Stage2
import Ymq.Gen.Stage2Arms

namespace Ymq.Stage2
open Ymq.Gen

/-! ### giant steps -/

/-- A giant-step description `(first, pushed, loopLo)`: multiples `first, first+1, ..` of `d1`;
`pushed` of them explicitly and one per iteration of `for _ in loopLo..d2`. -/
def giantCount : Nat × Nat × Nat → Nat → Nat
  | (_, pushed, loopLo), d2 => pushed + (d2 - loopLo)

/-- exclusive upper end of the giant-step multipliers -/
def giantLo : Nat × Nat × Nat → Nat
  | (first, _, _) => first

def giantHi (g : Nat × Nat × Nat) (d2 : Nat) : Nat := giantLo g + giantCount g d2

def isGiant (g : Nat × Nat × Nat) (d2 i : Nat) : Bool := giantLo g ≤ i && i < giantHi g d2

/-! ### ECM (both implementations): `for b in lo..d1/div { if gcd(b, d1) == 1 { bs.push(b) } }` -/

def isEcmBabyOf : Nat × Nat → Nat → Nat → Bool
  | (lo, dv), d1, b => lo ≤ b && b < d1 / dv && Nat.gcd b d1 == 1

/-- `m = i*d1 + b` or `m = i*d1 - b` for a giant step `i` and a baby step `b` (decision by the
residue of `m` modulo `d1`: `b = m % d1` with `i = m / d1`, or `b = d1 - m % d1` with `i = m / d1 + 1`). -/
def symIsGrid (baby : Nat → Bool) (g : Nat × Nat × Nat) (d1 d2 m : Nat) : Bool :=
  (baby (m % d1) && isGiant g d2 (m / d1)) ||
  (baby (d1 - m % d1) && isGiant g d2 (m / d1 + 1))

def ecmIsGrid (d1 d2 m : Nat) : Bool := symIsGrid (isEcmBabyOf Stage2Arms.ecmBaby d1) Stage2Arms.ecmGiant d1 d2 m
def ecm128IsGrid (d1 d2 m : Nat) : Bool := symIsGrid (isEcmBabyOf Stage2Arms.ecm128Baby d1) Stage2Arms.ecm128Giant d1 d2 m

/-- the `assert_eq!(bs[0], 1)` of both routines: `1 < d1/2` (1 is always coprime). -/
def ecmPanics (d1 : Nat) : Bool := !(isEcmBabyOf Stage2Arms.ecmBaby d1 1)

/-! ### P+1: `exp = start` is kept; then `while exp + step < d1/div { exp += step; keep if exp % 3 != 0 && gcd(exp, d1) == 1 }` -/

def isPp1BabyOf : Nat × Nat × Nat → Nat → Nat → Bool
  | (start, step, dv), d1, b =>
    b == start ||
    (start < b && (b - start) % step == 0 && b < d1 / dv && b % 3 != 0 && Nat.gcd b d1 == 1)

def pp1IsGrid (d1 d2 m : Nat) : Bool := symIsGrid (isPp1BabyOf Stage2Arms.pp1Baby d1) Stage2Arms.pp1Giant d1 d2 m

/-- `assert!(d1 % 6 == 0)` -/
def pp1Panics (d1 : Nat) : Bool := d1 % 6 != 0

/-! ### P-1, polynomial evaluation -/

/-- baby steps: `b = start` kept; `while b < d1 { b += step; if b % 3 == 0 || gcd(b, d1) != 1 { continue }; keep }` -/
def isPm1BabyOf : Nat × Nat → Nat → Nat → Bool
  | (start, step), d1, r =>
    r == start ||
    (start < r && (r - start) % step == 0 && r - step < d1 && r % 3 != 0 && Nat.gcd r d1 == 1)

def isPm1Baby (d1 r : Nat) : Bool := isPm1BabyOf Stage2Arms.pm1Baby d1 r

/-- number of baby steps = degree of `P = prod (x - g^r)` -/
def pm1Deg (d1 : Nat) : Nat := ((List.range (d1 + Stage2Arms.pm1Baby.2 + 1)).filter (isPm1Baby d1)).length

/-- `assert!(d1 % 6 == 0)`, `assert!(d2 & (d2-1) == 0)` (underflows for d2 = 0), `negsteps[i]` for
`i < p.len()` needs `p.len() <= d2`, and `p.len() - off` must not underflow (`p.len() = deg + 1`). -/
def pm1PanicsDeg (d1 d2 deg : Nat) : Bool :=
  d1 % 6 != 0 || d2 == 0 || d2 != 2 ^ Nat.log2 d2 || deg + 1 > d2 || deg + 1 < Stage2Arms.pm1ValsOff

/-- The coefficients `z[k]` that are read: `vals = z[p.len() - off ..]` with `vals[0]` overwritten, so
`k` ranges over `[p.len() - off + 1, d2)`; `z[k]` is (a unit times) `P(g^(q*d1))` with
`q + neg + k = d2` (theorem `chirpz_coeff`).  `isQ q`: the multiplier `q` is evaluated. -/
def pm1IsQDeg (d2 deg q : Nat) : Bool :=
  (deg + 1 - Stage2Arms.pm1ValsOff + 1) + q + Stage2Arms.pm1Neg ≤ d2 && 0 < Stage2Arms.pm1Neg + q

/-- `m = |q*d1 - r|` for an evaluated multiplier `q` and a baby step `r`.
Candidates for `r`: `-m mod d1` and that plus `d1` (for `q*d1 - r = m`), `m` and `m + d1` (for `r - q*d1 = m`). -/
def pm1IsGridDeg (d1 d2 deg m : Nat) : Bool :=
  let r0 := (d1 - m % d1) % d1
  [r0, r0 + d1].any (fun r => isPm1Baby d1 r && (m + r) % d1 == 0 && pm1IsQDeg d2 deg ((m + r) / d1)) ||
  [m, m + d1].any (fun r => isPm1Baby d1 r && (r - m) % d1 == 0 && pm1IsQDeg d2 deg ((r - m) / d1))

def pm1IsGrid (d1 d2 m : Nat) : Bool := pm1IsGridDeg d1 d2 (pm1Deg d1) m
def pm1Panics (d1 d2 : Nat) : Bool := pm1PanicsDeg d1 d2 (pm1Deg d1)

/-! ### which primes a stage 2 can catch: `l` divides a grid value -/

/-- `∃ k < n, p k` by a loop (no list is built). -/
def anyBelow (p : Nat → Bool) : Nat → Bool
  | 0 => false
  | n + 1 => p n || anyBelow p n

/-- some positive multiple `k*l <= maxv` of `l` is a grid value -/
def hitsUpTo (isGrid : Nat → Bool) (maxv l : Nat) : Bool :=
  anyBelow (fun k => isGrid ((k + 1) * l)) (maxv / l)

/-- largest value of the symmetric grids: `(hi - 1) * d1 + d1/2` bounds every `i*d1 + b`. -/
def symMax (g : Nat × Nat × Nat) (d1 d2 : Nat) : Nat := giantHi g d2 * d1

def ecmHits (d1 d2 l : Nat) : Bool := hitsUpTo (ecmIsGrid d1 d2) (symMax Stage2Arms.ecmGiant d1 d2) l
def ecm128Hits (d1 d2 l : Nat) : Bool := hitsUpTo (ecm128IsGrid d1 d2) (symMax Stage2Arms.ecm128Giant d1 d2) l
def pp1Hits (d1 d2 l : Nat) : Bool := hitsUpTo (pp1IsGrid d1 d2) (symMax Stage2Arms.pp1Giant d1 d2) l
def pm1Hits (d1 d2 l : Nat) : Bool :=
  let deg := pm1Deg d1
  hitsUpTo (pm1IsGridDeg d1 d2 deg) ((d2 + 1) * d1) l

/-! ### upper ends ("effective B2") -/

/-- ECM / ECM128 / P+1: every `l` coprime to `d1` with `d1/2 < l <= symEff` is a grid value (`ecm_cover`). -/
def symEff (g : Nat × Nat × Nat) (d1 d2 : Nat) : Nat := (giantHi g d2 - 1) * d1 + d1 / 2 - 1

def ecmEff (d1 d2 : Nat) : Nat := symEff Stage2Arms.ecmGiant d1 d2
def ecm128Eff (d1 d2 : Nat) : Nat := symEff Stage2Arms.ecm128Giant d1 d2
def pp1Eff (d1 d2 : Nat) : Nat := symEff Stage2Arms.pp1Giant d1 d2

/-- P-1 polynomial evaluation with `deg` baby steps: every `l` coprime to `d1` with
`1 <= l <= pm1EffDeg` is a grid value (`pm1_cover`). -/
def pm1EffDeg (d1 d2 deg : Nat) : Nat :=
  (d2 - Stage2Arms.pm1Neg - (deg + 2 - Stage2Arms.pm1ValsOff)) * d1 - 1

def pm1Eff (d1 d2 : Nat) : Nat := pm1EffDeg d1 d2 (pm1Deg d1)

/-! ### P-1 prime walk (`b2 <= MULTIEVAL_THRESHOLD`) -/

/-- trial division by every `2 ≤ k ≤ ⌊√n⌋` (`Checked.isqrt`: structural, reduces in the kernel; `n < 2^64`) -/
def isPrimeTD (n : Nat) : Bool := 2 ≤ n && !(anyBelow (fun k => 2 ≤ k && n % k == 0) (Ymq.Checked.isqrt n + 1))

/-- first prime `> n` (fuel: Bertrand) -/
def nextPrimeAux : Nat → Nat → Nat
  | 0, n => n
  | f + 1, n => if isPrimeTD n then n else nextPrimeAux f (n + 1)

def nextPrime (n : Nat) : Nat := nextPrimeAux (n + 2) (n + 1)

/-- The walk multiplies `g^p - 1` for `p = p_prev` (the first prime `> b1`, where stage 1 stopped)
and for every following prime up to and including the first prime `> b2`. -/
def walkCovers (b1 b2 l : Nat) : Bool :=
  isPrimeTD l && nextPrime b1 ≤ l && l ≤ nextPrime (max b2 (nextPrime b1))

/-! ### selection as `pm1_impl`, `pp1`, `ecm_curve` do it (integral B2) -/

/-- what `pm1_impl(n, b1, b2)` tests in stage 2 for a prime `l > b1` -/
def pm1Stage2Hits (b1 b2 l : Nat) : Option Bool :=
  if b2 > Stage2.multievalThreshold then
    match Stage2.pm1Stage2Select b2 1 with
    | none => none
    | some (_, d1, d2) =>
      if pm1Panics d1 d2 then none else some (pm1Hits d1 d2 l)
  else some (walkCovers b1 b2 l)

def pp1Stage2Hits (b2 l : Nat) : Option Bool :=
  match Stage2.stage2Select b2 1 with
  | none => none
  | some (_, d1, d2) => if pp1Panics d1 then none else some (pp1Hits d1 d2 l)

def ecmStage2Hits (b2 l : Nat) : Option Bool :=
  match Stage2.stage2Select b2 1 with
  | none => none
  | some (_, d1, d2) => if ecmPanics d1 then none else some (ecmHits d1 d2 l)

def ecm128Stage2Hits (b2 l : Nat) : Option Bool :=
  match Stage2.stage2Select b2 1 with
  | none => none
  | some (_, d1, d2) => if ecmPanics d1 then none else some (ecm128Hits d1 d2 l)

end Ymq.Stage2
