/-
C16, second pass on the whole-function models of Pollard P-1 (Model/Pm1Impl.lean) and Williams P+1
(Model/Pp1Impl.lean): what the first pass left unproved.

  * `pp1_baby_complete`: the baby-step list of `pp1` holds EVERY `b` the loop condition admits; with it
    `pp1_stage2_found` is the full form of `pp1_stage2_found_partial` (both the giant entry and the baby entry are
    entries of the model's lists), and `pp1_stage2_product_zero` says that the double product `roots_eval` is specified
    to compute over those lists vanishes.
  * `pm1_exp_modn_residues`: `exp_modn_spec` transported to the residues `a*b % m` of the model (one of the three
    ingredients the first pass listed as missing for `pm1_impl_no_panic`); `pm1_gap_table_in_range`: the gap-table index
    bounds (the second); `pm1_walk_block_no_panic`: a sieve block of the prime walk never panics;
    `pm1_walk_stop_prime_found`, `pm1_walk_found_partial`: what the walk's product holds at the end of a block.
  * `pm1_walk_stop_prime_kept`: the content behind `pm1_walk_includes_stop_prime` (which only unfolds `walk`).
  * `pm1_baby_complete`: the baby steps of `pm1_stage2_polyeval` never panic and hold `g^r` for exactly the `r` of
    `isPm1Baby` (the set `pm1_cover` / `pm1_found` quantify over).
  * `pm1_polyeval_baby_assert_holds`, `pm1_polyeval_giant_assert_holds`: the two `debug_assert!`s of
    `pm1_stage2_polyeval` (now evaluated by the model: `expCheckPanics`) never fail; `pm1_polyeval_no_panic_partial`:
    `polyVals` has no panic (hypothesis: length of the model's baby list + 1 ≤ d2); `pm1_polyeval_no_panic`: the same
    from `pm1Deg d1 + 1 ≤ d2`.
  * `pp1_stage1_block_no_panic`, `pp1_stage2_vals_no_panic`: the stage-1 loop of `pp1` over a sieve block and the
    computation of the stage-2 products never panic.
  Still open: the gcd-chain property of `gpows`/`products` handed to `check_gcd_factors` (its `debug_assert!`s) across a
  ring shrink, hence no `pm1_impl_no_panic` for the whole function; the walk across sieve blocks (`walkOuter`); the
  composition of `pm1_found` with `from_roots` / the chirp-z convolution of `polyVals` (`pm1_polyeval_found`).
-/
import Ymq.Lemmas.Pp1Baby
import Ymq.Lemmas.Pp1NoPanic
import Ymq.Lemmas.Pm1Walk
import Ymq.Lemmas.Pm1ExpLarge
import Ymq.Lemmas.Pm1Baby
import Ymq.Lemmas.Pm1Giant
import Ymq.Props.C16Pp1
import Ymq.Props.C16Pm1

namespace Ymq.C16
open Ymq.Pp1Impl Ymq.ExpModn Ymq.Gen Ymq.Stage2
open Ymq.Pm1Impl (mulm subm onem W WInv GInv walkStep walkBlock extendGaps)

/-! ## P+1: completeness of the baby steps, stage 2 in full -/

/-- **The baby-step list is complete.** Whatever the ring operations: `b = 1` and every odd `b < d1/2` with
`b % 3 ≠ 0` and `gcd(b, d1) = 1` (the exact condition of the loop in pp1.rs) has an entry in the list `pp1` hands to
`roots_eval` as baby steps.  (`pp1_baby_values` is the converse plus the value.) -/
theorem pp1_baby_complete {α : Type*} (mul sub : α → α → α) (g g2 : α) (d1 : Nat) {b : Nat}
    (hb : b = 1 ∨ (b % 2 = 1 ∧ b < d1 / 2 ∧ b % 3 ≠ 0 ∧ Nat.gcd b d1 = 1)) :
    b ∈ (Pp1Impl.babySteps mul sub g g2 d1).map (·.1) := by
  obtain ⟨v, hv⟩ := babySteps_complete mul sub g g2 d1 hb
  exact List.mem_map.mpr ⟨(b, v), hv, rfl⟩

example : (7 : Nat) % 2 = 1 ∧ 7 < 30 / 2 ∧ 7 % 3 ≠ 0 ∧ Nat.gcd 7 30 = 1 := by decide

/-- for `6 ∣ d1` the condition is `gcd(b, d1) = 1` alone: the list is exactly `{b < d1/2 : gcd(b, d1) = 1}` (the set
`pp1_cover` / `pp1_grid_exact` quantify over), with `1` added when `d1 = 6` makes `d1/2 ≤ 1`… (`1 < d1/2` as soon as `d1 ≥ 6`) -/
theorem pp1_baby_exact {α : Type*} (mul sub : α → α → α) (g g2 : α) {d1 : Nat} (h6 : 6 ∣ d1) (hd : 0 < d1) (b : Nat) :
    b ∈ (Pp1Impl.babySteps mul sub g g2 d1).map (·.1) ↔ (1 ≤ b ∧ b < d1 / 2 ∧ Nat.gcd b d1 = 1) := by
  obtain ⟨k, rfl⟩ := h6
  have hk : 1 ≤ k := by omega
  constructor
  · intro hmem
    obtain ⟨x, hx, rfl⟩ := List.mem_map.mp hmem
    have := babySteps_mem_idx mul sub g g2 (6 * k) x hx
    rcases this with h1 | ⟨h2, hlt, h3, hg⟩
    · rw [h1]; exact ⟨by omega, by omega, by simp⟩
    · exact ⟨by omega, hlt, hg⟩
  · rintro ⟨h1, hlt, hg⟩
    refine pp1_baby_complete mul sub g g2 _ (Or.inr ⟨?_, hlt, ?_, hg⟩)
    · rcases Nat.mod_two_eq_zero_or_one b with h | h
      · exfalso
        have : 2 ∣ Nat.gcd b (6 * k) := Nat.dvd_gcd (Nat.dvd_of_mod_eq_zero h) ⟨3 * k, by ring⟩
        rw [hg] at this; omega
      · exact h
    · intro h
      have : 3 ∣ Nat.gcd b (6 * k) := Nat.dvd_gcd (Nat.dvd_of_mod_eq_zero h) ⟨2 * k, by ring⟩
      rw [hg] at this; omega

example : (6 : Nat) ∣ 30 ∧ (1 ≤ 11 ∧ 11 < 30 / 2 ∧ Nat.gcd 11 30 = 1) := by decide

/-- **What stage 2 of `pp1` finds** (full form of `pp1_stage2_found_partial`): for a prime `l` prime to `d1` with
`d1/2 < l ≤ d2·d1 + d1/2 − 1` and `x^(E·l) = 1` (`x·y = 1`; in `F_{p²}`: `x` a root of `X² − seed·X + 1`, `E` the
stage-1 exponent, `l ∣ p + 1` or `l ∣ p − 1`), an entry `(i, v)` of the model's giant steps and an entry `(b, w)` of the
model's baby steps, both computed from `Q = V_E(x + y)` as `pp1` computes them, satisfy `v − w = 0`. -/
theorem pp1_stage2_found {R : Type*} [CommRing R] {x y : R} (hxy : x * y = 1) {E l d1 d2 : Nat}
    (h6 : 6 ∣ d1) (hd : 0 < d1) (hd2 : 1 ≤ d2) (hl : l.Prime) (hnd : ¬ l ∣ d1) (hlo : d1 / 2 < l)
    (hhi : l ≤ d2 * d1 + d1 / 2 - 1) (hm1 : x ^ (E * l) = 1) :
    ∃ iv ∈ giantSteps (· * ·) (· - ·) (2 : R) (chebV (chebV (x + y) E) d1) d2,
      ∃ bw ∈ Pp1Impl.babySteps (· * ·) (· - ·) (chebV (x + y) E) (chebV (chebV (x + y) E) 2) d1, iv.2 - bw.2 = 0 := by
  obtain ⟨iv, hiv, b, hb1, hblt, hbg, hz⟩ := pp1_stage2_found_partial hxy h6 hd hd2 hl hnd hlo hhi hm1
  have hmem := (pp1_baby_exact (· * ·) (· - ·) (chebV (x + y) E) (chebV (chebV (x + y) E) 2) h6 hd b).mpr ⟨hb1, hblt, hbg⟩
  obtain ⟨bw, hbw, hidx⟩ := List.mem_map.mp hmem
  refine ⟨iv, hiv, bw, hbw, ?_⟩
  have hval := (pp1_baby_values (chebV (x + y) E) d1 bw hbw).1
  rw [hval, hidx]
  exact hz

example : (6 : Nat) ∣ 510 ∧ Nat.Prime 601 ∧ ¬ 601 ∣ 510 ∧ 510 / 2 < 601 ∧ 601 ≤ 64 * 510 + 510 / 2 - 1 :=
  ⟨by decide, by norm_num, by decide, by decide, by decide⟩

/-- … hence the double product `∏_j ∏_i (baby_j − giant_i)` that `roots_eval` is specified to compute over the two lists
(`rootsEvalSpec`, cumulated by `stage2Vals`) is `0` in every ring where `x^(E·l) = 1`: modulo a prime factor `p` of `n`
with `l ∣ p ± 1` the last cumulative product is divisible by `p`. -/
theorem pp1_stage2_product_zero {R : Type*} [CommRing R] {x y : R} (hxy : x * y = 1) {E l d1 d2 : Nat}
    (h6 : 6 ∣ d1) (hd : 0 < d1) (hd2 : 1 ≤ d2) (hl : l.Prime) (hnd : ¬ l ∣ d1) (hlo : d1 / 2 < l)
    (hhi : l ≤ d2 * d1 + d1 / 2 - 1) (hm1 : x ^ (E * l) = 1) :
    ((Pp1Impl.babySteps (· * ·) (· - ·) (chebV (x + y) E) (chebV (chebV (x + y) E) 2) d1).map (fun bw =>
      ((giantSteps (· * ·) (· - ·) (2 : R) (chebV (chebV (x + y) E) d1) d2).map (fun iv => bw.2 - iv.2)).prod)).prod = 0 := by
  obtain ⟨iv, hiv, bw, hbw, hz⟩ := pp1_stage2_found hxy h6 hd hd2 hl hnd hlo hhi hm1
  apply List.prod_eq_zero
  refine List.mem_map.mpr ⟨bw, hbw, ?_⟩
  apply List.prod_eq_zero
  refine List.mem_map.mpr ⟨iv, hiv, ?_⟩
  have : bw.2 - iv.2 = -(iv.2 - bw.2) := by ring
  rw [this, hz, neg_zero]

example : ((-1 : ZMod 7) * (-1) = 1) ∧ ((-1 : ZMod 7) ^ (4 * 2) = 1) := by decide

/-! ## P-1: `exp_modn` on residues, the gap table, the prime walk -/

/-- **`exp_modn` on the residues of the model.** For every modulus `m` (also `m = 0, 1`), every `g` and every `u64`
exponent, `exp_modn` computed with `a*b % m` does not reach `unreachable!` and returns a value `≡ g^e (mod m)`:
`exp_modn_spec` (over an abstract commutative monoid) transported along `Nat → ZMod m`. -/
theorem pm1_exp_modn_residues (m g e : Nat) (he : e < 2 ^ 64) :
    ∃ x, expModn (mulm m) (onem m) g e = some x ∧ x ≡ g ^ e [MOD m] :=
  Ymq.Pm1Impl.expModn_mod g e he

example : expModn (mulm 77) (onem 77) 2 5 = some 32 ∧ (5 : Nat) < 2 ^ 64 := ⟨by decide +kernel, by norm_num⟩

/-- **`exp_modn_large` on the residues of the model**: for every modulus, every `g` and every exponent below `2^1024`
(`U1024`), no index of `g_smalls` is out of range and the value is `≡ g^e (mod m)` (`exp_modn_large_spec` transported). -/
theorem pm1_exp_modn_large_residues (m g e : Nat) (he : e < 2 ^ 1024) :
    ∃ x, expModnLarge (mulm m) (onem m) g e = some x ∧ x ≡ g ^ e [MOD m] :=
  Ymq.Pm1Impl.expModnLarge_mod g e he

example : 2 ^ 70 + 5 < 2 ^ 1024 :=
  lt_of_lt_of_le (show 2 ^ 70 + 5 < 2 ^ 71 by norm_num) (Nat.pow_le_pow_right (by decide) (by decide))

/-- hence a flush of stage 1 (`g = exp_modn(g, expblock)` resp. `exp_modn_large(g, expblock_lg)`) never panics when the
exponent fits its type (`pm1_stage1_divides`, C17: the flushed blocks fit), and raises `g` to that exponent -/
theorem pm1_apply_ev_no_panic (m g : Nat) (ev : Ymq.Pm1.Ev)
    (hfit : match ev with | .small e => e < 2 ^ 64 | .large e => e < 2 ^ 1024) :
    ∃ x, Ymq.Pm1Impl.applyEv m g ev = some x ∧
      x ≡ g ^ (match ev with | .small e => e | .large e => e) [MOD m] := by
  cases ev with
  | small e => exact pm1_exp_modn_residues m g e hfit
  | large e => exact pm1_exp_modn_large_residues m g e hfit

example : Ymq.Pm1Impl.applyEv 77 2 (.small 6) = some 64 := by decide +kernel

/-- **Gap-table index bounds.** `while gaps.len() <= half { gaps.push(gaps[last] * g2) }` from a non-empty table with
`gaps[i] ≡ g^(2i+2)`: `gaps[gaps.len() - 1]` is never out of range, afterwards `half < gaps.len()` — the index
`gap/2 − 1` the walk and the baby steps of `pm1_stage2_polyeval` read is in range — and the table still holds
`g^(2i+2)`. -/
theorem pm1_gap_table_in_range {m g g2 : Nat} (hg2 : g2 ≡ g ^ 2 [MOD m]) {gaps : List Nat} (hinv : GInv m g gaps)
    (half : Nat) :
    ∃ gaps', extendGaps m g2 (half + 1) gaps half = some gaps' ∧ half < gaps'.length ∧ GInv m g gaps' :=
  Ymq.Pm1Impl.extendGaps_spec hg2 (half + 1) gaps half hinv (by omega)

example : (mulm 77 2 2 ≡ 2 ^ 2 [MOD 77]) ∧ GInv 77 2 [mulm 77 2 2] ∧
    extendGaps 77 (mulm 77 2 2) 4 [mulm 77 2 2] 3 = some [4, 16, 64, 25] :=
  ⟨Ymq.Pm1Impl.g2_modEq 77 2, ⟨by simp, fun i v hv => by
    match i, hv with
    | 0, hv => simp at hv; subst hv; exact Ymq.Pm1Impl.g2_modEq 77 2
    | i + 1, hv => simp at hv⟩, by decide +kernel⟩

/-- **A sieve block of the prime walk never panics** (`assert!(gap > 0 && gap % 2 == 0)`, `gaps[gap/2 − 1]`): from a
state with `x ≡ g^p_prev`, `gaps[i] ≡ g^(2i+2)` and an odd `p_prev`, over a block of increasing odd numbers (what
`PrimeSieve` yields after its first block; the walk starts at `p_prev > b1 > 3`), for every ring modulus `m > 0`; the
state it ends in satisfies the same invariant. -/
theorem pm1_walk_block_no_panic {m g b2 : Nat} (hm : 0 < m) {w : W} (hinv : WInv m g w) (hodd : w.pPrev % 2 = 1)
    {blk : List Nat} (hsorted : blk.Pairwise (· < ·)) (hodds : ∀ p ∈ blk, p % 2 = 1) :
    ∃ w', walkBlock m (mulm m g g) b2 blk w = some w' ∧ WInv m g w' ∧ w'.pPrev % 2 = 1 := by
  obtain ⟨w', h1, h2, h3, _⟩ := Ymq.Pm1Impl.walkBlock_spec (b2 := b2) hm (Ymq.Pm1Impl.g2_modEq m g) blk w hinv hsorted hodds hodd
  exact ⟨w', h1, h2, h3⟩

example : [7, 11, 13].Pairwise (· < ·) ∧ (∀ p ∈ [7, 11, 13], p % 2 = 1) ∧ 5 % 2 = 1 := by decide

/-- **The stop prime is found.** The walk of `pm1_impl` starts (for `p_prev < 2^64`: it is a `u32`) without a panic of
`exp_modn`, from a state satisfying the walk invariant, and its first product is divisible by every divisor `q` of the
ring modulus with `g^p_prev ≡ 1 (mod q)`: with `pm1_walk_includes_stop_prime` and `pm1_walk_product_accumulates` the
stop prime's term is in every later product. -/
theorem pm1_walk_stop_prime_found {m : Nat} (hm : 0 < m) (g pPrev : Nat) (hp : pPrev < 2 ^ 64) :
    ∃ x, expModn (mulm m) (onem m) g pPrev = some x ∧
      WInv m g { x := x, product := subm m x (onem m), productsRev := [onem m], gaps := [mulm m g g], pPrev := pPrev } ∧
      ∀ q, q ∣ m → g ^ pPrev ≡ 1 [MOD q] → q ∣ subm m x (onem m) :=
  Ymq.Pm1Impl.walk_init hm g pPrev hp

example : (2 ^ 5 ≡ 1 [MOD 31]) ∧ 31 ∣ 31 * 3 ∧ 31 ∣ subm 93 32 (onem 93) := by decide

/-- **What the prime walk finds, per sieve block.** From a state satisfying the walk invariant (the initial one does:
`pm1_walk_stop_prime_found`), over a block of increasing odd numbers: every `l` of the block with `p_prev < l ≤ b2` and
`g^l ≡ 1 (mod q)` for a divisor `q` of the ring modulus has `q ∣ product` in the state the block ends in (also when the
block is left early at the first `p > b2`), and divisors of the incoming product are kept.
`_partial`: the statement for the whole walk (`walkOuter`: every prime `l` with `p_prev_stop ≤ l ≤ b2`) needs in
addition that the blocks `PrimeSieve::next` yields are the increasing odd primes (C17 `blockAt_spec`, Lemmas/PrimesStream)
and that `check_gcd_factors` between two blocks does not panic; `walkOuter` hands `x`, `product`, `gaps`, `p_prev`
unchanged to the next block. -/
theorem pm1_walk_found_partial {m g b2 : Nat} (hm : 0 < m) {w w' : W} (hinv : WInv m g w) (hodd : w.pPrev % 2 = 1)
    {blk : List Nat} (hsorted : blk.Pairwise (· < ·)) (hodds : ∀ p ∈ blk, p % 2 = 1)
    (hw : walkBlock m (mulm m g g) b2 blk w = some w') :
    (∀ q, q ∣ m → q ∣ w.product → q ∣ w'.product) ∧
      ∀ l ∈ blk, w.pPrev < l → l ≤ b2 → ∀ q, q ∣ m → g ^ l ≡ 1 [MOD q] → q ∣ w'.product := by
  obtain ⟨w'', h1, _, _, _, h5, h6⟩ :=
    Ymq.Pm1Impl.walkBlock_spec (b2 := b2) hm (Ymq.Pm1Impl.g2_modEq m g) blk w hinv hsorted hodds hodd
  rw [hw] at h1
  simp only [Option.some.injEq] at h1
  subst h1
  exact ⟨h5, h6⟩

/-- **The stop prime's term stays in the product** (the content behind `pm1_walk_includes_stop_prime`, which is only
the unfolding of `walk`): for every ring modulus `m > 0` and every odd stop prime `p_prev < 2^64`, the walk starts
without a panic and, after the first sieve block it walks (increasing odd numbers), every divisor `q` of `m` with
`g^p_prev ≡ 1 (mod q)` divides the running product — also when no later prime contributes.  A walk started at
`product = 1` (seeded change C16-3) does not satisfy this. -/
theorem pm1_walk_stop_prime_kept {m : Nat} (hm : 0 < m) (g b2 : Nat) {pPrev : Nat} (hp : pPrev < 2 ^ 64)
    (hodd : pPrev % 2 = 1) {blk : List Nat} (hsorted : blk.Pairwise (· < ·)) (hodds : ∀ p ∈ blk, p % 2 = 1) :
    ∃ x w', expModn (mulm m) (onem m) g pPrev = some x ∧
      walkBlock m (mulm m g g) b2 blk
        { x := x, product := subm m x (onem m), productsRev := [onem m], gaps := [mulm m g g], pPrev := pPrev } = some w' ∧
      ∀ q, q ∣ m → g ^ pPrev ≡ 1 [MOD q] → q ∣ w'.product := by
  obtain ⟨x, hx, hinv, hq0⟩ := pm1_walk_stop_prime_found hm g pPrev hp
  obtain ⟨w', hw, _, _⟩ := pm1_walk_block_no_panic (b2 := b2) hm hinv hodd hsorted hodds
  exact ⟨x, w', hx, hw, fun q hq hd => (pm1_walk_found_partial hm hinv hodd hsorted hodds hw).1 q hq (hq0 q hq hd)⟩

/-- non-vacuity: `m = 93 = 3·31`, `g = 2`, stop prime `5` (`2^5 ≡ 1 mod 31`), block `[7, 11]`: 31 divides the product -/
example : (2 ^ 5 ≡ 1 [MOD 31]) ∧ expModn (mulm 93) (onem 93) 2 5 = some 32 ∧
    (walkBlock 93 (mulm 93 2 2) 11 [7, 11]
      { x := 32, product := subm 93 32 (onem 93), productsRev := [onem 93], gaps := [mulm 93 2 2], pPrev := 5 }).map
      (fun w => w.product % 31) = some 0 := by
  refine ⟨by decide, by decide +kernel, by decide +kernel⟩

/-- non-vacuity: `m = 381 = 3·127`, `g = 2`, stop prime `5`, block `[7, 11, 13]`, `b2 = 11`: `2^7 ≡ 1 mod 127` and
the product after the block is divisible by 127 -/
example : (2 ^ 7 ≡ 1 [MOD 127]) ∧ expModn (mulm 381) (onem 381) 2 5 = some 32 ∧
    (walkBlock 381 (mulm 381 2 2) 11 [7, 11, 13]
      { x := 32, product := subm 381 32 (onem 381), productsRev := [onem 381], gaps := [mulm 381 2 2], pPrev := 5 }).map
      (fun w => (w.product % 127, w.pPrev)) = some (0, 13) := by
  refine ⟨by decide, by decide +kernel, by decide +kernel⟩

/-! ## P-1: the baby steps of the polynomial stage 2 -/

/-- **The baby steps of `pm1_stage2_polyeval` are complete and never panic.** For every ring modulus `m`, every `g` and
every `d1` with `6 ∣ d1`: the baby loop of the model (gap table, `gaps[gap/2 − 1]`, fuel) returns a list `vs` that is,
entry by entry, `g^r (mod m)` over EXACTLY the list `(List.range (d1 + 2)).filter (isPm1Baby d1)` — the very list
`pm1_found` multiplies over (`0 < r ≤ d1 + 1`, `gcd(r, d1) = 1`, increasing): the roots of the polynomial `P` handed to
`from_roots` are the `g^r` of `pm1_found`, none missing, none added, none repeated. -/
theorem pm1_baby_complete (m g : Nat) {d1 : Nat} (h6 : 6 ∣ d1) (hd : 0 < d1) :
    ∃ vs, Ymq.Pm1Impl.babySteps m d1 g = some vs ∧
      List.Forall₂ (fun v r => v ≡ g ^ r [MOD m]) vs ((List.range (d1 + 2)).filter (isPm1Baby d1)) :=
  Ymq.Pm1Impl.babySteps_exact m g h6 hd

example : (6 : Nat) ∣ 30 ∧ Ymq.Pm1Impl.babySteps 1009 30 3 = some [3, 169, 572, 103, 271, 421, 804, 896, 1001] ∧
    ((List.range 32).filter (isPm1Baby 30)) = [1, 7, 11, 13, 17, 19, 23, 29, 31] := by
  refine ⟨by decide, by decide +kernel, by decide +kernel⟩

/-- **The second `debug_assert!` of `pm1_stage2_polyeval` never fails** (`gexp == exp_modn(g, d2²·d1/2)`, evaluated by
the model since the second pass: `polyVals` is `none` when it fails or when its `exp_modn` panics): for every ring
modulus `m > 0`, a reduced `g`, an even `d1`, `d2 ≥ 1` and `d2²·d1 < 2^64` (the guard of the assertion), with
`dg = exp_modn(g, d1/2)`. -/
theorem pm1_polyeval_giant_assert_holds {m g d1 d2 dg : Nat} (hm : 0 < m) (hg : g < m) (hd1 : d1 % 2 = 0) (hd2 : 1 ≤ d2)
    (hfit : d2 * d2 * d1 < 2 ^ 64) (hdg : expModn (mulm m) (onem m) g (d1 / 2) = some dg) :
    Ymq.Pm1Impl.expCheckPanics m g
      (Ymq.Pm1Impl.gexpEnd m (Ymq.Pm1Impl.giantLoop m (mulm m dg dg) d2 (onem m) dg [] [])) (d2 * d2 * d1 / 2) = false :=
  Ymq.Pm1Impl.giant_assert_holds hm hg hd1 hd2 hfit hdg

example : expModn (mulm 1009) (onem 1009) 3 (30 / 2) = some 927 ∧ 4 * 4 * 30 < 2 ^ 64 ∧
    Ymq.Pm1Impl.gexpEnd 1009 (Ymq.Pm1Impl.giantLoop 1009 (mulm 1009 927 927) 4 (onem 1009) 927 [] []) = 3 ^ 240 % 1009 := by
  refine ⟨by decide +kernel, by norm_num, by decide +kernel⟩

/-- **The first `debug_assert!` of `pm1_stage2_polyeval` never fails** (`bg == exp_modn(g, bexp)` after the baby loop),
and the baby loop does not panic: for every ring modulus `m > 0`, a reduced `g` and `d1 + 1 < 2^64`. -/
theorem pm1_polyeval_baby_assert_holds {m g d1 : Nat} (hm : 0 < m) (hg : g < m) (hd : d1 + 1 < 2 ^ 64) :
    ∃ vs, Ymq.Pm1Impl.babySteps m d1 g = some vs ∧
      Ymq.Pm1Impl.expCheckPanics m g (vs.getLast?.getD g) (Ymq.Pm1Impl.babyLastExp d1 (d1 + 2) 1 1) = false :=
  Ymq.Pm1Impl.baby_assert_holds hm hg hd

example : Ymq.Pm1Impl.babyLastExp 30 32 1 1 = 31 ∧ (0 < 1009) ∧ (3 < 1009) ∧ 30 + 1 < 2 ^ 64 := by
  refine ⟨by decide +kernel, by decide, by decide, by norm_num⟩

/-- **`pm1_stage2_polyeval` does not panic** up to the cumulative products handed to `gcd_factors` (`polyVals`; the
panic sites of `gcd_factors` itself are `gcd_factors_prod`): for every ring modulus `m > 0`, a reduced `g`, `6 ∣ d1`,
`d1 + 1 < 2^64`, `d2` a power of two `≥ 56` (an NTT exists) — the `assert!`s, both `debug_assert!`s, the three `exp_modn`
calls, the gap-table indices, `negsteps[i]` and `p.len() − 2` are all passed.
`_partial`: the bound on the number of baby steps enters as the hypothesis `hlen` on the model's own baby list (and only
`d1 % 6 = 0` is needed); `pm1_polyeval_no_panic` below derives it from `pm1Deg d1 + 1 ≤ d2` (`pm1_baby_complete`: the
list is exactly the `pm1Deg d1` indices of `isPm1Baby`). -/
theorem pm1_polyeval_no_panic_partial {m g d1 d2 : Nat} (hm : 0 < m) (hg : g < m) (h6 : d1 % 6 = 0) (hd : d1 + 1 < 2 ^ 64)
    (hpow : d2 = 2 ^ Nat.log2 d2) (h56 : 56 ≤ d2)
    (hlen : ∀ vs, Ymq.Pm1Impl.babySteps m d1 g = some vs → vs.length + 1 ≤ d2) :
    (Ymq.Pm1Impl.polyVals m d1 d2 g).isSome = true :=
  Ymq.Pm1Impl.polyVals_isSome hm hg h6 hd hpow h56 hlen

example : (30 % 6 = 0) ∧ (64 = 2 ^ Nat.log2 64) ∧ (56 ≤ 64) ∧
    (Ymq.Pm1Impl.babySteps 1009 30 3).map (fun vs => decide (vs.length + 1 ≤ 64)) = some true ∧
    (Ymq.Pm1Impl.polyVals 1009 30 64 3).isSome = true := by
  refine ⟨by decide, by decide +kernel, by decide, by decide +kernel, by decide +kernel⟩

/-- **`pm1_stage2_polyeval` does not panic** (full form of `pm1_polyeval_no_panic_partial`: the number of baby steps is
`pm1Deg d1`, derived from `pm1_baby_complete`): for every ring modulus `m > 0`, a reduced `g`, `6 ∣ d1`, `d1 + 1 < 2^64`,
`d2` a power of two `≥ 56` with `pm1Deg d1 + 1 ≤ d2` (every row of the table: `pm1_degree`, `rows_ok`), the model computes
the cumulative products handed to `gcd_factors` without reaching any `assert!`, `debug_assert!`, index or `unwrap` site. -/
theorem pm1_polyeval_no_panic {m g d1 d2 : Nat} (hm : 0 < m) (hg : g < m) (h6 : 6 ∣ d1) (hd0 : 0 < d1) (hd : d1 + 1 < 2 ^ 64)
    (hpow : d2 = 2 ^ Nat.log2 d2) (h56 : 56 ≤ d2) (hdeg : pm1Deg d1 + 1 ≤ d2) :
    (Ymq.Pm1Impl.polyVals m d1 d2 g).isSome = true :=
  Ymq.Pm1Impl.polyVals_isSome_deg hm hg h6 hd0 hd hpow h56 hdeg

example : (6 ∣ 30) ∧ (64 = 2 ^ Nat.log2 64) ∧ (56 ≤ 64) ∧ pm1Deg 30 + 1 ≤ 64 := by
  refine ⟨by decide, by decide +kernel, by decide, by decide +kernel⟩

/-! ## P+1: panic sites never reached -/

/-- **The stage-1 loop of `pp1` over a sieve block never panics**: for every ring modulus, every state, `b1 ≤ 2^32`
(`factor()` passes `b1 < 4294967291`) and a block of numbers `2 ≤ p < 2^32` (`PrimeSieve` yields `u32` primes): the power
loop `while pow * p < b1` neither overflows `u64` (checked profile) nor runs out of the model's fuel, and the Lucas
ladder has no panic site. -/
theorem pp1_stage1_block_no_panic (m : Nat) {b1 : Nat} (hb : b1 ≤ 2 ^ 32) (blk : List Nat) (s : Pp1Impl.S1)
    (hblk : ∀ p ∈ blk, 2 ≤ p ∧ p < 2 ^ 32) : ∃ s', Pp1Impl.block m b1 blk s = some s' :=
  Ymq.Pp1Impl.block_some m hb blk s hblk

example : (Pp1Impl.block 77 4 [2, 3, 5, 7] { g := 5, gpowsRev := [1], pPrev := 1 }).map (fun s => (s.g, s.pPrev)) = some (9, 5) := by
  decide +kernel

/-- **The stage-2 products of `pp1` are computed without a panic** (`assert!(d1 % 6 == 0)`,
`debug_assert!(gsteps.len() == d2)`): for every ring modulus and `g`, `6 ∣ d1`, `d2 ≥ 1` (every row of the table:
`rows_ok`). -/
theorem pp1_stage2_vals_no_panic (m g : Nat) {d1 d2 : Nat} (h6 : 6 ∣ d1) (hd2 : 1 ≤ d2) :
    ∃ vals, Pp1Impl.stage2Vals m d1 d2 g = some vals :=
  Ymq.Pp1Impl.stage2Vals_some m g h6 hd2

example : (6 ∣ 6) ∧ (Pp1Impl.stage2Vals 77 6 2 3).isSome = true := ⟨by decide, by decide +kernel⟩

end Ymq.C16
