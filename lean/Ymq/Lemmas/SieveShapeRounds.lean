/-
C13 helper lemmas: the bucket shapes after any number of `rehash` rounds, and the table term in closed form from
the shapes (generic in the offsets functions: `new` path and `rehash` path).
-/
import Ymq.Lemmas.SieveShapeRehash
import Ymq.Lemmas.SieveRounds
import Ymq.Lemmas.SieveRun

namespace Ymq.SieveLog
open Ymq.Sieve

/-- after `rs ≠ []` rounds (sieve the interval, `rehash`), both kinds of tables have the shape of the LAST roots. -/
theorem rehashRounds_shape {fb : FB} {nS n : Nat} {rS1 rS2 : Array Nat} (hfb : fb.WF)
    (hnS : fb.ibl[16]? = some nS) (hn0 : n ≠ 0) :
    ∀ (rs : List (Array Nat × Array Nat)) (OT OV : Nat → List Nat) (rL : Array Nat × Array Nat) (B : Nat)
      (s s' : State), Inv fb nS rS1 rS2 rL.1 rL.2 B s → s.nblocks = n → TShape fb OT n s.tables →
      LShape fb OV n s.ltables → rehashRounds fb n rs s = some s' → rs ≠ [] →
      TShape fb (offsV fb (lastRoots rs rL).1 (lastRoots rs rL).2 (n * BLOCK)) n s'.tables ∧
        LShape fb (offsV fb (lastRoots rs rL).1 (lastRoots rs rL).2 (n * BLOCK)) n s'.ltables := by
  intro rs
  induction rs with
  | nil => intro _ _ _ _ _ _ _ _ _ _ _ hne; exact absurd rfl hne
  | cons x rest ih =>
    intro OT OV rL B s s' hinv hn hT hL h _
    simp only [rehashRounds, Option.bind_eq_bind, Option.bind_eq_some_iff] at h
    obtain ⟨sa, ha, sb, hb, hrest⟩ := h
    obtain ⟨inva, _, na, _⟩ := runBlocks_spec hfb hnS n B s sa hinv ha
    obtain ⟨invb, bkb, nb, _⟩ := rehash_spec inva hb
    obtain ⟨et, elt⟩ := runBlocks_tables fb n s sa ha
    rw [← et] at hT
    rw [← elt] at hL
    obtain ⟨maxprime, _, hts, _⟩ := inva.tsize
    obtain ⟨hT', hL'⟩ := rehash_shape hfb hT hL (by rw [na, hn]) hn0
      (fun ti t ht => (inva.tabs.1 ti t ht).1) (by omega) hb
    rw [lastRoots_cons]
    by_cases hr : rest = []
    · subst hr
      simp only [rehashRounds, Option.some.injEq] at hrest
      subst hrest
      simpa [lastRoots] using And.intro hT' hL'
    · exact ih _ _ x (B + n) sb s' invb (by rw [nb, na, hn]) hT' hL' hrest hr

/-- the table term in closed form from the shapes (any offsets functions with the right membership). -/
theorem tableHits_closed_core {fb : FB} (hfb : fb.WF) {rL1 rL2 : Array Nat} (hr : RootsOK fb rL1 rL2)
    {OT OV : Nat → List Nat} {n nS b maxprime : Nat} {s : State}
    (hT : TShape fb OT n s.tables) (hL : LShape fb OV n s.ltables)
    (hmemT : ∀ X pidx p o1 o2, fb.primes[pidx]? = some p → rL1[pidx]? = some o1 → rL2[pidx]? = some o2 →
      (X ∈ OT pidx ↔ (X < n * BLOCK ∧ (X % p = o1 ∨ X % p = o2))))
    (hmemV : ∀ X pidx p o1 o2, fb.primes[pidx]? = some p → rL1[pidx]? = some o1 → rL2[pidx]? = some o2 →
      (X ∈ OV pidx ↔ (X < n * BLOCK ∧ (X % p = o1 ∨ X % p = o2))))
    (hndT : ∀ pidx p, fb.primes[pidx]? = some p → 32768 ≤ p → (OT pidx).Nodup)
    (hndV : ∀ pidx p, fb.primes[pidx]? = some p → 32768 ≤ p → (OV pidx).Nodup)
    (hndT0 : ∀ pidx, fb.primes[pidx]? = none → (OT pidx).Nodup)
    (hndV0 : ∀ pidx, fb.primes[pidx]? = none → (OV pidx).Nodup)
    (hnS : fb.ibl[16]? = some nS) (hmax : fb.primes.back? = some maxprime)
    (hts : s.tables.size = min 18 (bitlen maxprime) + 1 - 16) (hlts : s.ltables.size = bitlen maxprime + 1 - 19)
    (hblk : s.blkNo = b) (hb : b < n) {th : List (Nat × Nat)} (hth : tableHits s = some th) :
    ∀ x, x < 32768 →
      hitSum th x ≤ rangeSum (tabF fb rL1 rL2 (n * BLOCK) (b * BLOCK + x)) nS (fb.primes.size - nS) ∧
      ((∀ (ti : Nat) (t : Table), s.tables[ti]? = some t → t.nOverflows = 0) →
        (∀ (ti : Nat) (t : LTable), s.ltables[ti]? = some t → t.overflows.size = 0) →
        hitSum th x = rangeSum (tabF fb rL1 rL2 (n * BLOCK) (b * BLOCK + x)) nS (fb.primes.size - nS)) := by
  have hnd : ∀ (O : Nat → List Nat), (∀ pidx p, fb.primes[pidx]? = some p → 32768 ≤ p → (O pidx).Nodup) →
      (∀ pidx, fb.primes[pidx]? = none → (O pidx).Nodup) →
      ∀ (base tidx idx1 : Nat), 16 ≤ base → fb.ibl[tidx + base]? = some idx1 → ∀ pidx, idx1 ≤ pidx → (O pidx).Nodup := by
    intro O h1 h0 base tidx idx1 hbase hi pidx hle
    cases hp : fb.primes[pidx]? with
    | none => exact h0 pidx hp
    | some p => exact h1 pidx p hp (big_of_class hfb (by omega) hi hle hp)
  have hndT' := fun tidx idx1 => hnd OT hndT hndT0 16 tidx idx1 (le_refl _)
  have hndV' := fun tidx idx1 => hnd OV hndV hndV0 19 tidx idx1 (by omega)
  have hTL : s.tables.size = 0 → s.ltables.size = 0 := by omega
  intro x hx'
  have hxB : x < BLOCK := by simp only [BLOCK]; exact hx'
  have hcol := allClassSum_collapse (interval := n * BLOCK) (X := s.blkNo * BLOCK + x) hfb hr hnS hmax hts hlts
    OT OV (fun pidx p o1 o2 hp h1 h2 => hmemT _ pidx p o1 o2 hp h1 h2)
    (fun pidx p o1 o2 hp h1 h2 => hmemV _ pidx p o1 o2 hp h1 h2)
  rw [hblk] at hcol
  constructor
  · have := tableHits_rel (fun a b => a ≤ b) List.Sublist (le_refl 0) (fun a b c d h1 h2 => Nat.add_le_add h1 h2)
      (x := x) (fun a b m hab => hitSum_sublist (hab.map m) x) hT.sub hL.sub (by omega) hTL hndT' hndV' hxB hth
    rw [hblk, hcol] at this
    exact this
  · intro hzT hzL
    have := tableHits_rel (fun a b => a = b) Eq rfl (fun a b c d h1 h2 => by rw [h1, h2])
      (x := x) (fun a b m hab => by rw [hab]) (hT.eq hzT) (hL.eq hzL) (by omega) hTL hndT' hndV' hxB hth
    rw [hblk, hcol] at this
    exact this

end Ymq.SieveLog
