/-
Model of the shared-store protocol used by the multi-threaded sieves (src/siqs.rs:125-233,
src/mpqs.rs:166-190,672-698, src/qsieve.rs, src/classgroup.rs): workers own disjoint lists of
work units (A values / polynomial blocks); every unit adds its relations to the shared store,
each `add` being atomic (it happens under the `RwLock` write lock); completion flags
(`done`, `gap`, `target`: Relaxed atomics) are only read to decide whether to stop early and
may be observed stale.

The model is generic in the store (`σ`, `add`) and in the completion test (`enough`), so that
the relation store of C11 can be plugged in. A schedule is an arbitrary list of
(worker index, stale?, abort?) triples: the scheduler picks which worker performs its next atomic
action, whether a flag read in that action misses an update made by another thread, and what the
caller's abort predicate answers if the action polls it.
No Mathlib import.
-/
namespace Ymq.Sched

variable {ρ σ : Type}

/-- atomic actions of a worker -/
inductive Act (ρ : Type)
  | poll             -- start of a work unit: `done.load() || prefs.abort()`; exit when either is seen
  | check            -- read the `done` flag (possibly stale); exit when it is seen set
  | add (r : ρ)      -- `rels.write().unwrap().add(r)`
  | publish          -- completion check: read the store under the read lock, maybe set `done`
  deriving Repr, DecidableEq

/-- a worker's program: for each work unit, the relations it finds (an input: which relations
a polynomial yields is number theory, not scheduling) -/
def compile : List (List ρ) → List (Act ρ)
  | [] => []
  | u :: us => Act.poll :: Act.check :: (u.map Act.add ++ (Act.publish :: compile us))

structure Cfg (ρ σ : Type) where
  store : σ
  log : List ρ                  -- ghost: the linearised history of adds (lock order)
  done : Bool
  pcs : List (List (Act ρ))     -- remaining actions of each worker ([] = finished)

def setPc (pcs : List (List (Act ρ))) (w : Nat) (v : List (Act ρ)) : List (List (Act ρ)) :=
  pcs.set w v

/-- one scheduling step: worker `w` performs its next atomic action; `stale` says whether a flag
read performed by this action misses a concurrent `true` (Relaxed atomics give no freshness);
`abort` is what the caller's abort predicate answers if this action polls it (the predicate is
arbitrary: the schedule carries its answers) -/
def step (add : σ → ρ → σ) (enough : σ → Bool) (c : Cfg ρ σ) (w : Nat) (stale abort : Bool) : Cfg ρ σ :=
  match c.pcs[w]? with
  | none => c
  | some [] => c
  | some (Act.poll :: rest) =>
    if abort || (c.done && !stale) then { c with pcs := setPc c.pcs w [] }
    else { c with pcs := setPc c.pcs w rest }
  | some (Act.check :: rest) =>
    if c.done && !stale then { c with pcs := setPc c.pcs w [] }
    else { c with pcs := setPc c.pcs w rest }
  | some (Act.add r :: rest) =>
    { c with store := add c.store r, log := c.log ++ [r], pcs := setPc c.pcs w rest }
  | some (Act.publish :: rest) =>
    { c with done := c.done || enough c.store, pcs := setPc c.pcs w rest }

def run (add : σ → ρ → σ) (enough : σ → Bool) (c : Cfg ρ σ) : List (Nat × Bool × Bool) → Cfg ρ σ
  | [] => c
  | (w, st, ab) :: sched => run add enough (step add enough c w st ab) sched

def init (s0 : σ) (progs : List (List (List ρ))) : Cfg ρ σ :=
  { store := s0, log := [], done := false, pcs := progs.map compile }

/-- number of atomic actions still to be performed -/
def remaining (c : Cfg ρ σ) : Nat := (c.pcs.map List.length).sum

def finished (c : Cfg ρ σ) : Bool := c.pcs.all List.isEmpty

/-- the relations a list of pending actions may still add -/
def pendingAdds : List (Act ρ) → List ρ
  | [] => []
  | Act.add r :: rest => r :: pendingAdds rest
  | Act.poll :: rest => pendingAdds rest
  | Act.check :: rest => pendingAdds rest
  | Act.publish :: rest => pendingAdds rest

/-- number of actions up to and including the next abort poll (0 for a finished worker): what
is left of the current work unit -/
def untilPoll : List (Act ρ) → Nat
  | [] => 0
  | Act.poll :: _ => 1
  | Act.check :: rest => 1 + untilPoll rest
  | Act.add _ :: rest => 1 + untilPoll rest
  | Act.publish :: rest => 1 + untilPoll rest

/-- work that can still happen after an abort request: the remainders of the current units -/
def abortBudget (c : Cfg ρ σ) : Nat := (c.pcs.map untilPoll).sum

end Ymq.Sched
