/- `Integer::extended_gcd` on i64: the classical half-size bound of the returned cofactors
(`2 |s| <= Y`, `2 |t| <= X` unless `X = Y`), from the last quotient being at least 2. -/
import Ymq.Lemmas.GcdTotal

namespace Ymq.Gcd

/-- `egcd_col` with the explicit size of the new cofactor -/
theorem egcd_col2 {s0 s1 : Int} {a r q Z : Nat} {b : Int} (hb : b = a * q + r) (ha : 0 < a)
    (hs : s0 * s1 ≤ 0) (es : |s0| * b + |s1| * a = Z) :
    (s1 - q * s0) * s0 ≤ 0 ∧ |s1 - q * s0| * a + |s0| * r = Z ∧ |s1 - q * s0| ≤ Z ∧
    |(q : Int) * s0| ≤ Z ∧ |s1 - q * s0| = q * |s0| + |s1| := by
  obtain ⟨h1, h2, h3, h4⟩ := egcd_col hb ha hs es
  refine ⟨h1, h2, h3, h4, ?_⟩
  rw [abs_sub_comm]
  exact abs_mul_sub_opp (Int.natCast_nonneg _) (by linarith [mul_comm s0 s1])

theorem egcdLoop_total2 (X Y : Nat) (hX : X < 9223372036854775808) (hYX : Y ≤ X) :
    ∀ (f a b : Nat) (s0 s1 t0 t1 : Int), a ≤ b → b ≤ X →
    s0 * s1 ≤ 0 → t0 * t1 ≤ 0 → |s0| * b + |s1| * a = Y → |t0| * b + |t1| * a = X →
    |s0| ≤ Y → |s1| ≤ Y → |t0| ≤ X → |t1| ≤ X → a * b < 2 ^ f →
    (a < b ∨ (|s0| ≤ |s1| ∧ X = Y ∧ |t0| ≤ 1)) →
    (a = 0 → 2 * |s1| ≤ |s0| ∧ (2 * |t1| ≤ |t0| ∨ (X = Y ∧ |t1| ≤ 1))) →
    ∃ g s t, egcdLoop (f + 1) a b s0 s1 t0 t1 = some (g, s, t) ∧ |s| ≤ Y ∧ |t| ≤ X ∧
      2 * |s| ≤ Y ∧ (2 * |t| ≤ X ∨ (X = Y ∧ |t| ≤ 1)) := by
  intro f
  induction f with
  | zero =>
    intro a b s0 s1 t0 t1 hab hbX _ _ _ _ bs0 hs1 bt0 ht1 hm _ hfin
    have ha : a = 0 := by
      have : a * b = 0 := by simpa using hm
      rcases Nat.mul_eq_zero.1 this with h | h <;> omega
    obtain ⟨f1, f2⟩ := hfin ha
    subst ha
    refine ⟨_, _, _, egcdLoop_exit 0 _ _ _ _ _ (Int.natCast_nonneg b), hs1, ht1, by linarith, ?_⟩
    rcases f2 with f2 | f2
    · left; linarith
    · right; exact f2
  | succ f ih =>
    intro a b s0 s1 t0 t1 hab hbX hs ht es et bs0 bs1 bt0 bt1 hm hK hfin
    by_cases ha : a = 0
    · obtain ⟨f1, f2⟩ := hfin ha
      subst ha
      refine ⟨_, _, _, egcdLoop_exit _ _ _ _ _ _ (Int.natCast_nonneg b), bs1, bt1, by linarith, ?_⟩
      rcases f2 with f2 | f2
      · left; linarith
      · right; exact f2
    · have hapos : 0 < a := Nat.pos_of_ne_zero ha
      have hdm := Nat.div_add_mod b a
      have hmod := two_mod_le hapos hab
      have hrlt : b % a < a := Nat.mod_lt _ hapos
      have hqle : b / a ≤ b := Nat.div_le_self _ _
      have hq1 : 1 ≤ b / a := (Nat.le_div_iff_mul_le hapos).2 (by omega)
      have hq2 : a < b → b % a = 0 → 2 ≤ b / a := by
        intro hlt hr0
        by_contra hq
        have : b / a = 1 := by omega
        rw [this, hr0] at hdm
        omega
      have etd : (b : Int).tdiv a = ((b / a : Nat) : Int) := (Int.ofNat_tdiv b a).symm
      generalize b / a = q at *
      generalize b % a = r at *
      have hbI : (b : Int) = a * q + r := by exact_mod_cast hdm.symm
      obtain ⟨k1, k2, k3, k4, k5⟩ := egcd_col2 hbI hapos hs es
      obtain ⟨l1, l2, l3, l4, l5⟩ := egcd_col2 hbI hapos ht et
      have hYI : (Y : Int) ≤ X := by omega
      have hrem : (b : Int) - q * a = r := by rw [hbI]; ring
      have hqaN : q * a ≤ b := by rw [Nat.mul_comm]; omega
      have c0 : chkI64 ((b : Int).tdiv a) = some (q : Int) := by
        rw [etd]; exact chkI64_of_abs hX (by rw [abs_of_nonneg (Int.natCast_nonneg q)]; omega)
      have c1 : chkI64 ((q : Int) * a) = some ((q : Int) * a) := by
        have e : (q : Int) * a = ((q * a : Nat) : Int) := by push_cast; ring
        rw [e]; exact chkI64_of_abs hX (by rw [abs_of_nonneg (Int.natCast_nonneg _)]; omega)
      have c2 := chkI64_of_abs hX (le_trans k4 hYI)
      have c3 := chkI64_of_abs hX l4
      have c4 : chkI64 ((b : Int) - q * a) = some ((b : Int) - q * a) := by
        rw [hrem]; exact chkI64_of_abs hX (by rw [abs_of_nonneg (Int.natCast_nonneg r)]; omega)
      have c5 := chkI64_of_abs hX (le_trans k3 hYI)
      have c6 := chkI64_of_abs hX l3
      have ha0 : (a : Int) ≠ 0 := by omega
      rw [egcdLoop_step (f + 1) a b s0 s1 t0 t1 q ha0 c0 c1 c2 c3 c4 c5 c6, hrem]
      refine ih r a (s1 - q * s0) s0 (t1 - q * t0) t0 (by omega) (by omega) k1 l1 k2 l2 k3 bs0 l3 bt0 ?_
        (Or.inl hrlt) ?_
      · have e : 2 ^ (f + 1) = 2 ^ f * 2 := Nat.pow_succ _ _
        rw [e] at hm
        have : 2 * (r * a) ≤ a * b := by
          calc 2 * (r * a) = a * (2 * r) := by ring
            _ ≤ a * b := Nat.mul_le_mul_left _ hmod
        omega
      · intro hr0
        have hs0n := abs_nonneg s0
        have hs1n := abs_nonneg s1
        have ht0n := abs_nonneg t0
        have ht1n := abs_nonneg t1
        rw [k5, l5]
        rcases hK with hlt | ⟨hss, hXY, ht01⟩
        · have hq2' : (2 : Int) ≤ q := by exact_mod_cast hq2 hlt hr0
          have m1 := mul_le_mul_of_nonneg_right hq2' hs0n
          have m2 := mul_le_mul_of_nonneg_right hq2' ht0n
          exact ⟨by linarith, Or.inl (by linarith)⟩
        · have hq1' : (1 : Int) ≤ q := by exact_mod_cast hq1
          have m1 := mul_le_mul_of_nonneg_right hq1' hs0n
          exact ⟨by linarith, Or.inr ⟨hXY, ht01⟩⟩

/-- `Integer::extended_gcd(x0, y0)` for `0 < y0 <= x0 < 2^63`: half-size cofactors -/
theorem egcdI64_total2 {X Y : Nat} (hX : X < 9223372036854775808) (hY : 0 < Y) (hYX : Y ≤ X) :
    ∃ g s t, egcdI64 X Y = some (g, s, t) ∧ |s| ≤ Y ∧ |t| ≤ X ∧ 2 * |s| ≤ Y ∧
      (2 * |t| ≤ X ∨ (X = Y ∧ |t| ≤ 1)) := by
  have hm : Y * X < 2 ^ 199 := by
    have h1 : Y * X < 2 ^ 63 * 2 ^ 63 :=
      Nat.mul_lt_mul_of_lt_of_le (by omega) (by omega) (by norm_num)
    have h2 : (2 : Nat) ^ 63 * 2 ^ 63 ≤ 2 ^ 199 := by norm_num
    omega
  exact egcdLoop_total2 X Y hX hYX 199 Y X 0 1 1 0 hYX (Nat.le_refl _) (by simp) (by simp)
    (by simp) (by simp) (by simp) (by simp; omega) (by simp; omega) (by simp) hm
    (by rcases Nat.lt_or_ge Y X with h | h
        · exact Or.inl h
        · exact Or.inr ⟨by simp, by omega, by simp⟩)
    (fun h0 => by omega)

end Ymq.Gcd
