import Ymq.Drv.Util
import Ymq.Model.Factor

/-!
Replay of the factoring control-flow model against a recorded trace of sub-algorithm results.
request: `factor_replay n alg trace`, trace = events joined by `;`, fields joined by `:`
  (`pp:n:none`, `pp:n:p:k`, `prime:n:true`, `rho:n:a1,a2:b`, `rho:n:none`, `sieve:n:ok:d1,d2`,
   `sieve:n:unexpected:d`, `abort:n:false`, ...), `-` = empty trace.
answer: `ok f1,f2,..` | `failure` | `panic` | `fuel` | `trace-miss <site>` (the model asked for a
sub-algorithm result that the real run did not record: control flow diverged) |
`trace-left <k>` (events not consumed).
-/
namespace Ymq.Drv
open Ymq.Factor

structure Tr where
  evs : List (List String)
  miss : Option String := none

/-- find and consume the first event `site:n:...`; payload = remaining fields -/
def Tr.take (t : Tr) (site : String) (n : Nat) : Option (List String) × Tr :=
  let rec go : List (List String) → List (List String) → Option (List String × List (List String))
    | _, [] => none
    | acc, e :: es =>
      match e with
      | s :: m :: rest => if s = site ∧ m = toString n then some (rest, acc.reverse ++ es) else go (e :: acc) es
      | _ => go (e :: acc) es
  match go [] t.evs with
  | some (p, evs) => (some p, { t with evs := evs })
  | none => (none, { t with miss := t.miss.or (some s!"{site}:{n}") })

def pairOf : List String → Option (Nat × Nat)
  | [a, b] => do some ((← parseNat a), (← parseNat b))
  | _ => none

def splitOf : List String → Option (List Nat × Nat)
  | [as, b] => do some ((← parseNatList as), (← parseNat b))
  | _ => none

def optPair (t : Tr) (site : String) (n : Nat) : Option (Nat × Nat) × Tr :=
  let (p, t) := t.take site n
  match p with
  | some ["none"] => (none, t)
  | some l => match pairOf l with
    | some r => (some r, t)
    | none => (none, { t with miss := t.miss.or (some s!"bad:{site}:{n}") })
  | none => (none, t)

def optSplit (t : Tr) (site : String) (n : Nat) : Option (List Nat × Nat) × Tr :=
  let (p, t) := t.take site n
  match p with
  | some ["none"] => (none, t)
  | some l => match splitOf l with
    | some r => (some r, t)
    | none => (none, { t with miss := t.miss.or (some s!"bad:{site}:{n}") })
  | none => (none, t)

def optBool (t : Tr) (site : String) (n : Nat) : Bool × Tr :=
  let (p, t) := t.take site n
  match p with
  | some ["true"] => (true, t)
  | some ["false"] => (false, t)
  | some _ => (false, { t with miss := t.miss.or (some s!"bad:{site}:{n}") })
  | none => (false, t)

def traceOracle : Oracle Tr where
  pp t n := optPair t "pp" n
  prime t n := optBool t "prime" n
  rho t n := optSplit t "rho" n
  pm1q t n := optSplit t "pm1q" n
  ecmauto t n := optPair t "ecmauto" n
  pm1 t n := optSplit t "pm1" n
  ecm t n := optPair t "ecm" n
  ecm128 t n := optPair t "ecm128" n
  qs64 t n := optPair t "qs64" n
  squfof t n := optPair t "squfof" n
  abort t n := optBool t "abort" n
  sieve t _ n :=
    let (p, t) := t.take "sieve" n
    match p with
    | some ["ok", ds] => match parseNatList ds with
      | some l => (.divs l, t)
      | none => (.divs [], { t with miss := t.miss.or (some s!"bad:sieve:{n}") })
    | some ["unexpected", d] => match parseNat d with
      | some d => (.unexpected d, t)
      | none => (.divs [], { t with miss := t.miss.or (some s!"bad:sieve:{n}") })
    | _ => (.divs [], { t with miss := t.miss.or (some s!"bad:sieve:{n}") })

def algoOf : String → Option Algo
  | "auto" => some .auto | "rho" => some .rho | "squfof" => some .squfof | "qs64" => some .qs64
  | "pm1" => some .pm1 | "ecm" => some .ecm | "ecm128" => some .ecm128 | "qs" => some .qs
  | "mpqs" => some .mpqs | "siqs" => some .siqs | _ => none

def parseTrace (s : String) : Tr :=
  if s = "-" then { evs := [] } else { evs := (s.splitOn ";").map (·.splitOn ":") }

/-- like `factor` but also reports trace misses / leftovers (diagnostics of the replay only) -/
def replay (n : Nat) (alg : Algo) (t : Tr) : String :=
  open Ymq.Gen.Primality in
  if n = 0 then "ok 0"
  else if bits n > 500 then "failure"
  else
    let (nred, fs) := trialDivideBy 1100 smallPrimes n []
    match factorImpl traceOracle 4000 nred alg { os := t, factors := fs, pm1done := false, giveups := [] } with
    | .panic _ => "panic"
    | .fuel => "fuel"
    | .ok s =>
      -- the final pseudoprime call of check_factors is recorded only when it fails
      let os : Tr := match s.factors with
        | [p] => if s.os.evs.any (fun e => e = ["prime", toString p, "false"]) then s.os
                 else { s.os with evs := s.os.evs ++ [["prime", toString p, "true"]] }
        | _ => s.os
      match os.miss with
      | some m => s!"trace-miss {m}"
      | none =>
        let r := checkFactors traceOracle os n s.factors
        let left := match s.factors with
          | [p] => (os.take "prime" p).2.evs.length
          | _ => os.evs.length
        if left ≠ 0 then s!"trace-left {left}"
        else match r with
        | .ok l => s!"ok {showList l}"
        | .failure => "failure"
        | .panic _ => "panic"
        | .fuel => "fuel"

def handleFactor : Handler
  | ["factor_replay", n, alg, tr] => do
    let n ← parseNat n
    let alg ← algoOf alg
    some (replay n alg (parseTrace tr))
  | _ => none

end Ymq.Drv
