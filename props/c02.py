"""C02 — automatic mode returns the complete prime factorization."""
from vlib.pipeline import Case
from vlib import gen
from props import factor_common as fc

PID = "C02"
GEN = ["primality"]
LEAN = ["Ymq.Props.C02", "Ymq.Props.C02C06"]
AUDIT = "Ymq.Audit.C02"
THEOREMS = ['Ymq.C02.auto_composite_needs_giveup', 'Ymq.C02.auto_composite_needs_giveup_det', 'Ymq.C02.auto_complete', 'Ymq.C02.factor_composite_needs_giveup', 'Ymq.C02.factor_auto_complete', 'Ymq.C02.auto_complete_on', 'Ymq.C02.auto_complete_64']
PROFILES = ["release"]
TIMEOUT = 300.0
RULE = ("exhaustive sweep of n < 2^22 (quick) / 2^26 (thorough) in Auto mode and smaller ranges for the other selectors, judged "
        "inside the harness by naive trial division; plus structured n with known factorisation (prime powers, squares of "
        "composites, p^2 q, many factors, tiny/close/repeated factors, factor-base primes) up to ~128 bits quick / ~200 bits "
        "thorough, threads in {none,2,4}, compared with the known multiset of primes; non-trivial = composite n; distinct by request line "
        "(a sweep request counts once; its size is reported in sweep_inputs)")
MODELLED = ["lib.rs factor_impl control flow (Ymq/Model/Factor.lean): every element of an Auto result is answered `true` by the "
            "primality oracle or is an explicit give-up event of the model"]
UNMODELLED = ["that no give-up event occurs (success of rho / ECM / SIQS) is heuristic and is explored, not proved",
              "pseudoprime's exactness is property C06"]
HYPOTHESES = ["auto_complete_64: Hpsi2, Hpsi5, Hpsi12 (minimal strong pseudoprimes 1373653, 2152302898747, > 2^64: literature facts as explicit hypotheses) and the primality oracle being the modelled pseudoprime (tied to the code under C06)", 'hsound: the primality oracle answers true only on primes (C06: exact below 2^64 under the psi hypotheses; heuristic above)', 'state-independent prime oracle (for the _det form)']
_sweep_inputs = [0]


def cases(tier, rng, extended=False):
    quick = tier == "quick"
    top = 1 << (22 if quick else 26)
    step = 1 << 18
    for lo in range(0, top, step):
        yield Case(f"factor_sweep auto {lo} {lo + step}", k=False, tag="sweep", timeout=600)
    for alg, hi in (("ecm128", 1 << 17), ("ecm", 1 << 14), ("rho", 1 << 18), ("squfof", 1 << 16)):
        yield Case(f"factor_sweep {alg} 0 {hi if quick else hi * 8}", k=False, tag="sweep", timeout=900)
    # every row of the ECM128 curve table / every band of the automatic strategy, on the inputs that are hardest for the
    # group-order methods (balanced semiprimes): a row whose curve budget is too small makes Auto give up on a small
    # fraction (~1%) of one band only, so each band gets hundreds of inputs
    per_band = (250 if quick else 1500) * (4 if extended else 1)
    for bits in (50, 52, 56, 60, 64, 66, 68, 70, 72, 76, 80):
        for _ in range(per_band):
            p = gen.rand_prime(rng, bits // 2)
            q = gen.rand_prime(rng, bits - bits // 2)
            yield Case(f"factor {p * q} auto", k=False, tag=f"band{bits}|{min(p, q)},{max(p, q)}", profiles=["release"])
    for bits in (84, 88, 96, 104, 112, 120, 128):
        for _ in range(per_band // 10):
            p = gen.rand_prime(rng, bits // 2)
            q = gen.rand_prime(rng, bits - bits // 2)
            yield Case(f"factor {p * q} auto", k=False, tag=f"band{bits}|{min(p, q)},{max(p, q)}", profiles=["release"])
    # sieves inside their working range (tiny inputs crash: findings under C03)
    count = 140 if quick else 1500
    maxbits = 128 if quick else 200
    if extended:
        count *= 4
    ins = fc.structured_inputs(rng, count, maxbits, classes=("tiny", "s16", "s32", "s52", "s64"))
    big = 0
    for inp in ins:
        b = fc.nred_bits(inp.n)
        if b > 100:
            big += 1
            if quick and big > 25:
                continue
        algs = ["auto"]
        if rng.random() < 0.35 and 48 <= b:
            algs.append(rng.choice(["qs", "mpqs", "siqs"]) if b <= 110 else "siqs")
        if rng.random() < 0.3 and b <= 100:
            algs.append("ecm" if b > 64 or rng.random() < 0.5 else "ecm128")
        for alg in algs:
            toks = []
            if rng.random() < 0.4:
                toks.append(f"threads={rng.choice([2, 4])}")
            yield Case(" ".join([f"factor {inp.n} {alg}"] + toks), k=False, tag=inp.shape + "|" + ",".join(map(str, inp.factors)))


def oracle(case, ans):
    if case.op == "factor_sweep":
        kv = dict(x.split("=") for x in ans.split()) if "=" in ans else {}
        if not kv:
            return f"sweep did not answer ({ans})"
        _sweep_inputs[0] += int(kv["n"])
        if kv["bad_product"] != "0" or kv["composite"] != "0" or kv["failure"] != "0" or kv["panic"] != "0":
            return f"sweep found a bad input, first n = {kv['first']}: {ans}"
        return None
    kind, fs, trace, md = fc.parse_answer(ans)
    expected = sorted(int(x) for x in case.tag.split("|")[1].split(","))
    if kind != "ok":
        return f"no factor list returned ({kind}) for a product of known primes {expected}"
    if fs != expected:
        comp = [f for f in fs if not gen.is_prime(f)]
        return f"returned {fs}, prime factorisation is {expected}; composite elements {comp}"
    return None


followup = fc.replay_request


def klass(case, ans):
    if case.op == "factor_sweep":
        return "sweep/" + case.args[0]
    return f"{case.args[1]}/{case.tag.split('|')[0]}/{fc.parse_answer(ans)[0]}/{min(fc.nred_bits(int(case.args[0])) // 32 * 32, 192)}b"


def nontrivial(case, ans):
    return case.op == "factor_sweep" or not gen.is_prime(int(case.args[0]))


def extra_coverage():
    return {"sweep_inputs": _sweep_inputs[0]}


CLAIM = ("Lean theorem about the control-flow model: in Auto mode every returned element was accepted by the primality test or is an "
         "explicit give-up event (Ecm128/SIQS fallback failed, trivial divisors, abort); with an exact primality test and no give-up "
         "the result is the prime factorization. That no give-up occurs is heuristic and cannot be a theorem: it is explored "
         "exhaustively for n < 2^22 (quick) and on structured inputs up to ~128 bits, with an independent primality oracle. PARTIAL.")
LEVEL_NOTE = ("Trusted: Lean kernel (+3 standard axioms); trace-replay correspondence of the model; C06 for pseudoprime. The completeness "
              "half rests on exploration, stated as such.")
TECHNIQUE = "Lean 4 proof (structural theorem over oracle model) + trace replay + exhaustive/structured exploration of the heuristic premise"


def corpus_case(line):
    req, facs = line.split("|")
    return Case(req.strip(), k=False, tag="corpus|" + facs.strip())
