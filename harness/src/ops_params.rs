//! Parameter functions and tables (C20): answered by the real code through the hook accessors.
use crate::util::*;
use bnum::cast::CastFrom;
use yamaquasi::fbase::FBase;
use yamaquasi::{Int, Uint};

/// an integer with `n.bits() == bits` and the requested truth value of `n % 8 == 1`
fn make_n(bits: u32, mod8is1: Option<bool>) -> Option<Uint> {
    let n = if bits == 0 { Uint::ZERO } else { Uint::ONE << (bits - 1) };
    let n = match mod8is1 {
        None => n,
        Some(true) => {
            if bits == 1 {
                n
            } else if bits >= 4 {
                n | Uint::ONE
            } else {
                return None;
            }
        }
        Some(false) => {
            if bits == 1 {
                return None;
            } else {
                n
            }
        }
    };
    assert!(n.bits() == bits);
    if let Some(f) = mod8is1 {
        assert!((n.digits()[0] % 8 == 1) == f);
    }
    Some(n)
}

fn table_text(t: &[(f64, u64, u64)]) -> String {
    t.iter()
        .map(|r| format!("{}:{}:{}", r.0 as u64, r.1, r.2))
        .collect::<Vec<_>>()
        .join(",")
}

fn param(f: &str, a: &[&str]) -> Option<String> {
    use yamaquasi::{classgroup, mpqs, params, qsieve, siqs};
    let bits = u32_of(a.first()?)?;
    let flag = |i: usize| -> Option<bool> { bool_of(a.get(i)?) };
    let n = || make_n(bits, None);
    let r = match (f, a.len()) {
        ("params::select_fb_size", 3) => {
            params::verif_hooks::vh_select_fb_size(bits, flag(1)?, u64_of(a[2])? as usize).to_string()
        }
        ("params::factor_base_size", 1) => params::factor_base_size(&n()?).to_string(),
        ("params::qs_fb_size", 2) => params::qs_fb_size(bits, flag(1)?).to_string(),
        ("params::mpqs_fb_size", 2) => params::mpqs_fb_size(bits, flag(1)?).to_string(),
        ("params::clsgrp_fb_size", 2) => params::clsgrp_fb_size(bits, flag(1)?).to_string(),
        ("siqs::fb_size", 3) => {
            siqs::verif_hooks::vh_fb_size(&make_n(bits, Some(flag(2)?))?, flag(1)?).to_string()
        }
        ("siqs::nfactors", 1) => siqs::verif_hooks::vh_nfactors(&n()?).to_string(),
        ("siqs::a_value_count", 1) => siqs::verif_hooks::vh_a_value_count(&n()?).to_string(),
        ("siqs::a_tolerance_divisor", 1) => siqs::verif_hooks::vh_a_tolerance_divisor(&n()?).to_string(),
        ("siqs::interval_size", 2) => siqs::verif_hooks::vh_interval_size(&n()?, flag(1)?).to_string(),
        ("siqs::large_prime_factor", 1) => siqs::verif_hooks::vh_large_prime_factor(&n()?).to_string(),
        ("siqs::double_large_factor", 1) => siqs::verif_hooks::vh_double_large_factor(&n()?).to_string(),
        ("mpqs::mpqs_interval_size", 1) => mpqs::verif_hooks::vh_mpqs_interval_size(&n()?).to_string(),
        ("mpqs::large_prime_factor", 1) => mpqs::verif_hooks::vh_large_prime_factor(&n()?).to_string(),
        ("mpqs::double_large_factor", 1) => mpqs::verif_hooks::vh_double_large_factor(&n()?).to_string(),
        ("qsieve::large_prime_factor", 1) => qsieve::large_prime_factor(&n()?).to_string(),
        ("qsieve::max_large_prime", 2) => qsieve::max_large_prime(bits, u64_of(a[1])?).to_string(),
        ("qsieve::nblocks", 1) => {
            // any factor base will do: nblocks only reads n.bits()
            let n = n()?;
            let fb = FBase::new(Int::cast_from(n), 16);
            qsieve::verif_hooks::vh_nblocks(&n, &fb).to_string()
        }
        ("classgroup::a_params", 1) => {
            let (c, k) = classgroup::verif_hooks::vh_a_params(bits);
            format!("{c},{k}")
        }
        ("classgroup::interval_size", 1) => classgroup::verif_hooks::vh_interval_size(bits).to_string(),
        ("classgroup::large_prime_factor", 1) => classgroup::verif_hooks::vh_large_prime_factor(bits).to_string(),
        ("classgroup::double_large_factor", 1) => {
            // negative discriminant of that size
            let d = -Int::cast_from(n()?);
            classgroup::verif_hooks::vh_double_large_factor(&d).to_string()
        }
        ("arith_fft::mzp_w", 2) => {
            let n = make_n(bits, None)? | Uint::ONE;
            if n.bits() != bits {
                return None;
            }
            let zn = yamaquasi::arith_montgomery::ZmodN::new(n);
            let mzp = yamaquasi::arith_fft::MultiZmodP::new(&zn, u32_of(a[1])?);
            yamaquasi::arith_fft::verif_hooks::vh_mzp_w(&mzp).to_string()
        }
        _ => return None,
    };
    Some(r)
}

pub fn handle(op: &str, a: &[&str]) -> Option<String> {
    match (op, a) {
        ("param", [f, rest @ ..]) => param(f, rest),
        ("stage2", [t, num, den]) => {
            let b2 = u64_of(num)? as f64 / u64_of(den)? as f64;
            let (b, d1, d2) = match *t {
                "ecm" => yamaquasi::params::stage2_params(b2),
                "pm1" => yamaquasi::pollard_pm1::verif_hooks::vh_stage2_params(b2),
                _ => return None,
            };
            if b != (b as u64) as f64 {
                return Some("non-integral-b2".to_string());
            }
            Some(format!("{},{},{}", b as u64, d1, d2))
        }
        ("stage2_table", [t]) => match *t {
            "ecm" => Some(table_text(yamaquasi::params::verif_hooks::vh_stage2_table())),
            "pm1" => Some(table_text(yamaquasi::pollard_pm1::verif_hooks::vh_stage2_table())),
            _ => None,
        },
        ("ntt_primes", []) => Some(
            yamaquasi::arith_fft::verif_hooks::vh_ntt_primes()
                .iter()
                .map(|(p, r)| format!("{p}:{r}"))
                .collect::<Vec<_>>()
                .join(","),
        ),
        // consumer run: FBase::new with the requested size on a number of that many bits;
        // answers `len,maxprime`.
        ("fbase_new", [bits, size]) => {
            let n = make_n(u32_of(bits)?, None)? | Uint::ONE;
            let fb = FBase::new(Int::cast_from(n), u32_of(size)?);
            Some(format!("{},{}", fb.len(), fb.bound()))
        }
        // consumer run: the real convolve_modn on `bits`-bit coefficients and size 2^k
        // (answers `ok` when it returns; the values are C10's business).
        ("convolve_run", [bits, k]) => {
            use yamaquasi::arith_montgomery::ZmodN;
            let bits = u32_of(bits)?;
            let size = 1usize << u32_of(k)?;
            if bits < 2 {
                return None;
            }
            let n = make_n(bits, None)? | Uint::ONE;
            let zn = ZmodN::new(n);
            let p1: Vec<_> = (0..size)
                .map(|i| zn.from_int(Uint::from(i as u64 + 1) % n))
                .collect();
            let p2 = p1.clone();
            let mut res = vec![zn.zero(); size];
            yamaquasi::arith_fft::convolve_modn(&zn, size, &p1, &p2, &mut res, 0);
            Some("ok".to_string())
        }
        // consumer run for classical QS: factor base of the size chosen by the real parameter
        // function, maxlarge from the real qsieve::max_large_prime, then one call of fbase::cofactor
        // (the routine every sieve report goes through) with that maxlarge.
        // answers `fb_len,maxprime,maxlarge,ok`.
        ("qs_consumer", [bits, use_double]) => {
            let bits = u32_of(bits)?;
            let d = bool_of(use_double)?;
            let n = make_n(bits, None)? | Uint::from(3u64);
            let fbsz = yamaquasi::params::qs_fb_size(bits, d);
            let fb = FBase::new(Int::cast_from(n), fbsz);
            let maxlarge = yamaquasi::qsieve::max_large_prime(fb.bound(), yamaquasi::qsieve::large_prime_factor(&n));
            let x = yamaquasi::arith::I256::from(2147483647_i64); // a prime above every factor base
            let r = yamaquasi::fbase::cofactor(&fb, &x, &[], maxlarge, d);
            Some(format!("{},{},{},{}", fb.len(), fb.bound(), maxlarge, if r.is_some() { "some" } else { "none" }))
        }
        _ => None,
    }
}
