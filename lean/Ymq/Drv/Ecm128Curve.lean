import Ymq.Drv.Util
import Ymq.Drv.Chain
import Ymq.Drv.EcmCurve
import Ymq.Drv.Suyama
import Ymq.Model.Ecm128Curve

/-!
Driver for the model of `ecm128::ecm_curve` / `ecm128::ecm` (Model/Ecm128Curve.lean) over canonical residues modulo `n`:
the translated formulas `e128*` of Gen/Curves.lean as point operations, the curve selection of C15 (`Suyama.select128`).
-/
namespace Ymq.Drv
open Ymq.Ecm128Curve Ymq.Gen.Curves Ymq.Chain

def zn128Env (n : Nat) (g : Pt (Zn n)) : Ymq.Ecm128Curve.Env (Pt (Zn n)) (Ext (Zn n)) (Zn n) where
  ops := curveOps128 g negExt
  n := n
  xv := fun p => p.x.v
  yz := fun p => (p.y, p.z)
  one := 1
  mul := (· * ·)
  sub := (· - ·)
  val := fun x => x.v
  valid := fun e => let s := e128IsValidSides g e; s.1.v == s.2.v

def handleEcm128Curve : Handler
  -- one run of `ecm128::ecm_curve` on the curve through the generator `(x : y : z)`
  | ["e128_curve", n, x, y, z, b1, b2] => do
    let n ← parseNat n; let b1 ← parseNat b1; let b2 ← parseNat b2
    let r := fun s => (parseNat s).map (Zn.mk' n)
    let g : Pt (Zn n) := ⟨← r x, ← r y, ← r z⟩
    some (showRet (ecmCurveB (zn128Env n g) b1 b2 g))
  -- the same with explicit exponent blocks
  | ["e128_curve_raw", n, x, y, z, fs, b2] => do
    let n ← parseNat n; let b2 ← parseNat b2
    let fs ← parseNatList fs
    let r := fun s => (parseNat s).map (Zn.mk' n)
    let g : Pt (Zn n) := ⟨← r x, ← r y, ← r z⟩
    if fs.any (· ≥ W) then none else
    match Ymq.Gen.Stage2.stage2Select b2 1 with
    | none => some "panic"
    | some (_, d1, d2) => some (showRet (ecmCurve (zn128Env n g) fs d1 d2 g))
  -- stage 1 without the exits: the point after all blocks of `SmoothBase::new(b1, false)`
  | ["e128_stage1", n, x, y, z, b1] => do
    let n ← parseNat n; let b1 ← parseNat b1
    let r := fun s => (parseNat s).map (Zn.mk' n)
    let g : Pt (Zn n) := ⟨← r x, ← r y, ← r z⟩
    match Ymq.SmoothBase.new b1 false with
    | none => some "panic"
    | some (fs, _) => some (showOptPt (stage1Point (curveOps128 g negExt) fs g))
  -- the baby and giant tables and the normalised `y` coordinates
  | ["e128_tables", n, x, y, z, d1, d2] => do
    let n ← parseNat n; let d1 ← parseNat d1; let d2 ← parseNat d2
    let r := fun s => (parseNat s).map (Zn.mk' n)
    let g : Pt (Zn n) := ⟨← r x, ← r y, ← r z⟩
    let o := curveOps128 g negExt
    match babySteps o d1 g, giantSteps o d1 d2 g with
    | some bs, some gs =>
      let ys := Ymq.EcmCurve.normY (· * ·) ((bs ++ gs).map fun p => (p.y, p.z))
      some s!"{showPts bs} ; {showPts gs} ; {showList (ys.map (·.v))}"
    | _, _ => some "panic"
  -- `ecm128::ecm(n, curves, b1, b2)`: selection of every seed (C15 `select128`) and the curve runs
  | ["e128_ecm", n, curves, b1, b2] => do
    let n ← parseNat n; let curves ← parseNat curves; let b1 ← parseNat b1; let b2 ← parseNat b2
    let ctx := znCtx n
    match Suyama.suyamaNew false ctx with
    | .ok (a, b, gx, gy) =>
      let pick : Nat → Pick (Pt (Zn n)) := fun s =>
        match Suyama.select128 ctx a b gx gy s with
        | .gen g => .gen g
        | .factor p => .factor p
        | .skip => .skip
        | .panic => .panic
      some (showRet (Ymq.Ecm128Curve.ecm n curves pick (fun g => ecmCurveB (zn128Env n g) b1 b2 g)))
    | _ => some "panic"
  | _ => none

end Ymq.Drv
