import Ymq.Props.C12
#print axioms Ymq.C12.siqs_identity
