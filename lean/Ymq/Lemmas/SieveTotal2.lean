/-
C13 helper lemmas: totality (no panic) for recycled tables, `rehash` and `fbase::cofactor`.
-/
import Ymq.Lemmas.SieveTotal
import Ymq.Lemmas.SieveCofactor
import Ymq.Lemmas.MillerMont
import Mathlib.FieldTheory.Finite.Basic

namespace Ymq.Sieve

/-! ### recycled tables -/

/-- recycled tables come from a sieve over the same factor base with the same number of blocks
(the documented requirement of `Sieve::new`: "it should originate from a sieve with the same factor
base and number of blocks"); their contents are arbitrary. -/
def RecycledSized (fb : FB) (n : Nat) (recycled : Option (Array Table × Array LTable)) : Prop :=
  ∀ ts lts, recycled = some (ts, lts) →
    (∃ maxprime, fb.primes.back? = some maxprime ∧ ts.size = min 18 (bitlen maxprime) + 1 - 16 ∧
      lts.size = bitlen maxprime + 1 - 19) ∧
    (∀ (i : Nat) (t : Table), ts[i]? = some t → t.Sized n) ∧
    (∀ (i : Nat) (t : LTable), lts[i]? = some t → t.Sized n)

theorem RecycledSized.ok {fb : FB} {n : Nat} {recycled : Option (Array Table × Array LTable)}
    (h : RecycledSized fb n recycled) : RecycledOK recycled :=
  fun ts lts hr i t ht => ((h ts lts hr).2.1 i t ht).2.2.2

theorem newTables_some {fb : FB} {n maxprime : Nat} {recycled : Option (Array Table × Array LTable)}
    (hmax : fb.primes.back? = some maxprime) (h : RecycledSized fb n recycled) :
    ∃ T0 L0, newTables n (bitlen maxprime) recycled = some (T0, L0) ∧
      T0.size = min 18 (bitlen maxprime) + 1 - 16 ∧ L0.size = bitlen maxprime + 1 - 19 ∧
      (∀ (i : Nat) (t : Table), T0[i]? = some t → t.Sized n) ∧
      (∀ (i : Nat) (t : LTable), L0[i]? = some t → t.Sized n) := by
  cases recycled with
  | none =>
    refine ⟨_, _, rfl, by simp [VLARGE_LOG, LARGE_LOG], by simp [VLARGE_LOG],
      fun i t ht => by rw [getElem?_replicate_eq ht]; exact Table.new_sized _,
      fun i t ht => by rw [getElem?_replicate_eq ht]; exact LTable.new_sized _⟩
  | some r =>
    obtain ⟨ts, lts⟩ := r
    obtain ⟨⟨mp, hmp, hts, hls⟩, hT, hL⟩ := h ts lts rfl
    rw [hmax] at hmp
    have := Option.some.inj hmp; subst this
    have c1 : ¬ ts.size ≠ (min (max (bitlen maxprime + 1) LARGE_LOG) VLARGE_LOG) - LARGE_LOG := by
      simp only [LARGE_LOG, VLARGE_LOG, ne_eq, not_not]; omega
    have c2 : ¬ (ts.any fun t => decide (t.entries.size ≠ N_ENTRIES * n)) = true := by
      simp only [Bool.not_eq_true]
      rw [Array.any_eq_false]
      intro i hi
      have := (hT i _ (Array.getElem?_eq_getElem hi)).1
      simp [N_ENTRIES, this]
    have c3 : ¬ lts.size ≠ max (bitlen maxprime + 1) VLARGE_LOG - VLARGE_LOG := by
      simp only [VLARGE_LOG, ne_eq, not_not]; omega
    refine ⟨ts.map Table.reset, lts.map LTable.reset, ?_, by simpa using hts, by simpa using hls, ?_, ?_⟩
    · unfold newTables
      simp only
      rw [if_neg c1, if_neg c2, if_neg c3]
    · intro i t ht
      rw [Array.getElem?_map] at ht
      simp only [Option.map_eq_some_iff] at ht
      obtain ⟨t', ht', rfl⟩ := ht
      exact Table.reset_sized (hT i t' ht')
    · intro i t ht
      rw [Array.getElem?_map] at ht
      simp only [Option.map_eq_some_iff] at ht
      obtain ⟨t', ht', rfl⟩ := ht
      exact LTable.reset_sized (hL i t' ht')

/-- `Sieve::new` returns on valid inputs, with fresh or recycled tables. -/
theorem new_total' {fb : FB} {r1 r2 : Array Nat} {offset : Int} {nblocks nS : Nat}
    {recycled : Option (Array Table × Array LTable)}
    (hfb : fb.WF) (hne : fb.primes.size ≠ 0) (hr : RootsOK fb r1 r2) (hd : RootsDistinct fb r1 r2)
    (hN : nblocks ≤ 2 ^ 17) (hnS : fb.ibl[16]? = some nS) (hrec : RecycledSized fb nblocks recycled) :
    ∃ s, new offset nblocks fb r1 r2 recycled = some s ∧ StateSized nblocks s ∧ s.idxskip ≤ 2 * nS := by
  have hback : fb.primes.back? = some fb.primes[fb.primes.size - 1] := by
    rw [Array.back?_eq_getElem?]; exact Array.getElem?_eq_getElem (by omega)
  generalize hmp : fb.primes[fb.primes.size - 1] = maxprime at hback
  have hml : bitlen maxprime ≤ 24 := by
    have := hfb.lt24 (fb.primes.size - 1) maxprime (by rw [← hmp]; exact Array.getElem?_eq_getElem (by omega))
    have := (bitlen_lt_succ_iff maxprime 24).2 this
    omega
  obtain ⟨v0, hv0⟩ := hfb.ibl_some 0 (by omega)
  have hv00 : v0 = 0 := by
    by_contra hc
    have hle := hfb.ibl_le _ _ hv0
    obtain ⟨p, hp⟩ := hfb.prime_at (i := 0) (by omega)
    have := (hfb.ibl_spec 0 0 v0 p hv0 hp).1 (by omega)
    omega
  subst hv00
  have hbig : ¬ nblocks * BLOCK ≥ 2 ^ 62 := by simp only [BLOCK]; omega
  obtain ⟨T0, L0, hnt, hTs, hLs, hT, hL⟩ := newTables_some hback hrec
  obtain ⟨st, hf, hinv⟩ := foldlM_range_some (newStep fb r1 r2 (nblocks * BLOCK))
    (NewInv fb nblocks T0 L0) (bitlen maxprime + 1) 0
    (fun log _ hl st hst => newStep_some hfb hr hd hTs hLs hml (by omega) hst)
    (#[], T0, L0) ⟨⟨0, by simpa using hv0, by simp⟩, rfl, hT, rfl, hL⟩
  obtain ⟨offs, tables, ltables⟩ := st
  obtain ⟨_, _, htz, _, hlz⟩ := hinv
  simp only at htz hlz
  refine ⟨{ offset := offset, nblocks := nblocks, blkNo := 0,
            idxskip := 2 * ((fb.primes.toList.findIdx? (fun p => decide (p > pskip fb.primes.size))).getD fb.primes.size),
            lo := offs, loPrev := offs, tables := tables, ltables := ltables }, ?_, ⟨rfl, htz, hlz⟩, ?_⟩
  · unfold new
    simp only [LARGE_LOG] at hnS ⊢
    simp only [hnS, hback, hnt, hbig, if_false, Option.bind_eq_bind, Option.bind_some, Option.pure_def]
    rw [hf]
    rfl
  · simp only
    have := idxskip_le hfb hnS (pskip fb.primes.size) (by unfold pskip; split_ifs <;> omega)
    omega

/-- the tables of any state reached by the model can be recycled. -/
theorem recycle_sized {fb : FB} {nS n : Nat} {rS1 rS2 rL1 rL2 : Array Nat} {B : Nat} {s : State}
    (hinv : Inv fb nS rS1 rS2 rL1 rL2 B s) (hsz : StateSized n s) : RecycledSized fb n (some (recycle s)) := by
  intro ts lts h
  simp only [recycle, Option.some.injEq, Prod.mk.injEq] at h
  obtain ⟨rfl, rfl⟩ := h
  exact ⟨hinv.tsize, hsz.tabs, hsz.ltabs⟩

/-! ### rehash -/

theorem rehashStep_some {fb : FB} {r1 r2 : Array Nat} {n : Nat} {maxprime : Nat} (hfb : fb.WF)
    (hr : RootsOK fb r1 r2) (hmax : fb.primes.back? = some maxprime) {pidx : Nat} (hp : pidx < fb.primes.size)
    {st : Array Table × Array LTable}
    (hts : st.1.size = min 18 (bitlen maxprime) + 1 - 16) (hls : st.2.size = bitlen maxprime + 1 - 19)
    (hT : ∀ (i : Nat) (t : Table), st.1[i]? = some t → t.Sized n)
    (hL : ∀ (i : Nat) (t : LTable), st.2[i]? = some t → t.Sized n) :
    ∃ st', rehashStep fb r1 r2 (n * BLOCK) st pidx = some st' ∧ st'.1.size = st.1.size ∧ st'.2.size = st.2.size ∧
      (∀ (i : Nat) (t : Table), st'.1[i]? = some t → t.Sized n) ∧
      (∀ (i : Nat) (t : LTable), st'.2[i]? = some t → t.Sized n) := by
  obtain ⟨tables, ltables⟩ := st
  simp only at hts hls hT hL
  have hpp : fb.primes[pidx]? = some fb.primes[pidx] := Array.getElem?_eq_getElem hp
  generalize fb.primes[pidx] = p at hpp
  obtain ⟨o1, o2, ho1, ho2, _⟩ := hr _ _ hpp
  have hp2 := hfb.ge2 _ _ hpp
  have hpm := bitlen_mono (hfb.le_back hpp hmax)
  unfold rehashStep
  simp only [hpp, Option.bind_eq_bind, Option.bind_some]
  by_cases hsm : p < BLOCK
  · simp only [hsm, if_true]
    exact ⟨_, rfl, rfl, rfl, hT, hL⟩
  · simp only [hsm, if_false]
    have h16 : 16 ≤ bitlen p := by
      by_contra hc
      have := (bitlen_lt_succ_iff p 15).1 (by omega)
      simp only [BLOCK] at hsm; omega
    obtain ⟨l, hl⟩ := vlargeOffsets_some (n * BLOCK) p o1 o2 (by omega)
    have hlt : ∀ x ∈ l, x < n * BLOCK := fun x hx => ((vlargeOffsets_spec hl).2.2 x hx).1
    by_cases hv : bitlen p < VLARGE_LOG
    · have hl16 : ¬ bitlen p < LARGE_LOG := by simp only [LARGE_LOG]; omega
      simp only [hv, if_true, hl16, if_false]
      simp only [VLARGE_LOG] at hv
      have hti : bitlen p - LARGE_LOG < tables.size := by rw [hts]; simp only [LARGE_LOG]; omega
      have hx : tables[bitlen p - LARGE_LOG]? = some tables[bitlen p - LARGE_LOG] := Array.getElem?_eq_getElem hti
      obtain ⟨t', ht', hs'⟩ := Table.foldl_add_some (pidx % 2 ^ 32) l _ (hT _ _ hx) hlt
      obtain ⟨tables', hm, hsz, hti', hne⟩ := modifyM_some (f := rehashTable r1 r2 (n * BLOCK) p pidx) hx
        (by simp only [rehashTable, ho1, ho2, hl, Option.bind_eq_bind, Option.bind_some]; exact ht')
      refine ⟨(tables', ltables), by simp [hm], hsz, rfl, ?_, hL⟩
      intro i t ht
      by_cases e : i = bitlen p - LARGE_LOG
      · subst e; rw [hti'] at ht; rw [← Option.some.inj ht]; exact hs'
      · rw [hne i e] at ht; exact hT i t ht
    · simp only [hv, if_false]
      simp only [VLARGE_LOG] at hv
      have hli : bitlen p - VLARGE_LOG < ltables.size := by rw [hls]; simp only [VLARGE_LOG]; omega
      have hx : ltables[bitlen p - VLARGE_LOG]? = some ltables[bitlen p - VLARGE_LOG] := Array.getElem?_eq_getElem hli
      have hpi : pidx < 2 ^ 30 := by have := hfb.size_lt; omega
      obtain ⟨t', ht', hs'⟩ := LTable.foldl_add_some hpi l _ (hL _ _ hx) hlt
      obtain ⟨ltables', hm, hsz, hli', hne⟩ := modifyM_some (f := rehashLTable r1 r2 (n * BLOCK) p pidx) hx
        (by simp only [rehashLTable, ho1, ho2, hl, Option.bind_eq_bind, Option.bind_some]; exact ht')
      refine ⟨(tables, ltables'), by simp [hm], rfl, hsz, hT, ?_⟩
      intro i t ht
      by_cases e : i = bitlen p - VLARGE_LOG
      · subst e; rw [hli'] at ht; rw [← Option.some.inj ht]; exact hs'
      · rw [hne i e] at ht; exact hL i t ht

/-- `rehash` returns for every reduced root table (it has no assertion on the roots). -/
theorem rehash_some {fb : FB} {nS n : Nat} {rS1 rS2 rL1 rL2 r1 r2 : Array Nat} {B : Nat} {s : State}
    (hfb : fb.WF) (hr : RootsOK fb r1 r2) (hinv : Inv fb nS rS1 rS2 rL1 rL2 B s) (hsz : StateSized n s) :
    ∃ s', rehash fb s r1 r2 = some s' ∧ StateSized n s' ∧ s'.idxskip = s.idxskip := by
  unfold rehash
  by_cases h0 : s.nblocks = 0
  · simp only [h0, if_true]
    exact ⟨_, rfl, ⟨by simpa [h0] using hsz.nb, hsz.tabs, hsz.ltabs⟩, rfl⟩
  · simp only [h0, if_false, Option.bind_eq_bind]
    obtain ⟨maxprime, hmax, hts, hls⟩ := hinv.tsize
    obtain ⟨st, hf, _, _, hT, hL⟩ := foldlM_some (rehashStep fb r1 r2 (s.nblocks * BLOCK))
      (fun st => st.1.size = min 18 (bitlen maxprime) + 1 - 16 ∧ st.2.size = bitlen maxprime + 1 - 19 ∧
        (∀ (i : Nat) (t : Table), st.1[i]? = some t → t.Sized n) ∧
        (∀ (i : Nat) (t : LTable), st.2[i]? = some t → t.Sized n))
      (List.range' 0 fb.primes.size)
      (fun pidx hm st ⟨a1, a2, a3, a4⟩ => by
        have := List.mem_range'_1.1 hm
        obtain ⟨st', h1, h2, h3, h4, h5⟩ := rehashStep_some (n := n) hfb hr hmax (pidx := pidx) (by omega) a1 a2 a3 a4
        rw [hsz.nb]
        exact ⟨st', h1, h2.trans a1, h3.trans a2, h4, h5⟩)
      (s.tables.map Table.reset, s.ltables.map LTable.reset)
      ⟨by simpa using hts, by simpa using hls,
        fun i t ht => by
          rw [Array.getElem?_map] at ht
          simp only [Option.map_eq_some_iff] at ht
          obtain ⟨t', ht', rfl⟩ := ht
          exact Table.reset_sized (hsz.tabs i t' ht'),
        fun i t ht => by
          rw [Array.getElem?_map] at ht
          simp only [Option.map_eq_some_iff] at ht
          obtain ⟨t', ht', rfl⟩ := ht
          exact LTable.reset_sized (hsz.ltabs i t' ht')⟩
    rw [hf]
    exact ⟨_, rfl, ⟨hsz.nb, hT, hL⟩, rfl⟩

/-! ### runs -/

/-- from any state satisfying the invariant, `b` rounds `sieve_block(); next_block()` return as long as the
block number stays inside the interval and the offset inside `i64`. -/
theorem runBlocks_some {fb : FB} {nS n : Nat} {rS1 rS2 rL1 rL2 : Array Nat} (hfb : fb.WF)
    (hnS : fb.ibl[16]? = some nS) :
    ∀ (b B : Nat) (s : State), Inv fb nS rS1 rS2 rL1 rL2 B s → StateSized n s → s.idxskip ≤ 2 * nS →
      s.blkNo + b ≤ n → s.offset + (b : Int) * 32768 < 2 ^ 63 →
      ∃ s1, runBlocks fb b s = some s1 ∧ Inv fb nS rS1 rS2 rL1 rL2 (B + b) s1 ∧ StateSized n s1 ∧
        s1.idxskip = s.idxskip ∧ s1.blkNo = s.blkNo + b ∧ s1.offset = s.offset + (b : Int) * 32768 := by
  intro b
  induction b with
  | zero => intro B s hinv hsz _ _ _; exact ⟨s, rfl, hinv, hsz, rfl, rfl, by simp⟩
  | succ b ih =>
    intro B s hinv hsz hsk hb hoff
    obtain ⟨s1, h1, inv1, sz1, sk1, bk1, of1⟩ := ih B s hinv hsz hsk (by omega) (by push_cast at hoff ⊢; omega)
    obtain ⟨s', hs'⟩ := sieveBlock_some hfb hnS inv1 (by omega) sz1 (by omega)
    obtain ⟨inv2, _, bk2, nb2, of2, tb2, lt2, is2⟩ := sieveBlock_spec hfb hnS inv1 hs'
    have hnx : ¬ s'.offset + (BLOCK : Int) ≥ 2 ^ 63 := by
      rw [of2, of1]; simp only [BLOCK]; push_cast at hoff ⊢; omega
    have hs2 : nextBlock s' = some { s' with offset := s'.offset + BLOCK, blkNo := s'.blkNo + 1 } := by
      simp only [nextBlock, hnx, if_false]
    obtain ⟨inv3, _, _, _⟩ := nextBlock_spec inv2 hs2
    refine ⟨_, ?_, by rw [← Nat.add_assoc]; exact inv3, ⟨by simp [nb2, sz1.nb], by simpa [tb2] using sz1.tabs,
      by simpa [lt2] using sz1.ltabs⟩, by simp [is2, sk1], by simp only [bk2, bk1]; omega,
      by simp only [of2, of1, BLOCK]; push_cast; ring⟩
    simp only [runBlocks, h1, hs', hs2, Option.bind_eq_bind, Option.bind_some]

/-- ... and one more `sieve_block`, the factor recovery at every position and `next_block` return. -/
theorem run_some {fb : FB} {nS n : Nat} {rS1 rS2 rL1 rL2 : Array Nat} (hfb : fb.WF)
    (hnS : fb.ibl[16]? = some nS) (hrL : RootsOK fb rL1 rL2) (hn : n ≤ 2 ^ 17)
    (b B : Nat) (s : State) (hinv : Inv fb nS rS1 rS2 rL1 rL2 B s) (hsz : StateSized n s)
    (hsk : s.idxskip ≤ 2 * nS) (hb : s.blkNo + b < n) (hoff : s.offset + ((b : Int) + 1) * 32768 < 2 ^ 63) :
    ∃ s1 s' s2, runBlocks fb b s = some s1 ∧ sieveBlock fb s1 = some s' ∧ nextBlock s' = some s2 ∧
      (∀ r, r < 32768 → ∃ facs, factorsOf fb s' rL1 rL2 r = some facs) ∧
      Inv fb nS rS1 rS2 rL1 rL2 (B + b + 1) s2 ∧ StateSized n s2 ∧ s2.idxskip = s.idxskip ∧
      s2.blkNo = s.blkNo + b + 1 := by
  obtain ⟨s1, h1, inv1, sz1, sk1, bk1, of1⟩ := runBlocks_some hfb hnS b B s hinv hsz hsk (by omega)
    (by push_cast at hoff ⊢; omega)
  obtain ⟨s', hs'⟩ := sieveBlock_some hfb hnS inv1 (by omega) sz1 (by omega)
  obtain ⟨inv2, hprev, bk2, nb2, of2, tb2, lt2, is2⟩ := sieveBlock_spec hfb hnS inv1 hs'
  have hsz' : StateSized n s' := ⟨by rw [nb2, sz1.nb], by rw [tb2]; exact sz1.tabs, by rw [lt2]; exact sz1.ltabs⟩
  have hnx : ¬ s'.offset + (BLOCK : Int) ≥ 2 ^ 63 := by
    rw [of2, of1]; simp only [BLOCK]; push_cast at hoff ⊢; omega
  have hs2 : nextBlock s' = some { s' with offset := s'.offset + BLOCK, blkNo := s'.blkNo + 1 } := by
    simp only [nextBlock, hnx, if_false]
  obtain ⟨inv3, _, _, _⟩ := nextBlock_spec inv2 hs2
  refine ⟨s1, s', _, h1, hs', hs2, ?_, inv3, ⟨by simp [nb2, sz1.nb], by simpa [tb2] using sz1.tabs,
    by simpa [lt2] using sz1.ltabs⟩, by simp [is2, sk1], by simp only [bk2, bk1]⟩
  intro r hr
  exact factorsOf_some hfb hnS hrL hprev inv2.tsize hsz' (by rw [bk2, bk1]; omega) hn (by simpa [BLOCK] using hr)

/-! ### fbase::cofactor -/

theorem divideOut_some (p : Nat) (hp : 2 ≤ p) :
    ∀ (f c e : Nat), c ≠ 0 → c < 2 ^ f → ∃ r, divideOut p (f + 1) c e = some r := by
  intro f
  induction f with
  | zero => intro c e h0 h; simp at h; exact absurd h h0
  | succ f ih =>
    intro c e h0 h
    rw [divideOut]
    by_cases hd : c % p = 0
    · simp only [hd, if_true]
      have hdvd : p ∣ c := Nat.dvd_of_mod_eq_zero hd
      have hc' : c / p ≠ 0 := by
        intro h0'
        have := Nat.div_mul_cancel hdvd
        rw [h0'] at this; omega
      have hlt : c / p < 2 ^ f := by
        have : c / p ≤ c / 2 := Nat.div_le_div_left hp (by omega)
        rw [pow_succ] at h; omega
      exact ih (c / p) (e + 1) hc' hlt
    · simp only [hd, if_false]; exact ⟨_, rfl⟩

open Ymq.Mg64 in
/-- the debug assertion of `cofactor` ("Must be prime"): the Fermat test of `certainly_composite` never
rejects a prime below 2^64 (nor 1), and never panics on it. -/
theorem certainlyComposite_prime (n : Nat) (hn : n.Prime) (hlt : n < W) : certainlyComposite n = some false := by
  unfold certainlyComposite
  by_cases he : n % 2 = 0
  · have : n = 2 := (Nat.Prime.eq_one_or_self_of_dvd hn 2 (Nat.dvd_of_mod_eq_zero he)).resolve_left (by omega) |>.symm
    subst this; simp
  · simp only [he, if_false]
    have hodd : n % 2 = 1 := by omega
    have h3 : 3 ≤ n := by
      have := hn.two_le
      by_contra hc
      have : n = 2 := by omega
      subst this; omega
    obtain ⟨v, hv, _, hinv⟩ := mg2adicInv_odd n hodd
    have hok : MontOk n v := ⟨by omega, hodd, hlt, hinv⟩
    have hcop : Nat.Coprime W n := Nat.Coprime.symm (coprime_W n hodd)
    obtain ⟨m, _, hm⟩ := Nat.exists_mul_mod_eq_one_of_coprime hcop (by omega : 1 < n)
    have h2 : mform n (2 * m) = 2 := by
      unfold mform
      have : 2 * m * W = 2 * (W * m) := by ring
      rw [this, Nat.mul_mod, hm, Nat.mul_one, Nat.mod_mod, Nat.mod_eq_of_lt (by omega)]
    have hsq : mgMul n v 2 2 = some (mform n (2 * m * (2 * m))) := by
      have := mgMul_mform hok (2 * m) (2 * m)
      rw [h2] at this; exact this
    have hpow := powLoop_mform hok 64 (2 * m) (2 * m * (2 * m)) (n / 2) (by
      have : n / 2 < W := by omega
      simpa [W] using this)
    rw [h2] at hpow
    have hX : mform n (2 * m * (2 * m * (2 * m)) ^ (n / 2)) = 2 := by
      have e : 2 * m * (2 * m * (2 * m)) ^ (n / 2) = (2 * m) ^ n := by
        have hn2 : n = 2 * (n / 2) + 1 := by omega
        conv_rhs => rw [hn2]
        rw [pow_succ, pow_mul]; ring
      rw [e]
      unfold mform
      have hf : (2 * m) ^ n % n = (2 * m) % n := by
        have := Fact.mk hn
        have h := ZMod.pow_card ((2 * m : Nat) : ZMod n)
        have : (((2 * m) ^ n : Nat) : ZMod n) = ((2 * m : Nat) : ZMod n) := by push_cast at h ⊢; exact h
        exact (ZMod.natCast_eq_natCast_iff' _ _ _).1 this
      rw [Nat.mul_mod, hf, ← Nat.mul_mod]
      exact h2
    simp only [hv, hsq, hpow, hX, Option.bind_eq_bind, Option.bind_some]
    simp

theorem certainlyComposite_one : certainlyComposite 1 = some false := by decide +kernel

/-- `cofactor` returns (no panic, no hang) when the value is non-zero and fits `I256`, every listed index
is inside the factor base, `maxlarge` fits `u32` (so that `maxlarge²` fits `u64`), and — the comment
"Must be prime" of the code — every divisor of the value that is at most `maxlarge` and free of listed
primes is 1 or a prime (which holds when the list is complete and `maxlarge < (largest prime)²`). -/
theorem cofactor_some {primes : Array Nat} {x : Int} {facs : List Nat} {maxlarge : Nat} {double : Bool}
    {tf : Nat → Option (Nat × Nat)}
    (hp2 : ∀ (i pp : Nat), primes[i]? = some pp → 2 ≤ pp) (hne : primes.size ≠ 0)
    (hfacs : ∀ pidx ∈ facs, pidx < primes.size) (hx : x ≠ 0) (hx256 : x.natAbs < 2 ^ 256)
    (hml : maxlarge < 2 ^ 32)
    (must_be_prime : ∀ c : Nat, c ∣ x.natAbs → c ≤ maxlarge →
      (∀ pidx ∈ facs, ∀ pp, primes[pidx]? = some pp → ¬ pp ∣ c) → c = 1 ∨ c.Prime) :
    ∃ r, cofactor primes x facs maxlarge double tf = some r := by
  have h0 : x.natAbs ≠ 0 := Int.natAbs_ne_zero.2 hx
  -- the trial division loop
  obtain ⟨⟨cof, fs⟩, hloop, hc0, hcle⟩ := foldlM_some (cofactorStep primes)
    (fun st => st.1 ≠ 0 ∧ st.1 ≤ x.natAbs) facs
    (fun pidx hm st ⟨a0, ale⟩ => by
      obtain ⟨q, hpp⟩ : ∃ q, primes[pidx]? = some q :=
        ⟨primes[pidx]'(hfacs pidx hm), Array.getElem?_eq_getElem (hfacs pidx hm)⟩
      have hp := hp2 _ _ hpp
      obtain ⟨⟨c, e⟩, hdo⟩ := divideOut_some q hp 299 st.1 0 a0
        (lt_of_lt_of_le (lt_of_le_of_lt ale hx256) (Nat.pow_le_pow_right (by decide) (by decide)))
      obtain ⟨_, hc, _, hc0⟩ := divideOut_spec _ hp 300 st.1 0 c e a0 hdo
      refine ⟨_, by simp only [cofactorStep, hpp, hdo, Option.bind_eq_bind, Option.bind_some]; rfl, hc0, ?_⟩
      simp only
      have : c ≤ st.1 := by
        rw [hc]; exact Nat.le_mul_of_pos_right _ (Nat.pow_pos (by omega))
      omega)
    (x.natAbs, if x < 0 then [((-1 : Int), 1)] else []) ⟨h0, le_refl _⟩
  simp only at hc0 hcle
  -- facts about the cofactor (for the debug assertion)
  generalize hf0 : (if x < 0 then [((-1 : Int), 1)] else []) = f0 at hloop
  have hinit : fprod f0 * ((x.natAbs : Nat) : Int) = x := by
    subst hf0
    by_cases hneg : x < 0
    · simp only [hneg, if_true, fprod, List.map_cons, List.map_nil, List.prod_cons, List.prod_nil, pow_one, mul_one]
      rw [Int.ofNat_natAbs_of_nonpos (le_of_lt hneg)]; ring
    · simp only [hneg, if_false, fprod, List.map_nil, List.prod_nil, one_mul]
      exact Int.natAbs_of_nonneg (by omega)
  obtain ⟨_, _, cdv, cnd, _⟩ := cofactor_loop primes hp2 x facs (x.natAbs, f0) (cof, fs) h0 hinit hloop
  simp only at cdv cnd
  obtain ⟨maxprime, hmax⟩ : ∃ mp, primes.back? = some mp :=
    ⟨primes[primes.size - 1]'(by omega), by rw [Array.back?_eq_getElem?]; exact Array.getElem?_eq_getElem (by omega)⟩
  unfold cofactor
  simp only [hf0, hloop, Option.bind_eq_bind, Option.bind_some]
  unfold cofactorTail
  by_cases h1 : cof ≥ 2 ^ 64
  · rw [if_pos h1]; exact ⟨_, rfl⟩
  rw [if_neg h1]
  have h2 : ¬ maxlarge * maxlarge ≥ 2 ^ 64 := by
    have : maxlarge * maxlarge < 2 ^ 32 * 2 ^ 32 := Nat.mul_lt_mul'' hml hml
    norm_num at this ⊢; omega
  rw [if_neg h2]
  by_cases h3 : cof > maxlarge * maxlarge
  · rw [if_pos h3]; exact ⟨_, rfl⟩
  rw [if_neg h3, hmax]
  simp only
  by_cases h4 : double = true ∧ cof > maxprime * maxprime
  · rw [if_pos h4]
    cases tf cof with
    | none => exact ⟨_, rfl⟩
    | some ab =>
      obtain ⟨a, b⟩ := ab
      simp only
      split_ifs <;> exact ⟨_, rfl⟩
  · rw [if_neg h4]
    by_cases h5 : cof > maxlarge
    · rw [if_pos h5]; exact ⟨_, rfl⟩
    rw [if_neg h5]
    have hcc : certainlyComposite cof = some false := by
      rcases must_be_prime cof cdv (by omega) cnd with h | h
      · subst h; exact certainlyComposite_one
      · exact certainlyComposite_prime cof h (by simpa [Mg64.W] using (by omega : cof < 2 ^ 64))
    rw [hcc]
    exact ⟨_, rfl⟩

end Ymq.Sieve
