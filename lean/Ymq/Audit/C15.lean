import Ymq.Props.C15
#print axioms Ymq.C15.chain_eval
#print axioms Ymq.C15.chain_eval_len33_witness
#print axioms Ymq.C15.chain_cap32_witness
#print axioms Ymq.C15.chain_interp_spec
#print axioms Ymq.C15.chainmul_spec
#print axioms Ymq.C15.dbladd_spec
#print axioms Ymq.C15.chainmul_eq_dbladd
#print axioms Ymq.C15.mul128_spec
#print axioms Ymq.C15.mul128_zero_witness
#print axioms Ymq.C15.chainmul1024_spec_of_chain
