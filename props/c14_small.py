"""C14 / the 64x64 GF(2) core `SmallMat` — helper module for props/c14.py.

`lz`, `reverse_lane`, `SmallMat::{identity, symmetric, transpose, mask, submatrix, rank, pseudoinverse, reverse,
rank_reverse, inverse}` (matrix/gf2.rs lines 583-787), `&SmallMat * &SmallMat`, the call site of kernel_lanczos
(rank / rank_reverse -> mask -> pseudoinverse -> debug_assert on the rank) and `genblock` (lines 337-352).
Request lines (harness/src/ops_gf2small.rs, lean/Ymq/Drv/Gf2Small.lean); a SmallMat = 64 comma separated lowercase
hexadecimal words, row 0 first, bit j of word i = entry (i, j); a lane = one hexadecimal word:
  sm_lz <w> -> decimal | sm_revlane <w> -> hex | sm_identity | sm_symmetric <M> -> true|false | sm_transpose <M> |
  sm_reverse <M> | sm_mask <M> <mask> -> words|panic | sm_submatrix <M> -> words|panic | sm_rank <M> -> `<rk> <mask>`|panic |
  sm_rank_reverse <M> | sm_pinv <M> -> words|panic | sm_inverse <M> -> words|none|panic | sm_mul <A> <B> -> words |
  sm_pipeline <M> fwd|rev -> `<rk> <mask> <words>`|panic |
  sm_genblock <nrows> <ncols> <cols> <limit> -> `ok Y1;...;Yk` | `limit Y1;...;Yk` | panic   (harness only: the blocks drawn
  by thread_rng are recorded by a hook), followed up on the Lean driver by
  sm_genblock_replay <nrows> <ncols> <cols> <Y1;...;Yk> -> `ok k` | `limit k` | panic.
  sm_lanczos <nrows> <ncols> <cols> -> `<Y0> <mask/W/Y|...|Yfinal>#<basis>` | `panic <Y0>` (harness only: a real kernel_lanczos run; Y0 = the
  block returned by genblock, then per completed iteration of the main loop the hook's record (mask, W_i, Y after its update) and
  the final Y), followed up on the Lean driver by  sm_lanczos_replay <nrows> <ncols> <cols> <Y0> -> `mask/W/Y|...|Yfinal#<basis>` | panic
  (initial block + every iteration of the loop recomputed by the model of lanczosStep from Y0).
PROFILE CONVENTION: every op exists under two prefixes. `sm_X` = the driver answers with the model of the CHECKED profile
(debug_assert active), `smr_X` = with the model of the RELEASE profile; the harness answers both spellings with the real
code of the profile it was built in. Hence every generated input yields two cases, `Case("sm_X ..", profiles=["chk"])`
and `Case("smr_X ..", profiles=["release"])`, and K is exact in both profiles for every input, panics included.

Wiring (props/c14.py): `import props.c14_small as sm`;
  cases:         `yield from sm.cases(tier, _fork(rng, "C14-small"), extended)`  (own stream: the older families keep theirs)
  oracle:        `if case.op in sm.OPS: return sm.oracle(case, ans)`             (first line of oracle)
  klass:         `if case.op in sm.OPS: return sm.klass(case, ans)`
  nontrivial:    `if case.op in sm.OPS: return sm.nontrivial(case, ans)`
  finding_key:   c14.py has none yet: `def finding_key(case, ans, profile): return sm.finding_key(case, ans, profile) if case.op in sm.OPS else None`
  followup:      `if case.op in sm.OPS: return sm.followup(case, ans)`            (first line of followup)
  corpus_case:   `if line.split(" ", 1)[0] in sm.OPS: return sm.corpus_case(line)`  (sets the profile from the prefix)
  extra_coverage: `d = {...existing...}; d.update(sm.extra_coverage()); return d`
  LEAN += sm.LEAN; THEOREMS += sm.THEOREMS; MODELLED += sm.MODELLED; RULE += sm.RULE_SMALL;
  UNMODELLED: the first entry of c14.UNMODELLED ("genblock, mul_aab_opt, SmallMat rank/inverse/pseudoinverse ... not
  modelled") becomes false: replace it by sm.UNMODELLED (what is still outside: Block::muladd / the main loop / the rng);
  audit: copy the `#print axioms` lines of lean/Ymq/Audit/C14Small.lean (and its `import Ymq.Props.C14Small`) into
  lean/Ymq/Audit/C14.lean;
  corpus: copy corpus/C14_SMALL/*.txt (when present) to corpus/C14/small.txt.
  known_findings.json: nothing to list (finding_key returns None: no defect found by this module).
The module also runs on its own: `./check C14_SMALL` (needs lean/Ymq/Props/C14Small.lean and lean/Ymq/Audit/C14Small.lean;
`YMQ_DEV_NOLEAN=1 ./check C14_SMALL` runs K and O only).
"""
import random
from vlib.pipeline import Case

BASE_OPS = ("lz", "revlane", "identity", "symmetric", "transpose", "reverse", "mask", "submatrix", "rank", "rank_reverse",
            "pinv", "inverse", "mul", "pipeline", "genblock", "genblock_replay", "lanczos", "lanczos_replay")
OPS = tuple(p + o for p in ("sm_", "smr_") for o in BASE_OPS)
LEAN = ["Ymq.Props.C14Small"]
AUDIT = "Ymq.Audit.C14Small"
# >>>>>>>>>> PLACEHOLDER: space separated names of the theorems of namespace Ymq.C14Small (to be filled in) <<<<<<<<<<
THEOREM_NAMES = ("rank_spec rank_profile_independent pseudoinverse_spec pseudoinverse_no_panic pseudoinverse_sound submatrix_spec pipeline_spec rank_reverse_spec inverse_spec inverse_some_iff inverse_profile_independent transpose_spec mask_spec reverse_spec symmetric_spec identity_spec genblock_never_ends genblock_accepts mul_aab_opt_spec gram_rank_le_cube genblock_never_ends_hang_rule genblock_never_ends_low_rank genblock_never_ends_witness lanczos_init_well_formed lanczos_step_no_panic_release lanczos_step_checked_orthogonal lanczos_init_invariant lanczos_step_no_panic_checked lanczos_invariant lanczos_loop_no_panic_release lanczos_loop_no_panic_unpurged lanczos_three_term_of_extended_invariant lanczos_loop_no_panic lanczos_checked_assertions_hold kernel_lanczos_sound kernel_lanczos_release_no_panic rank_not_greedy pseudoinverse_unmasked_counterwitness pipeline_nonsymmetric_counterwitness")
THEOREMS = ["Ymq.C14Small." + t for t in THEOREM_NAMES.split()]

N = 64
M64 = (1 << 64) - 1
GEN_LIMIT = 8            # blocks that genblock may draw before the observer stops it


# ======================================================================================
# plain GF(2) arithmetic on lists of ints (row i = int, bit j = entry (i, j)); nothing here follows the Rust code
# ======================================================================================

def bits(x):
    """indices of the set bits, increasing"""
    out = []
    while x:
        low = x & -x
        out.append(low.bit_length() - 1)
        x ^= low
    return out


def popcount(x):
    return bin(x).count("1")


def mmul(a, b):
    """a * b: row i of the product = xor of the rows j of b over the bits j of a[i]"""
    out = []
    for r in a:
        acc = 0
        while r:
            low = r & -r
            acc ^= b[low.bit_length() - 1]
            r ^= low
        out.append(acc)
    return out


def mtrans(m, n=N):
    out = [0] * n
    for i, r in enumerate(m):
        while r:
            low = r & -r
            out[low.bit_length() - 1] |= 1 << i
            r ^= low
    return out


def rank_of(vs):
    """rank of a family of bit vectors: xor basis indexed by the top bit"""
    piv = {}
    for v in vs:
        while v:
            h = v.bit_length() - 1
            p = piv.get(h)
            if p is None:
                piv[h] = v
                break
            v ^= p
    return len(piv)


def greedy_rows(m, order):
    """mask of the rows kept when the rows are visited in `order` and a row is kept iff it is independent of the kept ones"""
    piv = {}
    s = 0
    for i in order:
        v = m[i]
        while v:
            h = v.bit_length() - 1
            p = piv.get(h)
            if p is None:
                piv[h] = v
                s |= 1 << i
                break
            v ^= p
    return s


def mask_mat(m, k):
    return [(r & k) if (k >> i) & 1 else 0 for i, r in enumerate(m)]


def ident_on(s):
    return [(1 << i) if (s >> i) & 1 else 0 for i in range(N)]


IDENT = ident_on(M64)
ZERO = [0] * N


def is_sym(m):
    return mtrans(m) == list(m)


def is_alt(m):
    return is_sym(m) and all(not (r >> i) & 1 for i, r in enumerate(m))


def rev64(w):
    return int(format(w, "064b")[::-1], 2)


def enc(m):
    return ",".join("%x" % w for w in m)


def parse_mat(s, n=N):
    """list of n words, or None when the text is not n lowercase hexadecimal words below 2^64"""
    parts = s.split(",")
    if len(parts) != n:
        return None
    out = []
    for p in parts:
        if not p or any(c not in "0123456789abcdef" for c in p) or (len(p) > 1 and p[0] == "0") or len(p) > 16:
            return None
        out.append(int(p, 16))
    return out


def parse_lane(s):
    if not s or any(c not in "0123456789abcdef" for c in s) or (len(s) > 1 and s[0] == "0") or len(s) > 16:
        return None
    return int(s, 16)


# ---------------------------------------------------------------- sparse matrices (genblock)

def enc_sparse(cols):
    if not cols:
        return "-"
    return ";".join(",".join(map(str, c)) if c else "-" for c in cols)


def dec_sparse(ncols, s):
    if ncols == 0:
        return []
    return [[] if c == "-" else [int(x) for x in c.split(",")] for c in s.split(";")]


def sp_mul(cols, nrows, y):
    """B * Y: word i = xor of the words y[j] over the occurrences of i in column j (an index listed twice cancels)"""
    out = [0] * nrows
    for j, c in enumerate(cols):
        w = y[j]
        for i in c:
            out[i] ^= w
    return out


def sp_tmul(cols, z):
    """B^T * Z"""
    out = []
    for c in cols:
        acc = 0
        for i in c:
            acc ^= z[i]
        out.append(acc)
    return out


def gram_of(v):
    """V^T V for a block V (one 64-bit word per coordinate): entry (a, b) = sum over the coordinates of bit a * bit b"""
    g = [0] * N
    for w in v:
        x = w
        while x:
            low = x & -x
            g[low.bit_length() - 1] ^= w
            x ^= low
    return g


def gram_bay(cols, nrows, y):
    """Gram matrix of B A Y, A = B^T B"""
    ay = sp_tmul(cols, sp_mul(cols, nrows, y))
    return gram_of(sp_mul(cols, nrows, ay))


def rank_a3(cols, nrows):
    """rank of A^3, A = B^T B (ncols x ncols). The Gram matrix tested by genblock is Y^T A^3 Y: a block Y with a Gram matrix
    of rank 64 exists iff rank(A^3) >= 64 (see rank_a3 in props/c14.py)."""
    ncols = len(cols)
    rows = [0] * nrows                       # row i of B as a bit vector over the columns
    for j, c in enumerate(cols):
        for i in c:
            rows[i] ^= 1 << j
    a = []
    for c in cols:                           # column j of A = xor of the rows of B selected by column j of B
        acc = 0
        for i in c:
            acc ^= rows[i]
        a.append(acc)

    def app(v):
        acc = 0
        for j in bits(v):
            acc ^= a[j]
        return acc
    a3 = [app(app(v)) for v in a]
    assert len(a3) == ncols
    return rank_of(a3)


def rank_sparse(cols):
    return rank_of([_col_int(c) for c in cols])


def _col_int(c):
    x = 0
    for i in c:
        x ^= 1 << i
    return x


# ======================================================================================
# matrix generators (all randomness from the rng passed in)
# ======================================================================================

def rand_unit_lower(rng, n, dens=0.5):
    out = []
    for i in range(n):
        r = 1 << i
        for j in range(i):
            if rng.random() < dens:
                r |= 1 << j
        out.append(r)
    return out


def rand_invertible(rng, n=N, dens=0.5):
    """P * L * U with a random permutation P and random unit triangular L, U: every invertible matrix has this form"""
    lo = rand_unit_lower(rng, n, dens)
    up = mtrans(rand_unit_lower(rng, n, dens), n)
    m = mmul(lo, up)
    rng.shuffle(m)
    return m


def congruence(p, d, n=N):
    """P D P^T"""
    return mmul(mmul(p, d), mtrans(p, n))


def diag_form(rng, n, r, alt):
    """diagonal form of rank r on n coordinates: r ones on the diagonal, or (alt) r/2 hyperbolic pairs"""
    pos = rng.sample(range(n), r)
    d = [0] * n
    if alt:
        for a, b in zip(pos[0::2], pos[1::2]):
            d[a] |= 1 << b
            d[b] |= 1 << a
    else:
        for a in pos:
            d[a] |= 1 << a
    return d


def sym_pdp(rng, r, alt, dens=0.5):
    """P D P^T with P invertible: symmetric of rank exactly r; not alternating when D is diagonal and r > 0"""
    return congruence(rand_invertible(rng, N, dens), diag_form(rng, N, r, alt))


def sym_xtx(rng, r, alt=False):
    """X^T X for r random rows X (alt: plus the xor of all rows, which makes every column weight even, i.e. a zero diagonal)"""
    xs = [rng.getrandbits(64) for _ in range(r)]
    if alt and xs:
        t = 0
        for x in xs:
            t ^= x
        xs.append(t)
    m = [0] * N
    for x in xs:
        for i in bits(x):
            m[i] ^= x
    return m


def sym_random(rng, dens=0.5, zero_diag=False):
    m = [0] * N
    for i in range(N):
        for j in range(i, N):
            if (i != j or not zero_diag) and rng.random() < dens:
                m[i] |= 1 << j
                m[j] |= 1 << i
    return m


def dense_random(rng, dens=0.5):
    if dens == 0.5:
        return [rng.getrandbits(64) for _ in range(N)]
    return [sum(1 << j for j in range(N) if rng.random() < dens) for _ in range(N)]


def sparse_rows(rng, maxbits=2):
    out = []
    for _ in range(N):
        r = 0
        for _ in range(rng.randrange(maxbits + 1)):
            r |= 1 << rng.randrange(N)
        out.append(r)
    return out


def rank_deficient(rng, r):
    base = [rng.getrandbits(64) for _ in range(r)]
    rows = list(base)
    while len(rows) < N:
        x = 0
        for b in rng.sample(base, min(len(base), rng.randrange(1, 4))) if base else []:
            x ^= b
        rows.append(x)
    rng.shuffle(rows)
    return rows


def perm_matrix(perm):
    return [1 << perm[i] for i in range(N)]


def embed(sel, block):
    """the 64x64 matrix supported on sel x sel whose block is `block` (len(sel) rows of len(sel) bits)"""
    m = [0] * N
    for a, i in enumerate(sel):
        r = 0
        for b in bits(block[a]):
            r |= 1 << sel[b]
        m[i] = r
    return m


def embedded_invertible(rng, s, kind):
    """supported on S x S, |S| = s, with an invertible block: the documented domain of pseudoinverse"""
    sel = sorted(rng.sample(range(N), s))
    if kind == "nonsym":
        blk = rand_invertible(rng, s)
    else:
        alt = kind == "alt" and s % 2 == 0
        blk = congruence(rand_invertible(rng, s), diag_form(rng, s, s, alt), s)
    return embed(sel, blk)


def triangular(rng, upper, zero_diag=()):
    m = rand_unit_lower(rng, N)
    for i in zero_diag:
        m[i] &= ~(1 << i)
    return mtrans(m) if upper else m


# ======================================================================================
# cases
# ======================================================================================

FULL = ("rank", "rank_reverse", "pinv", "inverse", "submatrix", "pipeline fwd", "pipeline rev")
CHEAP = ("symmetric", "transpose", "reverse")
FAMILIES = {}          # family -> number of cases generated by the last call of cases()


def both(body, tag, k=True, timeout=None):
    """the two spellings of one request: checked model on the chk harness, release model on the release harness"""
    FAMILIES[tag] = FAMILIES.get(tag, 0) + 2
    return [Case("sm_" + body, k=k, tag=tag, profiles=["chk"], timeout=timeout),
            Case("smr_" + body, k=k, tag=tag, profiles=["release"], timeout=timeout)]


def emit(out, m, ops, tag):
    s = enc(m)
    for op in ops:
        p = op.split(" ")
        out += both(f"{p[0]} {s}" + ("".join(" " + x for x in p[1:])), tag)


def lane_values(rng, scale):
    ws = [0, 1, 1 << 63, M64, M64 - 1, M64 >> 1, 1 << 32, (1 << 32) - 1, 1 << 31, 3 << 31, 0xffffffff00000000,
          0x5555555555555555, 0xaaaaaaaaaaaaaaaa, (1 << 63) | 1]
    ws += [1 << k for k in range(N)]
    ws += [rng.getrandbits(64) for _ in range(12 * scale)]
    # a random odd word shifted up: trailing zeros below arbitrary high bits
    ws += [((rng.getrandbits(64) | 1) << rng.randrange(N)) & M64 for _ in range(12 * scale)]
    ws += [(1 << rng.randrange(N)) | (1 << rng.randrange(N)) for _ in range(4 * scale)]
    return list(dict.fromkeys(ws))


def every_rank_family(rng, out, scale):
    """symmetric matrices of every rank 0..64: X^T X (rank checked by elimination, regenerated until every value has
    appeared), P D P^T with D diagonal (not alternating, ranks 1..64) and with D hyperbolic (alternating, even ranks)"""
    for rep in range(scale):
        # --- X^T X, every rank 0..64
        for t in range(N + 1):
            for _ in range(400):
                r = t + rng.choice([0, 0, 0, 1, 2])
                m = sym_xtx(rng, r)
                if rank_of(m) == t:
                    break
            else:
                m = sym_pdp(rng, t, False)
            assert rank_of(m) == t and is_sym(m)
            emit(out, m, ("pipeline fwd", "pipeline rev", "submatrix", "rank", "rank_reverse"), "sym-xtx")
        # --- X^T X with even column weights: alternating, every even rank
        for t in range(0, N + 1, 2):
            for _ in range(400):
                m = sym_xtx(rng, t + rng.choice([0, 0, 1, 2]), alt=True)
                if rank_of(m) == t:
                    break
            else:
                m = sym_pdp(rng, t, True)
            assert rank_of(m) == t and is_alt(m)
            emit(out, m, ("pipeline fwd", "pipeline rev"), "sym-xtx-alt")
        # --- P D P^T, D diagonal: ranks 1..64, never alternating
        for t in range(1, N + 1):
            m = sym_pdp(rng, t, False, dens=rng.choice([0.5, 0.5, 0.1, 0.03]))
            assert rank_of(m) == t and is_sym(m) and not is_alt(m)
            emit(out, m, ("pipeline " + ("fwd", "rev")[(t + rep) % 2], "submatrix"), "sym-pdp")
            s = greedy_rows(m, rng.sample(range(N), N))
            emit(out, mask_mat(m, s), ("pinv",), "sym-masked")
        # --- P D P^T, D hyperbolic: alternating, ranks 0, 2, .., 64
        for t in range(0, N + 1, 2):
            m = sym_pdp(rng, t, True, dens=rng.choice([0.5, 0.5, 0.1, 0.03]))
            assert rank_of(m) == t and is_alt(m)
            emit(out, m, ("pipeline " + ("rev", "fwd")[(t // 2 + rep) % 2], "submatrix", "rank", "pinv"), "sym-pdp-alt")


def structured_matrices(rng):
    """(tag, matrix) for the deterministic / boundary shapes"""
    res = []
    res.append(("zero", list(ZERO)))
    res.append(("identity", list(IDENT)))
    # lane boundaries
    for w, nm in ((1, "1"), (1 << 63, "top"), (M64, "ones")):
        res.append(("rows-all-" + nm, [w] * N))
    for w in (1, 1 << 63, M64, rng.getrandbits(64)):
        res.append(("first-row-only", [w] + [0] * (N - 1)))
        res.append(("last-row-only", [0] * (N - 1) + [w]))
    res.append(("first-col-only", [rng.getrandbits(1) for _ in range(N)]))
    res.append(("first-col-only", [1] + [0] * (N - 2) + [1]))
    res.append(("last-col-only", [rng.getrandbits(1) << 63 for _ in range(N)]))
    res.append(("last-col-only", [1 << 63] + [0] * (N - 2) + [1 << 63]))
    res.append(("arrow-first", [M64] + [1] * (N - 1)))                               # first row and first column (symmetric)
    res.append(("arrow-last", [1 << 63] * (N - 1) + [M64]))                          # last row and last column (symmetric)
    res.append(("ones-minus-identity", [M64 ^ (1 << i) for i in range(N)]))          # alternating, invertible
    res.append(("ones-plus-corner", [M64] * (N - 1) + [M64 >> 1]))                   # J with one entry cleared: rank 2
    res.append(("antidiagonal", [1 << (N - 1 - i) for i in range(N)]))
    res.append(("antidiagonal-plus", [(1 << (N - 1 - i)) | 1 for i in range(N)]))
    res.append(("two-lanes", [(1 << 32) - 1] * 32 + [0xffffffff00000000] * 32))
    res.append(("checker", [0x5555555555555555 if i % 2 else 0xaaaaaaaaaaaaaaaa for i in range(N)]))
    return res


SINGLE_POS = (0, 1, 31, 32, 62, 63)


def cases(tier, rng, extended=False):
    scale = 1 if tier == "quick" else 4
    if extended:
        scale *= 3
    FAMILIES.clear()
    out = []

    # ---------------------------------------------------------------- lanes, identity
    for w in lane_values(rng, scale):
        out += both("lz %x" % w, "lane")
        out += both("revlane %x" % w, "lane")
    out += both("identity", "identity-op")

    # ---------------------------------------------------------------- deterministic / boundary shapes: every matrix op
    for tag, m in structured_matrices(rng):
        emit(out, m, FULL + (CHEAP if tag in ("zero", "identity", "antidiagonal", "arrow-first", "two-lanes", "checker",
                                              "rows-all-ones", "first-row-only", "last-col-only") else ()), tag)

    # ---------------------------------------------------------------- single-bit matrices
    for i in SINGLE_POS:
        for j in SINGLE_POS:
            m = [0] * N
            m[i] = 1 << j
            emit(out, m, ("rank", "rank_reverse", "pinv", "pipeline fwd", "pipeline rev") +
                 (("submatrix", "inverse", "transpose", "reverse", "symmetric") if (i, j) in ((0, 0), (0, 63), (63, 0), (63, 63), (31, 32)) else ()),
                 "single-bit")

    # ---------------------------------------------------------------- every matrix supported on a 2x2 corner block
    pairs = ((0, 63), (31, 32)) if scale == 1 else ((0, 1), (0, 63), (62, 63), (31, 32))
    for a, b in pairs:
        for code in range(1, 16):
            m = [0] * N
            m[a] = ((code & 1) << a) | (((code >> 1) & 1) << b)
            m[b] = (((code >> 2) & 1) << a) | (((code >> 3) & 1) << b)
            emit(out, m, ("rank", "pinv", "pipeline " + ("fwd", "rev")[code % 2]), "corner-2x2")

    # ---------------------------------------------------------------- permutation matrices
    perms = [[(i + 1) % N for i in range(N)], [(i - 1) % N for i in range(N)], [i ^ 1 for i in range(N)], [i ^ 32 for i in range(N)]]
    for _ in range(3 * scale):
        perms.append(rng.sample(range(N), N))
    for _ in range(scale):                                  # a random involution: a symmetric permutation matrix
        p = list(range(N))
        idx = rng.sample(range(N), 2 * rng.randrange(1, 32))
        for a, b in zip(idx[0::2], idx[1::2]):
            p[a], p[b] = b, a
        perms.append(p)
    for p in perms:
        emit(out, perm_matrix(p), FULL + ("transpose",), "permutation")

    # ---------------------------------------------------------------- symmetric, every rank
    every_rank_family(rng, out, scale)

    # ---------------------------------------------------------------- random symmetric
    for k in range(22 * scale):
        dens = (0.5, 0.5, 0.5, 0.1, 0.03, 0.9)[k % 6]
        m = sym_random(rng, dens, zero_diag=(k % 4 == 3))
        emit(out, m, FULL + (CHEAP if k % 2 == 0 else ()), "sym-random")

    # ---------------------------------------------------------------- the documented domain of pseudoinverse
    # symmetric M masked by a set of independent rows (any such set gives an invertible principal block)
    for k in range(16 * scale):
        if k % 3 == 2:
            m = sym_pdp(rng, rng.choice([2, 4, 30, 32, 34, 62, 64]), True)
        else:
            m = sym_pdp(rng, rng.choice([1, 2, 3, 10, 31, 32, 33, 50, 62, 63, 64]), False, dens=rng.choice([0.5, 0.1]))
        order = (list(range(N)), list(range(N - 1, -1, -1)), rng.sample(range(N), N))[k % 3]
        t = mask_mat(m, greedy_rows(m, order))
        emit(out, t, ("pinv", "rank", "pipeline fwd", "submatrix") + (("inverse", "rank_reverse", "pipeline rev") if k % 4 == 0 else ()), "sym-masked")
    # an invertible block (symmetric, alternating or not symmetric at all) embedded on a random index set
    sizes = [0, 1, 2, 3, 31, 32, 33, 62, 63, 64]
    for k in range(24 * scale):
        s = sizes[k % len(sizes)] if k < 2 * len(sizes) else rng.randrange(N + 1)
        kind = ("sym", "nonsym", "alt", "nonsym")[(k // len(sizes) + k) % 4]
        t = embedded_invertible(rng, s, kind)
        emit(out, t, ("pinv", "rank", "pipeline " + ("fwd", "rev")[k % 2]) + (("inverse", "submatrix") if k % 3 == 0 else ()), "embedded-" + kind)

    # one step outside that domain (K in both profiles: unwrap / debug_assert in the checked model, silent answers in release)
    for k in range(18 * scale):
        s = rng.choice([2, 3, 10, 31, 32, 33, 62, 63])
        t = embedded_invertible(rng, s, ("sym", "nonsym", "alt")[k % 3])
        ins = [i for i in range(N) if t[i]]
        outs = [i for i in range(N) if not t[i]]
        i, o = rng.choice(ins), rng.choice(outs)
        v = k % 6
        if v == 0:
            t[o] = rng.getrandbits(64)                       # a non-zero row outside S
        elif v == 1:
            t[i] |= 1 << o                                   # a column outside S
        elif v == 2:
            t[i] |= 1 << o                                   # a symmetric pair of entries outside S x S
            t[o] |= 1 << i
        elif v == 3:
            others = [x for x in ins if x != i]
            t[i] = t[others[0]] ^ (t[others[-1]] if len(others) > 1 else 0)     # singular block
        elif v == 4:
            t[i] = 0                                         # a null row inside S, its column still used
        else:
            t[o] = 1 << o                                    # still inside the domain, for S + {o}
        emit(out, t, ("pinv", "rank", "pipeline fwd", "pipeline rev"), "near-domain")

    # ---------------------------------------------------------------- not symmetric
    for k in range(22 * scale):
        m = dense_random(rng, (0.5, 0.5, 0.5, 0.1, 0.9, 0.03)[k % 6])
        emit(out, m, FULL + (CHEAP if k % 2 == 0 else ()), "nonsym-dense")
    for k in range(24 * scale):
        emit(out, sparse_rows(rng, (2, 2, 1, 3)[k % 4]), FULL + (("transpose",) if k % 3 == 0 else ()), "nonsym-sparse")
    for k in range(18 * scale):
        r = (1, 2, 3, 10, 31, 32, 33, 60, 62, 63)[k % 10] if k < 20 else rng.randrange(1, N)
        emit(out, rank_deficient(rng, r), FULL, "nonsym-rank-deficient")

    # ---------------------------------------------------------------- triangular
    for k in range(4 * scale):
        emit(out, triangular(rng, upper=True), FULL + ("transpose",), "upper-unit")
        emit(out, triangular(rng, upper=False), FULL + ("reverse",), "lower-unit")
        zd = rng.sample(range(N), rng.choice([1, 1, 2, 5])) if k % 4 else [(0, 63, 31)[(k // 4) % 3]]
        emit(out, triangular(rng, upper=bool(k % 2), zero_diag=zd), FULL, "triangular-singular")

    # ---------------------------------------------------------------- invertible / singular for inverse
    for k in range(14 * scale):
        m = rand_invertible(rng, N, (0.5, 0.5, 0.1, 0.03)[k % 4])
        emit(out, m, ("inverse", "rank") + (("rank_reverse", "pinv") if k % 4 == 0 else ()), "invertible")
        s = list(m)                      # corank 1: one row replaced by a combination of others / a zero row / a zero column
        i = rng.choice([0, 63, rng.randrange(N)])
        if k % 3 == 0:
            s[i] = 0
            for j in rng.sample([x for x in range(N) if x != i], rng.randrange(1, 5)):
                s[i] ^= s[j]
        elif k % 3 == 1:
            s[i] = 0
        else:
            s = [r & ~(1 << i) for r in s]
        emit(out, s, ("inverse", "rank") + (("rank_reverse",) if k % 4 == 0 else ()), "corank-1")

    # ---------------------------------------------------------------- symmetric up to one entry (for symmetric / transpose)
    for (i, j) in ((0, 63), (63, 0), (1, 0), (63, 62), (31, 32), (rng.randrange(N), rng.randrange(N)), (0, 0), (63, 63)):
        m = sym_random(rng)
        m[i] ^= 1 << j
        emit(out, m, ("symmetric", "transpose") + (("submatrix", "mask ffffffffffffffff") if i != j else ()), "sym-one-entry-off")

    # ---------------------------------------------------------------- mask
    mm = [("sym", sym_random(rng)), ("sym", sym_xtx(rng, 20)), ("sym", sym_pdp(rng, 40, True)),
          ("nonsym", dense_random(rng)), ("nonsym", sparse_rows(rng)), ("nonsym", [0] * 17 + [M64] + [0] * 46)]
    for _ in range(scale - 1):
        mm += [("sym", sym_random(rng, 0.1)), ("nonsym", dense_random(rng))]
    for kind, m in mm:
        ks = [0, M64, 1, 1 << 63, 1 << 31, 1 << 32, 3, M64 >> 1, M64 - 1, 0xffffffff, 0xffffffff00000000,
              greedy_rows(m, range(N))] + [rng.getrandbits(64) for _ in range(4)] + [rng.getrandbits(64) & rng.getrandbits(64) & rng.getrandbits(64)]
        for k in dict.fromkeys(ks):
            out += both(f"mask {enc(m)} %x" % k, "mask-" + kind)

    # ---------------------------------------------------------------- products
    x, y = dense_random(rng), dense_random(rng)
    sb = [0] * N
    sb[63] = 1
    prods = [(IDENT, x), (x, IDENT), (ZERO, x), (x, ZERO), (IDENT, IDENT), (ZERO, ZERO), (x, x), (x, mtrans(x)), (x, y), (y, x),
             (perm_matrix(perms[0]), x), (x, perm_matrix(perms[0])), (sb, x), (x, sb), ([1 << 63] * N, x), ([M64] * N, [M64] * N),
             ([1] * N, x), (x, [1 << 63] * N)]
    for k in range(24 * scale):
        a = (dense_random, sparse_rows, sym_random, dense_random)[k % 4](rng)
        b = (dense_random, dense_random, sym_random, sparse_rows)[k % 4](rng)
        prods.append((a, b))
    inv = rand_invertible(rng)
    prods.append((inv, inv))
    for a, b in prods:
        out += both(f"mul {enc(a)} {enc(b)}", "mul")

    # ---------------------------------------------------------------- genblock
    out += genblock_cases(rng, scale)
    out += lanczos_cases(rng, scale)

    seen = set()
    res = []
    for c in out:
        if c.line not in seen:
            seen.add(c.line)
            res.append(c)
    return res


def sparse_cols(rng, nrows, ncols, wmax=10):
    return [sorted(rng.sample(range(nrows), min(nrows, rng.randrange(1, wmax + 1)))) for _ in range(ncols)]


def genblock_cases(rng, scale):
    out = []

    def add(nrows, cols, tag):
        out.extend(both(f"genblock {nrows} {len(cols)} {enc_sparse(cols)} {GEN_LIMIT}", tag, k=False, timeout=30))

    # rank(A^3) >= 64: genblock terminates with probability 1 (each draw succeeds with probability about 0.29..0.42)
    for rep in range(scale):
        for nrows in (64, 65, 100, 130):
            for excess in (1, 3, 10):
                for _ in range(200):
                    cols = sparse_cols(rng, nrows, nrows + excess)
                    if rank_a3(cols, nrows) >= N:
                        break
                else:
                    continue
                for c in cols:
                    rng.shuffle(c)
                add(nrows, cols, "genblock-a3>=64")
    # square, and a column listing an index three times / twice (pairs cancel)
    for _ in range(200):
        cols = sparse_cols(rng, 64, 64)
        if rank_a3(cols, 64) >= N:
            add(64, cols, "genblock-a3>=64")
            break
    for _ in range(200):
        cols = sparse_cols(rng, 70, 72)
        cols[0] = cols[0] + [cols[0][0]] * 2
        cols[1] = cols[1] + [69, 69]
        if rank_a3(cols, 70) >= N:
            add(70, cols, "genblock-repeated-index")
            break
    # the zero matrix with 64 rows: the Gram matrix is zero for every block
    add(64, [[] for _ in range(65)], "genblock-zero")
    # fewer than 64 rows: the copy of the dense block indexes out of range
    add(40, sparse_cols(rng, 40, 45), "genblock-rows<64")
    add(63, sparse_cols(rng, 63, 66), "genblock-rows<64")
    # rank(B) < 64: 30 distinct columns repeated
    base = sparse_cols(rng, 100, 30)
    add(100, [list(rng.choice(base)) for _ in range(105)], "genblock-rank<64")
    # rank(B) >= 64 > rank(A^3): no block exists although B has enough rank
    for _ in range(300):
        nrows = rng.choice([65, 66, 70])
        cols = sparse_cols(rng, nrows, nrows + rng.choice([1, 3, 8]), wmax=rng.choice([3, 10, 30]))
        if rank_sparse(cols) >= N > rank_a3(cols, nrows):
            add(nrows, cols, "genblock-rankB>=64>a3")
            break
    return out


def lanczos_cases(rng, scale):
    """real kernel_lanczos runs whose every iteration is recomputed by the model (1 .. ~8 iterations: the purge of consumed
    blocks needs 3 and more); matrices with rank((B^T B)^3) >= 64 only (genblock must return)"""
    out = []
    shapes = [(64, 66, 3), (65, 70, 5), (100, 110, 4), (130, 140, 6), (150, 150, 3), (200, 205, 5), (256, 260, 7),
              (300, 310, 8), (400, 420, 10), (500, 505, 4)]
    for rep in range(scale):
        for nrows, ncols, w in shapes:
            for _ in range(50):
                cols = sparse_cols(rng, nrows, ncols, w)
                if rank_a3(cols, nrows) >= N:
                    break
            else:
                continue
            if rep % 2:
                for c in cols:
                    rng.shuffle(c)
            out.extend(both(f"lanczos {nrows} {ncols} {enc_sparse(cols)}", "lanczos-loop", k=False, timeout=60))
    return out


def corpus_case(line):
    """a corpus line: the profile follows from the prefix; genblock is answered by the harness only"""
    op = line.split(" ", 1)[0]
    prof = ["release"] if op.startswith("smr_") else ["chk"]
    if base_op(op) in ("genblock", "lanczos"):
        return Case(line, k=False, profiles=prof, timeout=60)
    return Case(line, profiles=prof)


# ======================================================================================
# follow-up: the blocks drawn by genblock are replayed by the model
# ======================================================================================

def base_op(op):
    if op.startswith("smr_"):
        return op[4:]
    if op.startswith("sm_"):
        return op[3:]
    return op


def prefix_of(op):
    return "smr_" if op.startswith("smr_") else "sm_"


def followup(case, ans):
    if base_op(case.op) == "lanczos":
        a = case.args
        parts = ans.split(" ")
        if len(parts) != 2:
            return None
        head = f"{prefix_of(case.op)}lanczos_replay {a[0]} {a[1]} {a[2]}"
        if parts[0] == "panic":
            return (f"{head} {parts[1]}", "panic")
        return (f"{head} {parts[0]}", parts[1])
    if base_op(case.op) != "genblock":
        return None
    a = case.args
    head = f"{prefix_of(case.op)}genblock_replay {a[0]} {a[1]} {a[2]}"
    if ans.startswith("ok ") or ans.startswith("limit "):
        kind, ys = ans.split(" ", 1)
        return (f"{head} {ys}", f"{kind} {ys.count(';') + 1}")
    if ans == "panic" and int(a[1]) > 0:
        # the harness does not show the block on which the real code panicked: the model must panic on any block
        y = [((j + 1) * 0x9e3779b97f4a7c15) & M64 for j in range(int(a[1]))]
        return (f"{head} {enc(y)}", "panic")
    return None


# ======================================================================================
# oracle
# ======================================================================================

_info_cache = {}


def info(s):
    """(matrix, symmetric, alternating, rank) of a matrix argument, cached"""
    r = _info_cache.get(s)
    if r is None:
        m = parse_mat(s)
        sym = is_sym(m)
        r = (m, sym, sym and all(not (w >> i) & 1 for i, w in enumerate(m)), rank_of(m))
        if len(_info_cache) > 256:
            _info_cache.clear()
        _info_cache[s] = r
    return r


def pinv_domain(t):
    """the set S when t is supported on S x S with an invertible block (S = the non-zero rows), else None"""
    s = 0
    for i, r in enumerate(t):
        if r:
            s |= 1 << i
    if any(r & ~s for r in t):
        return None
    return s if rank_of(t) == popcount(s) else None


def check_pinv(t, s, w):
    """W is the inverse of T on S: supported on S x S, W*T = T*W = I_S"""
    if any(r and not (s >> i) & 1 for i, r in enumerate(w)):
        return "a row outside the index set is not zero"
    if any(r & ~s for r in w):
        return "a column outside the index set is not zero"
    e = ident_on(s)
    if mmul(w, t) != e:
        return "W*T is not the identity on the index set"
    if mmul(t, w) != e:
        return "T*W is not the identity on the index set"
    return None


GEN_STATS = {"ok_rankA3>=64": 0, "limit_rankA3>=64(unlucky)": 0, "limit_rankA3<64": 0, "panic_rows<64": 0, "blocks_judged": 0}
_gen_cache = {}


def gen_parse(case):
    key = case.line.split(" ", 1)[1]
    r = _gen_cache.get(key)
    if r is None:
        a = case.args
        nrows, ncols = int(a[0]), int(a[1])
        cols = dec_sparse(ncols, a[2])
        ok = len(cols) == ncols and all(0 <= i < nrows for c in cols for i in c)
        r = (nrows, ncols, cols, int(a[3]) if len(a) > 3 and a[3].isdigit() else 0, rank_a3(cols, nrows) if ok and nrows else 0, ok)
        if len(_gen_cache) > 128:
            _gen_cache.clear()
        _gen_cache[key] = r
    return r


def oracle_genblock(case, ans):
    nrows, ncols, cols, limit, ra3, wellformed = gen_parse(case)
    if not wellformed:
        return None                     # row index out of range: not generated, no specification
    if ans == "panic":
        if nrows < N:
            GEN_STATS["panic_rows<64"] += 1
            return None
        return "panic with 64 rows or more"
    if not (ans.startswith("ok ") or ans.startswith("limit ")):
        return f"no value returned ({ans[:40]})"
    kind, ystr = ans.split(" ", 1)
    ys = [parse_mat(y, ncols) for y in ystr.split(";")]
    if any(y is None for y in ys):
        return "a recorded block is not a list of ncols words"
    if kind == "limit" and len(ys) != limit:
        return f"limit answer with {len(ys)} blocks, limit = {limit}"
    if limit and len(ys) > limit:
        return "more blocks than the limit"
    if nrows < N:
        return "an answer with fewer than 64 rows (the dense copy must index out of range)"
    for idx, y in enumerate(ys):
        rk = rank_of(gram_bay(cols, nrows, y))
        GEN_STATS["blocks_judged"] += 1
        last = idx == len(ys) - 1
        if kind == "ok" and last:
            if rk != N:
                return f"returned block has a Gram matrix of rank {rk} < 64"
        elif rk == N:
            return f"block {idx + 1} of {len(ys)} was refused although its Gram matrix has rank 64"
    if kind == "ok":
        if ra3 < N:
            return f"a block was accepted although rank((B^T B)^3) = {ra3} < 64 (impossible)"
        GEN_STATS["ok_rankA3>=64"] += 1
    else:
        GEN_STATS["limit_rankA3>=64(unlucky)" if ra3 >= N else "limit_rankA3<64"] += 1
    return None


def words_of(s):
    return [] if s == "-" else [int(x, 16) for x in s.split(",")]


LANCZOS_STATS = {"runs": 0, "iterations": 0, "pairs_checked": 0, "max_iterations": 0}


def oracle_lanczos(case, ans):
    """Montgomery's invariants on a REAL run, recomputed with plain sparse arithmetic: every recorded W_i is the previous
    direction masked by a non-zero mask, the blocks are pairwise A-orthogonal (W_i^T A W_j = 0, i != j, A = B^T B), the Gram matrix
    W_i^T A W_i is invertible on its mask, and after its update Y is A-orthogonal to every W_j seen so far"""
    a = case.args
    nrows, ncols = int(a[0]), int(a[1])
    cols = dec_sparse(ncols, a[2])
    if ans in ("hang", "abort", "?", ""):
        return f"no value returned ({ans})"
    parts = ans.split(" ")
    if len(parts) != 2 or parts[0] == "panic":
        return "kernel_lanczos panicked on a matrix with at least 64 rows and rank((B^T B)^3) >= 64"
    body, _, basis = parts[1].partition("#")
    items = body.split("|")
    yfin = words_of(items[-1])
    # the returned vectors (the K follow-up recomputes them with the composed model kernelLanczos): non-zero, in the kernel
    dense = [sum(1 << i for i in set(c) if c.count(i) % 2) for c in cols]
    for hx in ([] if basis in ("", "-") else basis.split(",")):
        v = int(hx, 16)
        if v == 0 or v >> ncols:
            return "returned vector is null or too long"
        acc = 0
        j = 0
        while v:
            if v & 1:
                acc ^= dense[j]
            v >>= 1
            j += 1
        if acc:
            return "returned vector is not in the kernel"
    if len(yfin) != ncols:
        return "final Y has the wrong length"
    ws, aws = [], []
    for it in items[:-1]:
        m, w, y = it.split("/")
        m, w, y = int(m, 16), words_of(w), words_of(y)
        if m == 0 or len(w) != ncols or len(y) != ncols:
            return "malformed iteration record"
        if any(x & ~m for x in w):
            return "W_i has a vector outside its mask"
        aw = sp_tmul(cols, sp_mul(cols, nrows, w))
        for wj, awj in zip(ws, aws):
            LANCZOS_STATS["pairs_checked"] += 1
            if any(dot_blocks(wj, aw)) or any(dot_blocks(w, awj)):
                return "W_i^T A W_j != 0 for two blocks of the run"
        g = dot_blocks(w, aw)
        if rank_of(g) != popcount(m) or any((g[i] != 0) != bool((m >> i) & 1) for i in range(N)):
            return "W_i^T A W_i is not invertible on its mask"
        ws.append(w)
        aws.append(aw)
        ay = sp_tmul(cols, sp_mul(cols, nrows, y))
        for wj in ws:
            if any(dot_blocks(wj, ay)):
                return "Y is not A-orthogonal to the blocks selected so far"
    LANCZOS_STATS["runs"] += 1
    LANCZOS_STATS["iterations"] += len(ws)
    LANCZOS_STATS["max_iterations"] = max(LANCZOS_STATS["max_iterations"], len(ws))
    return None


def dot_blocks(x, y):
    """X^T Y (64 x 64): row a = xor of the words y[r] over the coordinates r whose x word has bit a"""
    g = [0] * N
    for xw, yw in zip(x, y):
        while xw:
            low = xw & -xw
            g[low.bit_length() - 1] ^= yw
            xw ^= low
    return g


def oracle(case, ans):
    """Specification, independent of the routines under test (plain integers, xor-basis elimination). See the RULE text
    and the comments of each branch; `panic` is a failure wherever the documented domain contains the input."""
    op = base_op(case.op)
    chk = prefix_of(case.op) == "sm_"
    a = case.args
    if op in ("genblock_replay", "lanczos_replay"):
        return None                      # answered by the model only (the follow-up comparison is the check)
    if op == "lanczos":
        return oracle_lanczos(case, ans)
    if op not in BASE_OPS:
        return "unknown op"
    if ans in ("hang", "abort", "?", ""):
        return f"no value returned ({ans})"
    panic = ans == "panic" or ans.startswith("panic ")
    if op == "genblock":
        return oracle_genblock(case, ans)

    # ---- lanes
    if op in ("lz", "revlane"):
        w = parse_lane(a[0])
        if op == "lz":
            want = str((w & -w).bit_length() - 1 if w else 64)
        else:
            want = "%x" % rev64(w)
        return None if ans == want else f"expected {want}"
    if op == "identity":
        return None if ans == enc(IDENT) else "not the identity matrix"

    m, sym, alt, rk = info(a[0])
    # ---- operations recomputed directly
    if op == "symmetric":
        return None if ans == ("true" if sym else "false") else f"expected {sym}"
    if op == "transpose":
        want = [sum(((m[j] >> i) & 1) << j for j in range(N)) for i in range(N)]
        return None if ans == enc(want) else "not the transpose"
    if op == "reverse":
        want = [rev64(m[N - 1 - i]) for i in range(N)]
        return None if ans == enc(want) else "not the matrix with rows and columns reversed"
    if op == "mask":
        # debug_assert!(!self.symmetric() || m.symmetric()) cannot fire: masking rows and columns by the same set keeps symmetry
        k = parse_lane(a[1])
        return None if ans == enc(mask_mat(m, k)) else ("panic" if panic else "not the matrix masked to the index set")
    if op == "mul":
        b = parse_mat(a[1])
        return None if ans == enc(mmul(m, b)) else ("panic" if panic else "not the product")

    # ---- rank, rank_reverse: the rank, and a mask selecting that many linearly independent rows (a basis of the row space)
    if op in ("rank", "rank_reverse"):
        if panic:
            return "panic"
        p = ans.split(" ")
        if len(p) != 2 or not p[0].isdigit() or parse_lane(p[1]) is None:
            return "unparsable answer"
        r, k = int(p[0]), parse_lane(p[1])
        if r != rk:
            return f"rank {r}, elimination finds {rk}"
        if popcount(k) != r:
            return "popcount(mask) differs from the rank"
        if rank_of([m[i] for i in bits(k)]) != r:
            return "the rows selected by the mask are linearly dependent"
        return None

    # ---- inverse: None iff singular, otherwise a two-sided inverse
    if op == "inverse":
        if panic:
            return "panic"
        if ans == "none":
            return None if rk < N else "None for an invertible matrix"
        w = parse_mat(ans)
        if w is None:
            return "unparsable answer"
        if rk < N:
            return "a matrix returned for a singular input"
        if mmul(m, w) != IDENT or mmul(w, m) != IDENT:
            return "M*W or W*M is not the identity"
        return None

    # ---- pseudoinverse: on its documented domain (null outside S x S, invertible there) the inverse on S
    if op == "pinv":
        s = pinv_domain(m)
        if s is None:
            return None                  # outside "M is a square matrix with null coefficients outside of set of indices I": K only
        if panic:
            return "panic inside the documented domain"
        w = parse_mat(ans)
        if w is None:
            return "unparsable answer"
        return check_pinv(m, s, w)

    # ---- submatrix: for symmetric M the principal block on a set S of rank(M) indices, invertible on S
    if op == "submatrix":
        if not sym:
            if chk:
                return None if panic else "debug_assert!(self.symmetric()) did not fire in the checked profile"
            return None
        if panic:
            return "panic on a symmetric matrix"
        t = parse_mat(ans)
        if t is None:
            return "unparsable answer"
        s = sum(1 << i for i, r in enumerate(t) if r)
        if popcount(s) != rk:
            return f"{popcount(s)} non-zero rows, rank is {rk}"
        if t != mask_mat(m, s):
            return "not M masked to the set of its non-zero rows"
        if rank_of(t) != rk:
            return "the selected principal block is singular"
        return None

    # ---- the call site of kernel_lanczos, for symmetric M
    if op == "pipeline":
        if panic:
            # a Gram matrix is symmetric; on other input the selected block may be singular (outside the domain of
            # pseudoinverse): such a panic is compared with the model only
            return "panic on a symmetric matrix" if sym else None
        p = ans.split(" ")
        if len(p) != 3 or not p[0].isdigit() or parse_lane(p[1]) is None:
            return "unparsable answer"
        r, k, w = int(p[0]), parse_lane(p[1]), parse_mat(p[2])
        if w is None:
            return "unparsable answer"
        if r != rk:
            return f"rank {r}, elimination finds {rk}"
        if popcount(k) != r:
            return "popcount(mask) differs from the rank"
        t = mask_mat(m, k)
        if not sym:
            # (rk, mask) is the answer of rank / rank_reverse, specified for every matrix; W is specified only when the
            # selected block happens to be invertible (then mask and pseudoinverse are inside their documented domains)
            if rank_of([m[i] for i in bits(k)]) != r:
                return "the rows selected by the mask are linearly dependent"
            if pinv_domain(t) != k:
                return None
        return check_pinv(t, k, w)
    return "unknown op"


# ======================================================================================
# distribution
# ======================================================================================

def struct_class(m, sym, alt, rk):
    if rk == 0:
        return "zero"
    s = "sym-alt" if alt else ("sym" if sym else "nonsym")
    return s + ("/rk64" if rk == N else "/rk1-63")


def lane_class(w):
    if w == 0:
        return "zero"
    if w == M64:
        return "all-ones"
    return "single-bit" if popcount(w) == 1 else "general"


def klass(case, ans):
    op = base_op(case.op)
    lab = case.op
    a = case.args
    panic = ans == "panic" or ans.startswith("panic ")
    bad = ans in ("hang", "abort", "?")
    outcome = "/" + ans if bad else ("/panic" if panic else ("/none" if ans == "none" else "/ok"))
    if op == "lanczos":
        return f"{lab}/iterations={ans.count('|')}{'/panic' if panic else ''}" if not bad else lab + outcome
    if op in ("identity", "genblock_replay", "lanczos_replay") or op not in BASE_OPS or ans == "?":
        return lab + outcome             # (`?` = a request line that the harness could not parse: corpus typo)
    if op in ("lz", "revlane"):
        return f"{lab}:{lane_class(parse_lane(a[0]))}{outcome}"
    if op == "genblock":
        nrows, ncols, cols, limit, ra3, wellformed = gen_parse(case)
        kind = ans.split(" ", 1)[0] if not bad else ans
        rows = "rows<64" if nrows < N else ("rows=64" if nrows == N else "rows>64")
        agree = ""
        if kind in ("ok", "limit") and nrows >= N:
            agree = ":agrees-with-rankA3" if (kind == "ok") == (ra3 >= N) else ":unlucky(limit,rankA3>=64)" if kind == "limit" else ":IMPOSSIBLE(ok,rankA3<64)"
        return f"{lab}:{rows}:rankA3{'>=64' if ra3 >= N else '<64'}/{kind}{agree}"
    m, sym, alt, rk = info(a[0])
    sc = struct_class(m, sym, alt, rk)
    if op == "mask":
        k = parse_lane(a[1])
        return f"{lab}:{'sym' if sym else 'nonsym'}:mask-{lane_class(k)}{outcome}"
    if op == "mul":
        def kind(x):
            return "zero" if not any(x) else ("identity" if x == IDENT else "general")
        return f"{lab}:{kind(m)}*{kind(parse_mat(a[1]))}{outcome}"
    if op == "pinv":
        s = pinv_domain(m)
        return f"{lab}:{'in-domain' if s is not None else 'out-of-domain'}:{sc}{outcome}"
    if op in ("pipeline", "submatrix"):
        extra = ""
        if op == "pipeline":
            lab += "-" + (a[1] if len(a) > 1 else "?")
            if not sym and not panic and not bad:
                # a non-symmetric input: did the selected block happen to be invertible ?
                p = ans.split(" ")
                k = parse_lane(p[1]) if len(p) == 3 else None
                extra = ":block-invertible" if k is not None and pinv_domain(mask_mat(m, k)) == k else ":block-singular"
        return f"{lab}:{sc}{extra}{outcome}"
    return f"{lab}:{sc}{outcome}"


def nontrivial(case, ans):
    op = base_op(case.op)
    a = case.args
    if op in ("lz", "revlane"):
        return parse_lane(a[0]) != 0
    if op == "identity":
        return True
    if op in ("genblock", "genblock_replay", "lanczos", "lanczos_replay"):
        return int(a[0]) >= N and sum(1 for c in a[2].split(";") if c != "-") >= 2
    if op not in BASE_OPS:
        return False
    mats = [parse_mat(a[0])] + ([parse_mat(a[1])] if op == "mul" else [])
    return all(x is not None and sum(1 for r in x if r) >= 2 for x in mats)


def finding_key(case, ans, profile):
    return None          # no defect of the 64x64 core was found by this module


def extra_coverage():
    return {"c14_small_families": dict(sorted(FAMILIES.items())), "c14_small_genblock": dict(GEN_STATS),
            "c14_small_lanczos_loop": dict(LANCZOS_STATS)}


# ======================================================================================
# evidence texts (drafts)
# ======================================================================================

RULE_SMALL = (
    "64x64 core (ops sm_* = checked model on the chk harness, smr_* = release model on the release harness; every input goes to both; K+O): "
    "lz / reverse_lane on 0, 1, 2^63, all ones, every single bit 0..63, random words and random odd words shifted up; identity; every SmallMat "
    "operation (rank, rank_reverse, pseudoinverse, inverse, submatrix, the kernel_lanczos call site rank|rank_reverse -> mask -> pseudoinverse -> "
    "debug_assert in both directions; symmetric / transpose / reverse on a subset) on: zero, identity, permutation matrices (shifts, "
    "involutions, random), symmetric matrices of EVERY rank 0..64 (X^T X regenerated until each rank has appeared, X^T X with even column "
    "weights = alternating of every even rank, P D P^T with D diagonal for every rank 1..64 and D hyperbolic for every even rank, dense and "
    "sparse P), random symmetric matrices of density 0.03..0.9 with and without zero diagonal, symmetric matrices already masked by a set of "
    "independent rows and invertible blocks (symmetric, alternating, not symmetric) embedded on index sets of size 0,1,2,3,31..33,62..64 and "
    "random (the documented domain of pseudoinverse) and one-step perturbations of those (a row / a column / a symmetric pair outside S, a "
    "singular block, a null row inside S), random dense / sparse (0..3 bits per row) / rank-deficient non-symmetric matrices, "
    "single-entry matrices (i,j) for i,j in {0,1,31,32,62,63}, every non-zero matrix supported on a 2x2 corner block, lane boundaries (all "
    "rows 1 / 2^63 / all ones, only the first or last row, only the first or last column, arrows, J - I, antidiagonal), unit triangular "
    "(invertible) and singular triangular matrices, random invertible matrices (P L U) and corank-1 perturbations of them, symmetric "
    "matrices with one entry flipped; mask with masks 0, all ones, single bits, half lanes, the matrix's own row basis and random on symmetric "
    "and non-symmetric matrices; products incl. identity, zero, permutations, single-entry and constant-row factors; genblock (harness only, "
    "limit 8 draws, every recorded block replayed by the model) on sparse matrices with 64, 65, 100, 130 rows and excess 1, 3, 10 with "
    "rank((B^T B)^3) >= 64, a square one, repeated row indices, the zero matrix, fewer than 64 rows (panic), rank(B) < 64, and "
    "rank(B) >= 64 > rank((B^T B)^3). Oracle: rank by xor-basis elimination, mask = that many independent rows; inverse two-sided or None "
    "iff singular; pseudoinverse = inverse on S whenever the input is null outside S x S and invertible there (anything else is compared "
    "with the model only); submatrix / call site on symmetric input: |S| = rank, block invertible, W the inverse on S, no panic (call site on "
    "other input: a returned (rk, mask) must still be the rank and independent rows, W the inverse on the mask whenever that block is "
    "invertible; submatrix on non-symmetric input must panic in the checked profile); genblock: "
    "the accepted block has a Gram matrix of rank 64 and every refused one a smaller rank, `ok` impossible when rank((B^T B)^3) < 64; "
    "non-trivial = at least two non-zero rows (lanes: w != 0); distinct by request line")
MODELLED = [
    "matrix/gf2.rs lz, reverse_lane (583-589) and impl SmallMat (591-787): identity, symmetric, transpose, mask, submatrix, rank, pseudoinverse, "
    "reverse, rank_reverse, inverse, line by line on lists of 64 words, in BOTH profiles (parameter dbg: every debug_assert! is a panic site only "
    "when dbg; unwrap of position, 1 << idx, idx[..rk] are panic sites always): Ymq/Model/Gf2Small.lean; &SmallMat * &SmallMat as its defining sum "
    "(the rotation trick of muladd is sampled by sm_mul)",
    "the selection of a non-degenerate subblock in kernel_lanczos (lines 203-239: rank / rank_reverse, mask, pseudoinverse, debug_assert on the "
    "rank), mul_aab_opt (322-335) and genblock (337-352) with the blocks drawn by thread_rng as an input stream recorded by the hook "
    "verif_hooks_small::record_genblock: Ymq/Model/Gf2Genblock.lean",
    "the initial block (lines 141-158) and ONE iteration of the main loop of kernel_lanczos (lines 162-247) exactly as the code computes it: "
    "next = A*W_last ^ V_last, av = A*next, the projections on the earlier blocks with the purge of consumed blocks (mask == 0), the Gram "
    "matrix, rank / rank_reverse on every 2nd block, the exit on rk == 0, W = next & mask, pseudo-inverse of the masked Gram matrix, update of "
    "Y by Block::muladd, every debug_assert! as a panic site of the checked profile; the loop with fuel replays real runs from the block "
    "returned by genblock, iteration by iteration against the hook record (mask, W_i, Y): Ymq/Model/Gf2Lanczos.lean",
]
UNMODELLED = [
    "the random generator of genblock (rand::thread_rng, try_fill) is an input stream of the model: its distribution, hence the probability-1 "
    "termination of genblock when rank((B^T B)^3) >= 64 and the existence of an admissible block in that case, are outside the model (the "
    "harness stops the loop after 8 draws); the number of iterations of the main loop and the verbose messages are not specified; that the "
    "A-orthogonality assertions of the checked profile hold on every reachable state is PROVED (lanczos_loop_no_panic)",
    "the rotation trick of muladd (&SmallMat * &SmallMat, &Block * &SmallMat) is compared with the defining sum by sm_mul only (not proved)",
    "behaviour of pseudoinverse / submatrix / the call site outside their documented domain (input not null outside S x S, not symmetric) has "
    "no specification: the oracle accepts any answer there, K still compares it with the model in both profiles",
]
HYPOTHESES = []

# --- the module can also be run on its own: ./check C14_SMALL (evidence/C14_SMALL.json) ---
PID = "C14_SMALL"
GEN = []
PROFILES = ["release", "chk"]
TIMEOUT = 30.0
RULE = RULE_SMALL
CLAIM = ("Lean theorems, for EVERY size n (the code has n = 64; n <= 256 where the 256-entry index array of pseudoinverse matters), about the "
         "executable model of the 64x64 GF(2) core of matrix/gf2.rs in both profiles: rank never panics and returns (rk, mask) with "
         "popcount(mask) = rk = Matrix.rank over ZMod 2, the selected original rows being linearly independent and spanning the row space "
         "(rank_spec; not always the first independent rows: rank_not_greedy); rank_reverse likewise, with rank and independence stated for M "
         "itself and the mask being the reversed selection of the reversed matrix (rank_reverse_spec); inverse never panics, returns a "
         "two-sided inverse iff the matrix is invertible and None otherwise, identically in both profiles (inverse_spec, inverse_some_iff, "
         "inverse_profile_independent); pseudoinverse on its documented domain (input null outside S x S, S = the mask rank selects; "
         "symmetry not needed) reaches NO panic site - unwrap of position, the lz assertions, r == 1 << i, both minv.rank() == self.rank() - "
         "and returns W supported on S x S with W*T = identity on S (pseudoinverse_spec, pseudoinverse_no_panic; pseudoinverse_sound for "
         "every n); Montgomery's lemma, proved for symmetric matrices over any field, puts every SYMMETRIC matrix masked by rank's or "
         "rank_reverse's selection into that domain (submatrix_spec: submatrix never panics on symmetric input), so the call site of "
         "kernel_lanczos on a symmetric Gram matrix reaches no panic site in either profile and direction, including "
         "debug_assert!(ginv.rank() == (rk, mask)), with rk = rank, W supported on S x S, W*T = 1 on S, W*T*W = W (pipeline_spec); entrywise "
         "specifications of transpose, mask (never fails its assertion), reverse, reverse_lane, symmetric, identity; genblock refuses every "
         "stream whose blocks all have a Gram matrix of rank < 64 and returns the first block of rank 64 (genblock_never_ends, "
         "genblock_accepts); mul_aab_opt of the model is the matrix product B^T (B y) (mul_aab_opt_spec), the Gram matrix tested by genblock is "
         "y^T (B^T B)^3 y and has rank <= rank((B^T B)^3) (gram_rank_le_cube, Mathlib Matrix.rank), so the oracle's EXACT hang rule holds in the "
         "model: with rank((B^T B)^3) < 64 EVERY stream of blocks is refused without panic and the loop never ends "
         "(genblock_never_ends_hang_rule; corollary rank(B) < 64: genblock_never_ends_low_rank; witness: the 64 x 2 matrix with two columns "
         "e0, genblock_never_ends_witness); counter-witnesses outside the domain (symmetric but unmasked input: unwrap panic in both "
         "profiles; non-symmetric matrix at the call site: wrong answer in release, assertion in checked); one iteration of the main loop of "
         "kernel_lanczos reaches no panic site of the release profile on a well-formed state and leaves a well-formed state "
         "(lanczos_step_no_panic_release, through the symmetry of the Gram matrix and Montgomery's lemma), and a returning iteration of the "
         "checked profile has asserted W^T A Y = 0 for the new block and the rank selection of the new pseudo-inverse "
         "(lanczos_step_checked_orthogonal); the INDUCTIVE STEP of block Lanczos on the checked model: from a state satisfying the invariant "
         "LInv (every selected block of the history pairwise A-orthogonal, every kept W_j masked and invgs[j] the two-sided inverse of "
         "W_j^T A W_j on its mask, Y A-orthogonal to every selected block) and given the three-term property of the iteration, one "
         "iteration of the checked profile reaches no panic site - all debug_assert! on A-orthogonality and on the rank hold - and the "
         "invariant holds again (lanczos_step_no_panic_checked, lanczos_invariant; matrix forms of Block::muladd, block products, masking; "
         "left inverse = right inverse on the S x S block). NOT proved: the converse of the hang rule (an admissible block exists when "
         "rank((B^T B)^3) >= 64: classification of symmetric bilinear forms over GF(2)). Proved further: the base case of the "
         "invariant (lanczos_init_invariant); loop level: the release loop with fuel never panics (lanczos_loop_no_panic_release) and "
         "the checked loop never panics - all assertions of every iteration and after the loop hold - until the first state where a block "
         "is no longer projected (lanczos_loop_no_panic_unpurged); Montgomery's three-term property (the hypothesis of the checked step) follows from an extended invariant VInv "
         "that adds the directions V_m to the history (lanczos_three_term_of_extended_invariant); a step preserves VInv, hence the UNCONDITIONAL loop-level "
         "statements: the checked loop with fuel reaches no panic site - every debug_assert! of every iteration and after the loop holds - "
         "(lanczos_loop_no_panic) and every reachable state satisfies the classical invariant (lanczos_checked_assertions_hold); also "
         "sampled by K on every iteration of real runs and checked pairwise by the oracle; the composed model kernelLanczos (initial block + loop + C14's final stage) returns only "
         "non-zero kernel vectors (kernel_lanczos_sound) and reaches no panic site in the release profile "
         "(kernel_lanczos_release_no_panic); its answer is K-compared with the basis returned by real runs.")
LEVEL_NOTE = ("The theorems are about the model; the K stream ties it to the code in both profiles (sm_* against the checked build, smr_* "
              "against the release build, panics included); genblock is tied through the recorded stream of random blocks. The Python oracle "
              "judges every implementation answer inside the documented domains by its own elimination.")
TECHNIQUE = "Lean 4 proof about a hand model + differential correspondence check + spec oracle"
