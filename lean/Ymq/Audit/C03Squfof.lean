import Ymq.Props.C03Squfof

#print axioms Ymq.C03Squfof.isqrt_total
#print axioms Ymq.C03Squfof.squfof_seed_irrelevant
#print axioms Ymq.C03Squfof.squfof_sound
#print axioms Ymq.C03Squfof.squfof_exit
#print axioms Ymq.C03Squfof.squfof_uses_exit
#print axioms Ymq.C03Squfof.squfof_proper
#print axioms Ymq.C03Squfof.attempt_panic_iff
#print axioms Ymq.C03Squfof.squfof_panic_iff
#print axioms Ymq.C03Squfof.squfof_no_panic_partial
#print axioms Ymq.C03Squfof.squfof_no_panic_reachable
#print axioms Ymq.C03Squfof.squfof_panics_on_2
#print axioms Ymq.C03Squfof.squfof_panics_on_small_primes
#print axioms Ymq.C03Squfof.squfof_panics_on_50
#print axioms Ymq.C03Squfof.squfof_panics_on_6000163058
