"""Protocol traces of the shape-modelled drivers (classical QS, ECM, class groups): shared by props/c04.py and props/c05.py.

Harness op `sched_trace` (harness/src/ops_schedtrace.rs) calls qsieve::qsieve / ecm::ecm / classgroup::classgroup directly with a
recording abort predicate and answers `base=<trace>/<outcome> run=<trace>/<outcome>` (base: the predicate never fires; run: it
fires from its k-th poll on). Three judgements:
  O  `oracle`: what the run must look like GIVEN the base, computed here in plain Python from the informal reading of the source
     (QS: the poll follows the large block pair and ends the loop; ECM: every curve polls first, a true poll ends that curve only;
     classgroup: poll after each A value ends the loop, one more poll after the loop);
  K  `followups`: the same question asked to the Lean model (op `sched_model`, Ymq/Drv/SchedTrace.lean: the GENERATED shapes run
     with the step function of the protocol model): base and run must both be reproduced byte for byte. Deterministic
     configurations only (QS with and without a pool - its polls happen in the coordinating thread after the join; ECM and
     class groups without a pool)."""
from vlib.pipeline import Case
from vlib import gen

ECM_PARAMS = "24 300 20000"      # curves b1 b2 of the ecm requests


def parse(ans):
    if not ans.startswith("base="):
        return None
    try:
        b, r = ans.split(" ")
        bt, bo = b[len("base="):].rsplit("/", 1)
        rt, ro = r[len("run="):].rsplit("/", 1)
    except ValueError:
        return None
    ev = lambda t: [] if t == "-" else t.split(",")
    return ev(bt), bo, ev(rt), ro


def _polls(ev):
    return [e for e in ev if e[0] == "p"]


def _args(case):
    drv, inp, threads, flip = case.args[0], case.args[1], int(case.args[2]), case.args[3]
    return drv, inp, threads, (None if flip == "-" else int(flip))


def expected_run(drv, flip, bev, bo, curves):
    """the run's (events, outcome) predicted from the base's, single-threaded reading of the source"""
    P = len(_polls(bev))
    if flip is None or flip >= P + (curves - P if drv == "ecm" and bo == "exhausted" else 0):
        return bev, bo
    if drv == "qs":
        out, seen = [], 0
        for e in bev:
            if e[0] == "p":
                if seen == flip:
                    return out + ["p1"], "abort"
                seen += 1
            out.append(e)
    if drv == "ecm":
        return ["p0"] * flip + ["p1"] * (curves - flip), "abort"
    if drv == "cg":
        # polls 0..P-2 follow an A value (a true one breaks the loop), poll P-1 is the one after the loop
        return ["p0"] * flip + (["p1", "p1"] if flip < P - 1 else ["p1"]), "abort"
    return None


def oracle(case, ans):
    p = parse(ans)
    if p is None:
        return f"sched_trace did not answer ({ans[:80]})"
    bev, bo, rev, ro = p
    drv, inp, threads, flip = _args(case)
    curves = int(case.args[4]) if drv == "ecm" else 0
    if any(e == "p1" for e in bev) or bo not in ("done", "exhausted"):
        return f"the undisturbed run did not end normally: {bo}"
    if drv != "ecm" and bo != "done":
        return f"the undisturbed run did not complete: {bo}"
    # absolute requirements on the undisturbed run (not relative to anything): every curve of an ECM run that reports nothing polled
    # once; a QS run polled after each of its large block pairs (the trace ends with a poll); classgroup polled at least after the loop
    if drv == "ecm" and bo == "exhausted" and len(_polls(bev)) != curves:
        return f"{len(_polls(bev))} polls in an ECM run of {curves} curves that reported nothing"
    if drv == "ecm" and bo == "done" and not bev:
        return "an ECM run that reported a factor never polled"
    if drv == "qs" and (not bev or bev[-1] != "p0" or any(a[0] == b[0] == "a" for a, b in zip(bev, bev[1:]))):
        return f"the undisturbed QS run does not poll after every large block pair: {','.join(bev)[:120]}"
    if drv == "cg" and not bev:
        return "the undisturbed class group run never polled"
    fired = any(e == "p1" for e in rev)
    if fired and ro not in ("abort", "abort+found"):
        return f"a poll answered true but the driver came back with `{ro}`"
    if not fired and ro not in ("done", "exhausted"):
        return f"no poll answered true and the driver ended with `{ro}`"
    rp = _polls(rev)
    if flip is not None and rp != ["p0"] * min(flip, len(rp)) + ["p1"] * max(0, len(rp) - flip):
        return "the recorded answers are not `false` k times and `true` afterwards"
    deterministic = drv == "qs" or threads == 0
    if deterministic:
        exp = expected_run(drv, flip, bev, bo, curves)
        if drv == "qs" and threads > 0 and flip is None:
            # the completion test reads a store whose content depends on the lock order: only the common part is comparable
            k = min(len(bev), len(rev))
            if bev[:k - 1] != rev[:k - 1]:
                return f"two undisturbed runs with a pool disagree before their last block: {bev[:8]} / {rev[:8]}"
            return None
        if (rev, ro) != exp:
            return (f"after a flip at poll {flip} the run is {','.join(rev)[:120]}/{ro}, expected {','.join(exp[0])[:120]}/{exp[1]} "
                    f"(base {','.join(bev)[:120]}/{bo})")
        return None
    # with a pool (ECM, class groups): every unit still polls at most once and nothing is reported by a unit that polled true
    if drv == "ecm" and len(rp) > curves:
        return f"{len(rp)} polls for {curves} curves"
    return None


def model_requests(case, ans):
    """(request for the Lean driver, expected answer) pairs: the model must reproduce the base and the run"""
    p = parse(ans)
    if p is None:
        return []
    bev, bo, rev, ro = p
    drv, inp, threads, flip = _args(case)
    if not (drv == "qs" or threads == 0) or any(e == "p1" for e in bev):
        return []
    P = len(_polls(bev))
    if drv == "qs":
        if bo != "done" or (bev and bev[-1][0] == "a"):
            return []
        units, cur = [], 0
        for e in bev:
            if e[0] == "a":
                cur = int(e[1:])
            else:
                units.append(cur)
                cur = 0
        name, T, tail = ("qs-mt" if threads > 0 else "qs-st"), sum(units), []
        if not units or units[-1] == 0:
            return []
    elif drv == "ecm":
        curves = int(case.args[4])
        units = [0] * curves
        if bo == "done":
            units[P - 1] = 1
        name, T, tail = "ecm", 1, []
    else:
        if bo != "done" or P == 0:
            return []
        units, name, T, tail = [1] * P, "cg-st", P, ["final"]
    u = ",".join(map(str, units)) if units else "-"
    out = [(" ".join(["sched_model", name, u, str(T), "-"] + tail), f"{','.join(bev) if bev else '-'}/{bo}")]
    if flip is not None and not (drv == "qs" and threads > 0 and len(_polls(rev)) > P):
        out.append((" ".join(["sched_model", name, u, str(T), str(flip)] + tail), f"{','.join(rev) if rev else '-'}/{ro}"))
    return out


def klass(case, ans):
    p = parse(ans)
    drv, inp, threads, flip = _args(case)
    if p is None:
        return f"trace/{drv}/no-answer"
    return f"trace/{drv}/threads={threads}/{'noflip' if flip is None else 'flip'}/{p[1]}->{p[3]}"


def nontrivial(case, ans):
    p = parse(ans)
    return p is not None and len(_polls(p[0])) >= 2


def _semiprime(rng, bits):
    while True:
        p, q = gen.rand_prime(rng, bits // 2), gen.rand_prime(rng, bits - bits // 2)
        if p != q:
            return p * q


def _disc(rng, bits):
    while True:
        d = rng.getrandbits(bits) | (1 << (bits - 1))
        d -= (d % 4)
        d += rng.choice([3, 4])          # -d = 1 or 0 mod 4
        if d % 4 == 0 and (d // 4) % 4 in (0, 3):
            continue                      # keep it simple: fundamental-looking discriminants only
        return -d


def cases(rng, tier, flips, thread_sets, tag):
    """`flips`: flip instants; `thread_sets`: dict driver -> thread counts"""
    quick = tier == "quick"
    for bits in ((66, 84) if quick else (66, 84, 100, 110)):
        n = _semiprime(rng, bits)
        for t in thread_sets["qs"]:
            for fl in flips:
                yield Case(f"sched_trace qs {n} {t} {fl}", k=False, tag=tag, timeout=120)
    # ECM: a 28..36-bit factor (usually one of the 24 curves reports it, not the first) and a balanced 2 x 60 bits input (no curve reports: every curve is polled)
    ins = [gen.rand_prime(rng, rng.choice([28, 32, 36])) * gen.rand_prime(rng, 70) for _ in range(3 if quick else 8)] + [_semiprime(rng, 120)]
    for n in ins:
        for t in thread_sets["ecm"]:
            for fl in flips:
                yield Case(f"sched_trace ecm {n} {t} {fl} {ECM_PARAMS}", k=False, tag=tag, timeout=120)
    for bits in ((48, 80, 100) if quick else (40, 64, 80, 96, 104, 112)):
        d = _disc(rng, bits)
        for t in thread_sets["cg"]:
            for fl in flips:
                yield Case(f"sched_trace cg {d} {t} {fl}", k=False, tag=tag, timeout=120)
