/-
Model of the factoring entry point: `factor`, `factor_impl`, `check_factors`
(src/lib.rs:168-518), line by line. Every sub-algorithm (perfect_power, pseudoprime, rho,
P-1, ECM, the sieves, the abort predicate) is a field of an `Oracle` record with its own
state `σ`: an arbitrary (stateful, possibly adversarial) function in the theorems, a replayed
trace of the real run in the correspondence check.

Outcomes: `.ok`, `.panic site` (a Rust assert / unreachable! / division by zero reached),
`.fuel` (recursion deeper than the fuel given: model artefact).
No Mathlib import: linked into the native driver.
-/
import Ymq.Gen.Primality

namespace Ymq.Factor

inductive Algo
  | auto | rho | squfof | qs64 | pm1 | ecm | ecm128 | qs | mpqs | siqs
  deriving DecidableEq, Repr, Inhabited

inductive Res (α : Type)
  | ok (a : α)
  | panic (site : String)
  | fuel
  deriving Repr

/-- result of a sieve (`siqs` returns `Result<Vec<Uint>, UnexpectedFactor>`; qs/mpqs always `Ok`) -/
inductive SieveRes
  | divs (l : List Nat)
  | unexpected (d : Nat)
  deriving Repr

/-- The sub-algorithms called by `factor_impl`, with threaded state. -/
structure Oracle (σ : Type) where
  pp : σ → Nat → Option (Nat × Nat) × σ              -- arith::perfect_power
  prime : σ → Nat → Bool × σ                          -- pseudoprime
  rho : σ → Nat → Option (List Nat × Nat) × σ         -- pollard_rho::rho
  pm1q : σ → Nat → Option (List Nat × Nat) × σ        -- pollard_pm1::pm1_quick
  ecmauto : σ → Nat → Option (Nat × Nat) × σ          -- ecm128(n,false) for 52..=128 bits else ecm_auto
  pm1 : σ → Nat → Option (List Nat × Nat) × σ         -- pm1_only
  ecm : σ → Nat → Option (Nat × Nat) × σ              -- ecm_only
  ecm128 : σ → Nat → Option (Nat × Nat) × σ           -- ecm128(n,true)
  qs64 : σ → Nat → Option (Nat × Nat) × σ             -- qsieve64::qsieve
  squfof : σ → Nat → Option (Nat × Nat) × σ           -- squfof::squfof
  abort : σ → Nat → Bool × σ                          -- prefs.abort() (argument: current n, informative)
  sieve : σ → Algo → Nat → SieveRes × σ               -- qsieve / mpqs / siqs

/-- `Uint::bits()` -/
def bits (n : Nat) : Nat := if n = 0 then 0 else Nat.log2 n + 1

/-- 2^1024: `Uint` arithmetic wraps modulo this in release builds. -/
def U : Nat := 2 ^ 1024

structure St (σ : Type) where
  os : σ
  factors : List Nat        -- `factors: &mut Vec<Uint>` in push order
  pm1done : Bool            -- Preferences::pm1_done
  giveups : List Nat        -- model-only log: composites pushed unsplit (explicit give-up events)

variable {σ : Type}

def St.push (s : St σ) (x : Nat) : St σ := { s with factors := s.factors ++ [x] }
def St.giveup (s : St σ) (x : Nat) : St σ := { s with factors := s.factors ++ [x], giveups := s.giveups ++ [x] }

/-- sequencing of recursive calls over a list (`for a in a_s { factor_impl(a, ..) }`) -/
def bindList (f : St σ → Nat → Res (St σ)) : List Nat → St σ → Res (St σ)
  | [], s => .ok s
  | a :: as, s =>
    match f s a with
    | .ok s' => bindList f as s'
    | .panic e => .panic e
    | .fuel => .fuel

/-- one pass of `facs.retain(..)` : returns (kept, splits, residue) -/
def retainPass : List Nat → Nat → List Nat × List Nat × Nat
  | [], residue => ([], [], residue)
  | f :: fs, residue =>
    let g := Nat.gcd f residue
    let split := g ≠ f ∧ g ≠ 1
    -- `residue /= gcd` (gcd = 0 only when f = 0 and residue = 0: division by zero)
    let (kept, splits, r) := retainPass fs (residue / g)
    if split then (kept, f :: splits, r) else (f :: kept, splits, r)

/-- whether some `residue /= gcd` in the retain pass divides by zero -/
def retainDivZero : List Nat → Nat → Bool
  | [], _ => false
  | f :: fs, residue =>
    let g := Nat.gcd f residue
    g = 0 || retainDivZero fs (residue / g)

/-- second loop over `splits`: returns the elements pushed on `facs` -/
def splitPass : List Nat → Nat → List Nat
  | [], _ => []
  | f :: fs, residue =>
    let g := Nat.gcd f residue
    if g ≠ f ∧ g ≠ 1 then (f / g) :: g :: splitPass fs (residue / g)
    else f :: splitPass fs (residue / g)

/-- processing of one divisor `d` (lib.rs:462-491) -/
def combineDiv (facs : List Nat) (d : Nat) : Res (List Nat) :=
  if retainDivZero facs d then .panic "division by zero in residue /= gcd"
  else
    let (kept, splits, residue) := retainPass facs d
    if residue ≠ 1 then .panic "assert!(residue.is_one())"
    else .ok (kept ++ splitPass splits d)

def combineDivs : List Nat → List Nat → Res (List Nat)
  | facs, [] => .ok facs
  | facs, d :: ds =>
    match combineDiv facs d with
    | .ok facs' => combineDivs facs' ds
    | .panic e => .panic e
    | .fuel => .fuel

def replicateAppend (k : Nat) (l : List Nat) : List Nat := (List.replicate k l).flatten

/-- `factor_impl(n, alg, prefs, factors, tpool)` -/
def factorImpl (o : Oracle σ) : Nat → Nat → Algo → St σ → Res (St σ)
  | 0, _, _, _ => .fuel
  | fuel + 1, n, alg, s =>
    let recur (s : St σ) (m : Nat) : Res (St σ) := factorImpl o fuel m alg s
    -- splits returned as (a_s, b)
    let splitMany (s : St σ) (as : List Nat) (b : Nat) : Res (St σ) :=
      match bindList recur as s with
      | .ok s' => recur s' b
      | e => e
    let splitTwo (s : St σ) (a b : Nat) : Res (St σ) :=
      match recur s a with
      | .ok s' => recur s' b
      | e => e
    if n = 1 then .ok s
    else
    let (isPP, os) := o.pp s.os n
    let s := { s with os := os }
    match isPP with
    | some (p, k) =>
      -- factor_impl(p, .., &mut facs); then `facs` is appended k times
      match factorImpl o fuel p alg { s with factors := [] } with
      | .ok s' => .ok { s' with factors := s.factors ++ replicateAppend k s'.factors }
      | e => e
    | none =>
    let (isP, os) := o.prime s.os n
    let s := { s with os := os }
    if isP then .ok (s.push n)
    else
    -- automatic strategy: returns either a finished result or the real algorithm
    let auto : Res (St σ) ⊕ (Algo × St σ) :=
      if alg = .auto then
        -- rho below 52 bits
        let r1 : Res (St σ) ⊕ St σ :=
          if bits n < 52 then
            let (r, os) := o.rho s.os n
            let s := { s with os := os }
            match r with
            | some (as, b) => .inl (splitMany s as b)
            | none => .inr s
          else .inr s
        match r1 with
        | .inl r => .inl r
        | .inr s =>
        -- P-1 once, above 64 bits
        let r2 : Res (St σ) ⊕ St σ :=
          if bits n > 64 ∧ !s.pm1done then
            let (r, os) := o.pm1q s.os n
            let s := { s with os := os, pm1done := true }
            match r with
            | some (as, b) => .inl (splitMany s as b)
            | none => .inr s
          else .inr s
        match r2 with
        | .inl r => .inl r
        | .inr s =>
        let (r, os) := o.ecmauto s.os n
        let s := { s with os := os }
        match r with
        | some (a, b) => .inl (splitTwo s a b)
        | none => .inr (if bits n ≤ 80 then Algo.ecm128 else Algo.siqs, s)
      else .inr (alg, s)
    match auto with
    | .inl r => r
    | .inr (algReal, s) =>
    -- returns `.inl result` when the arm returns, `.inr s` when control falls out of the match
    let arm : Res (St σ) ⊕ St σ :=
      match algReal with
      | .auto => .inl (.panic "unreachable!(impossible)")
      | .pm1 =>
        let (r, os) := o.pm1 s.os n
        let s := { s with os := os }
        match r with
        | some (as, b) => .inl (splitMany s as b)
        | none => .inl (.ok (s.giveup n))
      | .ecm =>
        let (r, os) := o.ecm s.os n
        let s := { s with os := os }
        match r with
        | some (a, b) => .inl (splitTwo s a b)
        | none => .inl (.ok (s.giveup n))
      | .ecm128 =>
        let (r, os) := o.ecm128 s.os n
        let s := { s with os := os }
        match r with
        | some (a, b) => .inl (splitTwo s a b)
        | none => .inl (.ok (s.giveup n))
      | .qs64 =>
        if bits n > 64 then .inl (.panic "assert!(n.bits() <= 64)")
        else
        let (r, os) := o.qs64 s.os n
        let s := { s with os := os }
        match r with
        | some (a, b) => .inl (splitTwo s a b)
        | none => .inl (.ok (s.giveup n))
      | .rho =>
        if bits n > 64 then .inl (.panic "assert!(n.bits() <= 64)")
        else
        let (r, os) := o.rho s.os n
        let s := { s with os := os }
        match r with
        | some (as, b) => .inl (splitMany s as b)
        | none => .inl (.ok (s.giveup n))
      | .squfof =>
        if bits n > 64 then .inl (.panic "assert!(n.bits() <= 64)")
        else
        let (r, os) := o.squfof s.os n
        let s := { s with os := os }
        match r with
        | some (a, b) => .inl (splitTwo s a b)
        | none => .inl (.ok (s.giveup n))
      | .qs | .mpqs | .siqs => .inr s
    match arm with
    | .inl r => r
    | .inr s =>
    let (ab, os) := o.abort s.os n
    let s := { s with os := os }
    if ab then .ok (s.giveup n)
    else
    if algReal ≠ .qs ∧ algReal ≠ .mpqs ∧ algReal ≠ .siqs then .panic "unreachable!(impossible)"
    else
    let (divs, os) := o.sieve s.os algReal n
    let s := { s with os := os }
    match divs with
    | .unexpected d =>
      if d = 0 then .panic "division by zero (n / d)"
      else splitTwo s d (n / d)
    | .divs [] => .ok (s.giveup n)
    | .divs ds =>
      match combineDivs [n] ds with
      | .panic e => .panic e
      | .fuel => .fuel
      | .ok facs =>
        -- final loop over facs
        let step (s : St σ) (f : Nat) : Res (St σ) :=
          if f = n then .ok (s.giveup f)
          else
            let (isP, os) := o.prime s.os f
            let s := { s with os := os }
            if !isP then recur s f else .ok (s.push f)
        bindList step facs s

open Ymq.Gen.Primality in
/-- trial division by the 46 small primes: `(nred, factors)` -/
def trialDivideBy (fuel : Nat) : List Nat → Nat → List Nat → Nat × List Nat
  | [], nred, fs => (nred, fs)
  | p :: ps, nred, fs =>
    -- inner `loop`: divide while divisible (fuel bounds the multiplicity; 1024 suffices below 2^1024)
    let rec go : Nat → Nat → List Nat → Nat × List Nat
      | 0, nred, fs => (nred, fs)
      | k + 1, nred, fs => if nred % p = 0 then go k (nred / p) (fs ++ [p]) else (nred, fs)
    let (nred', fs') := go fuel nred fs
    trialDivideBy fuel ps nred' fs'

inductive Out
  | ok (l : List Nat)
  | failure                 -- Err(FactoringFailure)
  | panic (site : String)
  | fuel
  deriving Repr

/-- insertion sort (`factors.sort()`), kept elementary for proofs -/
def insertSorted (x : Nat) : List Nat → List Nat
  | [] => [x]
  | y :: ys => if x ≤ y then x :: y :: ys else y :: insertSorted x ys

def sortNat : List Nat → List Nat
  | [] => []
  | x :: xs => insertSorted x (sortNat xs)

/-- `assert_eq!(*n, factors.iter().product())` then `factors.sort()`; `Uint` products wrap mod 2^1024 -/
def checkProduct (n : Nat) (factors : List Nat) : Out :=
  if n % U ≠ factors.prod % U then .panic "assert_eq!(*n, factors.iter().product())"
  else .ok (sortNat factors)

/-- `check_factors` followed by `sort` -/
def checkFactors (o : Oracle σ) (os : σ) (n : Nat) (factors : List Nat) : Out :=
  match factors with
  | [p] =>
    if n ≠ p then .panic "assert_eq!(n, p)"
    else if !(o.prime os p).1 then .failure
    else checkProduct n factors
  | _ => checkProduct n factors

open Ymq.Gen.Primality in
/-- `factor(n, alg, prefs)` -/
def factor (o : Oracle σ) (fuel : Nat) (n : Nat) (alg : Algo) (os : σ) : Out :=
  if n = 0 then .ok [0]
  else if bits n > 500 then .failure      -- refused up front (64 * MINT_WORDS - 12 bits: the documented limit)
  else
    let (nred, fs) := trialDivideBy 1100 smallPrimes n []
    match factorImpl o fuel nred alg { os := os, factors := fs, pm1done := false, giveups := [] } with
    | .panic e => .panic e
    | .fuel => .fuel
    | .ok s => checkFactors o s.os n s.factors

end Ymq.Factor
