//! Parameter functions and tables (C20): answered by the real code through the hook accessors.
use crate::util::*;
use bnum::cast::CastFrom;
use yamaquasi::fbase::FBase;
use yamaquasi::{Int, Uint};

/// an integer with `n.bits() == bits` and the requested truth value of `n % 8 == 1`
fn make_n(bits: u32, mod8is1: Option<bool>) -> Option<Uint> {
    let n = if bits == 0 { Uint::ZERO } else { Uint::ONE << (bits - 1) };
    let n = match mod8is1 {
        None => n,
        Some(true) => {
            if bits == 1 {
                n
            } else if bits >= 4 {
                n | Uint::ONE
            } else {
                return None;
            }
        }
        Some(false) => {
            if bits == 1 {
                return None;
            } else {
                n
            }
        }
    };
    assert!(n.bits() == bits);
    if let Some(f) = mod8is1 {
        assert!((n.digits()[0] % 8 == 1) == f);
    }
    Some(n)
}

/// the first probable prime = 3 mod 4 at or above 2^(bits-1) + 12345 (no factor base prime divides
/// it, as for the inputs the drivers accept after `check_divisors`)
fn make_prime(bits: u32) -> Option<Uint> {
    if bits < 16 {
        return None;
    }
    let mut n = (Uint::ONE << (bits - 1)) + Uint::from(12347u64);
    while !yamaquasi::pseudoprime(n) {
        n += Uint::from(4u64);
    }
    if n.bits() != bits || n.digits()[0] % 4 != 3 {
        return None;
    }
    Some(n)
}

fn table_text(t: &[(f64, u64, u64)]) -> String {
    t.iter()
        .map(|r| format!("{}:{}:{}", r.0 as u64, r.1, r.2))
        .collect::<Vec<_>>()
        .join(",")
}

fn param(f: &str, a: &[&str]) -> Option<String> {
    use yamaquasi::{classgroup, mpqs, params, qsieve, siqs};
    let bits = u32_of(a.first()?)?;
    let flag = |i: usize| -> Option<bool> { bool_of(a.get(i)?) };
    let n = || make_n(bits, None);
    let r = match (f, a.len()) {
        ("params::select_fb_size", 3) => {
            params::verif_hooks::vh_select_fb_size(bits, flag(1)?, u64_of(a[2])? as usize).to_string()
        }
        ("params::factor_base_size", 1) => params::factor_base_size(&n()?).to_string(),
        ("params::qs_fb_size", 2) => params::qs_fb_size(bits, flag(1)?).to_string(),
        ("params::mpqs_fb_size", 2) => params::mpqs_fb_size(bits, flag(1)?).to_string(),
        ("params::clsgrp_fb_size", 2) => params::clsgrp_fb_size(bits, flag(1)?).to_string(),
        ("siqs::fb_size", 3) => {
            siqs::verif_hooks::vh_fb_size(&make_n(bits, Some(flag(2)?))?, flag(1)?).to_string()
        }
        ("siqs::nfactors", 1) => siqs::verif_hooks::vh_nfactors(&n()?).to_string(),
        ("siqs::a_value_count", 1) => siqs::verif_hooks::vh_a_value_count(&n()?).to_string(),
        ("siqs::a_tolerance_divisor", 1) => siqs::verif_hooks::vh_a_tolerance_divisor(&n()?).to_string(),
        ("siqs::interval_size", 2) => siqs::verif_hooks::vh_interval_size(&n()?, flag(1)?).to_string(),
        ("siqs::large_prime_factor", 1) => siqs::verif_hooks::vh_large_prime_factor(&n()?).to_string(),
        ("siqs::double_large_factor", 1) => siqs::verif_hooks::vh_double_large_factor(&n()?).to_string(),
        ("mpqs::mpqs_interval_size", 1) => mpqs::verif_hooks::vh_mpqs_interval_size(&n()?).to_string(),
        ("mpqs::large_prime_factor", 1) => mpqs::verif_hooks::vh_large_prime_factor(&n()?).to_string(),
        ("mpqs::double_large_factor", 1) => mpqs::verif_hooks::vh_double_large_factor(&n()?).to_string(),
        ("qsieve::large_prime_factor", 1) => qsieve::large_prime_factor(&n()?).to_string(),
        ("qsieve::max_large_prime", 2) => qsieve::max_large_prime(bits, u64_of(a[1])?).to_string(),
        ("qsieve::nblocks", 1) => {
            // any factor base will do: nblocks only reads n.bits()
            let n = n()?;
            let fb = FBase::new(Int::cast_from(n), 16);
            qsieve::verif_hooks::vh_nblocks(&n, &fb).to_string()
        }
        ("classgroup::a_params", 1) => {
            let (c, k) = classgroup::verif_hooks::vh_a_params(bits);
            format!("{c},{k}")
        }
        ("classgroup::interval_size", 1) => classgroup::verif_hooks::vh_interval_size(bits).to_string(),
        ("classgroup::large_prime_factor", 1) => classgroup::verif_hooks::vh_large_prime_factor(bits).to_string(),
        ("classgroup::double_large_factor", 1) => {
            // negative discriminant of that size
            let d = -Int::cast_from(n()?);
            classgroup::verif_hooks::vh_double_large_factor(&d).to_string()
        }
        ("arith_fft::mzp_w", 2) => {
            let n = make_n(bits, None)? | Uint::ONE;
            if n.bits() != bits {
                return None;
            }
            let zn = yamaquasi::arith_montgomery::ZmodN::new(n);
            let mzp = yamaquasi::arith_fft::MultiZmodP::new(&zn, u32_of(a[1])?);
            yamaquasi::arith_fft::verif_hooks::vh_mzp_w(&mzp).to_string()
        }
        _ => return None,
    };
    Some(r)
}

fn handle_inner(op: &str, a: &[&str]) -> Option<String> {
    match (op, a) {
        ("param", [f, rest @ ..]) => param(f, rest),
        ("stage2", [t, num, den]) => {
            let b2 = u64_of(num)? as f64 / u64_of(den)? as f64;
            let (b, d1, d2) = match *t {
                "ecm" => yamaquasi::params::stage2_params(b2),
                "pm1" => yamaquasi::pollard_pm1::verif_hooks::vh_stage2_params(b2),
                _ => return None,
            };
            if b != (b as u64) as f64 {
                return Some("non-integral-b2".to_string());
            }
            Some(format!("{},{},{}", b as u64, d1, d2))
        }
        ("stage2_table", [t]) => match *t {
            "ecm" => Some(table_text(yamaquasi::params::verif_hooks::vh_stage2_table())),
            "pm1" => Some(table_text(yamaquasi::pollard_pm1::verif_hooks::vh_stage2_table())),
            _ => None,
        },
        ("ntt_primes", []) => Some(
            yamaquasi::arith_fft::verif_hooks::vh_ntt_primes()
                .iter()
                .map(|(p, r)| format!("{p}:{r}"))
                .collect::<Vec<_>>()
                .join(","),
        ),
        // consumer run: FBase::new with the requested size on a number of that many bits;
        // answers `len,maxprime`.
        ("fbase_new", [bits, size]) => {
            let n = make_n(u32_of(bits)?, None)? | Uint::ONE;
            let fb = FBase::new(Int::cast_from(n), u32_of(size)?);
            Some(format!("{},{}", fb.len(), fb.bound()))
        }
        // consumer run: the real convolve_modn on `bits`-bit coefficients and size 2^k
        // (answers `ok` when it returns; the values are C10's business).
        ("convolve_run", [bits, k]) => {
            use yamaquasi::arith_montgomery::ZmodN;
            let bits = u32_of(bits)?;
            let size = 1usize << u32_of(k)?;
            if bits < 2 {
                return None;
            }
            let n = make_n(bits, None)? | Uint::ONE;
            let zn = ZmodN::new(n);
            let p1: Vec<_> = (0..size)
                .map(|i| zn.from_int(Uint::from(i as u64 + 1) % n))
                .collect();
            let p2 = p1.clone();
            let mut res = vec![zn.zero(); size];
            yamaquasi::arith_fft::convolve_modn(&zn, size, &p1, &p2, &mut res, 0);
            Some("ok".to_string())
        }
        // consumer run for SIQS: the steps of siqs::siqs up to the first polynomial, every value from
        // the real parameter functions: FBase::new(fb_size), select_siqs_factors(nfactors, interval),
        // select_a(a_value_count), maxlarge/maxdouble, SieveSIQS::new, prepare_a, Poly::first, then
        // the whole interval of that polynomial through siqs_sieve_poly.
        // answers `fb_len,interval,nfacs,n_a,ok`.
        ("siqs_consumer", [bits, use_double]) => {
            use yamaquasi::siqs::{self, verif_hooks as vh};
            let bits = u32_of(bits)?;
            let d = bool_of(use_double)?;
            let n = make_prime(bits)?;
            let mut prefs = yamaquasi::Preferences::default();
            prefs.verbosity = yamaquasi::Verbosity::Silent;
            let fb = vh::vh_fb_size(&n, d);
            let fbase = FBase::new(Int::cast_from(n), fb);
            let mm = vh::vh_interval_size(&n, d);
            let nfacs = vh::vh_nfactors(&n) as usize;
            let nint = Int::cast_from(n);
            let factors = siqs::select_siqs_factors(&fbase, &nint, nfacs, mm as usize, prefs.verbosity);
            let a_ints = siqs::select_a(&factors, vh::vh_a_value_count(&n), prefs.verbosity);
            let maxprime = fbase.bound() as u64;
            let maxlarge = std::cmp::min(maxprime * vh::vh_large_prime_factor(&n), (1 << 32) - 1);
            let maxdouble = if d { maxprime * maxprime * vh::vh_double_large_factor(&n) } else { 0 };
            let s = siqs::SieveSIQS::new(nint, &fbase, maxlarge, maxdouble, mm as usize, &prefs);
            let a = siqs::prepare_a(&factors, &a_ints[0], &fbase, -(mm as i64) / 2);
            let pol = siqs::Poly::first(&s, &a);
            siqs::verif_hooks_consumer::vh_sieve_poly(&s, &a, &pol);
            Some(format!("{},{},{},{},ok", fbase.len(), mm, nfacs, a_ints.len()))
        }
        // consumer run for MPQS: factor base and interval from the real parameter functions, one
        // polynomial through the real mpqs_poly (roots + all blocks of the interval).
        // answers `fb_len,interval,npolys,ok`.
        ("mpqs_consumer", [bits, use_double]) => {
            let bits = u32_of(bits)?;
            let d = bool_of(use_double)?;
            let n = make_prime(bits)?;
            let fb = yamaquasi::params::mpqs_fb_size(bits, d);
            let fbase = FBase::new(Int::cast_from(n), fb);
            let mm = yamaquasi::mpqs::verif_hooks::vh_mpqs_interval_size(&n);
            // D near sqrt(sqrt(2n) / (M/2)) as in mpqs::mpqs
            let a_target = yamaquasi::arith::isqrt(n << 1) / Uint::from(mm as u64 / 2);
            let d_target = std::cmp::max(Uint::from(3u64), yamaquasi::arith::isqrt(a_target));
            let dbase = u128::cast_from(d_target);
            let polys = yamaquasi::mpqs::verif_hooks_block::vh_poly_block(&n, &fbase, mm, dbase, 4000, 1);
            Some(format!("{},{},{},ok", fbase.len(), mm, polys.len()))
        }
        // consumer run for classical QS: factor base of the size chosen by the real parameter
        // function, maxlarge from the real qsieve::max_large_prime, then one call of fbase::cofactor
        // (the routine every sieve report goes through) with that maxlarge.
        // answers `fb_len,maxprime,maxlarge,ok`.
        ("qs_consumer", [bits, use_double]) => {
            let bits = u32_of(bits)?;
            let d = bool_of(use_double)?;
            let n = make_n(bits, None)? | Uint::from(3u64);
            let fbsz = yamaquasi::params::qs_fb_size(bits, d);
            let fb = FBase::new(Int::cast_from(n), fbsz);
            let maxlarge = yamaquasi::qsieve::max_large_prime(fb.bound(), yamaquasi::qsieve::large_prime_factor(&n));
            let x = yamaquasi::arith::I256::from(2147483647_i64); // a prime above every factor base
            let r = yamaquasi::fbase::cofactor(&fb, &x, &[], maxlarge, d);
            Some(format!("{},{},{},{}", fb.len(), fb.bound(), maxlarge, if r.is_some() { "some" } else { "none" }))
        }
        _ => None,
    }
}

/// Consumer runs report the panic message (`panic:<message>`), the other ops leave the panic to
/// the line server (`panic`), which is what the model prints.
pub fn handle(op: &str, a: &[&str]) -> Option<String> {
    if !op.ends_with("_consumer") {
        return handle_inner(op, a);
    }
    static LOC: std::sync::Mutex<String> = std::sync::Mutex::new(String::new());
    let prev = std::panic::take_hook();
    std::panic::set_hook(Box::new(|info| {
        if let Some(l) = info.location() {
            *LOC.lock().unwrap_or_else(|e| e.into_inner()) = format!("{}:{}", l.file(), l.line());
        }
    }));
    let r = std::panic::catch_unwind(std::panic::AssertUnwindSafe(|| handle_inner(op, a)));
    std::panic::set_hook(prev);
    match r {
        Ok(r) => r,
        Err(e) => {
            let msg = if let Some(s) = e.downcast_ref::<&str>() {
                s.to_string()
            } else if let Some(s) = e.downcast_ref::<String>() {
                s.clone()
            } else {
                "?".to_string()
            };
            let loc = LOC.lock().unwrap_or_else(|e| e.into_inner()).clone();
            Some(format!("panic:{}@{}", msg.replace(char::is_whitespace, "_"), loc))
        }
    }
}
