/-
Driver ops of the word-level model of `pseudoprime` (Ymq/Model/PseudoprimeWord.lean).
  pseudoprime_word p   -> true | false | panic     `pseudoprimeW p` (the real `pseudoprime(p)` in the harness)
  pp_ring p b          -> one pm1 bm sq | panic    the ring values `pseudoprime` builds for the base `b`:
                          zp.one(), zp.sub(&zp.zero(), &zp.one()), zp.from_int(b), zp.mul(&bm, &bm)
                          (integer value of the 8 MInt words)
-/
import Ymq.Drv.Util
import Ymq.Model.PseudoprimeWord

namespace Ymq.Drv
open Ymq.PseudoprimeWord Ymq.ZmodN Ymq.Limbs

def ppRing (p b : Nat) : Option String :=
  match ZmodN.new p with
  | none => none
  | some c =>
    match sub c (zeros MW) c.r, fromInt c b with
    | some pm1, some bm =>
      match mul c bm bm with
      | some sq => some s!"{val c.r} {val pm1} {val bm} {val sq}"
      | none => none
    | _, _ => none

def handlePseudoprimeWord : Handler
  | ["pseudoprime_word", p] => do
    let p ← parseNat p
    -- the harness parses `p` as a 1024-bit `Uint`: anything larger is a malformed request there
    if p ≥ 2 ^ 1024 then some "?" else
    some (match pseudoprimeW p with | none => "panic" | some b => showBool b)
  | ["pp_ring", p, b] => do
    let p ← parseNat p
    let b ← parseNat b
    if p ≥ 2 ^ 1024 ∨ b ≥ 2 ^ 64 then some "?" else
    some (match ppRing p b with | none => "panic" | some s => s)
  | _ => none

end Ymq.Drv
