#!/bin/bash
# every module named by the generated registries must be a TRACKED file (a registry committed ahead of its modules breaks the committed tree)
cd "$(dirname "$0")/.." || exit 2
bad=0
for m in $(grep -h "^import Ymq\." lean/Ymq.lean lean/Ymq/Drv/All.lean | awk '{print $2}' | sort -u); do
  f="lean/$(echo $m | tr . /).lean"
  git ls-files --error-unmatch "$f" >/dev/null 2>&1 || { echo "untracked: $f"; bad=1; }
done
for m in $(grep -oh "^mod ops_[a-z0-9_]*" harness/src/handlers.rs | awk '{print $2}'); do
  f="harness/src/$m.rs"
  git ls-files --error-unmatch "$f" >/dev/null 2>&1 || { echo "untracked: $f"; bad=1; }
done
# and every tracked file they name must not have uncommitted changes the registry could depend on (informational)
git status --short lean/Ymq harness/src props | grep -v "^??" | head -20
exit $bad
