/-
C16, Pollard P-1 end to end: theorems about the whole-function model of `pollard_pm1::pm1_impl`,
`pm1_quick`, `pm1_only` (Ymq/Model/Pm1Impl.lean; tied to the real code by the requests `pm1_impl`,
`pm1_quick_full`, `pm1_only_full`, `pm1_polyeval` of props/c16_pm1.py, which compare the complete returned
value in both profiles).

What is proved here: every value the model returns — through any of its exits: a stage-1 gcd check, the
`g == 1` exit, the prime walk, the polynomial stage 2 with its `f2.contains(n)` guard — is a proper split
of `n`, for every `pseudoprime` oracle and without any assumption on the values handed to `gcd_factors`
(the `debug_assert!`s of `find_factors` are what makes the product telescope); the entry panic sites;
`pm1_quick` ignoring inputs of at most 84 bits.

What is NOT proved here: absence of panics on the domain `factor()` passes (odd `3 ≤ n < 2^500`, `4 ≤ b1 < 4294967291`):
the facts exist separately — stage-1 exponents fit (`pm1_stage1_divides`, C17, for the stream without the `g == 1` exit),
`exp_modn`/`exp_modn_large` never reach `unreachable!` (`exp_modn_spec`, over a commutative monoid, not transported to
residues `a*b % m`), the `debug_assert!` of `find_factors` holds for increasing gcd chains (`gcd_factors_prod`) — but the
chain property of `gpows` across a ring shrink and the gap-table indices are not derived, so no `pm1_impl_no_panic` is
stated; and the end-to-end "finds what the bounds promise" statement for the whole function — the latter is covered
piecewise by `pm1_stage1_divides` (C17), `pm1_hit`/`pm1_cover`/`pm1_found` and `walk_reported_*` (Props/C16.lean)
and, for the glue between the pieces, by the K stream only.
-/
import Ymq.Lemmas.Pm1Impl
import Ymq.Lemmas.Pm1ImplExample

namespace Ymq.C16
open Ymq.Pm1Impl Ymq.ExpModn Ymq.Gen

/-- `gcd_factors` (with the `debug_assert!`s of `find_factors` on): WHATEVER the value list is, a returned
`(facs, rest)` satisfies `facs.prod · rest = n` with every part `> 1` and `rest > 0`.  (`gcd_factors_prod` needs the
increasing-gcd hypothesis because it also proves that nothing panics and what the product is.) -/
theorem pm1_gcd_factors_sound {n : Nat} {vals : List Nat} {pp : Nat → Bool} {fs : List Nat} {rest : Nat} (hn : 0 < n)
    (h : gcdFactors n vals pp = some (fs, rest)) : fs.prod * rest = n ∧ (∀ f ∈ fs, 1 < f) ∧ 0 < rest :=
  gcdFactors_of_some hn h

example : gcdFactors 77 [1, 63, 63] (fun _ => true) = some ([7], 11) := by decide +kernel

/-- `check_gcd_factors` keeps `factors.prod · nred = n`, all factors `> 1`, `n` not recorded — for every value list. -/
theorem pm1_check_gcd_factors_sound {n : Nat} {pp : Nat → Bool} {st st' : CgfState} {b : Bool} (hinv : CgfInv n st)
    (h : checkGcdFactors n pp st = some (b, st')) : CgfInv n st' :=
  checkGcdFactors_inv_of_some hinv h

example : CgfInv 77 ⟨[], 77, [1, 63, 63]⟩ ∧
    checkGcdFactors 77 (fun _ => true) ⟨[], 77, [1, 63, 63]⟩ = some (true, ⟨[7], 11, [1, 63, 63]⟩) :=
  ⟨⟨by simp, by simp, by decide, by simp⟩, by decide +kernel⟩

/-- **`pm1_impl` returns proper splits only.** For every `n > 0`, all bounds and every `pseudoprime` oracle: if
`pm1_impl(n, b1, b2)` returns `Some((factors, cofactor))` then `factors.prod · cofactor = n`, every listed factor is
`> 1` and different from `n`, the list is not empty and the cofactor is positive.  Nothing is claimed about primality
of the parts: a part is either accepted by `pseudoprime` or is the gcd increment of a single step (`gcd_factors_prod`);
`p²` comes back as one part (request family `sq`).  The cofactor is `1` exactly when the listed factors multiply to `n`
(complete factorisation, at least two parts since `n` itself is never listed). -/
theorem pm1_impl_proper {n b1 b2 : Nat} {pp : Nat → Bool} (hn : 0 < n) {fs : List Nat} {rest : Nat}
    (h : pm1Impl n b1 b2 pp = some (some (fs, rest))) :
    fs.prod * rest = n ∧ (∀ f ∈ fs, 1 < f) ∧ 0 < rest ∧ n ∉ fs ∧ fs ≠ [] :=
  pm1Impl_proper hn h fs rest rfl

/-- non-vacuity: a complete run inside the logic, `pm1_impl(77, 4, 4) = Some(([7], 11))` -/
example : pm1Impl 77 4 4 (fun _ => true) = some (some ([7], 11)) := ex_pm1Impl

/-- a complete factorisation has at least two parts -/
theorem pm1_impl_complete_two_parts {n b1 b2 : Nat} {pp : Nat → Bool} (hn : 0 < n) {fs : List Nat}
    (h : pm1Impl n b1 b2 pp = some (some (fs, 1))) : 2 ≤ fs.length := by
  obtain ⟨hp, _, _, hnot, hne⟩ := pm1_impl_proper hn h
  match fs, hp, hnot, hne with
  | [], _, _, hne => exact absurd rfl hne
  | [f], hp, hnot, _ => simp at hp; simp [hp] at hnot
  | _ :: _ :: _, _, _, _ => simp

example : (0 : Nat) < 271750259454572315341 := by decide

/-- the same for the strategy functions -/
theorem pm1_quick_proper {n : Nat} {pp : Nat → Bool} (hn : 0 < n) {fs : List Nat} {rest : Nat}
    (h : pm1Quick n pp = some (some (fs, rest))) :
    fs.prod * rest = n ∧ (∀ f ∈ fs, 1 < f) ∧ 0 < rest ∧ n ∉ fs ∧ fs ≠ [] :=
  viaArms_proper hn h fs rest rfl

theorem pm1_only_proper {n : Nat} {pp : Nat → Bool} (hn : 0 < n) {fs : List Nat} {rest : Nat}
    (h : pm1Only n pp = some (some (fs, rest))) :
    fs.prod * rest = n ∧ (∀ f ∈ fs, 1 < f) ∧ 0 < rest ∧ n ∉ fs ∧ fs ≠ [] :=
  viaArms_proper hn h fs rest rfl

/-- `pm1_quick` ignores numbers of at most 84 bits (returns `None` without touching them) … -/
theorem pm1_quick_ignores_small {n : Nat} (pp : Nat → Bool) (h : ExpModn.bitlen n ≤ 84) : pm1Quick n pp = some none := by
  have key : ∀ b, b ≤ 84 → armRun Stage2.pm1QuickArms b = some [] := by decide
  unfold pm1Quick viaArms
  rw [key _ h]

/-- … and every size has an arm in both tables (no `match` falls through up to the 1024 bits of `Uint`;
`pm1_only` always runs, with `b1 > 3`) -/
theorem pm1_arms_total : ∀ b, b ≤ 1024 →
    (armRun Stage2.pm1QuickArms b).isSome = true ∧
      (match armRun Stage2.pm1OnlyArms b with | some [(b1, _)] => decide (3 < b1) | _ => false) = true := by
  decide +kernel

example : ExpModn.bitlen 77 ≤ 84 := by decide

/-- the entry panic sites of `pm1_impl`: `assert!(b1 > 3)`, `ZmodN::new` on an even or > 512-bit `n` -/
theorem pm1_impl_entry_panics {n b1 b2 : Nat} (pp : Nat → Bool) (h : b1 ≤ 3 ∨ n % 2 = 0 ∨ 2 ^ 512 ≤ n) :
    pm1Impl n b1 b2 pp = none := by
  unfold pm1Impl
  split
  · rfl
  · by_cases hb : b1 ≤ 3
    · rw [if_pos hb]
    · rw [if_neg hb]
      have hz : znNewPanics n = true := by
        unfold znNewPanics
        rcases h with h | h | h
        · exact absurd h hb
        · simp [h]
        · simp [h]
      rw [hz]; rfl

example : (3 : Nat) ≤ 3 ∨ 77 % 2 = 0 ∨ 2 ^ 512 ≤ 77 := Or.inl (by decide)

/-- **The prime walk starts with the stop prime.** Stage 2 (`b2 <= MULTIEVAL_THRESHOLD`) accumulates, from its very first
product on, the term `g^p_prev − 1` of the prime `p_prev > b1` at which stage 1 stopped (that prime was never part of the
stage-1 exponent): the walk is the loop `walkOuter` started with `product = g^p_prev − 1`, `products = [1]`.  A walk
started at `product = 1` (seeded change C16-3) does not satisfy this equation; the request family `walk/stop-prime`
shows the difference on the real code.
This equation is the definitional unfolding of `walk` (it restates the model; on its own it is meaningful only through
the K stream).  The content — `gcd(m, g^p_prev − 1)` divides the running product from the first block on — is
`pm1_walk_stop_prime_found` / `pm1_walk_stop_prime_kept` (Props/C16Pm1b.lean), which use this unfolding. -/
theorem pm1_walk_includes_stop_prime (n b2 : Nat) (pp : Nat → Bool) (m g pPrev : Nat) (blk : List Nat)
    (ps : Ymq.Primes.PrimeSieve) (factors : List Nat) (nred : Nat) :
    walk n b2 pp m g pPrev blk ps factors nred =
      (expModn (mulm m) (onem m) g pPrev).bind fun x =>
        walkOuter n b2 pp m (mulm m g g) 65600 ps blk
          { x := x, product := subm m x (onem m), productsRev := [onem m], gaps := [mulm m g g], pPrev := pPrev } factors nred :=
  walk_first_term n b2 pp m g pPrev blk ps factors nred

example : expModn (mulm 77) (onem 77) 2 5 = some 32 := by decide +kernel

/-- … and every later prime `p` multiplies `g^p − 1` onto the running product and records it, so the gcd of the ring
modulus with the running product only grows: a prime factor caught by any term (the stop prime's included) is in every
later entry of `products`, in particular in the last one, which is what `check_gcd_factors` looks at. -/
theorem pm1_walk_product_accumulates {m g2 b2 : Nat} {w w' : W} {p : Nat} {fl : Bool}
    (h : walkStep m g2 b2 w p = some (w', fl)) :
    Nat.gcd m w.product ∣ Nat.gcd m w'.product ∧
      (w' = w ∨ (w.pPrev < p ∧ w'.pPrev = p ∧ w'.productsRev = w'.product :: w.productsRev ∧
        w'.product = mulm m w.product (subm m w'.x (onem m)))) :=
  walkStep_keeps h

example : (walkStep 77 (mulm 77 2 2) 100 { x := 32, product := 31, productsRev := [1], gaps := [mulm 77 2 2], pPrev := 5 } 7).isSome
    = true := by decide +kernel

end Ymq.C16
