import Ymq.Drv.Util
import Ymq.Model.Stage2
import Ymq.Model.ExpModn
import Ymq.Model.Pseudoprime

/-!
Driver for C16 (group-order methods).  Requests carrying constructed inputs end with the
annotations `p l`: `p` is the prime factor of `n` whose group order is (B1-smooth part)·`l` with the
element's order exactly divisible by the prime `l`, and the cofactor of `n` has a group order with a
huge prime factor.  For such inputs the routine returns `p` iff stage 2 tests a multiple of `l`;
the model answers from the index structure alone.
-/
namespace Ymq.Drv
open Ymq.Stage2 Ymq.ExpModn Ymq.Gen

def showRow : Nat × Nat × Nat → String
  | (b, d1, d2) => s!"{b} {d1} {d2}"

def s2Table (consumer : String) : Option (List (Nat × Nat × Nat)) :=
  if consumer = "pm1" then some Stage2.pm1Table
  else if consumer = "ecm" ∨ consumer = "ecm128" ∨ consumer = "pp1" then some Stage2.ecmTable
  else none

def showFound (n p : Nat) (hit : Option Bool) (asList : Bool) : String :=
  match hit with
  | none => "panic"
  | some false => "none"
  | some true => if asList then s!"some {p} {n / p}" else s!"some {p} {n / p}"

def showPair : Option (Option (Nat × Nat)) → String
  | none => "panic"
  | some none => "none"
  | some (some (a, b)) => s!"some {a} {b}"

/-- the `(B1, B2)` a `match n.bits()` strategy function uses: first row with `lo ≤ bits ≤ hi` (guard 0) -/
def armRun (arms : List (Nat × Nat × Nat × List (Nat × Nat))) (bits : Nat) : Option (List (Nat × Nat)) :=
  match arms.find? (fun a => a.1 ≤ bits && bits ≤ a.2.1 && a.2.2.1 == 0) with
  | some a => some a.2.2.2
  | none => none

def showArm (arms : List (Nat × Nat × Nat × List (Nat × Nat))) (n p l : Nat) : String :=
  match armRun arms (Ymq.ExpModn.bitlen n) with
  | none => "panic"
  | some [] => "none"
  | some ((b1, b2) :: _) => if b1 ≤ 3 then "panic" else showFound n p (pm1Stage2Hits b1 b2 l) true

def handleStage2 : Handler
  | ["s2_row", consumer, idx] => do
    let t ← s2Table consumer
    let i ← parseNat idx
    some (match t[i]? with | some r => showRow r | none => "none")
  | ["s2_rows", consumer] => do
    let t ← s2Table consumer
    some (toString t.length)
  | ["s2_sel", consumer, b2] => do
    let b2 ← parseNat b2
    let r := if consumer = "pm1" then Stage2.pm1Stage2Select b2 1 else Stage2.stage2Select b2 1
    if consumer ≠ "pm1" ∧ (s2Table consumer).isNone then none else
    some (match r with | some r => showRow r | none => "panic")
  | ["s2_walk", b2] => do
    let b2 ← parseNat b2
    some (match Stage2.pm1Stage2Select b2 1 with | some r => showRow r | none => "panic")
  | ["s2_threshold"] => some (toString Stage2.multievalThreshold)
  | ["s2_pm1", n, b1, b2, p, l] => do
    let n ← parseNat n; let b1 ← parseNat b1; let b2 ← parseNat b2; let p ← parseNat p; let l ← parseNat l
    if b1 ≤ 3 then some "panic" else                 -- assert!(b1 > 3)
    some (showFound n p (pm1Stage2Hits b1 b2 l) true)
  | ["s2_pm1x", n, b1, b2, p1, p2, l] => do
    -- p1 - 1 divides the stage-1 exponent (found by the first gcd check, then the ring shrinks to n/p1);
    -- p2 - 1 = (part of the exponent) * l is found in stage 2 iff l is covered
    let n ← parseNat n; let b1 ← parseNat b1; let b2 ← parseNat b2
    let p1 ← parseNat p1; let p2 ← parseNat p2; let l ← parseNat l
    if b1 ≤ 3 then some "panic" else
    some (match pm1Stage2Hits b1 b2 l with
      | none => "panic"
      | some true => s!"some {showList (if p1 < p2 then [p1, p2] else [p2, p1])} {n / p1 / p2}"
      | some false => s!"some {p1} {n / p1}")
  | ["s2_pm1same", n, b1, b2, l] => do
    -- all prime factors of n have the same missing prime l: gcd_factors yields [n]; both paths refuse it
    -- (check_gcd_factors always, the polynomial path through the guard read into Stage2Arms.pm1PolyGuard)
    let n ← parseNat n; let b1 ← parseNat b1; let b2 ← parseNat b2; let l ← parseNat l
    if b1 ≤ 3 then some "panic" else
    some (match pm1Stage2Hits b1 b2 l with
      | none => "panic"
      | some true => if b2 > Stage2.multievalThreshold ∧ !Stage2Arms.pm1PolyGuard then s!"some {n} 1" else "none"
      | some false => "none")
  | ["s2_pm1_only", n, p, l] => do
    let n ← parseNat n; let p ← parseNat p; let l ← parseNat l
    some (showArm Stage2.pm1OnlyArms n p l)
  | ["s2_pm1_quick", n, p, l] => do
    let n ← parseNat n; let p ← parseNat p; let l ← parseNat l
    some (showArm Stage2.pm1QuickArms n p l)
  | ["s2_pp1", n, _seed, b1, b2, p, l] => do
    let n ← parseNat n; let b1 ← parseNat b1; let b2 ← parseNat b2; let p ← parseNat p; let l ← parseNat l
    if b1 ≤ 3 then some "panic" else
    some (showFound n p (pp1Stage2Hits b2 l) true)
  | ["s2_ecm", n, _x, _y, _b1, b2, p, l] => do
    let n ← parseNat n; let b2 ← parseNat b2; let p ← parseNat p; let l ← parseNat l
    some (showFound n p (ecmStage2Hits b2 l) false)
  | ["s2_ecm128", n, _x, _y, _b1, b2, p, l] => do
    let n ← parseNat n; let b2 ← parseNat b2; let p ← parseNat p; let l ← parseNat l
    some (showFound n p (ecm128Stage2Hits b2 l) false)
  | ["s2_expmodn", n, g, e] => do
    let n ← parseNat n; let g ← parseNat g; let e ← parseNat e
    if n % 2 = 0 ∨ n < 3 ∨ e ≥ 2 ^ 64 then none else
    some (match expModn (fun a b => a * b % n) (1 % n) (g % n) e with | none => "panic" | some r => toString r)
  | ["s2_expmodn_large", n, g, e] => do
    let n ← parseNat n; let g ← parseNat g; let e ← parseNat e
    if n % 2 = 0 ∨ n < 3 ∨ e ≥ 2 ^ 1024 then none else
    some (match expModnLarge (fun a b => a * b % n) (1 % n) (g % n) e with | none => "panic" | some r => toString r)
  | ["s2_cheb", n, v, k] => do
    let n ← parseNat n; let v ← parseNat v; let k ← parseNat k
    if n % 2 = 0 ∨ n < 3 ∨ k ≥ 2 ^ 64 then none else
    some (toString (chebyshevModn (fun a b => a * b % n) (fun a b => (a + n - b) % n) (2 % n) (v % n)
      (Stage2Arms.chebZero % n) k))
  | ["s2_gcdf", n, vals] => do
    let n ← parseNat n; let vals ← parseNatList vals
    -- `pseudoprime` panics (ZmodN::new) above 512 bits: requests stay below
    let pp := fun p => match Ymq.Pseudoprime.pseudoprime p with | some b => b | none => false
    some (match gcdFactors n vals pp with
      | none => "panic"
      | some (fs, rest) => s!"{showList fs} {rest}")
  | ["s2_cgf", n, factors, nred, vals] => do
    let n ← parseNat n; let factors ← parseNatList factors; let nred ← parseNat nred; let vals ← parseNatList vals
    let pp := fun p => match Ymq.Pseudoprime.pseudoprime p with | some b => b | none => false
    some (match checkGcdFactors n pp { factors := factors, nred := nred, vals := vals } with
      | none => "panic"
      | some (b, st) => s!"{showBool b} {showList st.factors} {st.nred} {showList st.vals}")
  | ["s2_cgf1", n, vals] => do
    let n ← parseNat n; let vals ← parseNatList vals
    let pp := fun p => match Ymq.Pseudoprime.pseudoprime p with | some b => b | none => false
    some (match checkGcdFactor n vals pp with
      | none => "panic"
      | some r => showOptNat r)
  | ["s2_rho_impl", n, seed, iters] => do
    let n ← parseNat n; let seed ← parseNat seed; let iters ← parseNat iters
    if n % 2 = 0 ∨ n < 3 ∨ n ≥ 2 ^ 512 then none else
    let pp := fun p => match Ymq.Pseudoprime.pseudoprime p with | some b => b | none => false
    some (match rhoImpl n seed iters pp with
      | none => "panic"
      | some none => "none"
      | some (some (fs, rest)) => s!"some {showList ((fs.toArray.qsort (· < ·)).toList)} {rest}")
  | ["s2_pm1base", n, budget, p, _l, j] => do
    -- annotation j: index of the missing prime l among the large primes (re-checked by the oracle);
    -- only budgets that run the whole of stage 1 are predicted
    let n ← parseNat n; let budget ← parseNat budget; let p ← parseNat p; let j ← parseNat j
    if budget < Stage2Arms.pm1base.1 then none else
    some (if j < min 65536 (budget - Stage2Arms.pm1base.2.2.1) then s!"some {p} {n / p}" else "none")
  | ["s2_rho64", n, c, iters] => do
    let n ← parseNat n; let c ← parseNat c; let iters ← parseNat iters
    some (showPair (rho64 n c iters))
  | _ => none

end Ymq.Drv
