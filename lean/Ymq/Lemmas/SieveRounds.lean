/-
C13 helper lemmas: any number of `rehash` rounds (classical quadratic sieve).
-/
import Ymq.Lemmas.SieveTotal2

namespace Ymq.Sieve

/-- roots registered in the bucket tables after the rounds `rs` (the last table, or the initial one). -/
def lastRoots (rs : List (Array Nat × Array Nat)) (r : Array Nat × Array Nat) : Array Nat × Array Nat :=
  rs.getLast?.getD r

theorem lastRoots_cons (x : Array Nat × Array Nat) (rs : List (Array Nat × Array Nat)) (r : Array Nat × Array Nat) :
    lastRoots (x :: rs) r = lastRoots rs x := by
  cases rs with
  | nil => simp [lastRoots]
  | cons y ys =>
    simp only [lastRoots, List.getLast?_cons_cons]
    rw [List.getLast?_eq_some_getLast (List.cons_ne_nil y ys)]
    simp

theorem rehashRounds_spec {fb : FB} {nS n : Nat} {rS1 rS2 : Array Nat} (hfb : fb.WF)
    (hnS : fb.ibl[16]? = some nS) :
    ∀ (rs : List (Array Nat × Array Nat)) (rL : Array Nat × Array Nat) (B : Nat) (s s' : State),
      Inv fb nS rS1 rS2 rL.1 rL.2 B s → s.nblocks = n → rehashRounds fb n rs s = some s' →
      Inv fb nS rS1 rS2 (lastRoots rs rL).1 (lastRoots rs rL).2 (B + rs.length * n) s' ∧ s'.nblocks = n ∧
        (rs ≠ [] → s'.blkNo = 0) ∧ (rs = [] → s' = s) := by
  intro rs
  induction rs with
  | nil =>
    intro rL B s s' hinv hn h
    simp only [rehashRounds, Option.some.injEq] at h
    subst h
    exact ⟨by simpa [lastRoots] using hinv, hn, fun h => absurd rfl h, fun _ => rfl⟩
  | cons x rest ih =>
    intro rL B s s' hinv hn h
    simp only [rehashRounds, Option.bind_eq_bind, Option.bind_eq_some_iff] at h
    obtain ⟨sa, ha, sb, hb, hrest⟩ := h
    obtain ⟨inva, _, na, _⟩ := runBlocks_spec hfb hnS n B s sa hinv ha
    obtain ⟨invb, bkb, nb, _⟩ := rehash_spec inva hb
    obtain ⟨i1, i2, i3, _⟩ := ih x (B + n) sb s' invb (by rw [nb, na, hn]) hrest
    rw [lastRoots_cons]
    refine ⟨?_, i2, ?_, fun h => by simp at h⟩
    · have e : B + n + rest.length * n = B + (x :: rest).length * n := by
        simp only [List.length_cons]; ring
      rw [← e]; exact i1
    · intro _
      by_cases hr : rest = []
      · subst hr
        simp only [rehashRounds, Option.some.injEq] at hrest
        subst hrest; exact bkb
      · exact i3 hr

theorem rehashRounds_some {fb : FB} {nS n : Nat} {rS1 rS2 : Array Nat} (hfb : fb.WF)
    (hnS : fb.ibl[16]? = some nS) :
    ∀ (rs : List (Array Nat × Array Nat)) (rL : Array Nat × Array Nat) (B : Nat) (s : State),
      (∀ r ∈ rs, RootsOK fb r.1 r.2) →
      Inv fb nS rS1 rS2 rL.1 rL.2 B s → StateSized n s → s.idxskip ≤ 2 * nS → s.blkNo = 0 →
      s.offset + ((rs.length * n : Nat) : Int) * 32768 < 2 ^ 63 →
      ∃ s', rehashRounds fb n rs s = some s' ∧ StateSized n s' ∧ s'.idxskip = s.idxskip ∧
        s'.offset = s.offset + ((rs.length * n : Nat) : Int) * 32768 ∧ s'.blkNo = 0 := by
  intro rs
  induction rs with
  | nil => intro rL B s _ _ hsz _ hb _; exact ⟨s, rfl, hsz, rfl, by simp, hb⟩
  | cons x rest ih =>
    intro rL B s hrs hinv hsz hsk hb0 hoff
    have hlen : ((x :: rest).length * n : Nat) = n + rest.length * n := by simp only [List.length_cons]; ring
    rw [hlen] at hoff
    push_cast at hoff
    obtain ⟨sa, ha, inva, sza, ska, bka, ofa⟩ := runBlocks_some hfb hnS n B s hinv hsz hsk (by omega)
      (by have : (0:Int) ≤ (rest.length : Int) * (n : Int) := by positivity
          nlinarith)
    obtain ⟨sb, hb, szb, skb⟩ := rehash_some hfb (hrs x List.mem_cons_self) inva sza
    obtain ⟨invb, bkb, _, ofb⟩ := rehash_spec inva hb
    obtain ⟨s', hs', sz', sk', of', bk'⟩ := ih x (B + n) sb (fun r hr => hrs r (List.mem_cons_of_mem _ hr)) invb szb
      (by rw [skb, ska]; exact hsk) bkb (by rw [ofb, ofa]; push_cast; linarith)
    refine ⟨s', ?_, sz', by rw [sk', skb, ska], ?_, bk'⟩
    · simp only [rehashRounds, ha, hb, hs', Option.bind_eq_bind, Option.bind_some]
    · rw [of', ofb, ofa, hlen]; push_cast; ring

end Ymq.Sieve
