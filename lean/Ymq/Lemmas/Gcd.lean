/- Basic lemmas for the gcd model: range checks, unimodular steps, the i64 extended gcd. -/
import Ymq.Model.Gcd
import Mathlib.Tactic.Ring
import Mathlib.Tactic.Linarith

namespace Ymq.Gcd

/-! ### range checks -/

theorem chkI64_some {z w : Int} (h : chkI64 z = some w) : w = z ∧ -I63 ≤ z ∧ z < I63 := by
  unfold chkI64 at h
  split at h
  · rename_i hr; simp at h; exact ⟨h.symm, hr⟩
  · simp at h

theorem chkI64_of_range {z : Int} (h1 : -I63 ≤ z) (h2 : z < I63) : chkI64 z = some z := by
  unfold chkI64; rw [if_pos ⟨h1, h2⟩]

theorem chkB_some {N : Nat} {z w : Int} (h : chkB N z = some w) :
    w = z ∧ -((M N / 2 : Nat) : Int) ≤ z ∧ z < ((M N / 2 : Nat) : Int) := by
  unfold chkB at h
  split at h
  · rename_i hr; simp at h; exact ⟨h.symm, hr⟩
  · simp at h

theorem chkB_of_range {N : Nat} {z : Int} (h1 : -((M N / 2 : Nat) : Int) ≤ z)
    (h2 : z < ((M N / 2 : Nat) : Int)) : chkB N z = some z := by
  unfold chkB; rw [if_pos ⟨h1, h2⟩]

theorem chkU_some {N : Nat} {z w : Nat} (h : chkU N z = some w) : w = z ∧ z < M N := by
  unfold chkU at h
  split at h
  · rename_i hr; simp at h; exact ⟨h.symm, hr⟩
  · simp at h

theorem lin2_some {N : Nat} {p A q C r : Int} (h : lin2 N p A q C = some r) : r = p * A + q * C := by
  unfold lin2 at h
  split at h
  · rename_i pa qc h1 h2
    rw [(chkB_some h).1, (chkB_some h1).1, (chkB_some h2).1]
  · simp at h

theorem subMul_some {N : Nat} {A q C r : Int} (h : subMul N A q C = some r) : r = A - q * C := by
  unfold subMul at h
  split at h
  · rename_i qc h1
    rw [(chkB_some h).1, (chkB_some h1).1]
  · simp at h

theorem mulSub_some {N : Nat} {A q C r : Int} (h : mulSub N q C A = some r) : r = q * C - A := by
  unfold mulSub at h
  split at h
  · rename_i qc h1
    rw [(chkB_some h).1, (chkB_some h1).1]
  · simp at h

/-! ### unimodular steps preserve the gcd -/

theorem int_gcd_unimodular (a b c d X Y : Int) (h : a * d - b * c = 1 ∨ a * d - b * c = -1) :
    Int.gcd (a * X + b * Y) (c * X + d * Y) = Int.gcd X Y := by
  apply Nat.dvd_antisymm
  · have h1 := Int.gcd_dvd_left (a * X + b * Y) (c * X + d * Y)
    have h2 := Int.gcd_dvd_right (a * X + b * Y) (c * X + d * Y)
    have hX : (Int.gcd (a * X + b * Y) (c * X + d * Y) : Int) ∣ (a * d - b * c) * X := by
      have : (a * d - b * c) * X = d * (a * X + b * Y) - b * (c * X + d * Y) := by ring
      rw [this]; exact Int.dvd_sub (Dvd.dvd.mul_left h1 d) (Dvd.dvd.mul_left h2 b)
    have hY : (Int.gcd (a * X + b * Y) (c * X + d * Y) : Int) ∣ (a * d - b * c) * Y := by
      have : (a * d - b * c) * Y = a * (c * X + d * Y) - c * (a * X + b * Y) := by ring
      rw [this]; exact Int.dvd_sub (Dvd.dvd.mul_left h2 a) (Dvd.dvd.mul_left h1 c)
    apply Int.dvd_gcd
    · rcases h with h | h <;> rw [h] at hX
      · simpa using hX
      · simpa using hX
    · rcases h with h | h <;> rw [h] at hY
      · simpa using hY
      · simpa using hY
  · apply Int.dvd_gcd
    · exact Int.dvd_add (Dvd.dvd.mul_left (Int.gcd_dvd_left X Y) a) (Dvd.dvd.mul_left (Int.gcd_dvd_right X Y) b)
    · exact Int.dvd_add (Dvd.dvd.mul_left (Int.gcd_dvd_left X Y) c) (Dvd.dvd.mul_left (Int.gcd_dvd_right X Y) d)

theorem nat_gcd_unimodular (a b c d : Int) (x y : Nat) (h : a * d - b * c = 1 ∨ a * d - b * c = -1) :
    Nat.gcd (a * x + b * y).natAbs (c * x + d * y).natAbs = Nat.gcd x y := by
  have := int_gcd_unimodular a b c d x y h
  rw [Int.gcd_eq_natAbs_gcd_natAbs, Int.gcd_eq_natAbs_gcd_natAbs] at this
  simpa using this

/-- variant used by the loop invariant: new operands given as naturals with their signed values -/
theorem nat_gcd_unimodular' (a b c d : Int) (x y x' y' : Nat)
    (h : a * d - b * c = 1 ∨ a * d - b * c = -1)
    (hx : (x' : Int) = a * x + b * y ∨ (x' : Int) = -(a * x + b * y))
    (hy : (y' : Int) = c * x + d * y ∨ (y' : Int) = -(c * x + d * y)) :
    Nat.gcd x' y' = Nat.gcd x y := by
  rw [← nat_gcd_unimodular a b c d x y h]
  have e1 : x' = (a * x + b * y).natAbs := by rcases hx with hx | hx <;> omega
  have e2 : y' = (c * x + d * y).natAbs := by rcases hy with hy | hy <;> omega
  rw [e1, e2]

/-! ### `Integer::extended_gcd` on i64 (partial correctness) -/

theorem egcdLoop_spec (X Y : Int) : ∀ (f : Nat) (r0 r1 s0 s1 t0 t1 g s t : Int),
    egcdLoop f r0 r1 s0 s1 t0 t1 = some (g, s, t) →
    r0 = s0 * X + t0 * Y → r1 = s1 * X + t1 * Y →
    g = s * X + t * Y ∧ g = (Int.gcd r0 r1 : Int) := by
  intro f
  induction f with
  | zero => intro r0 r1 s0 s1 t0 t1 g s t h; simp [egcdLoop] at h
  | succ f ih =>
    intro r0 r1 s0 s1 t0 t1 g s t h e0 e1
    unfold egcdLoop at h
    split at h
    · rename_i hr0
      subst hr0
      split at h
      · rename_i hpos
        simp at h
        obtain ⟨rfl, rfl, rfl⟩ := h
        refine ⟨e1, ?_⟩
        rw [Int.gcd_zero_left]; omega
      · rename_i hneg
        split at h
        · rename_i g' s' t' hg hs ht
          simp at h
          obtain ⟨rfl, rfl, rfl⟩ := h
          rw [(chkI64_some hg).1, (chkI64_some hs).1, (chkI64_some ht).1]
          refine ⟨by rw [e1]; ring, ?_⟩
          rw [Int.gcd_zero_left]; omega
        · simp at h
    · rename_i hr0
      split at h
      · simp at h
      · rename_i q hq
        split at h
        · rename_i qr qs qt hqr hqs hqt
          split at h
          · rename_i r' s' t' hr' hs' ht'
            have er := (chkI64_some hr').1
            have es := (chkI64_some hs').1
            have et := (chkI64_some ht').1
            rw [(chkI64_some hqr).1] at er
            rw [(chkI64_some hqs).1] at es
            rw [(chkI64_some hqt).1] at et
            have := ih r' r0 s' s0 t' t0 g s t h (by rw [er, es, et, e0, e1]; ring) e0
            refine ⟨this.1, ?_⟩
            rw [this.2, er]
            have hu := int_gcd_unimodular (-q) 1 1 0 r0 r1 (Or.inr (by ring))
            have e : -q * r0 + 1 * r1 = r1 - q * r0 := by ring
            have e' : 1 * r0 + 0 * r1 = r0 := by ring
            rw [e, e'] at hu
            rw [hu]
          · simp at h
        · simp at h

end Ymq.Gcd
