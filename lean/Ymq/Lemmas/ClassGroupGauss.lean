/-
Gauss composition for the reference arithmetic of property C18: `Form.compose` (Cohen, Algorithm 5.4.7, with the
model's own extended gcd) IS a composition.
* `xgcd_spec`: the extended gcd of the model is correct and its fuel suffices (Bezout identity, common divisor, sign);
* `gauss_core`, `compose_divs`, `gauss_identity`: the algebra: with `e = gcd(a1, a2, s)`, `s = (b1+b2)/2`, Bezout
  coefficients of `e`, the quotient defining the third coefficient is exact, the discriminant is kept, and
  `f1(x1,y1) f2(x2,y2) = g(e x1x2 - r x1y2 - m y1x2 + k3 y1y2, v1 x1y2 + v2 y1x2 + σ y1y2)`;
* `compose_eq_raw`: `Form.compose = reduce ∘ composeRaw`; `composeCore_spec/_gauss/_comp/_concordant`.
-/
import Ymq.Lemmas.ClassGroupCompose
import Mathlib.Tactic.Linarith
namespace Ymq.ClassGroup


/-- the pure ring identity behind Gauss composition, in free parameters -/
theorem gauss_core (e v1 v2 B k1 k2 c3 x1 y1 x2 y2 : Int) :
    (e*e*v1*x1*x1 + e*(B+2*v1*k1)*x1*y1 + (k1*B+v1*k1*k1+v2*c3)*y1*y1)
      * (e*e*v2*x2*x2 + e*(B+2*v2*k2)*x2*y2 + (k2*B+v2*k2*k2+v1*c3)*y2*y2)
    = (⟨v1*v2, B, c3⟩ : Form).eval
        (e*e*x1*x2 + e*k2*x1*y2 + e*k1*y1*x2 + (k1*k2-c3)*y1*y2)
        (e*v1*x1*y2 + e*v2*y1*x2 + (B+v1*k1+v2*k2)*y1*y2) := by
  simp only [Form.eval]; ring

/-- Bezout part: the two divisibilities that make Cohen 5.4.7 work -/
theorem compose_divs (b1 c1 b2 c2 e v1 v2 σ x2 P t r k : Int)
    (he : e ≠ 0)
    (h2s : b1 + b2 = 2 * (e * σ))
    (hD : b1 * b1 - 4 * (e * v1) * c1 = b2 * b2 - 4 * (e * v2) * c2)
    (hbez : e = x2 * (e * σ) - P * (e * v2) - t * (e * v1))
    (hr : r = P * (b2 - e * σ) - x2 * c2 + k * v1) :
    (b2 - e * σ) + v2 * r = v1 * (-(x2 * c1) - (b2 - e * σ) * t + v2 * k) ∧
    c2 + σ * r = -(v1 * (P * c1 + c2 * t - σ * k)) := by
  have H2 : 1 = x2 * σ - P * v2 - t * v1 := by
    apply mul_left_cancel₀ he
    linear_combination hbez
  have H1 : (b2 - e * σ) * σ - v2 * c2 = -(v1 * c1) := by
    apply mul_left_cancel₀ (mul_ne_zero (by norm_num : (4 : Int) ≠ 0) he)
    linear_combination (b1 - b2 + 2 * (e*σ)) * h2s - hD
  subst hr
  constructor
  · linear_combination (b2 - e * σ) * H2 + x2 * H1
  · linear_combination c2 * H2 + P * H1

theorem gauss_identity (a1 b1 c1 a2 b2 c2 e v1 v2 σ r m k3 : Int)
    (he : e ≠ 0) (hv1 : v1 ≠ 0)
    (ha1 : a1 = e * v1) (ha2 : a2 = e * v2)
    (h2s : b1 + b2 = 2 * (e * σ))
    (hD : b1 * b1 - 4 * a1 * c1 = b2 * b2 - 4 * a2 * c2)
    (F1 : (b2 - e * σ) + v2 * r = v1 * m)
    (F2 : c2 + σ * r = -(v1 * k3)) :
    c2 * e + r * (b2 + v2 * r) = v1 * (r * m - e * k3) ∧
    (⟨v1 * v2, b2 + 2 * v2 * r, r * m - e * k3⟩ : Form).disc = (⟨a2, b2, c2⟩ : Form).disc ∧
    ∀ x1 y1 x2 y2 : Int, (⟨a1, b1, c1⟩ : Form).eval x1 y1 * (⟨a2, b2, c2⟩ : Form).eval x2 y2
      = (⟨v1 * v2, b2 + 2 * v2 * r, r * m - e * k3⟩ : Form).eval
          (e * x1 * x2 - r * x1 * y2 - m * y1 * x2 + k3 * y1 * y2)
          (v1 * x1 * y2 + v2 * y1 * x2 + σ * y1 * y2) := by
  subst ha1 ha2
  have hdisc : (b2 + 2 * v2 * r) * (b2 + 2 * v2 * r) - 4 * (v1 * v2) * (r * m - e * k3)
      = b2 * b2 - 4 * (e * v2) * c2 := by
    linear_combination (4 * v2 * r) * F1 + (4 * v2 * e) * F2
  have hb1 : b1 = (b2 + 2 * v2 * r) + 2 * v1 * (-m) := by
    linear_combination h2s - 2 * F1
  have R1 : e * c1 = (-m) * (b2 + 2 * v2 * r) + v1 * (-m) * (-m) + v2 * (r * m - e * k3) := by
    apply mul_left_cancel₀ (mul_ne_zero (by norm_num : (4 : Int) ≠ 0) hv1)
    rw [hb1] at hD
    linear_combination hdisc - hD
  have R2 : e * c2 = (-r) * (b2 + 2 * v2 * r) + v2 * (-r) * (-r) + v1 * (r * m - e * k3) := by
    linear_combination r * F1 + e * F2
  have R3 : e * σ = (b2 + 2 * v2 * r) + v1 * (-m) + v2 * (-r) := by
    linear_combination (-1) * F1
  refine ⟨by linear_combination r * F1 + e * F2, ?_, ?_⟩
  · simp only [Form.disc]; linear_combination hdisc
  · intro x1 y1 x2 y2
    have core := gauss_core e v1 v2 (b2 + 2 * v2 * r) (-m) (-r) (r * m - e * k3) x1 y1 x2 y2
    apply mul_left_cancel₀ (mul_ne_zero he he)
    have e1 : e * (⟨e * v1, b1, c1⟩ : Form).eval x1 y1
        = e*e*v1*x1*x1 + e*((b2 + 2 * v2 * r)+2*v1*(-m))*x1*y1
          + ((-m)*(b2 + 2 * v2 * r)+v1*(-m)*(-m)+v2*(r * m - e * k3))*y1*y1 := by
      simp only [Form.eval]; rw [← R1, ← hb1]; ring
    have e2 : e * (⟨e * v2, b2, c2⟩ : Form).eval x2 y2
        = e*e*v2*x2*x2 + e*((b2 + 2 * v2 * r)+2*v2*(-r))*x2*y2
          + ((-r)*(b2 + 2 * v2 * r)+v2*(-r)*(-r)+v1*(r * m - e * k3))*y2*y2 := by
      simp only [Form.eval]; rw [← R2]; ring
    have e3 : ∀ (g : Form) (X Y : Int), e * e * g.eval X Y = g.eval (e * X) (e * Y) := by
      intro g X Y; simp only [Form.eval]; ring
    rw [e3]
    have eX : e * (e * x1 * x2 - r * x1 * y2 - m * y1 * x2 + k3 * y1 * y2)
        = e*e*x1*x2 + e*(-r)*x1*y2 + e*(-m)*y1*x2 + ((-m)*(-r)-(r * m - e * k3))*y1*y2 := by ring
    have eY : e * (v1 * x1 * y2 + v2 * y1 * x2 + σ * y1 * y2)
        = e*v1*x1*y2 + e*v2*y1*x2 + ((b2 + 2 * v2 * r)+v1*(-m)+v2*(-r))*y1*y2 := by
      rw [← R3]; ring
    rw [eX, eY, ← core, ← e1, ← e2]; ring



theorem xgcdAux_bezout (A B : Int) : ∀ (fuel : Nat) (a b u0 v0 u1 v1 : Int),
    u0 * A + v0 * B = a → u1 * A + v1 * B = b →
    ∀ g u v, xgcdAux fuel a b u0 v0 u1 v1 = (g, u, v) → u * A + v * B = g := by
  intro fuel
  induction fuel with
  | zero =>
    intro a b u0 v0 u1 v1 h0 _ g u v h
    simp only [xgcdAux, Prod.mk.injEq] at h
    obtain ⟨rfl, rfl, rfl⟩ := h; exact h0
  | succ f ih =>
    intro a b u0 v0 u1 v1 h0 h1 g u v h
    rw [xgcdAux] at h
    split at h
    · split at h
      · simp only [Prod.mk.injEq] at h
        obtain ⟨rfl, rfl, rfl⟩ := h; linear_combination -h0
      · simp only [Prod.mk.injEq] at h
        obtain ⟨rfl, rfl, rfl⟩ := h; exact h0
    · exact ih _ _ _ _ _ _ h1 (by linear_combination h0 - (a / b) * h1) g u v h

theorem xgcdAux_dvd : ∀ (n fuel : Nat) (a b u0 v0 u1 v1 : Int),
    0 ≤ b → b < 2 ^ n → 2 * n + 1 ≤ fuel →
    ∀ g u v, xgcdAux fuel a b u0 v0 u1 v1 = (g, u, v) → g ∣ a ∧ g ∣ b ∧ 0 ≤ g := by
  have base : ∀ (fuel : Nat) (a u0 v0 u1 v1 : Int), 1 ≤ fuel →
      ∀ g u v, xgcdAux fuel a 0 u0 v0 u1 v1 = (g, u, v) → g ∣ a ∧ g ∣ 0 ∧ 0 ≤ g := by
    intro fuel a u0 v0 u1 v1 hf g u v h
    obtain ⟨f, rfl⟩ : ∃ f, fuel = f + 1 := ⟨fuel - 1, by omega⟩
    rw [xgcdAux] at h
    simp only [if_true] at h
    split at h
    · simp only [Prod.mk.injEq] at h
      obtain ⟨rfl, -, -⟩ := h
      exact ⟨by simp, dvd_zero _, by omega⟩
    · simp only [Prod.mk.injEq] at h
      obtain ⟨rfl, -, -⟩ := h
      exact ⟨dvd_refl _, dvd_zero _, by omega⟩
  have emod' : ∀ x y : Int, x - x / y * y = x % y := by
    intro x y; rw [Int.emod_def]; ring
  intro n
  induction n with
  | zero =>
    intro fuel a b u0 v0 u1 v1 hb0 hb hf g u v h
    have : b = 0 := by simp at hb; omega
    subst this
    exact base fuel a u0 v0 u1 v1 (by omega) g u v h
  | succ n ih =>
    intro fuel a b u0 v0 u1 v1 hb0 hb hf g u v h
    by_cases hbz : b = 0
    · subst hbz; exact base fuel a u0 v0 u1 v1 (by omega) g u v h
    obtain ⟨f, rfl⟩ : ∃ f, fuel = f + 1 := ⟨fuel - 1, by omega⟩
    rw [xgcdAux, if_neg hbz] at h
    simp only at h
    have hbpos : 0 < b := by omega
    have e1 : a - a / b * b = a % b := emod' a b
    rw [e1] at h
    have hr0 : 0 ≤ a % b := Int.emod_nonneg _ hbz
    have hrlt : a % b < b := Int.emod_lt_of_pos _ hbpos
    have hab : b * (a / b) + a % b = a := Int.mul_ediv_add_emod a b
    by_cases hrz : a % b = 0
    · rw [hrz] at h
      obtain ⟨h1, _, h3⟩ := base f b _ _ _ _ (by omega) g u v h
      refine ⟨?_, h1, h3⟩
      rw [← hab, hrz, add_zero]; exact Dvd.dvd.mul_right h1 _
    · obtain ⟨f', rfl⟩ : ∃ f', f = f' + 1 := ⟨f - 1, by omega⟩
      rw [xgcdAux, if_neg hrz] at h
      simp only at h
      have hrpos : 0 < a % b := by omega
      have e2 : b - b / (a % b) * (a % b) = b % (a % b) := emod' b (a % b)
      rw [e2] at h
      have hs0 : 0 ≤ b % (a % b) := Int.emod_nonneg _ hrz
      have hslt : b % (a % b) < a % b := Int.emod_lt_of_pos _ hrpos
      have hbb : (a % b) * (b / (a % b)) + b % (a % b) = b := Int.mul_ediv_add_emod b (a % b)
      have hq : 1 ≤ b / (a % b) := by
        rw [Int.le_ediv_iff_mul_le hrpos]; omega
      have hhalf : b % (a % b) < 2 ^ n := by
        have : (a % b) * 1 ≤ (a % b) * (b / (a % b)) := Int.mul_le_mul_of_nonneg_left hq hr0
        have h2 : (2 : Int) ^ (n + 1) = 2 * 2 ^ n := by ring
        omega
      obtain ⟨h1, h2, h3⟩ := ih f' (a % b) (b % (a % b)) _ _ _ _ hs0 hhalf (by omega) g u v h
      have hgb : g ∣ b := by rw [← hbb]; exact dvd_add (Dvd.dvd.mul_right h1 _) h2
      refine ⟨?_, hgb, h3⟩
      rw [← hab]; exact dvd_add (Dvd.dvd.mul_right hgb _) h1

theorem xgcd_spec (a b : Int) (hb : 0 ≤ b) (g u v : Int) (h : xgcd a b = (g, u, v)) :
    u * a + v * b = g ∧ g ∣ a ∧ g ∣ b ∧ 0 ≤ g := by
  unfold xgcd at h
  refine ⟨xgcdAux_bezout a b _ a b 1 0 0 1 (by ring) (by ring) g u v h, ?_⟩
  refine xgcdAux_dvd (b.natAbs.log2 + 1) _ a b 1 0 0 1 hb ?_ (by omega) g u v h
  have := Nat.lt_log2_self (n := b.natAbs)
  have e : b = (b.natAbs : Int) := by omega
  rw [e]
  exact_mod_cast this



def stepD (a1 a2 : Int) : Int × Int :=
  if a2 % a1 = 0 then ((0 : Int), a1) else let (g, u, _) := xgcd a2 a1; (u, g)

def stepE (s d : Int) : Int × Int × Int :=
  if s % d = 0 then ((0 : Int), (-1 : Int), d) else let (g, u, v) := xgcd s d; (u, -v, g)

def composeCore (f1 f2 : Form) : Form :=
  let s := (f1.b + f2.b) / 2
  let n := f2.b - s
  let yd := stepD f1.a f2.a
  let xe := stepE s yd.2
  let v1 := f1.a / xe.2.2
  let v2 := f2.a / xe.2.2
  let r := (yd.1 * xe.2.1 * n - xe.1 * f2.c) % v1
  ⟨v1 * v2, f2.b + 2 * v2 * r, (f2.c * xe.2.2 + r * (f2.b + v2 * r)) / v1⟩

def Form.composeRaw (f1 f2 : Form) : Form :=
  if f1.a > f2.a then composeCore f2 f1 else composeCore f1 f2

theorem compose_eq_raw (f1 f2 : Form) :
    f1.compose f2 = (f1.composeRaw f2).reduce (reduceFuel (f1.composeRaw f2)) := by
  unfold Form.compose Form.composeRaw
  by_cases h : f1.a > f2.a
  · rw [if_pos h, if_pos h]; rfl
  · rw [if_neg h, if_neg h]; rfl


theorem stepD_spec (a1 a2 : Int) (h1 : 0 < a1) :
    ∃ w : Int, (stepD a1 a2).2 = (stepD a1 a2).1 * a2 + w * a1 ∧ (stepD a1 a2).2 ∣ a1 ∧
      (stepD a1 a2).2 ∣ a2 ∧ 0 < (stepD a1 a2).2 := by
  unfold stepD
  by_cases h : a2 % a1 = 0
  · rw [if_pos h]
    exact ⟨1, by simp, dvd_refl _, Int.dvd_of_emod_eq_zero h, h1⟩
  · rw [if_neg h]
    rcases hx : xgcd a2 a1 with ⟨g, u, v⟩
    obtain ⟨hb, hg2, hg1, hg0⟩ := xgcd_spec a2 a1 (le_of_lt h1) g u v hx
    simp only
    refine ⟨v, by linear_combination -hb, hg1, hg2, ?_⟩
    rcases lt_or_eq_of_le hg0 with h' | h'
    · exact h'
    · exfalso; rw [← h'] at hg1; have := zero_dvd_iff.1 hg1; omega

theorem stepE_spec (s d : Int) (hd : 0 < d) :
    (stepE s d).2.2 = (stepE s d).1 * s - (stepE s d).2.1 * d ∧ (stepE s d).2.2 ∣ s ∧
      (stepE s d).2.2 ∣ d ∧ 0 < (stepE s d).2.2 := by
  unfold stepE
  by_cases h : s % d = 0
  · rw [if_pos h]
    exact ⟨by simp, Int.dvd_of_emod_eq_zero h, dvd_refl _, hd⟩
  · rw [if_neg h]
    rcases hx : xgcd s d with ⟨g, u, v⟩
    obtain ⟨hb, hg2, hg1, hg0⟩ := xgcd_spec s d (le_of_lt hd) g u v hx
    simp only
    refine ⟨by linear_combination -hb, hg2, hg1, ?_⟩
    rcases lt_or_eq_of_le hg0 with h' | h'
    · exact h'
    · exfalso; rw [← h'] at hg1; have := zero_dvd_iff.1 hg1; omega

/-- forms of the same discriminant have middle coefficients of the same parity -/
theorem disc_parity {f1 f2 : Form} (hd : f1.disc = f2.disc) : (2 : Int) ∣ f1.b + f2.b := by
  have p1 : (2 : Int) ∣ f1.b - f1.disc := parity_of_sq ⟨f1.a * f1.c, by simp only [Form.disc]; ring⟩
  have p2 : (2 : Int) ∣ f2.b - f1.disc := parity_of_sq ⟨f2.a * f2.c, by rw [hd]; simp only [Form.disc]; ring⟩
  obtain ⟨u, hu⟩ := p1
  obtain ⟨v, hv⟩ := p2
  exact ⟨u + v + f1.disc, by linear_combination hu + hv⟩

/-- what `composeCore` computes: `e = gcd(a1, a2, s)` with its Bezout coefficients, the cofactors, and the two
divisibilities `F1`, `F2` that make the third coefficient an exact quotient -/
theorem composeCore_spec (f1 f2 : Form) (h1 : 0 < f1.a) (hd : f1.disc = f2.disc) :
    ∃ e v1 v2 σ r m k3 x2 P t : Int, 0 < e ∧ v1 ≠ 0 ∧ f1.a = e * v1 ∧ f2.a = e * v2 ∧
      f1.b + f2.b = 2 * (e * σ) ∧ e = x2 * (e * σ) - P * (e * v2) - t * (e * v1) ∧
      (f2.b - e * σ) + v2 * r = v1 * m ∧ f2.c + σ * r = -(v1 * k3) ∧
      composeCore f1 f2 = ⟨v1 * v2, f2.b + 2 * v2 * r, r * m - e * k3⟩ := by
  obtain ⟨w, hdb, hd1, hd2, hd0⟩ := stepD_spec f1.a f2.a h1
  obtain ⟨heb, hes, hed, he0⟩ := stepE_spec ((f1.b + f2.b) / 2) (stepD f1.a f2.a).2 hd0
  obtain ⟨s, hs⟩ := disc_parity hd
  have hs' : (f1.b + f2.b) / 2 = s := by rw [hs]; exact Int.mul_ediv_cancel_left _ (by norm_num)
  rw [hs'] at heb hes hed he0
  generalize hyd : stepD f1.a f2.a = yd at *
  generalize hxe : stepE s yd.2 = xe at *
  obtain ⟨y1, d⟩ := yd
  obtain ⟨x2, y2, e⟩ := xe
  simp only at hdb hd1 hd2 hd0 heb hes hed he0
  have hea1 : e ∣ f1.a := dvd_trans hed hd1
  have hea2 : e ∣ f2.a := dvd_trans hed hd2
  obtain ⟨v1, hv1⟩ := hea1
  obtain ⟨v2, hv2⟩ := hea2
  obtain ⟨σ, hσ⟩ := hes
  subst hσ
  simp only at hxe
  have he : e ≠ 0 := by omega
  have hv10 : v1 ≠ 0 := by rintro rfl; rw [mul_zero] at hv1; omega
  have q1 : f1.a / e = v1 := by rw [hv1]; exact Int.mul_ediv_cancel_left _ he
  have q2 : f2.a / e = v2 := by rw [hv2]; exact Int.mul_ediv_cancel_left _ he
  have hD : f1.b * f1.b - 4 * (e * v1) * f1.c = f2.b * f2.b - 4 * (e * v2) * f2.c := by
    have := hd; simp only [Form.disc] at this; rw [hv1, hv2] at this; exact this
  have h2s : f1.b + f2.b = 2 * (e * σ) := hs
  have hbez : e = x2 * (e * σ) - (y1 * y2) * (e * v2) - (y2 * w) * (e * v1) := by
    rw [← hv2, ← hv1]; linear_combination heb - y2 * hdb
  set r0 := y1 * y2 * (f2.b - e * σ) - x2 * f2.c with hr0
  have hr : r0 % v1 = y1 * y2 * (f2.b - e * σ) - x2 * f2.c + (-(r0 / v1)) * v1 := by
    rw [Int.emod_def]; ring
  obtain ⟨F1, F2⟩ := compose_divs f1.b f1.c f2.b f2.c e v1 v2 σ x2 (y1 * y2) (y2 * w) (r0 % v1) (-(r0 / v1))
    he h2s hD hbez hr
  refine ⟨e, v1, v2, σ, r0 % v1, _, _, x2, y1 * y2, y2 * w, he0, hv10, hv1, hv2, h2s, hbez, F1, F2, ?_⟩
  obtain ⟨hc3, -, -⟩ := gauss_identity f1.a f1.b f1.c f2.a f2.b f2.c e v1 v2 σ (r0 % v1) _ _ he hv10 hv1 hv2
    h2s (by rw [hv1, hv2]; exact hD) F1 F2
  unfold composeCore
  simp only [hs', hyd, hxe, q1, q2]
  rw [Form.mk.injEq]
  refine ⟨rfl, rfl, ?_⟩
  rw [hc3]; exact Int.mul_ediv_cancel_left _ hv10

/-- a bilinear form in `(x1, y1)`, `(x2, y2)` with integer coefficients -/
def bil (α : Int × Int × Int × Int) (x1 y1 x2 y2 : Int) : Int :=
  α.1 * x1 * x2 + α.2.1 * x1 * y2 + α.2.2.1 * y1 * x2 + α.2.2.2 * y1 * y2

/-- `g` is a composition of `f1` and `f2` in the sense of the bilinear identity of Gauss (art. 235):
`f1(x1, y1) · f2(x2, y2) = g(X, Y)` with `X`, `Y` integer bilinear forms -/
def GaussComposes (f1 f2 g : Form) : Prop :=
  ∃ α β : Int × Int × Int × Int, ∀ x1 y1 x2 y2 : Int,
    f1.eval x1 y1 * f2.eval x2 y2 = g.eval (bil α x1 y1 x2 y2) (bil β x1 y1 x2 y2)

theorem GaussComposes.swap {f1 f2 g : Form} (h : GaussComposes f1 f2 g) : GaussComposes f2 f1 g := by
  obtain ⟨⟨α1, α2, α3, α4⟩, ⟨β1, β2, β3, β4⟩, hid⟩ := h
  refine ⟨(α1, α3, α2, α4), (β1, β3, β2, β4), ?_⟩
  intro x1 y1 x2 y2
  rw [mul_comm, hid x2 y2 x1 y1]
  simp only [bil]
  congr 1 <;> ring

theorem GaussComposes.pequiv {f1 f2 g h : Form} (hc : GaussComposes f1 f2 g) (he : PEquiv g h) :
    GaussComposes f1 f2 h := by
  obtain ⟨⟨α1, α2, α3, α4⟩, ⟨β1, β2, β3, β4⟩, hid⟩ := hc
  obtain ⟨p, q, r, s, hdet, rfl⟩ := he
  refine ⟨(s * α1 - q * β1, s * α2 - q * β2, s * α3 - q * β3, s * α4 - q * β4),
    (-r * α1 + p * β1, -r * α2 + p * β2, -r * α3 + p * β3, -r * α4 + p * β4), ?_⟩
  intro x1 y1 x2 y2
  rw [hid, Form.act_eval]
  simp only [bil]
  congr 1
  · linear_combination (-(α1 * x1 * x2 + α2 * x1 * y2 + α3 * y1 * x2 + α4 * y1 * y2)) * hdet
  · linear_combination (-(β1 * x1 * x2 + β2 * x1 * y2 + β3 * y1 * x2 + β4 * y1 * y2)) * hdet

theorem composeCore_gauss (f1 f2 : Form) (h1 : 0 < f1.a) (hd : f1.disc = f2.disc) :
    (composeCore f1 f2).disc = f1.disc ∧ GaussComposes f1 f2 (composeCore f1 f2) := by
  obtain ⟨e, v1, v2, σ, r, m, k3, x2, P, t, he0, hv10, hv1, hv2, h2s, -, F1, F2, hg⟩ :=
    composeCore_spec f1 f2 h1 hd
  have hD : f1.b * f1.b - 4 * f1.a * f1.c = f2.b * f2.b - 4 * f2.a * f2.c := by
    have := hd; simpa only [Form.disc] using this
  obtain ⟨-, hdisc, hid⟩ := gauss_identity f1.a f1.b f1.c f2.a f2.b f2.c e v1 v2 σ r m k3 (by omega) hv10
    hv1 hv2 h2s hD F1 F2
  rw [hg]
  refine ⟨by rw [hdisc, hd], (e, -r, -m, k3), (0, v1, v2, σ), ?_⟩
  intro x1 y1 x2 y2
  have := hid x1 y1 x2 y2
  simp only [bil]
  rw [show f1 = ⟨f1.a, f1.b, f1.c⟩ from rfl, show f2 = ⟨f2.a, f2.b, f2.c⟩ from rfl, this]
  congr 1 <;> ring

theorem gcd3_of_bezout {a b c u v w : Int} (h : u * a + v * b + w * c = 1) : gcd3 a b c = 1 := by
  have ha : ((gcd3 a b c : Nat) : Int) ∣ a :=
    Int.natCast_dvd.2 (dvd_trans (Nat.gcd_dvd_left _ _) (Nat.gcd_dvd_left _ _))
  have hb : ((gcd3 a b c : Nat) : Int) ∣ b :=
    Int.natCast_dvd.2 (dvd_trans (Nat.gcd_dvd_left _ _) (Nat.gcd_dvd_right _ _))
  have hc : ((gcd3 a b c : Nat) : Int) ∣ c := Int.natCast_dvd.2 (Nat.gcd_dvd_right _ _)
  have h1 : ((gcd3 a b c : Nat) : Int) ∣ 1 := by
    rw [← h]; exact dvd_add (dvd_add (ha.mul_left u) (hb.mul_left v)) (hc.mul_left w)
  have := Int.eq_one_of_dvd_one (by omega) h1
  exact_mod_cast this

theorem eq_one_of_dvd_gcd3 {a b c e : Int} (he : 0 < e) (ha : e ∣ a) (hb : e ∣ b) (hc : e ∣ c)
    (h : gcd3 a b c = 1) : e = 1 := by
  have h1 : e.natAbs ∣ gcd3 a b c :=
    Nat.dvd_gcd (Nat.dvd_gcd (Int.natAbs_dvd_natAbs.2 ha) (Int.natAbs_dvd_natAbs.2 hb))
      (Int.natAbs_dvd_natAbs.2 hc)
  rw [h] at h1
  have := Nat.dvd_one.1 h1
  omega

/-- `gcd(a1, a2, (b1+b2)/2) = 1`: the raw result of Cohen 5.4.7 is the Dirichlet composition of two forms
equivalent to `f1`, `f2` (translations to the common middle coefficient `B`) -/
theorem composeCore_comp (f1 f2 : Form) (h1 : 0 < f1.a) (h2 : f2.a ≠ 0) (hd : f1.disc = f2.disc)
    (hg : gcd3 f1.a f2.a ((f1.b + f2.b) / 2) = 1) : Comp f1 f2 (composeCore f1 f2) := by
  obtain ⟨e, v1, v2, σ, r, m, k3, x2, P, t, he0, hv10, hv1, hv2, h2s, hbez, F1, F2, hgf⟩ :=
    composeCore_spec f1 f2 h1 hd
  have hD : f1.b * f1.b - 4 * f1.a * f1.c = f2.b * f2.b - 4 * f2.a * f2.c := by
    have := hd; simpa only [Form.disc] using this
  obtain ⟨-, hdisc, -⟩ := gauss_identity f1.a f1.b f1.c f2.a f2.b f2.c e v1 v2 σ r m k3 (by omega) hv10
    hv1 hv2 h2s hD F1 F2
  have hs' : (f1.b + f2.b) / 2 = e * σ := by rw [h2s]; exact Int.mul_ediv_cancel_left _ (by norm_num)
  have he1 : e = 1 := eq_one_of_dvd_gcd3 he0 ⟨v1, hv1⟩ ⟨v2, hv2⟩ ⟨σ, hs'⟩ hg
  subst he1
  simp only [one_mul] at hv1 hv2 h2s hbez F1 F2 hgf hdisc
  rw [hgf]
  subst hv1 hv2
  set B := f2.b + 2 * f2.a * r with hB
  set c3 := r * m - k3 with hc3
  have hdg : (⟨f1.a * f2.a, B, c3⟩ : Form).disc = f2.disc := by
    have := hdisc; simpa only [Form.disc, one_mul] using this
  refine ⟨⟨f1.a, B, f2.a * c3⟩, ⟨f2.a, B, f1.a * c3⟩, ⟨f1.a * f2.a, B, c3⟩, ?_, ?_, PEquiv.refl _,
    f1.a, f2.a, B, c3, rfl, rfl, rfl, ?_⟩
  · refine pequiv_of_congr (f := f1) (g := ⟨f1.a, B, f2.a * c3⟩) rfl hv10 ?_ ?_
    · rw [hd, ← hdg]; simp only [Form.disc]; ring
    · exact ⟨m, by simp only [hB]; linear_combination 2 * F1 - h2s⟩
  · refine pequiv_of_congr (f := f2) (g := ⟨f2.a, B, f1.a * c3⟩) rfl h2 ?_ ?_
    · rw [← hdg]; simp only [Form.disc]; ring
    · exact ⟨r, by simp only [hB]; ring⟩
  · apply gcd3_of_bezout (u := -(x2 * m) - t) (v := -(x2 * r) - P) (w := x2)
    simp only [hB]
    linear_combination -hbez + x2 * F1

theorem gcd3_comm12 (a b c : Int) : gcd3 a b c = gcd3 b a c := by
  unfold gcd3; rw [Nat.gcd_comm a.natAbs]

/-- literally concordant inputs: the raw result is a translate of the Dirichlet composition -/
theorem composeCore_concordant (a1 a2 b c : Int) (h1 : 0 < a1) (h2 : a2 ≠ 0) (hg : gcd3 a1 a2 b = 1) :
    PEquiv ⟨a1 * a2, b, c⟩ (composeCore ⟨a1, b, a2 * c⟩ ⟨a2, b, a1 * c⟩) := by
  have hd : (⟨a1, b, a2 * c⟩ : Form).disc = (⟨a2, b, a1 * c⟩ : Form).disc := by
    simp only [Form.disc]; ring
  obtain ⟨e, v1, v2, σ, r, m, k3, x2, P, t, he0, hv10, hv1, hv2, h2s, hbez, F1, F2, hgf⟩ :=
    composeCore_spec ⟨a1, b, a2 * c⟩ ⟨a2, b, a1 * c⟩ h1 hd
  simp only at hv1 hv2 h2s hbez F1 F2 hgf
  obtain ⟨-, hdisc, -⟩ := gauss_identity a1 b (a2 * c) a2 b (a1 * c) e v1 v2 σ r m k3 (by omega) hv10
    hv1 hv2 h2s (by ring) F1 F2
  have hσ : e * σ = b := by omega
  have he1 : e = 1 := eq_one_of_dvd_gcd3 he0 ⟨v1, hv1⟩ ⟨v2, hv2⟩ ⟨σ, hσ.symm⟩ hg
  subst he1
  simp only [one_mul] at hv1 hv2 h2s hbez F1 F2 hgf hdisc hσ
  subst hv1 hv2 hσ
  rw [hgf]
  have hdd : (σ + 2 * a2 * r) * (σ + 2 * a2 * r) - 4 * (a1 * a2) * (r * m - k3) = σ * σ - 4 * a2 * (a1 * c) := by
    have := hdisc; simpa only [Form.disc] using this
  refine pequiv_of_congr (f := ⟨a1 * a2, σ, c⟩) (g := ⟨a1 * a2, σ + 2 * a2 * r, r * m - k3⟩) rfl
    (mul_ne_zero hv10 h2) ?_ ?_
  · simp only [Form.disc]; linear_combination -hdd
  · refine ⟨x2 * ((r * m - k3) - c - r * m) - P * m - t * r, ?_⟩
    simp only
    have hδ : a2 * r = a1 * m := by linear_combination F1
    have hbδ : σ * (a2 * r) = a1 * a2 * ((r * m - k3) - c - r * m) := by
      have : 4 * (σ * (a2 * r)) = 4 * (a1 * a2 * ((r * m - k3) - c - r * m)) := by
        linear_combination hdd - (4 * a2 * r) * hδ
      omega
    linear_combination (2 * a2 * r) * hbez + 2 * x2 * hbδ - (2 * P * a2) * hδ

end Ymq.ClassGroup
