/-
C03/qs64, part (a): every relation `qsieve64::qsieve` hands to `relations::final_step` is a true
congruence modulo `n` with cofactor 1 (`FinalRel`). The proof does not look at the sieve at all:
whatever the interval contains, the candidate at ANY index yields a valid relation (trial division
is exact by C08 `divmod64`), and `combine` (C11) keeps validity.
-/
import Ymq.Model.Qsieve64
import Ymq.Lemmas.Relations
import Ymq.Lemmas.RelationsFinal
import Ymq.Lemmas.Dividers
import Ymq.Lemmas.RelationsInv2
import Ymq.Lemmas.Arith

namespace Ymq.Qsieve64
open Ymq.Relations

/-! ### monad plumbing -/

theorem liftO_ok {α : Type} {o : Option α} {a : α} : liftO o = .ok a ↔ o = some a := by
  cases o with
  | none => simp [liftO, throw_ne_ok]
  | some b => simp [liftO, pure_eq_ok]

theorem chkI64_ok {x y : Int} : chkI64 x = .ok y ↔ y = x ∧ -(I63 : Int) ≤ x ∧ x < (I63 : Int) := by
  unfold chkI64
  split
  · rename_i h
    rw [pure_eq_ok]
    exact ⟨fun e => ⟨e.symm, h⟩, fun e => e.1.symm⟩
  · rename_i h
    rw [throw_ne_ok]
    exact ⟨False.elim, fun e => h e.2⟩

/-! ### the factor base -/

/-- a factor-base entry as `new64` builds it: the divider is what `Dividers::new(p)` returns -/
def EntryOK (e : FbEntry) : Prop := Dividers.Ok e.div ∧ e.div.p = e.p

theorem new64Loop_entries (nk : Nat) : ∀ (ps : List Nat) (fb : List FbEntry),
    new64Loop nk ps = .ok fb → ∀ e ∈ fb, EntryOK e ∧ ∃ p ∈ ps, e.p = p % W32 := by
  intro ps
  induction ps with
  | nil =>
    intro fb h
    simp only [new64Loop, pure_eq_ok] at h
    subst h
    intro e he; cases he
  | cons p ps ih =>
    intro fb h
    unfold new64Loop at h
    simp only [bind_eq_ok] at h
    obtain ⟨r, _, h⟩ := h
    cases r with
    | none =>
      intro e he
      obtain ⟨h1, q, hq, h2⟩ := ih fb h e he
      exact ⟨h1, q, List.mem_cons_of_mem _ hq, h2⟩
    | some r =>
      simp only [bind_eq_ok, pure_eq_ok] at h
      obtain ⟨d, hd, rest, hrest, h⟩ := h
      subst h
      intro e he
      rw [List.mem_cons] at he
      rcases he with rfl | he
      · rw [liftO_ok] at hd
        obtain ⟨hp, hok⟩ := Dividers.new_ok _ d hd
        exact ⟨⟨hok, hp⟩, p, List.mem_cons_self, rfl⟩
      · obtain ⟨h1, q, hq, h2⟩ := ih rest hrest e he
        exact ⟨h1, q, List.mem_cons_of_mem _ hq, h2⟩

theorem new64_entries {nk : Nat} {fb : List FbEntry} (h : new64 nk = .ok fb) :
    ∀ e ∈ fb, EntryOK e ∧ ∃ p ∈ Ymq.Gen.Primality.smallPrimes, e.p = p % W32 := by
  unfold new64 at h
  simp only [bind_eq_ok] at h
  obtain ⟨fb', hfb, h⟩ := h
  split at h
  · simp [throw_ne_ok] at h
  · split at h
    · rw [pure_eq_ok] at h; subst h
      exact new64Loop_entries nk _ _ hfb
    · simp [throw_ne_ok] at h

/-! ### trial division -/

theorem divLoop_spec {d : Dividers.Div} (hd : Dividers.Ok d) : ∀ (f v e v' e' : Nat), v < 2 ^ 64 →
    divLoop d f v e = .ok (v', e') → v = v' * d.p ^ (e' - e) ∧ e ≤ e' ∧ v' ≤ v := by
  intro f
  induction f with
  | zero => intro v e v' e' _ h; simp [divLoop, throw_ne_ok] at h
  | succ f ih =>
    intro v e v' e' hv h
    unfold divLoop at h
    simp only [bind_eq_ok, liftO_ok] at h
    obtain ⟨qr, hqr, h⟩ := h
    rw [Dividers.divmod64_ok d hd v hv] at hqr
    injection hqr with hqr
    subst hqr
    simp only at h
    have hp := hd.p_pos
    split at h
    · rename_i hr
      have hq : v / d.p < 2 ^ 64 := lt_of_le_of_lt (Nat.div_le_self _ _) hv
      obtain ⟨h1, h2, h3⟩ := ih _ _ _ _ hq h
      refine ⟨?_, by omega, le_trans h3 (Nat.div_le_self _ _)⟩
      have hv' : v = d.p * (v / d.p) := by
        have := Nat.div_add_mod v d.p; omega
      have he : e' - e = (e' - (e + 1)) + 1 := by omega
      rw [he, pow_succ, hv']
      conv_lhs => rw [h1]
      ring
    · rw [pure_eq_ok] at h
      injection h with h1 h2
      subst h1; subst h2
      simp

theorem trialLoop_spec : ∀ (fb : List FbEntry), (∀ e ∈ fb, EntryOK e) →
    ∀ (v : Nat) (fs : List (Int × Nat)) (cof : Nat) (fs' : List (Int × Nat)), v < 2 ^ 64 →
    trialLoop fb v fs = .ok (cof, fs') →
    (v : Int) * fprod fs = (cof : Int) * fprod fs' ∧ cof ≤ v := by
  intro fb
  induction fb with
  | nil =>
    intro _ v fs cof fs' _ h
    simp only [trialLoop, pure_eq_ok] at h
    injection h with h1 h2
    subst h1; subst h2
    exact ⟨rfl, le_refl _⟩
  | cons e t ih =>
    intro hfb v fs cof fs' hv h
    unfold trialLoop at h
    simp only [bind_eq_ok] at h
    obtain ⟨ve, hve, h⟩ := h
    obtain ⟨v1, e1⟩ := ve
    have hE := hfb e List.mem_cons_self
    obtain ⟨h1, _, h3⟩ := divLoop_spec hE.1 65 v 0 v1 e1 hv hve
    simp only at h
    obtain ⟨h4, h5⟩ := ih (fun e' he' => hfb e' (List.mem_cons_of_mem _ he')) v1 _ cof fs'
      (lt_of_le_of_lt h3 hv) h
    refine ⟨?_, le_trans h5 h3⟩
    rw [← h4, h1, hE.2]
    simp only [Nat.sub_zero]
    split
    · rw [fprod_append, fprod_cons, fprod_nil]; push_cast; ring
    · rename_i he0
      have : e1 = 0 := by omega
      subst this
      simp

/-- the primes of a factor list: the sign, or non-negative and below 2^63 (needed by C11 `FinalRel`) -/
def BasesOK (fs : List (Int × Nat)) : Prop := ∀ f ∈ fs, f.1 = -1 ∨ (0 ≤ f.1 ∧ f.1 < (I63 : Int))

theorem BasesOK_nil : BasesOK [] := by intro f hf; cases hf

theorem BasesOK_append {a b : List (Int × Nat)} : BasesOK (a ++ b) ↔ BasesOK a ∧ BasesOK b := by
  unfold BasesOK
  constructor
  · intro h
    exact ⟨fun f hf => h f (List.mem_append_left _ hf), fun f hf => h f (List.mem_append_right _ hf)⟩
  · intro h f hf
    rcases List.mem_append.mp hf with hf | hf
    · exact h.1 f hf
    · exact h.2 f hf

theorem trialLoop_bases : ∀ (fb : List FbEntry), (∀ e ∈ fb, e.p < I63) →
    ∀ (v : Nat) (fs : List (Int × Nat)) (cf : Nat × List (Int × Nat)),
    trialLoop fb v fs = .ok cf → BasesOK fs → BasesOK cf.2 := by
  intro fb
  induction fb with
  | nil =>
    intro _ v fs cf h hb
    simp only [trialLoop, pure_eq_ok] at h
    subst h
    exact hb
  | cons e t ih =>
    intro hfb v fs cf h hb
    unfold trialLoop at h
    simp only [bind_eq_ok] at h
    obtain ⟨ve, _, h⟩ := h
    refine ih (fun e' he' => hfb e' (List.mem_cons_of_mem _ he')) _ _ cf h ?_
    split
    · rw [BasesOK_append]
      refine ⟨hb, ?_⟩
      intro f hf
      simp only [List.mem_singleton] at hf
      subst hf
      have := hfb e List.mem_cons_self
      show ((e.p : Int) = -1 ∨ (0 ≤ (e.p : Int) ∧ (e.p : Int) < (I63 : Int)))
      exact Or.inr ⟨Int.natCast_nonneg _, by exact_mod_cast this⟩
    · exact hb

/-! ### candidates -/

/-- what `setup` establishes about the polynomial: `(nsqrt + x)² − nk = x² + b·x − c`, `n ∣ nk`,
all constants small enough for the `as i64` casts to be exact -/
structure CtxOK (c : Ctx) : Prop where
  dvd : c.n ∣ c.nk
  b_eq : c.b = 2 * c.nsqrt
  c_eq : c.c + c.nsqrt * c.nsqrt = c.nk
  ns63 : c.nsqrt < I63
  b63 : c.b < I63
  c63 : c.c < I63
  fb : ∀ e ∈ c.fb, EntryOK e ∧ ∃ p ∈ Ymq.Gen.Primality.smallPrimes, e.p = p % W32

theorem smallPrimes_lt : ∀ p ∈ Ymq.Gen.Primality.smallPrimes, p < 200 := by decide

theorem CtxOK.p_lt {c : Ctx} (h : CtxOK c) : ∀ e ∈ c.fb, e.p < 200 := by
  intro e he
  obtain ⟨_, p, hp, hep⟩ := h.fb e he
  have := smallPrimes_lt p hp
  rw [hep]
  exact lt_of_le_of_lt (Nat.mod_le _ _) this

theorem candidate_valid {c : Ctx} (hc : CtxOK c) {offset : Int} {i : Nat} {rel : Relation}
    (h : candidate c offset i = .ok (some rel)) :
    Valid c.n rel ∧ rel.cofactor < maxlarge ∧ rel.cyclelen = 1 ∧ BasesOK rel.factors := by
  unfold candidate at h
  simp only [bind_eq_ok, chkI64_ok] at h
  obtain ⟨x, ⟨rfl, _, _⟩, u, ⟨rfl, _, _⟩, xb, ⟨rfl, _, _⟩, m, ⟨rfl, _, _⟩, v, ⟨hv, hvlo, hvhi⟩,
    va, hva, cf, hcf, h⟩ := h
  obtain ⟨cof, fs⟩ := cf
  simp only at h
  split at h
  · simp [pure_eq_ok] at h
  · rename_i hcof
    simp only [pure_eq_ok, Option.some.injEq] at h
    subst h
    rw [toI64_small hc.ns63, toI64_small hc.b63, toI64_small hc.c63] at *
    -- |v|
    have hva' : va = |v| ∧ 0 ≤ va ∧ va < (I63 : Int) := by
      unfold absI64 at hva
      split at hva
      · rename_i hneg
        rw [chkI64_ok] at hva
        refine ⟨by rw [hva.1, abs_of_neg hneg], by omega, by omega⟩
      · rename_i hpos
        rw [pure_eq_ok] at hva
        subst hva
        refine ⟨by rw [abs_of_nonneg (by omega)], by omega, by omega⟩
    have hI63 : (I63 : Int) < (W64 : Int) := by decide
    have hvaU : ((toU64 va : Nat) : Int) = va := toU64_nonneg hva'.2.1 (by omega)
    have hvaU64 : toU64 va < 2 ^ 64 := by
      have : ((toU64 va : Nat) : Int) < (W64 : Int) := by rw [hvaU]; omega
      have h2 : (W64 : Nat) = 2 ^ 64 := by decide
      rw [← h2]; exact_mod_cast this
    obtain ⟨hprod, hle⟩ := trialLoop_spec c.fb (fun e he => (hc.fb e he).1) _ _ cof fs hvaU64 hcf
    have hbases : BasesOK fs := by
      refine trialLoop_bases c.fb (fun e he => ?_) _ _ _ hcf ?_
      · have := hc.p_lt e he
        have h63 : (200 : Nat) < I63 := by decide
        omega
      · split
        · intro f hf
          simp only [List.mem_singleton] at hf
          subst hf
          exact Or.inl rfl
        · exact BasesOK_nil
    refine ⟨?_, (by show cof < maxlarge; omega), rfl, hbases⟩
    -- the congruence
    unfold Valid
    simp only
    rw [← hprod, hvaU]
    have hsign : va * fprod (if v < 0 then [((-1 : Int), 1)] else []) = v := by
      rw [hva'.1]
      split
      · rename_i hneg
        rw [fprod_cons, fprod_nil, abs_of_neg hneg]; ring
      · rename_i hpos
        rw [fprod_nil, abs_of_nonneg (by omega)]; ring
    rw [hsign]
    -- u² − nk = v
    have hb : (c.b : Int) = 2 * (c.nsqrt : Int) := by exact_mod_cast hc.b_eq
    have hcc : (c.c : Int) + (c.nsqrt : Int) * (c.nsqrt : Int) = (c.nk : Int) := by
      exact_mod_cast hc.c_eq
    have hkey : ((((c.nsqrt : Int) + ((i : Int) + offset)).natAbs : Nat) : Int) *
        (((c.nsqrt : Int) + ((i : Int) + offset)).natAbs : Nat) = v + (c.nk : Int) := by
      rw [Int.natAbs_mul_self', hv, hb, ← hcc]; ring
    rw [hkey]
    have hdvd : (c.n : Int) ∣ (c.nk : Int) := Int.natCast_dvd_natCast.mpr hc.dvd
    refine Int.modEq_iff_dvd.mpr ?_
    have : v - (v + (c.nk : Int)) = -(c.nk : Int) := by ring
    rw [this]
    exact (Int.dvd_neg.mpr hdvd)

/-! ### `combine` keeps the shape of the factor list -/

theorem hasPrime_mem {p : Int} {fs : List (Int × Nat)} (h : hasPrime p fs = true) :
    ∃ f ∈ fs, f.1 = p := by
  unfold hasPrime at h
  rw [List.any_eq_true] at h
  obtain ⟨f, hf, he⟩ := h
  exact ⟨f, hf, by simpa using he⟩

theorem mergeFactors_bases : ∀ (fs acc out : List (Int × Nat)),
    mergeFactors acc fs = .ok out → BasesOK acc → BasesOK fs → BasesOK out := by
  intro fs
  induction fs with
  | nil => intro acc out h ha _; simp only [mergeFactors, pure_eq_ok] at h; subst h; exact ha
  | cons f t ih =>
    obtain ⟨p, k⟩ := f
    intro acc out h ha hf
    have hf1 : BasesOK t := fun f hf' => hf f (List.mem_cons_of_mem _ hf')
    unfold mergeFactors at h
    split at h
    · rename_i hp
      simp only [bind_eq_ok] at h
      obtain ⟨acc', hb, h⟩ := h
      refine ih acc' out h ?_ hf1
      intro f hf'
      rcases bump_mem p k acc acc' hb f hf' with h1 | h1
      · exact ha f h1
      · obtain ⟨g, hg, hgp⟩ := hasPrime_mem hp
        rw [h1, ← hgp]; exact ha g hg
    · refine ih _ out h ?_ hf1
      rw [BasesOK_append]
      refine ⟨ha, ?_⟩
      intro f hf'
      simp only [List.mem_singleton] at hf'
      subst hf'
      exact hf _ List.mem_cons_self

/-- `dummy_rset.combine(&rel, r0)` for two valid relations with the same cofactor below `maxlarge` -/
theorem combine_same {n : Nat} {r1 r2 r : Relation} (h : combine n r1 r2 = .ok r)
    (hc : r1.cofactor = r2.cofactor) (hlt : r1.cofactor < maxlarge) (h1 : Valid n r1)
    (h2 : Valid n r2) (hb1 : BasesOK r1.factors) (hb2 : BasesOK r2.factors) : FinalRel n r := by
  have hd : divisorCof r1 r2 = r1.cofactor := by
    unfold divisorCof; rw [hc]; simp
  have hI : r1.cofactor < I63 := by
    have : maxlarge < I63 := by decide
    omega
  obtain ⟨hne, hmul, fs, hfs, hf⟩ := combine_divisor h
  rw [hd] at hne hmul hf
  refine ⟨?_, combine_valid' h h1 h2 (by rw [hd]; exact hI), ?_⟩
  · rw [← hc] at hmul
    have hpos : 0 < r1.cofactor := Nat.pos_of_ne_zero hne
    have : r.cofactor * r1.cofactor * r1.cofactor = 1 * r1.cofactor * r1.cofactor := by
      rw [hmul]; ring
    exact Nat.eq_of_mul_eq_mul_right hpos (Nat.eq_of_mul_eq_mul_right hpos this)
  · have hb := mergeFactors_bases _ _ _ hfs hb1 hb2
    rw [hf]
    intro f hf'
    rcases List.mem_append.mp hf' with hf' | hf'
    · exact hb f hf'
    · simp only [List.mem_singleton] at hf'
      subst hf'
      rw [toI64_small hI]
      show ((r1.cofactor : Int) = -1 ∨ (0 ≤ (r1.cofactor : Int) ∧ (r1.cofactor : Int) < (I63 : Int)))
      exact Or.inr ⟨Int.natCast_nonneg _, by exact_mod_cast hI⟩

/-! ### the scan state -/

structure StOK (n : Nat) (st : St) : Prop where
  rels : ∀ r ∈ st.rels, FinalRel n r
  larges : ∀ kr ∈ st.larges, kr.2.cofactor = kr.1 ∧ Valid n kr.2 ∧ kr.1 < maxlarge ∧
    BasesOK kr.2.factors

theorem process_ok {c : Ctx} {rel : Relation} {st st' : St} (h : process c rel st = .ok st')
    (hst : StOK c.n st) (hv : Valid c.n rel) (hcof : rel.cofactor < maxlarge)
    (hb : BasesOK rel.factors) : StOK c.n st' := by
  unfold process at h
  split at h
  · rename_i h1
    rw [pure_eq_ok] at h; subst h
    refine ⟨?_, hst.larges⟩
    intro r hr
    rcases List.mem_append.mp hr with hr | hr
    · exact hst.rels r hr
    · simp only [List.mem_singleton] at hr
      subst hr
      exact ⟨h1, hv, hb⟩
  · split at h
    · rename_i r0 hlook
      simp only [bind_eq_ok, pure_eq_ok] at h
      obtain ⟨rr, hrr, h⟩ := h
      subst h
      obtain ⟨g1, g2, g3, g4⟩ := hst.larges _ (alookup_mem hlook)
      refine ⟨?_, hst.larges⟩
      intro r hr
      rcases List.mem_append.mp hr with hr | hr
      · exact hst.rels r hr
      · simp only [List.mem_singleton] at hr
        subst hr
        exact combine_same hrr g1.symm hcof hv g2 hb g4
    · rw [pure_eq_ok] at h; subst h
      refine ⟨hst.rels, ?_⟩
      intro kr hkr
      rcases List.mem_cons.mp hkr with hkr | hkr
      · subst hkr
        exact ⟨rfl, hv, hcof, hb⟩
      · exact hst.larges kr hkr

theorem scanLoop_ok {c : Ctx} (hc : CtxOK c) (offset : Int) (target : Nat) :
    ∀ (l : List Nat) (i : Nat) (st st' : St), scanLoop c offset target l i st = .ok st' →
    StOK c.n st → StOK c.n st' := by
  intro l
  induction l with
  | nil => intro i st st' h hst; simp only [scanLoop, pure_eq_ok] at h; subst h; exact hst
  | cons sz t ih =>
    intro i st st' h hst
    unfold scanLoop at h
    split at h
    · simp only [bind_eq_ok] at h
      obtain ⟨r, hr, h⟩ := h
      cases r with
      | none => exact ih _ _ _ h hst
      | some rel =>
        simp only [bind_eq_ok] at h
        obtain ⟨st1, hp, h⟩ := h
        obtain ⟨g1, g2, _, g4⟩ := candidate_valid hc hr
        exact ih _ _ _ h (process_ok hp hst g1 g2 g4)
    · exact ih _ _ _ h hst

theorem runBlock_ok {c : Ctx} (hc : CtxOK c) {blk : Nat} {st st' : St}
    (h : runBlock c blk st = .ok st') (hst : StOK c.n st) : StOK c.n st' := by
  unfold runBlock at h
  simp only [bind_eq_ok] at h
  obtain ⟨iv, _, target, _, h⟩ := h
  exact scanLoop_ok hc _ _ _ _ _ _ h hst

theorem blockLoop_ok {c : Ctx} (hc : CtxOK c) : ∀ (l : List Nat) (st st' : St),
    blockLoop c l st = .ok st' → StOK c.n st → StOK c.n st' := by
  intro l
  induction l with
  | nil => intro st st' h hst; simp only [blockLoop, pure_eq_ok] at h; subst h; exact hst
  | cons blk t ih =>
    intro st st' h hst
    unfold blockLoop at h
    simp only [bind_eq_ok] at h
    obtain ⟨st1, h1, h⟩ := h
    have hst1 := runBlock_ok hc h1 hst
    split at h
    · rw [pure_eq_ok] at h; subst h; exact hst1
    · exact ih _ _ h hst1

/-! ### set-up -/

/-- everything `setup` has checked and computed when it goes on to the sieve -/
structure SetupRun (n k : Nat) (c : Ctx) : Prop where
  nsq : n ≠ Arith.isqrt n * Arith.isqrt n
  nk64 : n * k < W64
  fb : new64 (n * k) = .ok c.fb
  en : c.n = n
  enk : c.nk = n * k
  ens : c.nsqrt = Arith.isqrt (n * k)
  eb : c.b = 2 * c.nsqrt
  ec : c.c = n * k - c.nsqrt * c.nsqrt
  ebs : c.bsize = if bitlen n ≤ 50 then 4096 else 16384
  noexit : ¬ (n * k = c.nsqrt * c.nsqrt ∧ n = c.nsqrt / k * c.nsqrt)

theorem setup_run {n k : Nat} {c : Ctx} (h : setup n k = .ok (.run c)) : SetupRun n k c := by
  unfold setup at h
  simp only at h
  split at h
  · simp [throw_ne_ok] at h
  split at h
  · simp [pure_eq_ok] at h
  rename_i _ hnsq
  split at h
  · simp [throw_ne_ok] at h
  rename_i hnk
  simp only [bind_eq_ok] at h
  obtain ⟨fb, hfb, h⟩ := h
  split at h
  · simp [throw_ne_ok] at h
  split at h
  · simp [throw_ne_ok] at h
  split at h
  · simp [throw_ne_ok] at h
  split at h
  · simp [pure_eq_ok] at h
  rename_i hnoexit
  split at h
  · simp [throw_ne_ok] at h
  split at h
  · simp [throw_ne_ok] at h
  simp only [pure_eq_ok, Setup.run.injEq] at h
  subst h
  exact ⟨hnsq, by omega, hfb, rfl, rfl, rfl, rfl, rfl, rfl, hnoexit⟩

theorem SetupRun.sq_le {n k : Nat} {c : Ctx} (h : SetupRun n k c) :
    c.nsqrt * c.nsqrt ≤ n * k ∧ n * k < (c.nsqrt + 1) * (c.nsqrt + 1) := by
  rw [h.ens]; exact Arith.isqrt_spec' _

theorem SetupRun.ns32 {n k : Nat} {c : Ctx} (h : SetupRun n k c) : c.nsqrt < 2 ^ 32 := by
  by_contra hge
  have h1 : 2 ^ 32 ≤ c.nsqrt := by omega
  have h2 : 2 ^ 32 * 2 ^ 32 ≤ c.nsqrt * c.nsqrt := Nat.mul_le_mul h1 h1
  have h3 := h.sq_le.1
  have h4 := h.nk64
  have : (W64 : Nat) = 2 ^ 32 * 2 ^ 32 := by decide
  omega

theorem SetupRun.ctxOK {n k : Nat} {c : Ctx} (h : SetupRun n k c) : CtxOK c := by
  have h32 := h.ns32
  have hsq := h.sq_le
  have hI : (I63 : Nat) = 2 ^ 63 := by decide
  refine ⟨?_, h.eb, ?_, by omega, by rw [h.eb]; omega, ?_, new64_entries h.fb⟩
  · rw [h.en, h.enk]; exact Dvd.intro _ rfl
  · rw [h.ec, h.enk]; omega
  · rw [h.ec]
    have : (c.nsqrt + 1) * (c.nsqrt + 1) = c.nsqrt * c.nsqrt + 2 * c.nsqrt + 1 := by ring
    omega

/-- all relations handed to `final_step` are complete congruences modulo `n` -/
theorem qsRels_valid {n k : Nat} {fb : List FbEntry} {rels : List Relation}
    (h : qsRels n k = .ok (.rels fb rels)) : ∀ r ∈ rels, FinalRel n r := by
  unfold qsRels at h
  simp only [bind_eq_ok] at h
  obtain ⟨s, hs, h⟩ := h
  cases s with
  | early a b => simp [pure_eq_ok] at h
  | run c =>
    simp only [bind_eq_ok, pure_eq_ok, Outcome.rels.injEq] at h
    obtain ⟨st, hst, _, rfl⟩ := h
    have hrun := setup_run hs
    have := blockLoop_ok hrun.ctxOK _ _ _ hst (StOK.mk (fun r hr => by cases hr) (fun r hr => by cases hr))
    rw [hrun.en] at this
    exact this.rels

end Ymq.Qsieve64
