/-
MPQS polynomials (C12): Hensel lift, exactness of `make_poly`, the three branches of `prepare_prime`.
-/
import Ymq.Lemmas.PolySiqsExact
import Ymq.Model.MpqsPoly
open Ymq.SiqsPoly (invMod wrap256 bitlen P255 chk256)
namespace Ymq.PolyMpqs
open Ymq.PolyInv Ymq.PolyRoots Ymq.MpqsPoly

/-- Hensel lift of a square root of `n` modulo `d` to a square root modulo `d²`
(the arithmetic of `make_poly`): `h1 = r`, `c = ((n − r²)/d) mod d`, `h2 = c·(2r)⁻¹ mod d`,
`b = h1 + h2·d` satisfies `b² ≡ n (mod d²)`. -/
theorem hensel (n d r i : Nat) (hd : 0 < d) (hr : r * r % d = n % d) (hle : r * r ≤ n)
    (hi : 2 * r * i % d = 1 % d) :
    (r + (n - r * r) / d % d * i % d * d) * (r + (n - r * r) / d % d * i % d * d) % (d * d)
      = n % (d * d) := by
  -- n - r² = d k
  have hdvd : d ∣ n - r * r := (Nat.modEq_iff_dvd' hle).mp (by exact hr)
  obtain ⟨k, hk⟩ := hdvd
  have hkd : (n - r * r) / d = k := by rw [hk, Nat.mul_div_cancel_left _ hd]
  rw [hkd]
  set h2 := k % d * i % d with hh2
  -- 2 r h2 ≡ k (mod d)
  have h1 : (2 * r * h2) % d = k % d := by
    have e1 : (2 * r * h2) % d = (2 * r * (k % d * i)) % d := by
      rw [hh2, Nat.mul_mod, Nat.mod_mod, ← Nat.mul_mod]
    have e2 : 2 * r * (k % d * i) = (2 * r * i) * (k % d) := by ring
    rw [e1, e2, Nat.mul_mod, hi, Nat.mod_mod, ← Nat.mul_mod, one_mul]
    try rw [Nat.mod_mod]
  -- lift to integers
  have hz : ((d * d : Nat) : Int) ∣ ((n : Int) - ((r + h2 * d) * (r + h2 * d) : Nat)) := by
    have h1' : (d : Int) ∣ (k : Int) - ((2 * r * h2 : Nat) : Int) := by
      have : ((2 * r * h2 : Nat) : Int) ≡ (k : Int) [ZMOD d] := by
        exact Int.natCast_modEq_iff.mpr h1
      exact Int.modEq_iff_dvd.mp this
    obtain ⟨t, ht⟩ := h1'
    have hn : (n : Int) = r * r + d * k := by
      have : n = r * r + d * k := by omega
      exact_mod_cast this
    refine ⟨t - h2 * h2, ?_⟩
    push_cast at ht ⊢
    rw [hn]
    linear_combination (d : Int) * ht
  have := (Int.modEq_iff_dvd.mpr hz)
  exact (Int.natCast_modEq_iff.mp this)

theorem chkU_some {x y : Nat} (h : chkU x = some y) : y = x := by
  unfold chkU at h; split at h
  · injection h with h; exact h.symm
  · cases h

/-- the lift when `r² > n` (tiny `n`): `c = (D − ((r² − n)/D mod D)) mod D` plays the part of `(n − r²)/D mod D` -/
theorem hensel_neg (n d r i : Nat) (hd : 0 < d) (hr : r * r % d = n % d) (hlt : n < r * r)
    (hi : 2 * r * i % d = 1 % d) :
    (r + (d - (r * r - n) / d % d) % d * i % d * d) * (r + (d - (r * r - n) / d % d) % d * i % d * d) % (d * d)
      = n % (d * d) := by
  have hdvd : d ∣ r * r - n := (Nat.modEq_iff_dvd' (le_of_lt hlt)).mp (by exact hr.symm)
  obtain ⟨k, hk⟩ := hdvd
  have hkd : (r * r - n) / d = k := by rw [hk, Nat.mul_div_cancel_left _ hd]
  rw [hkd]
  set c := (d - k % d) % d with hc
  set h2 := c * i % d with hh2
  -- c ≡ −k (mod d)
  have hck : (d : Int) ∣ (c : Int) + k := by
    have h1 : (c : Int) ≡ (d : Int) - ((k % d : Nat) : Int) [ZMOD d] := by
      rw [hc]
      have hle : k % d ≤ d := le_of_lt (Nat.mod_lt _ hd)
      push_cast [Nat.cast_sub hle]
      exact Int.mod_modEq _ _
    have h2' : ((k % d : Nat) : Int) ≡ (k : Int) [ZMOD d] := by push_cast; exact Int.mod_modEq _ _
    have h3 : (c : Int) ≡ -(k : Int) [ZMOD d] := by
      calc (c : Int) ≡ (d : Int) - ((k % d : Nat) : Int) [ZMOD d] := h1
        _ ≡ (d : Int) - k [ZMOD d] := Int.ModEq.sub_left _ h2'
        _ ≡ -(k : Int) [ZMOD d] := by
          apply Int.modEq_iff_dvd.mpr; exact ⟨-1, by ring⟩
    have := Int.modEq_iff_dvd.mp h3.symm
    simpa [sub_neg_eq_add, add_comm] using this
  -- 2 r h2 ≡ c (mod d)
  have h1 : (2 * r * h2) % d = c % d := by
    have e1 : (2 * r * h2) % d = (2 * r * (c * i)) % d := by
      rw [hh2, Nat.mul_mod, Nat.mod_mod, ← Nat.mul_mod]
    have e2 : 2 * r * (c * i) = (2 * r * i) * c := by ring
    rw [e1, e2, Nat.mul_mod, hi, Nat.mod_mod, ← Nat.mul_mod, one_mul]
  have hz : ((d * d : Nat) : Int) ∣ ((n : Int) - ((r + h2 * d) * (r + h2 * d) : Nat)) := by
    have h1' : (d : Int) ∣ (c : Int) - ((2 * r * h2 : Nat) : Int) := by
      have : ((2 * r * h2 : Nat) : Int) ≡ (c : Int) [ZMOD d] := Int.natCast_modEq_iff.mpr h1
      exact Int.modEq_iff_dvd.mp this
    obtain ⟨t, ht⟩ := h1'
    obtain ⟨u, hu⟩ := hck
    have hn : (n : Int) = r * r - d * k := by
      have : r * r = n + d * k := by omega
      have : ((r * r : Nat) : Int) = n + d * k := by exact_mod_cast this
      push_cast at this; linarith
    refine ⟨t - u - h2 * h2, ?_⟩
    push_cast at ht ⊢
    rw [hn]
    linear_combination (d : Int) * ht - (d : Int) * hu
  have := (Int.modEq_iff_dvd.mpr hz)
  exact (Int.natCast_modEq_iff.mp this)

/-- what a successful Hensel lift returns -/
theorem henselB_some {n d r b : Nat} (h : henselB n d r = some b) :
    0 < d ∧ r * r % d = n % d ∧
    ∃ i, invMod (2 * r) d = some i ∧
      b = r + (if r * r ≤ n then (n - r * r) / d % d else (d - (r * r - n) / d % d) % d) * i % d * d := by
  unfold henselB at h
  split at h
  · cases h
  · rename_i hd
    split at h
    · cases h
    · rename_i hr
      split at h
      · cases h
      · rename_i hh hhh
        have := chkU_some hhh; subst this
        dsimp only at h
        split at h
        · cases h
        · rename_i i hi
          exact ⟨Nat.pos_of_ne_zero hd, by simpa using hr, i, hi, chkU_some h⟩

/-- `hensel_lift` for the model: the lifted root squares to `n` modulo `D²` -/
theorem henselB_sq {n d r b : Nat} (h : henselB n d r = some b) : b * b % (d * d) = n % (d * d) := by
  obtain ⟨hd, hr, i, hi, hb⟩ := henselB_some h
  obtain ⟨_, hinv, _⟩ := invMod_some hd hi
  rw [hb]
  by_cases hle : r * r ≤ n
  · rw [if_pos hle]; exact hensel n d r i hd hr hle hinv
  · rw [if_neg hle]; exact hensel_neg n d r i hd hr (by omega) hinv

/-- the polynomial of `make_poly` is exact -/
structure MpqsOk (n : Nat) (pol : Poly) : Prop where
  da : pol.a = pol.d * pol.d
  dpos : 0 < pol.d
  odd : n % 4 = 1 → pol.b % 2 = 1 ∧
    (4 * (pol.a : Int)) * pol.c = (pol.b : Int) * pol.b - n ∧ 2 * pol.bb = n + pol.b
  even : n % 4 ≠ 1 → pol.b = 2 * pol.bb ∧ (pol.a : Int) * pol.c = (pol.bb : Int) * pol.bb - n

theorem bitlen_lt' {m k : Nat} (h : bitlen m < k) : m < 2 ^ (k - 1) := Ymq.PolySiqs.bitlen_lt h

theorem mkOdd_ok {n d b0 dinv : Nat} {pol : Poly} (hd : 0 < d) (hdb : d < 2 ^ 127) (hb : b0 < 2 ^ 255)
    (h : mkOdd n d b0 dinv = some pol) (hn : n % 4 = 1) : MpqsOk n pol ∧ pol.d = d ∧ pol.dinv = dinv := by
  unfold mkOdd at h
  split at h
  · cases h
  · rename_i hlt
    dsimp only at h
    split at h
    · cases h
    · rename_i hsq
      split at h
      · cases h
      · rename_i hc
        injection h with h
        subst h
        have hdd : d * d < 2 ^ 254 := by
          have : d * d < 2 ^ 127 * 2 ^ 127 := Nat.mul_lt_mul'' hdb hdb
          calc d * d < 2 ^ 127 * 2 ^ 127 := this
            _ = 2 ^ 254 := by norm_num
        set b := oddB d b0 with hbdef
        have hbl : b < 2 ^ 256 := by
          rw [hbdef, oddB]; split <;> omega
        have hbodd : b % 2 = 1 := by
          -- b² ≡ n (mod 4 d²), n odd
          have hsq' : b * b % (4 * (d * d)) = n % (4 * (d * d)) := by simpa using hsq
          have h2 : b * b % 2 = n % 2 := by
            have h4 : (b * b) % (4 * (d * d)) % 2 = n % (4 * (d * d)) % 2 := by rw [hsq']
            rwa [Nat.mod_mod_of_dvd _ (Dvd.intro_left _ (by ring : 2 * (d * d) * 2 = 4 * (d * d))),
              Nat.mod_mod_of_dvd _ (Dvd.intro_left _ (by ring : 2 * (d * d) * 2 = 4 * (d * d)))] at h4
          have hn2 : n % 2 = 1 := by omega
          rw [hn2] at h2
          by_contra hb0
          have : b % 2 = 0 := by omega
          have : b * b % 2 = 0 := by rw [Nat.mul_mod, this]
          omega
        have hdvd : ((4 * (d * d) : Nat) : Int) ∣ ((b * b : Nat) : Int) - (n : Int) := by
          have hsq' : b * b % (4 * (d * d)) = n % (4 * (d * d)) := by simpa using hsq
          have : ((n : Nat) : Int) ≡ ((b * b : Nat) : Int) [ZMOD ((4 * (d * d) : Nat) : Int)] :=
            Int.natCast_modEq_iff.mpr hsq'.symm
          exact Int.modEq_iff_dvd.mp this
        have hcfit : wrap256 (Int.tdiv (((b * b : Nat) : Int) - (n : Int)) ((4 * (d * d) : Nat) : Int))
            = Int.tdiv (((b * b : Nat) : Int) - (n : Int)) ((4 * (d * d) : Nat) : Int) := by
          apply Ymq.PolySiqs.wrap256_eq
          have hlt := bitlen_lt' (not_not.mp hc)
          generalize Int.tdiv (((b * b : Nat) : Int) - (n : Int)) ((4 * (d * d) : Nat) : Int) = cc at hlt ⊢
          have e : (2 : Nat) ^ (256 - 1) = 57896044618658097711785492504343953926634992332820282019728792003956564819968 := by
            norm_num
          rw [e] at hlt
          unfold P255
          omega
        refine ⟨⟨?_, hd, ?_, ?_⟩, rfl, rfl⟩
        · simp only; rw [Nat.mod_eq_of_lt (by omega)]
        · intro _
          simp only
          rw [Nat.mod_eq_of_lt hbl, Nat.mod_eq_of_lt (by omega : d * d < 2 ^ 256), hcfit]
          refine ⟨hbodd, ?_, ?_⟩
          · have := Int.mul_tdiv_cancel' hdvd
            push_cast at this ⊢
            linarith
          · have : (n + b) % 2 = 0 := by omega
            omega
        · intro hne; exact absurd hn hne

theorem mkEven_ok {n d b0 dinv : Nat} {pol : Poly} (hd : 0 < d) (hdb : d < 2 ^ 127) (hb : b0 < 2 ^ 255)
    (hb0 : b0 * b0 % (d * d) = n % (d * d))
    (h : mkEven n d b0 dinv = some pol) (hn : n % 4 ≠ 1) :
    MpqsOk n pol ∧ pol.d = d ∧ pol.dinv = dinv := by
  unfold mkEven at h
  split at h
  · cases h
  · rename_i hlt
    dsimp only at h
    split at h
    · cases h
    · rename_i hc
      injection h with h
      subst h
      have hdd : d * d < 2 ^ 254 := by
        have : d * d < 2 ^ 127 * 2 ^ 127 := Nat.mul_lt_mul'' hdb hdb
        calc d * d < 2 ^ 127 * 2 ^ 127 := this
          _ = 2 ^ 254 := by norm_num
      set b := evenB d b0 with hbdef
      have hbl : b < 2 ^ 255 := by
        rw [hbdef, evenB]; split <;> omega
      -- b² ≡ n (mod d²) also after the flip
      have hdvd : ((d * d : Nat) : Int) ∣ ((b * b : Nat) : Int) - (n : Int) := by
        have h0 : ((d * d : Nat) : Int) ∣ ((b0 * b0 : Nat) : Int) - (n : Int) := by
          have : ((n : Nat) : Int) ≡ ((b0 * b0 : Nat) : Int) [ZMOD ((d * d : Nat) : Int)] :=
            Int.natCast_modEq_iff.mpr hb0.symm
          exact Int.modEq_iff_dvd.mp this
        rw [hbdef, evenB]
        split
        · rename_i hodd
          have hle : b0 ≤ d * d := by
            by_contra hc'; exact hlt ⟨by omega, hodd⟩
          obtain ⟨t, ht⟩ := h0
          refine ⟨t + (d * d : Nat) - 2 * b0, ?_⟩
          push_cast [Nat.cast_sub hle] at ht ⊢
          linear_combination ht
        · exact h0
      have hcfit : wrap256 (Int.tdiv (((b * b : Nat) : Int) - (n : Int)) ((d * d : Nat) : Int))
          = Int.tdiv (((b * b : Nat) : Int) - (n : Int)) ((d * d : Nat) : Int) := by
        apply Ymq.PolySiqs.wrap256_eq
        have hlt := bitlen_lt' (not_not.mp hc)
        generalize Int.tdiv (((b * b : Nat) : Int) - (n : Int)) ((d * d : Nat) : Int) = cc at hlt ⊢
        have e : (2 : Nat) ^ (256 - 1) = 57896044618658097711785492504343953926634992332820282019728792003956564819968 := by
          norm_num
        rw [e] at hlt
        unfold P255
        omega
      refine ⟨⟨?_, hd, ?_, ?_⟩, rfl, rfl⟩
      · simp only; rw [Nat.mod_eq_of_lt (by omega)]
      · intro h1; exact absurd h1 hn
      · intro _
        simp only
        rw [Nat.mod_eq_of_lt (by omega : 2 * b < 2 ^ 256), Nat.mod_eq_of_lt (by omega : d * d < 2 ^ 256),
          hcfit]
        refine ⟨rfl, ?_⟩
        have := Int.mul_tdiv_cancel' hdvd
        push_cast at this ⊢
        linarith

/-- `make_poly`: the returned polynomial is exact and `dinv` inverts `D` modulo `n` -/
theorem makePoly_ok {n d r : Nat} {pol : Poly} (h : makePoly n d r = some pol) :
    MpqsOk n pol ∧ pol.d = d ∧ pol.dinv < n ∧ d * pol.dinv % n = 1 % n := by
  unfold makePoly at h
  split at h
  · cases h
  · rename_i b hb
    split at h
    · cases h
    · rename_i dinv hdinv
      split at h
      · cases h
      · rename_i hdbits
        split at h
        · cases h
        · rename_i hbbits
          split at h
          · cases h
          · rename_i hsq
            obtain ⟨hd, _⟩ := henselB_some hb
            have hdb : d < 2 ^ 127 := bitlen_lt' (not_not.mp hdbits)
            have hbb : b < 2 ^ 255 := bitlen_lt' (not_not.mp hbbits)
            have hn0 : n ≠ 0 := by
              intro h0; rw [if_pos h0] at hdinv; cases hdinv
            rw [if_neg hn0] at hdinv
            obtain ⟨hi1, hi2, _⟩ := invMod_some (Nat.pos_of_ne_zero hn0) hdinv
            split at h
            · rename_i hn4
              obtain ⟨ok, hd', hdi⟩ := mkOdd_ok hd hdb hbb h hn4
              exact ⟨ok, hd', by rw [hdi]; exact hi1, by rw [hdi]; exact hi2⟩
            · rename_i hn4
              obtain ⟨ok, hd', hdi⟩ := mkEven_ok hd hdb hbb (by simpa using hsq) h hn4
              exact ⟨ok, hd', by rw [hdi]; exact hi1, by rw [hdi]; exact hi2⟩

/-! ### prepare_prime -/

/-- the value of the MPQS polynomial at `y`: `A y² + B y + C` -/
def mpqsVal (pol : Poly) (y : Int) : Int := (pol.a : Int) * y ^ 2 + (pol.b : Int) * y + pol.c

theorem shift_spec {p off t : Nat} (ht : t < p) (hoff : off < p) :
    shift p off t < p ∧ ((shift p off t : Nat) : ZMod p) = (t : ZMod p) - (off : ZMod p) := by
  unfold shift
  split
  · refine ⟨by omega, ?_⟩
    rw [Nat.cast_sub (by omega), Nat.cast_add, ZMod.natCast_self]; ring
  · refine ⟨by omega, ?_⟩
    rw [Nat.cast_sub (by omega)]

theorem off_spec {p : Nat} (hp : 0 < p) (offset : Int) :
    (offset % (p : Int)).toNat < p ∧
      (((offset % (p : Int)).toNat : Nat) : ZMod p) = (offset : ZMod p) := by
  have h0 := Int.emod_nonneg offset (by exact_mod_cast hp.ne' : (p : Int) ≠ 0)
  refine ⟨(Int.toNat_lt h0).mpr (Int.emod_lt_of_pos _ (by exact_mod_cast hp)), ?_⟩
  rw [← Int.cast_natCast, Int.toNat_of_nonneg h0, ZMod.intCast_mod]

theorem zmod_to_modEq {p : Nat} {a b : Int} (h : ((a : Int) : ZMod p) = ((b : Int) : ZMod p)) :
    a ≡ b [ZMOD p] := (ZMod.intCast_eq_intCast_iff _ _ _).mp h

/-- generic branch: `p` odd, `p ∤ D` -/
theorem preparePrime_generic {n : Nat} {pol : Poly} {p r dinv : Nat} {offset : Int} {r1 r2 : Nat}
    (ok : MpqsOk n pol) (hp : Nat.Prime p) (hp2 : p ≠ 2) (hr : r < p)
    (hsq : (r : Int) * r ≡ n [ZMOD p]) (hdinv0 : dinv ≠ 0) (hdinv : pol.d * dinv % p = 1)
    (h : preparePrime pol p r dinv offset = some (r1, r2)) (x : Int) :
    r1 < p ∧ r2 < p ∧
    ((p : Int) ∣ mpqsVal pol (x + offset) ↔ (x ≡ (r1 : Int) [ZMOD p] ∨ x ≡ (r2 : Int) [ZMOD p])) := by
  have hppos : 0 < p := hp.pos
  unfold preparePrime at h
  simp only [hppos.ne', if_false, hp2, hdinv0] at h
  obtain ⟨hofflt, hoffz⟩ := off_spec hppos offset
  -- A · d2inv = 1
  have hdz : (pol.d : ZMod p) * (dinv : ZMod p) = 1 := by
    have : ((pol.d * dinv % p : Nat) : ZMod p) = ((1 : Nat) : ZMod p) := by rw [hdinv]
    simpa [ZMod.natCast_mod] using this
  have haz : (pol.a : ZMod p) * ((dinv * dinv % p : Nat) : ZMod p) = 1 := by
    rw [ok.da, ZMod.natCast_mod]; push_cast
    linear_combination ((pol.d : ZMod p) * (dinv : ZMod p) + 1) * hdz
  have hpa : ¬ ((p : Int) ∣ (pol.a : Int)) := by
    intro hd
    have : (pol.a : ZMod p) = 0 := by
      have := (ZMod.intCast_zmod_eq_zero_iff_dvd (pol.a : Int) p).mpr hd
      simpa using this
    rw [this, zero_mul] at haz
    have : Fact (1 < p) := ⟨hp.one_lt⟩
    exact zero_ne_one haz
  have hp2' : ¬ ((p : Int) ∣ 2) := by
    intro hd
    have : p ∣ 2 := Int.natCast_dvd_natCast.mp (by simpa using hd)
    exact hp2 ((Nat.prime_dvd_prime_iff_eq hp Nat.prime_two).mp this)
  set d2inv := dinv * dinv % p with hd2
  have hd2lt : d2inv < p := Nat.mod_lt _ hppos
  by_cases hbodd : pol.b % 2 = 1
  · -- odd B: L = 2A, M = 4A
    simp only [hbodd, if_true] at h
    split at h
    · cases h
    · rename_i hund
      injection h with h
      injection h with h1 h2
      have hn4 : n % 4 = 1 := by
        by_contra hne
        have := (ok.even hne).1; omega
      obtain ⟨_, hc, _⟩ := ok.odd hn4
      set ainv := halfMod p d2inv with hainv
      have hpodd : p % 2 = 1 := hp.eq_two_or_odd.resolve_left hp2
      have hainv2 : (2 : ZMod p) * (ainv : ZMod p) = (d2inv : ZMod p) := by
        have : 2 * ainv = d2inv ∨ 2 * ainv = d2inv + p := by
          rw [hainv, halfMod]; split <;> omega
        rcases this with e | e
        · have : ((2 * ainv : Nat) : ZMod p) = (d2inv : ZMod p) := by rw [e]
          simpa using this
        · have : ((2 * ainv : Nat) : ZMod p) = ((d2inv + p : Nat) : ZMod p) := by rw [e]
          simpa using this
      have hL : (2 * (pol.a : ZMod p)) * (ainv : ZMod p) = 1 := by
        linear_combination (pol.a : ZMod p) * hainv2 + haz
      have hblt : pol.b % p < p := Nat.mod_lt _ hppos
      obtain ⟨hs1, hz1⟩ := shift_spec (p := p) (off := (offset % (p : Int)).toNat)
        (t := (p + r - pol.b % p) * ainv % p) (Nat.mod_lt _ hppos) hofflt
      obtain ⟨hs2, hz2⟩ := shift_spec (p := p) (off := (offset % (p : Int)).toNat)
        (t := (2 * p - r - pol.b % p) * ainv % p) (Nat.mod_lt _ hppos) hofflt
      rw [h1] at hs1 hz1
      rw [h2] at hs2 hz2
      refine ⟨hs1, hs2, ?_⟩
      have e1 : (((p + r - pol.b % p) * ainv % p : Nat) : ZMod p)
          = ((r : ZMod p) - (pol.b : ZMod p)) * ainv := by
        rw [ZMod.natCast_mod, Nat.cast_mul, Nat.cast_sub (by omega), Nat.cast_add, ZMod.natCast_self,
          ZMod.natCast_mod]; ring
      have e2 : (((2 * p - r - pol.b % p) * ainv % p : Nat) : ZMod p)
          = (-(r : ZMod p) - (pol.b : ZMod p)) * ainv := by
        rw [ZMod.natCast_mod, Nat.cast_mul, Nat.cast_sub (by omega), Nat.cast_sub (by omega),
          Nat.cast_mul, ZMod.natCast_self, ZMod.natCast_mod]; push_cast; ring
      rw [e1, hoffz] at hz1
      rw [e2, hoffz] at hz2
      have := quad_roots_iff hp (L := 2 * (pol.a : Int)) (M := 4 * (pol.a : Int)) (n := (n : Int))
        (r := (r : Int)) (Pv := mpqsVal pol (x + offset)) (x := x) (r1 := (r2 : Int)) (r2 := (r1 : Int))
        (so := offset) (b := (pol.b : Int))
        (by unfold mpqsVal; linear_combination (x + offset - x - offset) * hc + hc)
        (by
          intro hd
          have e : (4 : Int) * (pol.a : Int) = 2 * (2 * (pol.a : Int)) := by ring
          rw [e] at hd
          rcases int_prime_dvd_mul hp hd with h | h
          · exact hp2' h
          · rcases int_prime_dvd_mul hp h with h | h
            · exact hp2' h
            · exact hpa h)
        (by
          intro hd
          rcases int_prime_dvd_mul hp hd with h | h
          · exact hp2' h
          · exact hpa h)
        hsq
        (by
          apply zmod_to_modEq; push_cast; rw [hz2]
          linear_combination (-(r : ZMod p) - (pol.b : ZMod p)) * hL)
        (by
          apply zmod_to_modEq; push_cast; rw [hz1]
          linear_combination ((r : ZMod p) - (pol.b : ZMod p)) * hL)
      rw [this]; exact Or.comm
  · -- even B: L = A, M = A, B/2 = bb
    simp only [hbodd, if_false] at h
    split at h
    · cases h
    · rename_i hund
      injection h with h
      injection h with h1 h2
      have hn4 : n % 4 ≠ 1 := by
        intro h4; exact hbodd (ok.odd h4).1
      obtain ⟨hb2, hc⟩ := ok.even hn4
      have hblt : pol.bb % p < p := Nat.mod_lt _ hppos
      obtain ⟨hs1, hz1⟩ := shift_spec (p := p) (off := (offset % (p : Int)).toNat)
        (t := (p + r - pol.bb % p) * d2inv % p) (Nat.mod_lt _ hppos) hofflt
      obtain ⟨hs2, hz2⟩ := shift_spec (p := p) (off := (offset % (p : Int)).toNat)
        (t := (2 * p - r - pol.bb % p) * d2inv % p) (Nat.mod_lt _ hppos) hofflt
      rw [h1] at hs1 hz1
      rw [h2] at hs2 hz2
      refine ⟨hs1, hs2, ?_⟩
      have e1 : (((p + r - pol.bb % p) * d2inv % p : Nat) : ZMod p)
          = ((r : ZMod p) - (pol.bb : ZMod p)) * d2inv := by
        rw [ZMod.natCast_mod, Nat.cast_mul, Nat.cast_sub (by omega), Nat.cast_add, ZMod.natCast_self,
          ZMod.natCast_mod]; ring
      have e2 : (((2 * p - r - pol.bb % p) * d2inv % p : Nat) : ZMod p)
          = (-(r : ZMod p) - (pol.bb : ZMod p)) * d2inv := by
        rw [ZMod.natCast_mod, Nat.cast_mul, Nat.cast_sub (by omega), Nat.cast_sub (by omega),
          Nat.cast_mul, ZMod.natCast_self, ZMod.natCast_mod]; push_cast; ring
      rw [e1, hoffz] at hz1
      rw [e2, hoffz] at hz2
      have := quad_roots_iff hp (L := (pol.a : Int)) (M := (pol.a : Int)) (n := (n : Int))
        (r := (r : Int)) (Pv := mpqsVal pol (x + offset)) (x := x) (r1 := (r2 : Int)) (r2 := (r1 : Int))
        (so := offset) (b := (pol.bb : Int))
        (by unfold mpqsVal; rw [hb2]; push_cast; linear_combination hc)
        hpa hpa hsq
        (by
          apply zmod_to_modEq; push_cast; rw [hz2]
          linear_combination (-(r : ZMod p) - (pol.bb : ZMod p)) * haz)
        (by
          apply zmod_to_modEq; push_cast; rw [hz1]
          linear_combination ((r : ZMod p) - (pol.bb : ZMod p)) * haz)
      rw [this]; exact Or.comm

/-- `p = 2`: the pair `(0, 1)` covers every position -/
theorem preparePrime_two {pol : Poly} {r dinv : Nat} {offset : Int} :
    preparePrime pol 2 r dinv offset = some (0, 1) ∧
      ∀ x : Int, x ≡ ((0 : Nat) : Int) [ZMOD (2 : Nat)] ∨ x ≡ ((1 : Nat) : Int) [ZMOD (2 : Nat)] := by
  refine ⟨by simp [preparePrime], ?_⟩
  intro x
  have : x % 2 = 0 ∨ x % 2 = 1 := by omega
  rcases this with h | h
  · left; exact h
  · right; exact h

/-- `p` odd, `p ∣ D` (`dinv = 0`): the polynomial is `Bx + C` modulo `p`; one root, for either sign of `C` -/
theorem preparePrime_div {n : Nat} {pol : Poly} {p r : Nat} {offset : Int} {r1 r2 : Nat}
    (ok : MpqsOk n pol) (hp : Nat.Prime p) (hp2 : p ≠ 2) (hpd : p ∣ pol.d)
    (h : preparePrime pol p r 0 offset = some (r1, r2)) (x : Int) :
    r1 = r2 ∧ r1 < p ∧ ((p : Int) ∣ mpqsVal pol (x + offset) ↔ x ≡ (r1 : Int) [ZMOD p]) := by
  have hppos : 0 < p := hp.pos
  unfold preparePrime at h
  simp only [hppos.ne', if_false, hp2, if_true] at h
  obtain ⟨hofflt, hoffz⟩ := off_spec hppos offset
  split at h
  · cases h
  · rename_i hb0
    split at h
    · cases h
    · rename_i binv hbinv
      obtain ⟨_, hb2, _⟩ := invMod_some hppos hbinv
      injection h with h
      injection h with h1 h2
      have hbz : (pol.b : ZMod p) * (binv : ZMod p) = 1 := by
        have : ((pol.b % p * binv % p : Nat) : ZMod p) = ((1 % p : Nat) : ZMod p) := by rw [hb2]
        simpa [ZMod.natCast_mod] using this
      set cz : Nat := if pol.c < 0 ∨ pol.c.natAbs % p = 0 then pol.c.natAbs % p
        else p - pol.c.natAbs % p with hcz
      have habs : ((pol.c.natAbs : Nat) : ZMod p) = if pol.c < 0 then -(pol.c : ZMod p) else (pol.c : ZMod p) := by
        split
        · rename_i hneg
          have : (pol.c.natAbs : Int) = -pol.c := by omega
          rw [← Int.cast_natCast, this]; simp
        · rename_i hnn
          have : (pol.c.natAbs : Int) = pol.c := by omega
          rw [← Int.cast_natCast, this]
      have hczz : (cz : ZMod p) = -(pol.c : ZMod p) := by
        rw [hcz]
        by_cases hneg : pol.c < 0
        · rw [if_pos (Or.inl hneg), ZMod.natCast_mod, habs, if_pos hneg]
        · by_cases h0 : pol.c.natAbs % p = 0
          · rw [if_pos (Or.inr h0)]
            have : ((pol.c.natAbs % p : Nat) : ZMod p) = 0 := by rw [h0]; simp
            rw [this]
            rw [ZMod.natCast_mod, habs, if_neg hneg] at this
            rw [this]; simp
          · rw [if_neg (by tauto), Nat.cast_sub (le_of_lt (Nat.mod_lt _ hppos)), ZMod.natCast_self,
              ZMod.natCast_mod, habs, if_neg hneg]; ring
      obtain ⟨hs, hz⟩ := shift_spec (p := p) (off := (offset % (p : Int)).toNat)
        (t := cz * binv % p) (Nat.mod_lt _ hppos) hofflt
      rw [h1] at hs hz
      refine ⟨by rw [← h1, ← h2], hs, ?_⟩
      have hpa : (p : Int) ∣ (pol.a : Int) := by
        rw [ok.da]; push_cast
        exact Dvd.dvd.mul_right (Int.natCast_dvd_natCast.mpr hpd) _
      refine lin_root_iff hp (Lc := (pol.b : Int)) (C := pol.c) (so := offset) ?_ ?_ ?_
      · unfold mpqsVal
        apply Int.modEq_iff_dvd.mpr
        have e : (pol.b : Int) * (x + offset) + pol.c
            - ((pol.a : Int) * (x + offset) ^ 2 + (pol.b : Int) * (x + offset) + pol.c)
            = -(pol.a : Int) * (x + offset) ^ 2 := by ring
        rw [e]; exact Dvd.dvd.mul_right (Int.dvd_neg.mpr hpa) _
      · intro hd
        have : (pol.b : ZMod p) = 0 := by
          have := (ZMod.intCast_zmod_eq_zero_iff_dvd (pol.b : Int) p).mpr hd
          simpa using this
        rw [this, zero_mul] at hbz
        have : Fact (1 < p) := ⟨hp.one_lt⟩
        exact zero_ne_one hbz
      · apply zmod_to_modEq
        push_cast
        rw [hz, ZMod.natCast_mod, hoffz]
        push_cast
        rw [hczz]
        linear_combination (-(pol.c : ZMod p)) * hbz

end Ymq.PolyMpqs
