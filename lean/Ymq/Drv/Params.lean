/- Driver side of C20: the generated parameter model answers the same request lines as
harness/src/ops_params.rs. -/
import Ymq.Drv.Util
import Ymq.Gen.Params
import Ymq.Gen.Stage2

namespace Ymq.Drv
open Ymq.Gen

private def showRow (r : Nat × Nat × Nat) : String := s!"{r.1}:{r.2.1}:{r.2.2}"

def handleParams : Handler
  | "param" :: fn :: args => do
    let a ← args.mapM parseNat
    match Params.evalParam fn a with
    | none => none
    | some none => some "panic"
    | some (some l) => some (",".intercalate (l.map toString))
  | ["stage2", t, num, den] => do
    let num ← parseNat num; let den ← parseNat den
    let r ← (if t = "ecm" then some (Stage2.stage2Select num den)
             else if t = "pm1" then some (Stage2.pm1Stage2Select num den) else none)
    match r with
    | none => some "panic"
    | some (b, d1, d2) => some s!"{b},{d1},{d2}"
  | ["stage2_table", t] =>
    if t = "ecm" then some (",".intercalate (Stage2.ecmTable.map showRow))
    else if t = "pm1" then some (",".intercalate (Stage2.pm1Table.map showRow))
    else none
  | ["convolve_run", bits, k] => do
    -- the real `convolve_modn` returns iff the dispatch finds an arm, the assert on the modulus
    -- size holds and the FFT length `size >> logpack` is not zero
    let bits ← parseNat bits; let k ← parseNat k
    if bits < 2 then none else
    match Params.arith_fft.convolve_dispatch bits (2 ^ k) with
    | none => some "panic"
    | some r => some (if bits ≤ Params.CONVOLVE_MAX_BITS ∧ 1 ≤ 2 ^ k / 2 ^ r.2.1 then "ok" else "panic")
  | ["ntt_primes"] => some (",".intercalate (Params.NTT_PRIMES.map fun r => s!"{r.1}:{r.2}"))
  | _ => none

end Ymq.Drv
