import Ymq.Drv.Util
import Ymq.Model.Dividers
import Ymq.Model.Inverter
import Ymq.Model.Arith

/-! Driver for the C08 models (Dividers, Inverter, sqrt_mod, pow_mod, inv_mod64, perfect_power,
isqrt). Request arguments outside the Rust parameter type are not answered (`?`), like the
harness does. -/

namespace Ymq.Drv
open Ymq.Dividers Ymq.Limbs

private def parseU (bits : Nat) (s : String) : Option Nat := do
  let n ← parseNat s
  if n < 2 ^ bits then some n else none

private def parseI64 (s : String) : Option Int := do
  let n ← parseInt s
  if -9223372036854775808 ≤ n ∧ n ≤ 9223372036854775807 then some n else none

private def parseWidth : List String → Option Nat
  | [] => some 16
  | [w] => do
    let w ← parseNat w
    if w = 4 ∨ w = 8 ∨ w = 16 then some w else none
  | _ => none

private def pn : Option Nat → String
  | none => "panic"
  | some x => toString x

private def pPair : Option (Nat × Nat) → String
  | none => "panic"
  | some (q, r) => s!"{q} {r}"

private def pOptOpt : Option (Option Nat) → String
  | none => "panic"
  | some x => showOptNat x

private def pDigits : Option (List Nat × Nat) → String
  | none => "panic"
  | some (qs, r) => s!"{val qs} {r}"

private def withDiv (p : Nat) (f : Div → String) : String :=
  match Dividers.new p with
  | none => "panic"
  | some d => f d

private def B64 : Nat := 2 ^ 64
private def B1024 : Nat := 2 ^ 1024

def handleArith : Handler
  | ["div_new", p] => do
    let p ← parseU 32 p
    some (withDiv p fun d => s!"{d.p} {d.r64} {d.m64} {d.s64} {d.s16} {d.m16}")
  | ["div_divmod64", p, n] => do
    let p ← parseU 32 p; let n ← parseU 64 n
    some (withDiv p fun d => pPair (divmod64 d n))
  | ["div_modu63", p, n] => do
    let p ← parseU 32 p; let n ← parseU 64 n
    some (withDiv p fun d => pn (modu63 d n))
  | ["div_modi64", p, n] => do
    let p ← parseU 32 p; let n ← parseI64 n
    some (withDiv p fun d => pn (modi64 d n))
  | ["div_modu16", p, n] => do
    let p ← parseU 32 p; let n ← parseU 16 n
    some (withDiv p fun d => pn (modu16 d n))
  | ["div_mod_u128", p, n] => do
    let p ← parseU 32 p; let n ← parseU 128 n
    some (withDiv p fun d => pn (modU128 d n))
  | "div_mod_uint" :: p :: n :: w => do
    let w ← parseWidth w
    let p ← parseU 32 p; let n ← parseU (64 * w) n
    some (withDiv p fun d => pn (modUint d (ofNat w n)))
  | "div_divmod_uint" :: p :: n :: w => do
    let w ← parseWidth w
    let p ← parseU 32 p; let n ← parseU (64 * w) n
    some (withDiv p fun d => pDigits (divmodUint d (ofNat w n)))
  | "div_inplace" :: p :: n :: w => do
    let w ← parseWidth w
    let p ← parseU 32 p; let n ← parseU (64 * w) n
    some (withDiv p fun d => pDigits (divmodUintInplace d (ofNat w n)))
  | ["inverter_new", p] => do
    let p ← parseU 32 p
    some (match Inverter.new p with | none => "panic" | some t => showList t)
  | ["inverter", p, x] => do
    let p ← parseU 32 p; let x ← parseU 32 x
    some (withDiv p fun d =>
      match Inverter.new p with
      | none => "panic"
      | some t => pn (Inverter.invert t d x))
  | ["sqrt_mod", n, p] => do
    let n ← parseU 64 n; let p ← parseU 64 p
    some (pOptOpt (Arith.sqrtMod B64 n p))
  | ["sqrt_mod_uint", n, p] => do
    let n ← parseU 1024 n; let p ← parseU 1024 p
    some (pOptOpt (Arith.sqrtMod B1024 n p))
  | ["pow_mod", n, k, p] => do
    let n ← parseU 64 n; let k ← parseU 64 k; let p ← parseU 64 p
    some (pn (Arith.powMod B64 n k p))
  | ["pow_mod_uint", n, k, p] => do
    let n ← parseU 1024 n; let k ← parseU 1024 k; let p ← parseU 1024 p
    some (pn (Arith.powMod B1024 n k p))
  | ["mulmod", x, y, p] => do
    let x ← parseU 64 x; let y ← parseU 64 y; let p ← parseU 64 p
    some (pn (Arith.mulmod B64 x y p))
  | ["mulmod_uint", x, y, p] => do
    let x ← parseU 1024 x; let y ← parseU 1024 y; let p ← parseU 1024 p
    some (pn (Arith.mulmod B1024 x y p))
  | ["inv_mod64", n, p] => do
    let n ← parseU 64 n; let p ← parseU 64 p
    some (pOptOpt (Arith.invMod64 n p))
  | ["perfect_power", n] => do
    let n ← parseU 64 n
    some (match Arith.perfectPower n with
      | none => "panic" | some none => "none" | some (some (r, k)) => s!"some {r} {k}")
  | ["perfect_power_uint", n] => do
    let n ← parseU 1024 n
    some (match Arith.perfectPower n with
      | none => "panic" | some none => "none" | some (some (r, k)) => s!"some {r} {k}")
  | ["isqrt", n] => do
    let n ← parseU 64 n
    some (toString (Arith.isqrt n))
  | ["isqrt_uint", n] => do
    let n ← parseU 1024 n
    some (toString (Arith.isqrt n))
  | ["squfof_isqrt", n, seed] => do
    let n ← parseU 64 n; let seed ← parseU 64 seed
    some (pn (Arith.squfofIsqrt 200 n seed))
  | _ => none

end Ymq.Drv
