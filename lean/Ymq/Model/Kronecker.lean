/-
Model of the Kronecker-substitution convolution `_convolve_modn::<N>` of src/arith_fft.rs
(property C10): index arithmetic of the packing (`logpack`, `stride`, `mask`), of the output
digit slices and of the `offset` window, over an ABSTRACT cyclic product `cyc` of the packed
big integers modulo `F = 2^(64N) + 1` (the Fermat transform `mulfft`, modelled separately in
Ymq/Model/FInt.lean).

Level of detail
* coefficients are the Montgomery residues held in the `MInt`s (`Nat`s `< n`); an FFT word
  (`FInt<N>`) is the `Nat` value of its `N` words; `copy_from_slice` of the 8 words of an `MInt`
  at word offset `off` is `writeAt` (it REPLACES the words `off .. off+8`, as the code does: with
  `stride = 5 < 8` the upper zero words of one coefficient are overwritten by the next one);
* `zn.redc_large` / `zn.add` are exact modular arithmetic on residues (property C07,
  theorems `redc_large_spec`, `add_spec`): `redcLarge` is defined exactly on the domain proved
  there (`k ≤ len ≤ k+16`, `len < 24`, value `< n·R²`) and is `none` outside;
* panic sites: `p[0]` on an empty `p`, `vp[i >> logpack]` out of range, slice ranges
  `stride*j + 8 ≤ N`, `stride*(j+1) ≤ N`, `..16` on the unpacked arm, `vpq[offset + i]`.
* `wrap = true` is the code after the `fix:` commit (`idx = (i·A + j) % size`); `wrap = false` is
  the index formula of the pinned tree (kept for the counter-witness theorem).
No Mathlib import: this file is linked into the native driver.
-/
import Ymq.Model.PolySpec
import Ymq.Model.FInt
import Ymq.Gen.Params

namespace Ymq.Kronecker
open Ymq.PolySpec

/-- 2^64 -/
def W : Nat := 18446744073709551616

/-- `dst.0[off .. off+8].copy_from_slice(&c.0)` on the value of the word vector -/
def writeAt (word off c : Nat) : Nat :=
  word % W ^ off + c * W ^ off + word / W ^ (off + 8) * W ^ (off + 8)

/-- FFT input word `a`: the coefficients `p[a·A + j]`, `j < A`, written in increasing `j` at
word offset `stride·j` -/
def packWord (stride A : Nat) (p : Array Nat) (a : Nat) : Nat :=
  (List.range A).foldl
    (fun w j => if a * A + j < p.size then writeAt w (stride * j) (coef p (a * A + j)) else w) 0

/-- the packing loop `for i in 0..p.len()`; `none` = a slice or index is out of range -/
def pack (N L A stride : Nat) (p : Array Nat) : Option (Array Nat) :=
  if p.size > L * A then none                                    -- vp[i >> logpack]
  else if p.size ≠ 0 ∧ stride * (min A p.size - 1) + 8 > N then none   -- .0[stride*j .. stride*j + 8]
  else some (Array.ofFn (n := L) fun a => packWord stride A p a.val)

/-- `&vpq[i].0[stride*j .. stride*(j+1)]` as a number; `w` is the value of the FFT word
(`0 ≤ w ≤ 2^(64N)`; the `N` words hold `w mod 2^(64N)`) -/
def digit (N stride w j : Nat) : Option Nat :=
  if stride * (j + 1) > N then none
  else some (w % W ^ N / W ^ (stride * j) % W ^ stride)

/-- residue-level `zn.redc_large(x)` for a slice of `len` words with value `x`: `x / R mod n`
(`rinv·R ≡ 1 mod n`, `R = W^k`); defined on the domain of C07 `redc_large_spec` -/
def redcLarge (n k rinv len x : Nat) : Option Nat :=
  if ¬ (len < 24) ∨ len < k ∨ k + 16 < len ∨ ¬ (x < n * W ^ k * W ^ k) then none
  else some (x * rinv % n)

/-- one iteration `(i, j)` of the output loop of the packed arm -/
def scatterStep (wrap : Bool) (n k rinv N size A stride offset : Nat) (vpq : Array Nat)
    (res : Array Nat) (ij : Nat × Nat) : Option (Array Nat) :=
  let idx0 := ij.1 * A + ij.2
  let idx := if wrap then idx0 % size else idx0
  if offset ≤ idx ∧ idx < offset + res.size then
    match digit N stride (coef vpq ij.1) ij.2 with
    | none => none
    | some d =>
      match redcLarge n k rinv stride d with
      | none => none
      | some r => some (res.setIfInBounds (idx - offset) ((coef res (idx - offset) + r) % n))
  else some res

/-- all pairs `(i, j)`, `i < L`, `j < J`, in loop order -/
def pairs (L J : Nat) : List (Nat × Nat) :=
  (List.range L).flatMap fun i => (List.range J).map fun j => (i, j)

/-- `_convolve_modn::<N>(zn, size, logpack, stride, p, q, res, offset)` with `res.len() = reslen`;
`cyc` stands for `mulfft` -/
def convolveModn (wrap : Bool) (cyc : Array Nat → Array Nat → Option (Array Nat))
    (n k rinv N size logpack stride : Nat) (p q : Array Nat) (reslen offset : Nat) :
    Option (Array Nat) :=
  if p.size = 0 then none                                         -- p[0].0.len()
  else if stride = 0 then
    -- inputs map 1-to-1 to FFT inputs
    if p.size > size ∨ q.size > size then none                    -- vp[i], vq[i]
    else if N < 8 then none                                       -- .0[..msize]
    else
      match cyc (resize p size) (resize q size) with
      | none => none
      | some vpq =>
        if reslen = 0 then some #[]
        else if N < 16 then none                                  -- .0[..16]
        else if offset + reslen > vpq.size then none              -- vpq[offset + i]
        else
          (List.range reslen).foldlM (fun (res : Array Nat) i =>
            match redcLarge n k rinv 16 (coef vpq (offset + i) % W ^ N % W ^ 16) with
            | none => none
            | some r => some (res.push r)) #[]
  else
    let A := 2 ^ logpack
    let L := size / A
    match pack N L A stride p, pack N L A stride q with
    | some vp, some vq =>
      match cyc vp vq with
      | none => none
      | some vpq =>
        (pairs vpq.size (2 * A - 1)).foldlM
          (scatterStep wrap n k rinv N size A stride offset vpq) (Array.replicate reslen 0)
    | _, _ => none

/-! ### the exact cyclic product used by the driver for `cyc` -/

/-- exact cyclic product of big integers modulo `F = 2^(64N)+1`, canonical representatives;
`none` mirrors the asserts of `mulfft` (equal lengths, power of two, `l ≤ 256 N`) -/
def cycExact (N : Nat) (x y : Array Nat) : Option (Array Nat) :=
  let l := x.size
  if l ≠ y.size then none
  else if l = 0 ∨ l ≠ 2 ^ l.log2 then none
  else if l > 256 * N then none
  else some (Array.ofFn (n := l) fun i => cycCoef l (coef x) (coef y) i.val % (W ^ N + 1))

/-- the transform product as the code forms it: every packed word vector becomes an `FInt<N>` with
top word 0 (`vp[i].0[..] = …` on `FInt::default()`), `mulfft` (word-level model of Ymq/Model/FInt.lean),
and the `N` words + top word of every result entry read back as an integer -/
def cycFft (N : Nat) (x y : Array Nat) : Option (Array Nat) :=
  (Ymq.FInt.mulfft N (x.toList.map fun v => ⟨Ymq.Limbs.ofNat N v, 0⟩)
    (y.toList.map fun v => ⟨Ymq.Limbs.ofNat N v, 0⟩)).map fun l => (l.map Ymq.FInt.FI.value).toArray

/-- `convolve_modn`: the dispatch table (regenerated from the source in `Ymq.Gen.Params`) followed
by `assert!(zn.n.bits() <= 500)` and the call of `_convolve_modn::<N>` -/
def convolve (wrap : Bool) (cyc : Nat → Array Nat → Array Nat → Option (Array Nat))
    (n k rinv nbits size : Nat) (p q : Array Nat) (reslen offset : Nat) : Option (Array Nat) :=
  match Ymq.Gen.Params.arith_fft.convolve_dispatch nbits size with
  | none => none
  | some (fsize, logpack, stride) =>
    if nbits > Ymq.Gen.Params.CONVOLVE_MAX_BITS then none
    else
      match Ymq.Gen.Params.CONVOLVE_FSIZE_N.lookup fsize with
      | none => none
      | some N => convolveModn wrap (cyc N) n k rinv N size logpack stride p q reslen offset

end Ymq.Kronecker
