import Ymq.Lemmas.ClassGroupLegendre
import Mathlib.Tactic.NormNum.Prime

/-
Property C18, sub-piece `legendre`: `fn legendre(d: &Uint, p: u32) -> i32` of src/classgroup.rs
(model: `Ymq.ClassGroup.legendre`, Ymq/Model/ClassGroupLegendre.lean) is the Legendre symbol.

`d < 2^1024` is the type bound of `Uint = U1024`, not a restriction of the property.
-/
namespace Ymq.C18
open Ymq.ClassGroup

/-- For every odd prime `p < 2^30` and every `d : Uint`, `legendre(d, p)` returns the Legendre
symbol `(d / p)` (Mathlib's `legendreSym`).

`_partial`: the statement asked for is "every odd prime `p : u32`", i.e. `p < 2^32`. What is
missing is exactly the set of primes `2^30 ≤ p < 2^32`: there the statement is FALSE for the code
as it is — `Dividers::new` starts with `assert!(p >> 30 == 0)` and panics in both profiles
(`legendre_panics_of_ge_two_pow_30`, `legendre_large_prime_panics`). On `p < 2^30` nothing is
missing (no hypothesis besides primality, oddness and the type bounds). -/
theorem legendre_eq_legendreSym_partial (p : Nat) [Fact p.Prime] (h2 : p ≠ 2) (h30 : p < 2 ^ 30)
    (d : Nat) (hd : d < 2 ^ 1024) :
    legendre d p = some (legendreSym p d) := by
  obtain ⟨dv, hnew⟩ := new_of_odd_prime p Fact.out h2 h30
  have hp3 : 3 ≤ p := by have := (Fact.out : p.Prime).two_le; omega
  rw [legendre_of_new d p dv hnew hd]
  rcases euler_residue p h2 d with ⟨hl, hx⟩ | ⟨hl, hx⟩ | ⟨hl, hx⟩
  · rw [hl, hx, if_neg (by omega)]; rfl
  · rw [hl, hx, if_neg (by omega)]; rfl
  · rw [hl, hx, if_pos (by omega), if_neg (by omega)]
    congr 1
    omega

/-- On odd primes `p < 2^30`, `legendre` has no reachable panic site in the checked profile
(no overflow in `pow * sq`, `sq * sq`, no failing `debug_assert` in `modu63` or at the end). -/
theorem legendre_no_panic (p : Nat) [Fact p.Prime] (h2 : p ≠ 2) (h30 : p < 2 ^ 30)
    (d : Nat) (hd : d < 2 ^ 1024) :
    (legendre d p).isSome = true := by
  rw [legendre_eq_legendreSym_partial p h2 h30 d hd]; rfl

/-- `p = 2`: the code returns the parity of `d` (1 for odd `d`, 0 for even `d`); never `-1`. -/
theorem legendre_two (d : Nat) (hd : d < 2 ^ 1024) :
    legendre d 2 = some ((d % 2 : Nat) : Int) := by
  rw [legendre_of_new d 2 _ Dividers.new_two hd]
  have h : d ^ (2 / 2) % 2 = d % 2 := by norm_num
  rw [h, if_neg (by omega)]

/-- Any modulus accepted by `Dividers::new` (every `3 ≤ p < 2^30` that is not a power of two,
and 2): the result is decided by the residue `x = d^(p/2) mod p`: `x` for `x ≤ 1`, `-1` for
`x = p - 1`, and the `debug_assert!(pow == p - 1)` fails otherwise (checked profile; the release
profile, not modelled, returns `x - p`). -/
theorem legendre_residue_form (d p : Nat) (dv : Dividers.Div) (hnew : Dividers.new p = some dv)
    (hd : d < 2 ^ 1024) :
    legendre d p =
      if d ^ (p / 2) % p > 1 then
        (if d ^ (p / 2) % p ≠ p - 1 then none else some ((d ^ (p / 2) % p : Nat) - (p : Int)))
      else some ((d ^ (p / 2) % p : Nat) : Int) :=
  legendre_of_new d p dv hnew hd

/-- Counter-witness to "every `p : u32`": from `2^30` on the code panics whatever `d` is
(`assert!(p >> 30 == 0)` in `Dividers::new`, both profiles). -/
theorem legendre_panics_of_ge_two_pow_30 (d p : Nat) (hp : 2 ^ 30 ≤ p) : legendre d p = none := by
  have hnew : Dividers.new p = none := by
    unfold Dividers.new
    have : p / 2 ^ 30 ≠ 0 := by
      have := (Nat.le_div_iff_mul_le (show 0 < 2 ^ 30 by norm_num)).mpr (show 1 * 2 ^ 30 ≤ p by omega)
      omega
    rw [if_pos this]
  unfold legendre
  rw [hnew]

/-- Counter-witness to the full statement: `2147483647 = 2^31 - 1` is an odd prime below `2^32`
and `legendre(d, 2147483647)` panics for every `d`. -/
theorem legendre_large_prime_panics :
    Nat.Prime 2147483647 ∧ 2147483647 ≠ 2 ∧ 2147483647 < 2 ^ 32 ∧
      ∀ d, legendre d 2147483647 = none :=
  ⟨prime_mersenne_31, by norm_num, by norm_num,
    fun d => legendre_panics_of_ge_two_pow_30 d _ (by norm_num)⟩

/-- `p = 0` (division by zero), `p = 1` (`127 - sz` underflows), `p = 4` (`"incorrect divider"`):
`Dividers::new` panics, whatever `d` is. -/
theorem legendre_panics_small_moduli (d : Nat) :
    legendre d 0 = none ∧ legendre d 1 = none ∧ legendre d 4 = none := by
  have h0 : Dividers.new 0 = none := by decide +kernel
  have h1 : Dividers.new 1 = none := by decide +kernel
  have h4 : Dividers.new 4 = none := by decide +kernel
  refine ⟨?_, ?_, ?_⟩ <;> unfold legendre <;> simp only [h0, h1, h4]

/-- Composite modulus: `2^4 mod 9 = 7` is neither `≤ 1` nor `8`, the final `debug_assert` fails
(checked profile only; the release profile returns `-2`). `8^4 mod 9 = 1`: no panic, result 1. -/
theorem legendre_composite_debug_assert : legendre 2 9 = none ∧ legendre 8 9 = some 1 := by
  obtain ⟨dv, hnew⟩ := Dividers.new_some 9 (by norm_num) (by norm_num) (by decide)
  constructor
  · rw [legendre_of_new 2 9 dv hnew (by decide +kernel)]
    decide
  · rw [legendre_of_new 8 9 dv hnew (by decide +kernel)]
    decide

/-! ### non-vacuity -/

/-- hypotheses of `legendre_eq_legendreSym_partial` / `legendre_no_panic`: p = 7, d = 3 -/
example : Nat.Prime 7 ∧ (7 : Nat) ≠ 2 ∧ (7 : Nat) < 2 ^ 30 ∧ (3 : Nat) < 2 ^ 1024 :=
  ⟨by norm_num, by norm_num, by norm_num, by decide +kernel⟩
example : legendre 3 7 = some (-1) ∧ legendre 2 7 = some 1 ∧ legendre 14 7 = some 0 := by
  decide +kernel
/-- largest prime below `2^16`, a 1024-bit `d` -/
example : (legendre (2 ^ 1023 + 12345) 65521).isSome = true := by
  have : Fact (Nat.Prime 65521) := ⟨by norm_num⟩
  exact legendre_no_panic 65521 (by norm_num) (by norm_num) _ (by decide +kernel)
/-- `legendre_two` -/
example : legendre 5 2 = some 1 ∧ legendre 4 2 = some 0 := by decide +kernel
/-- `legendre_residue_form`: `Dividers::new 15` succeeds -/
example : ∃ dv, Dividers.new 15 = some dv :=
  Dividers.new_some 15 (by norm_num) (by norm_num) (by decide)
/-- `legendre_panics_of_ge_two_pow_30` -/
example : (2 : Nat) ^ 30 ≤ 2147483647 := by norm_num

end Ymq.C18
