/-
Lemmas for the mechanism model of multipoint evaluation (Ymq/Model/PolyTree.lean, property C10):
division by monic polynomials, the scaled quotient `sc P M m = ⌊x^m (P mod M)/M⌋` kept in the blocks
of the remainder tree, one tree edge (`sc_split`), the leaves, the reversal argument at the top
(`top_quotient`), and `multiEvalTree_spec`: `_multi_eval` returns the values at the leaves.
-/
import Ymq.Lemmas.PolyTree
import Mathlib.Algebra.Polynomial.Div
import Mathlib.Algebra.Polynomial.Eval.Degree

namespace Ymq.PolyMul
open Polynomial Finset

variable {α : Type} {R : Type} [CommRing R] [Nontrivial R]

/-- `f` has no coefficient from `m` on -/
def Below (f : R[X]) (m : Nat) : Prop := ∀ j, m ≤ j → f.coeff j = 0

theorem below_degree {f : R[X]} {m : Nat} (h : Below f m) : f.degree < m :=
  (degree_lt_iff_coeff_zero f m).2 h

theorem div_unique' (f g q r : R[X]) (m : Nat) (hg : g.Monic) (hdeg : g.natDegree = m) (hr : Below r m)
    (h : r + g * q = f) : f /ₘ g = q ∧ f %ₘ g = r := by
  apply div_modByMonic_unique q r hg ⟨h, ?_⟩
  rw [degree_eq_natDegree hg.ne_zero, hdeg]
  exact below_degree hr

theorem below_mod (f g : R[X]) (m : Nat) (hg : g.Monic) (hdeg : g.natDegree = m) : Below (f %ₘ g) m := by
  have := degree_modByMonic_lt f hg
  rw [degree_eq_natDegree hg.ne_zero, hdeg] at this
  exact (degree_lt_iff_coeff_zero _ m).1 this

theorem below_div (f g : R[X]) (a m : Nat) (hg : g.Monic) (hdeg : g.natDegree = m) (hf : Below f a) :
    Below (f /ₘ g) (a - m) := by
  intro j hj
  by_cases hlt : f.degree < g.degree
  · rw [(divByMonic_eq_zero_iff hg).2 hlt, coeff_zero]
  · rcases Nat.eq_zero_or_pos a with ha | ha
    · have : f = 0 := by
        ext k; rw [hf k (by omega), coeff_zero]
      rw [this, zero_divByMonic, coeff_zero]
    · have hfa : f.natDegree ≤ a - 1 := natDegree_le_iff_coeff_eq_zero.2 (fun N hN => hf N (by omega))
      have hge : m ≤ f.natDegree := by
        rw [← hdeg]
        exact natDegree_le_natDegree (not_lt.1 hlt)
      apply coeff_eq_zero_of_natDegree_lt
      rw [natDegree_divByMonic f hg, hdeg]
      omega

theorem below_mul_X_pow (f : R[X]) (a k : Nat) (hf : Below f a) : Below (X ^ k * f) (k + a) := by
  intro j hj
  rw [coeff_X_pow_mul', if_pos (by omega)]
  exact hf _ (by omega)

/-- the scaled quotient kept in a remainder-tree block for the monic modulus `M` of degree `m`:
`⌊x^m·(P mod M) / M⌋`, i.e. the coefficients of `x^(-1) … x^(-m)` of `P/M` -/
noncomputable def sc (P M : R[X]) (m : Nat) : R[X] := (X ^ m * (P %ₘ M)) /ₘ M

theorem below_sc (P M : R[X]) (m : Nat) (hM : M.Monic) (hdeg : M.natDegree = m) : Below (sc P M m) m := by
  have h1 := below_mul_X_pow (P %ₘ M) m m (below_mod P M m hM hdeg)
  have := below_div _ M (m + m) m hM hdeg h1
  simpa [sc] using this

theorem mod_mod_of_mul (P Q1 Q2 : R[X]) (k : Nat) (h1 : Q1.Monic) (hd1 : Q1.natDegree = k) :
    (P %ₘ (Q1 * Q2)) %ₘ Q1 = P %ₘ Q1 := by
  have e1 := modByMonic_add_div P (Q1 * Q2)
  have e2 := modByMonic_add_div (P %ₘ (Q1 * Q2)) Q1
  refine ((div_unique' P Q1 ((P %ₘ (Q1 * Q2)) /ₘ Q1 + Q2 * (P /ₘ (Q1 * Q2))) ((P %ₘ (Q1 * Q2)) %ₘ Q1) k h1 hd1
    (below_mod _ Q1 k h1 hd1) ?_).2).symm
  calc (P %ₘ (Q1 * Q2)) %ₘ Q1 + Q1 * ((P %ₘ (Q1 * Q2)) /ₘ Q1 + Q2 * (P /ₘ (Q1 * Q2)))
      = ((P %ₘ (Q1 * Q2)) %ₘ Q1 + Q1 * ((P %ₘ (Q1 * Q2)) /ₘ Q1)) + Q1 * Q2 * (P /ₘ (Q1 * Q2)) := by ring
    _ = P := by rw [e2, e1]

/-- **One edge of the scaled remainder tree.** For monic `Q1`, `Q2` of degree `k ≥ 1`: the scaled
quotient of the child `Q1` consists of the coefficients `k … 2k-1` of (scaled quotient of `Q1·Q2`)·`Q2`. -/
theorem sc_split (P Q1 Q2 : R[X]) (k : Nat) (hk : 1 ≤ k) (h1 : Q1.Monic) (h2 : Q2.Monic)
    (hd1 : Q1.natDegree = k) (hd2 : Q2.natDegree = k) :
    ∀ j, j < k → (sc P Q1 k).coeff j = (sc P (Q1 * Q2) (2 * k) * Q2).coeff (k + j) := by
  intro j hj
  have hM : (Q1 * Q2).Monic := h1.mul h2
  have hdM : (Q1 * Q2).natDegree = 2 * k := by rw [h1.natDegree_mul h2, hd1, hd2]; ring
  set Rm := P %ₘ (Q1 * Q2) with hRm
  set A := sc P (Q1 * Q2) (2 * k) with hA
  set S := (X ^ (2 * k) * Rm) %ₘ (Q1 * Q2) with hS
  have eA : S + Q1 * Q2 * A = X ^ (2 * k) * Rm := modByMonic_add_div _ _
  have bS : Below S (2 * k) := below_mod _ _ _ hM hdM
  set R1 := P %ₘ Q1 with hR1
  have eR1 : Rm %ₘ Q1 = R1 := mod_mod_of_mul P Q1 Q2 k h1 hd1
  set T := Rm /ₘ Q1 with hT
  have eRm : R1 + Q1 * T = Rm := by rw [← eR1]; exact modByMonic_add_div _ _
  -- B = ⌊x^(2k)·R1 / Q1⌋
  have eB : (X ^ (2 * k) * R1) /ₘ Q1 = Q2 * A - X ^ (2 * k) * T + S /ₘ Q1 := by
    refine (div_unique' _ Q1 _ (S %ₘ Q1) k h1 hd1 (below_mod _ _ _ h1 hd1) ?_).1
    have e3 := modByMonic_add_div S Q1
    have : X ^ (2 * k) * R1 = S + Q1 * (Q2 * A - X ^ (2 * k) * T) := by
      have : X ^ (2 * k) * R1 = X ^ (2 * k) * Rm - X ^ (2 * k) * (Q1 * T) := by rw [← eRm]; ring
      rw [this, ← eA]; ring
    rw [this]
    calc S %ₘ Q1 + Q1 * (Q2 * A - X ^ (2 * k) * T + S /ₘ Q1)
        = (S %ₘ Q1 + Q1 * (S /ₘ Q1)) + Q1 * (Q2 * A - X ^ (2 * k) * T) := by ring
      _ = S + Q1 * (Q2 * A - X ^ (2 * k) * T) := by rw [e3]
  -- C1 = ⌊x^k·R1 / Q1⌋ and B = x^k·C1 + E with E below k
  set C1 := sc P Q1 k with hC1
  set r1 := (X ^ k * R1) %ₘ Q1 with hr1
  have eC1 : r1 + Q1 * C1 = X ^ k * R1 := modByMonic_add_div _ _
  have br1 : Below r1 k := below_mod _ _ _ h1 hd1
  have eB2 : (X ^ (2 * k) * R1) /ₘ Q1 = X ^ k * C1 + (X ^ k * r1) /ₘ Q1 := by
    refine (div_unique' _ Q1 _ ((X ^ k * r1) %ₘ Q1) k h1 hd1 (below_mod _ _ _ h1 hd1) ?_).1
    have e4 := modByMonic_add_div (X ^ k * r1) Q1
    have : X ^ (2 * k) * R1 = X ^ k * r1 + Q1 * (X ^ k * C1) := by
      have : X ^ (2 * k) * R1 = X ^ k * (X ^ k * R1) := by rw [← mul_assoc, ← pow_add]; congr 2; omega
      rw [this, ← eC1]; ring
    rw [this]
    calc (X ^ k * r1) %ₘ Q1 + Q1 * (X ^ k * C1 + (X ^ k * r1) /ₘ Q1)
        = ((X ^ k * r1) %ₘ Q1 + Q1 * ((X ^ k * r1) /ₘ Q1)) + Q1 * (X ^ k * C1) := by ring
      _ = X ^ k * r1 + Q1 * (X ^ k * C1) := by rw [e4]
  have bE : Below ((X ^ k * r1) /ₘ Q1) k := by
    have := below_div _ Q1 (k + k) k h1 hd1 (below_mul_X_pow r1 k k br1)
    simpa using this
  have bSq : Below (S /ₘ Q1) k := by
    have := below_div S Q1 (2 * k) k h1 hd1 bS
    have e : 2 * k - k = k := by omega
    rwa [e] at this
  -- compare the coefficient k + j of both expressions of B
  have hc := congrArg (fun f => f.coeff (k + j)) (eB.symm.trans eB2)
  simp only [coeff_add, coeff_sub] at hc
  rw [coeff_X_pow_mul', if_neg (by omega), bSq (k + j) (by omega), bE (k + j) (by omega),
    coeff_X_pow_mul', if_pos (by omega), Nat.add_sub_cancel_left] at hc
  rw [mul_comm A Q2]
  simpa using hc.symm


theorem sc_leaf (P : R[X]) (a : R) : sc P (X - C a) 1 = C (P.eval a) := by
  unfold sc
  rw [modByMonic_X_sub_C_eq_C_eval, pow_one]
  refine (div_unique' _ (X - C a) (C (P.eval a)) (C (a * P.eval a)) 1 (monic_X_sub_C a)
    (natDegree_X_sub_C a) ?_ ?_).1
  · intro j hj
    rw [coeff_C, if_neg (by omega)]
  · rw [map_mul]; ring

theorem mon_monic (φ : α → R) (a : List α) : (mon φ a).Monic := by
  unfold mon
  rw [add_comm]
  apply monic_X_pow_add
  refine (degree_lt_iff_coeff_zero _ _).2 ?_
  intro j hj
  exact natDegree_poly_lt _ _ (by rw [List.length_map]; exact hj)

theorem mon_natDegree (φ : α → R) (a : List α) : (mon φ a).natDegree = a.length := by
  unfold mon
  rw [add_comm, natDegree_add_eq_left_of_degree_lt, natDegree_X_pow]
  rw [degree_X_pow]
  refine (degree_lt_iff_coeff_zero _ _).2 ?_
  intro j hj
  exact natDegree_poly_lt _ _ (by rw [List.length_map]; exact hj)

omit [Nontrivial R] in
/-- `_middlemul_xn` of a block by the low coefficients of a monic `q`: the coefficients `k … 2k-1` of
block·(x^k + q) -/
theorem middlemulXn_spec {o : Ops α} {φ : α → R} (h : Hom o φ) (c : Ctx) (blk q : List α) (k tmplen : Nat)
    (hk : 1 ≤ k) (hk62 : k ≤ 2 ^ 62) (hq : q.length = k) (hb : blk.length = 2 * k)
    (ht : mmNeed k ≤ tmplen) (hfit : Fits c k) :
    ∃ d, middlemulXn c o k blk q tmplen = some d ∧ d.length = k ∧
      ∀ i, i < k → φ (d.getD i o.zero) = (poly (blk.map φ) * mon φ q).coeff (k + i) := by
  unfold middlemulXn
  rw [if_neg (by omega)]
  obtain ⟨m, em, lm, hm⟩ := middleSpec_holds h c k (blk.drop 1) q tmplen (by omega) (by omega)
    (by rw [List.length_drop, hb, hq]) (by omega) (by rw [hq]; exact ht) (by rw [hq]; exact hfit)
  rw [em]
  simp only
  rw [if_neg (by omega)]
  rw [hq] at lm hm
  have ltk : (blk.take q.length).length = k := by rw [List.length_take]; omega
  refine ⟨_, rfl, by rw [List.length_zipWith, lm, ltk, Nat.min_self], ?_⟩
  intro i hi
  rw [getD_zipWith_add _ _ i (by omega) (by omega), h.add, hm i hi, hq]
  cases blk with
  | nil => simp at hb; omega
  | cons b0 brest =>
    have hbt : φ (((b0 :: brest).take k).getD i o.zero) = (poly ((b0 :: brest).map φ)).coeff i := by
      rw [coeff_poly, getD_map_hom h, List.getD_eq_getElem?_getD, List.getD_eq_getElem?_getD,
        List.getElem?_take_of_lt hi]
    rw [hbt, List.drop_succ_cons, List.drop_zero]
    unfold mon
    rw [hq, mul_add, coeff_add, coeff_mul_X_pow', if_pos (by omega), Nat.add_sub_cancel_left]
    congr 1
    simp only [List.map_cons, poly_cons]
    rw [add_mul, coeff_add, coeff_C_mul, natDegree_poly_lt _ _ (by rw [List.length_map, hq]; omega), mul_zero,
      zero_add, mul_assoc, show k + i = (k - 1 + i) + 1 by omega, coeff_X_mul]


/-- remainder-tree invariant: block `j` holds the `m` scaled coefficients of `P` modulo node `j` -/
def Blocks (φ : α → R) (P : R[X]) (nodes blocks : List (List α)) (m : Nat) : Prop :=
  blocks.length = nodes.length ∧ ∀ j, j < nodes.length →
    (blocks.getD j []).length = m ∧ poly ((blocks.getD j []).map φ) = sc P (mon φ (nodes.getD j [])) m

theorem splitLevel_spec {o : Ops α} {φ : α → R} (h : Hom o φ) (c : Ctx) (P : R[X]) (k tmplen : Nat)
    (hk : 1 ≤ k) (hk62 : k ≤ 2 ^ 62) (ht : mmNeed k ≤ tmplen) (hfit : Fits c k) :
    ∀ (hi lo blocks : List (List α)), Linked φ lo hi k → Blocks φ P hi blocks (2 * k) →
      ∃ bl, splitLevel c o tmplen blocks lo = some bl ∧ Blocks φ P lo bl k := by
  intro hi
  induction hi with
  | nil =>
    intro lo blocks hl hb
    have hb0 : blocks = [] := List.length_eq_zero_iff.1 (by simpa using hb.1)
    have hl0 : lo = [] := List.length_eq_zero_iff.1 (by simpa using hl.1)
    subst hb0 hl0
    exact ⟨[], rfl, rfl, fun j hj => by simp at hj⟩
  | cons M Ms ih =>
    intro lo blocks hl hb
    obtain ⟨hl1, hl2, hl3, hl4⟩ := hl
    obtain ⟨hb1, hb2⟩ := hb
    match lo, hl1, blocks, hb1 with
    | q1 :: q2 :: qs, hl1, blk :: bs, hb1 =>
      have lq1 : q1.length = k := hl2 q1 (by simp)
      have lq2 : q2.length = k := hl2 q2 (by simp)
      have hM := hl4 0 (by simp)
      simp only [Nat.mul_zero, List.getD_cons_zero, Nat.zero_add, List.getD_cons_succ] at hM
      obtain ⟨lblk, pblk⟩ := hb2 0 (by simp)
      simp only [List.getD_cons_zero] at lblk pblk
      -- the two children
      obtain ⟨d1, e1, ld1, hd1⟩ := middlemulXn_spec h c blk q2 k tmplen hk hk62 lq2 lblk ht hfit
      obtain ⟨d2, e2, ld2, hd2⟩ := middlemulXn_spec h c blk q1 k tmplen hk hk62 lq1 lblk ht hfit
      have p1 : poly (d1.map φ) = sc P (mon φ q1) k := by
        apply poly_eq_of_coeff
        · intro j hj; rw [List.length_map, ld1] at hj
          exact below_sc P _ k (mon_monic φ q1) (by rw [mon_natDegree, lq1]) j hj
        · intro j hj; rw [List.length_map, ld1] at hj
          rw [getD_map_hom h, hd1 j hj, pblk, hM]
          exact (sc_split P (mon φ q1) (mon φ q2) k hk (mon_monic φ q1) (mon_monic φ q2)
            (by rw [mon_natDegree, lq1]) (by rw [mon_natDegree, lq2]) j hj).symm
      have p2 : poly (d2.map φ) = sc P (mon φ q2) k := by
        apply poly_eq_of_coeff
        · intro j hj; rw [List.length_map, ld2] at hj
          exact below_sc P _ k (mon_monic φ q2) (by rw [mon_natDegree, lq2]) j hj
        · intro j hj; rw [List.length_map, ld2] at hj
          rw [getD_map_hom h, hd2 j hj, pblk, hM, mul_comm (mon φ q1)]
          exact (sc_split P (mon φ q2) (mon φ q1) k hk (mon_monic φ q2) (mon_monic φ q1)
            (by rw [mon_natDegree, lq2]) (by rw [mon_natDegree, lq1]) j hj).symm
      -- the rest of the level
      obtain ⟨rest, er, hr1, hr2⟩ := ih qs bs
        ⟨by simp at hl1; omega, fun x hx => hl2 x (by simp [hx]), fun x hx => hl3 x (by simp [hx]), by
          intro j hj
          have := hl4 (j + 1) (by simp; omega)
          simpa [Nat.mul_add, List.getD_cons_succ] using this⟩
        ⟨by simp at hb1; omega, by
          intro j hj
          have := hb2 (j + 1) (by simp; omega)
          simpa [List.getD_cons_succ] using this⟩
      unfold splitLevel
      rw [lq1, e1, e2, er]
      refine ⟨d1 :: d2 :: rest, rfl, by simp [hr1], ?_⟩
      intro j hj
      rcases j with _ | _ | j
      · exact ⟨by simpa using ld1, by simpa using p1⟩
      · exact ⟨by simpa using ld2, by simpa using p2⟩
      · have := hr2 j (by simp at hj; omega)
        simpa [List.getD_cons_succ] using this

/-- layers listed from the top down, each linked to the next -/
def DownChain (φ : α → R) : List (List (List α)) → Prop
  | [] => True
  | [_] => True
  | hi :: lo :: rest => (∃ k, Linked φ lo hi k) ∧ DownChain φ (lo :: rest)

theorem downChain_snoc {φ : α → R} : ∀ (ys : List (List (List α))) (l1 l2 : List (List α)) (d : Nat),
    DownChain φ ys → ys.getLast? = some l2 → Linked φ l1 l2 d → DownChain φ (ys ++ [l1]) := by
  intro ys
  induction ys with
  | nil => intro l1 l2 d _ hl _; simp at hl
  | cons y ys ih =>
    intro l1 l2 d hd hl hk
    cases ys with
    | nil =>
      simp only [List.getLast?_singleton, Option.some.injEq] at hl
      subst hl
      exact ⟨⟨d, hk⟩, trivial⟩
    | cons y2 ys' =>
      obtain ⟨h1, h2⟩ := hd
      refine ⟨h1, ?_⟩
      have := ih l1 l2 d h2 (by rwa [List.getLast?_cons_cons] at hl) hk
      simpa using this

theorem chain_reverse {φ : α → R} : ∀ (layers : List (List (List α))) (d : Nat), Chain φ d layers →
    DownChain φ layers.reverse := by
  intro layers
  induction layers with
  | nil => intro d _; trivial
  | cons l1 rest ih =>
    intro d hc
    cases rest with
    | nil => trivial
    | cons l2 rest' =>
      obtain ⟨hl, hc'⟩ := hc
      have := ih (2 * d) hc'
      rw [List.reverse_cons]
      apply downChain_snoc _ l1 l2 d this _ hl
      rw [List.reverse_cons, List.getLast?_append]
      simp


/-- **The top of the remainder tree (reversal).** If `rev(Q)·F ≡ rev(P) (mod t^(degp+1))` for a monic
`Q` of degree `n ≥ degp`, then `G = Σ_{b ≤ degp} F_{degp-b}·x^b` is the quotient `⌊x^n·P / Q⌋`, and its
coefficients below `n` are the scaled quotient `sc P Q n`. -/
theorem top_quotient (P Q : R[X]) (n degp : Nat) (F : Nat → R) (hQ : Q.Monic) (hdQ : Q.natDegree = n)
    (hP : Below P (degp + 1)) (hdeg : degp ≤ n)
    (hF : ∀ m, m ≤ degp → ∑ s ∈ range (m + 1), Q.coeff (n - s) * F (m - s) = P.coeff (degp - m)) :
    ∀ i, i < n → (if i ≤ degp then F (degp - i) else 0) = (sc P Q n).coeff i := by
  set G : R[X] := ∑ b ∈ range (degp + 1), C (F (degp - b)) * X ^ b with hG
  have cG : ∀ b, G.coeff b = if b ≤ degp then F (degp - b) else 0 := by
    intro b
    rw [hG, finset_sum_coeff]
    simp only [coeff_C_mul, coeff_X_pow]
    split_ifs with hb
    · rw [Finset.sum_eq_single b]
      · simp
      · intro x _ hx; rw [if_neg (by omega), mul_zero]
      · intro hx; exact absurd (Finset.mem_range.2 (by omega)) hx
    · apply Finset.sum_eq_zero
      intro x hx
      rw [if_neg (by simp at hx; omega), mul_zero]
  have bG : Below G (degp + 1) := fun j hj => by rw [cG j, if_neg (by omega)]
  have bQ : Below Q (n + 1) := fun j hj => coeff_eq_zero_of_natDegree_lt (by omega)
  -- the coefficients n … of Q·G and x^n·P agree
  have hhigh : ∀ e, n ≤ e → (Q * G).coeff e = (X ^ n * P).coeff e := by
    intro e he
    rw [coeff_X_pow_mul', if_pos he]
    rcases Nat.lt_or_ge (n + degp) e with hbig | hsm
    · rw [coeff_mul_vanish Q G (n + 1) (degp + 1) e bQ bG (by omega), hP _ (by omega)]
    · obtain ⟨m, hm, hme⟩ : ∃ m, m ≤ degp ∧ e = n + degp - m := ⟨n + degp - e, by omega, by omega⟩
      have hen : e - n = degp - m := by omega
      rw [hen, ← hF m hm, coeff_mul, Finset.Nat.sum_antidiagonal_eq_sum_range_succ_mk]
      -- only a ∈ [n - m, n] contribute
      have hsub : Finset.Ico (n - m) (n + 1) ⊆ range (e + 1) := by
        intro x hx; simp at hx ⊢; omega
      rw [← Finset.sum_subset hsub]
      · rw [Finset.sum_Ico_eq_sum_range, show n + 1 - (n - m) = m + 1 by omega,
          ← Finset.sum_range_reflect]
        apply Finset.sum_congr rfl
        intro s hs
        have hs' : s < m + 1 := by simpa using hs
        have e1 : n - m + (m + 1 - 1 - s) = n - s := by omega
        have e2 : e - (n - s) = degp - (m - s) := by omega
        rw [e1, e2, cG, if_pos (by omega)]
        congr 2; omega
      · intro a ha hna
        simp only [Finset.mem_range, Finset.mem_Ico, not_and, not_lt] at ha hna
        by_cases han : n < a
        · rw [bQ a (by omega), zero_mul]
        · rw [bG (e - a) (by omega), mul_zero]
  -- hence G is the quotient of x^n·P by Q
  have hdiv : (X ^ n * P) /ₘ Q = G := by
    refine (div_unique' _ Q G (X ^ n * P - Q * G) n hQ hdQ ?_ (by ring)).1
    intro j hj
    rw [coeff_sub, hhigh j hj, sub_self]
  -- and x^n·P = x^n·(P mod Q) + Q·x^n·(P div Q) with P div Q below 1
  have bc : Below (P /ₘ Q) 1 := by
    have := below_div P Q (degp + 1) n hQ hdQ hP
    intro j hj
    exact this j (by omega)
  have hdiv2 : (X ^ n * P) /ₘ Q = sc P Q n + X ^ n * (P /ₘ Q) := by
    refine (div_unique' _ Q _ ((X ^ n * (P %ₘ Q)) %ₘ Q) n hQ hdQ (below_mod _ _ _ hQ hdQ) ?_).1
    have e1 := modByMonic_add_div P Q
    have e2 := modByMonic_add_div (X ^ n * (P %ₘ Q)) Q
    unfold sc
    calc (X ^ n * (P %ₘ Q)) %ₘ Q + Q * ((X ^ n * (P %ₘ Q)) /ₘ Q + X ^ n * (P /ₘ Q))
        = ((X ^ n * (P %ₘ Q)) %ₘ Q + Q * ((X ^ n * (P %ₘ Q)) /ₘ Q)) + X ^ n * (Q * (P /ₘ Q)) := by ring
      _ = X ^ n * (P %ₘ Q + Q * (P /ₘ Q)) := by rw [e2]; ring
      _ = X ^ n * P := by rw [e1]
  intro i hi
  have := congrArg (fun f => f.coeff i) (hdiv.symm.trans hdiv2)
  simp only [coeff_add] at this
  rw [coeff_X_pow_mul', if_neg (by omega), add_zero, cG] at this
  exact this


theorem splitAll_spec {o : Ops α} {φ : α → R} (h : Hom o φ) (c : Ctx) (P : R[X]) (tmplen : Nat) :
    ∀ (below : List (List (List α))) (hi blocks : List (List α)) (m : Nat),
      DownChain φ (hi :: below) → Blocks φ P hi blocks m → 1 ≤ hi.length → (∀ a ∈ hi, a.length = m) →
      1 ≤ m → m ≤ 2 ^ 62 → 5 * m ≤ tmplen → Fits c (m / 2) →
      ∃ bl lo ml, splitAll c o tmplen below blocks = some bl ∧ (hi :: below).getLast? = some lo ∧
        Blocks φ P lo bl ml ∧ (∀ a ∈ lo, a.length = ml) ∧ 1 ≤ lo.length := by
  intro below
  induction below with
  | nil =>
    intro hi blocks m _ hb hne hall _ _ _ _
    exact ⟨blocks, hi, m, rfl, rfl, hb, hall, hne⟩
  | cons lo below' ih =>
    intro hi blocks m hd hb hne hall hm1 hm62 ht hfit
    obtain ⟨⟨k, hl⟩, hd'⟩ := hd
    -- the node length of `hi` is both `m` and `2k`
    obtain ⟨a, ha⟩ : ∃ a, a ∈ hi := List.exists_mem_of_length_pos (by omega)
    have hmk : m = 2 * k := by rw [← hall a ha, hl.2.2.1 a ha]
    subst hmk
    obtain ⟨bl1, e1, hb1⟩ := splitLevel_spec h c P k tmplen (by omega) (by omega)
      (mmNeed_fit' k tmplen (by omega)) (hfit.mono (by omega)) hi lo blocks hl hb
    obtain ⟨bl, lo', ml, e2, hlast, hbl, hall', hne'⟩ := ih lo bl1 k hd' hb1 (by rw [hl.1]; omega) hl.2.1
      (by omega) (by omega) (by omega) (hfit.mono (by omega))
    unfold splitAll
    rw [e1]
    exact ⟨bl, lo', ml, e2, by rw [List.getLast?_cons_cons]; exact hlast, hbl, hall', hne'⟩

omit [Nontrivial R] in
theorem getD_top_one {o : Ops α} {φ : α → R} (h : Hom o φ) (top : List α) (e : Nat) :
    φ ((top ++ [o.one]).getD e o.zero) = (mon φ top).coeff e := by
  unfold mon
  rw [coeff_add, coeff_X_pow, coeff_poly, getD_map_hom h]
  rcases Nat.lt_trichotomy e top.length with hlt | heq | hgt
  · rw [getD_append_left' _ _ _ _ hlt, if_neg (by omega), add_zero]
  · rw [getD_append_right' _ _ _ _ (by omega), heq, Nat.sub_self, List.getD_cons_zero, h.one,
      getD_ge top _ _ (le_refl _), h.zero, if_pos rfl, zero_add]
  · rw [getD_ge _ _ _ (by rw [List.length_append]; simp; omega), getD_ge top _ _ (by omega), h.zero,
      if_neg (by omega), add_zero]

/-- **`_multi_eval` evaluates at the leaves of the tree** (Bernstein's scaled remainder tree): for a
chain of layers with leaves `x + l_j` (one low coefficient each), top node `top` of `n` low
coefficients, `layers.length = log₂ n + 1`, and `1 ≤ |p| ≤ n + 1`: no panic site is reached and
`vals[j] = p(-l_j)` for every leaf `j`. -/
theorem multiEvalTree_spec {o : Ops α} {φ : α → R} (h : HomE o φ) (c : Ctx) (p : List α)
    (layers : List (List (List α))) (top : List α) (hch : Chain φ 1 layers)
    (htop : layers.getLast? = some [top]) (hlen : layers.length = top.length.log2 + 1)
    (hn1 : 1 ≤ top.length) (hn62 : top.length ≤ 2 ^ 61) (hp1 : 1 ≤ p.length) (hp2 : p.length ≤ top.length + 1)
    (hfit : Fits c (top.length / 2 + 1)) (hinv : ∃ i, o.inv o.one = some i) :
    ∃ vals, multiEvalTree c o p layers = some vals ∧ vals.length = (layers.getD 0 []).length ∧
      ∀ j, j < (layers.getD 0 []).length →
        φ (vals.getD j o.zero) =
          (poly (p.map φ)).eval (-(φ (((layers.getD 0 []).getD j []).getD 0 o.zero))) := by
  obtain ⟨init, hinit⟩ := List.getLast?_eq_some_iff.1 htop
  have hrev : layers.reverse = [top] :: init.reverse := by rw [hinit]; simp
  unfold multiEvalTree
  rw [if_neg (by omega), hrev]
  simp only
  rw [if_neg (by omega)]
  set n := top.length with hn
  set degp := p.length - 1 with hdegp
  set P := poly (p.map φ) with hP
  set q := top ++ [o.one] with hq
  set revp := (List.range (n + 1)).map fun i => if i ≤ degp then p.getD (degp - i) o.zero else o.zero with hrevp
  set revq := (List.range (n + 1)).map fun i => q.getD (n - i) o.zero with hrevq
  have lrevp : revp.length = n + 1 := by simp [hrevp]
  have lrevq : revq.length = n + 1 := by simp [hrevq]
  obtain ⟨dst, ed, ld, hdst⟩ := divModXn_spec h c (middleSpec_holds h.toHom c) revp revq (10 * n)
    (by rw [lrevp, lrevq]) (by rw [lrevq]; omega) (by rw [lrevq]; omega) (by rw [lrevq]; omega)
    (by rw [lrevq]; intro _; omega) (by rw [lrevq]; exact hfit.mono (by omega))
    (by
      obtain ⟨i, hi⟩ := hinv
      refine ⟨i, ?_⟩
      have : revq.getD 0 o.zero = o.one := by
        rw [hrevq, getD_range_map _ _ _ _ (by omega), Nat.sub_zero, hq,
          getD_append_right' _ _ _ _ (le_refl _), Nat.sub_self, List.getD_cons_zero]
      rw [this]; exact hi)
  rw [ed]
  simp only
  rw [if_neg (by omega)]
  rw [lrevq] at ld hdst
  set node := (List.range n).map fun i => if i ≤ degp then dst.getD (degp - i) o.zero else o.zero with hnode
  have lnode : node.length = n := by simp [hnode]
  -- the top block
  have hPb : Below P (degp + 1) := fun j hj => natDegree_poly_lt _ _ (by rw [List.length_map]; omega)
  have htopq := top_quotient P (mon φ top) n degp (fun t => φ (dst.getD t o.zero)) (mon_monic φ top)
    (mon_natDegree φ top) hPb (by omega) (by
      intro m hm
      have := hdst m (by omega)
      rw [coeff_poly_mul, coeff_poly] at this
      simp only [getD_map_hom h.toHom] at this
      rw [hrevp, getD_range_map _ _ _ _ (by omega), if_pos hm] at this
      rw [hP, coeff_poly, getD_map_hom h.toHom, ← this]
      apply Finset.sum_congr rfl
      intro s hs
      have hs' : s < m + 1 := by simpa using hs
      rw [hrevq, getD_range_map _ _ _ _ (by omega), hq, getD_top_one h.toHom])
  have pnode : poly (node.map φ) = sc P (mon φ top) n := by
    apply poly_eq_of_coeff
    · intro j hj; rw [List.length_map, lnode] at hj
      exact below_sc P _ n (mon_monic φ top) (mon_natDegree φ top) j hj
    · intro j hj; rw [List.length_map, lnode] at hj
      rw [getD_map_hom h.toHom, hnode, getD_range_map _ _ _ _ hj, ← htopq j hj]
      split_ifs
      · rfl
      · exact h.zero
  -- walk down the tree
  have hdown : DownChain φ ([top] :: init.reverse) := by
    have := chain_reverse layers 1 hch
    rwa [hrev] at this
  obtain ⟨bl, lo, ml, ebl, hlast, hbl, hall, hne⟩ := splitAll_spec h.toHom c P (10 * n) init.reverse [top] [node] n
    hdown ⟨rfl, by
      intro j hj
      have : j = 0 := by simpa using hj
      subst this
      exact ⟨lnode, pnode⟩⟩ (by simp) (by intro a ha; rw [List.mem_singleton.1 ha]) hn1 (by omega) (by omega)
    (hfit.mono (by omega))
  rw [ebl]
  -- the last layer is layer 0, with nodes of one coefficient
  have hlo : lo = layers.getD 0 [] := by
    have h1 : (([top] :: init.reverse).getLast?) = layers.head? := by
      rw [← hrev, List.getLast?_reverse]
    rw [hlast] at h1
    cases hl : layers with
    | nil => rw [hl] at htop; simp at htop
    | cons l0 rest => rw [hl] at h1; simp at h1; rw [List.getD_cons_zero]; exact h1
  have hml : ml = 1 := by
    obtain ⟨a, ha⟩ : ∃ a, a ∈ lo := List.exists_mem_of_length_pos (by omega)
    rw [← hall a ha]
    cases hl : layers with
    | nil => rw [hl] at htop; simp at htop
    | cons l0 rest =>
      rw [hl, List.getD_cons_zero] at hlo
      subst hlo
      rw [hl] at hch
      cases rest with
      | nil => exact hch a ha
      | cons l1 rest' => exact hch.1.2.1 a ha
  subst hml
  rw [← hlo]
  refine ⟨_, rfl, by rw [List.length_map, hbl.1], ?_⟩
  intro j hj
  obtain ⟨lb, pb⟩ := hbl.2 j hj
  have hleaf := hall (lo.getD j []) (by
    rw [List.getD_eq_getElem?_getD, List.getElem?_eq_getElem hj]; exact List.getElem_mem hj)
  rw [List.getD_eq_getElem?_getD, List.getElem?_map, List.getElem?_eq_getElem (by rw [hbl.1]; exact hj)]
  simp only [Option.map_some, Option.getD_some]
  have hbj : bl[j]'(by rw [hbl.1]; exact hj) = bl.getD j [] := by
    rw [List.getD_eq_getElem?_getD, List.getElem?_eq_getElem (by rw [hbl.1]; exact hj)]; rfl
  rw [hbj]
  have : φ ((bl.getD j []).getD 0 o.zero) = (poly ((bl.getD j []).map φ)).coeff 0 := by
    rw [coeff_poly, getD_map_hom h.toHom]
  rw [this, pb]
  -- the leaf is x + l = x - (-l)
  match hlj : lo.getD j [], hleaf with
  | [l], _ =>
    have hmon : mon φ [l] = X - C (-(φ l)) := by
      simp [mon]; ring
    rw [hmon, sc_leaf, coeff_C_zero, List.getD_cons_zero]

end Ymq.PolyMul
