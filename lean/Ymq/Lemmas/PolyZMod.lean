/-
The residue operations used by the driver (`natOps n`) are the operations of `ZMod n`: the
instance of `Hom` that specialises the ring-generic theorems of C10 to what the driver runs.
-/
import Ymq.Lemmas.PolyKaratsuba
import Ymq.Lemmas.PolySeries
import Mathlib.Data.ZMod.Basic

namespace Ymq.PolyMul
open Ymq.PolySpec

/-- the driver's residue operations are those of `ZMod n` -/
theorem natOps_hom (n : Nat) (hn : 0 < n) : Hom (natOps n) (Nat.cast : ℕ → ZMod n) where
  zero := by simp [natOps]
  one := by simp [natOps]
  add a b := by simp [natOps]
  sub a b := by
    simp only [natOps]
    rw [ZMod.natCast_mod, Nat.cast_sub (by have := Nat.mod_lt b hn; omega), Nat.cast_add,
      ZMod.natCast_mod, ZMod.natCast_self]
    ring
  mul a b := by simp [natOps]

theorem xgcdAux_inv (n : Nat) (x : ZMod n) : ∀ (f : Nat) (a b u v : Int),
    (a : ZMod n) = u * x → (b : ZMod n) = v * x →
    (((xgcdAux f a b u v).1 : Int) : ZMod n) = ((xgcdAux f a b u v).2 : Int) * x := by
  intro f
  induction f with
  | zero => intro a b u v ha _; simpa [xgcdAux] using ha
  | succ f ih =>
    intro a b u v ha hb
    unfold xgcdAux
    split_ifs with h0
    · simpa using ha
    · apply ih
      · exact hb
      · rw [Int.emod_def]
        push_cast
        rw [ha, hb]; ring

theorem invMod_sound (a n i : Nat) (hn : 0 < n) (h : invMod a n = some i) : (a : ZMod n) * (i : ZMod n) = 1 := by
  unfold invMod at h
  simp only at h
  split_ifs at h with h1
  simp only [Option.some.injEq] at h
  have hinv := xgcdAux_inv n (a : ZMod n) (2 * n.log2 + 4) ((a % n : Nat) : Int) (n : Int) 1 0
    (by push_cast; simp) (by simp)
  rw [h1] at hinv
  rw [← h]
  have hnn : ((xgcdAux (2 * n.log2 + 4) ((a % n : Nat) : Int) (n : Int) 1 0).2 % (n : Int)).toNat =
      (xgcdAux (2 * n.log2 + 4) ((a % n : Nat) : Int) (n : Int) 1 0).2 % (n : Int) :=
    Int.toNat_of_nonneg (Int.emod_nonneg _ (by omega))
  have : (((xgcdAux (2 * n.log2 + 4) ((a % n : Nat) : Int) (n : Int) 1 0).2 % (n : Int)).toNat : ZMod n) =
      (((xgcdAux (2 * n.log2 + 4) ((a % n : Nat) : Int) (n : Int) 1 0).2 : Int) : ZMod n) := by
    have := congrArg (fun z : Int => (z : ZMod n)) hnn
    simp only [Int.cast_natCast] at this
    rw [this]
    simp
  rw [this, mul_comm]
  simpa using hinv.symm

/-- the driver's operations, including `==` and `zn.inv`, are sound for `ZMod n` -/
theorem natOps_homE (n : Nat) (hn : 0 < n) : HomE (natOps n) (Nat.cast : ℕ → ZMod n) where
  toHom := natOps_hom n hn
  eq_sound a b h := by
    have : a % n = b % n := by simpa [natOps] using h
    exact (ZMod.natCast_eq_natCast_iff' a b n).2 this
  inv_sound a i h := invMod_sound a n i hn h

/-- `==` of the driver's operations is equality of residues -/
theorem natOps_eq_complete (n : Nat) (a b : Nat) (h : ((a : ℕ) : ZMod n) = ((b : ℕ) : ZMod n)) :
    (natOps n).eq a b = true := by
  have : a % n = b % n := (ZMod.natCast_eq_natCast_iff' a b n).1 h
  simp [natOps, this]

end Ymq.PolyMul
