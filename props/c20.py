"""C20 — parameter tables satisfy their consumers' preconditions at every size."""
# SIZE AUDIT (quick tier), read off cases('quick', ..) (the generator is deterministic, no sampling)
#   op                               quick                            thorough                         supported / boundaries           verdict
#   param <every fn> bits            every bits 0..520 x every flag   same                             factor() <= 500, n*k <= 508,     exhaustive in both tiers: every arm
#   param select_fb_size             every bits 0..1024 x 3 tables    same                             siqs/mpqs <= 448, qs <= 400      boundary of every table and function,
#   param qsieve::nblocks            1..400                           same                                                              447..449, 400|401, 500|501, 508|509 hit
#   param max_large_prime            primes to 2^24-1 x factors       same                             result capped at 2^32-1          cap reached (factor 277|278, 1<<20)
#   param arith_fft::mzp_w           bits 1..512 x logsize {0,1,5,10} x {0,1,2,5,8,10,12,14}           ZmodN <= 512 bits                all sizes
#   stage2 <table> B2                every row, midpoint +-1/2, 2^e*m to 7*2^46, beyond the last row   f64 labels < 2^53                all rows; 2^32 crossed by the sweep
#   siqs_/mpqs_consumer bits d       13 sizes (64,90,120,150,181,200, 35 sizes x both d                <= 448 bits (448 reached)        quick MISSED the lower side of every arm
#                                    256,257,300,341,400,425,448), one d                                                                (65|64.., 89, 119, 149, 169|170, 180, 199,
#                                                                                                                                       225, 250, 255) and every arm boundary of
#                                                                                                                                       a_value_count / a_tolerance_divisor /
#                                                                                                                                       large_prime_factor / mpqs_interval_size
#   qs_consumer bits d               100,250,347,348,400              14 sizes                         <= 400 bits; maxlarge crosses    347|348 (u32 cap) and 400 reached; 72|73,
#                                                                                                      2^32 at 347|348                  250|251 missing in quick
#   convolve_run bits k              15 bit sizes x size 2^0..2^8     x size 2^0..2^12                 dispatch arms by (bits, size),   BOTH tiers only ever selected arms 1 and 2
#                                                                                                      size to 2^19, bits to 500        (size <= 4096): the bit limits 245|246,
#                                                                                                                                       280|281, 310|311 in the list were never
#                                                                                                                                       at a size where they decide anything
#   fbase_new bits size              5 pairs to (512, 500000)         7 pairs to (512, 7340032)        primes < 2^24                    ok
# Added (boundary_cases, first in both tiers): SIQS/MPQS consumer runs at 45 arm-boundary sizes below 256 bits (both use_double;
# >= 219 bits one value in quick) and at 259|260, 289|290 (319|320 thorough); QS at 17, 72|73, 251; convolve_modn at one point
# per dispatch arm 3..8 on both sides of its bit limit, at 501 bits behind an arm admitting 512 (assert) and at size 2^20 (no arm).
# Not in quick for cost (1..2 s per run and profile): consumer runs at 319|320, 325, 340, 350, 375, 389|390|391, 393, 424, 440.
from fractions import Fraction
from vlib.pipeline import Case

PID = "C20"
GEN = ["params", "nttcert"]
LEAN = ["Ymq.Props.C20", "Ymq.Props.C20Ntt"]
AUDIT = "Ymq.Audit.C20"
PROFILES = ["release", "chk"]
TIMEOUT = 60.0
MAXBITS = 520
B = 32768

THEOREMS = [
    "Ymq.C20.reachable_bits_ok", "Ymq.C20.isqrt_is_floor_sqrt", "Ymq.C20.factor_base_size_ok",
    "Ymq.C20.fbsizes_keys_increasing", "Ymq.C20.select_fb_size_ok", "Ymq.C20.qs_fb_size_ok",
    "Ymq.C20.mpqs_fb_size_ok", "Ymq.C20.clsgrp_fb_size_ok", "Ymq.C20.siqs_fb_size_ok",
    "Ymq.C20.siqs_fb_size_le_cap_fails", "Ymq.C20.siqs_fb_size_cap_witness", "Ymq.C20.siqs_fb_size_le_cap_partial",
    "Ymq.C20.siqs_nfactors_ok", "Ymq.C20.siqs_nfactors_fits_fbase", "Ymq.C20.siqs_select_a_mask_ok",
    "Ymq.C20.siqs_select_a_u64_mask_witness", "Ymq.C20.siqs_poly_fits_ok", "Ymq.C20.siqs_poly_overflows_witness",
    "Ymq.C20.siqs_a_value_count_ok", "Ymq.C20.siqs_a_tolerance_divisor_ok", "Ymq.C20.siqs_interval_size_ok",
    "Ymq.C20.siqs_large_prime_factor_ok", "Ymq.C20.siqs_double_large_factor_ok", "Ymq.C20.mpqs_interval_size_ok",
    "Ymq.C20.mpqs_large_prime_factor_ok", "Ymq.C20.mpqs_double_large_factor_ok", "Ymq.C20.qs_large_prime_factor_ok",
    "Ymq.C20.qs_nblocks_ok", "Ymq.C20.cl_a_params_ok", "Ymq.C20.cl_select_a_mask_ok", "Ymq.C20.cl_interval_size_ok",
    "Ymq.C20.cl_large_prime_factor_ok", "Ymq.C20.cl_double_large_factor_ok", "Ymq.C20.siqs_maxlarge_ok",
    "Ymq.C20.siqs_maxdouble_ok", "Ymq.C20.mpqs_maxlarge_ok", "Ymq.C20.mpqs_maxdouble_ok", "Ymq.C20.qs_maxlarge_ok",
    "Ymq.C20.qs_max_cofactor_ok", "Ymq.C20.cl_maxlarge_ok", "Ymq.C20.cl_maxdouble_ok", "Ymq.C20.fbase_request_ok",
    "Ymq.C20.fbase_padded_len_ok", "Ymq.C20.fbase_prime_bits_ok", "Ymq.C20.max_multiplier_ok",
    "Ymq.C20.stage2_rows_ok", "Ymq.C20.pm1_rows_ok", "Ymq.C20.stage2_select_total", "Ymq.C20.pm1_select_ok",
    "Ymq.C20.pm1_arms_ok", "Ymq.C20.ecm_arms_ok", "Ymq.C20.ntt_primes_ok", "Ymq.C20.ntt_roots_order",
    "Ymq.C20.mzp_new_ok", "Ymq.C20.mzp_product_ok", "Ymq.C20.convolve_dispatch_total",
    "Ymq.C20.convolve_dispatch_packing_partial", "Ymq.C20.convolve_dispatch_size_one",
    "Ymq.C20.convolve_dispatch_packing_fails_size_one", "Ymq.C20.convolve_fsize_ok",
    "Ymq.C20.ntt_certs_cover", "Ymq.C20.ntt_primes_prime", "Ymq.C20.ntt_field_with_root",
]

RULE = ("first, in both tiers: consumer runs (SIQS, MPQS, QS) on both sides of every arm boundary of the parameter functions below 256 bits and at "
        "259|260, 289|290, convolve_modn at one point per dispatch arm (sizes 2^13..2^18) and out of the domain on both axes; then "
        "exhaustive: every translated parameter function on every bit length 0..520 (x both values of every flag, x the "
        "three tables; select_fb_size up to 1024 bits), every row / midpoint / off-table B2 of both stage-2 tables, the NTT "
        "prime table, MultiZmodP::new for every modulus size 1..512 x logsize in {0,1,5,10}; consumer runs (FBase::new, "
        "fbase::cofactor with the derived bounds) at breakpoint sizes; non-trivial = every request; distinct by request line")
MODELLED = ["params::{select_fb_size,factor_base_size,qs_fb_size,mpqs_fb_size,clsgrp_fb_size} + 3 tables + STAGE2_PARAMS + stage2_params",
            "siqs::{fb_size,nfactors,a_value_count,a_tolerance_divisor,interval_size,large_prime_factor,double_large_factor} + maxlarge/maxdouble statements",
            "mpqs::{mpqs_interval_size,large_prime_factor,double_large_factor} + maxlarge/maxdouble statements",
            "qsieve::{large_prime_factor,max_large_prime,SieveQS::nblocks} + max_cofactor statement",
            "classgroup::{a_params,interval_size,large_prime_factor,double_large_factor} + maxlarge/maxdouble statements",
            "pollard_pm1::{STAGE2_PARAMS,stage2_params,MULTIEVAL_THRESHOLD}, hard-wired arms of ecm_auto/ecm_only/ecm128/ecm_semiprime/pm1_quick/pm1_only",
            "arith_fft::{NTT_PRIMES, MultiZmodP::new prologue, convolve_modn dispatch}, fbase::{primes bound, FBase::new request/padding, 24-bit filter}",
            "constants BLOCK_SIZE, MINT_WORDS, FFT_THRESHOLD, MAX_MULTIPLIER, idx_by_log length, Dividers limit",
            "all of the above are generated from the Rust source by translate/params.py on every run (no hand-written model)"]
UNMODELLED = ["f64: `(x as f64).sqrt() as u32` is modelled as the integer square root (justified in Model/Checked.lean, "
              "compared with the real code for every size); stage-2 selection is exact rational arithmetic (all table values "
              "and tested B2 are integers or half-integers below 2^53)",
              "the statements assembled into synthesized functions (fbase::primes_bound, FBase::new request/padding, "
              "MultiZmodP::new prologue, convolve dispatch, maxlarge/maxdouble of siqs/mpqs/classgroup) are tied by the "
              "translator only (their values are locals of larger functions); the packing requirements of `_convolve_modn` and "
              "the index requirements of `pm1_stage2_polyeval` are read from the code and stated in Props/C20.lean",
              "primality of the NTT primes: proved (ntt_primes_prime: Pratt certificates generated from the source table by translate/nttcert.py, re-checked in the kernel, sound by Lucas' criterion); the Python oracle's Miller-Rabin stays as a cross-check"]
HYPOTHESES = []
CLAIM = ("Every parameter function of the sieves (QS, MPQS, SIQS, class group), the factor-base tables, both stage-2 tables with "
         "their nearest-row selection, the hard-wired (curves,B1,B2) arms, the NTT prime table with MultiZmodP::new's prime count "
         "and the convolve_modn dispatch are regenerated from the Rust source as checked Lean functions; Lean theorems (decide "
         "over bits 0..520 x flags x variants, lifted by lemmas where a variable is unbounded; reachable: factor() refuses n above "
         "500 bits, so functions of the original n (qs_fb_size, mpqs_fb_size, clsgrp_fb_size, ECM/P-1 arms) see <= 500 bits and "
         "functions of the multiplied n*k, k < 200 (all of siqs.rs; interval/large-prime/nblocks functions of mpqs.rs, qsieve.rs) see "
         "<= 508 bits, theorem reachable_bits_ok; MultiZmodP::new for bits <= 512, convolve dispatch for bits <= 500) state that no "
         "formula underflows/overflows/shifts out of range/divides by zero and that every derived value meets the consumer's "
         "requirement (positive, multiple of 32768, fits its type, 6 | d1, d2 power of two, packing fits, ...); the model is "
         "compared with the real code on the whole domain and a Python oracle re-checks the requirements on the real answers.")
LEVEL_NOTE = ("Trusted: Lean kernel (+propext, Classical.choice, Quot.sound), the translator (translate/rustexpr.py, params.py), "
              "the exhaustive correspondence run for the functions reachable through hooks, Python integers in the oracle. "
              "Consumer requirements were read from the consuming code (asserts, index expressions, integer types) and are "
              "named in the theorem docstrings.")
TECHNIQUE = "Lean 4 proof about a model regenerated from the Rust source + exhaustive differential correspondence + spec oracle"

_tables = {}


def feasible_mod8(bits, flag):
    if flag:
        return bits == 1 or bits >= 4
    return bits != 1


# ---------------------------------------------------------------- boundary size classes of the consumer runs (size audit)

# bit lengths below 256 at which an arm of some parameter function of siqs.rs / mpqs.rs / params.rs begins or ends (both sides):
# nfactors 64|65 89|90 119|120 149|150 169|170 199|200 224|225 249|250, a_value_count 48|49 71|72 150|151, a_tolerance_divisor 50|51
# 70|71 90|91 110|111 140|141 160|161, interval_size 180|181 255|256, large_prime_factor 92|93 96|97 128|129 250|251,
# mpqs_interval_size 100|101 129|130 189|190 219|220, factor_base_size 159|160, make_prime's floor 16; a run costs milliseconds
CONSUMER_SMALL = [16, 17, 48, 49, 50, 51, 65, 70, 71, 72, 89, 91, 92, 93, 96, 97, 100, 101, 110, 111, 119, 128, 129, 130, 140,
                  141, 149, 151, 159, 160, 161, 169, 170, 180, 189, 190, 199, 219, 220, 224, 225, 249, 250, 251, 255]
# above 256 bits (0.1 .. 0.7 s per run): the arms of mpqs_interval_size (259|260, 289|290; 319|320 thorough only) and, in quick, nothing
# else: 340|341 and the 25-bit steps of nfactors are in the thorough list
CONSUMER_LARGE = [259, 260, 289, 290]
CONSUMER_LARGE_THOROUGH = [319, 320]
# one in-domain point per arm of the (bits, size) dispatch of convolve_modn that the old list (size <= 2^8 quick, 2^12 thorough:
# arms 1 and 2 only) never selects, at the cheapest size that selects it and on both sides of its bit limit; and both ways out
# of the domain (no arm above 2^19; the assert above 500 bits behind an arm that admits 512): (bits, log2 size)
CONVOLVE_ARMS = [(150, 13), (151, 13), (310, 13), (311, 13), (500, 13), (501, 13),     # arm 1 | arm 3 | arm 5 | assert
                 (150, 14), (310, 14), (311, 14),                                      # arm 3 (size limit of arm 1) | arm 5
                 (280, 15), (281, 15),                                                 # arm 4 | arm 5
                 (2, 20), (500, 20)]                                                   # no arm: panic
# 0.2 .. 2 s per run: checked profile only in quick
CONVOLVE_ARMS_SLOW = [(280, 16), (281, 16),                                            # arm 4 | arm 7
                      (245, 17),                                                       # arm 6
                      (246, 18)]                                                       # arm 8
CONVOLVE_ARMS_THOROUGH = [(246, 17), (245, 18), (500, 17), (500, 18)]                  # arm 7 | arm 6 | arm 7 | arm 8


def boundary_cases(tier):
    """consumer runs at every arm boundary of the parameter functions they consume (the old quick list held 13 of the 35 sizes of
    the thorough list and one value of use_double), the QS run on both sides of its arms, convolve_modn once per dispatch arm"""
    quick = tier == "quick"
    for b in CONSUMER_SMALL:
        for d in ((0,) if quick and b >= 219 else (0, 1)):
            yield Case(f"siqs_consumer {b} {d}", k=False, timeout=600)
            yield Case(f"mpqs_consumer {b} {d}", k=False, timeout=600)
    for b in CONSUMER_LARGE + ([] if quick else CONSUMER_LARGE_THOROUGH):
        for d in ((1,) if quick else (0, 1)):
            yield Case(f"siqs_consumer {b} {d}", k=False, timeout=600)
            yield Case(f"mpqs_consumer {b} {d}", k=False, timeout=600)
    for b, ds in ((17, (0, 1)), (72, (0, 1)), (73, (0, 1)), (251, (1,))):      # large_prime_factor 72|73, qs_fb_size 250|251
        for d in ds:
            yield Case(f"qs_consumer {b} {d}", k=False, timeout=300)
    for b, k in CONVOLVE_ARMS:
        yield Case(f"convolve_run {b} {k}", o=b <= 500 and k <= 19, timeout=300)
    for b, k in CONVOLVE_ARMS_SLOW + ([] if quick else CONVOLVE_ARMS_THOROUGH):
        yield Case(f"convolve_run {b} {k}", profiles=["chk"] if quick else None, timeout=300)


def cases(tier, rng, extended=False):
    top = MAXBITS
    yield from boundary_cases(tier)
    # tables first: the oracle of the stage2 requests uses them
    yield Case("stage2_table ecm")
    yield Case("stage2_table pm1")
    yield Case("ntt_primes")
    one = ["params::factor_base_size", "siqs::nfactors", "siqs::a_value_count", "siqs::a_tolerance_divisor",
           "siqs::large_prime_factor", "siqs::double_large_factor", "mpqs::mpqs_interval_size",
           "mpqs::large_prime_factor", "mpqs::double_large_factor", "qsieve::large_prime_factor",
           "classgroup::a_params", "classgroup::interval_size", "classgroup::large_prime_factor",
           "classgroup::double_large_factor"]
    two = ["params::qs_fb_size", "params::mpqs_fb_size", "params::clsgrp_fb_size", "siqs::interval_size"]
    for b in range(0, top + 1):
        for f in one:
            yield Case(f"param {f} {b}")
        for f in two:
            for d in (0, 1):
                yield Case(f"param {f} {b} {d}")
        for d in (0, 1):
            for m8 in (0, 1):
                if feasible_mod8(b, m8):
                    yield Case(f"param siqs::fb_size {b} {d} {m8}")
        if 1 <= b <= 400:
            yield Case(f"param qsieve::nblocks {b}")
    for b in range(0, 1025):
        for d in (0, 1):
            for t in (0, 1, 2):
                yield Case(f"param params::select_fb_size {b} {d} {t}")
    # QS single large prime bound: (maxprime, factor) grid incl. the 32-bit boundary
    primes = [2, 199, 65521, 1 << 20, 9323339, 15485863, 15486481, (1 << 24) - 3, (1 << 24) - 1]
    for p in primes:
        for f in [1, 2, 3, 100, 255, 256, 257, 277, 278, 330, 442, 640, 1 << 20]:
            yield Case(f"param qsieve::max_large_prime {p} {f}")
    for t in ("ecm", "pm1"):
        rows = None
        # B2 requests do not depend on knowing the table: sweep a grid + structured points from the model-free list below
        pts = set()
        for e in range(0, 47):
            for m in (2, 3, 5, 7):
                pts.add(m * (1 << e))
        for v in STAGE2_B2[t]:
            pts.update([2 * v, 2 * v - 1, 2 * v + 1])
        for a, b_ in zip(STAGE2_B2[t], STAGE2_B2[t][1:]):
            pts.update([a + b_, a + b_ - 1, a + b_ + 1])
        pts.update([0, 1, 2 * STAGE2_B2[t][-1] + 2 * 10 ** 12, 2 * 10 ** 15, 160001, 160002])
        for num in sorted(pts):
            yield Case(f"stage2 {t} {num} 2")
    for b in range(1, 513):            # ZmodN::new refuses more than 512 bits
        for l in ((0, 1, 5, 10) if tier == "quick" and not extended else (0, 1, 2, 5, 8, 10, 12, 14)):
            yield Case(f"param arith_fft::mzp_w {b} {l}", timeout=120)
    # convolve_modn really run at the dispatch breakpoints (small sizes): returns iff the model says so
    for b in (2, 64, 100, 150, 151, 245, 246, 280, 281, 310, 311, 499, 500, 501, 512):
        for k in range(0, 9 if tier == "quick" and not extended else 13):
            indomain = b <= 500 and not (k == 0 and b <= 150)
            yield Case(f"convolve_run {b} {k}", o=indomain, timeout=300)
    # consumer runs (O only): FBase::new with the sizes the parameter functions produce
    for b, size in [(64, 16), (100, 120), (200, 8000), (300, 90000), (512, 500000)] + \
                   ([(393, 557056), (512, 7340032)] if tier != "quick" or extended else []):
        yield Case(f"fbase_new {b} {size}", k=False, timeout=300)
    # SIQS / MPQS: the driver's steps up to the first polynomial with every parameter from the real
    # functions, then the whole interval of that polynomial through the real sieve (chk = all asserts)
    bp = [64, 90, 120, 150, 181, 200, 256, 257, 300, 341, 400, 425, 448] if tier == "quick" and not extended else \
        [40, 64, 65, 89, 90, 119, 120, 149, 150, 169, 170, 180, 181, 199, 200, 225, 250, 255, 256, 257, 275, 300, 325, 340,
         341, 350, 375, 390, 391, 393, 400, 424, 425, 440, 448]
    for b in bp:
        for d in ((1 if b > 256 else 0,) if tier == "quick" and not extended else (0, 1)):
            yield Case(f"siqs_consumer {b} {d}", k=False, timeout=600)
            yield Case(f"mpqs_consumer {b} {d}", k=False, timeout=600)
    qs_sizes = [100, 250, 347, 348, 400] if tier == "quick" and not extended else [60, 100, 200, 250, 300, 340, 347, 348, 349, 352, 360, 380, 399, 400]
    for b in qs_sizes:
        for d in (0, 1):
            yield Case(f"qs_consumer {b} {d}", k=False, timeout=300)


# B2 labels of both tables as of the pinned tree; only used to *place* test points (rows, midpoints);
# the expected answers come from the tables the harness reports.
STAGE2_B2 = {
    "ecm": [660, 1080, 1920, 3000, 5040, 7700, 13200, 20000, 33000, 53000, 81000, 126000, 181000, 323000, 554000, 786000,
            1370000, 2300000, 4700000, 7100000, 9500000, 19000000, 28000000, 38000000, 78000000, 117000000, 156000000,
            322000000, 643000000, 1300000000, 2600000000, 5200000000, 10500000000, 21600000000, 32500000000, 43000000000,
            136000000000, 362000000000, 543000000000, 724000000000, 1500000000000, 2990000000000, 5980000000000,
            12000000000000, 24600000000000, 49200000000000],
    "pm1": [30000, 60000, 100000, 200000, 450000, 980000, 1900000, 4000000, 8300000, 18000000, 33000000, 71000000, 133000000,
            285000000, 550000000, 1200000000, 2300000000, 4800000000, 7900000000, 18000000000, 37000000000, 78000000000,
            150000000000, 320000000000, 640000000000, 1360000000000, 2500000000000, 5400000000000, 10500000000000,
            22500000000000],
}


def is_prime64(n):
    if n < 2:
        return False
    for p in (2, 3, 5, 7, 11, 13, 17, 19, 23, 29, 31, 37):
        if n % p == 0:
            return n == p
    d, s = n - 1, 0
    while d % 2 == 0:
        d //= 2
        s += 1
    for a in (2, 3, 5, 7, 11, 13, 17, 19, 23, 29, 31, 37):
        x = pow(a, d, n)
        if x in (1, n - 1):
            continue
        for _ in range(s - 1):
            x = x * x % n
            if x == n - 1:
                break
        else:
            return False
    return True


def pow2(x):
    return x > 0 and x & (x - 1) == 0


def row_ok(t, d1, d2):
    if d1 % 6 != 0 or d1 < 6 or d2 < 2:
        return "d1 not a positive multiple of 6 or d2 < 2"
    if t == "pm1":
        if not pow2(d2):
            return "d2 is not a power of two"
        if d2 // 2 < 28:
            return "d2/2 below FFT_THRESHOLD"
        # polynomial of the baby steps: number of b in [1, d1+1] coprime to d1, plus 1 coefficient
        import math
        plen = sum(1 for b in range(1, d1 + 2, 2) if math.gcd(b, d1) == 1) + 1 if d1 <= 40000 else d1 // 3 + 2
        if plen > d2:
            return "baby-step polynomial longer than d2"
    return None


def oracle(case, ans):
    a = case.args
    if ans in ("panic", "hang", "abort", "?") or ans.startswith("panic:"):
        return f"no value returned ({ans[:200]})"
    if case.op == "stage2_table":
        rows = [tuple(int(x) for x in r.split(":")) for r in ans.split(",")]
        _tables[a[0]] = rows
        for i, (b2, d1, d2) in enumerate(rows):
            m = row_ok(a[0], d1, d2)
            if m:
                return f"row {i} ({b2},{d1},{d2}): {m}"
        if any(x[0] >= y[0] for x, y in zip(rows, rows[1:])):
            return "B2 labels not increasing"
        return None
    if case.op == "stage2":
        rows = _tables.get(a[0])
        if not rows:
            return "table not seen"
        b2 = Fraction(int(a[1]), int(a[2]))
        got = tuple(int(x) for x in ans.split(","))
        if got not in rows:
            return "answer is not a table row"
        best = min(rows, key=lambda r: abs(r[0] - b2))          # first minimum
        if got != best:
            return f"not the nearest row (expected {best})"
        return row_ok(a[0], got[1], got[2])
    if case.op == "ntt_primes":
        for item in ans.split(","):
            p, r = (int(x) for x in item.split(":"))
            if not (p % (1 << 32) == 1 and is_prime64(p) and (1 << 58) < p and 2 * p < (1 << 64)):
                return f"{p}: not a prime = 1 mod 2^32 in (2^58, 2^63)"
            if (p * (p - 2) + 1) % (1 << 64) != 0:
                return f"{p}: p-2 is not -1/p mod 2^64"
            if not (0 < r < p and pow(r, 1 << 32, p) == 1 and pow(r, 1 << 31, p) == p - 1):
                return f"{p}: listed root does not have order 2^32"
        return None
    if case.op == "convolve_run":
        return None if ans == "ok" else "convolve_modn did not return"
    if case.op == "fbase_new":
        ln, mx = (int(x) for x in ans.split(","))
        size = int(a[1])
        if ln % 8 != 0 or ln == 0 or ln > size + 7:
            return "factor base length not a positive multiple of 8 within size+7"
        return None if mx < (1 << 24) else "factor base prime >= 2^24"
    if case.op in ("siqs_consumer", "mpqs_consumer"):
        return None if ans.endswith(",ok") else f"consumer run failed: {ans[:200]}"
    if case.op == "qs_consumer":
        ln, mx, ml, _ = ans.split(",")
        return None if int(ml) < (1 << 32) and int(mx) < (1 << 24) else "maxlarge >= 2^32"
    if case.op != "param":
        return "unknown op"
    f = a[0]
    v = [int(x) for x in ans.split(",")]
    x = v[0]
    bits = int(a[1])
    if f in ("params::qs_fb_size", "params::mpqs_fb_size", "params::select_fb_size"):
        return None if 0 < x <= 500000 else "factor base size outside 1..500000"
    if f == "params::clsgrp_fb_size":
        return None if 0 < x <= 100000 else "factor base size outside 1..100000"
    if f in ("params::factor_base_size", "siqs::fb_size"):
        # FBase::new: primes(2*size+40) with bound n*bitlen(n) in u32
        n = 2 * x + 40
        return None if x > 0 and n * n.bit_length() < (1 << 32) else "factor base request does not fit u32"
    if f in ("siqs::interval_size", "classgroup::interval_size", "mpqs::mpqs_interval_size"):
        return None if x > 0 and x % B == 0 and x < (1 << 32) else "interval not a positive multiple of 32768 below 2^32"
    if f == "qsieve::nblocks":
        return None if x > 0 and x * B < (1 << 32) else "nblocks"
    if f == "siqs::nfactors":
        return None if 1 <= x and x - 1 < 31 else "nfactors"
    if f == "classgroup::a_params":
        return None if v[0] >= 1 and (v[1] == 0 or v[1] - 1 < 31) else "a_params"
    if f in ("siqs::a_value_count", "siqs::a_tolerance_divisor"):
        return None if x > 0 else "zero"
    if f.endswith("::large_prime_factor"):
        return None if 1 <= x < (1 << 32) else "large prime factor outside 1..2^32"
    if f.endswith("::double_large_factor"):
        return None if x <= (1 << 16) else "D > 2^16: D*B^2 can exceed 2^64 for B < 2^24"
    if f == "qsieve::max_large_prime":
        return None if x < (1 << 32) and x == min(int(a[1]) * int(a[2]), (1 << 32) - 1) else "maxlarge"
    if f == "arith_fft::mzp_w":
        need = 2 * bits + int(a[2])
        return None if 1 <= x <= 26 and 58 * x > need else "w"
    return "unknown function"


def klass(case, ans):
    a = case.args
    if case.op == "param":
        return a[0] + "/" + ("panic" if not ans[:1].isdigit() else f"bits{int(a[1]) // 128 * 128}+" if not a[0].endswith("max_large_prime") else "grid")
    if case.op == "stage2":
        return f"stage2/{a[0]}/" + (ans.split(",")[1] if "," in ans else ans)
    if ans.startswith("panic:"):
        return case.op + "/" + ans.split("@")[-1]
    return case.op + ("/" + ans if ans in ("panic", "hang", "abort", "?") else "")


def nontrivial(case, ans):
    return True
