#!/usr/bin/env python3
"""Regenerates MANIFEST.json from props/*.py (each module carries its own claim text)."""
import json, os, sys, importlib
ROOT = os.path.dirname(os.path.dirname(os.path.abspath(__file__)))
sys.path.insert(0, ROOT)
ALL = ["C%02d" % i for i in range(1, 21)]
# properties whose check is complete and has been run by the orchestrator on the unchanged tree
CLAIMED = [l.strip() for l in open(os.path.join(ROOT, "claimed.txt")) if l.strip() and not l.startswith("#")]
NOT_YET = "check not built yet in this round (planned: DESIGN.md section 6); not claimed until model, theorems and tie exist"

def hook_commits():
    import subprocess
    out = subprocess.run(["git", "-C", "/repo", "log", "--format=%h %s"], capture_output=True, text=True).stdout
    return [l for l in out.splitlines() if l.split(" ", 1)[1].startswith("verif hooks:")]


def main():
    checks, na = [], []
    for pid in ALL:
        path = os.path.join(ROOT, "props", pid.lower() + ".py")
        if not os.path.exists(path) or pid not in CLAIMED:
            na.append({"property_id": pid, "reason": NOT_YET})
            continue
        m = importlib.import_module("props." + pid.lower())
        if getattr(m, "NOT_APPLICABLE", None):
            na.append({"property_id": pid, "reason": m.NOT_APPLICABLE})
            continue
        checks.append({
            "property_id": pid,
            "quick_cmd": f"./check {pid} --tier quick",
            "thorough_cmd": f"./check {pid} --tier thorough",
            "evidence_file": f"/verif/evidence/{pid}.json",
            "replay_cmd_template": f"./check {pid} --replay {{path}}",
            "engine": "lean-proof+correspondence",
            "level_claimed": {"category": "proof", "text": m.CLAIM, "design_ref": f"DESIGN.md section 6, {pid}"},
            "level_note": m.LEVEL_NOTE,
            "technique": m.TECHNIQUE,
        })
    man = {
        "version": 1,
        "setup_cmd": "./setup.sh",
        "hooks": {
            "guard": "--cfg yamaquasi_verif",
            "enable": "harness/.cargo/config.toml sets rustflags = [\"--cfg\", \"yamaquasi_verif\"] for the harness build (path dependency on /repo)",
            "baseline_off_cmd": "cd /repo && cargo test --workspace --no-fail-fast --offline",
            "source_commits": hook_commits(),
            "add_only": True,
        },
        "engines": [
            {"name": "lean-proof+correspondence", "path": "/verif/lean, /verif/translate, /verif/harness, /verif/vlib",
             "serves_properties": [c["property_id"] for c in checks],
             "kind_free_text": "Lean 4 theorems about models (hand-written or regenerated from the Rust source by the translator), "
                               "tied to the code by a line-protocol correspondence check (Rust harness vs compiled Lean driver) and a Python spec oracle"},
        ],
        "checks": checks,
        "not_applicable": na,
        "notes": "See DESIGN.md. known_findings.json lists recorded defects; fix: commits are listed there as fixed entries.",
    }
    json.dump(man, open(os.path.join(ROOT, "MANIFEST.json"), "w"), indent=1)
    print(f"MANIFEST: {len(checks)} checks, {len(na)} not claimed")

if __name__ == "__main__":
    main()
