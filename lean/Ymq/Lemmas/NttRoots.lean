/-
C10: the root tables of `MultiZmodP::new` (model `rootsPacked`, Ymq/Model/Ntt.lean) meet `RootsOk`
(`rootsPacked_ok`): `ωs`, the `2^logsize` powers, the packed forward/backward levels, and the roots are
principal (`g^(2^31) = -1` from the translated prime table).
-/
import Ymq.Lemmas.NttSpec
import Ymq.Lemmas.CrtColumns

namespace Ymq.Crt
open Ymq.Mg64 (W mgMul mgRedc)
open Ymq.Gen.Params

theorem new_fields3 (n logsize : Nat) (m : Mzp) (h : new n logsize = some m) :
    m.k = logsize ∧ m.primes = NTT_PRIME_VALUES.take m.w ∧
      (NTT_PRIME_VALUES.take m.w).mapM (rpowersOf m.w) = some m.rpowers := by
  unfold new at h
  simp only at h
  repeat' split at h
  all_goals first
    | contradiction
    | (simp only [Option.some.injEq] at h
       subst h
       exact ⟨rfl, rfl, ‹_›⟩)

theorem mapM_list_inv {α β : Type} (f : α → Option β) : ∀ (l : List α) (r : List β), l.mapM f = some r →
    r.length = l.length ∧ ∀ i, i < l.length → ∃ a b, l[i]? = some a ∧ r[i]? = some b ∧ f a = some b := by
  intro l
  induction l with
  | nil => intro r h; simp at h; subst h; exact ⟨rfl, fun i hi => by simp at hi⟩
  | cons a l ih =>
    intro r h
    rw [List.mapM_cons] at h
    simp only [Option.bind_eq_bind, Option.bind_eq_some_iff, Option.pure_def, Option.some.injEq] at h
    obtain ⟨b, hb, r', hr', rfl⟩ := h
    obtain ⟨l1, l2⟩ := ih r' hr'
    refine ⟨by simp [l1], ?_⟩
    intro i hi
    cases i with
    | zero => exact ⟨a, b, rfl, rfl, hb⟩
    | succ i => simpa using l2 i (by simpa using hi)

theorem table_rows : ∀ j, j < 26 → ∃ p g, NTT_PRIMES[j]? = some (p, g) ∧ NTT_PRIME_VALUES.getD j 0 = p ∧
    RowOk (p, g) := by
  intro j hj
  have hlen : NTT_PRIMES.length = 26 := by decide
  have hj' : j < NTT_PRIMES.length := by omega
  refine ⟨NTT_PRIMES[j].1, NTT_PRIMES[j].2, List.getElem?_eq_getElem hj', ?_, rows_ok _ (List.getElem_mem hj')⟩
  unfold NTT_PRIME_VALUES
  rw [List.getD_eq_getElem?_getD, List.getElem?_map, List.getElem?_eq_getElem hj']
  rfl

theorem primeOk_of_row {p g : Nat} (h : RowOk (p, g)) : PrimeOk p := by
  obtain ⟨h1, h2, h3, h4, _⟩ := h
  simp only at h1 h2 h3 h4
  refine ⟨by omega, h3, by rw [show W = 2 ^ 64 by decide]; exact h4, ?_⟩
  have : (2 : Nat) ^ 49 = 2 * 2 ^ 48 := by norm_num
  omega


/-- per prime facts of a context built by `new` -/
theorem new_ctx (n logsize : Nat) (m : Mzp) (h : new n logsize = some m) (j : Nat) (hj : j < m.w) :
    ∃ g ri, NTT_PRIMES[j]? = some (P m j, g) ∧ RowOk (P m j, g) ∧ m.rpowers[j]? = some ri ∧
      ri[0]? = some (W % P m j) ∧ ri[1]? = some (W % P m j * (W % P m j) % P m j) := by
  obtain ⟨ek, epr, erp⟩ := new_fields3 n logsize m h
  obtain ⟨w, _, ew, _, _, _⟩ := new_fields n logsize m h
  have hw26 : m.w ≤ 26 := by rw [ew]; exact mzp_w_le _ _ _ ‹_›
  obtain ⟨p, g, hrow, hval, hok⟩ := table_rows j (by omega)
  have hlenT : NTT_PRIME_VALUES.length = 26 := by decide
  have hP : P m j = p := by
    show m.primes.getD j 0 = p
    rw [epr, List.getD_eq_getElem?_getD, List.getElem?_take_of_lt hj, ← List.getD_eq_getElem?_getD, hval]
  obtain ⟨l1, l2⟩ := mapM_list_inv _ _ _ erp
  obtain ⟨a, b, ha, hb, hab⟩ := l2 j (by rw [List.length_take, hlenT]; omega)
  have hap : a = p := by
    rw [List.getElem?_take_of_lt hj] at ha
    have : NTT_PRIME_VALUES.getD j 0 = a := by rw [List.getD_eq_getElem?_getD, ha]; rfl
    rw [← this, hval]
  subst hap
  unfold rpowersOf at hab
  simp only [Option.map_eq_some_iff] at hab
  obtain ⟨l, _, hl⟩ := hab
  rw [hP]
  exact ⟨g, b, hrow, hok, hb, by rw [← hl]; rfl, by rw [← hl]; rfl⟩

theorem tabOk_of_new (n logsize : Nat) (m : Mzp) (h : new n logsize = some m) : TabOk m := by
  intro j hj
  obtain ⟨g, ri, _, hok, _⟩ := new_ctx n logsize m h j hj
  exact primeOk_of_row hok

theorem sqTimes_spec (p : Nat) (hp : 0 < p) : ∀ (c x : Nat), 1 ≤ c →
    sqTimes p c x < p ∧ ((sqTimes p c x : Nat) : ZMod p) = ((x : Nat) : ZMod p) ^ 2 ^ c := by
  intro c
  induction c with
  | zero => intro x h; omega
  | succ c ih =>
    intro x _
    unfold sqTimes
    have hsq : (((x * x % p : Nat)) : ZMod p) = ((x : Nat) : ZMod p) ^ 2 := by
      rw [ZMod.natCast_mod]; push_cast; ring
    rcases Nat.eq_zero_or_pos c with h0 | h0
    · subst h0
      simp only [sqTimes]
      exact ⟨Nat.mod_lt _ hp, by rw [hsq]; norm_num⟩
    · obtain ⟨h1, h2⟩ := ih (x * x % p) h0
      refine ⟨h1, ?_⟩
      rw [h2, hsq, ← pow_mul, pow_succ 2 c, Nat.mul_comm]

/-- the root of order `2^K` of prime `j`: `g_j^(2^(32-K))` -/
noncomputable def Om (m : Mzp) (j : Nat) : ZMod (P m j) :=
  (((NTT_PRIMES.getD j (0, 0)).2 : Nat) : ZMod (P m j)) ^ 2 ^ (32 - m.k)

theorem mf_one {p : Nat} (h : PrimeOk p) : mf p (W % p) = 1 := by
  unfold mf
  rw [ZMod.natCast_mod]; exact W_uinv h

theorem omegas_spec (n logsize : Nat) (m : Mzp) (h : new n logsize = some m) (hk : m.k ≤ 31) :
    ∃ ws, omegas m = some ws ∧ EltOk m ws ∧ ∀ j, j < m.w → mfe m ws j = Om m j := by
  have ht := tabOk_of_new n logsize m h
  obtain ⟨l, e, ll, hl⟩ := mapM_range' (α := Nat) 0
    (Q := fun j r => r < P m j ∧ mf (P m j) r = Om m j) (omega1 m) m.w (by
      intro j hj
      obtain ⟨g, ri, hrow, hok, hri, _, h1⟩ := new_ctx n logsize m h j hj
      have hpo := ht j hj
      obtain ⟨s1, s2⟩ := sqTimes_spec (P m j) (by have := hpo.pos; omega) (32 - m.k) g (by omega)
      obtain ⟨z, e1, e2, e3⟩ := mgMul64_mf hpo _ (W % P m j * (W % P m j) % P m j) s1
        (lt_trans (Nat.mod_lt _ (by have := hpo.pos; omega)) hpo.ltW)
      refine ⟨z, ?_, e2, ?_⟩
      · unfold omega1
        simp only [hrow, hri, h1]
        exact e1
      · rw [e3]
        have hr2 : mf (P m j) (W % P m j * (W % P m j) % P m j) = ((W : Nat) : ZMod (P m j)) := by
          unfold mf
          rw [ZMod.natCast_mod]; push_cast; rw [ZMod.natCast_mod]
          have := W_uinv hpo
          calc ((W : Nat) : ZMod (P m j)) * ((W : Nat) : ZMod (P m j)) * uinv (P m j)
              = ((W : Nat) : ZMod (P m j)) * (((W : Nat) : ZMod (P m j)) * uinv (P m j)) := by ring
            _ = ((W : Nat) : ZMod (P m j)) := by rw [this, mul_one]
        rw [hr2]
        unfold mf Om
        rw [s2]
        have hg : (NTT_PRIMES.getD j (0, 0)).2 = g := by
          rw [List.getD_eq_getElem?_getD, hrow]; rfl
        rw [hg]
        have := W_uinv hpo
        calc ((g : Nat) : ZMod (P m j)) ^ 2 ^ (32 - m.k) * uinv (P m j) * ((W : Nat) : ZMod (P m j))
            = ((g : Nat) : ZMod (P m j)) ^ 2 ^ (32 - m.k) * (((W : Nat) : ZMod (P m j)) * uinv (P m j)) := by ring
          _ = _ := by rw [this, mul_one])
  exact ⟨l, by unfold omegas; exact e, ⟨ll, fun j hj => (hl j hj).1⟩, fun j hj => (hl j hj).2⟩

theorem one_spec (n logsize : Nat) (m : Mzp) (h : new n logsize = some m) :
    ∃ one, (List.range m.w).mapM (one1 m) = some one ∧ EltOk m one ∧ ∀ j, j < m.w → mfe m one j = 1 := by
  have ht := tabOk_of_new n logsize m h
  obtain ⟨l, e, ll, hl⟩ := mapM_range' (α := Nat) 0
    (Q := fun j r => r < P m j ∧ mf (P m j) r = 1) (one1 m) m.w (by
      intro j hj
      obtain ⟨g, ri, hrow, hok, hri, h0, _⟩ := new_ctx n logsize m h j hj
      have hpo := ht j hj
      refine ⟨W % P m j, ?_, Nat.mod_lt _ (by have := hpo.pos; omega), mf_one hpo⟩
      unfold one1
      simp only [hri, h0])
  exact ⟨l, e, ⟨ll, fun j hj => (hl j hj).1⟩, fun j hj => (hl j hj).2⟩


theorem rootsIter_spec (m : Mzp) (ht : TabOk m) (ws : List Nat) (hws : EltOk m ws)
    (hom : ∀ j, j < m.w → mfe m ws j = Om m j) :
    ∀ (c : Nat) (cur : List Nat) (acc : List (List Nat)) (t : Nat), EltOk m cur →
      (∀ j, j < m.w → mfe m cur j = Om m j ^ t) → acc.length = t + 1 →
      (∀ i, i ≤ t → EltOk m (acc.reverse.getD i []) ∧ ∀ j, j < m.w → mfe m (acc.reverse.getD i []) j = Om m j ^ i) →
      ∃ big, rootsIter m ws c cur acc = some big ∧ big.length = t + 1 + c ∧
        ∀ i, i < t + 1 + c → EltOk m (big.getD i []) ∧ ∀ j, j < m.w → mfe m (big.getD i []) j = Om m j ^ i := by
  intro c
  induction c with
  | zero =>
    intro cur acc t _ _ hl hacc
    exact ⟨acc.reverse, rfl, by simp [hl], fun i hi => hacc i (by omega)⟩
  | succ c ih =>
    intro cur acc t hcur hcv hl hacc
    obtain ⟨nxt, e, hn, hnv⟩ := mulE_spec m ht cur ws hcur hws
    unfold rootsIter
    rw [e]
    simp only
    obtain ⟨big, eb, lb, hb⟩ := ih nxt (nxt :: acc) (t + 1) hn (by
        intro j hj; rw [hnv j hj, hcv j hj, hom j hj, pow_succ]) (by simp [hl]) (by
        intro i hi
        rw [List.reverse_cons]
        by_cases hit : i ≤ t
        · rw [getD_app_l' _ _ _ _ (by simp [hl]; omega)]; exact hacc i hit
        · have : i = t + 1 := by omega
          subst this
          rw [getD_app_r' _ _ _ _ (by simp [hl])]
          simp only [List.length_reverse, hl, Nat.sub_self, List.getD_cons_zero]
          exact ⟨hn, fun j hj => by rw [hnv j hj, hcv j hj, hom j hj, pow_succ]⟩)
    exact ⟨big, eb, by rw [lb]; omega, fun i hi => hb i (by omega)⟩

theorem rootsBig_spec (n logsize : Nat) (m : Mzp) (h : new n logsize = some m) (hk : m.k ≤ 31) :
    ∃ big, rootsBig m = some big ∧ big.length = 2 ^ m.k ∧
      ∀ i, i < 2 ^ m.k → EltOk m (big.getD i []) ∧ ∀ j, j < m.w → mfe m (big.getD i []) j = Om m j ^ i := by
  have ht := tabOk_of_new n logsize m h
  obtain ⟨ws, ew, hws, hom⟩ := omegas_spec n logsize m h hk
  obtain ⟨one, eo, hone, hov⟩ := one_spec n logsize m h
  have hp : 0 < 2 ^ m.k := Nat.pow_pos (by decide)
  obtain ⟨big, eb, lb, hb⟩ := rootsIter_spec m ht ws hws hom (2 ^ m.k - 1) one [one] 0 hone
    (fun j hj => by rw [hov j hj, pow_zero]) rfl (by
      intro i hi
      have : i = 0 := by omega
      subst this
      simp only [List.reverse_cons, List.reverse_nil, List.nil_append, List.getD_cons_zero]
      exact ⟨hone, fun j hj => by rw [hov j hj, pow_zero]⟩)
  refine ⟨big, ?_, by rw [lb]; omega, fun i hi => hb i (by omega)⟩
  unfold rootsBig
  rw [ew]; simp only; rw [eo]; simp only; exact eb

/-- the root of level `k` and direction `d` of prime `j` -/
noncomputable def omk (m : Mzp) (j k : Nat) (d : Bool) : ZMod (P m j) :=
  if d then Om m j ^ 2 ^ (m.k - k) else (Om m j ^ 2 ^ (m.k - k)) ^ (2 ^ k - 1)

theorem Om_half (n logsize : Nat) (m : Mzp) (h : new n logsize = some m) (j : Nat) (hj : j < m.w)
    (hk1 : 1 ≤ m.k) (hk : m.k ≤ 31) : Om m j ^ 2 ^ (m.k - 1) = -1 := by
  obtain ⟨g, ri, hrow, hok, _⟩ := new_ctx n logsize m h j hj
  have hpo := primeOk_of_row hok
  unfold Om
  have hg : (NTT_PRIMES.getD j (0, 0)).2 = g := by rw [List.getD_eq_getElem?_getD, hrow]; rfl
  rw [hg, ← pow_mul, ← pow_add, show 32 - m.k + (m.k - 1) = 31 by omega]
  have h5 := hok.2.2.2.2
  simp only at h5
  rw [sqIter_eq] at h5
  have hc : (((g ^ 2 ^ 31 % P m j : Nat)) : ZMod (P m j)) = ((P m j - 1 : Nat) : ZMod (P m j)) := by rw [h5]
  rw [ZMod.natCast_mod, Nat.cast_sub (by have := hpo.pos; omega), Nat.cast_pow, ZMod.natCast_self] at hc
  rw [hc]; simp

theorem omk_half (n logsize : Nat) (m : Mzp) (h : new n logsize = some m) (hK : m.k ≤ 31) (j : Nat)
    (hj : j < m.w) (k : Nat) (d : Bool) (h1 : 1 ≤ k) (hk : k ≤ m.k) : omk m j k d ^ 2 ^ (k - 1) = -1 := by
  have hO := Om_half n logsize m h j hj (by omega) hK
  have ht : (Om m j ^ 2 ^ (m.k - k)) ^ 2 ^ (k - 1) = -1 := by
    rw [← pow_mul, ← pow_add, show m.k - k + (k - 1) = m.k - 1 by omega]; exact hO
  unfold omk
  cases d with
  | true => simp only [if_true]; exact ht
  | false =>
    simp only [Bool.false_eq_true, if_false]
    rw [← pow_mul, Nat.mul_comm, pow_mul, ht]
    have hp : 0 < 2 ^ (k - 1) := Nat.pow_pos (by decide)
    have : Odd (2 ^ k - 1) := by
      have : 2 ^ k = 2 * 2 ^ (k - 1) := by rw [← pow_succ']; congr 1; omega
      exact ⟨2 ^ (k - 1) - 1, by omega⟩
    exact this.neg_one_pow

theorem omk_pow_one (n logsize : Nat) (m : Mzp) (h : new n logsize = some m) (hK : m.k ≤ 31) (j : Nat)
    (hj : j < m.w) (k : Nat) (h1 : 1 ≤ k) (hk : k ≤ m.k) : omk m j k true ^ 2 ^ k = 1 := by
  have := omk_half n logsize m h hK j hj k true h1 hk
  have h2 : 2 ^ k = 2 ^ (k - 1) * 2 := by rw [← pow_succ]; congr 1; omega
  rw [h2, pow_mul, this]; norm_num


theorem inv_unique'' {R : Type*} [CommRing R] {a b c : R} (h1 : a * c = 1) (h2 : b * c = 1) : a = b := by
  calc a = a * (b * c) := by rw [h2, mul_one]
    _ = (a * c) * b := by ring
    _ = b := by rw [h1, one_mul]

/-- **the root tables built by `MultiZmodP::new`** (model `rootsPacked`): no panic site, and level `k` holds
`2^(k-1)` forward powers of `ω_k = g^(2^(32-k))` followed by `2^(k-1)` powers of `ω_k⁻¹`, in Montgomery
form, with `ω_k^(2^(k-1)) = -1` -/
theorem rootsPacked_ok (n logsize : Nat) (m : Mzp) (h : new n logsize = some m) (hK : m.k ≤ 31) :
    ∃ rts, rootsPacked m = some rts ∧ RootsOk m rts (omk m) := by
  obtain ⟨big, eb, lb, hb⟩ := rootsBig_spec n logsize m h hK
  obtain ⟨ws, ew, hws, hom⟩ := omegas_spec n logsize m h hK
  have ht := tabOk_of_new n logsize m h
  -- the sanity check passes: ω^(2^logsize) = 1
  have hp2 : 0 < 2 ^ m.k := Nat.pow_pos (by decide)
  obtain ⟨chk, echk, _, _⟩ := mapM_range' (α := Unit) () (Q := fun _ _ => True)
    (rootsCheck1 m (big.getD (2 ^ m.k - 1) []) ws) m.w (by
      intro j hj
      have hpo := ht j hj
      obtain ⟨hl, hlv⟩ := hb (2 ^ m.k - 1) (by omega)
      obtain ⟨z, e1, zlt, zmf⟩ := mgMul64_mf hpo _ (ws.getD j 0) (hl.2 j hj) (lt_trans (hws.2 j hj) hpo.ltW)
      obtain ⟨v, e2, vlt, vmod⟩ := Ymq.C07.mgRedc_spec (P m j) (P m j - 2) z (by have := hpo.pos; omega) hpo.ltW
        hpo.inv (lt_of_lt_of_le zlt (Nat.le_mul_of_pos_right _ (by decide)))
      have hz1 : mf (P m j) z = 1 := by
        have h1 : mfe m (big.getD (2 ^ m.k - 1) []) j = Om m j ^ (2 ^ m.k - 1) := hlv j hj
        have h2 : mfe m ws j = Om m j := hom j hj
        unfold mfe at h1 h2
        rw [zmf, h1, h2, ← pow_succ, Nat.sub_add_cancel hp2]
        obtain ⟨g, ri, hrow, hok, _⟩ := new_ctx n logsize m h j hj
        unfold Om
        have hg : (Ymq.Gen.Params.NTT_PRIMES.getD j (0, 0)).2 = g := by
          rw [List.getD_eq_getElem?_getD, hrow]; rfl
        rw [hg, ← pow_mul, ← pow_add, show 32 - m.k + m.k = 31 + 1 by omega, pow_succ 2 31, pow_mul]
        have h5 := hok.2.2.2.2
        simp only at h5
        rw [sqIter_eq] at h5
        have hc : (((g ^ 2 ^ 31 % P m j : Nat)) : ZMod (P m j)) = ((P m j - 1 : Nat) : ZMod (P m j)) := by rw [h5]
        rw [ZMod.natCast_mod, Nat.cast_sub (by have := hpo.pos; omega), Nat.cast_pow, ZMod.natCast_self] at hc
        rw [hc]; simp
      have hv1 : v = 1 := by
        have hc : ((v * W : Nat) : ZMod (P m j)) = ((z : Nat) : ZMod (P m j)) :=
          (ZMod.natCast_eq_natCast_iff' _ _ _).2 vmod
        push_cast at hc
        have hmfv : mf (P m j) z = ((v : Nat) : ZMod (P m j)) := by
          unfold mf
          rw [← hc, mul_assoc, W_uinv hpo, mul_one]
        rw [hz1] at hmfv
        have : ((v : Nat) : ZMod (P m j)) = ((1 : Nat) : ZMod (P m j)) := by rw [← hmfv]; simp
        have hmod := (ZMod.natCast_eq_natCast_iff' _ _ _).1 this
        rw [Nat.mod_eq_of_lt vlt, Nat.mod_eq_of_lt hpo.pos] at hmod
        exact hmod
      refine ⟨(), ?_, trivial⟩
      unfold rootsCheck1
      show (match mgMul64 (P m j) _ _ with | none => none | some x => _) = _
      rw [e1]
      simp only
      show (match Ymq.Mg64.mgRedc (P m j) (P m j - 2) z with | none => none | some v => _) = _
      rw [e2]
      simp only
      rw [if_pos hv1])
  refine ⟨(List.range (m.k + 1)).map (packLevel m.k big), by
    unfold rootsPacked; rw [ew, eb]; simp only; rw [echk], ?_⟩
  have hone : ∀ j, j < m.w → ∀ k, 1 ≤ k → k ≤ m.k → omk m j k true ^ 2 ^ k = 1 :=
    fun j hj k h1 hk => omk_pow_one n logsize m h hK j hj k h1 hk
  have hpk : ∀ k, 1 ≤ k → 2 ^ k / 2 = 2 ^ (k - 1) := by
    intro k h1
    have : 2 ^ k = 2 * 2 ^ (k - 1) := by rw [← pow_succ']; congr 1; omega
    omega
  refine ⟨?_, ?_, ?_, ?_⟩
  · -- sq
    intro j k d hj h1 hk
    have hsq : Om m j ^ 2 ^ (m.k - (k + 1)) * Om m j ^ 2 ^ (m.k - (k + 1)) = Om m j ^ 2 ^ (m.k - k) := by
      rw [← pow_add, ← Nat.two_mul, ← pow_succ', show m.k - (k + 1) + 1 = m.k - k by omega]
    unfold omk
    cases d with
    | true => simp only [if_true]; exact hsq
    | false =>
      simp only [Bool.false_eq_true, if_false]
      rw [← mul_pow, hsq]
      have hp : 0 < 2 ^ k := Nat.pow_pos (by decide)
      have : 2 ^ (k + 1) - 1 = 2 ^ k + (2 ^ k - 1) := by rw [pow_succ]; omega
      have h1' := hone j hj k h1 (by omega)
      unfold omk at h1'
      simp only [if_true] at h1'
      rw [this, pow_add, h1', one_mul]
  · intro j k d hj h1 hk
    exact omk_half n logsize m h hK j hj k d h1 hk
  · intro j k hj h1 hk
    have h1' := hone j hj k h1 hk
    have hp : 0 < 2 ^ k := Nat.pow_pos (by decide)
    unfold omk at h1' ⊢
    simp only [if_true, Bool.false_eq_true, if_false] at h1' ⊢
    rw [← pow_succ', Nat.sub_add_cancel hp, h1']
  · intro k h1 hk
    have hp : 0 < 2 ^ (k - 1) := Nat.pow_pos (by decide)
    have h2k : 2 ^ k = 2 ^ (k - 1) + 2 ^ (k - 1) := by
      have : 2 ^ k = 2 * 2 ^ (k - 1) := by rw [← pow_succ']; congr 1; omega
      omega
    have hKk : 2 ^ k * 2 ^ (m.k - k) = 2 ^ m.k := by rw [← pow_add]; congr 1; omega
    have hs0 : 0 < 2 ^ (m.k - k) := Nat.pow_pos (by decide)
    refine ⟨packLevel m.k big k, ?_, ?_, ?_⟩
    · rw [List.getElem?_map, List.getElem?_range (by omega)]; rfl
    · -- VecOk
      unfold packLevel
      simp only [hpk k h1, if_neg (show ¬ k = 0 by omega)]
      refine ⟨by simp [h2k], ?_⟩
      intro e he
      rcases List.mem_append.1 he with he | he
      · obtain ⟨idx, hidx, rfl⟩ := List.mem_map.1 he
        have hidx' : idx < 2 ^ (k - 1) := List.mem_range.1 hidx
        refine (hb _ ?_).1
        calc idx * 2 ^ (m.k - k) < 2 ^ k * 2 ^ (m.k - k) := Nat.mul_lt_mul_of_pos_right (by omega) hs0
          _ = 2 ^ m.k := hKk
      · obtain ⟨idx, hidx, rfl⟩ := List.mem_map.1 he
        have hidx' : idx < 2 ^ (k - 1) := List.mem_range.1 hidx
        split_ifs with h0
        · exact (hb 0 (Nat.pow_pos (by decide))).1
        · refine (hb _ ?_).1
          calc (2 ^ k - idx) * 2 ^ (m.k - k) < 2 ^ k * 2 ^ (m.k - k) :=
                Nat.mul_lt_mul_of_pos_right (by omega) hs0
            _ = 2 ^ m.k := hKk
    · intro i hi j hj
      unfold packLevel
      simp only [hpk k h1, if_neg (show ¬ k = 0 by omega)]
      constructor
      · rw [getD_app_l' _ _ _ _ (by simp; exact hi)]
        rw [List.getD_eq_getElem?_getD, List.getElem?_map, List.getElem?_range hi]
        simp only [Option.map_some, Option.getD_some]
        rw [(hb _ (by
          calc i * 2 ^ (m.k - k) < 2 ^ k * 2 ^ (m.k - k) := Nat.mul_lt_mul_of_pos_right (by omega) hs0
            _ = 2 ^ m.k := hKk)).2 j hj]
        unfold omk
        simp only [if_true]
        rw [← pow_mul, Nat.mul_comm]
      · rw [getD_app_r' _ _ _ _ (by simp), show 2 ^ (k - 1) + i - ((List.range (2 ^ (k - 1))).map
            fun idx => big.getD (idx * 2 ^ (m.k - k)) []).length = i by simp]
        rw [List.getD_eq_getElem?_getD, List.getElem?_map, List.getElem?_range hi]
        simp only [Option.map_some, Option.getD_some]
        by_cases h0 : i = 0
        · subst h0
          simp only [if_true, pow_zero]
          rw [(hb 0 (Nat.pow_pos (by decide))).2 j hj, pow_zero]
        · rw [if_neg h0]
          rw [(hb _ (by
            calc (2 ^ k - i) * 2 ^ (m.k - k) < 2 ^ k * 2 ^ (m.k - k) :=
                  Nat.mul_lt_mul_of_pos_right (by omega) hs0
              _ = 2 ^ m.k := hKk)).2 j hj]
          have h1' := hone j hj k h1 hk
          unfold omk at h1' ⊢
          simp only [if_true, Bool.false_eq_true, if_false] at h1' ⊢
          rw [Nat.mul_comm, pow_mul]
          set ω := Om m j ^ 2 ^ (m.k - k) with hω
          have hpk0 : 0 < 2 ^ k := Nat.pow_pos (by decide)
          apply inv_unique'' (c := ω ^ i)
          · rw [← pow_add, Nat.sub_add_cancel (by omega), h1']
          · rw [← mul_pow, ← pow_succ, Nat.sub_add_cancel hpk0, h1', one_pow]

end Ymq.Crt
