//! `pseudoprime` above 64 bits against the word-level model (C06, lean/Ymq/Drv/PseudoprimeWord.lean).
//!   pseudoprime_word p -> the real `pseudoprime(p)`
//!   pp_ring p b        -> the ring values `pseudoprime` builds for the base `b`, through the same public calls
use crate::util::*;
use yamaquasi::arith_montgomery::{MInt, ZmodN};
use yamaquasi::Uint;

fn show_mint(m: MInt) -> String {
    Uint::from(m).to_string()
}

pub fn handle(op: &str, a: &[&str]) -> Option<String> {
    match (op, a) {
        ("pseudoprime_word", [p]) => Some(yamaquasi::pseudoprime(uint_of(p)?).to_string()),
        ("pp_ring", [p, b]) => {
            let (p, b) = (uint_of(p)?, u64_of(b)?);
            let zp = ZmodN::new(p);
            let one = zp.one();
            let pm1 = zp.sub(&zp.zero(), &zp.one());
            let bm = zp.from_int(b.into());
            let sq = zp.mul(&bm, &bm);
            Some(format!("{} {} {} {}", show_mint(one), show_mint(pm1), show_mint(bm), show_mint(sq)))
        }
        _ => None,
    }
}
