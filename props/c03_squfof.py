"""C03 / C01 helper — squfof.rs inside the model (helper module: wired into props/c03.py by its owner).

Ops (harness/src/ops_squfof.rs, lean/Ymq/Drv/Squfof.lean):
  squfof <n>        -> none | some <a> <b>  (panic = crash)   K (model = lean/Ymq/Model/Squfof.lean) and O
  squfof_seed <n>   -> (n as f64).sqrt() as u64             K (Lean Float) and O (within 1 of the floor root = hypothesis SeedOK)

Usage from props/c03.py:
    from props import c03_squfof as sq
    LEAN += sq.LEAN; THEOREMS += sq.THEOREMS (audit: sq.AUDIT); MODELLED += sq.MODELLED; ...
    cases():    yield from sq.cases(tier, rng)
    oracle():   if case.op in sq.OPS: return sq.oracle(case, ans)          (same for klass / nontrivial)
"""
import math
import random
from vlib.pipeline import Case
from vlib import gen

OPS = ("squfof", "squfof_seed")
LEAN = ["Ymq.Props.C03Squfof"]
AUDIT = "Ymq.Audit.C03Squfof"
THEOREMS = [
    "Ymq.C03Squfof.isqrt_total",
    "Ymq.C03Squfof.squfof_seed_irrelevant",
    "Ymq.C03Squfof.squfof_sound",
    "Ymq.C03Squfof.squfof_no_panic",
    "Ymq.C03Squfof.attempt_no_panic",
    "Ymq.C03Squfof.attempt_skips_square",
    "Ymq.C03Squfof.squfof_exit",
    "Ymq.C03Squfof.squfof_proper",
    "Ymq.C03Squfof.squfof_trivial_split_small_primes",
    "Ymq.C03Squfof.squfof_uses_exit",
    "Ymq.C03Squfof.sqOracle_uses_exit",
]
HYPOTHESES = ["SeedOK seed: the f64 seed `(m as f64).sqrt() as u64` of squfof::isqrt is within 1 of the floor square root for 4 <= m < 2^64 "
              "(IEEE-754 fact, not provable without a float model; checked by the `squfof_seed` O stream on squares, squares +- 1, 2^k +- 1, random)"]
MODELLED = ["squfof.rs completely (squfof, maybe_square, isqrt): every overflow / underflow / division / assert_eq site of the checked profile is a `none` of "
            "Ymq/Model/Squfof.lean (list with line numbers in the file header); n.checked_mul(k) is the `break` it is; `nsqrt * nsqrt == n` compares with n as the code does"]
UNMODELLED = ["the f64 seed of isqrt is a parameter (hypothesis SeedOK; the driver hands the model the same float computation, K-compared by `squfof_seed`)",
              "num_integer::Integer::gcd (binary gcd on u64, library code) is Nat.gcd"]
RULE = ("squfof directly on u64: first the repaired-defect regression lines (n*k a perfect square, k >= 2) and the late-round seeds; exhaustive n < 2^16 (quick: n < 2^13 and every 7th above), semiprimes of every size split up to 64 bits, products of 2-4 primes >= 211 "
        "(what factor() hands over), squares, n with n*k a perfect square for every k <= 50, n next to 2^64/k for every k <= 50 (checked_mul boundary), primes of every "
        "size, p^3, p^2*q, numbers just below 2^64, random words of every length; K on every case, both profiles")

W = 1 << 64
# ROUND / ITERATION-LIMIT TABLE (generated once with the model's `squfof_trace` and an instrumented mirror; literal, yielded first).
# ROUNDS[k]: inputs whose run DECIDES in multiplier round k (a split found with multiplier k), up to three sizes (~20 / ~40 / ~58 bits)
# where such inputs exist. Sources: every n < 2.8e7 exhaustively, 300k semiprimes, all cubes x^3 < 2^58, x^3*y, x^2*y, x^5, x^7 families.
# Late rounds almost never decide: rounds 28, 34, 36, 37, 40, 41, 43, 45, 46, 47 have NO decider in all of that, and 163^3 = 4330747 is the
# ONLY input found that decides in round 50 (173^3: round 49, 151^3: 48) - a loop bound 1..50 is observable on that single input only.
# EXHAUSTED_COMPOSITES: composites that run all 50 rounds and return None. LAST_ALLOWED_1: first cycle breaks at i = iters - 1.
# ONE_MORE_1 / ONE_LESS_1: the answer changes when the first cycle is allowed one more / one less iteration (first rejected / last
# accepted index). Second cycle: no input exists (n < 7e5 exhaustively: its break index stays below 0.8 * iters), its limit is never reached.
ROUNDS = {
    2: [590965, 552614471995, 154796152756229447],
    3: [591251, 568281535007, 148520634434090189],
    4: [592001, 587333136967, 155441607031157723],
    5: [591011, 563152052857, 167853566803997047],
    6: [591401, 580937454137, 160741831793320691],
    7: [589007, 584193721649, 160760221928813587],
    8: [2232679, 710805054457, 239679807479941331],
    9: [2345789, 642339160097, 721],
    10: [2223961, 625200602197, 133640726151461951],
    11: [2125441, 589622969651, 151605571506647683],
    12: [2094539, 435788891677, 213972844256561251],
    13: [2272741, 590719680689, 110239775126895503],
    14: [2219459, 636194190253, 13],
    15: [2168053, 576500578373, 209957876650888253],
    16: [2089499, 1008691, 1884697],
    17: [1922513, 346435624019, 61489],
    18: [2107517, 17, 1036999],
    19: [1280011, 772354598891, 148877],
    20: [16827509, 19, 226981],
    21: [15185561, 1165253, 1279723],
    22: [13431097, 906530026183, 300763],
    23: [14561069, 323153, 571787],
    24: [389017, 23, 357911],
    25: [4833053, 704969, 15271819],
    26: [10031339, 966487, 2143681],
    27: [20894101, 6185183],
    28: [],
    29: [25223581],
    30: [1092727, 29, 912673],
    31: [1295029],
    32: [31],
    33: [1030301],
    34: [],
    35: [2048383],
    36: [],
    37: [],
    38: [37],
    39: [2248091, 1225043, 2685619],
    40: [],
    41: [],
    42: [3307949, 41, 3869893],
    43: [],
    44: [2571353, 43],
    45: [],
    46: [],
    47: [],
    48: [3442951, 47],
    49: [5177717],
    50: [4330747],
}
EXHAUSTED_COMPOSITES = [4657463, 64481201, 68417929, 8477185319, 34359822251, 4089091887271, 27869663642360203, 288211412197487323]
LAST_ALLOWED_1 = [22, 57, 58, 302, 334, 366, 4006, 6009, 6242, 12196, 498605, 545039, 548463, 549577, 555971, 557343, 560695, 565291]
ONE_MORE_1 = [1143, 16998, 20312, 30484, 54650, 59078, 85214, 88986, 91110, 94025, 100420, 136058, 141468, 144951, 147394, 152552, 155670, 194692, 1004516, 1012670, 1026110, 1028810, 1038796, 1048326]
ONE_LESS_1 = [366, 5524, 11374, 13114, 24742, 25982, 41390, 45222, 50118, 69016, 78654, 95371, 115078, 119608, 123028, 162242, 173830, 178310, 185127, 190742, 1070234, 1090078, 1099154, 30015970]
LATE = sorted({n for v in ROUNDS.values() for n in v} | set(EXHAUSTED_COMPOSITES) | set(LAST_ALLOWED_1) | set(ONE_MORE_1) | set(ONE_LESS_1))
# REPAIRED DEFECT (fix f24afb6 in /repo): these direct calls divided by zero (squfof.rs:33, both profiles) because n*k is a perfect
# square for a multiplier k >= 2; the round is skipped now. Regression lines, run first: every prime <= 47, 2*m^2 shapes, all
# n < 2^16 that panicked, the 33-bit and 63-bit witnesses.
REPAIRED = [2, 3, 5, 7, 11, 13, 17, 19, 23, 29, 31, 37, 41, 43, 47, 50, 242, 1058, 1682, 4232, 5043, 6845, 13467, 14283,
            15842, 18818, 21218, 30603, 32258, 35912, 37538, 39762, 57122, 6000163058, 9223371873646019282]
# after the repair the primes <= 47 get the trivial split (p, 1) (a round k > p finds p_prev divisible by p; the code guards
# f > 1 only): theorem squfof_trivial_split_small_primes; squfof_proper excludes exactly these
TRIVIAL_SPLIT = {2, 3, 5, 7, 11, 13, 17, 19, 23, 29, 31, 37, 41, 43, 47}
SMALL = [p for p in range(2, 200) if all(p % q for q in range(2, p))]


def sqfree_part(k):
    s, d = k, 2
    while d * d <= s:
        while s % (d * d) == 0:
            s //= d * d
        d += 1
    return s


def excluded(n):
    """some multiplier 2 <= k <= 50 makes n*k < 2^64 a perfect square (n not a square itself, n >= 2): the inputs that divided by zero
    before the repair when that round was reached; used for the klass label only"""
    if n < 2 or math.isqrt(n) ** 2 == n:
        return False
    for k in range(2, 51):
        if n * k >= W:
            break
        if math.isqrt(n * k) ** 2 == n * k:
            return True
    return False


def reachable(n):
    """what factor(.., Algo::Squfof) can hand to squfof::squfof: no prime factor <= 199 (hence no perfect square times k <= 50)"""
    return n > 1 and all(n % p for p in SMALL)


def f64_seed(n):
    return int(math.sqrt(float(n)))


def mk(n, tag):
    return Case(f"squfof {n}", k=True, o=True, tag=tag)


def cases(tier, rng, extended=False):
    quick = tier == "quick"
    mult = 1 if quick else 8
    if extended:
        mult *= 4
    seen = set()

    def emit(n, tag):
        if 0 <= n < W and n not in seen:
            seen.add(n)
            yield mk(n, tag)

    for k, v in ROUNDS.items():
        for n in v:
            yield from emit(n, f"round-table/k={k}")
    for n in EXHAUSTED_COMPOSITES:
        yield from emit(n, "round-table/exhausted")
    for n in LAST_ALLOWED_1 + ONE_MORE_1 + ONE_LESS_1:
        yield from emit(n, "round-table/iters")
    for n in REPAIRED:
        yield from emit(n, "repaired")
    # 1. exhaustive small n
    for n in range(1 << 16):
        if (not quick) or extended or n < (1 << 13) or n % 7 == 3:
            yield from emit(n, "small")
    # 2. n * k a perfect square, every k <= 50 (division by zero in round k unless an earlier round returned)
    for k in range(1, 51):
        s = sqfree_part(k)
        ms = [1, 2, 3, 211, 65537, gen.rand_prime(rng, 16), gen.rand_prime(rng, 24), rng.randrange(2, 1 << 20)]
        top = math.isqrt((W - 1) // (k * s)) if k * s < W else 0
        ms += [top, top - 1, gen.prev_prime(top)] + [rng.randrange(1, top + 1) for _ in range(2 * mult)]
        for m in ms:
            if m >= 1:
                yield from emit(s * m * m, f"nk-square/k={k}")
    # 3. perfect squares (k = 1 exit)
    for r in [2, 3, (1 << 32) - 1, (1 << 32) - 2, 1 << 31, (1 << 16) + 1, gen.prev_prime(1 << 32)] + \
             [rng.getrandbits(rng.randint(2, 32)) for _ in range(30 * mult)]:
        yield from emit(r * r, "square")
        yield from emit(r * r + 1, "square+1")
        if r > 1:
            yield from emit(r * r - 1, "square-1")
    # 4. checked_mul boundary: n next to 2^64 / k
    for k in range(1, 51):
        b = (W - 1) // k
        for d in (-2, -1, 0, 1, 2, 3):
            yield from emit(b + d, f"mul-boundary/k={k}")
        for _ in range(mult):
            p = gen.prev_prime(b - rng.randrange(0, 1000))
            yield from emit(p, f"mul-boundary-prime/k={k}")
            # a semiprime just below / above the boundary
            q = gen.rand_prime(rng, rng.randint(8, 30))
            yield from emit(q * gen.prev_prime(b // q), f"mul-boundary-semi/k={k}")
            yield from emit(q * gen.next_prime(b // q), f"mul-boundary-semi/k={k}")
    # 5. semiprimes, every size split up to 64 bits
    for bits in range(4, 65):
        splits = range(2, bits // 2 + 1)
        for pb in (splits if not quick else [s for s in splits if s in (2, 3, 8, 9) or s >= bits // 2 - 1 or (s + bits) % 5 == 0]):
            for _ in range(mult):
                p = gen.rand_prime(rng, pb)
                q = gen.rand_prime(rng, bits - pb)
                yield from emit(p * q, f"semiprime/{min(64, (bits + 7) // 8 * 8)}")
    # 6. what factor() hands over: products of 2..4 primes >= 211 below 2^64, close factors, twin-like factors
    for _ in range(60 * mult):
        k = rng.choice([2, 2, 3, 4])
        bits = rng.randint(16 * k // 2 + 2, 64)
        fs = []
        for i in range(k):
            pb = max(8, bits // k + rng.randint(-2, 2))
            p = gen.rand_prime(rng, pb)
            while p < 211:
                p = gen.rand_prime(rng, pb)
            fs.append(p)
        n = 1
        for p in fs:
            n *= p
        yield from emit(n, "reachable")
    for _ in range(20 * mult):
        p = gen.rand_prime(rng, rng.randint(9, 32))
        yield from emit(p * gen.next_prime(p), "reachable/close")
        yield from emit(p * gen.next_prime(p + rng.randrange(1, 1 << (p.bit_length() // 2))), "reachable/close")
    # 7. primes of every size (failure path: every multiplier runs until checked_mul breaks)
    for bits in range(2, 65):
        for _ in range(1 if (quick and bits > 50) else 2 * mult if bits > 50 else 3 * mult):
            yield from emit(gen.rand_prime(rng, bits), f"prime/{(bits + 7) // 8 * 8}")
    # 8. prime cubes, p^2 * q, p^4
    for _ in range(20 * mult):
        p = gen.rand_prime(rng, rng.randint(2, 21))
        yield from emit(p ** 3, "cube")
        q = gen.rand_prime(rng, rng.randint(2, 64 - 2 * p.bit_length()))
        yield from emit(p * p * q, "p2q")
        if p < (1 << 16):
            yield from emit(p ** 4, "square")
    # 9. top of the type
    for d in range(1, 41 if quick else 400):
        yield from emit(W - d, "top")
    for b in range(2, 64):
        for d in (-1, 0, 1):
            yield from emit((1 << b) + d, "pow2")
    # 10. random words of every length
    for _ in range(300 * mult):
        yield from emit(rng.getrandbits(rng.randint(1, 64)), "random")

    # f64 seed of isqrt (hypothesis SeedOK)
    sseen = set()

    def semit(n):
        if 0 <= n < W and n not in sseen:
            sseen.add(n)
            yield Case(f"squfof_seed {n}", k=True, o=True, tag="seed")

    for n in range(0, 300):
        yield from semit(n)
    for b in range(2, 65):
        for d in (-2, -1, 0, 1, 2):
            yield from semit((1 << b) + d)
    for r in [(1 << 32) - 1, (1 << 32) - 2, 1 << 31, (1 << 26) + 1, (1 << 27) - 1, 94906265, 94906266, 94906267] + \
             [rng.getrandbits(rng.randint(20, 32)) for _ in range(200 * mult)]:
        for n in (r * r - 1, r * r, r * r + 1, r * r + r, r * r + 2 * r, r * r + 2 * r + 1):
            yield from semit(n)
    for _ in range(300 * mult):
        yield from semit(rng.getrandbits(rng.randint(50, 64)))


def oracle(case, ans):
    n = int(case.args[0])
    if case.op == "squfof_seed":
        try:
            s = int(ans)
        except ValueError:
            return f"no seed: {ans}"
        t = math.isqrt(n)
        if n >= 4 and not (t - 1 <= s <= t + 1):
            return f"f64 seed {s} of isqrt({n}) is not within 1 of the floor square root {t} (hypothesis SeedOK fails)"
        return None
    if ans == "none":
        return None
    t = ans.split(" ")
    if t[0] == "some" and len(t) == 3:
        a, b = int(t[1]), int(t[2])
        if a * b != n:
            return f"squfof({n}) = ({a}, {b}): product is {a * b}"
        if n >= 2 and not (1 < a < n and 1 < b < n):
            if n in TRIVIAL_SPLIT and (a, b) == (n, 1):
                return None
            return f"squfof({n}) = ({a}, {b}): not a proper split"
        return None
    if ans == "panic":
        return f"squfof({n}) panicked (squfof_no_panic: no input may)"
    return f"squfof({n}) did not answer: {ans}"


def _mirror(n):
    """plain Python rendering of squfof.rs for the branch labels only (never used as a judge): (round k, exit)"""
    for k in range(1, 51):
        nk = n * k
        if nk >= W:
            return k, "mul-break"
        s = math.isqrt(nk)
        if s * s == n:
            return k, "square"
        iters = 3 * math.isqrt(s)
        pp, qp, q, qs = s, 1, nk - s * s, 0
        if q == 0:
            continue
        done = False
        for i in range(1, iters + 1):
            if i == iters:
                done = True
                break
            b = (s + pp) // q
            p = b * q - pp
            qn = qp + b * (pp - p)
            r = math.isqrt(qn)
            if r * r == qn and i % 2 == 1 and (qn & 6 == 0 or qn & 7 == 4) and (qn + 1) % 5 <= 2:
                qs, pp = r, p
                break
            pp, qp, q = p, q, qn
        if done:
            continue
        b = (s - pp) // qs
        pp = b * qs + pp
        qp = qs
        q = (nk - pp * pp) // qp
        for i in range(1, iters + 1):
            if i == iters:
                done = True
                break
            b = (s + pp) // q
            p = b * q - pp
            qn = qp + b * (pp - p)
            if p == pp:
                break
            pp, qp, q = p, q, qn
        if done:
            continue
        if math.gcd(n, pp) > 1:
            return k, "gcd"
    return 51, "exhausted"


def klass(case, ans):
    if case.op == "squfof_seed":
        n = int(case.args[0])
        try:
            return f"squfof_seed/{int(ans) - math.isqrt(n):+d}"
        except ValueError:
            return "squfof_seed/?"
    n = int(case.args[0])
    tag = case.tag.split("/")[0]
    kind = ans.split(" ")[0]
    if kind == "some" and ans.endswith(" 1") and n > 1:
        kind = "trivial"
    if excluded(n):
        tag += "+sqmult"
    if n < (1 << 36):
        k, ex = _mirror(n)
        kb = "k=1" if k == 1 else "k=2-5" if k <= 5 else "k=6-50" if k <= 50 else "k>50"
        return f"squfof/{tag}/{kind}/{ex}/{kb}"
    return f"squfof/{tag}/{kind}"


def nontrivial(case, ans):
    return int(case.args[0]) > 3


if __name__ == "__main__":
    # request file for a stand-alone K/O run (see the commit message / final report)
    import sys
    tier = sys.argv[1] if len(sys.argv) > 1 else "quick"
    for c in cases(tier, random.Random(int(sys.argv[2]) if len(sys.argv) > 2 else 1)):
        print(c.line + "\t" + c.tag)
