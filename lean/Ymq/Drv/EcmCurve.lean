import Ymq.Drv.Util
import Ymq.Drv.Chain
import Ymq.Model.EcmCurve
import Ymq.Model.Pseudoprime

/-!
Driver for the whole-curve model of C15/C16 (Model/EcmCurve.lean) over canonical residues modulo `n`:
the translated formulas of Gen/Curves.lean as point operations, `ExpModn.checkGcdFactor` as
`check_gcd_factor`, the specification of `Poly::roots_eval` (C10) as `roots_eval`.
-/
namespace Ymq.Drv
open Ymq.EcmCurve Ymq.Gen.Curves Ymq.Chain

/-- `Curve { zn, twisted, d, .. }` as point operations -/
def znOps (n : Nat) (tw : Bool) (d : Zn n) : Ops (Pt (Zn n)) (Ext (Zn n)) := curveOps d tw

def znEnv (n : Nat) (tw : Bool) (d : Zn n) : Env (Pt (Zn n)) (Ext (Zn n)) (Zn n) where
  ops := znOps n tw d
  n := n
  xOf := fun p => p.x
  yz := fun p => (p.y, p.z)
  one := 1
  mul := (· * ·)
  sub := (· - ·)
  valid := fun p => let s := ecmIsValidSides d tw p; s.1.v == s.2.v
  check := fun xs =>
    let pp := fun p => match Ymq.Pseudoprime.pseudoprime p with | some b => b | none => false
    Ymq.ExpModn.checkGcdFactor n (xs.map (·.v)) pp
  -- `Poly::roots_eval(zn, a, b)` at its specification (C10): `∏_i (b_j - a_i)`
  rootsEval := fun a b => some (b.map fun bj => a.foldl (fun acc ai => acc * (bj - ai)) 1)

def showRet : Option (Option (Nat × Nat)) → String
  | none => "panic"
  | some none => "none"
  | some (some (p, q)) => s!"{p} {q}"

def showPts {n} (l : List (Pt (Zn n))) : String := " | ".intercalate (l.map showPt)

def handleEcmCurve : Handler
  -- one run of `ecm_curve` on the curve `(tw, d)` with generator `(x : y : z)`
  | ["ecm_curve", n, tw, d, x, y, z, b1, b2] => do
    let n ← parseNat n; let tw ← parseBool tw; let b1 ← parseNat b1; let b2 ← parseNat b2
    let r := fun s => (parseNat s).map (Zn.mk' n)
    let d ← r d
    let g : Pt (Zn n) := ⟨← r x, ← r y, ← r z⟩
    some (showRet (ecmCurveB (znEnv n tw d) b1 b2 g))
  -- the same with explicit exponent blocks and stage-2 parameters
  | ["ecm_curve_raw", n, tw, d, x, y, z, fs, ls, b2] => do
    let n ← parseNat n; let tw ← parseBool tw; let b2 ← parseNat b2
    let fs ← parseNatList fs; let ls ← parseNatList ls
    let r := fun s => (parseNat s).map (Zn.mk' n)
    let d ← r d
    let g : Pt (Zn n) := ⟨← r x, ← r y, ← r z⟩
    if fs.any (· ≥ W) ∨ ls.any (· ≥ 2 ^ 1024) then none else
    match Ymq.Gen.Stage2.stage2Select b2 1 with
    | none => some "panic"
    | some (_, d1, d2) => some (showRet (ecmCurve (znEnv n tw d) fs ls d1 d2 g))
  -- stage 1 without the gcd exits: the point after all blocks of `SmoothBase::new(b1, true)`
  | ["ecm_stage1", n, tw, d, x, y, z, b1] => do
    let n ← parseNat n; let tw ← parseBool tw; let b1 ← parseNat b1
    let r := fun s => (parseNat s).map (Zn.mk' n)
    let d ← r d
    let g : Pt (Zn n) := ⟨← r x, ← r y, ← r z⟩
    match Ymq.SmoothBase.new b1 true with
    | none => some "panic"
    | some (fs, ls) => some (showOptPt (stage1Point (znOps n tw d) fs ls g))
  -- the baby and giant tables and the normalised `y` coordinates, from the real primitives
  | ["ecm_tables", n, tw, d, x, y, z, d1, d2] => do
    let n ← parseNat n; let tw ← parseBool tw; let d1 ← parseNat d1; let d2 ← parseNat d2
    let r := fun s => (parseNat s).map (Zn.mk' n)
    let d ← r d
    let g : Pt (Zn n) := ⟨← r x, ← r y, ← r z⟩
    let o := znOps n tw d
    match babySteps o d1 g, giantSteps o d1 d2 g with
    | some bs, some gs =>
      let ys := normY (· * ·) ((bs ++ gs).map fun p => (p.y, p.z))
      some s!"{showPts bs} ; {showPts gs} ; {showList (ys.map (·.v))}"
    | _, _ => some "panic"
  | _ => none

end Ymq.Drv
