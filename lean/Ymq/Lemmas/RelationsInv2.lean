/-
Second store invariant (C11), needed only for `add_no_panic`: every stored relation can be packed
again after a combination (its factor entries are in the encoder's domain), has a positive cycle
length, and every large prime is a usable key (`LargeOK`).
-/
import Ymq.Lemmas.RelationsMono

namespace Ymq.Relations

/-- a factor entry the packed encoding accepts: the sign, or a prime in `(0, 2^32)`, 2 or odd, with
a positive exponent -/
def FactorOK (f : Int × Nat) : Prop :=
  f.1 = -1 ∨ (0 < f.1 ∧ f.1 < (W32 : Int) ∧ 0 < f.2 ∧ (f.1 = 2 ∨ f.1 % 2 = 1))

instance (f : Int × Nat) : Decidable (FactorOK f) := by unfold FactorOK; infer_instance

def FOK (fs : List (Int × Nat)) : Prop := ∀ f ∈ fs, FactorOK f

/-- a large prime the store can work with: greater than 1, 2 or odd, and `p + 1` fits in a `u32` -/
def LargeOK (p : Nat) : Prop := 1 < p ∧ p + 1 < W32 ∧ (p = 2 ∨ p % 2 = 1)

instance (p : Nat) : Decidable (LargeOK p) := by unfold LargeOK; infer_instance

theorem FOK_nil : FOK [] := by intro f hf; cases hf

theorem FOK_cons {f : Int × Nat} {t : List (Int × Nat)} : FOK (f :: t) ↔ FactorOK f ∧ FOK t := by
  simp [FOK]

theorem FOK_append {a b : List (Int × Nat)} : FOK (a ++ b) ↔ FOK a ∧ FOK b := by
  simp only [FOK, List.mem_append]
  constructor
  · intro h; exact ⟨fun f hf => h f (Or.inl hf), fun f hf => h f (Or.inr hf)⟩
  · rintro ⟨h1, h2⟩ f (hf | hf)
    · exact h1 f hf
    · exact h2 f hf

theorem LargeOK.lt32 {p : Nat} (h : LargeOK p) : p < W32 := by
  have := h.2.1; omega

theorem LargeOK.ne1 {p : Nat} (h : LargeOK p) : p ≠ 1 := by
  have := h.1; omega

theorem factorOK_large {p : Nat} (h : LargeOK p) : FactorOK (toI64 p, 2) := by
  obtain ⟨h1, h2, h3⟩ := h
  have e32 : W32 = 4294967296 := by decide
  have e32' : (W32 : Int) = 4294967296 := by decide
  rw [toI64_small (W32_lt_I63 (by omega))]
  right
  refine ⟨by omega, by omega, by show 0 < 2; decide, ?_⟩
  rcases h3 with h3 | h3
  · left; omega
  · right; omega

theorem bump_fok (p : Int) (k : Nat) : ∀ (fs fs' : List (Int × Nat)),
    bump p k fs = .ok fs' → FOK fs → FOK fs' := by
  intro fs
  induction fs with
  | nil => intro fs' h _; simp only [bump, pure_eq_ok] at h; subst h; exact FOK_nil
  | cons f t ih =>
    obtain ⟨p', k'⟩ := f
    intro fs' h hf
    rw [FOK_cons] at hf
    unfold bump at h
    split at h
    · split at h
      · simp only [pure_eq_ok] at h
        subst h
        rw [FOK_cons]
        refine ⟨?_, hf.2⟩
        rcases hf.1 with h1 | ⟨a, b, c, d⟩
        · exact Or.inl h1
        · exact Or.inr ⟨a, b, by simp only at c ⊢; omega, d⟩
      · simp [throw_ne_ok] at h
    · simp only [bind_eq_ok, pure_eq_ok] at h
      obtain ⟨t', ht', h⟩ := h
      subst h
      rw [FOK_cons]
      exact ⟨hf.1, ih t' ht' hf.2⟩

theorem mergeFactors_fok : ∀ (fs acc out : List (Int × Nat)),
    mergeFactors acc fs = .ok out → FOK acc → FOK fs → FOK out := by
  intro fs
  induction fs with
  | nil => intro acc out h ha _; simp only [mergeFactors, pure_eq_ok] at h; subst h; exact ha
  | cons f t ih =>
    obtain ⟨p, k⟩ := f
    intro acc out h ha hf
    rw [FOK_cons] at hf
    unfold mergeFactors at h
    split at h
    · simp only [bind_eq_ok] at h
      obtain ⟨acc', hb, h⟩ := h
      exact ih acc' out h (bump_fok p k acc acc' hb ha) hf.2
    · refine ih _ out h ?_ hf.2
      rw [FOK_append]
      exact ⟨ha, FOK_cons.mpr ⟨hf.1, FOK_nil⟩⟩

theorem normFactors_fok {fs : List (Int × Nat)} (h : FOK fs) : FOK (normFactors fs) := by
  induction fs with
  | nil => exact h
  | cons f t ih =>
    obtain ⟨p, k⟩ := f
    rw [FOK_cons] at h
    rw [normFactors_cons]
    split
    · split
      · exact ih h.2
      · rw [FOK_cons]; exact ⟨Or.inl rfl, ih h.2⟩
    · rw [FOK_cons]; exact ⟨h.1, ih h.2⟩

/-! ### duplicate prime entries

`combine` merges the factor lists entry by entry but appends the squared cofactor as a NEW entry,
so a prime can have several entries. Only the first entry of a prime is ever increased
(`bump`), and every appended duplicate has exponent 2: in every relation the store builds, all
entries of a prime except the first have EVEN exponents (`TailEven`). Hence the parity of the
total exponent of a prime equals the OR of the parities of its entries, which is what the matrix
of `final_step` uses (`BitVec::set`). -/

def TailEven : List (Int × Nat) → Prop
  | [] => True
  | (p, _) :: t => (∀ f ∈ t, f.1 = p → f.2 % 2 = 0) ∧ TailEven t

instance TailEven.dec : (fs : List (Int × Nat)) → Decidable (TailEven fs)
  | [] => isTrue trivial
  | (p, _) :: t => by
    unfold TailEven
    have := TailEven.dec t
    infer_instance

theorem tailEven_cons {p : Int} {k : Nat} {t : List (Int × Nat)} :
    TailEven ((p, k) :: t) ↔ (∀ f ∈ t, f.1 = p → f.2 % 2 = 0) ∧ TailEven t := Iff.rfl

theorem tailEven_append_even : ∀ {fs : List (Int × Nat)} {p : Int} {k : Nat},
    TailEven fs → k % 2 = 0 → TailEven (fs ++ [(p, k)]) := by
  intro fs
  induction fs with
  | nil => intro p k _ _; exact ⟨(fun f hf => by cases hf), trivial⟩
  | cons e t ih =>
    obtain ⟨q, kq⟩ := e
    intro p k h hk
    rw [tailEven_cons] at h
    rw [List.cons_append, tailEven_cons]
    refine ⟨?_, ih h.2 hk⟩
    intro f hf hfq
    rcases List.mem_append.mp hf with hf | hf
    · exact h.1 f hf hfq
    · simp only [List.mem_singleton] at hf
      rw [hf]; exact hk

theorem tailEven_append_new : ∀ {fs : List (Int × Nat)} {p : Int} {k : Nat},
    TailEven fs → hasPrime p fs = false → TailEven (fs ++ [(p, k)]) := by
  intro fs
  induction fs with
  | nil => intro p k _ _; exact ⟨(fun f hf => by cases hf), trivial⟩
  | cons e t ih =>
    obtain ⟨q, kq⟩ := e
    intro p k h hp
    rw [tailEven_cons] at h
    simp only [hasPrime, List.any_cons, Bool.or_eq_false_iff, beq_eq_false_iff_ne, ne_eq] at hp
    rw [List.cons_append, tailEven_cons]
    refine ⟨?_, ih h.2 hp.2⟩
    intro f hf hfq
    rcases List.mem_append.mp hf with hf | hf
    · exact h.1 f hf hfq
    · simp only [List.mem_singleton] at hf
      rw [hf] at hfq
      exact absurd hfq.symm hp.1

theorem bump_mem (p : Int) (k : Nat) : ∀ (fs fs' : List (Int × Nat)), bump p k fs = .ok fs' →
    ∀ f ∈ fs', f ∈ fs ∨ f.1 = p := by
  intro fs
  induction fs with
  | nil => intro fs' h f hf; simp only [bump, pure_eq_ok] at h; subst h; cases hf
  | cons e t ih =>
    obtain ⟨p', k'⟩ := e
    intro fs' h f hf
    unfold bump at h
    split at h
    · rename_i hpp
      split at h
      · simp only [pure_eq_ok] at h
        subst h
        rcases List.mem_cons.mp hf with hf | hf
        · right; rw [hf]; exact hpp
        · left; exact List.mem_cons_of_mem _ hf
      · simp [throw_ne_ok] at h
    · simp only [bind_eq_ok, pure_eq_ok] at h
      obtain ⟨t', ht', h⟩ := h
      subst h
      rcases List.mem_cons.mp hf with hf | hf
      · left; rw [hf]; exact List.mem_cons_self
      · rcases ih t' ht' f hf with h1 | h1
        · left; exact List.mem_cons_of_mem _ h1
        · right; exact h1

theorem bump_tailEven (p : Int) (k : Nat) : ∀ (fs fs' : List (Int × Nat)),
    bump p k fs = .ok fs' → TailEven fs → TailEven fs' := by
  intro fs
  induction fs with
  | nil => intro fs' h _; simp only [bump, pure_eq_ok] at h; subst h; trivial
  | cons e t ih =>
    obtain ⟨p', k'⟩ := e
    intro fs' h hte
    rw [tailEven_cons] at hte
    unfold bump at h
    split at h
    · split at h
      · simp only [pure_eq_ok] at h
        subst h
        exact tailEven_cons.mpr hte
      · simp [throw_ne_ok] at h
    · rename_i hne
      simp only [bind_eq_ok, pure_eq_ok] at h
      obtain ⟨t', ht', h⟩ := h
      subst h
      rw [tailEven_cons]
      refine ⟨?_, ih t' ht' hte.2⟩
      intro f hf hfp
      rcases bump_mem p k t t' ht' f hf with h1 | h1
      · exact hte.1 f h1 hfp
      · exact absurd (hfp.symm.trans h1) hne

theorem mergeFactors_tailEven : ∀ (fs acc out : List (Int × Nat)),
    mergeFactors acc fs = .ok out → TailEven acc → TailEven out := by
  intro fs
  induction fs with
  | nil => intro acc out h ha; simp only [mergeFactors, pure_eq_ok] at h; subst h; exact ha
  | cons f t ih =>
    obtain ⟨p, k⟩ := f
    intro acc out h ha
    unfold mergeFactors at h
    split at h
    · simp only [bind_eq_ok] at h
      obtain ⟨acc', hb, h⟩ := h
      exact ih acc' out h (bump_tailEven p k acc acc' hb ha)
    · rename_i hp
      exact ih _ out h (tailEven_append_new ha (by simpa using hp))

theorem normFactors_mem : ∀ {fs : List (Int × Nat)} {f : Int × Nat}, f ∈ normFactors fs →
    ∃ g ∈ fs, g.1 = f.1 ∧ g.2 % 2 = f.2 % 2 := by
  intro fs
  induction fs with
  | nil => intro f hf; cases hf
  | cons e t ih =>
    obtain ⟨p, k⟩ := e
    intro f hf
    rw [normFactors_cons] at hf
    have lift : (∃ g ∈ t, g.1 = f.1 ∧ g.2 % 2 = f.2 % 2) →
        ∃ g ∈ (p, k) :: t, g.1 = f.1 ∧ g.2 % 2 = f.2 % 2 :=
      fun ⟨g, hg, h⟩ => ⟨g, List.mem_cons_of_mem _ hg, h⟩
    split at hf
    · rename_i hp
      split at hf
      · exact lift (ih hf)
      · rename_i hodd
        rcases List.mem_cons.mp hf with hf | hf
        · refine ⟨(p, k), List.mem_cons_self, ?_, ?_⟩
          · rw [hf]; exact hp
          · rw [hf]; simp only; omega
        · exact lift (ih hf)
    · rcases List.mem_cons.mp hf with hf | hf
      · exact ⟨(p, k), List.mem_cons_self, by rw [hf], by rw [hf]⟩
      · exact lift (ih hf)

theorem normFactors_tailEven : ∀ {fs : List (Int × Nat)}, TailEven fs → TailEven (normFactors fs) := by
  intro fs
  induction fs with
  | nil => intro h; exact h
  | cons e t ih =>
    obtain ⟨p, k⟩ := e
    intro h
    rw [tailEven_cons] at h
    have hrest : ∀ f ∈ normFactors t, f.1 = p → f.2 % 2 = 0 := by
      intro f hf hfp
      obtain ⟨g, hg, h1, h2⟩ := normFactors_mem hf
      rw [← h2]; exact h.1 g hg (h1.trans hfp)
    rw [normFactors_cons]
    split
    · rename_i hp
      split
      · exact ih h.2
      · rw [tailEven_cons]
        exact ⟨fun f hf hfp => hrest f hf (hfp.trans hp.symm), ih h.2⟩
    · rw [tailEven_cons]; exact ⟨hrest, ih h.2⟩

/-- `combine` keeps duplicate entries even (the appended cofactor has exponent 2) -/
theorem combine_tailEven {n : Nat} {r1 r2 rr : Relation} (h : combine n r1 r2 = .ok rr)
    (h1 : TailEven r1.factors) : TailEven rr.factors := by
  obtain ⟨_, _, fs, hfs, hf⟩ := combine_divisor h
  rw [hf]
  exact tailEven_append_even (mergeFactors_tailEven _ _ _ hfs h1) (by decide)

/-- total exponent of the prime `p` -/
def totalExp (p : Int) : List (Int × Nat) → Nat
  | [] => 0
  | (q, k) :: t => (if q = p then k else 0) + totalExp p t

/-- the parity bit `final_step` computes for `p` (OR over the entries) -/
def orParity (p : Int) (fs : List (Int × Nat)) : Bool := fs.any (fun f => f.1 == p && f.2 % 2 == 1)

theorem allEven_parity (q : Int) : ∀ (t : List (Int × Nat)), (∀ f ∈ t, f.1 = q → f.2 % 2 = 0) →
    totalExp q t % 2 = 0 ∧ ¬ (t.any (fun f => f.1 == q && f.2 % 2 == 1) = true) := by
  intro t
  induction t with
  | nil => intro _; simp [totalExp]
  | cons e t ih =>
    obtain ⟨q', k'⟩ := e
    intro h
    have h1 := h (q', k') List.mem_cons_self
    obtain ⟨h2, h3⟩ := ih (fun f hf => h f (List.mem_cons_of_mem _ hf))
    simp only [totalExp, List.any_cons, Bool.or_eq_true, Bool.and_eq_true, beq_iff_eq, not_or]
    by_cases hqq : q' = q
    · have := h1 hqq
      simp only at this
      rw [if_pos hqq]
      refine ⟨by omega, ?_, h3⟩
      rintro ⟨_, ho⟩; omega
    · rw [if_neg hqq]
      refine ⟨by simpa using h2, ?_, h3⟩
      rintro ⟨hc, _⟩; exact hqq hc

/-- with `TailEven`, the OR of the entry parities is the parity of the total exponent -/
theorem tailEven_parity (p : Int) : ∀ {fs : List (Int × Nat)}, TailEven fs →
    (orParity p fs = true ↔ totalExp p fs % 2 = 1) := by
  intro fs
  induction fs with
  | nil => intro _; simp [orParity, totalExp]
  | cons e t ih =>
    obtain ⟨q, k⟩ := e
    intro h
    rw [tailEven_cons] at h
    have iht := ih h.2
    unfold orParity at iht ⊢
    simp only [List.any_cons, totalExp, Bool.or_eq_true, Bool.and_eq_true, beq_iff_eq]
    by_cases hq : q = p
    · subst hq
      obtain ⟨hev1, hev2⟩ := allEven_parity q t h.1
      simp only [if_true]
      constructor
      · rintro (⟨_, ho⟩ | ho)
        · omega
        · exact absurd ho hev2
      · intro ho
        left
        exact ⟨trivial, by omega⟩
    · rw [if_neg hq]
      simp only [Nat.zero_add]
      constructor
      · rintro (⟨hc, _⟩ | ho)
        · exact absurd hc hq
        · exact iht.mp ho
      · intro ho
        exact Or.inr (iht.mpr ho)

/-- `combine r rp` with a stored `rp` whose cofactor is the usable large prime `p` -/
theorem combine_stored2 {n : Nat} {r rp rr : Relation} {p : Nat} (h : combine n r rp = .ok rr)
    (hr : FOK r.factors) (hp : FOK rp.factors) (hc : rp.cofactor = p) (hdvd : r.cofactor % p = 0)
    (hl : LargeOK p) : FOK rr.factors ∧ rr.cyclelen = r.cyclelen + rp.cyclelen := by
  obtain ⟨_, _, fs, hfs, hf⟩ := combine_divisor h
  obtain ⟨_, _, _, _, hlen, _⟩ := combine_ok h
  have hd : divisorCof r rp = p := by unfold divisorCof; rw [hc, if_pos hdvd]
  refine ⟨?_, hlen⟩
  rw [hf, FOK_append, hd]
  exact ⟨mergeFactors_fok _ _ _ hfs hr hp, FOK_cons.mpr ⟨factorOK_large hl, FOK_nil⟩⟩

/-- a packed relation decodes to something that can be packed again -/
def GoodF (b : List Nat) : Prop :=
  ∃ r, unpack b = .ok r ∧ FOK r.factors ∧ 0 < r.cyclelen ∧ TailEven r.factors

theorem goodF_of_pack {r : Relation} {b : List Nat} (h : pack r = .ok b) (hty : Typed r)
    (hno : NoOne r.factors) (hf : FOK r.factors) (hl : 0 < r.cyclelen) (hte : TailEven r.factors) :
    GoodF b :=
  ⟨_, unpack_pack' h hty hno, normFactors_fok hf, hl, normFactors_tailEven hte⟩

structure Inv2 (s : Store) : Prop where
  par : ∀ e ∈ s.partials, LargeOK e.1 ∧ GoodF e.2
  dbl : ∀ e ∈ s.doubles, LargeOK e.1.1 ∧ LargeOK e.1.2 ∧ GoodF e.2
  cyc : ∀ r ∈ s.cycles, TailEven r.factors

theorem inv2_new (n fbsize maxlarge : Nat) : Inv2 (Store.new n fbsize maxlarge) := by
  refine ⟨?_, ?_, ?_⟩
  · intro e he; cases he
  · intro e he; cases he
  · intro e he; cases he

theorem inv2_setPartial {s : Store} (h : Inv2 s) {p : Nat} {b : List Nat} (hp : LargeOK p)
    (hg : GoodF b) : Inv2 (s.setPartial p b) := by
  refine ⟨?_, h.dbl, h.cyc⟩
  intro e he
  simp only [Store.setPartial] at he
  rw [mem_ainsert] at he
  rcases he with he | ⟨he, _⟩
  · subst he; exact ⟨hp, hg⟩
  · exact h.par e he

theorem addCycle_inv2 {r : Relation} {s s' : Store} (h : addCycle r s = .ok s') (hi : Inv2 s)
    (hte : TailEven r.factors) : Inv2 s' := by
  obtain ⟨_, _, hs⟩ := addCycle_ok h
  subst hs
  refine ⟨hi.par, hi.dbl, ?_⟩
  intro r' hr'
  simp only [List.mem_append, List.mem_singleton] at hr'
  rcases hr' with hr' | hr'
  · exact hi.cyc r' hr'
  · rw [hr']; exact hte

/-- the part of a relation's contract that `Inv2` needs -/
structure RelOK2 (r : Relation) : Prop where
  typed : Typed r
  noOne : NoOne r.factors
  fok : FOK r.factors
  clen : 0 < r.cyclelen
  te : TailEven r.factors

theorem relOK2_of_unpack {b : List Nat} {r : Relation} (h : unpack b = .ok r) (hg : GoodF b) :
    RelOK2 r := by
  obtain ⟨r', hu, hf, hl, hte⟩ := hg
  rw [h] at hu; cases hu
  obtain ⟨ht, hn, _⟩ := unpack_facts h
  exact ⟨ht, hn, hf, hl, hte⟩

theorem combineSingle_inv2 {r : Relation} {s s' : Store} {done : Bool}
    (h : combineSingle r s = .ok (done, s')) (hi : Inv2 s) (hr : RelOK2 r) : Inv2 s' := by
  unfold combineSingle at h
  split at h
  · simp only [pure_eq_ok, Prod.mk.injEq] at h
    rw [← h.2]; exact hi
  · rename_i blob hlook
    obtain ⟨hl, _⟩ := hi.par _ (alookup_mem hlook)
    simp only [bind_eq_ok] at h
    obtain ⟨r0, _, rr, hcomb, h⟩ := h
    split at h
    · simp only [pure_eq_ok, Prod.mk.injEq] at h
      rw [← h.2]; exact hi
    · split at h
      · simp only [bind_eq_ok] at h
        obtain ⟨s1, hs1, h⟩ := h
        have hi1 := addCycle_inv2 hs1 hi (combine_tailEven hcomb hr.te)
        split at h
        · simp only [bind_eq_ok, pure_eq_ok, Prod.mk.injEq] at h
          obtain ⟨b, hb, _, h⟩ := h
          rw [← h]
          exact inv2_setPartial hi1 hl (goodF_of_pack hb hr.typed hr.noOne hr.fok hr.clen hr.te)
        · simp only [pure_eq_ok, Prod.mk.injEq] at h
          rw [← h.2]; exact hi1
      · simp [throw_ne_ok] at h

/-- `Inv2` for a walk given as a function -/
def WalkInv2 (walk : Nat → Store → M Store) : Prop :=
  ∀ root s s', Inv s → Inv2 s → s.n ≤ X512 → walk root s = .ok s' → Inv2 s'

theorem combineDouble_inv2 {walk : Nat → Store → M Store} (hwalk : WalkInv2 walk)
    {r : Relation} {p q : Nat} {s s' : Store} {done : Bool}
    (h : combineDouble walk r p q s = .ok (done, s')) (hi : Inv s) (hi2 : Inv2 s) (hn : s.n ≤ X512)
    (hr : RelOK2 r) (hrv : Valid s.n r) (hc : r.cofactor = p * q) (hp : LargeOK p)
    (hq : LargeOK q) : Inv2 s' := by
  have hp1 := hp.ne1
  have hq1 := hq.ne1
  have hp32 := hp.lt32
  have hq32 := hq.lt32
  obtain ⟨hrt, hrn, hrf, hrl, hrte⟩ := hr
  unfold combineDouble at h
  split at h
  · simp only [bind_eq_ok, pure_eq_ok, Prod.mk.injEq] at h
    obtain ⟨s1, hs1, _, h⟩ := h
    rw [← h]; exact addCycle_inv2 hs1 hi2 (tailEven_append_even hrte (by decide))
  · split at h
    · rename_i bp bq hlp hlq
      obtain ⟨_, _, rp', hup', hcp, hvp⟩ := hi.par _ (alookup_mem hlp)
      obtain ⟨_, _, rq', huq', hcq, hvq⟩ := hi.par _ (alookup_mem hlq)
      simp only at hup' hcp hvp huq' hcq hvq
      have gp := relOK2_of_unpack hup' (hi2.par _ (alookup_mem hlp)).2
      have gq := relOK2_of_unpack huq' (hi2.par _ (alookup_mem hlq)).2
      simp only [bind_eq_ok] at h
      obtain ⟨rp, hup, rq, huq, r1, hr1, r2, hr2, s1, hs1, h⟩ := h
      rw [hup'] at hup; cases hup
      rw [huq'] at huq; cases huq
      have hi1 := addCycle_inv2 hs1 hi2 (combine_tailEven hr2 (combine_tailEven hr1 hrte))
      split at h
      · simp only [bind_eq_ok] at h
        obtain ⟨rpq, hrpq, h⟩ := h
        split at h
        · simp [throw_ne_ok] at h
        · simp only [bind_eq_ok, pure_eq_ok, Prod.mk.injEq] at h
          obtain ⟨b, hb, _, h⟩ := h
          rw [← h]
          have h3 := combine_stored hrpq hrv hrt hrn hvp gp.typed gp.noOne hcp
            (by rw [hc]; exact Nat.mul_mod_right _ _) hp1 hp32
          have h4 := combine_stored2 hrpq hrf gp.fok hcp
            (by rw [hc]; exact Nat.mul_mod_right _ _) hp
          exact inv2_setPartial hi1 hq
            (goodF_of_pack hb h3.2.1 h3.2.2.1 h4.1 (by rw [h4.2]; omega) (combine_tailEven hrpq hrte))
      · split at h
        · simp only [bind_eq_ok] at h
          obtain ⟨rqp, hrqp, h⟩ := h
          split at h
          · simp [throw_ne_ok] at h
          · simp only [bind_eq_ok, pure_eq_ok, Prod.mk.injEq] at h
            obtain ⟨b, hb, _, h⟩ := h
            rw [← h]
            have h3 := combine_stored hrqp hrv hrt hrn hvq gq.typed gq.noOne hcq
              (by rw [hc]; exact Nat.mul_mod_left _ _) hq1 hq32
            have h4 := combine_stored2 hrqp hrf gq.fok hcq
              (by rw [hc]; exact Nat.mul_mod_left _ _) hq
            exact inv2_setPartial hi1 hp
              (goodF_of_pack hb h3.2.1 h3.2.2.1 h4.1 (by rw [h4.2]; omega) (combine_tailEven hrqp hrte))
        · simp only [pure_eq_ok, Prod.mk.injEq] at h
          rw [← h.2]; exact hi1
    · rename_i bp hlp hlq
      obtain ⟨_, _, rp', hup', hcp, hvp⟩ := hi.par _ (alookup_mem hlp)
      simp only at hup' hcp hvp
      have gp := relOK2_of_unpack hup' (hi2.par _ (alookup_mem hlp)).2
      simp only [bind_eq_ok] at h
      obtain ⟨rp, hup, rq, hrq, h⟩ := h
      rw [hup'] at hup; cases hup
      have h3 := combine_stored hrq hrv hrt hrn hvp gp.typed gp.noOne hcp
        (by rw [hc]; exact Nat.mul_mod_right _ _) hp1 hp32
      have h4 := combine_stored2 hrq hrf gp.fok hcp (by rw [hc]; exact Nat.mul_mod_right _ _) hp
      split at h
      · simp [throw_ne_ok] at h
      · rename_i hcof
        simp only [not_not] at hcof
        simp only [bind_eq_ok, pure_eq_ok, Prod.mk.injEq] at h
        obtain ⟨b, hb, s1, hs1, _, h⟩ := h
        rw [← h]
        have hi0 : Inv { s with nCombined12 := s.nCombined12 + 1 } :=
          ⟨hi.cyc, hi.par, hi.dbl, hi.rev⟩
        have hi20 : Inv2 { s with nCombined12 := s.nCombined12 + 1 } := ⟨hi2.par, hi2.dbl, hi2.cyc⟩
        refine hwalk _ _ _ (inv_setPartial hi0 hq1 hq32 ?_) (inv2_setPartial hi20 hq
          (goodF_of_pack hb h3.2.1 h3.2.2.1 h4.1 (by rw [h4.2]; omega)
            (combine_tailEven hrq hrte))) hn hs1
        rw [← hcof]
        exact goodP_of_pack hb h3.2.1 h3.2.2.1 (lt_of_lt_of_le h3.2.2.2.1 hn) h3.1
    · rename_i bq hlp hlq
      obtain ⟨_, _, rq', huq', hcq, hvq⟩ := hi.par _ (alookup_mem hlq)
      simp only at huq' hcq hvq
      have gq := relOK2_of_unpack huq' (hi2.par _ (alookup_mem hlq)).2
      simp only [bind_eq_ok] at h
      obtain ⟨rq, huq, rp, hrp, h⟩ := h
      rw [huq'] at huq; cases huq
      have h3 := combine_stored hrp hrv hrt hrn hvq gq.typed gq.noOne hcq
        (by rw [hc]; exact Nat.mul_mod_left _ _) hq1 hq32
      have h4 := combine_stored2 hrp hrf gq.fok hcq (by rw [hc]; exact Nat.mul_mod_left _ _) hq
      split at h
      · simp [throw_ne_ok] at h
      · rename_i hcof
        simp only [not_not] at hcof
        simp only [bind_eq_ok, pure_eq_ok, Prod.mk.injEq] at h
        obtain ⟨b, hb, s1, hs1, _, h⟩ := h
        rw [← h]
        have hi0 : Inv { s with nCombined12 := s.nCombined12 + 1 } :=
          ⟨hi.cyc, hi.par, hi.dbl, hi.rev⟩
        have hi20 : Inv2 { s with nCombined12 := s.nCombined12 + 1 } := ⟨hi2.par, hi2.dbl, hi2.cyc⟩
        refine hwalk _ _ _ (inv_setPartial hi0 hp1 hp32 ?_) (inv2_setPartial hi20 hp
          (goodF_of_pack hb h3.2.1 h3.2.2.1 h4.1 (by rw [h4.2]; omega)
            (combine_tailEven hrp hrte))) hn hs1
        rw [← hcof]
        exact goodP_of_pack hb h3.2.1 h3.2.2.1 (lt_of_lt_of_le h3.2.2.2.1 hn) h3.1
    · simp only [pure_eq_ok, Prod.mk.injEq] at h
      rw [← h.2]; exact hi2

theorem inv2_erase_double {s : Store} (hi : Inv2 s) (p q : Nat) :
    Inv2 { s with doubles := aerase (p, q) s.doubles, doublesRev := serase (q, p) s.doublesRev } :=
  ⟨hi.par, fun e he => hi.dbl e (mem_aerase.mp he).1, hi.cyc⟩

theorem walkStep_inv2 {walk : Nat → Store → M Store} (hwalk : WalkInv2 walk)
    {p q : Nat} {s s' : Store} (h : walkStep walk p q s = .ok s') (hi : Inv s) (hi2 : Inv2 s)
    (hn : s.n ≤ X512) : Inv2 s' := by
  unfold walkStep at h
  split at h
  · simp only [pure_eq_ok] at h
    rw [← h]; exact hi2
  · rename_i blob hlook
    obtain ⟨_, _, _, _, r', hu', hc', hv'⟩ := hi.dbl _ (alookup_mem hlook)
    obtain ⟨hlp, hlq, hg⟩ := hi2.dbl _ (alookup_mem hlook)
    simp only at hu' hc' hv' hlp hlq hg
    simp only [bind_eq_ok] at h
    obtain ⟨r, hu, res, hres, h⟩ := h
    rw [hu'] at hu; cases hu
    split at h
    · simp only [pure_eq_ok] at h
      rw [← h]
      exact combineDouble_inv2 hwalk (done := res.1) (s' := res.2) hres (inv_erase_double hi p q)
        (inv2_erase_double hi2 p q) hn (relOK2_of_unpack hu' hg) hv' hc' hlp hlq
    · simp [throw_ne_ok] at h

/-- `Keeps` and `Inv2` together, for a walk given as a function -/
def WalkKeeps' (walk : Nat → Store → M Store) : Prop :=
  ∀ root s s', Inv s → s.n ≤ X512 → walk root s = .ok s' → Keeps s s'

theorem walkLoop1_inv2 {walk : Nat → Store → M Store} (hwalk : WalkInv2 walk)
    (hk : WalkKeeps' walk) : ∀ (l : List (Nat × Nat)) (s s' : Store),
      walkLoop1 walk l s = .ok s' → Inv s → Inv2 s → s.n ≤ X512 → Inv2 s' := by
  intro l
  induction l with
  | nil =>
    intro s s' h _ hi2 _
    simp only [walkLoop1, pure_eq_ok] at h
    rw [← h]; exact hi2
  | cons e t ih =>
    obtain ⟨p, q⟩ := e
    intro s s' h hi hi2 hn
    simp only [walkLoop1, bind_eq_ok] at h
    obtain ⟨s1, hs1, h⟩ := h
    have hk1 := walkStep_keeps hk hs1 hi hn
    exact ih s1 s' h hk1.2.2 (walkStep_inv2 hwalk hs1 hi hi2 hn) (by rw [hk1.1]; exact hn)

theorem walkLoop2_inv2 {walk : Nat → Store → M Store} (hwalk : WalkInv2 walk)
    (hk : WalkKeeps' walk) : ∀ (l : List (Nat × Nat)) (s s' : Store),
      walkLoop2 walk l s = .ok s' → Inv s → Inv2 s → s.n ≤ X512 → Inv2 s' := by
  intro l
  induction l with
  | nil =>
    intro s s' h _ hi2 _
    simp only [walkLoop2, pure_eq_ok] at h
    rw [← h]; exact hi2
  | cons e t ih =>
    obtain ⟨q, p⟩ := e
    intro s s' h hi hi2 hn
    simp only [walkLoop2, bind_eq_ok] at h
    obtain ⟨s1, hs1, h⟩ := h
    have hk1 := walkStep_keeps hk hs1 hi hn
    exact ih s1 s' h hk1.2.2 (walkStep_inv2 hwalk hs1 hi hi2 hn) (by rw [hk1.1]; exact hn)

theorem walkRec_inv2 {walk : Nat → Store → M Store} (hwalk : WalkInv2 walk)
    (hk : WalkKeeps' walk) (root : Nat) : ∀ (l : List (Nat × Nat)) (s s' : Store),
      walkRec walk root l s = .ok s' → Inv s → Inv2 s → s.n ≤ X512 → Inv2 s' := by
  intro l
  induction l with
  | nil =>
    intro s s' h _ hi2 _
    simp only [walkRec, pure_eq_ok] at h
    rw [← h]; exact hi2
  | cons e t ih =>
    obtain ⟨a, b⟩ := e
    intro s s' h hi hi2 hn
    unfold walkRec at h
    split at h
    · simp [throw_ne_ok] at h
    · simp only [bind_eq_ok] at h
      obtain ⟨s1, hs1, h⟩ := h
      have hk1 := hk _ _ _ hi hn hs1
      exact ih s1 s' h hk1.2.2 (hwalk _ _ _ hi hi2 hn hs1) (by rw [hk1.1]; exact hn)

theorem walkDoubles_inv2 : ∀ (fuel : Nat), WalkInv2 (walkDoubles fuel) := by
  intro fuel
  induction fuel with
  | zero => intro root s s' _ _ _ h; simp [walkDoubles, throw_ne_ok] at h
  | succ fuel ih =>
    intro root s s' hi hi2 hn h
    have hkf : WalkKeeps' (walkDoubles fuel) :=
      fun root s s' hi hn h => walkDoubles_keeps fuel root s s' hi hn h
    rw [walkDoubles_unfold] at h
    split at h
    · simp [throw_ne_ok] at h
    · simp only [bind_eq_ok] at h
      obtain ⟨s1, hs1, s2, hs2, s3, hs3, h⟩ := h
      have k1 := walkLoop1_keeps hkf _ _ _ hs1 hi hn
      have hn1 : s1.n ≤ X512 := by rw [k1.1]; exact hn
      have k2 := walkLoop2_keeps hkf _ _ _ hs2 k1.2.2 hn1
      have hn2 : s2.n ≤ X512 := by rw [k2.1]; exact hn1
      have k3 := walkRec_keeps hkf root _ _ _ hs3 k2.2.2 hn2
      have hn3 : s3.n ≤ X512 := by rw [k3.1]; exact hn2
      have j1 := walkLoop1_inv2 ih hkf _ _ _ hs1 hi hi2 hn
      have j2 := walkLoop2_inv2 ih hkf _ _ _ hs2 k1.2.2 j1 hn1
      have j3 := walkRec_inv2 ih hkf root _ _ _ hs3 k2.2.2 j2 hn2
      exact walkRec_inv2 ih hkf root _ _ _ h k3.2.2 j3 hn3

/-- The callers' contract of `add`, complete form (no-panic part included): the validity contract
`InputOK`, `x < n` (the code's debug assertion), factor entries in the encoder's domain, a positive
cycle length, and usable large primes: the cofactor itself when it is treated as a single large
prime, the supplied pair when it is treated as a double. -/
structure InputOK2 (s : Store) (r : Relation) (pq : Option (Nat × Nat)) : Prop where
  base : InputOK s.n r pq
  xlt : r.x < s.n
  fok : FOK r.factors
  clen : 0 < r.cyclelen
  single : r.cofactor ≠ 1 → r.cofactor < s.maxlarge → LargeOK r.cofactor
  pairOK : ∀ p q, pq = some (p, q) → s.maxlarge ≤ r.cofactor → LargeOK p ∧ LargeOK q
  te : TailEven r.factors

theorem InputOK2.rel {s : Store} {r : Relation} {pq : Option (Nat × Nat)} (h : InputOK2 s r pq) :
    RelOK2 r := ⟨h.base.typed, h.base.noOne, h.fok, h.clen, h.te⟩

theorem add_inv2 {r : Relation} {pq : Option (Nat × Nat)} {s s' : Store}
    (h : add r pq s = .ok s') (hi : Inv s) (hi2 : Inv2 s) (hn : s.n ≤ X512)
    (hin : InputOK2 s r pq) : Inv2 s' := by
  have hrel := hin.rel
  obtain ⟨⟨hrt, hrv, hrn, hpair⟩, hx, hrf, hrl, hsingle, hpairOK, hrte⟩ := hin
  unfold add at h
  split at h
  · simp [throw_ne_ok] at h
  · split at h
    · exact addCycle_inv2 h hi2 hrte
    · rename_i hc1
      split at h
      · rename_i hlt
        have hl := hsingle hc1 hlt
        simp only [bind_eq_ok] at h
        obtain ⟨res, hres, h⟩ := h
        have hi0 : Inv { s with nPartials := s.nPartials + 1 } := ⟨hi.cyc, hi.par, hi.dbl, hi.rev⟩
        have hi20 : Inv2 { s with nPartials := s.nPartials + 1 } := ⟨hi2.par, hi2.dbl, hi2.cyc⟩
        have hk1 : Keeps { s with nPartials := s.nPartials + 1 } res.2 :=
          combineSingle_keeps (done := res.1) (s' := res.2) hres hi0 hn hrt hrn hrv hx
        have j1 := combineSingle_inv2 (done := res.1) (s' := res.2) hres hi20 hrel
        split at h
        · simp only [pure_eq_ok] at h
          rw [← h]; exact j1
        · simp only [bind_eq_ok] at h
          obtain ⟨b, hb, h⟩ := h
          split at h
          · simp [throw_ne_ok] at h
          · have hn1 : res.2.n ≤ X512 := by rw [hk1.1]; exact hn
            have hi2' : Inv (res.2.setPartial r.cofactor b) := by
              refine inv_setPartial hk1.2.2 hc1 hl.lt32 ?_
              rw [hk1.1]
              exact goodP_of_pack hb hrt hrn (lt_of_lt_of_le hx hn) hrv
            exact walkDoubles_inv2 _ _ _ _ hi2' (inv2_setPartial j1 hl
              (goodF_of_pack hb hrt hrn hrf hrl hrte)) hn1 h
      · rename_i hge
        split at h
        · simp only [pure_eq_ok] at h
          rw [← h]; exact hi2
        · rename_i p q
          obtain ⟨hc, _, _⟩ := hpair p q rfl
          obtain ⟨hp, hq⟩ := hpairOK p q rfl (by omega)
          split at h
          · simp [throw_ne_ok] at h
          · simp only [bind_eq_ok] at h
            obtain ⟨res, hres, h⟩ := h
            have hi0 : Inv { s with nDoubles := s.nDoubles + 1 } := ⟨hi.cyc, hi.par, hi.dbl, hi.rev⟩
            have hi20 : Inv2 { s with nDoubles := s.nDoubles + 1 } := ⟨hi2.par, hi2.dbl, hi2.cyc⟩
            have j1 := combineDouble_inv2 (walkDoubles_inv2 _) (done := res.1) (s' := res.2) hres
              hi0 hi20 hn hrel hrv hc hp hq
            split at h
            · simp only [pure_eq_ok] at h
              rw [← h]; exact j1
            · simp only [bind_eq_ok, pure_eq_ok] at h
              obtain ⟨b, hb, h⟩ := h
              rw [← h]
              refine ⟨j1.par, ?_, j1.cyc⟩
              intro e he
              rw [mem_ainsert] at he
              rcases he with he | ⟨he, _⟩
              · subst he
                have hg := goodF_of_pack hb hrt hrn hrf hrl hrte
                by_cases hlt : p < q
                · simp only [if_pos hlt]; exact ⟨hp, hq, hg⟩
                · simp only [if_neg hlt]; exact ⟨hq, hp, hg⟩
              · exact j1.dbl e he

/-- contract of a whole history, complete form -/
def HistoryOK2 (n maxlarge : Nat) (ops : List (Relation × Option (Nat × Nat))) : Prop :=
  ∀ op ∈ ops, ∀ s : Store, s.n = n → s.maxlarge = maxlarge → InputOK2 s op.1 op.2

theorem runHistory_inv2 : ∀ (ops : List (Relation × Option (Nat × Nat))) (s s' : Store),
    runHistory ops s = .ok s' → Inv s → Inv2 s → s.n ≤ X512 → HistoryOK2 s.n s.maxlarge ops →
    Inv2 s' := by
  intro ops
  induction ops with
  | nil =>
    intro s s' h _ hi2 _ _
    simp only [runHistory, pure_eq_ok] at h
    rw [← h]; exact hi2
  | cons op t ih =>
    obtain ⟨r, pq⟩ := op
    intro s s' h hi hi2 hn hok
    simp only [runHistory, bind_eq_ok] at h
    obtain ⟨s1, hs1, h⟩ := h
    have hin := hok (r, pq) List.mem_cons_self s rfl rfl
    have hk := add_keeps hs1 hi hn hin.base
    refine ih s1 s' h hk.2.2 (add_inv2 hs1 hi hi2 hn hin) (by rw [hk.1]; exact hn) ?_
    intro op hop s'' h1 h2
    exact hok op (List.mem_cons_of_mem _ hop) s'' (by rw [h1, hk.1]) (by rw [h2, hk.2.1])

end Ymq.Relations
