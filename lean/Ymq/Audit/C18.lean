import Ymq.Props.C18
#print axioms Ymq.C18.b_plus_unique
#print axioms Ymq.C18.bPlus_spec_odd
#print axioms Ymq.C18.bPlus_spec_even
#print axioms Ymq.C18.sign_total
#print axioms Ymq.C18.sign_exclusive
#print axioms Ymq.C18.large_sign_consistent
#print axioms Ymq.C18.poly_factors_total
#print axioms Ymq.C18.emitted_subset_inputs
#print axioms Ymq.C18.emit_hom
#print axioms Ymq.C18.emit_hom_map
#print axioms Ymq.C18.relLine_val
#print axioms Ymq.C18.reduced_enum_sound
#print axioms Ymq.C18.reduced_enum_complete
#print axioms Ymq.C18.reduced_enum_nodup
#print axioms Ymq.C18.reduced_enum
#print axioms Ymq.C18.invariants_multiply
#print axioms Ymq.C18.invariantsOk_spec
