/-
Counter-witness for the flush threshold `1024 - 32` that `pm1_impl` used before commit 2a39e49
(C17): with `B1 = 65536` the 1024-bit exponent block overflows at the 90th prime, 463.
-/
import Ymq.Lemmas.SmoothBasePm1Top
import Ymq.Lemmas.PrimesSmall

namespace Ymq.Pm1
open Ymq.Primes Ymq.SmoothBase

/-- a panic inside the inner loop is not undone by more input -/
theorem block_none_append (thr b1 : Nat) : ∀ (ps rest : List Nat) (st : St),
    block thr b1 ps st = none → block thr b1 (ps ++ rest) st = none := by
  intro ps
  induction ps with
  | nil => intro rest st h; simp [block] at h
  | cons p ps ih =>
    intro rest st h
    rw [List.cons_append, block]
    rw [block] at h
    cases hs : step thr b1 st p with
    | none => rfl
    | some r =>
      obtain ⟨st', fl⟩ := r
      rw [hs] at h
      cases fl with
      | true => simp at h
      | false =>
        simp only at h ⊢
        exact ih rest st' h

/-- with threshold 992 and `B1 = 65536` the model reaches the `U1024` overflow site while
consuming the first 90 primes -/
theorem witness_prefix : block 992 65536 first90 st0 = none := by
  have : (block 992 65536 first90 st0).isNone = true := by decide +kernel
  exact Option.isNone_iff_eq_none.mp this

/-- … whereas threshold 960 (the code after the fix) gets through the same primes -/
theorem witness_prefix_960 : (block 960 65536 first90 st0).isSome = true := by decide +kernel

theorem stage1_992_overflow : stage1 992 65536 = none := by
  obtain ⟨ps0, ps1, hnew, hnext, _⟩ := new_spec primes_6542
  have hsplit : primesBelow 65536 = first90 ++ primesFrom 464 65072 := by
    rw [show (65536 : Nat) = 464 + 65072 from rfl, primesBelow_append, primesBelow_464]
  unfold stage1
  rw [if_neg (by decide), hnew]
  simp only
  rw [hnext]
  simp only
  rw [show (65600 : Nat) = 65599 + 1 from rfl, outer, hsplit,
    block_none_append 992 65536 first90 _ st0 witness_prefix]

end Ymq.Pm1
