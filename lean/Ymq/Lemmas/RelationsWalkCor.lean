/-
The theorems of the relation store transported to the explicit-stack formulation
(`addStack`, `runHistoryStack`: Ymq/Model/RelationsWalk.lean, the code since fix e402536).
The proofs of `add_keeps`, `add_disj`, `add_inv2`, `add_mono` and of the history inductions go
through verbatim with the facts about the recursive walk replaced by their stack versions, which
follow from `walkStack_imp_rec`.
-/
import Ymq.Lemmas.RelationsWalk
import Ymq.Lemmas.RelationsDisjoint

namespace Ymq.Relations

/-- every non-fuel result of the explicit-stack walk is the result of the recursive walk -/
theorem walkStack_imp_rec {k root : Nat} {s : Store} {R : M Store} (h : walkStack k root s = R)
    (hR : R ≠ .error .fuel) : walkDoubles (k + 1) root s = R := by
  unfold walkStack at h
  rw [walkFrame_eq] at h
  rw [walkDoubles_acts]
  split
  · rename_i hc; rw [if_pos hc] at h; exact h
  · rename_i hc
    rw [if_neg hc] at h
    have h1 := walkIter_imp_runStack k _ s R h hR
    simp only [runStack, frame0, List.drop_zero] at h1
    have hp : ∀ x : M Store, (x >>= pure) = x := by intro x; cases x <;> rfl
    rw [← h1]
    exact (hp _).symm

theorem combineDoubleStack_eq (k : Nat) (r : Relation) (p q : Nat) (s : Store) :
    combineDoubleStack k r p q s = combineDouble (walkStack k) r p q s := by
  rw [combineDouble_eq_step]; rfl

theorem walkStack_keeps (k root : Nat) (s s' : Store) (hi : Inv s) (hn : s.n ≤ X512)
    (h : walkStack k root s = .ok s') : Keeps s s' :=
  walkDoubles_keeps _ root s s' hi hn (walkStack_imp_rec h (by intro hc; cases hc))

theorem walkStack_mono (k root : Nat) (s s' : Store) (h : walkStack k root s = .ok s') : Mono s s' :=
  walkDoubles_mono _ root s s' (walkStack_imp_rec h (by intro hc; cases hc))

theorem walkStack_tol (k : Nat) : WalkTol (walkStack k) :=
  fun root s s' T hi hn h ht =>
    walkDoubles_tol _ root s s' T hi hn (walkStack_imp_rec h (by intro hc; cases hc)) ht

theorem walkStack_inv2 (k : Nat) : WalkInv2 (walkStack k) :=
  fun root s s' hi hi2 hn h =>
    walkDoubles_inv2 _ root s s' hi hi2 hn (walkStack_imp_rec h (by intro hc; cases hc))

theorem addStack_keeps {r : Relation} {pq : Option (Nat × Nat)} {s s' : Store}
    (h : addStack r pq s = .ok s') (hi : Inv s) (hn : s.n ≤ X512) (hin : InputOK s.n r pq) :
    Keeps s s' := by
  obtain ⟨hrt, hrv, hrn, hpair⟩ := hin
  unfold addStack at h
  simp only [combineDoubleStack_eq] at h
  split at h
  · simp [throw_ne_ok] at h
  · rename_i hx
    simp only [not_not] at hx
    split at h
    · exact (addCycle_keeps h hi hrv).1
    · rename_i hc1
      split at h
      · -- single large prime
        simp only [bind_eq_ok] at h
        obtain ⟨res, hres, h⟩ := h
        have hi0 : Inv { s with nPartials := s.nPartials + 1 } := ⟨hi.cyc, hi.par, hi.dbl, hi.rev⟩
        have hk0 : Keeps s { s with nPartials := s.nPartials + 1 } := ⟨rfl, rfl, hi0⟩
        have hk1 : Keeps s res.2 :=
          hk0.trans (combineSingle_keeps (done := res.1) (s' := res.2) hres hi0 hn hrt hrn hrv hx)
        split at h
        · simp only [pure_eq_ok] at h
          rw [← h]; exact hk1
        · simp only [bind_eq_ok] at h
          obtain ⟨b, hb, h⟩ := h
          split at h
          · simp [throw_ne_ok] at h
          · rename_i h32
            have hk2 : Keeps s (res.2.setPartial r.cofactor b) := by
              refine hk1.trans (keeps_setPartial hk1.2.2 hc1 (by omega) ?_)
              rw [hk1.1]
              exact goodP_of_pack hb hrt hrn (lt_of_lt_of_le hx hn) hrv
            exact hk2.trans (walkStack_keeps _ _ _ _ hk2.2.2 (by rw [hk2.1]; exact hn) h)
      · split at h
        · simp only [pure_eq_ok] at h
          rw [← h]; exact Keeps.refl hi
        · rename_i p q
          obtain ⟨hc, hp1, hq1⟩ := hpair p q rfl
          split at h
          · simp [throw_ne_ok] at h
          · rename_i h32
            have hp32 : p < W32 := by omega
            have hq32 : q < W32 := by omega
            simp only [bind_eq_ok] at h
            obtain ⟨res, hres, h⟩ := h
            have hi0 : Inv { s with nDoubles := s.nDoubles + 1 } := ⟨hi.cyc, hi.par, hi.dbl, hi.rev⟩
            have hk0 : Keeps s { s with nDoubles := s.nDoubles + 1 } := ⟨rfl, rfl, hi0⟩
            have hk1 : Keeps s res.2 := hk0.trans
              (combineDouble_keeps (fun root s s' a b c => walkStack_keeps _ root s s' a b c)
                (done := res.1) (s' := res.2) hres hi0 hn hrt hrn hrv hc hp1 hq1 hp32 hq32)
            split at h
            · simp only [pure_eq_ok] at h
              rw [← h]; exact hk1
            · rename_i hdone
              simp only [bind_eq_ok, pure_eq_ok] at h
              obtain ⟨b, hb, h⟩ := h
              rw [← h]
              -- the only way `combine_double` declines is p ≠ q
              have hne : p ≠ q := by
                intro hpq
                unfold combineDouble at hres
                rw [if_pos hpq] at hres
                simp only [bind_eq_ok, pure_eq_ok] at hres
                obtain ⟨_, _, hres⟩ := hres
                rw [← hres] at hdone
                exact hdone rfl
              have hg := goodP_of_pack (n := res.2.n) hb hrt hrn (lt_of_lt_of_le hx hn)
                (by rw [hk1.1]; exact hrv)
              obtain ⟨r', hu', hc', hv'⟩ := hg
              have hi1 := hk1.2.2
              refine ⟨hk1.1, hk1.2.1, ⟨hi1.cyc, hi1.par, ?_, ?_⟩⟩
              · intro e he
                rw [mem_ainsert] at he
                rcases he with he | ⟨he, _⟩
                · subst he
                  by_cases hlt : p < q
                  · simp only [if_pos hlt]
                    exact ⟨hlt, hp1, hq1, hq32, r', hu', by rw [hc', hc], hv'⟩
                  · simp only [if_neg hlt]
                    exact ⟨by omega, hq1, hp1, hp32, r', hu', by rw [hc', hc, Nat.mul_comm], hv'⟩
                · exact hi1.dbl e he
              · intro p' q'
                rw [mem_sinsert, hi1.rev p' q']
                constructor
                · rintro (heq | ⟨b', hb'⟩)
                  · refine ⟨b, ?_⟩
                    rw [mem_ainsert]
                    left
                    simp only [Prod.mk.injEq] at heq
                    rw [heq.1, heq.2]
                  · by_cases hk : (p', q') = (if p < q then (p, q) else (q, p))
                    · refine ⟨b, ?_⟩
                      rw [mem_ainsert]; left; rw [hk]
                    · refine ⟨b', ?_⟩
                      rw [mem_ainsert]; right; exact ⟨hb', hk⟩
                · rintro ⟨b', hb'⟩
                  rw [mem_ainsert] at hb'
                  rcases hb' with hb' | ⟨hb', _⟩
                  · left
                    simp only [Prod.mk.injEq] at hb'
                    rw [← hb'.1]
                  · right; exact ⟨b', hb'⟩

theorem runHistoryStack_keeps : ∀ (ops : List (Relation × Option (Nat × Nat))) (s s' : Store),
    runHistoryStack ops s = .ok s' → Inv s → s.n ≤ X512 → HistoryOK s.n ops → Keeps s s' := by
  intro ops
  induction ops with
  | nil =>
    intro s s' h hi _ _
    simp only [runHistoryStack, pure_eq_ok] at h
    rw [← h]; exact Keeps.refl hi
  | cons op t ih =>
    obtain ⟨r, pq⟩ := op
    intro s s' h hi hn hok
    simp only [runHistoryStack, bind_eq_ok] at h
    obtain ⟨s1, hs1, h⟩ := h
    have hk := addStack_keeps hs1 hi hn (hok (r, pq) (by simp))
    refine hk.trans (ih s1 s' h hk.2.2 (by rw [hk.1]; exact hn) ?_)
    intro op hop
    rw [hk.1]
    exact hok op (List.mem_cons_of_mem _ hop)

theorem addStack_mono {r : Relation} {pq : Option (Nat × Nat)} {s s' : Store}
    (h : addStack r pq s = .ok s') : ∀ k, pkey s k → pkey s' k := by
  unfold addStack at h
  simp only [combineDoubleStack_eq] at h
  split at h
  · simp [throw_ne_ok] at h
  · split at h
    · exact (addCycle_mono h).1.pmono
    · split at h
      · simp only [bind_eq_ok] at h
        obtain ⟨res, hres, h⟩ := h
        obtain ⟨hm, _, _, _⟩ := combineSingle_mono (done := res.1) (s' := res.2) hres
        split at h
        · simp only [pure_eq_ok] at h
          rw [← h]; exact fun k hk => hm.pmono k hk
        · simp only [bind_eq_ok] at h
          obtain ⟨b, _, h⟩ := h
          split at h
          · simp [throw_ne_ok] at h
          · have := walkStack_mono _ _ _ _ h
            exact fun k hk => this.pmono k ((mono_setPartial _ _ _).pmono k (hm.pmono k hk))
      · split at h
        · simp only [pure_eq_ok] at h
          rw [← h]; exact fun _ hk => hk
        · split at h
          · simp [throw_ne_ok] at h
          · simp only [bind_eq_ok] at h
            obtain ⟨res, hres, h⟩ := h
            obtain ⟨hm, _, _⟩ := combineDouble_mono (fun root s s' h => walkStack_mono _ root s s' h)
              (done := res.1) (s' := res.2) hres
            split at h
            · simp only [pure_eq_ok] at h
              rw [← h]; exact fun k hk => hm.pmono k hk
            · simp only [bind_eq_ok, pure_eq_ok] at h
              obtain ⟨b, _, h⟩ := h
              rw [← h]
              exact fun k hk => hm.pmono k hk

theorem addStack_disj {r : Relation} {pq : Option (Nat × Nat)} {s s' : Store}
    (h : addStack r pq s = .ok s') (hi : Inv s) (hn : s.n ≤ X512) (hin : InputOK s.n r pq)
    (hd : Disj s) : Disj s' := by
  obtain ⟨hrt, hrv, hrn, hpair⟩ := hin
  rw [disj_iff_tol] at hd ⊢
  unfold addStack at h
  simp only [combineDoubleStack_eq] at h
  split at h
  · simp [throw_ne_ok] at h
  · rename_i hx
    simp only [not_not] at hx
    split at h
    · obtain ⟨_, hp, hdd, _⟩ := addCycle_mono h
      exact tol_of_same hd (fun k => by unfold pkey; rw [hp]) (by rw [hdd]; exact fun _ h => h)
    · rename_i hc1
      split at h
      · simp only [bind_eq_ok] at h
        obtain ⟨res, hres, h⟩ := h
        have hi0 : Inv { s with nPartials := s.nPartials + 1 } := ⟨hi.cyc, hi.par, hi.dbl, hi.rev⟩
        have hk1 : Keeps { s with nPartials := s.nPartials + 1 } res.2 :=
          combineSingle_keeps (done := res.1) (s' := res.2) hres hi0 hn hrt hrn hrv hx
        obtain ⟨_, hpk, hdd, _⟩ := combineSingle_mono (done := res.1) (s' := res.2) hres
        have hd0 : Tol (fun _ => False) { s with nPartials := s.nPartials + 1 } := hd
        have t1 : Tol (fun _ => False) res.2 :=
          tol_of_same hd0 hpk (by rw [hdd]; exact fun _ h => h)
        split at h
        · simp only [pure_eq_ok] at h
          rw [← h]; exact t1
        · simp only [bind_eq_ok] at h
          obtain ⟨b, hb, h⟩ := h
          split at h
          · simp [throw_ne_ok] at h
          · rename_i h32
            have hn1 : res.2.n ≤ X512 := by rw [hk1.1]; exact hn
            have hi2 : Inv (res.2.setPartial r.cofactor b) := by
              refine inv_setPartial hk1.2.2 hc1 (by omega) ?_
              rw [hk1.1]
              exact goodP_of_pack hb hrt hrn (lt_of_lt_of_le hx hn) hrv
            exact walkStack_tol _ _ _ _ _ hi2 hn1 h (tol_setPartial t1 _ _)
      · split at h
        · simp only [pure_eq_ok] at h
          rw [← h]; exact hd
        · rename_i p q
          obtain ⟨hc, hp1, hq1⟩ := hpair p q rfl
          split at h
          · simp [throw_ne_ok] at h
          · rename_i h32
            have hp32 : p < W32 := by omega
            have hq32 : q < W32 := by omega
            simp only [bind_eq_ok] at h
            obtain ⟨res, hres, h⟩ := h
            have hi0 : Inv { s with nDoubles := s.nDoubles + 1 } := ⟨hi.cyc, hi.par, hi.dbl, hi.rev⟩
            have hd0 : Tol (fun _ => False) { s with nDoubles := s.nDoubles + 1 } := hd
            have t1 : Tol (fun _ => False) res.2 :=
              combineDouble_tol (walkStack_tol _) (done := res.1) (s' := res.2) hres hi0 hn
                hrt hrn hrv hc hp1 hq1 hp32 hq32 hd0
            split at h
            · simp only [pure_eq_ok] at h
              rw [← h]; exact t1
            · rename_i hdone
              simp only [bind_eq_ok, pure_eq_ok] at h
              obtain ⟨b, _, h⟩ := h
              rw [← h]
              obtain ⟨_, _, hfalse⟩ := combineDouble_mono
                (fun root s s' h => walkStack_mono _ root s s' h) (done := res.1) (s' := res.2) hres
              obtain ⟨hs, hnp, hnq⟩ := hfalse (by simpa using hdone)
              intro k hk hb
              obtain ⟨b', hb'⟩ := hk
              simp only [mem_ainsert] at hb'
              have hpk : ∀ v, pkey { res.2 with
                  doubles := ainsert ltPair (if p < q then (p, q) else (q, p)) b res.2.doubles,
                  doublesRev := sinsert ((if p < q then (p, q) else (q, p)).2,
                    (if p < q then (p, q) else (q, p)).1) res.2.doublesRev } v ↔ pkey res.2 v :=
                fun _ => Iff.rfl
              rw [hpk, hpk] at hb
              rcases hb' with hb' | ⟨hb', _⟩
              · simp only [Prod.mk.injEq] at hb'
                rw [hs] at hb
                exfalso
                by_cases hlt : p < q
                · rw [if_pos hlt] at hb'
                  rw [hb'.1] at hb
                  rcases hb with hb | hb
                  · exact hnp hb
                  · exact hnq hb
                · rw [if_neg hlt] at hb'
                  rw [hb'.1] at hb
                  rcases hb with hb | hb
                  · exact hnq hb
                  · exact hnp hb
              · exact t1 k ⟨b', hb'⟩ hb

theorem runHistoryStack_disj : ∀ (ops : List (Relation × Option (Nat × Nat))) (s s' : Store),
    runHistoryStack ops s = .ok s' → Inv s → s.n ≤ X512 → HistoryOK s.n ops → Disj s → Disj s' := by
  intro ops
  induction ops with
  | nil =>
    intro s s' h _ _ _ hd
    simp only [runHistoryStack, pure_eq_ok] at h
    rw [← h]; exact hd
  | cons op t ih =>
    obtain ⟨r, pq⟩ := op
    intro s s' h hi hn hok hd
    simp only [runHistoryStack, bind_eq_ok] at h
    obtain ⟨s1, hs1, h⟩ := h
    have hin := hok (r, pq) (by simp)
    have hk := addStack_keeps hs1 hi hn hin
    refine ih s1 s' h hk.2.2 (by rw [hk.1]; exact hn) ?_ (addStack_disj hs1 hi hn hin hd)
    intro op hop
    rw [hk.1]
    exact hok op (List.mem_cons_of_mem _ hop)

theorem addStack_inv2 {r : Relation} {pq : Option (Nat × Nat)} {s s' : Store}
    (h : addStack r pq s = .ok s') (hi : Inv s) (hi2 : Inv2 s) (hn : s.n ≤ X512)
    (hin : InputOK2 s r pq) : Inv2 s' := by
  have hrel := hin.rel
  obtain ⟨⟨hrt, hrv, hrn, hpair⟩, hx, hrf, hrl, hsingle, hpairOK, hrte⟩ := hin
  unfold addStack at h
  simp only [combineDoubleStack_eq] at h
  split at h
  · simp [throw_ne_ok] at h
  · split at h
    · exact addCycle_inv2 h hi2 hrte
    · rename_i hc1
      split at h
      · rename_i hlt
        have hl := hsingle hc1 hlt
        simp only [bind_eq_ok] at h
        obtain ⟨res, hres, h⟩ := h
        have hi0 : Inv { s with nPartials := s.nPartials + 1 } := ⟨hi.cyc, hi.par, hi.dbl, hi.rev⟩
        have hi20 : Inv2 { s with nPartials := s.nPartials + 1 } := ⟨hi2.par, hi2.dbl, hi2.cyc⟩
        have hk1 : Keeps { s with nPartials := s.nPartials + 1 } res.2 :=
          combineSingle_keeps (done := res.1) (s' := res.2) hres hi0 hn hrt hrn hrv hx
        have j1 := combineSingle_inv2 (done := res.1) (s' := res.2) hres hi20 hrel
        split at h
        · simp only [pure_eq_ok] at h
          rw [← h]; exact j1
        · simp only [bind_eq_ok] at h
          obtain ⟨b, hb, h⟩ := h
          split at h
          · simp [throw_ne_ok] at h
          · have hn1 : res.2.n ≤ X512 := by rw [hk1.1]; exact hn
            have hi2' : Inv (res.2.setPartial r.cofactor b) := by
              refine inv_setPartial hk1.2.2 hc1 hl.lt32 ?_
              rw [hk1.1]
              exact goodP_of_pack hb hrt hrn (lt_of_lt_of_le hx hn) hrv
            exact walkStack_inv2 _ _ _ _ hi2' (inv2_setPartial j1 hl
              (goodF_of_pack hb hrt hrn hrf hrl hrte)) hn1 h
      · rename_i hge
        split at h
        · simp only [pure_eq_ok] at h
          rw [← h]; exact hi2
        · rename_i p q
          obtain ⟨hc, _, _⟩ := hpair p q rfl
          obtain ⟨hp, hq⟩ := hpairOK p q rfl (by omega)
          split at h
          · simp [throw_ne_ok] at h
          · simp only [bind_eq_ok] at h
            obtain ⟨res, hres, h⟩ := h
            have hi0 : Inv { s with nDoubles := s.nDoubles + 1 } := ⟨hi.cyc, hi.par, hi.dbl, hi.rev⟩
            have hi20 : Inv2 { s with nDoubles := s.nDoubles + 1 } := ⟨hi2.par, hi2.dbl, hi2.cyc⟩
            have j1 := combineDouble_inv2 (walkStack_inv2 _) (done := res.1) (s' := res.2) hres
              hi0 hi20 hn hrel hrv hc hp hq
            split at h
            · simp only [pure_eq_ok] at h
              rw [← h]; exact j1
            · simp only [bind_eq_ok, pure_eq_ok] at h
              obtain ⟨b, hb, h⟩ := h
              rw [← h]
              refine ⟨j1.par, ?_, j1.cyc⟩
              intro e he
              rw [mem_ainsert] at he
              rcases he with he | ⟨he, _⟩
              · subst he
                have hg := goodF_of_pack hb hrt hrn hrf hrl hrte
                by_cases hlt : p < q
                · simp only [if_pos hlt]; exact ⟨hp, hq, hg⟩
                · simp only [if_neg hlt]; exact ⟨hq, hp, hg⟩
              · exact j1.dbl e he

theorem runHistoryStack_inv2 : ∀ (ops : List (Relation × Option (Nat × Nat))) (s s' : Store),
    runHistoryStack ops s = .ok s' → Inv s → Inv2 s → s.n ≤ X512 → HistoryOK2 s.n s.maxlarge ops →
    Inv2 s' := by
  intro ops
  induction ops with
  | nil =>
    intro s s' h _ hi2 _ _
    simp only [runHistoryStack, pure_eq_ok] at h
    rw [← h]; exact hi2
  | cons op t ih =>
    obtain ⟨r, pq⟩ := op
    intro s s' h hi hi2 hn hok
    simp only [runHistoryStack, bind_eq_ok] at h
    obtain ⟨s1, hs1, h⟩ := h
    have hin := hok (r, pq) List.mem_cons_self s rfl rfl
    have hk := addStack_keeps hs1 hi hn hin.base
    refine ih s1 s' h hk.2.2 (addStack_inv2 hs1 hi hi2 hn hin) (by rw [hk.1]; exact hn) ?_
    intro op hop s'' h1 h2
    exact hok op (List.mem_cons_of_mem _ hop) s'' (by rw [h1, hk.1]) (by rw [h2, hk.2.1])

/-! ### equivalence of the two formulations of the walk -/

/-- stack ⟹ recursive: a non-fuel result of the stack loop with `k` iterations is the result of
the recursive walk for every recursion fuel `> k` -/
theorem walkStack_eq_rec_of_stack {k root : Nat} {s : Store} {R : M Store}
    (h : walkStack k root s = R) (hR : R ≠ .error .fuel) :
    ∀ f, k + 1 ≤ f → walkDoubles f root s = R :=
  fun _ hf => walkDoubles_fuel_le hf root s R (walkStack_imp_rec h hR) hR

/-- recursive ⟹ stack: a non-fuel result of the recursive walk is the result of the stack loop for
every sufficiently large number of iterations (in particular the loop terminates) -/
theorem walkStack_eq_rec_of_rec {f root : Nat} {s : Store} {R : M Store}
    (h : walkDoubles f root s = R) (hR : R ≠ .error .fuel) :
    ∃ c, ∀ k, c ≤ k → walkStack k root s = R := by
  obtain ⟨c, hc⟩ := pushSim_walkDoubles f root s (by rw [h]; exact hR)
  refine ⟨c, fun k hk => ?_⟩
  have := hc (k - c) []
  rw [show c + (k - c) = k by omega] at this
  unfold walkStack
  rw [this, h]
  cases R with
  | error e => rfl
  | ok a => show walkIter (k - c) [] a = _; cases (k - c) <;> rfl

/-! ### `add` over an arbitrary walker -/

def addWith (wk : Store → Nat → Store → M Store) (r : Relation) (pq : Option (Nat × Nat))
    (s : Store) : M Store :=
  if ¬ r.x < s.n then throw .debug
  else if r.cofactor = 1 then addCycle r s
  else if r.cofactor < s.maxlarge then do
    let res ← combineSingle r { s with nPartials := s.nPartials + 1 }
    if res.1 then pure res.2
    else do
      let b ← pack r
      let s1 := res.2.setPartial r.cofactor b
      if r.cofactor ≥ W32 then throw .panic
      else wk s1 r.cofactor s1
  else
    match pq with
    | none => pure s
    | some (p, q) =>
      if p ≥ W32 ∨ q ≥ W32 then throw .panic
      else do
        let s0 := { s with nDoubles := s.nDoubles + 1 }
        let res ← combineDouble (wk s0) r p q s0
        if res.1 then pure res.2
        else do
          let key := if p < q then (p, q) else (q, p)
          let b ← pack r
          pure { res.2 with doubles := ainsert ltPair key b res.2.doubles,
                            doublesRev := sinsert (key.2, key.1) res.2.doublesRev }

theorem add_eq_addWith (r : Relation) (pq : Option (Nat × Nat)) (s : Store) :
    add r pq s = addWith (fun s0 => walkDoubles s0.fuel) r pq s := rfl

theorem addStack_eq_addWith (r : Relation) (pq : Option (Nat × Nat)) (s : Store) :
    addStack r pq s = addWith (fun s0 => walkStack s0.iterFuel) r pq s := by
  unfold addStack addWith
  simp only [combineDoubleStack_eq]
  rfl

theorem afterStep_refine {w w' : Nat → Store → M Store} (hw : Refines w w')
    (res : Bool × Option Nat × Store) (R : M (Bool × Store)) (h : afterStep w res = R)
    (hR : R ≠ .error .fuel) : afterStep w' res = R := by
  obtain ⟨ok, nx, s⟩ := res
  cases nx with
  | none => exact h
  | some x =>
    simp only [afterStep] at h ⊢
    cases hW : w x s with
    | error e =>
      rw [hW] at h
      rw [hw x s _ hW (by intro hc; rw [hc] at h; exact hR h.symm)]
      exact h
    | ok s1 =>
      rw [hW] at h
      rw [hw x s _ hW (by intro hc; cases hc)]
      exact h

theorem addWith_refine {wk wk' : Store → Nat → Store → M Store} (hw : ∀ s0, Refines (wk s0) (wk' s0))
    {r : Relation} {pq : Option (Nat × Nat)} {s : Store} {R : M Store}
    (h : addWith wk r pq s = R) (hR : R ≠ .error .fuel) : addWith wk' r pq s = R := by
  unfold addWith at h ⊢
  split
  · rename_i hc; rw [if_pos hc] at h; exact h
  · rename_i hc
    rw [if_neg hc] at h
    split
    · rename_i hc1; rw [if_pos hc1] at h; exact h
    · rename_i hc1
      rw [if_neg hc1] at h
      split
      · rename_i hlt
        rw [if_pos hlt] at h
        refine bind_refine (fun res R' h' hR' => ?_) h hR
        split
        · rename_i hd; rw [if_pos hd] at h'; exact h'
        · rename_i hd
          rw [if_neg hd] at h'
          refine bind_refine (fun b R'' h'' hR'' => ?_) h' hR'
          split
          · rename_i h32; rw [if_pos h32] at h''; exact h''
          · rename_i h32
            rw [if_neg h32] at h''
            exact hw _ _ _ _ h'' hR''
      · rename_i hlt
        rw [if_neg hlt] at h
        split
        · exact h
        · rename_i p q
          simp only at h
          split
          · rename_i h32; rw [if_pos h32] at h; exact h
          · rename_i h32
            rw [if_neg h32] at h
            simp only [combineDouble_eq_step, bind_assoc'] at h ⊢
            refine bind_refine (fun res R' h' hR' => ?_) h hR
            cases hA : afterStep (wk { s with nDoubles := s.nDoubles + 1 }) res with
            | error e =>
              rw [hA] at h'
              rw [afterStep_refine (hw _) res _ hA (by intro hc; rw [hc] at h'; exact hR' h'.symm)]
              exact h'
            | ok res2 =>
              rw [hA] at h'
              rw [afterStep_refine (hw _) res _ hA (by intro hc; cases hc)]
              exact h'

theorem le_iterFuel (s : Store) : s.doubles.length ≤ s.iterFuel := by
  unfold Store.iterFuel
  simp only
  generalize s.doubles.length = a
  generalize s.doublesRev.length = b
  have h1 : a + b ≤ (a + b) * (a + b) * (a + b + 1) := by
    rcases Nat.eq_zero_or_pos (a + b) with h | h
    · rw [h]
    · calc a + b = (a + b) * 1 * 1 := by ring
        _ ≤ (a + b) * (a + b) * (a + b + 1) :=
          Nat.mul_le_mul (Nat.mul_le_mul_left _ h) (by omega)
  have : 2 * (a + b) * (a + b) * (a + b + 1) = 2 * ((a + b) * (a + b) * (a + b + 1)) := by ring
  omega

/-- Whatever the explicit-stack `add` returns (other than "out of iterations") is what the
recursive `add` returns, as soon as the latter does not run out of its recursion fuel. -/
theorem addStack_eq_add {r : Relation} {pq : Option (Nat × Nat)} {s : Store} {R R' : M Store}
    (h : add r pq s = R) (hR : R ≠ .error .fuel) (h' : addStack r pq s = R')
    (hR' : R' ≠ .error .fuel) : R' = R := by
  rw [add_eq_addWith] at h
  rw [addStack_eq_addWith] at h'
  have big : ∀ s0 : Store, s0.fuel ≤ s0.iterFuel + 1 := fun s0 => by
    have := le_iterFuel s0; unfold Store.fuel; omega
  have h1 := addWith_refine (wk' := fun s0 => walkDoubles (s0.iterFuel + 1))
    (fun s0 => walkDoubles_fuel_le (big s0)) h hR
  have h2 := addWith_refine (wk' := fun s0 => walkDoubles (s0.iterFuel + 1))
    (fun s0 x s1 R0 hx hR0 => walkStack_imp_rec hx hR0) h' hR'
  rw [← h1, ← h2]

/-- no panic for the explicit-stack `add`: the only errors left are a `u64` counter overflow and
"out of iterations" (excluded by K, and by `walkStack_eq_rec_of_rec` for a large enough bound) -/
theorem addStack_np {r : Relation} {pq : Option (Nat × Nat)} {s : Store} (hi : Inv s) (hi2 : Inv2 s)
    (hn : s.n ≤ X512) (hin : InputOK2 s r pq) :
    ∀ e, addStack r pq s = .error e → e = .overflow ∨ e = .fuel := by
  intro e he
  by_cases hf : e = .fuel
  · exact Or.inr hf
  · left
    have hnp := add_np hi hi2 hn hin
    have hR : add r pq s ≠ .error .fuel := by
      intro hc
      have := hnp _ hc
      cases this
    have := addStack_eq_add rfl hR he (by intro hc; cases hc; exact hf rfl)
    exact hnp e this.symm

theorem runHistoryStack_np : ∀ (ops : List (Relation × Option (Nat × Nat))) (s : Store),
    Inv s → Inv2 s → s.n ≤ X512 → HistoryOK2 s.n s.maxlarge ops →
    ∀ e, runHistoryStack ops s = .error e → e = .overflow ∨ e = .fuel := by
  intro ops
  induction ops with
  | nil => intro s _ _ _ _ e he; simp [runHistoryStack, pure, Except.pure] at he
  | cons op t ih =>
    obtain ⟨r, pq⟩ := op
    intro s hi hi2 hn hok e he
    have hin := hok (r, pq) List.mem_cons_self s rfl rfl
    unfold runHistoryStack at he
    cases hs1 : addStack r pq s with
    | error e1 =>
      rw [hs1] at he
      cases he
      exact addStack_np hi hi2 hn hin e hs1
    | ok s1 =>
      rw [hs1] at he
      have hk := addStack_keeps hs1 hi hn hin.base
      refine ih s1 hk.2.2 (addStack_inv2 hs1 hi hi2 hn hin) (by rw [hk.1]; exact hn) ?_ e he
      intro op hop s' h1 h2
      exact hok op (List.mem_cons_of_mem _ hop) s' (by rw [h1, hk.1]) (by rw [h2, hk.2.1])

end Ymq.Relations
