/-
C14 "small", helper lemmas part 13 (Mathlib): matrix forms of the block operations used by the main
loop of `kernel_lanczos` (`Block::muladd`, `&Block * &Block`, `&SmallMat * &SmallMat`, the xor of two
blocks, the masking of a block, the masked identity and the masked matrix).
-/
import Ymq.Lemmas.Gf2SmallLoop

namespace Ymq.Gf2Small
open Ymq.Gf2 Ymq.Gf2Genblock Ymq.Gf2Lanczos
open scoped Matrix

/-- the projector on the coordinates of `S` -/
def projS (S : Nat) : Matrix (Fin 64) (Fin 64) (ZMod 2) := Matrix.diagonal (fun t => toZ (S.testBit t.1))

theorem toZ_testBit_comb (a : Nat) (B : Mat) (t : Nat) : ∀ k0,
    toZ ((comb a B k0).testBit t) = ∑ r : Fin B.length, toZ (a.testBit (k0 + r.1)) * toZ (B[r.1].testBit t) := by
  induction B with
  | nil => intro k0; simp [comb]
  | cons b B ih =>
    intro k0
    rw [comb, Nat.testBit_xor, toZ_xor, ih (k0 + 1)]
    refine Eq.trans ?_ (Fin.sum_univ_succ (fun r : Fin (B.length + 1) =>
      toZ (a.testBit (k0 + r.1)) * toZ ((b :: B)[r.1].testBit t))).symm
    congr 1
    · cases h : a.testBit k0 <;> simp [h]
    · apply Finset.sum_congr rfl
      intro r _
      simp only [Fin.val_succ, List.getElem_cons_succ]
      rw [show k0 + 1 + r.1 = k0 + (r.1 + 1) by omega]

theorem cell_getElem (l : List Nat) {i : Nat} (h : i < l.length) : cell l.toArray i = l[i] := by
  rw [cell_toArray, List.getD_eq_getElem?_getD, List.getElem?_eq_getElem h]; rfl

/-- `comb` against a 64-row matrix, as a sum over `Fin 64` -/
theorem toZ_testBit_comb64 (a : Nat) (m : Mat) (hm : m.length = 64) (t : Nat) :
    toZ ((comb a m 0).testBit t) = ∑ j : Fin 64, toZ (a.testBit j.1) * toZ ((row m j.1).testBit t) := by
  rw [toZ_testBit_comb a m t 0]
  subst_vars
  have : ∀ (L : Nat) (hL : m.length = L),
      ∑ r : Fin m.length, toZ (a.testBit (0 + r.1)) * toZ (m[r.1].testBit t) =
      ∑ j : Fin L, toZ (a.testBit j.1) * toZ ((row m j.1).testBit t) := by
    intro L hL
    subst hL
    apply Finset.sum_congr rfl
    intro r _
    rw [Nat.zero_add]
    congr 2
    simp [row, List.getD_eq_getElem?_getD, List.getElem?_eq_getElem r.2]
  exact this 64 hm

/-- `Block::muladd`: `self + b·m` -/
theorem cellMat_blockMulAdd {n : Nat} {self b r : List Nat} {m : Mat} (hs : self.length = n) (hb : b.length = n)
    (hm : m.length = 64) (h : blockMulAdd self m b = some r) :
    cellMat r.toArray n = cellMat self.toArray n + cellMat b.toArray n * toMat 64 m := by
  unfold blockMulAdd at h
  rw [if_pos (by rw [hs, hb])] at h
  injection h with h
  subst h
  funext k t
  rw [Matrix.add_apply, Matrix.mul_apply]
  show toZ ((cell (List.zipWith (fun s w => s ^^^ comb w m 0) self b).toArray k.1).testBit t.1) = _
  have hk1 : k.1 < self.length := by rw [hs]; exact k.2
  have hk2 : k.1 < b.length := by rw [hb]; exact k.2
  rw [cell_getElem _ (by simp [hk1, hk2]), List.getElem_zipWith, Nat.testBit_xor, toZ_xor,
    toZ_testBit_comb64 _ m hm]
  refine congrArg₂ (· + ·) ?_ ?_
  · show _ = toZ ((cell self.toArray k.1).testBit t.1)
    rw [cell_getElem _ hk1]
  · apply Finset.sum_congr rfl
    intro j _
    show _ = toZ ((cell b.toArray k.1).testBit j.1) * vec 64 (row m j.1) t
    rw [cell_getElem _ hk2]
    rfl

/-- `&Block * &Block`: `xᵗ·y` -/
theorem toMat_blockDot {n : Nat} {x y d : List Nat} (hx : x.length = n) (hy : y.length = n)
    (h : blockDot x y = some d) :
    toMat 64 d = (cellMat x.toArray n)ᵀ * cellMat y.toArray n := by
  unfold blockDot at h
  rw [if_pos (by rw [hx, hy])] at h
  injection h with h
  subst h
  funext i t
  rw [Matrix.mul_apply]
  show vec 64 (row _ i.1) t = _
  rw [vec_eq_toZ, row_map_range 64 _ i.2,
    testBit_foldl_sel (List.zip x y) (fun p => p.1.testBit i.1) (fun p => p.2) 0 t.1]
  simp only [Nat.zero_testBit, Bool.false_xor]
  rw [toZ_xsum_map]
  have hl : (List.zip x y).length = n := by simp [hx, hy]
  have : ∀ (L : Nat) (hL : (List.zip x y).length = L),
      ∑ r : Fin (List.zip x y).length, toZ ((List.zip x y)[r.1].1.testBit i.1 && (List.zip x y)[r.1].2.testBit t.1) =
      ∑ r : Fin L, toZ ((cell x.toArray r.1).testBit i.1) * toZ ((cell y.toArray r.1).testBit t.1) := by
    intro L hL
    subst hL
    apply Finset.sum_congr rfl
    intro r _
    have h1 : r.1 < x.length := by have := r.2; simp at this; omega
    have h2 : r.1 < y.length := by have := r.2; simp at this; omega
    rw [toZ_and, List.getElem_zip, cell_getElem _ h1, cell_getElem _ h2]
  rw [this n hl]
  rfl

/-- `&SmallMat * &SmallMat` -/
theorem toMat_mul {a b : Mat} (ha : a.length = 64) (hb : b.length = 64) :
    toMat 64 (mul a b) = toMat 64 a * toMat 64 b := by
  funext i t
  rw [Matrix.mul_apply]
  show vec 64 (row (mul a b) i.1) t = _
  have hrow : row (mul a b) i.1 = comb (row a i.1) b 0 := by
    unfold mul
    rw [row_map _ _ (by rw [ha]; exact i.2)]
  rw [vec_eq_toZ, hrow, toZ_testBit_comb64 _ b hb]
  rfl

theorem length_mul (a b : Mat) : (mul a b).length = a.length := by simp [mul]

/-- the xor of two blocks is their sum -/
theorem cellMat_zipWith_xor {n : Nat} {x y : List Nat} (hx : x.length = n) (hy : y.length = n) :
    cellMat (List.zipWith (fun a p => a ^^^ p) x y).toArray n = cellMat x.toArray n + cellMat y.toArray n := by
  funext k t
  rw [Matrix.add_apply]
  have hk1 : k.1 < x.length := by rw [hx]; exact k.2
  have hk2 : k.1 < y.length := by rw [hy]; exact k.2
  show toZ ((cell _ k.1).testBit t.1) = toZ ((cell _ k.1).testBit t.1) + toZ ((cell _ k.1).testBit t.1)
  rw [cell_getElem _ (by simp [hk1, hk2]), List.getElem_zipWith, Nat.testBit_xor, toZ_xor,
    cell_getElem _ hk1, cell_getElem _ hk2]

/-- masking the vectors of a block: multiplication by the projector -/
theorem cellMat_mask {n : Nat} {x : List Nat} (hx : x.length = n) (mk : Nat) :
    cellMat (x.map (fun v => v &&& mk)).toArray n = cellMat x.toArray n * projS mk := by
  funext k t
  have hk : k.1 < x.length := by rw [hx]; exact k.2
  rw [projS, Matrix.mul_diagonal]
  show toZ ((cell _ k.1).testBit t.1) = toZ ((cell _ k.1).testBit t.1) * _
  rw [cell_getElem _ (by simp [hk]), List.getElem_map, Nat.testBit_and, toZ_and, cell_getElem _ hk]

theorem toMat_maskedId (S : Nat) : toMat 64 (maskedId 64 S) = projS S := by
  funext i t
  show vec 64 (row (maskedId 64 S) i.1) t = _
  rw [row_maskedId i.2, projS, Matrix.diagonal_apply]
  cases hS : S.testBit i.1 with
  | true =>
    simp only [if_true]
    rw [vec_shiftLeft_one i.2, Pi.single_apply]
    by_cases e : i = t
    · subst e; rw [if_pos rfl, if_pos rfl]; rfl
    · have : ¬ t = i := fun h => e h.symm
      rw [if_neg this, if_neg e]
  | false =>
    simp only [Bool.false_eq_true, if_false, vec_zero]
    by_cases e : i = t
    · subst e; rw [if_pos rfl]; rfl
    · rw [if_neg e]; rfl

theorem toMat_maskRows (G : Mat) (S : Nat) :
    toMat 64 (maskRows 64 G S) = projS S * toMat 64 G * projS S := by
  funext i t
  rw [projS, Matrix.mul_diagonal, Matrix.diagonal_mul]
  show vec 64 (row (maskRows 64 G S) i.1) t = _
  rw [vec_eq_toZ, testBit_maskRows G S i.2 t.1, toZ_and, toZ_and]
  show _ = toZ (S.testBit i.1) * vec 64 (row G i.1) t * toZ (S.testBit t.1)
  rw [vec_eq_toZ]
  ring

end Ymq.Gf2Small
