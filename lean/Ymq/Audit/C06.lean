import Ymq.Props.C06
import Ymq.Props.C06Word
#print axioms Ymq.C06.mg2adicInv_spec
#print axioms Ymq.C06.miller_iff_sprp
#print axioms Ymq.C06.isprime64_complete
#print axioms Ymq.C06.isprime64_even
#print axioms Ymq.C06.isprime64_total
#print axioms Ymq.C06.isprime64_sound
#print axioms Ymq.C06.isprime64_exact
#print axioms Ymq.C06.pseudoprime_complete
#print axioms Ymq.C06.pseudoprime_even
#print axioms Ymq.C06.pseudoprime_eq_isprime64
#print axioms Ymq.C06.pseudoprime_total
#print axioms Ymq.C06.pseudoprime_oversize
#print axioms Ymq.C06.pseudoprime_word_eq
#print axioms Ymq.C06.pseudoprime_word_total
#print axioms Ymq.C06.pseudoprime_complete_word
#print axioms Ymq.C06.pseudoprime_word_even
#print axioms Ymq.C06.pseudoprime_below_two
#print axioms Ymq.C06.pseudoprime_word_eq_isprime64
#print axioms Ymq.C06.pseudoprime_word_oversize
#print axioms Ymq.C06.pseudoprime_word_iff_sprp_partial
#print axioms Ymq.C06.millerBase_low_word_one_counterexample
