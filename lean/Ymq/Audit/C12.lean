import Ymq.Props.C12
#print axioms Ymq.C12.siqs_identity
#print axioms Ymq.C12.siqs_identity_model
#print axioms Ymq.C12.eval_eq_polyVal
#print axioms Ymq.C12.siqs_B_sq
#print axioms Ymq.C12.walk_B_sq
#print axioms Ymq.C12.min_trick
#print axioms Ymq.C12.gray_step
#print axioms Ymq.C12.roots_inv
#print axioms Ymq.C12.roots_walk
#print axioms Ymq.C12.poly_exact
#print axioms Ymq.C12.roots_exact
#print axioms Ymq.C12.hensel_lift
#print axioms Ymq.C12.mpqs_identity
#print axioms Ymq.C12.prepare_prime_exact
#print axioms Ymq.C12.qs_roots_exact
#print axioms Ymq.C12.lgblock_shift
