/-
`echelon_det` for the reference echelon builder `EchP`: when every row of a square matrix is
accepted, `det()` returns the determinant of the matrix modulo `p`.
-/
import Ymq.Lemmas.IntMatEchP
import Mathlib.Data.Fintype.BigOperators
import Mathlib.Algebra.BigOperators.Fin

namespace Ymq.IntMat

/-- all rows are accepted by `add` (specification-level fold) -/
def acceptAll (inv : Inv) : EchP → List (List Int) → Option EchP
  | e, [] => some e
  | e, v :: vs =>
    match e.add inv v with
    | some (e', true) => acceptAll inv e' vs
    | _ => none

theorem acceptAll_inv (inv : Inv) (p n : Nat) : ∀ (rest : List (List Int)) (e e' : EchP) (rows : List (List Int)),
    EchInv p n e rows → (∀ r ∈ rest, r.length = n) → acceptAll inv e rest = some e' →
    EchInv p n e' (rows ++ rest)
  | [], e, e', rows, hI, _, h => by
    simp only [acceptAll] at h
    rw [← Option.some.inj h]; simpa using hI
  | v :: vs, e, e', rows, hI, hr, h => by
    unfold acceptAll at h
    split at h
    · rename_i e1 hadd
      have h1 := EchInv.add_true inv p n e e1 rows v hI (hr v (by simp)) hadd
      have := acceptAll_inv inv p n vs e1 e' (rows ++ [v]) h1 (fun r hr' => hr r (by simp [hr'])) h
      simpa using this
    · exact absurd h (by simp)

/-- the running product of `det()` -/
theorem foldl_prod_cast (p : Nat) : ∀ (fs : List Nat) (acc : Nat),
    ((fs.foldl (fun acc f => acc * f % p) acc : Nat) : ZMod p) = (acc : ZMod p) * (fs.map (fun f => ((f : Nat) : ZMod p))).prod
  | [], acc => by simp
  | f :: fs, acc => by
    simp only [List.foldl_cons, List.map_cons, List.prod_cons]
    rw [foldl_prod_cast p fs (acc * f % p), ZMod.natCast_mod, Nat.cast_mul]; ring

/-- the matrix of a list of integer rows, modulo `p` -/
def matOf (p n : Nat) (mat : List (List Int)) : Matrix (Fin n) (Fin n) (ZMod p) :=
  fun t => vecI p n (mat.getD t [])

theorem sum_range_eq_filter {n : Nat} {M : Type*} [AddCommMonoid M] (t : Fin n) (g : Nat → M) :
    ∑ s ∈ Finset.range (t : Nat), g s = ∑ s ∈ Finset.univ.filter (· < t), g (s : Nat) := by
  rw [Finset.sum_filter]
  have : ∑ a : Fin n, (if a < t then g (a : Nat) else 0) =
      ∑ a : Fin n, (fun s : Nat => if s < (t : Nat) then g s else 0) (a : Nat) := by
    apply Finset.sum_congr rfl
    intro a _
    by_cases h : a < t
    · have h' : (a : Nat) < (t : Nat) := h
      simp only [h, h', if_true]
    · have h' : ¬ (a : Nat) < (t : Nat) := h
      simp only [h, h', if_false]
  rw [this, Fin.sum_univ_eq_sum_range (fun s => if s < (t : Nat) then g s else 0) n]
  rw [← Finset.sum_filter]
  congr 1
  ext s
  simp only [Finset.mem_filter, Finset.mem_range]
  constructor
  · intro h; exact ⟨by have := t.2; omega, h⟩
  · intro h; exact h.2

/-- the value of `det()` on a state that satisfies the invariant for `n` accepted rows -/
theorem echInv_det (p n : Nat) (hn : 0 < n) (mat : List (List Int)) (hlen : mat.length = n)
    (e : EchP) (d : Nat) (hI : EchInv p n e mat) (hdet : e.det = some d) :
    ((d : Nat) : ZMod p) = (matOf p n mat).det := by
  obtain ⟨hp, len_b, len_f, row_len, _, hppos, σ, c, hidx, hone, hzero, hrow⟩ := hI
  have hne : mat ≠ [] := by intro h; rw [h] at hlen; simp at hlen; omega
  have hp0 : 0 < p := hppos hne
  have hσ := hidx hne
  -- the value computed by det()
  unfold EchP.det at hdet
  split at hdet
  · exact absurd hdet (by simp)
  · split at hdet
    · exact absurd hdet (by simp)
    · rw [hσ] at hdet
      obtain ⟨r, hr1, hr2⟩ := cycleWalk_spec (2 * n + 1) 0 σ 0 (Nat.zero_le _)
        (fun k hk => absurd hk (Nat.not_lt_zero _)) (by have := moved_le σ; omega)
      have hsw : permSwaps (permList σ) = some r := by
        unfold permSwaps; rw [permList_length]; exact hr1
      rw [hsw] at hdet
      simp only [] at hdet
      have hd := (Option.some.inj hdet).symm
      -- product of the pivots
      set P := e.factors.foldl (fun acc f => acc * f % e.p) (1 % e.p) with hP
      have hPcast : ((P : Nat) : ZMod p) = ∏ t : Fin n, ((e.factors.getD (t : Nat) 0 : Nat) : ZMod p) := by
        rw [hP, hp, foldl_prod_cast p e.factors (1 % p), ZMod.natCast_mod, Nat.cast_one, one_mul]
        have hfl : e.factors.length = n := by rw [len_f, hlen]
        rw [← Fin.prod_univ_fun_getElem e.factors (fun f => ((f : Nat) : ZMod p))]
        -- reindex Fin e.factors.length ≃ Fin n
        apply Fintype.prod_equiv (finCongr hfl)
        intro i
        simp [List.getD_eq_getElem?_getD, List.getElem?_eq_getElem i.2]
      have hPlt : P < p := by
        rw [hP, hp]
        -- every step reduces modulo p
        have : ∀ (fs : List Nat) (acc : Nat), acc < p → fs.foldl (fun acc f => acc * f % p) acc < p := by
          intro fs
          induction fs with
          | nil => intro acc h; simpa using h
          | cons f fs ih => intro acc _; exact ih _ (Nat.mod_lt _ hp0)
        exact this _ _ (Nat.mod_lt _ hp0)
      -- the sign
      have hsign : ((d : Nat) : ZMod p) = ((Equiv.Perm.sign σ : ℤ) : ZMod p) * ((P : Nat) : ZMod p) := by
        rw [hd]
        simp only [zero_add, pow_zero, one_mul] at hr2
        rcases Nat.even_or_odd r with hev | hodd
        · have h2 : r % 2 ≠ 1 := by obtain ⟨q, hq⟩ := hev; omega
          rw [if_neg (fun hh => h2 hh.1)]
          have : Equiv.Perm.sign σ = 1 := by rw [← hr2]; exact Even.neg_one_pow hev
          rw [this]; simp
        · have h2 : r % 2 = 1 := by obtain ⟨q, hq⟩ := hodd; omega
          have hs : Equiv.Perm.sign σ = -1 := by rw [← hr2]; exact Odd.neg_one_pow hodd
          rw [hs]
          by_cases hpos : P > 0
          · rw [if_pos ⟨h2, hpos⟩, hp, Nat.cast_sub (Nat.le_of_lt hPlt), ZMod.natCast_self]; simp
          · have : P = 0 := by omega
            rw [if_neg (fun hh => hpos hh.2), this]; simp
      rw [hsign, hPcast]
      -- the determinant formula
      have hdetV := det_of_echelon (matOf p n mat) (fun t => vecN p n (e.basis.getD (t : Nat) [])) σ
        (fun t => ((e.factors.getD (t : Nat) 0 : Nat) : ZMod p)) (fun t s => c (t : Nat) (s : Nat))
        (fun t => hone t (by rw [hlen]; exact t.2) t.2)
        (fun t s hst => hzero t s hst (by rw [hlen]; exact t.2) t.2)
        (fun t => by
          have := hrow t (by rw [hlen]; exact t.2)
          rw [sum_range_eq_filter t (fun s => c (t : Nat) s • vecN p n (e.basis.getD s []))] at this
          exact this)
      rw [hdetV]

/-- **echelon_det** for `EchP`: all `n` rows of the `n × n` matrix accepted, `det() = d` ⇒ `d ≡ det` -/
theorem echP_det (inv : Inv) (p n : Nat) (hn : 0 < n) (mat : List (List Int)) (hlen : mat.length = n)
    (hrows : ∀ r ∈ mat, r.length = n) (e : EchP) (d : Nat)
    (hacc : acceptAll inv { p := p, indices := [], basis := [], factors := [] } mat = some e)
    (hdet : e.det = some d) :
    ((d : Nat) : ZMod p) = (matOf p n mat).det := by
  have hI := acceptAll_inv inv p n mat _ e [] (EchInv.init p n) hrows hacc
  simp only [List.nil_append] at hI
  exact echInv_det p n hn mat hlen e d hI hdet

/-! ### a rejected row -/

theorem firstNonzero_none : ∀ (l : List Nat) (off : Nat), firstNonzero l off = none → ∀ x ∈ l, x = 0
  | [], _, _ => by simp
  | x :: xs, off, h => by
    unfold firstNonzero at h
    split at h
    · exact absurd h (by simp)
    · rename_i hx
      intro y hy
      rcases List.mem_cons.mp hy with rfl | hy
      · by_contra hne; exact hx hne
      · exact firstNonzero_none xs (off + 1) h y hy

theorem vecN_zero_of_all_zero (p n : Nat) (l : List Nat) (h : ∀ x ∈ l, x = 0) : vecN p n l = 0 := by
  funext col
  unfold vecN
  by_cases hc : (col : Nat) < l.length
  · have := h _ (List.getElem_mem hc)
    rw [List.getD_eq_getElem?_getD, List.getElem?_eq_getElem hc]
    simp [this]
  · rw [List.getD_eq_getElem?_getD, List.getElem?_eq_none (Nat.le_of_not_lt hc)]
    simp

/-- what a successful, rejecting `add` computed -/
theorem EchP.add_false_unfold {inv : Inv} {e e2 : EchP} {v : List Int} (h : e.add inv v = some (e2, false)) :
    0 < e.p ∧ ∃ vp',
      elimP (e.start v.length).p (e.start v.length).basis (e.start v.length).indices
        (v.map (fun x => (x % ((e.start v.length).p : Int)).toNat)) = some vp' ∧
      firstNonzero vp' 0 = none := by
  unfold EchP.add at h
  split at h
  · exact absurd h (by simp)
  · rename_i hpr
    split at h
    · exact absurd h (by simp)
    · simp only [] at h
      split at h
      · exact absurd h (by simp)
      · rename_i vp' helim
        split at h
        · rename_i hnone
          exact ⟨by omega, vp', helim, hnone⟩
        · exfalso
          split at h
          · split at h
            · exact absurd h (by simp)
            · split at h
              · exact absurd h (by simp)
              · split at h
                · exact absurd h (by simp)
                · exact absurd (congrArg Prod.snd (Option.some.inj h)) (by simp)
          · exact absurd h (by simp)

/-- a rejected row is a combination of the basis rows -/
theorem EchInv.add_false (inv : Inv) (p n : Nat) (e e2 : EchP) (rows : List (List Int)) (v : List Int)
    (hI : EchInv p n e rows) (hv : v.length = n) (h : e.add inv v = some (e2, false)) :
    ∃ m : Nat → ZMod p, vecI p n v = ∑ a ∈ Finset.range rows.length, m a • vecN p n (e.basis.getD a []) := by
  obtain ⟨hp, len_b, len_f, row_len, k_le, _, σ0, c, hidx, hone, hzero, hrow⟩ := hI
  obtain ⟨hp0', vp', helim, hnone⟩ := EchP.add_false_unfold h
  have hp0 : 0 < p := by rw [← hp]; exact hp0'
  simp only [EchP.start_basis, EchP.start_p, hp] at helim
  -- the column order of the started builder
  obtain ⟨σ, hσ, hone', hzero'⟩ : ∃ σ : Equiv.Perm (Fin n), (e.start v.length).indices = permList σ ∧
      (∀ t (_ : t < rows.length) (htn : t < n), vecN p n (e.basis.getD t []) (σ ⟨t, htn⟩) = 1) ∧
      (∀ t s (hst : s < t) (_ : t < rows.length) (htn : t < n),
        vecN p n (e.basis.getD t []) (σ ⟨s, by omega⟩) = 0) := by
    by_cases hr : rows = []
    · refine ⟨1, ?_, ?_, ?_⟩
      · have : e.basis.isEmpty = true := by
          rw [List.isEmpty_iff]; exact List.eq_nil_of_length_eq_zero (by rw [len_b, hr]; rfl)
        unfold EchP.start
        rw [if_pos this, hv]; exact (permList_one n).symm
      · intro t ht; rw [hr] at ht; simp at ht
      · intro t s _ ht; rw [hr] at ht; simp at ht
    · refine ⟨σ0, ?_, hone, hzero⟩
      have : ¬ e.basis.isEmpty = true := by
        rw [List.isEmpty_iff]; intro hb
        apply hr; exact List.eq_nil_of_length_eq_zero (by rw [← len_b, hb]; rfl)
      unfold EchP.start
      rw [if_neg this]; exact hidx hr
  rw [hσ] at helim
  set vp0 := v.map (fun x => (x % (p : Int)).toNat) with hvp0
  have hl0 : vp0.length = n := by simp [hvp0, hv]
  have hzero_vec : vecN p n vp' = 0 := vecN_zero_of_all_zero p n vp' (firstNonzero_none vp' 0 hnone)
  by_cases hk0 : rows.length = 0
  · -- no basis row: v itself reduces to zero
    have hb : e.basis = [] := List.eq_nil_of_length_eq_zero (by rw [len_b]; exact hk0)
    rw [hb] at helim
    simp only [elimP] at helim
    have e0 := Option.some.inj helim
    refine ⟨fun _ => 0, ?_⟩
    rw [hk0, Finset.sum_range_zero, ← vecN_mod_cast p n hp0 v, ← hvp0, e0]
    exact hzero_vec
  · have hn0 : 0 < n := by omega
    let piv : Nat → Fin n := fun a => if ha : a < n then σ ⟨a, ha⟩ else σ ⟨0, hn0⟩
    have hpiv : ∀ a (ha : a < n), piv a = σ ⟨a, ha⟩ := fun a ha => by simp [piv, ha]
    have hk : e.basis.length ≤ n := by rw [len_b]; exact k_le
    obtain ⟨_, ⟨m, hvec⟩, _, _⟩ := elimP_spec p n hp0 e.basis (permList σ) piv vp0 vp' hl0 row_len
      (fun a ha => by
        rw [hpiv a (by omega)]
        exact permList_getElem? σ a (by omega))
      (fun a ha => by
        rw [hpiv a (by omega)]
        exact hone' a (by rw [← len_b]; exact ha) (by omega))
      (fun a b hab hb => by
        rw [hpiv a (by omega)]
        exact hzero' b a hab (by rw [← len_b]; exact hb) (by omega))
      helim
    refine ⟨m, ?_⟩
    rw [← vecN_mod_cast p n hp0 v, ← len_b]
    rw [hzero_vec] at hvec
    have := hvec
    rw [eq_comm, sub_eq_zero] at this
    exact this

/-- **the determinant modulo `p` computed by the reference builder**: whenever `detModPlain` returns
a value for an `n × n` matrix (all rows accepted and `det()` evaluated, or a row rejected and `0`
returned), the value is the determinant modulo `p`. -/
theorem detModPlain_spec (inv : Inv) (p n : Nat) (hn : 0 < n) :
    ∀ (rest : List (List Int)) (e : EchP) (rows : List (List Int)) (d : Nat),
      EchInv p n e rows → (rows ++ rest).length = n → (∀ r ∈ rest, r.length = n) →
      detModPlain inv p e rest = some d → ((d : Nat) : ZMod p) = (matOf p n (rows ++ rest)).det
  | [], e, rows, d, hI, hlen, _, h => by
    simp only [detModPlain] at h
    simp only [List.append_nil] at hlen ⊢
    exact echInv_det p n hn rows hlen e d hI h
  | v :: vs, e, rows, d, hI, hlen, hr, h => by
    unfold detModPlain at h
    have hv : v.length = n := hr v (by simp)
    split at h
    · exact absurd h (by simp)
    · rename_i e2 hadd
      -- rejected row: the determinant vanishes
      have hd : d = 0 := (Option.some.inj h).symm
      obtain ⟨m, hm⟩ := EchInv.add_false inv p n e e2 rows v hI hv hadd
      obtain ⟨_, _, _, _, _, _, σ, c, _, _, _, hrow⟩ := hI
      have hk : rows.length < n := by
        rw [← hlen]; simp
      rw [hd, Nat.cast_zero]
      symm
      apply det_zero_of_dependent (matOf p n (rows ++ v :: vs))
        (fun t => vecN p n (e.basis.getD (t : Nat) [])) ⟨rows.length, hk⟩
        (fun t => ((e.factors.getD (t : Nat) 0 : Nat) : ZMod p))
        (fun t s => if (t : Nat) = rows.length then m (s : Nat) else c (t : Nat) (s : Nat))
      · intro t ht
        have ht' : (t : Nat) < rows.length := ht
        have e1 : matOf p n (rows ++ v :: vs) t = vecI p n (rows.getD (t : Nat) []) := by
          unfold matOf
          rw [List.getD_append rows (v :: vs) [] (t : Nat) ht']
        rw [e1, hrow t ht', sum_range_eq_filter t (fun s => c (t : Nat) s • vecN p n (e.basis.getD s []))]
        congr 1
        apply Finset.sum_congr rfl
        intro s _
        rw [if_neg (by omega)]
      · have e1 : matOf p n (rows ++ v :: vs) ⟨rows.length, hk⟩ = vecI p n v := by
          unfold matOf
          simp only []
          rw [List.getD_append_right rows (v :: vs) [] rows.length (le_refl _)]
          simp
        rw [e1, hm, sum_range_eq_filter (⟨rows.length, hk⟩ : Fin n) (fun s => m s • vecN p n (e.basis.getD s []))]
        apply Finset.sum_congr rfl
        intro s _
        simp
    · rename_i e' hadd
      have h1 := EchInv.add_true inv p n e e' rows v hI hv hadd
      have := detModPlain_spec inv p n hn vs e' (rows ++ [v]) d h1 (by simpa using hlen)
        (fun r hr' => hr r (by simp [hr'])) h
      simpa using this

end Ymq.IntMat
