/-
C14 "small", helper lemmas part 7 (Mathlib): the documented domain of `pseudoinverse`.
* `rank_of_independent_rows`: a matrix whose non-null rows are exactly the rows of `S` and are
  linearly independent has `rank = (|S|, S)` (this discharges the `minv.rank() == self.rank()`
  assertions and the assertion at the call site);
* pivot existence for every column of `S` (the `unwrap` of `position`);
* `pseudoinverse_total`: no panic site is reached on the domain.
-/
import Ymq.Lemmas.Gf2SmallPinv

namespace Ymq.Gf2Small
open Matrix Module

/-! ### popcount of nested masks -/

theorem popcount_mono {n a b : Nat} (h : ∀ t, t < n → a.testBit t = true → b.testBit t = true) :
    popcount n a ≤ popcount n b := by
  induction n with
  | zero => simp [popcount]
  | succ n ih =>
    rw [popcount_succ, popcount_succ]
    have h1 := ih (fun t ht => h t (by omega))
    have h2 := h n (by omega)
    cases ha : a.testBit n with
    | false => simp; omega
    | true => rw [h2 ha]; simp; omega

theorem popcount_subset_eq {n a b : Nat} (h : ∀ t, t < n → a.testBit t = true → b.testBit t = true)
    (he : popcount n a = popcount n b) : ∀ t, t < n → a.testBit t = b.testBit t := by
  induction n with
  | zero => intro t ht; omega
  | succ n ih =>
    rw [popcount_succ, popcount_succ] at he
    have h1 := popcount_mono (n := n) (a := a) (b := b) (fun t ht => h t (by omega))
    have h2 := h n (by omega)
    have hn : a.testBit n = b.testBit n := by
      cases ha : a.testBit n with
      | true => rw [h2 ha]
      | false =>
        cases hb : b.testBit n with
        | false => rfl
        | true => rw [ha, hb] at he; simp at he; omega
    have he' : popcount n a = popcount n b := by
      rw [hn] at he; omega
    intro t ht
    rcases Nat.lt_or_eq_of_le (Nat.le_of_lt_succ ht) with h3 | h3
    · exact ih (fun t ht => h t (by omega)) he' t h3
    · rw [h3]; exact hn

theorem eq_of_testBit_below {n a b : Nat} (ha : a < 2 ^ n) (hb : b < 2 ^ n)
    (h : ∀ t, t < n → a.testBit t = b.testBit t) : a = b := by
  apply Nat.eq_of_testBit_eq
  intro t
  by_cases ht : t < n
  · exact h t ht
  · rw [testBit_of_lt_of_ge ha (by omega), testBit_of_lt_of_ge hb (by omega)]

/-! ### matrices whose non-null rows are independent -/

/-- the rows of `M` indexed by the set bits of `S` -/
def selRows (n : Nat) (M : Mat) (S : Nat) : {t : Fin n // S.testBit t = true} → Fin n → ZMod 2 :=
  fun t => toMat n M t.1

theorem vec_ne_zero_of {n w : Nat} (h : vec n w ≠ 0) : w ≠ 0 := by
  rintro rfl; exact h (vec_zero n)

/-- `rank` of a matrix whose rows outside `S` are null and whose rows in `S` are independent -/
theorem rank_of_independent_rows {n : Nat} (dbg : Bool) {M : Mat} {S : Nat}
    (hw : ∀ k, k < n → row M k < 2 ^ n) (hS : S < 2 ^ n)
    (hz : ∀ k, k < n → S.testBit k = false → row M k = 0)
    (hli : LinearIndependent (ZMod 2) (selRows n M S)) :
    rank n dbg M = some (popcount n S, S) := by
  obtain ⟨rk, mask, hr, hF⟩ := rank_spec_aux dbg hw
  -- the row space is spanned by the rows of S
  have hspan : spanOf n (row M) = Submodule.span (ZMod 2) (Set.range (selRows n M S)) := by
    apply le_antisymm
    · apply spanOf_le
      intro k hk
      cases hb : S.testBit k with
      | true => exact Submodule.subset_span ⟨⟨⟨k, hk⟩, hb⟩, rfl⟩
      | false => rw [hz k hk hb, vec_zero]; exact Submodule.zero_mem _
    · apply Submodule.span_le.mpr
      rintro _ ⟨t, rfl⟩
      exact mem_spanOf (row M) t.1.2
  have hfin : rk = popcount n S := by
    rw [← hF.finrank, hspan, finrank_span_eq_card hli, card_subtype_eq_popcount]
  -- the selected rows are non-null, hence in S
  have hsub : ∀ t, t < n → mask.testBit t = true → S.testBit t = true := by
    intro t ht hm
    have hne := hF.independent.ne_zero ⟨⟨t, ht⟩, hm⟩
    cases hb : S.testBit t with
    | true => rfl
    | false =>
      exfalso; apply hne
      show vec n (row M t) = 0
      rw [hz t ht hb, vec_zero]
  have hmask : mask = S := eq_of_testBit_below hF.maskLt hS
    (popcount_subset_eq hsub (by rw [hF.pc, hfin]))
  rw [hr, hfin, hmask]

/-- the unit vectors of `S` are independent -/
theorem linearIndependent_units (n S : Nat) :
    LinearIndependent (ZMod 2) (fun t : {t : Fin n // S.testBit t = true} => vec n (1 <<< t.1.1)) := by
  apply linearIndependent_of_lz (fun t : {t : Fin n // S.testBit t = true} => 1 <<< t.1.1)
  · intro t; rw [lz_one_shiftLeft t.1.2]; exact t.1.2
  · intro t t' h
    rw [lz_one_shiftLeft t.1.2, lz_one_shiftLeft t'.1.2] at h
    exact Subtype.ext (Fin.ext h)

theorem maskedId_lt {n S k : Nat} (hk : k < n) : row (maskedId n S) k < 2 ^ n := by
  rw [row_maskedId hk]
  split
  · rw [Nat.one_shiftLeft]; exact Nat.pow_lt_pow_right (by omega) hk
  · exact Nat.two_pow_pos n

/-- first assertion of `pseudoinverse`: `minv.rank()` of the identity on `S` -/
theorem rank_maskedId {n : Nat} (dbg : Bool) {S : Nat} (hS : S < 2 ^ n) :
    rank n dbg (maskedId n S) = some (popcount n S, S) := by
  apply rank_of_independent_rows dbg (fun k hk => maskedId_lt hk) hS
  · intro k hk hb; rw [row_maskedId hk, hb]; rfl
  · have := linearIndependent_units n S
    convert this using 2 with t
    show vec n (row (maskedId n S) t.1) = _
    rw [row_maskedId t.1.2, t.2]; rfl

/-! ### the result of the two phases -/

/-- what the final state of `pseudoinverse` says about `minv` -/
theorem BInv.result {n : Nat} {T : Mat} {S : Nat} {rows2 : Rows}
    (hB : BInv n T (fun t => S.testBit t = true) rows2 (fun x => S.testBit x = true ∧ x < n)) :
    (rows2.map (·.2)).length = n ∧ (∀ k, k < n → row (rows2.map (·.2)) k < 2 ^ n) ∧
    Supported n (rows2.map (·.2)) S ∧
    toMat n (rows2.map (·.2)) * toMat n T = toMat n (maskedId n S) := by
  have hrow : ∀ k, row (rows2.map (·.2)) k = sndF rows2 k := fun k => row_map_snd rows2 k
  refine ⟨by rw [List.length_map]; exact hB.len, fun k hk => by rw [hrow]; exact (hB.ok k hk).ltd,
    ⟨fun k hk hS => ?_, fun k hk t ht => ?_⟩, ?_⟩
  · rw [hrow]; exact (hB.zero k hk (by simp [hS])).2
  · rw [hrow] at ht; exact (hB.ok k hk).subd t ht
  · funext i
    rw [Matrix.mul_apply_eq_vecMul]
    show vec n (row (rows2.map (·.2)) i) ᵥ* toMat n T = vec n (row (maskedId n S) i)
    rw [hrow, (hB.ok i i.2).coef, row_maskedId i.2]
    cases hS : S.testBit i with
    | true => rw [hB.red i i.2 hS ⟨hS, i.2⟩]; rfl
    | false => rw [(hB.zero i i.2 (by simp [hS])).1]; rfl

/-- a left inverse on `S` has independent rows: second assertion of `pseudoinverse` and the
assertion at the call site -/
theorem rank_of_left_inverse {n : Nat} (dbg : Bool) {T W : Mat} {S : Nat} (hS : S < 2 ^ n)
    (hw : ∀ k, k < n → row W k < 2 ^ n) (hD : Supported n W S)
    (hmul : toMat n W * toMat n T = toMat n (maskedId n S)) :
    rank n dbg W = some (popcount n S, S) := by
  apply rank_of_independent_rows dbg hw hS hD.rowsZero
  apply LinearIndependent.of_comp (Matrix.vecMulLinear (toMat n T))
  have := linearIndependent_units n S
  convert this using 2 with t
  show selRows n W S t ᵥ* toMat n T = _
  have h1 : (toMat n W * toMat n T) t.1 = toMat n (maskedId n S) t.1 := by rw [hmul]
  rw [Matrix.mul_apply_eq_vecMul] at h1
  show toMat n W t.1 ᵥ* toMat n T = _
  rw [h1]
  show vec n (row (maskedId n S) t.1) = _
  rw [row_maskedId t.1.2, t.2]; rfl

/-! ### pivot existence -/

/-- on the domain the row space is the whole coordinate space of `S` -/
theorem unit_mem_rowspace {n : Nat} {T : Mat} {rk S : Nat} (hF : RankFacts n T rk S)
    (hD : Supported n T S) {b : Nat} (hb : b < n) (hSb : S.testBit b = true) :
    vec n (1 <<< b) ∈ spanOf n (row T) := by
  let U := Submodule.span (ZMod 2) (Set.range fun t : {t : Fin n // S.testBit t = true} => vec n (1 <<< t.1.1))
  have hUfin : finrank (ZMod 2) U = popcount n S := by
    rw [finrank_span_eq_card (linearIndependent_units n S), card_subtype_eq_popcount]
  have hle : spanOf n (row T) ≤ U := by
    apply spanOf_le
    intro k hk
    rw [pi_eq_sum_univ (vec n (row T k))]
    apply Submodule.sum_mem
    intro j _
    cases hj : S.testBit j with
    | true =>
      apply Submodule.smul_mem
      apply Submodule.subset_span
      refine ⟨⟨j, hj⟩, ?_⟩
      show vec n (1 <<< j.1) = _
      rw [vec_shiftLeft_one j.2]
      funext x
      simp [Pi.single_apply, eq_comm]
    | false =>
      have : vec n (row T k) j = 0 := by
        apply vec_eq_zero_iff.mpr
        cases hbit : (row T k).testBit j with
        | false => rfl
        | true => rw [hD.colsZero k hk j hbit] at hj; cases hj
      rw [this, zero_smul]
      exact Submodule.zero_mem _
  have heq : spanOf n (row T) = U :=
    Submodule.eq_of_le_of_finrank_eq hle (by rw [hF.finrank, hUfin, hF.pc])
  rw [heq]
  exact Submodule.subset_span ⟨⟨⟨b, hb⟩, hSb⟩, rfl⟩

/-- the `unwrap` of `position` cannot fail on the domain -/
theorem pivot_exists {n : Nat} {T : Mat} {rk S : Nat} (hF : RankFacts n T rk S) (hD : Supported n T S)
    {rows : Rows} {b : Nat} (hb : b < n) (hSb : S.testBit b = true)
    (h : FInv n T (fun t => S.testBit t = true) (fstF rows) (sndF rows) b) :
    ∃ k, k < n ∧ lz n (fstF rows k) = b := by
  have hv := unit_mem_rowspace hF hD hb hSb
  rw [← h.span] at hv
  obtain ⟨k, _, hk⟩ := exists_lz_eq_of_mem_span hb (fun k : Fin n => fstF rows k)
    (fun k => k.1 < b ∧ S.testBit k.1 = true)
    (fun k hk => by rw [h.piv k.1 hk.1 k.2 hk.2]; exact hk.1)
    (fun k k' hk hk' he => by
      rw [h.piv k.1 hk.1 k.2 hk.2, h.piv k'.1 hk'.1 k'.2 hk'.2] at he
      exact Fin.ext he)
    (fun k hk => h.rest k.1 k.2 hk)
    (vec n (1 <<< b)) hv
    (fun j hj => by
      apply vec_eq_zero_iff.mpr
      rw [Nat.one_shiftLeft, Nat.testBit_two_pow]
      have : ¬ b = j.1 := by omega
      simp [this])
    (by apply vec_eq_one_iff.mpr; rw [Nat.one_shiftLeft, Nat.testBit_two_pow]; simp)
  exact ⟨k.1, k.2, hk⟩

/-- `pseudoinverse` reaches no panic site on its domain (both profiles). `n ≤ 256`: the slice
`idx[..rk]` of the 256-entry array (the code has `n = 64`). -/
theorem pseudoinverse_total {n : Nat} (dbg : Bool) {T : Mat} {rk S : Nat} (hn : n ≤ 256)
    (hw : ∀ k, k < n → row T k < 2 ^ n) (hr : rank n dbg T = some (rk, S)) (hD : Supported n T S) :
    ∃ rows2, BInv n T (fun t => S.testBit t = true) rows2 (fun x => S.testBit x = true ∧ x < n) ∧
      pseudoinverse n dbg T = some (rows2.map (·.2)) := by
  obtain ⟨rk', mask', hr', hF⟩ := rank_spec_aux dbg hw
  rw [hr] at hr'
  injection hr' with hr'
  injection hr' with h1 h2
  subst h1; subst h2
  have hcore := pinv_core dbg hw hD
  simp only [] at hcore
  rw [hF.pc] at hcore
  unfold maskedId at hcore
  have hpre : rank n dbg (List.map (fun r => r &&& S) (identity n)) = some (rk, S) := by
    have := rank_maskedId dbg (n := n) hF.maskLt
    rw [hF.pc] at this
    exact this
  have hrk : rk ≤ 256 := Nat.le_trans hF.rk_le hn
  unfold pseudoinverse
  rw [hr]
  simp only [hpre, bne_self_eq_false, Bool.and_false, Bool.false_eq_true, if_false, hrk, not_true_eq_false]
  generalize pinvForward n dbg _ _ = fw at hcore ⊢
  cases fw with
  | none =>
    exfalso
    obtain ⟨b', rows'', hb', hSb', hl'', hF'', hno⟩ := hcore
    obtain ⟨k, hk, hlz⟩ := pivot_exists hF hD hb' hSb' hF''
    exact hno k hk hlz
  | some rows1 =>
    obtain ⟨rows2, h2, hB⟩ := hcore
    refine ⟨rows2, hB, ?_⟩
    simp only [h2]
    obtain ⟨_, hlt, hSup, hmul⟩ := hB.result
    have hpost := rank_of_left_inverse dbg hF.maskLt hlt hSup hmul
    rw [hF.pc] at hpost
    simp only [hpost, bne_self_eq_false, Bool.and_false, Bool.false_eq_true, if_false]

end Ymq.Gf2Small
