/-
Model of `pseudoprime` (src/lib.rs), the multiprecision Miller test over the 46 bases of
`fbase::SMALL_PRIMES`.

The `ZmodN` operations used by the Rust code (`from_int`, `mul`, `sub`, `one`, `zero`, equality
of `MInt`s) are taken here as *exact modular arithmetic on residues* (`a * b % p`, `1`, `p - 1`):
that they are is C07's theorem (Montgomery form is a bijection of residues that preserves
products and equality).  Everything else follows the Rust text: the even test, the delegation to
`isprime64` when `p.bits() <= 64`, the asserts of `ZmodN::new` (odd, at most 512 bits), the
exponent `p >> s` with `s = (p.low_u64() - 1).trailing_zeros()` (which is 64, not v2(p-1), when the
low word of `p` is 1), the right-to-left binary `pow_mod`, the squaring loop with its two exits.
No Mathlib import: this file is linked into the native driver.
-/
import Ymq.Model.Mg64

namespace Ymq.Pseudoprime
open Ymq.Mg64

/-- `pow_mod(zp, x, exp)`: `for b in 0..exp.bits()`; the fuel bounds the number of bits. -/
def powMod (p : Nat) : Nat → Nat → Nat → Nat → Nat
  | 0, res, _, _ => res
  | f + 1, res, x, e =>
    if e = 0 then res
    else powMod p f (if e % 2 = 1 then res * x % p else res) (x * x % p) (e / 2)

/-- the `for _ in 0..s` squaring loop of the Miller test; returns the final `ok`. -/
def sqLoop (p : Nat) : Nat → Nat → Bool → Bool
  | 0, _, ok => ok
  | t + 1, pow, ok =>
    let pow' := pow * pow % p
    if pow' = p - 1 then true
    else if pow' = 1 then ok
    else sqLoop p t pow' ok

/-- body of the base loop: Miller test of `p` for base `b`, with `p_odd = podd`, `s` squarings. -/
def millerBase (p s podd b : Nat) : Bool :=
  let pow := powMod p 1024 1 (b % p) podd
  sqLoop p s pow (pow = 1 || pow = p - 1)

/-- `pseudoprime(p)`; `none` = the real code panics (`ZmodN::new` refuses more than 512 bits). -/
def pseudoprime (p : Nat) : Option Bool :=
  if p % 2 = 0 then some (decide (p = 2))         -- !p.bit(0)
  else if p < W then isprime64 p                   -- p.bits() <= 64
  else if p ≥ 2 ^ 512 then none                    -- assert!(n.bits() <= 64 * MINT_WORDS)
  else
    let s := tz64 (p % W - 1)                      -- (p.low_u64() - 1).trailing_zeros()
    let podd := p / 2 ^ s                          -- p >> s
    some (Ymq.Gen.Primality.smallPrimes.all fun b => millerBase p s podd b)

end Ymq.Pseudoprime
