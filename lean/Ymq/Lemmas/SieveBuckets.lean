/-
C13 helper lemmas: bucket contents of `SieveTable` and `SieveTableLarge` after a sequence of adds, in one generic
statement: every bucket shows its old entries followed by a SUBLIST of the adds made to it (in order), and exactly
those adds when the overflow counter did not move.
-/
import Ymq.Lemmas.SieveTableExact
import Ymq.Lemmas.SieveState

namespace Ymq.Sieve

/-- a loop over indices whose body is itself a fold of `add` is a single fold of `add`. -/
theorem foldlM_flatMap_of_step {σ α β : Type} (stepf : σ → α → Option σ) (add : σ → β → Option σ) (G : α → List β)
    (h : ∀ t i t', stepf t i = some t' → (G i).foldlM add t = some t') :
    ∀ (L : List α) (t t' : σ), L.foldlM stepf t = some t' → (L.flatMap G).foldlM add t = some t' := by
  intro L
  induction L with
  | nil => intro t t' hf; simpa using hf
  | cons a rest ih =>
    intro t t' hf
    rw [List.foldlM_cons] at hf
    simp only [bind, Option.bind_eq_some_iff] at hf
    obtain ⟨t1, h1, h2⟩ := hf
    rw [List.flatMap_cons, List.foldlM_append]
    simp only [bind, Option.bind_eq_some_iff]
    exact ⟨t1, h t a t1 h1, ih t1 t' h2⟩

theorem bucket_fold_gen {T A E : Type} (add : T → A → Option T) (bucket : T → Nat → Option (List E)) (cnt : T → Nat)
    (WF : T → Prop) (key : A → Nat) (ent : A → E)
    (hstep : ∀ t a t', WF t → add t a = some t' → WF t' ∧
      ((cnt t' = cnt t ∧ ∀ b bk, bucket t b = some bk →
          bucket t' b = some (if b = key a then bk ++ [ent a] else bk)) ∨
       (cnt t' = cnt t + 1 ∧ ∀ b, bucket t' b = bucket t b))) :
    ∀ (adds : List A) (t t' : T), WF t → adds.foldlM add t = some t' →
      WF t' ∧ cnt t ≤ cnt t' ∧ ∀ b bk, bucket t b = some bk →
        ∃ ext, bucket t' b = some (bk ++ ext) ∧ ext.Sublist ((adds.filter fun a => key a = b).map ent) ∧
          (cnt t' = cnt t → ext = (adds.filter fun a => key a = b).map ent) := by
  intro adds
  induction adds with
  | nil =>
    intro t t' hwf hf
    simp at hf; subst hf
    exact ⟨hwf, le_refl _, fun b bk hb => ⟨[], by simpa using hb, by simp, fun _ => by simp⟩⟩
  | cons a rest ih =>
    intro t t' hwf hf
    rw [List.foldlM_cons] at hf
    simp only [bind, Option.bind_eq_some_iff] at hf
    obtain ⟨t1, h1, h2⟩ := hf
    obtain ⟨w1, hcase⟩ := hstep t a t1 hwf h1
    obtain ⟨w2, hmono, hbk2⟩ := ih t1 t' w1 h2
    rcases hcase with ⟨e, hbk⟩ | ⟨e, hbk⟩
    · refine ⟨w2, by omega, ?_⟩
      intro b bk hb
      obtain ⟨ext1, hb1, hs1, he1⟩ := hbk2 b _ (hbk b bk hb)
      by_cases hq : b = key a
      · have hq' : key a = b := hq.symm
        refine ⟨ent a :: ext1, ?_, ?_, ?_⟩
        · rw [hb1, if_pos hq]; simp
        · simp only [List.filter_cons, hq', decide_true, if_true, List.map_cons]
          exact hs1.cons₂ _
        · intro hc
          simp only [List.filter_cons, hq', decide_true, if_true, List.map_cons]
          rw [he1 (by omega)]
      · have hq' : ¬ key a = b := fun e => hq e.symm
        refine ⟨ext1, ?_, ?_, ?_⟩
        · rw [hb1, if_neg hq]
        · simpa [List.filter_cons, hq'] using hs1
        · intro hc
          simpa [List.filter_cons, hq'] using he1 (by omega)
    · refine ⟨w2, by omega, ?_⟩
      intro b bk hb
      obtain ⟨ext1, hb1, hs1, _⟩ := hbk2 b bk (by rw [hbk b]; exact hb)
      refine ⟨ext1, hb1, ?_, fun hc => by omega⟩
      by_cases hq' : key a = b
      · simp only [List.filter_cons, hq', decide_true, if_true, List.map_cons]
        exact hs1.cons _
      · simpa [List.filter_cons, hq'] using hs1

/-- effect of one `SieveTableLarge::add` on every bucket. -/
theorem LTable.add_bucket {t t' : LTable} {off pidx : Nat} (hwf : t.WF) (h : t.add off pidx = some t') :
    t'.WF ∧ ((t'.overflows.size = t.overflows.size ∧ ∀ b bk, t.bucket b = some bk →
        t'.bucket b = some (if b = off / 16384 then bk ++ [(off % BLOCK % 65536, pidx % 65536)] else bk)) ∨
      (t'.overflows.size = t.overflows.size + 1 ∧ ∀ b, t'.bucket b = t.bucket b)) := by
  have hwf' := (LTable.add_spec hwf h).1
  refine ⟨hwf', ?_⟩
  obtain ⟨hits, lengths, ovs⟩ := t
  unfold LTable.WF at hwf
  simp only at hwf
  unfold LTable.add at h
  simp only [LBW, LBS] at h
  split at h
  · simp at h
  split at h
  · simp at h
  rename_i l hbl
  have hb_lt : off / 16384 < lengths.size := (Array.getElem?_eq_some_iff.1 hbl).1
  by_cases hroom : l < 1024
  · simp only [hroom, if_true] at h
    by_cases hidx : off / 16384 * 1024 + l < hits.size
    · simp only [hidx, if_true, Option.some.injEq] at h
      subst h
      left
      refine ⟨rfl, ?_⟩
      intro b bk hb
      unfold LTable.bucket at hb ⊢
      simp only [LBS] at hb ⊢
      by_cases hq : b = off / 16384
      · subst hq
        rw [hbl] at hb
        simp only at hb
        have eb : (lengths.setIfInBounds (off / 16384) (l + 1))[off / 16384]? = some (l + 1) := by
          simp [Array.getElem?_setIfInBounds, hb_lt]
        rw [eb]
        simp only
        rw [List.range'_concat, List.mapM_append]
        have e1 : (List.range' (off / 16384 * 1024) l).mapM
            (fun e => (hits.setIfInBounds (off / 16384 * 1024 + l) (off % BLOCK % 65536, pidx % 65536))[e]?) =
            some bk := by
          rw [← hb]
          apply mapM_congr_mem
          intro i hi
          have := List.mem_range'_1.1 hi
          rw [Array.getElem?_setIfInBounds_ne (by omega)]
        rw [e1]
        have e2 : (hits.setIfInBounds (off / 16384 * 1024 + l) (off % BLOCK % 65536, pidx % 65536))[
            off / 16384 * 1024 + l]? = some (off % BLOCK % 65536, pidx % 65536) := by
          rw [Array.getElem?_setIfInBounds]; simp [hidx]
        simp [e2]
      · rw [Array.getElem?_setIfInBounds_ne (fun e => hq e.symm)]
        cases hbb : lengths[b]? with
        | none => rw [hbb] at hb; simp at hb
        | some bl =>
          rw [hbb] at hb
          simp only at hb ⊢
          have hbl32 := hwf b bl hbb
          rw [if_neg hq, ← hb]
          apply mapM_congr_mem
          intro i hi
          have := List.mem_range'_1.1 hi
          rw [Array.getElem?_setIfInBounds_ne (by omega)]
    · simp [hidx] at h
  · simp only [hroom, if_false, Option.some.injEq] at h
    subst h
    right
    exact ⟨by simp, fun b => rfl⟩

/-- bucket shape after a sequence of `SieveTable::add`. -/
theorem Table.fold_shape (adds : List (Nat × Nat)) (t t' : Table) (hwf : t.WF)
    (h : adds.foldlM (fun (t : Table) a => t.add a.1 a.2) t = some t') :
    t'.WF ∧ t.nOverflows ≤ t'.nOverflows ∧ ∀ b bk, t.bucket b = some bk →
      ∃ ext, t'.bucket b = some (bk ++ ext) ∧
        ext.Sublist ((adds.filter fun a => a.1 / 256 = b).map fun a => (a.1 % 256, a.2 % 256)) ∧
        (t'.nOverflows = t.nOverflows → ext = (adds.filter fun a => a.1 / 256 = b).map fun a => (a.1 % 256, a.2 % 256)) :=
  bucket_fold_gen (fun (t : Table) (a : Nat × Nat) => t.add a.1 a.2) Table.bucket Table.nOverflows Table.WF
    (fun a => a.1 / 256) (fun a => (a.1 % 256, a.2 % 256))
    (fun t a t' hw ha => ⟨(Table.add_spec hw ha).1, Table.add_bucket hw ha⟩) adds t t' hwf h

/-- bucket shape after a sequence of `SieveTableLarge::add`. -/
theorem LTable.fold_shape (adds : List (Nat × Nat)) (t t' : LTable) (hwf : t.WF)
    (h : adds.foldlM (fun (t : LTable) a => t.add a.1 a.2) t = some t') :
    t'.WF ∧ t.overflows.size ≤ t'.overflows.size ∧ ∀ b bk, t.bucket b = some bk →
      ∃ ext, t'.bucket b = some (bk ++ ext) ∧
        ext.Sublist ((adds.filter fun a => a.1 / 16384 = b).map fun a => (a.1 % BLOCK % 65536, a.2 % 65536)) ∧
        (t'.overflows.size = t.overflows.size →
          ext = (adds.filter fun a => a.1 / 16384 = b).map fun a => (a.1 % BLOCK % 65536, a.2 % 65536)) :=
  bucket_fold_gen (fun (t : LTable) (a : Nat × Nat) => t.add a.1 a.2) LTable.bucket (fun t => t.overflows.size)
    LTable.WF (fun a => a.1 / 16384) (fun a => (a.1 % BLOCK % 65536, a.2 % 65536))
    (fun t a t' hw ha => LTable.add_bucket hw ha) adds t t' hwf h

end Ymq.Sieve
