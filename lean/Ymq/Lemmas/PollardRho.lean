/-
Lemmas about the models of `pollard_rho::rho64` (Ymq/Model/ExpModn.lean), `pollard_rho::rho` and
`pollard_rho::rho_semiprime` (Ymq/Model/PollardRho.lean): no panic site of `rho64` is reachable for an
odd modulus `3 ≤ n ≤ 2^64 - 17` and an increment `c ≤ 9` (loop invariant `RhoInv`), the drivers
return what some `rho64` call returned.

Why `n + 17 ≤ 2^64`: after `x2 += c` the value is only known to be `< n + c` (the code comments
"we tolerate x2==n"), the next `mg_mul(n, ninv, x2, x2)` needs `x2² < n·2^64` (domain of `mg_redc`,
C07 `mgRedc_spec`) and `x2 += c` itself must not overflow: `(n + 8)² < n·2^64` holds exactly up to
`n = 2^64 - 17`. The eight odd values above have a prime factor `≤ 53` (Props/C03Rho.lean
`noSmall_below_top`), so `factor` never hands them over.
-/
import Ymq.Model.PollardRho
import Ymq.Props.C07
import Ymq.Props.C16

namespace Ymq.PollardRho
open Ymq.ExpModn Ymq.Mg64
structure RhoInv (n c : Nat) (s : RhoState) : Prop where
  x1 : s.x1 < W
  x2 : s.x2 < n + c
  prod : s.prod < n
  nend : ∃ j, s.nend + 1 = 2 ^ j

theorem absDiff_lt {a b : Nat} (ha : a < W) (hb : b < W) : absDiff a b < W := by
  unfold absDiff; split <;> omega

theorem W_eq : W = 18446744073709551616 := rfl

theorem sq_dom {n c x : Nat} (hn : 3 ≤ n) (hnW : n + 17 ≤ W) (hc : c ≤ 9) (hx : x < n + c) :
    x * x < n * W := by
  have hx8 : x ≤ n + 8 := by omega
  have h1 : x * x ≤ (n + 8) * (n + 8) := Nat.mul_le_mul hx8 hx8
  rcases Nat.lt_or_ge n 65 with hs | hs
  · have h2 : (n + 8) * (n + 8) ≤ 73 * 73 := Nat.mul_le_mul (by omega) (by omega)
    have h3 : 3 * W ≤ n * W := Nat.mul_le_mul_right W hn
    rw [W_eq] at h3 ⊢
    omega
  · have h2 : n * (n + 17) ≤ n * W := Nat.mul_le_mul_left n hnW
    nlinarith

theorem rhoStep_total {n ninv c : Nat} (hn : 3 ≤ n) (hnW : n + 17 ≤ W) (hc : c ≤ 9)
    (hninv : (n * ninv + 1) % W = 0) {s : RhoState} (hs : RhoInv n c s) (e2 : Nat) :
    ∃ r, rhoStep n ninv c s e2 = some r ∧ ∀ s', r = .inr s' → RhoInv n c s' := by
  obtain ⟨sq, hsq, hsqn, -⟩ := Ymq.C07.mgRedc_spec n ninv (s.x2 * s.x2) (by omega) (by omega) hninv
    (sq_dom hn hnW hc hs.x2)
  have hsq' : mgMul n ninv s.x2 s.x2 = some sq := hsq
  obtain ⟨pn, hpn, hpnn, -⟩ := Ymq.C07.mgMul_spec n ninv s.prod (absDiff s.x1 (sq + c)) (by omega)
    (by omega) hninv hs.prod (absDiff_lt hs.x1 (by omega))
  unfold rhoStep
  simp only [Option.bind_eq_bind, hsq', Option.bind_some]
  rw [if_neg (by omega : ¬ sq + c ≥ W)]
  by_cases h1 : e2 < s.nstart
  · rw [if_pos h1]
    refine ⟨_, rfl, fun s' h => ?_⟩
    injection h with h; subst h
    exact ⟨hs.x1, by simpa using (by omega : sq + c < n + c), hs.prod, hs.nend⟩
  · rw [if_neg h1]
    simp only [hpn, Option.bind_some]
    split
    · exact ⟨_, rfl, fun s' h => by cases h⟩
    · split
      · exact ⟨_, rfl, fun s' h => by cases h⟩
      · by_cases he : e2 = s.nend
        · rw [if_pos he]
          obtain ⟨j, hj⟩ := hs.nend
          have hp : e2 + 1 = 2 ^ j := by omega
          rw [hp, Nat.log2_two_pow]
          simp only [ne_eq, not_true_eq_false, if_false]
          refine ⟨_, rfl, fun s' h => ?_⟩
          injection h with h; subst h
          have hpos : 0 < 2 ^ j := Nat.two_pow_pos j
          exact ⟨by show sq + c < W; omega, by show sq + c < n + c; omega, hpnn,
            ⟨j + 1, by show 2 * 2 ^ j - 1 + 1 = 2 ^ (j + 1); rw [pow_succ]; omega⟩⟩
        · rw [if_neg he]
          refine ⟨_, rfl, fun s' h => ?_⟩
          injection h with h; subst h
          exact ⟨hs.x1, by show sq + c < n + c; omega, hpnn, hs.nend⟩

theorem rhoLoop_total {n ninv c iters : Nat} (hn : 3 ≤ n) (hnW : n + 17 ≤ W) (hc : c ≤ 9)
    (hninv : (n * ninv + 1) % W = 0) : ∀ (f e2 : Nat) (s : RhoState), RhoInv n c s →
    ∃ r, rhoLoop n ninv c iters f e2 s = some r
  | 0, _, s, _ => ⟨_, rfl⟩
  | f + 1, e2, s, hs => by
    rw [rhoLoop]
    split
    · exact ⟨_, rfl⟩
    · obtain ⟨r, hr, hinv⟩ := rhoStep_total hn hnW hc hninv hs e2
      rw [hr]
      cases r with
      | inl r => exact ⟨_, rfl⟩
      | inr s' => exact rhoLoop_total hn hnW hc hninv f (e2 + 1) s' (hinv s' rfl)

theorem rho64_total {n c iters : Nat} (hodd : n % 2 = 1) (hn : 3 ≤ n) (hnW : n + 17 ≤ W) (hc : c ≤ 9) :
    ∃ r, rho64 n c iters = some r := by
  obtain ⟨v, hv, _, hninv⟩ := Ymq.C07.mg2adicInv_spec n hodd
  unfold rho64
  simp only [Option.bind_eq_bind, hv, Option.bind_some]
  exact rhoLoop_total hn hnW hc hninv iters 1 _
    ⟨by show 2 < W; rw [W_eq]; omega, by show 2 < n + c; omega, by show 1 < n; omega, ⟨1, rfl⟩⟩

/-! ### the drivers -/

theorem rhoTry_total {n0 iters : Nat} : ∀ (cs : List Nat),
    (∀ c ∈ cs, ∃ r, rho64 n0 c iters = some r) → ∃ r, rhoTry n0 iters cs = some r
  | [], _ => ⟨_, rfl⟩
  | c :: cs, h => by
    obtain ⟨r, hr⟩ := h c List.mem_cons_self
    rw [rhoTry, hr]
    cases r with
    | some pq => exact ⟨_, rfl⟩
    | none => exact rhoTry_total cs (fun c' hc' => h c' (List.mem_cons_of_mem _ hc'))

theorem rhoTry_some {n0 iters : Nat} {pq : Nat × Nat} : ∀ (cs : List Nat),
    rhoTry n0 iters cs = some (some pq) → ∃ c ∈ cs, rho64 n0 c iters = some (some pq)
  | [], h => by simp [rhoTry] at h
  | c :: cs, h => by
    rw [rhoTry] at h
    split at h
    · exact absurd h (by simp)
    · rename_i pq' hr
      simp only [Option.some.injEq] at h
      subst h
      exact ⟨c, List.mem_cons_self, hr⟩
    · obtain ⟨c', hc', h'⟩ := rhoTry_some cs h
      exact ⟨c', List.mem_cons_of_mem _ hc', h'⟩

theorem lt_W_of_bits {n : Nat} (h : bits n ≤ 64) : n < W := by
  unfold bits at h
  split at h
  · rename_i h0; subst h0; decide
  · have h1 : n < 2 ^ (Nat.log2 n + 1) := Nat.lt_log2_self
    exact lt_of_lt_of_le h1 (Nat.pow_le_pow_right (by decide) h)

theorem rhoIters_some {size iters : Nat} (h : rhoIters size = some iters) : size ≤ 64 := by
  unfold rhoIters at h
  repeat (split at h; · omega)
  exact absurd h (by simp)

theorem rhoIters_none {size : Nat} (h : 64 < size) : rhoIters size = none := by
  unfold rhoIters
  repeat (rw [if_neg (by omega)])

theorem rhoIters_of_le {size : Nat} (h : size ≤ 64) : ∃ iters, rhoIters size = some iters := by
  unfold rhoIters
  repeat (split; · exact ⟨_, rfl⟩)
  first | exact ⟨_, rfl⟩ | omega

theorem rhoCs_le : ∀ c ∈ rhoCs, c ≤ 9 := by decide

/-- a success of `rho` is a success of one `rho64(n, c, iters)` with `c ∈ 1..10` -/
theorem rho_some {n : Nat} {as : List Nat} {b : Nat} (h : rho n = some (some (as, b))) :
    bits n ≤ 64 ∧ ∃ c ∈ rhoCs, ∃ iters a, rhoIters (bits n) = some iters ∧
      rho64 n c iters = some (some (a, b)) ∧ as = [a] := by
  unfold rho at h
  simp only at h
  split at h
  · exact absurd h (by simp)
  · rename_i iters hit
    have hb := rhoIters_some hit
    have hmod : n % W = n := Nat.mod_eq_of_lt (lt_W_of_bits hb)
    rw [hmod] at h
    split at h
    · exact absurd h (by simp)
    · exact absurd h (by simp)
    · rename_i p q htry
      simp only [Option.some.injEq, Prod.mk.injEq] at h
      obtain ⟨c, hc, h64⟩ := rhoTry_some _ htry
      exact ⟨hb, c, hc, iters, p, hit, by rw [← h.2]; exact h64, h.1.symm⟩

theorem rho_total {n : Nat} (hodd : n % 2 = 1) (hn : 3 ≤ n) (htop : bits n ≤ 64 → n + 17 ≤ W) :
    ∃ r, rho n = some r := by
  unfold rho
  simp only
  split
  · exact ⟨_, rfl⟩
  · rename_i iters hit
    have hb := rhoIters_some hit
    have hmod : n % W = n := Nat.mod_eq_of_lt (lt_W_of_bits hb)
    rw [hmod]
    obtain ⟨r, hr⟩ := rhoTry_total (n0 := n) (iters := iters) rhoCs
      (fun c hc => rho64_total hodd hn (htop hb) (rhoCs_le c hc))
    rw [hr]
    cases r with
    | none => exact ⟨_, rfl⟩
    | some pq => exact ⟨_, rfl⟩

theorem rhoSemiprime_some {n a b : Nat} (h : rhoSemiprime n = some (some (a, b))) :
    ∃ c iters, c ≤ 3 ∧ rho64 n c iters = some (some (a, b)) := by
  unfold rhoSemiprime at h
  split at h
  · obtain ⟨c, hc, h'⟩ := rhoTry_some _ h
    exact ⟨c, _, by simp at hc; omega, h'⟩
  · split at h
    · obtain ⟨c, hc, h'⟩ := rhoTry_some _ h
      exact ⟨c, _, by simp at hc; omega, h'⟩
    · obtain ⟨c, hc, h'⟩ := rhoTry_some _ h
      exact ⟨c, _, by simp at hc; omega, h'⟩

theorem rhoSemiprime_total {n : Nat} (hodd : n % 2 = 1) (hn : 3 ≤ n) (htop : n + 17 ≤ W) :
    ∃ r, rhoSemiprime n = some r := by
  have h64 : ∀ iters, ∀ c ∈ [1, 2, 3], ∃ r, rho64 n c iters = some r :=
    fun iters c hc => rho64_total hodd hn htop (by simp at hc; omega)
  unfold rhoSemiprime
  split
  · exact rhoTry_total _ (h64 _)
  · split
    · exact rhoTry_total _ (h64 _)
    · exact rhoTry_total _ (fun c hc => h64 _ c (by simp at hc; simp [hc]))

end Ymq.PollardRho
