//! Sieve reports (C13): `sieve::Sieve` driven through its public API on synthetic factor bases
//! and root tables, the bucket tables through the verif hooks, `fbase::cofactor`, `FBase::new`.
//!
//! sv <want> <root> <P> <cmd> ...      want = n<count> (threshold chosen by the harness so that at
//!                                     least <count> positions are reported when possible) | t<thr>
//!     cmds: new <off> <nblocks> <R1> <R2>   (recycles the tables of the previous sieve, if any)
//!           run <k> | skip <k> | rehash <R1> <R2> | dumplo
//!     answer: ok <thr,thr,..> | <block>;<block>;...
//!     block = B<blk_no>@<offset> lo=<hash> lp=<hash> ov=<n.n>/<n.n> fill=<n.n>/<n.n> n=<count> <pos>:<pidx.pidx> ...
//! svt <nblocks> <adds> <adds2|x> <queries>    SieveTable: adds, optional reset + adds2, bucket dumps
//! svl <nblocks> <adds> <adds2|x> <queries>    SieveTableLarge, same
//! sv_cof <P> <x> <facs> <maxlarge> <double>   fbase::cofactor
//! sv_fb <n> <size>                            FBase::new: primes and idx_by_log
//! sv_mult <n>                                 fbase::select_multiplier
//! svb <d0|d1> <root> <P> <cmd> ...            log accumulation: d1 = answered by the checked profile only, d0 = release only
//!     cmds: new <off> <nblocks> <R1> <R2> | skip <k> | rehash <R1> <R2> | blk <threshold>
//!     blk = sieve_block(); dump of the byte array `blk` (hash, maximum), smooths(threshold, root, roots); next_block()
//!     answer: ok | K<blk_no> h=<hash of the 32768 bytes> mx=<max byte> n=<count> <pos>:<pidx.pidx> ...;...
use crate::util::*;
use std::str::FromStr;
use yamaquasi::arith::{Dividers, I256};
use yamaquasi::fbase::{self, FBase};
use yamaquasi::sieve::{verif_hooks as h, Sieve, BLOCK_SIZE};
use yamaquasi::Int;

const HMOD: u128 = 2305843009213693951; // 2^61 - 1

fn hash16(l: &[u16]) -> u64 {
    let mut x: u128 = 0;
    for &v in l {
        x = (x * 1000003 + v as u128 + 1) % HMOD;
    }
    x as u64
}

fn bitlen(p: u32) -> usize {
    32 - u32::leading_zeros(p) as usize
}

/// An `FBase` with the given primes; `idx_by_log[i]` = index of the first prime of bit length >= i
/// (the documented meaning of the field; `sv_fb` checks that `FBase::new` agrees).
pub fn synthetic_fbase(primes: &[u32]) -> FBase {
    let mut fb = FBase::new(Int::from(1u64), 8);
    fb.primes = primes.to_vec();
    fb.sqrts = vec![1; primes.len()];
    fb.divs = primes.iter().map(|&p| Dividers::new(p)).collect();
    for (i, slot) in fb.idx_by_log.iter_mut().enumerate() {
        *slot = primes.iter().filter(|&&p| bitlen(p) < i).count();
    }
    fb
}

fn dots<T: ToString>(l: &[T]) -> String {
    if l.is_empty() {
        "-".to_string()
    } else {
        l.iter().map(|x| x.to_string()).collect::<Vec<_>>().join(".")
    }
}

fn dump_block(s: &Sieve, res: &[u16], facs: &[Vec<usize>]) -> String {
    let tc: Vec<_> = s.tables.iter().map(h::table_counts).collect();
    let lc: Vec<_> = s.ltables.iter().map(h::ltable_counts).collect();
    let mut out = format!(
        "B{}@{} lo={} lp={} ov={}/{} fill={}/{} n={}",
        s.blk_no,
        s.offset,
        hash16(&s.lo),
        hash16(&s.lo_prev),
        dots(&tc.iter().map(|c| c.0).collect::<Vec<_>>()),
        dots(&lc.iter().map(|c| c.0).collect::<Vec<_>>()),
        dots(&tc.iter().map(|c| c.1).collect::<Vec<_>>()),
        dots(&lc.iter().map(|c| c.1).collect::<Vec<_>>()),
        res.len()
    );
    for (r, f) in res.iter().zip(facs) {
        let mut f = f.clone();
        f.sort();
        out.push_str(&format!(" {}:{}", r, dots(&f)));
    }
    out
}

fn sv(a: &[&str]) -> Option<String> {
    let want = a.get(0)?;
    let (mode, wantn): (char, usize) = (want.chars().next()?, want[1..].parse().ok()?);
    let root: Option<u32> = if a[1] == "none" { None } else { Some(u32_of(a[1])?) };
    let primes: Vec<u32> = list_of(a.get(2)?)?;
    let fb = synthetic_fbase(&primes);
    let mut roots: Vec<[Vec<u32>; 2]> = vec![];
    // first pass: collect the root tables so that they outlive the sieve
    let mut i = 3;
    while i < a.len() {
        match a[i] {
            "new" => {
                roots.push([list_of(a.get(i + 3)?)?, list_of(a.get(i + 4)?)?]);
                i += 5;
            }
            "rehash" => {
                roots.push([list_of(a.get(i + 1)?)?, list_of(a.get(i + 2)?)?]);
                i += 3;
            }
            "run" | "skip" => i += 2,
            "dumplo" => i += 1,
            _ => return None,
        }
    }
    let mut st: Option<Sieve> = None;
    let mut cur: usize = usize::MAX; // index of the current root tables
    let mut nroots = 0;
    let mut thrs: Vec<u8> = vec![];
    let mut blocks: Vec<String> = vec![];
    let mut i = 3;
    while i < a.len() {
        match a[i] {
            "new" => {
                let off = i64_of(a[i + 1])?;
                let nblocks: usize = a[i + 2].parse().ok()?;
                let rec = st.take().map(|s| s.recycle());
                cur = nroots;
                nroots += 1;
                st = Some(Sieve::new(off, nblocks, &fb, [&roots[cur][0][..], &roots[cur][1][..]], rec));
                i += 5;
            }
            "rehash" => {
                cur = nroots;
                nroots += 1;
                st.as_mut()?.rehash([&roots[cur][0][..], &roots[cur][1][..]]);
                i += 3;
            }
            "skip" => {
                let k: usize = a[i + 1].parse().ok()?;
                let s = st.as_mut()?;
                for _ in 0..k {
                    s.sieve_block();
                    s.next_block();
                }
                i += 2;
            }
            "run" => {
                let k: usize = a[i + 1].parse().ok()?;
                let s = st.as_mut()?;
                let pr = [&roots[cur][0][..], &roots[cur][1][..]];
                for _ in 0..k {
                    s.sieve_block();
                    let thr = if mode == 't' {
                        wantn as u8
                    } else {
                        // largest threshold reporting at least `wantn` positions (2 when there is none)
                        let (mut lo, mut hi) = (2u8, 255u8);
                        while lo < hi {
                            let mid = lo + (hi - lo + 1) / 2;
                            if s.smooths(mid, root, pr).0.len() >= wantn {
                                lo = mid
                            } else {
                                hi = mid - 1
                            }
                        }
                        lo
                    };
                    let (res, facs) = s.smooths(thr, root, pr);
                    thrs.push(thr);
                    blocks.push(dump_block(s, &res, &facs));
                    s.next_block();
                }
                i += 2;
            }
            "dumplo" => {
                let s = st.as_ref()?;
                blocks.push(format!("LO {} {}", show_list(&s.lo), show_list(&s.lo_prev)));
                i += 1;
            }
            _ => return None,
        }
    }
    Some(format!("ok {} | {}", show_list(&thrs), blocks.join(";")))
}

fn svb(a: &[&str]) -> Option<String> {
    let dbg = match *a.get(0)? {
        "d0" => false,
        "d1" => true,
        _ => return None,
    };
    if dbg != cfg!(debug_assertions) {
        return None; // the request is meant for the other build profile
    }
    let root: Option<u32> = if a[1] == "none" { None } else { Some(u32_of(a[1])?) };
    let primes: Vec<u32> = list_of(a.get(2)?)?;
    let fb = synthetic_fbase(&primes);
    let mut roots: Vec<[Vec<u32>; 2]> = vec![];
    let mut i = 3;
    while i < a.len() {
        match a[i] {
            "new" => {
                roots.push([list_of(a.get(i + 3)?)?, list_of(a.get(i + 4)?)?]);
                i += 5;
            }
            "rehash" => {
                roots.push([list_of(a.get(i + 1)?)?, list_of(a.get(i + 2)?)?]);
                i += 3;
            }
            "blk" | "skip" => i += 2,
            _ => return None,
        }
    }
    let mut st: Option<Sieve> = None;
    let mut cur: usize = usize::MAX;
    let mut nroots = 0;
    let mut out: Vec<String> = vec![];
    let mut i = 3;
    while i < a.len() {
        match a[i] {
            "new" => {
                let off = i64_of(a[i + 1])?;
                let nblocks: usize = a[i + 2].parse().ok()?;
                let rec = st.take().map(|s| s.recycle());
                cur = nroots;
                nroots += 1;
                st = Some(Sieve::new(off, nblocks, &fb, [&roots[cur][0][..], &roots[cur][1][..]], rec));
                i += 5;
            }
            "rehash" => {
                cur = nroots;
                nroots += 1;
                st.as_mut()?.rehash([&roots[cur][0][..], &roots[cur][1][..]]);
                i += 3;
            }
            "skip" => {
                let k: usize = a[i + 1].parse().ok()?;
                let s = st.as_mut()?;
                for _ in 0..k {
                    s.sieve_block();
                    s.next_block();
                }
                i += 2;
            }
            "blk" => {
                let thr: u8 = a[i + 1].parse().ok()?;
                let s = st.as_mut()?;
                s.sieve_block();
                let mut h: u128 = 0;
                for &v in s.blk.iter() {
                    h = (h * 1000003 + v as u128 + 1) % HMOD;
                }
                let mx = s.blk.iter().max().copied().unwrap_or(0);
                let (res, facs) = s.smooths(thr, root, [&roots[cur][0][..], &roots[cur][1][..]]);
                let mut line = format!("K{} h={} mx={} n={}", s.blk_no, h, mx, res.len());
                for (r, f) in res.iter().zip(&facs) {
                    let mut f = f.clone();
                    f.sort();
                    line.push_str(&format!(" {}:{}", r, dots(&f)));
                }
                out.push(line);
                s.next_block();
                i += 2;
            }
            _ => return None,
        }
    }
    Some(format!("ok | {}", out.join(";")))
}

fn pairs(s: &str) -> Option<Vec<(usize, usize)>> {
    if s == "-" {
        return Some(vec![]);
    }
    s.split(',')
        .map(|x| {
            let (o, p) = x.split_once(':')?;
            Some((o.parse().ok()?, p.parse().ok()?))
        })
        .collect()
}

fn show_pairs<A: ToString, B: ToString>(l: &[(A, B)]) -> String {
    if l.is_empty() {
        "-".to_string()
    } else {
        l.iter().map(|(a, b)| format!("{}:{}", a.to_string(), b.to_string())).collect::<Vec<_>>().join(",")
    }
}

fn svt(a: &[&str]) -> Option<String> {
    let nblocks: usize = a[0].parse().ok()?;
    let limit = nblocks * BLOCK_SIZE;
    let adds = pairs(a[1])?;
    let mut t = h::table_new(nblocks);
    for &(o, p) in &adds {
        if o >= limit {
            return None; // undefined behaviour in the release profile: never sent
        }
        h::table_add(&mut t, o, p as u32);
    }
    if a[2] != "x" {
        h::table_reset(&mut t);
        for &(o, p) in &pairs(a[2])? {
            if o >= limit {
                return None;
            }
            h::table_add(&mut t, o, p as u32);
        }
    }
    let qs: Vec<usize> = list_of(a[3])?;
    let c = h::table_counts(&t);
    let mut out = format!("{} {} | {}", c.0, c.1, show_pairs(&h::table_overflow_list(&t)));
    for q in qs {
        if q >= limit {
            return None;
        }
        out.push_str(&format!(" | {}", show_pairs(&h::table_bucket(&t, q / 256))));
    }
    Some(out)
}

fn svl(a: &[&str]) -> Option<String> {
    let nblocks: usize = a[0].parse().ok()?;
    let limit = nblocks * BLOCK_SIZE;
    let adds = pairs(a[1])?;
    let mut t = h::ltable_new(nblocks);
    for &(o, p) in &adds {
        if o >= limit {
            return None;
        }
        h::ltable_add(&mut t, o, p);
    }
    if a[2] != "x" {
        h::ltable_reset(&mut t);
        for &(o, p) in &pairs(a[2])? {
            if o >= limit {
                return None;
            }
            h::ltable_add(&mut t, o, p);
        }
    }
    let qs: Vec<usize> = list_of(a[3])?;
    let c = h::ltable_counts(&t);
    let mut out = format!("{} {} | {}", c.0, c.1, show_pairs(&h::ltable_overflow_list(&t)));
    for q in qs {
        if q >= limit {
            return None;
        }
        out.push_str(&format!(" | {}", show_pairs(&h::ltable_bucket(&t, q / 16384))));
    }
    Some(out)
}

fn cof(a: &[&str]) -> Option<String> {
    let primes: Vec<u32> = list_of(a[0])?;
    let fb = synthetic_fbase(&primes);
    let x = I256::from_str(a[1]).ok()?;
    let facs: Vec<usize> = list_of(a[2])?;
    let maxlarge = u64_of(a[3])?;
    let double = bool_of(a[4])?;
    Some(match fbase::cofactor(&fb, &x, &facs, maxlarge, double) {
        None => "none".to_string(),
        Some(((p, q), fs)) => format!(
            "some {} {} {}",
            std::cmp::max(p, q),
            std::cmp::min(p, q),
            if fs.is_empty() {
                "-".to_string()
            } else {
                fs.iter().map(|(p, e)| format!("{}^{}", p, e)).collect::<Vec<_>>().join(".")
            }
        ),
    })
}

pub fn handle(op: &str, a: &[&str]) -> Option<String> {
    match (op, a.len()) {
        ("sv", n) if n >= 3 => sv(a),
        ("svb", n) if n >= 3 => svb(a),
        ("svt", 4) => svt(a),
        ("svl", 4) => svl(a),
        ("sv_cof", 5) => cof(a),
        // multiplier the quadratic sieves would select for n (used to build inputs for `factor`)
        ("sv_mult", 1) => Some(fbase::select_multiplier(uint_of(a[0])?).0.to_string()),
        ("sv_fb", 2) => {
            let n = Int::from_str(a[0]).ok()?;
            let fb = FBase::new(n, u32_of(a[1])?);
            Some(format!("{} | {}", show_list(&fb.primes), show_list(&fb.idx_by_log)))
        }
        _ => None,
    }
}
