//! `legendre` of src/classgroup.rs (C18), answered by the real code through the hook
//! `classgroup::verif_hooks_legendre::vh_legendre`.
//!
//! ops
//!   cg_legendre d p     -> the i32 returned by `legendre(&d, p)` (d: Uint decimal, p: u32)
use crate::util::*;
use yamaquasi::classgroup::verif_hooks_legendre::vh_legendre;

pub fn handle(op: &str, a: &[&str]) -> Option<String> {
    match (op, a) {
        ("cg_legendre", [d, p]) => {
            let d = uint_of(d)?;
            let p = u32_of(p)?;
            Some(vh_legendre(&d, p).to_string())
        }
        _ => None,
    }
}
