//! pollard_rho::rho and pollard_rho::rho_semiprime (C01 / C03: the rho stage inside the model,
//! lean/Ymq/Model/PollardRho.lean).
//!
//!   rho <n>            -> `none` | `some <a1,a2,..> <b>`   (n: any Uint; what lib.rs calls)
//!   rho_semiprime <n>  -> `none` | `some <a> <b>`          (n: u64; what fbase.rs calls)
//! A panic of the real code answers `panic` (main.rs runs every request under catch_unwind).
//! Even arguments of at most 64 bits never return (mg_2adic_inv): the generators send odd ones.
use crate::util::*;
use yamaquasi::Verbosity;

pub fn handle(op: &str, a: &[&str]) -> Option<String> {
    match (op, a) {
        ("rho", [n]) => {
            let n = uint_of(n)?;
            Some(match yamaquasi::pollard_rho::rho(&n, Verbosity::Silent) {
                None => "none".to_string(),
                Some((a_s, b)) => format!("some {} {}", show_list(&a_s), b),
            })
        }
        ("rho_semiprime", [n]) => Some(match yamaquasi::pollard_rho::rho_semiprime(u64_of(n)?) {
            None => "none".to_string(),
            Some((a, b)) => format!("some {} {}", a, b),
        }),
        _ => None,
    }
}
