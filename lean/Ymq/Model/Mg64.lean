/-
Model of the 64-bit Montgomery routines (src/arith_montgomery.rs:20-71) and of the
primality tests built on them (src/lib.rs `isprime64`).

Conventions (shared by every model file):
* machine words are `Nat`s; every place where the Rust code wraps (`wrapping_*`, `as u64`)
  the model reduces modulo `W = 2^64` explicitly;
* every place where the Rust code would panic in the checked profile (overflow, underflow,
  assert, debug_assert, out-of-bounds) the model returns `none`; theorems then state
  `= some r` on the documented domain, i.e. "no panic" is part of every specification;
* loops take fuel; `none` is also returned when fuel runs out (the theorems prove the fuel
  used by the wrappers is sufficient on the domain).
No Mathlib import: this file is linked into the native driver.
-/
import Ymq.Gen.Primality

namespace Ymq.Mg64

/-- 2^64 -/
def W : Nat := 18446744073709551616

/-- `u64::trailing_zeros` for a non-zero argument (fuel = word size). -/
def tzAux : Nat → Nat → Nat
  | 0, _ => 0
  | f + 1, n => if n % 2 = 1 then 0 else 1 + tzAux f (n / 2)

def tz64 (n : Nat) : Nat := if n = 0 then 64 else tzAux 64 n

/-- loop of `mg_2adic_inv`: `x` with `n * x ≡ 1 (mod 2^64)`. -/
def inv2adicLoop : Nat → Nat → Nat → Option Nat
  | 0, _, _ => none
  | f + 1, n, x =>
    let nx := n * x % W                 -- n.wrapping_mul(x)
    if nx = 0 then none                 -- `- 1` underflows
    else
      let rem := nx - 1
      if rem = 0 then some x
      else
        let x' := x + 2 ^ tz64 rem      -- x += 1 << rem.trailing_zeros()
        if x' ≥ W then none else inv2adicLoop f n x'

/-- `mg_2adic_inv(n)` : `ninv` with `n * ninv ≡ -1 (mod 2^64)`. -/
def mg2adicInv (n : Nat) : Option Nat :=
  match inv2adicLoop 65 n 1 with
  | none => none
  | some x => if x = 0 then none else some (W - x)   -- 1 + !x

/-- `mg_redc(n, ninv, x)` for a 128-bit `x`. -/
def mgRedc (n ninv x : Nat) : Option Nat :=
  let xlo := x % W
  let xhi := x / W % W
  if xlo = 0 then some xhi
  else
    let mul := xlo * ninv % W
    let m := mul * n
    if (xlo + m % W) % W ≠ 0 then none        -- debug_assert
    else
      let mhi := m / W % W
      if n < mhi + 1 then none                -- n - mhi - 1 underflows
      else
        let d := n - mhi - 1
        if xhi ≥ d then some (xhi - d)
        else if xhi + mhi + 1 ≥ W then none
        else some (xhi + mhi + 1)

/-- `mg_mul(n, ninv, x, y)` -/
def mgMul (n ninv x y : Nat) : Option Nat := mgRedc n ninv (x * y)

/-! ### isprime64 -/

/-- square-and-multiply loop of the Miller test (`while exp > 0`), in Montgomery form. -/
def powLoop (n ninv : Nat) : Nat → Nat → Nat → Nat → Option Nat
  | 0, _, _, _ => none
  | f + 1, x, sq, e =>
    if e = 0 then some x
    else do
      let x' ← if e % 2 = 1 then mgMul n ninv x sq else some x
      let sq' ← mgMul n ninv sq sq
      powLoop n ninv f x' sq' (e / 2)

/-- the `for _ in 0..tz` squaring loop; returns the final `ok`. -/
def sqLoop (n ninv one pm1 : Nat) : Nat → Nat → Bool → Option Bool
  | 0, _, ok => some ok
  | t + 1, pow, ok => do
    let pow' ← mgMul n ninv pow pow
    if pow' = pm1 then some true
    else if pow' = one then some ok
    else sqLoop n ninv one pm1 t pow' ok

structure Ctx where
  p : Nat
  pinv : Nat
  r1 : Nat
  r2 : Nat
  tz : Nat
  podd : Nat

def mkCtx (p : Nat) : Option Ctx := do
  let pinv ← mg2adicInv p
  let r1 := (W - p) % p                 -- 0.wrapping_sub(p) % p
  let r2 := r1 * r1 % p
  let tz := tz64 (p - 1)
  some { p, pinv, r1, r2, tz, podd := p / 2 ^ tz }

/-- the closure `miller` of `isprime64` -/
def miller (c : Ctx) (b : Nat) : Option Bool := do
  let one := c.r1
  let pm1 := c.p - c.r1
  let bm ← mgMul c.p c.pinv b c.r2
  let pow ← powLoop c.p c.pinv 65 one bm c.podd
  sqLoop c.p c.pinv one pm1 c.tz pow (pow = one || pow = pm1)

def allMiller (c : Ctx) : List Nat → Option Bool
  | [] => some true
  | b :: bs => do
    let ok ← miller c b
    if ok then allMiller c bs else some false

def runTiers (c : Ctx) : List (Nat × List Nat) → Option Bool
  | [] => some true
  | (thr, bases) :: ts =>
    if thr = 0 ∨ c.p / 2 ^ thr ≠ 0 then do
      let ok ← allMiller c bases
      if ok then runTiers c ts else some false
    else runTiers c ts

open Ymq.Gen.Primality in
/-- `isprime64(p)`; `none` = the real code does not return normally. -/
def isprime64 (p : Nat) : Option Bool :=
  if p < smallPrimes.getLast! then some (smallPrimes.contains p)
  else if rejectsEven && p % 2 = 0 then some false
  else do
    let c ← mkCtx p
    runTiers c tiers

end Ymq.Mg64
