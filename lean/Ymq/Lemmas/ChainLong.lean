/-
Lemmas about the 1024-bit addition-chain builder `mkLongLoop` (Model/Chain.lean):
loop invariant, value of the chain, well-formedness, absence of panics.
-/
import Ymq.Lemmas.Chain
import Mathlib.Tactic.IntervalCases

namespace Ymq.Chain

/-! ### uniform evaluation of opcode lists -/

/-- like `evalChain`, but the last opcode is treated like the others (from the value 0) -/
def evalOps : List Int → Int
  | [] => 0
  | op :: rest => if op % 2 = 0 then 2 ^ (op / 2).toNat * evalOps rest else 2 * evalOps rest + op

theorem evalChain_eq_evalOps {m : Int} : ∀ {c : List Int}, WF m c → evalChain c = evalOps c := by
  intro c
  induction c with
  | nil => intro h; exact absurd h (by simp [WF])
  | cons op rest ih =>
    intro h
    cases rest with
    | nil =>
      obtain ⟨h1, _, _⟩ := h
      have : ¬ (op % 2 = 0) := by omega
      simp only [evalChain, evalOps, this, if_false]
      omega
    | cons a r =>
      have hne : (a :: r) ≠ [] := by simp
      obtain ⟨_, hr⟩ := (WF_cons op hne).mp h
      rw [evalChain_cons _ hne, ih hr]
      rfl

/-! ### bit length -/

theorem lt_two_pow_bitLen (n : Nat) : n < 2 ^ bitLen n := by
  unfold bitLen
  by_cases h : n = 0
  · simp [h]
  · simp only [h, if_false]; exact Nat.lt_log2_self

theorem bitLen_le {n k : Nat} (h : n < 2 ^ k) : bitLen n ≤ k := by
  unfold bitLen
  by_cases h0 : n = 0
  · simp [h0]
  · simp only [h0, if_false]
    have := (Nat.log2_lt h0).mpr h
    omega

theorem le_bitLen {n k : Nat} (h : 2 ^ k ≤ 2 * n) : k ≤ bitLen n := by
  by_contra hc
  have h1 : bitLen n + 1 ≤ k := by omega
  have h2 : 2 ^ (bitLen n + 1) ≤ 2 ^ k := Nat.pow_le_pow_right (by decide) h1
  have h3 := lt_two_pow_bitLen n
  rw [Nat.pow_succ] at h2
  omega

theorem lt_bitLen {n k : Nat} (h : 2 ^ k ≤ n) : k < bitLen n := by
  have h3 := lt_two_pow_bitLen n
  have : 2 ^ k < 2 ^ bitLen n := lt_of_le_of_lt h h3
  exact (Nat.pow_lt_pow_iff_right (by decide)).mp this

/-! ### loop invariant of `make_addition_chain_long` -/

/-- the words of `n` not yet loaded into `exp` -/
def hiOf (n : Nat) (s : LongSt) : Nat := n / 2 ^ (64 * s.nextword)

/-- what is left to encode, in units of `2^bits`: loaded window (carry included) + unloaded words -/
def Rv (n : Nat) (s : LongSt) : Nat := s.exp + hiOf n s * 2 ^ s.curbits

/-- `pre` = value of the opcodes already emitted -/
structure Inv (n : Nat) (s : LongSt) (pre : Int) : Prop where
  val : (n : Int) = pre + (Rv n s : Int) * 2 ^ s.bits
  expLe : s.exp ≤ 2 ^ s.curbits
  cbLe : s.curbits ≤ 96
  hiEq : n / 2 ^ (s.bits + s.curbits) = hiOf n s
  sumEq : s.nextword ≤ (bitLen n - 1) / 64 → s.bits + s.curbits = 64 * s.nextword
  slack : ∃ z, 2 ^ z ∣ Rv n s ∧ -((2 : Int) ^ (s.bits + z)) ≤ 2 * pre ∧ 2 * pre ≤ (2 : Int) ^ (s.bits + z)
  pos : 0 < Rv n s

theorem hi_zero {n : Nat} {s : LongSt} (h : ¬ (s.nextword ≤ (bitLen n - 1) / 64)) : hiOf n s = 0 := by
  unfold hiOf
  apply Nat.div_eq_of_lt
  have h1 : bitLen n ≤ 64 * s.nextword := by omega
  exact lt_of_lt_of_le (lt_two_pow_bitLen n) (Nat.pow_le_pow_right (by decide) h1)

theorem hi_pos_bits {n : Nat} {s : LongSt} (h : hiOf n s ≠ 0) : 64 * s.nextword < bitLen n := by
  apply lt_bitLen
  unfold hiOf at h
  by_contra hc
  exact h (Nat.div_eq_of_lt (by omega))

theorem Inv.bits_le {n : Nat} {s : LongSt} {pre : Int} (h : Inv n s pre) : s.bits ≤ bitLen n := by
  obtain ⟨z, ⟨q, hq⟩, hlo, _⟩ := h.slack
  have hpos := h.pos
  have hval := h.val
  have hq1 : 1 ≤ q := by
    rcases Nat.eq_zero_or_pos q with h0 | h0
    · rw [h0, Nat.mul_zero] at hq; omega
    · exact h0
  apply le_bitLen
  -- 2 n = 2 pre + 2 R 2^bits >= -2^(bits+z) + 2 * 2^(bits+z)
  have h2 : ((2 : Int) ^ (s.bits + z)) ≤ (Rv n s : Int) * 2 ^ s.bits := by
    rw [hq, pow_add]; push_cast
    have hz : (0 : Int) < 2 ^ z := by positivity
    have hb : (0 : Int) < 2 ^ s.bits := by positivity
    have hq' : (1 : Int) ≤ q := by exact_mod_cast hq1
    nlinarith [mul_pos hz hb]
  have h3 : (2 : Int) ^ s.bits ≤ 2 ^ (s.bits + z) := by
    exact pow_le_pow_right₀ (by norm_num) (by omega)
  have : ((2 ^ s.bits : Nat) : Int) ≤ ((2 * n : Nat) : Int) := by
    push_cast; linarith
  exact_mod_cast this

/-- state after the optional refill at the top of an iteration -/
def refill (n : Nat) (s : LongSt) : LongSt :=
  { s with exp := s.exp + (n / 2 ^ (64 * s.nextword) % W) * 2 ^ s.curbits,
           nextword := s.nextword + 1, curbits := s.curbits + 64 }

theorem inv_refill {n : Nat} {s : LongSt} {pre : Int} (h : Inv n s pre) (h1 : s.curbits ≤ 32)
    (h2 : s.nextword ≤ (bitLen n - 1) / 64) :
    Inv n (refill n s) pre ∧ Rv n (refill n s) = Rv n s ∧ (refill n s).exp < W128 := by
  have hsum := h.sumEq h2
  have hsplit : n / 2 ^ (64 * s.nextword) =
      n / 2 ^ (64 * s.nextword) % W + W * (n / 2 ^ (64 * (s.nextword + 1))) := by
    have e1 : n / 2 ^ (64 * (s.nextword + 1)) = n / 2 ^ (64 * s.nextword) / W := by
      rw [Nat.div_div_eq_div_mul, W_eq, ← Nat.pow_add]; congr 2
    rw [e1]; have := Nat.mod_add_div (n / 2 ^ (64 * s.nextword)) W; omega
  have hR : Rv n (refill n s) = Rv n s := by
    simp only [Rv, hiOf, refill]
    generalize n / 2 ^ (64 * (s.nextword + 1)) = hi' at hsplit
    generalize n / 2 ^ (64 * s.nextword) % W = d at hsplit
    rw [hsplit, Nat.pow_add, ← W_eq]; ring
  have hdlt : n / 2 ^ (64 * s.nextword) % W < W := Nat.mod_lt _ (by decide)
  have hexp : (refill n s).exp ≤ 2 ^ (s.curbits + 64) := by
    simp only [refill]
    have := h.expLe
    rw [Nat.pow_add, ← W_eq]
    generalize 2 ^ s.curbits = B at *
    generalize n / 2 ^ (64 * s.nextword) % W = d at *
    nlinarith
  refine ⟨⟨?_, hexp, ?_, ?_, ?_, ?_, ?_⟩, hR, ?_⟩
  · rw [hR]; exact h.val
  · simp only [refill]; omega
  · simp only [refill, hiOf]
    have : s.bits + (s.curbits + 64) = 64 * (s.nextword + 1) := by omega
    rw [this]
  · intro _; simp only [refill]; omega
  · rw [hR]; exact h.slack
  · rw [hR]; exact h.pos
  · have h96 : (2 : Nat) ^ (s.curbits + 64) ≤ 2 ^ 96 := Nat.pow_le_pow_right (by decide) (by omega)
    have : (2 : Nat) ^ 96 < W128 := by decide
    omega

/-- state after an even opcode shifting by `t` -/
def stepEven (s : LongSt) (t : Nat) : LongSt :=
  { s with exp := s.exp / 2 ^ t, bits := s.bits + t, curbits := s.curbits - t, idx := s.idx + 1 }

theorem inv_even {n : Nat} {s : LongSt} {pre : Int} (h : Inv n s pre) (t : Nat) (ht : t ≤ s.curbits)
    (hdvd : 2 ^ t ∣ s.exp) :
    Inv n (stepEven s t) pre ∧ Rv n s = 2 ^ t * Rv n (stepEven s t) := by
  obtain ⟨q, hq⟩ := hdvd
  have hdiv : s.exp / 2 ^ t = q := Nat.div_eq_of_eq_mul_right (Nat.pow_pos (by decide)) hq
  have hcb : 2 ^ s.curbits = 2 ^ t * 2 ^ (s.curbits - t) := by rw [← Nat.pow_add]; congr 1; omega
  have hR : Rv n s = 2 ^ t * Rv n (stepEven s t) := by
    simp only [Rv, hiOf, stepEven, hdiv]
    rw [hcb, hq]; ring
  have hpos : 0 < Rv n (stepEven s t) := by
    have := h.pos; rw [hR] at this
    exact Nat.pos_of_mul_pos_left this
  refine ⟨⟨?_, ?_, ?_, ?_, ?_, ?_, hpos⟩, hR⟩
  · have := h.val
    rw [hR] at this
    have hb : (stepEven s t).bits = s.bits + t := rfl
    rw [hb, this, pow_add]; push_cast; ring
  · simp only [stepEven, hdiv]
    have := h.expLe
    rw [hcb, hq] at this
    exact Nat.le_of_mul_le_mul_left this (Nat.pow_pos (by decide))
  · simp only [stepEven]; have := h.cbLe; omega
  · simp only [stepEven]
    have : s.bits + t + (s.curbits - t) = s.bits + s.curbits := by omega
    rw [this]; exact h.hiEq
  · intro h2; simp only [stepEven]; have := h.sumEq h2; omega
  · obtain ⟨z, hz, hlo, hhi⟩ := h.slack
    by_cases hzt : t ≤ z
    · refine ⟨z - t, ?_, ?_, ?_⟩
      · rw [hR] at hz
        have : 2 ^ z = 2 ^ t * 2 ^ (z - t) := by rw [← Nat.pow_add]; congr 1; omega
        rw [this] at hz
        exact (Nat.mul_dvd_mul_iff_left (Nat.pow_pos (by decide))).mp hz
      · simp only [stepEven]
        have : s.bits + t + (z - t) = s.bits + z := by omega
        rw [this]; exact hlo
      · simp only [stepEven]
        have : s.bits + t + (z - t) = s.bits + z := by omega
        rw [this]; exact hhi
    · refine ⟨0, by simp, ?_, ?_⟩
      · simp only [stepEven]
        have : (2 : Int) ^ (s.bits + z) ≤ 2 ^ (s.bits + t + 0) := pow_le_pow_right₀ (by norm_num) (by omega)
        linarith
      · simp only [stepEven]
        have : (2 : Int) ^ (s.bits + z) ≤ 2 ^ (s.bits + t + 0) := pow_le_pow_right₀ (by norm_num) (by omega)
        linarith

/-- state after an odd opcode (`exp` already adjusted to `e`, a multiple of 128) -/
def stepOdd (s : LongSt) (e : Nat) : LongSt :=
  { s with exp := e / 2, bits := s.bits + 1, curbits := s.curbits - 1, idx := s.idx + 1 }

theorem inv_odd {n : Nat} {s : LongSt} {pre : Int} (h : Inv n s pre) (e : Nat) (x : Int)
    (hcb : 1 ≤ s.curbits) (he : (e : Int) = (s.exp : Int) - x) (h128 : 128 ∣ e) (hle : e ≤ 2 ^ s.curbits)
    (hhi : 128 ∣ hiOf n s * 2 ^ s.curbits) (hx1 : -63 ≤ x) (hx2 : x ≤ 63) (hodd : Rv n s % 2 = 1)
    (hpos : 0 < e / 2 + hiOf n s * 2 ^ (s.curbits - 1)) :
    Inv n (stepOdd s e) (pre + x * 2 ^ s.bits) ∧ (Rv n s : Int) = 2 * (Rv n (stepOdd s e) : Int) + x ∧
      64 ∣ Rv n (stepOdd s e) := by
  have hcb2 : 2 ^ s.curbits = 2 * 2 ^ (s.curbits - 1) := by
    rw [← Nat.pow_succ']; congr 1; omega
  have hR' : Rv n (stepOdd s e) = e / 2 + hiOf n s * 2 ^ (s.curbits - 1) := by
    simp only [Rv, hiOf, stepOdd]
  have h2R : 2 * Rv n (stepOdd s e) = e + hiOf n s * 2 ^ s.curbits := by
    rw [hR', hcb2]
    have : 2 * (e / 2) = e := by omega
    generalize 2 ^ (s.curbits - 1) = B
    generalize hiOf n s = H
    nlinarith
  have hR : (Rv n s : Int) = 2 * (Rv n (stepOdd s e) : Int) + x := by
    have : ((2 * Rv n (stepOdd s e) : Nat) : Int) = (e : Int) + ((hiOf n s * 2 ^ s.curbits : Nat) : Int) := by
      rw [h2R]; push_cast; ring
    simp only [Rv] at this ⊢
    push_cast at this ⊢
    linarith
  have h64 : 64 ∣ Rv n (stepOdd s e) := by
    have : 128 ∣ 2 * Rv n (stepOdd s e) := by rw [h2R]; exact Nat.dvd_add h128 hhi
    omega
  refine ⟨⟨?_, ?_, ?_, ?_, ?_, ?_, ?_⟩, hR, h64⟩
  · have := h.val
    rw [hR] at this
    have hb : (stepOdd s e).bits = s.bits + 1 := rfl
    rw [hb, this, pow_succ]; ring
  · simp only [stepOdd]
    rw [hcb2] at hle; omega
  · simp only [stepOdd]; have := h.cbLe; omega
  · simp only [stepOdd]
    have : s.bits + 1 + (s.curbits - 1) = s.bits + s.curbits := by omega
    rw [this]; exact h.hiEq
  · intro h2; simp only [stepOdd]; have := h.sumEq h2; omega
  · -- the remaining value is a multiple of 64; `pre` grows by less than 64 * 2^bits
    obtain ⟨z, hz, hlo, hhi'⟩ := h.slack
    have hz0 : z = 0 := by
      by_contra hc
      have : 2 ∣ Rv n s := Dvd.dvd.trans (dvd_pow_self 2 hc) hz
      omega
    subst hz0
    refine ⟨6, h64, ?_, ?_⟩
    · simp only [stepOdd]
      have e1 : (2 : Int) ^ (s.bits + 1 + 6) = 128 * 2 ^ s.bits := by rw [pow_add, pow_add]; norm_num; ring
      rw [e1]
      have hb : (0 : Int) < 2 ^ s.bits := by positivity
      simp only [Nat.add_zero] at hlo
      nlinarith
    · simp only [stepOdd]
      have e1 : (2 : Int) ^ (s.bits + 1 + 6) = 128 * 2 ^ s.bits := by rw [pow_add, pow_add]; norm_num; ring
      rw [e1]
      have hb : (0 : Int) < 2 ^ s.bits := by positivity
      simp only [Nat.add_zero] at hhi'
      nlinarith
  · rw [hR']; exact hpos

/-! ### one iteration -/

/-- the digits of `n` as `make_addition_chain_long` reads them -/
def ndOf (n : Nat) : Nat → Nat := fun i => n / 2 ^ (64 * i) % W

/-- after the refill step: while words remain, more than 32 bits are in the window -/
def Filled (n : Nat) (s : LongSt) : Prop := s.nextword ≤ (bitLen n - 1) / 64 → 33 ≤ s.curbits

theorem longRefill_spec {n : Nat} {s : LongSt} {pre : Int} (hn : n < 2 ^ 1024) (h : Inv n s pre) :
    ∃ s1, longRefill (ndOf n) ((bitLen n - 1) / 64) s = some s1 ∧ Inv n s1 pre ∧ Rv n s1 = Rv n s ∧
      s1.bits = s.bits ∧ s1.idx = s.idx ∧ Filled n s1 := by
  unfold longRefill
  by_cases hc : s.curbits ≤ 32 ∧ s.nextword ≤ (bitLen n - 1) / 64
  · obtain ⟨hi1, hR, hlt⟩ := inv_refill h hc.1 hc.2
    have hnb : bitLen n ≤ 1024 := bitLen_le hn
    have h16 : ¬ (s.nextword ≥ 16) := by omega
    have hW : ¬ (s.exp + ndOf n s.nextword * 2 ^ s.curbits ≥ W128) := by
      have : (refill n s).exp = s.exp + ndOf n s.nextword * 2 ^ s.curbits := rfl
      omega
    simp only [hc, h16, hW, and_self, if_true, if_false]
    refine ⟨refill n s, rfl, hi1, hR, rfl, rfl, ?_⟩
    intro _; simp only [refill]; omega
  · simp only [hc, if_false]
    refine ⟨s, rfl, h, rfl, rfl, rfl, ?_⟩
    intro h2
    by_contra h3
    exact hc ⟨by omega, h2⟩

/-- weight of the next opcodes: an odd remainder needs an add now, a multiple of 64 is owed a long
shift, anything else needs a short shift and then an add -/
def wOf (r : Nat) : Nat := if r % 2 = 1 then 5 else if r % 64 = 0 then 0 else 12

/-- potential: every opcode lowers it by at least 7 -/
def pot (n : Nat) (s : LongSt) : Nat := 2 * (bitLen n + 1 - s.bits) + wOf (Rv n s)

theorem longStep_spec {n cap : Nat} {s : LongSt} {pre : Int} (h : Inv n s pre) (hf : Filled n s)
    (hidx : s.idx < cap) :
    (∃ x : Int, longStep cap (bitLen n) s = some (.inl [x]) ∧ x % 2 = 1 ∧ 1 ≤ x ∧ x ≤ 63 ∧
        (Rv n s : Int) = x ∧ 7 ≤ pot n s) ∨
    (∃ op s2 pre2, longStep cap (bitLen n) s = some (.inr (op, s2)) ∧ OpOk 63 op ∧ Inv n s2 pre2 ∧
        (Rv n s : Int) = (if op % 2 = 0 then 2 ^ (op / 2).toNat * (Rv n s2 : Int)
                           else 2 * (Rv n s2 : Int) + op) ∧
        s.bits < s2.bits ∧ s2.idx = s.idx + 1 ∧ pot n s2 + 7 ≤ pot n s) := by
  have hidx' : ¬ (s.idx ≥ cap) := by omega
  have hble := h.bits_le
  have hexpLe := h.expLe
  have hcb96 := h.cbLe
  have hpos := h.pos
  -- facts about the unloaded part
  have F1 : hiOf n s ≠ 0 → 33 ≤ s.curbits ∧ s.bits + s.curbits = 64 * s.nextword ∧ 64 * s.nextword < bitLen n := by
    intro hh
    have hnw : s.nextword ≤ (bitLen n - 1) / 64 := by
      by_contra hc; exact hh (hi_zero hc)
    exact ⟨hf hnw, h.sumEq hnw, hi_pos_bits hh⟩
  have F3 : 128 ∣ hiOf n s * 2 ^ s.curbits := by
    by_cases hh : hiOf n s = 0
    · rw [hh]; simp
    · have h33 := (F1 hh).1
      have : 2 ^ s.curbits = 2 ^ 7 * 2 ^ (s.curbits - 7) := by rw [← Nat.pow_add]; congr 1; omega
      rw [this]
      exact Dvd.intro _ (by ring : 128 * (hiOf n s * 2 ^ (s.curbits - 7)) = hiOf n s * (2 ^ 7 * 2 ^ (s.curbits - 7)))
  have h2cb96 : 2 ^ s.curbits ≤ 2 ^ 96 := Nat.pow_le_pow_right (by decide) hcb96
  have hW96 : (2 : Nat) ^ 96 < 2 ^ 128 := by norm_num
  unfold longStep
  simp only [hidx', if_false]
  by_cases hev : s.exp % 2 = 0
  · -- even opcode
    right
    simp only [hev, if_true]
    have hhi0 : s.exp = 0 → hiOf n s ≠ 0 := by
      intro h0 hh
      simp only [Rv, hh, h0] at hpos; omega
    have hcb1 : 1 ≤ s.curbits := by
      by_contra hc
      have hc0 : s.curbits = 0 := by omega
      by_cases hh : hiOf n s = 0
      · rw [hc0] at hexpLe
        have : s.exp = 0 := by simp at hexpLe; omega
        exact hhi0 this hh
      · have := (F1 hh).1; omega
    have ht : ∃ t, min 60 (min (tz128 s.exp) s.curbits) = t ∧ 1 ≤ t ∧ t ≤ 60 ∧ t ≤ s.curbits ∧ 2 ^ t ∣ s.exp ∧
        (33 ≤ t ∨ ((s.exp / 2 ^ t) % 2 = 1 ∧ (t < s.curbits ∨ hiOf n s = 0))) ∧ (64 ∣ s.exp → 6 ≤ t) := by
      by_cases h0 : s.exp = 0
      · have h33 := (F1 (hhi0 h0)).1
        refine ⟨_, rfl, ?_, by omega, by omega, ?_, ?_, ?_⟩
        · simp only [tz128, h0, if_true]; omega
        · rw [h0]; exact dvd_zero _
        · left; simp only [tz128, h0, if_true]; omega
        · intro _; simp only [tz128, h0, if_true]; omega
      · obtain ⟨m, hm, hmo, _⟩ := tzAux_spec 128 s.exp (by omega) (by omega)
        have htz : tz128 s.exp = tzAux 128 s.exp := by simp only [tz128, h0, if_false]
        rw [htz]
        generalize tzAux 128 s.exp = tz at hm
        have htz1 : 1 ≤ tz := by
          by_contra hc
          have : tz = 0 := by omega
          rw [this] at hm; simp at hm; omega
        refine ⟨_, rfl, by omega, by omega, by omega, ?_, ?_, ?_⟩
        · have hle : min 60 (min tz s.curbits) ≤ tz := by omega
          exact Dvd.dvd.trans (Nat.pow_dvd_pow 2 hle) (Dvd.intro _ hm.symm)
        · by_cases heq : min 60 (min tz s.curbits) = tz
          · rw [heq]
            have hdiv : s.exp / 2 ^ tz = m := Nat.div_eq_of_eq_mul_right (Nat.pow_pos (by decide)) hm
            by_cases hh : hiOf n s = 0
            · right; exact ⟨by rw [hdiv]; exact hmo, Or.inr hh⟩
            · have h33 := (F1 hh).1
              by_cases hlt : tz < s.curbits
              · right; exact ⟨by rw [hdiv]; exact hmo, Or.inl hlt⟩
              · left; omega
          · left
            by_cases h60 : min 60 (min tz s.curbits) = 60
            · omega
            · have hcbt : s.curbits < tz := by omega
              by_cases hh : hiOf n s = 0
              · exfalso
                have h1 : 2 ^ (s.curbits + 1) ≤ 2 ^ tz := Nat.pow_le_pow_right (by decide) (by omega)
                have h2 : 2 ^ tz ≤ s.exp := by
                  rw [hm]; exact Nat.le_mul_of_pos_right _ (by omega)
                rw [Nat.pow_succ] at h1
                have := Nat.pow_pos (n := s.curbits) (by decide : 0 < 2)
                omega
              · have h33 := (F1 hh).1; omega
        · intro h64
          have htz6 : 6 ≤ tz := by
            by_contra hc
            have : tz ≤ 5 := by omega
            interval_cases tz <;> omega
          have hcb6 : 6 ≤ s.curbits := by
            by_contra hc
            have : 2 ^ s.curbits ≤ 2 ^ 5 := Nat.pow_le_pow_right (by decide) (by omega)
            omega
          omega
    obtain ⟨t, htdef, ht1, ht60, htcb, htdvd, hta, htb⟩ := ht
    rw [htdef]
    have hi8 : i8 (2 * asI8 t) = some (2 * (t : Int)) := by
      rw [asI8_small _ (by omega)]; exact i8_small _ (by omega) (by omega)
    simp only [hi8]
    obtain ⟨hinv2, hR⟩ := inv_even h t htcb htdvd
    have hble2 := hinv2.bits_le
    have hb2 : (stepEven s t).bits = s.bits + t := rfl
    refine ⟨2 * (t : Int), stepEven s t, pre, rfl, Or.inr ⟨by omega, by omega, by omega⟩, hinv2, ?_, ?_, rfl, ?_⟩
    · have h1 : (2 * (t : Int)) % 2 = 0 := by omega
      have h2 : (2 * (t : Int) / 2).toNat = t := by omega
      simp only [h1, if_true, h2]
      rw [hR]; push_cast; ring
    · simp only [stepEven]; omega
    · -- potential
      have hReven : Rv n s % 2 = 0 := by simp only [Rv]; omega
      have hw2 : wOf (Rv n (stepEven s t)) ≤ 12 := by unfold wOf; split_ifs <;> omega
      simp only [pot, hb2]
      rcases hta with h33 | ⟨hodd2, hlt⟩
      · have : 0 ≤ wOf (Rv n s) := Nat.zero_le _
        omega
      · have hR2odd : Rv n (stepEven s t) % 2 = 1 := by
          have hR2 : Rv n (stepEven s t) = s.exp / 2 ^ t + hiOf n s * 2 ^ (s.curbits - t) := rfl
          rw [hR2]
          rcases hlt with hlt | hh
          · have : 2 ^ (s.curbits - t) = 2 * 2 ^ (s.curbits - t - 1) := by
              rw [← Nat.pow_succ']; congr 1; omega
            rw [this]
            generalize 2 ^ (s.curbits - t - 1) = M
            generalize hiOf n s = H
            have : H * (2 * M) = 2 * (H * M) := by ring
            omega
          · rw [hh]; omega
        have hw2' : wOf (Rv n (stepEven s t)) = 5 := by unfold wOf; simp [hR2odd]
        rw [hw2']
        by_cases h64 : Rv n s % 64 = 0
        · have hexp64 : 64 ∣ s.exp := by
            have : 64 ∣ Rv n s := Nat.dvd_of_mod_eq_zero h64
            simp only [Rv] at this
            omega
          have := htb hexp64
          have hw : wOf (Rv n s) = 0 := by unfold wOf; simp [hReven, h64]
          omega
        · have hw : wOf (Rv n s) = 12 := by unfold wOf; simp [hReven, h64]
          omega
  · -- odd opcode
    simp only [hev, if_false]
    have hodd : s.exp % 2 = 1 := by omega
    have hRodd : Rv n s % 2 = 1 := by
      simp only [Rv]; omega
    obtain ⟨z, hz, hlo, hhi'⟩ := h.slack
    have hz0 : z = 0 := by
      by_contra hc
      have : 2 ∣ Rv n s := Dvd.dvd.trans (dvd_pow_self 2 hc) hz
      omega
    subst hz0
    simp only [Nat.add_zero] at hlo hhi'
    by_cases hlow : s.exp % 128 < 64
    · simp only [hlow, if_true]
      have hasI8 : asI8 (s.exp % 128) = ((s.exp % 128 : Nat) : Int) := asI8_small _ (by omega)
      by_cases hA : s.exp - s.exp % 128 = 0 ∧ hiOf n s = 0
      · -- the last opcode: break
        left
        have hR : Rv n s = s.exp % 128 := by simp only [Rv, hA.2]; omega
        have hb1 : ¬ (bitLen n < s.bits) := by have := h.bits_le; omega
        have hb2 : bitLen n - s.bits ≤ 6 := by
          have hval := h.val
          rw [hR] at hval
          have hlt : n < 2 ^ (s.bits + 6) := by
            have hb : (0 : Int) < 2 ^ s.bits := by positivity
            have : (n : Int) < 2 ^ (s.bits + 6) := by
              rw [pow_add]; norm_num
              have : ((s.exp % 128 : Nat) : Int) ≤ 63 := by omega
              nlinarith
            exact_mod_cast this
          have := bitLen_le hlt; omega
        simp only [hA.1, hb1, hb2, true_and, and_self, if_true, if_false, hasI8]
        refine ⟨_, rfl, by omega, by omega, by omega, by rw [hR], ?_⟩
        have hw : wOf (Rv n s) = 5 := by unfold wOf; simp [hRodd]
        simp only [pot, hw]; omega
      · -- positive opcode, continue
        right
        have hcond1 : ¬ (s.exp - s.exp % 128 = 0 ∧ bitLen n < s.bits) := by
          intro hc; have := h.bits_le; omega
        have hhe : s.exp - s.exp % 128 ≠ 0 ∨ hiOf n s ≠ 0 := by
          by_contra hc; exact hA ⟨by omega, by omega⟩
        have hcond2 : ¬ (s.exp - s.exp % 128 = 0 ∧ bitLen n - s.bits ≤ 6) := by
          intro hc
          rcases hhe with h1 | h1
          · exact h1 hc.1
          · have := F1 h1; omega
        have hcb7 : s.exp - s.exp % 128 ≠ 0 → 7 ≤ s.curbits := by
          intro h1
          by_contra hc
          have : 2 ^ s.curbits ≤ 2 ^ 6 := Nat.pow_le_pow_right (by decide) (by omega)
          omega
        have hcb0 : ¬ (s.curbits = 0) := by
          rcases hhe with h1 | h1
          · have := hcb7 h1; omega
          · have := (F1 h1).1; omega
        simp only [hcond1, hcond2, hcb0, if_false, hasI8]
        have hposn : 0 < (s.exp - s.exp % 128) / 2 + hiOf n s * 2 ^ (s.curbits - 1) := by
          rcases hhe with h1 | h1
          · have : 128 ≤ s.exp - s.exp % 128 := by omega
            omega
          · have : 0 < hiOf n s * 2 ^ (s.curbits - 1) :=
              Nat.mul_pos (Nat.pos_of_ne_zero h1) (Nat.pow_pos (by decide))
            omega
        obtain ⟨hinv2, hR, h64⟩ := inv_odd h (s.exp - s.exp % 128) ((s.exp % 128 : Nat) : Int) (by omega)
          (by omega) (by omega) (by omega) F3 (by omega) (by omega) hRodd hposn
        have hble2 := hinv2.bits_le
        refine ⟨_, stepOdd s (s.exp - s.exp % 128), _, rfl, Or.inl ⟨by omega, by omega, by omega⟩, hinv2, ?_, ?_, rfl, ?_⟩
        · have h1 : ¬ (((s.exp % 128 : Nat) : Int) % 2 = 0) := by omega
          simp only [h1, if_false]; exact hR
        · simp only [stepOdd]; omega
        · have hw : wOf (Rv n s) = 5 := by unfold wOf; simp [hRodd]
          have hw2 : wOf (Rv n (stepOdd s (s.exp - s.exp % 128))) = 0 := by
            unfold wOf
            have h1 : Rv n (stepOdd s (s.exp - s.exp % 128)) % 64 = 0 := Nat.mod_eq_zero_of_dvd h64
            have h2 : ¬ (Rv n (stepOdd s (s.exp - s.exp % 128)) % 2 = 1) := by omega
            simp [h1, h2]
          have hb2 : (stepOdd s (s.exp - s.exp % 128)).bits = s.bits + 1 := rfl
          simp only [pot, hw, hw2, hb2] at hble2 ⊢
          omega
    · -- negative opcode
      right
      simp only [hlow, if_false]
      have hlo128 : s.exp % 128 < 128 := Nat.mod_lt _ (by decide)
      have hi8 : i8 (-(asI8 (128 - s.exp % 128))) = some (-((128 - s.exp % 128 : Nat) : Int)) := by
        rw [asI8_small _ (by omega)]; exact i8_small _ (by omega) (by omega)
      simp only [hi8]
      have hW : ¬ (s.exp + (128 - s.exp % 128) ≥ W128) := by
        have : W128 = 2 ^ 128 := by decide
        omega
      have hcb7 : 7 ≤ s.curbits := by
        by_contra hc
        have : 2 ^ s.curbits ≤ 2 ^ 6 := Nat.pow_le_pow_right (by decide) (by omega)
        omega
      have hcb0 : ¬ (s.curbits = 0) := by omega
      simp only [hW, hcb0, if_false]
      have hle : s.exp + (128 - s.exp % 128) ≤ 2 ^ s.curbits := by
        have : 2 ^ s.curbits = 2 ^ 7 * 2 ^ (s.curbits - 7) := by rw [← Nat.pow_add]; congr 1; omega
        rw [this] at hexpLe ⊢
        generalize 2 ^ (s.curbits - 7) = M at *
        omega
      obtain ⟨hinv2, hR, h64⟩ := inv_odd h (s.exp + (128 - s.exp % 128)) (-((128 - s.exp % 128 : Nat) : Int))
        (by omega) (by omega) (by omega) hle F3 (by omega) (by omega) hRodd (by omega)
      have hble2 := hinv2.bits_le
      refine ⟨_, stepOdd s (s.exp + (128 - s.exp % 128)), _, rfl, Or.inl ⟨by omega, by omega, by omega⟩, hinv2, ?_, ?_, rfl, ?_⟩
      · have h1 : ¬ ((-((128 - s.exp % 128 : Nat) : Int)) % 2 = 0) := by omega
        simp only [h1, if_false]; exact hR
      · simp only [stepOdd]; omega
      · have hw : wOf (Rv n s) = 5 := by unfold wOf; simp [hRodd]
        have hw2 : wOf (Rv n (stepOdd s (s.exp + (128 - s.exp % 128)))) = 0 := by
          unfold wOf
          have h1 : Rv n (stepOdd s (s.exp + (128 - s.exp % 128))) % 64 = 0 := Nat.mod_eq_zero_of_dvd h64
          have h2 : ¬ (Rv n (stepOdd s (s.exp + (128 - s.exp % 128))) % 2 = 1) := by omega
          simp [h1, h2]
        have hb2 : (stepOdd s (s.exp + (128 - s.exp % 128))).bits = s.bits + 1 := rfl
        simp only [pot, hw, hw2, hb2] at hble2 ⊢
        omega

/-! ### the loop -/

theorem mkLong_spec {n cap : Nat} (hn : n < 2 ^ 1024) :
    ∀ (f : Nat) (s : LongSt) (pre : Int), Inv n s pre → pot n s < 7 * f →
      7 * s.idx + pot n s ≤ 7 * cap →
      ∃ c, mkLongLoop cap (ndOf n) (bitLen n) ((bitLen n - 1) / 64) f s = some c ∧
        evalOps c = (Rv n s : Int) ∧ WF 63 c ∧ 7 * c.length ≤ pot n s := by
  intro f
  induction f with
  | zero => intro s pre _ h; omega
  | succ f ih =>
    intro s pre hinv hfuel hcap
    rw [mkLongLoop]
    -- the loop condition holds: something is left
    have hcond : s.bits < bitLen n ∨ s.exp > 0 := by
      by_cases hh : hiOf n s = 0
      · right
        have := hinv.pos
        simp only [Rv, hh] at this; omega
      · left
        have hnw : s.nextword ≤ (bitLen n - 1) / 64 := by
          by_contra hc; exact hh (hi_zero hc)
        have h1 := hinv.sumEq hnw
        have h2 := hi_pos_bits hh
        omega
    simp only [hcond, not_true_eq_false, if_false]
    obtain ⟨s1, hs1, hinv1, hR1, hb1, hi1, hfill⟩ := longRefill_spec hn hinv
    have hpot1 : pot n s1 = pot n s := by simp only [pot, hR1, hb1]
    simp only [hs1]
    have hpos7 : 7 ≤ pot n s1 := by
      have := hinv1.bits_le
      rcases longStep_spec (cap := s1.idx + 1) hinv1 hfill (by omega) with
        ⟨_, _, _, _, _, _, h7⟩ | ⟨_, _, _, _, _, _, _, _, _, h7⟩ <;> omega
    rcases longStep_spec (cap := cap) hinv1 hfill (by omega) with
      ⟨x, hstep, hx1, hx2, hx3, hRx, hp7⟩ | ⟨op, s2, pre2, hstep, hop, hinv2, hRop, hbits, hidx2, hpot2⟩
    · simp only [hstep]
      refine ⟨[x], rfl, ?_, ⟨hx1, hx2, hx3⟩, by simp; omega⟩
      have : ¬ (x % 2 = 0) := by omega
      simp only [evalOps, this, if_false]
      rw [← hR1, hRx]; ring
    · simp only [hstep]
      obtain ⟨c, hc, hev, hwf, hlen⟩ := ih s2 pre2 hinv2 (by omega) (by omega)
      simp only [hc]
      have hne := WF_ne_nil hwf
      refine ⟨op :: c, rfl, ?_, (WF_cons op hne).mpr ⟨hop, hwf⟩, by simp only [List.length_cons]; omega⟩
      simp only [evalOps, hev]
      rw [← hR1, hRop]

theorem two_pow_bitLen_le {n : Nat} (h0 : 0 < n) : 2 ^ (bitLen n - 1) ≤ n := by
  unfold bitLen
  have : n ≠ 0 := by omega
  simp only [this, if_false, Nat.add_sub_cancel]
  exact Nat.log2_self_le this

/-- `make_addition_chain_long` with any buffer large enough for the chain: no panic, the chain
denotes `n`, is well-formed and has at most `bitLen n + 1` opcodes. -/
theorem makeChainLongCap_spec {n cap : Nat} (h0 : 0 < n) (hn : n < 2 ^ 1024) (hcap : 295 ≤ cap) :
    ∃ c, makeChainLongCap cap n = some c ∧ evalChain c = (n : Int) ∧ WF 63 c ∧ c.length ≤ 294 := by
  have hnb0 : bitLen n ≠ 0 := by
    have := two_pow_bitLen_le h0
    intro hc
    have := lt_two_pow_bitLen n
    rw [hc] at this; omega
  let s0 : LongSt := { exp := n / 2 ^ (64 * 0) % W, nextword := 1, idx := 0, bits := 0,
                       curbits := if bitLen n ≥ 64 then 64 else bitLen (n / 2 ^ (64 * 0) % W) }
  have hW0 : (0 : Nat) < W := by decide
  have hinv : Inv n s0 0 := by
    have hexp : s0.exp = n % W := by simp [s0]
    by_cases hbig : bitLen n ≥ 64
    · have hcb : s0.curbits = 64 := by simp [s0, hbig]
      have hR : Rv n s0 = n := by
        simp only [Rv, hiOf, hexp, hcb]
        have : s0.nextword = 1 := rfl
        rw [this, Nat.mul_one, ← W_eq]
        have := Nat.mod_add_div n W; rw [Nat.mul_comm] at this; omega
      refine ⟨?_, ?_, by omega, ?_, ?_, ⟨0, by simp, ?_, ?_⟩, by omega⟩
      · rw [hR]; simp [s0]
      · rw [hexp, hcb, ← W_eq]; exact le_of_lt (Nat.mod_lt _ hW0)
      · simp only [hiOf, hcb]; simp [s0]
      · intro _; rw [hcb]; simp [s0]
      · simp [s0]
      · simp [s0]
    · have hlt : n < W := by
        rw [W_eq]
        exact lt_of_lt_of_le (lt_two_pow_bitLen n) (Nat.pow_le_pow_right (by decide) (by omega))
      have hmod : n % W = n := Nat.mod_eq_of_lt hlt
      have hcb : s0.curbits = bitLen n := by simp [s0, hbig, hmod]
      have hhi : hiOf n s0 = 0 := by
        simp only [hiOf]
        have : s0.nextword = 1 := rfl
        rw [this, Nat.mul_one, ← W_eq]
        exact Nat.div_eq_of_lt hlt
      have hR : Rv n s0 = n := by simp only [Rv, hhi, hexp, hmod]; omega
      refine ⟨?_, ?_, by omega, ?_, ?_, ⟨0, by simp, ?_, ?_⟩, by omega⟩
      · rw [hR]; simp [s0]
      · rw [hexp, hcb, hmod]; exact le_of_lt (lt_two_pow_bitLen n)
      · rw [hhi, hcb]
        have : s0.bits = 0 := rfl
        rw [this, Nat.zero_add]
        exact Nat.div_eq_of_lt (lt_two_pow_bitLen n)
      · intro hc
        have : s0.nextword = 1 := rfl
        omega
      · simp [s0]
      · simp [s0]
  have hnb : bitLen n ≤ 1024 := bitLen_le hn
  have hpot0 : pot n s0 ≤ 2 * (bitLen n + 1) + 12 := by
    have : wOf (Rv n s0) ≤ 12 := by unfold wOf; split_ifs <;> omega
    simp only [pot]
    have : s0.bits = 0 := rfl
    omega
  obtain ⟨c, hc, hev, hwf, hlen⟩ := mkLong_spec (cap := cap) hn (cap + 1) s0 0 hinv
    (by omega) (by have : s0.idx = 0 := rfl; omega)
  refine ⟨c, ?_, ?_, hwf, by omega⟩
  · unfold makeChainLongCap
    simp only [hnb0, if_false]
    exact hc
  · rw [evalChain_eq_evalOps hwf, hev]
    have := hinv.val
    simp only [s0, pow_zero, mul_one, zero_add] at this
    exact this.symm

end Ymq.Chain
