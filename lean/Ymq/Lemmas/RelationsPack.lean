/-
`PackedRelation::{pack, unpack}` (C11): the LEB128-style integer coding round-trips every `u64`,
the factor coding round-trips every factor list in its domain up to the sign normalisation
`normFactors`, hence `unpack (pack r)` stands for the same congruence.
-/
import Ymq.Lemmas.Relations

namespace Ymq.Relations

/-- what the packed encoding deliberately does to the factor list: even powers of `-1` are
dropped, odd powers of `-1` become `(-1, 1)` -/
def normFactors : List (Int × Nat) → List (Int × Nat)
  | [] => []
  | (p, k) :: t =>
    if p = -1 then (if k % 2 = 0 then normFactors t else (-1, 1) :: normFactors t)
    else (p, k) :: normFactors t

theorem normFactors_cons (p : Int) (k : Nat) (t : List (Int × Nat)) :
    normFactors ((p, k) :: t) =
      if p = -1 then (if k % 2 = 0 then normFactors t else (-1, 1) :: normFactors t)
      else (p, k) :: normFactors t := rfl

theorem lebDec_cons (b : Nat) (bs : List Nat) (cur : Nat) (first : Bool) :
    lebDec (b :: bs) cur first =
      if b < 128 then (if first then lebDec bs b false else cur :: lebDec bs b false)
      else lebDec bs (cur * 128 % W64 + b % 128) false := rfl

theorem unpackFactors_some (v : Nat) (t : List Nat) (p : Int) :
    unpackFactors (v :: t) (some p) = (do
      let l ← unpackFactors t none
      pure ((p, v) :: l)) := rfl

theorem unpackFactors_none (v : Nat) (t : List Nat) :
    unpackFactors (v :: t) none =
      if v = 0 then do
        let l ← unpackFactors t none
        pure ((-1, 1) :: l)
      else if v % 2 = 1 then do
        let l ← unpackFactors t none
        pure ((toI64 (if v = 1 then 2 else v), 1) :: l)
      else unpackFactors t (some (toI64 (if v = 2 then 2 else v / 2))) := rfl

theorem fprod_norm (fs : List (Int × Nat)) : fprod (normFactors fs) = fprod fs := by
  induction fs with
  | nil => rfl
  | cons f t ih =>
    obtain ⟨p, k⟩ := f
    rw [normFactors_cons]
    split
    · rename_i hp
      subst hp
      split
      · rename_i hev
        rw [ih, fprod_cons, Even.neg_one_pow (Nat.even_iff.mpr hev), one_mul]
      · rename_i hodd
        have hk : Odd k := Nat.odd_iff.mpr (by omega)
        rw [fprod_cons, fprod_cons, ih, hk.neg_one_pow]
        simp
    · rw [fprod_cons, fprod_cons, ih]

theorem normFactors_typed {fs : List (Int × Nat)} (h : TypedF fs) : TypedF (normFactors fs) := by
  induction fs with
  | nil => exact h
  | cons f t ih =>
    obtain ⟨p, k⟩ := f
    rw [TypedF_cons] at h
    rw [normFactors_cons]
    split
    · split
      · exact ih h.2
      · rw [TypedF_cons]
        exact ⟨⟨by decide, by decide, by decide⟩, ih h.2⟩
    · rw [TypedF_cons]; exact ⟨h.1, ih h.2⟩

theorem normFactors_noOne {fs : List (Int × Nat)} (h : NoOne fs) : NoOne (normFactors fs) := by
  induction fs with
  | nil => exact h
  | cons f t ih =>
    obtain ⟨p, k⟩ := f
    rw [NoOne_cons] at h
    rw [normFactors_cons]
    split
    · split
      · exact ih h.2
      · rw [NoOne_cons]; exact ⟨by decide, ih h.2⟩
    · rw [NoOne_cons]; exact ⟨h.1, ih h.2⟩

/-! ### integers -/

theorem lt_pow_lebLen (v : Nat) : v < 128 ^ lebLen v := by
  have h128 : (128 : Nat) = 2 ^ 7 := by norm_num
  rw [h128, ← pow_mul]
  unfold lebLen bitlen
  split
  · rename_i h0; subst h0; exact Nat.pow_pos (by decide)
  · have h1 : v < 2 ^ (v.log2 + 1) := Nat.lt_log2_self
    refine lt_of_lt_of_le h1 (Nat.pow_le_pow_right (by decide) ?_)
    omega

theorem shiftRight_7 (v m : Nat) : v >>> (7 * m) = v / 128 ^ m := by
  rw [Nat.shiftRight_eq_div_pow, pow_mul]; norm_num

theorem lebDec_cont (v : Nat) : ∀ (m cur : Nat) (rest : List Nat),
    cur * 128 ^ m + v % 128 ^ m < W64 →
    lebDec (lebCont v m ++ rest) cur false = lebDec rest (cur * 128 ^ m + v % 128 ^ m) false := by
  intro m
  induction m with
  | zero => intro cur rest _; simp [lebCont, Nat.mod_one]
  | succ m ih =>
    intro cur rest hlt
    have hsplit : v % 128 ^ (m + 1) = v % 128 ^ m + 128 ^ m * (v / 128 ^ m % 128) :=
      Nat.mod_pow_succ
    have hpos : 0 < 128 ^ m := Nat.pow_pos (by decide)
    have hcur : cur * 128 < W64 := by
      have : cur * 128 * 1 ≤ cur * 128 * 128 ^ m := Nat.mul_le_mul_left _ hpos
      rw [pow_succ] at hlt
      have e : cur * (128 ^ m * 128) = cur * 128 * 128 ^ m := by ring
      omega
    have hd : (v / 128 ^ m % 128 + 128) % 128 = v / 128 ^ m % 128 := by omega
    have hnew : (cur * 128 + v / 128 ^ m % 128) * 128 ^ m + v % 128 ^ m =
        cur * 128 ^ (m + 1) + v % 128 ^ (m + 1) := by
      rw [hsplit, pow_succ]; ring
    simp only [lebCont, List.cons_append, shiftRight_7]
    rw [lebDec_cons, if_neg (by omega), hd, Nat.mod_eq_of_lt hcur]
    rw [ih (cur * 128 + v / 128 ^ m % 128) rest (by rw [hnew]; exact hlt), hnew]

theorem lebDec_enc (v : Nat) (hv : v < W64) (rest : List Nat) (cur : Nat) (first : Bool) :
    lebDec (lebEnc v ++ rest) cur first =
      (if first then lebDec rest v false else cur :: lebDec rest v false) := by
  have hlt := lt_pow_lebLen v
  have hlen : 1 ≤ lebLen v := by unfold lebLen; exact Nat.le_max_left _ _
  obtain ⟨m, hm⟩ : ∃ m, lebLen v = m + 1 := ⟨lebLen v - 1, by omega⟩
  rw [hm] at hlt
  have hpos : 0 < 128 ^ m := Nat.pow_pos (by decide)
  have hb0 : v / 128 ^ m < 128 := by
    rw [Nat.div_lt_iff_lt_mul hpos, Nat.mul_comm, ← pow_succ]; exact hlt
  have hval : v / 128 ^ m * 128 ^ m + v % 128 ^ m = v := by
    rw [Nat.mul_comm]; exact Nat.div_add_mod v _
  unfold lebEnc
  simp only [hm, Nat.add_sub_cancel, shiftRight_7, List.cons_append, Nat.mod_eq_of_lt hb0]
  rw [lebDec_cons, if_pos hb0, lebDec_cont v m _ rest (by rw [hval]; exact hv), hval]

theorem lebDec_encInts : ∀ (t : List Nat) (v cur : Nat) (first : Bool),
    (∀ w ∈ v :: t, w < W64) →
    lebDec (encInts (v :: t)) cur first = (if first then v :: t else cur :: v :: t) := by
  intro t
  induction t with
  | nil =>
    intro v cur first h
    have := lebDec_enc v (h v (by simp)) [] cur first
    simp only [encInts, List.append_nil] at this ⊢
    rw [this]; simp [lebDec]
  | cons w t ih =>
    intro v cur first h
    have hv := h v (by simp)
    have ht : ∀ u ∈ w :: t, u < W64 := fun u hu => h u (List.mem_cons_of_mem _ hu)
    have := lebDec_enc v hv (encInts (w :: t)) cur first
    rw [show encInts (v :: w :: t) = lebEnc v ++ encInts (w :: t) from rfl, this,
      ih w v false ht]
    simp

/-- every decoded integer fits in a `u64` -/
theorem lebDec_lt : ∀ (bs : List Nat) (cur : Nat) (first : Bool), cur < W64 →
    ∀ w ∈ lebDec bs cur first, w < W64 := by
  intro bs
  induction bs with
  | nil => intro cur first hc w hw; simp [lebDec] at hw; subst hw; exact hc
  | cons b bs ih =>
    intro cur first hc w hw
    rw [lebDec_cons] at hw
    have e4 : W64 = 18446744073709551616 := by decide
    have hstep : cur * 128 % W64 + b % 128 < W64 := by unfold W64; omega
    split at hw
    · rename_i hb
      have hb' : b < W64 := by omega
      split at hw
      · exact ih b false hb' w hw
      · rcases List.mem_cons.mp hw with hw | hw
        · subst hw; exact hc
        · exact ih b false hb' w hw
    · exact ih _ false hstep w hw

/-! ### factor lists -/

theorem packFactors_cons (p : Int) (k : Nat) (t : List (Int × Nat)) :
    packFactors ((p, k) :: t) =
      (if p = -1 then
        (if k % 2 = 0 then packFactors t else do
          let l ← packFactors t
          pure (0 :: l))
      else if ¬ (p > 0 ∧ p < (W32 : Int) ∧ k > 0) then throw .panic
      else if (if p = 2 then 1 else p.toNat) % 2 ≠ 1 then throw .panic
      else do
        let l ← packFactors t
        if k > 1 then pure (2 * (if p = 2 then 1 else p.toNat) :: k :: l)
        else pure ((if p = 2 then 1 else p.toNat) :: l)) := rfl

theorem packFactors_spec : ∀ (fs : List (Int × Nat)) (ints : List Nat),
    packFactors fs = .ok ints → NoOne fs → TypedF fs →
    unpackFactors ints none = .ok (normFactors fs) ∧ ∀ w ∈ ints, w < W64 := by
  intro fs
  induction fs with
  | nil =>
    intro ints h _ _
    simp only [packFactors, pure_eq_ok] at h
    subst h
    exact ⟨rfl, fun w hw => by cases hw⟩
  | cons f t ih =>
    obtain ⟨p, k⟩ := f
    intro ints h hno hty
    rw [NoOne_cons] at hno
    rw [TypedF_cons] at hty
    have e4 : W64 = 18446744073709551616 := by decide
    have e32 : (W32 : Int) = 4294967296 := by decide
    rw [packFactors_cons] at h
    by_cases hp : p = -1
    · subst hp
      rw [if_pos rfl] at h
      by_cases hev : k % 2 = 0
      · rw [if_pos hev] at h
        obtain ⟨h1, h2⟩ := ih ints h hno.2 hty.2
        refine ⟨?_, h2⟩
        rw [h1, normFactors_cons, if_pos rfl, if_pos hev]
      · rw [if_neg hev] at h
        simp only [bind_eq_ok, pure_eq_ok] at h
        obtain ⟨l, hl, h⟩ := h
        subst h
        obtain ⟨h1, h2⟩ := ih l hl hno.2 hty.2
        refine ⟨?_, ?_⟩
        · rw [unpackFactors_none, if_pos rfl]
          simp only [bind_eq_ok, pure_eq_ok]
          refine ⟨_, h1, ?_⟩
          rw [normFactors_cons, if_pos rfl, if_neg hev]
        · intro w hw
          rcases List.mem_cons.mp hw with hw | hw
          · subst hw; decide
          · exact h2 w hw
    · rw [if_neg hp] at h
      by_cases hdom : (p > 0 ∧ p < (W32 : Int) ∧ k > 0)
      · rw [if_neg (not_not.mpr hdom)] at h
        obtain ⟨hp0, hp32, hk0⟩ := hdom
        have hp1 : p ≠ 1 := hno.1
        have hk64 : k < W64 := hty.1.2.2
        have hpn : (p.toNat : Int) = p := Int.toNat_of_nonneg (le_of_lt hp0)
        -- the code p' of the prime and how it decodes
        obtain ⟨p', hp'def, hlo, hhi, hD1, hD2⟩ : ∃ p' : Nat, (if p = 2 then 1 else p.toNat) = p' ∧
            1 ≤ p' ∧ p' < 4294967296 ∧ toI64 (if p' = 1 then 2 else p') = p ∧
            toI64 (if 2 * p' = 2 then 2 else 2 * p' / 2) = p := by
          by_cases hp2 : p = 2
          · subst hp2
            exact ⟨1, by simp, by decide, by decide, by simp [toI64, I63], by simp [toI64, I63]⟩
          · refine ⟨p.toNat, by rw [if_neg hp2], by omega, by omega, ?_, ?_⟩
            · rw [if_neg (by omega), toI64_small (by unfold I63; omega), hpn]
            · rw [if_neg (by omega), show 2 * p.toNat / 2 = p.toNat by omega,
                toI64_small (by unfold I63; omega), hpn]
        rw [hp'def] at h
        by_cases hodd : p' % 2 = 1
        · rw [if_neg (not_not.mpr hodd)] at h
          simp only [bind_eq_ok] at h
          obtain ⟨l, hl, h⟩ := h
          obtain ⟨h1, h2⟩ := ih l hl hno.2 hty.2
          have hnorm : normFactors ((p, k) :: t) = (p, k) :: normFactors t := by
            rw [normFactors_cons, if_neg hp]
          by_cases hk1 : k > 1
          · rw [if_pos hk1] at h
            simp only [pure_eq_ok] at h
            subst h
            refine ⟨?_, ?_⟩
            · rw [unpackFactors_none, if_neg (by omega), if_neg (by omega), unpackFactors_some]
              simp only [bind_eq_ok, pure_eq_ok]
              refine ⟨_, h1, ?_⟩
              rw [hnorm, hD2]
            · intro w hw
              simp only [List.mem_cons] at hw
              rcases hw with hw | hw | hw
              · subst hw; omega
              · subst hw; exact hk64
              · exact h2 w hw
          · rw [if_neg hk1] at h
            have hk : k = 1 := by omega
            simp only [pure_eq_ok] at h
            subst h
            refine ⟨?_, ?_⟩
            · rw [unpackFactors_none, if_neg (by omega), if_pos hodd]
              simp only [bind_eq_ok, pure_eq_ok]
              refine ⟨_, h1, ?_⟩
              rw [hnorm, hk, hD1]
            · intro w hw
              rcases List.mem_cons.mp hw with hw | hw
              · subst hw; omega
              · exact h2 w hw
        · rw [if_pos hodd] at h
          simp [throw_ne_ok] at h
      · rw [if_pos hdom] at h
        simp [throw_ne_ok] at h

theorem unpackFactors_typed : ∀ (ints : List Nat) (pend : Option Int) (fs : List (Int × Nat)),
    unpackFactors ints pend = .ok fs → (∀ w ∈ ints, w < W64) →
    (∀ p, pend = some p → -(I63 : Int) ≤ p ∧ p < (I63 : Int) ∧ p ≠ 1) →
    TypedF fs ∧ NoOne fs := by
  intro ints
  induction ints with
  | nil =>
    intro pend fs h _ _
    cases pend with
    | none =>
      simp only [unpackFactors, pure_eq_ok] at h
      subst h
      exact ⟨TypedF_nil, fun f hf => by cases hf⟩
    | some p => simp [unpackFactors, throw_ne_ok] at h
  | cons v t ih =>
    intro pend fs h hlt hpend
    have hv : v < W64 := hlt v (by simp)
    have ht : ∀ w ∈ t, w < W64 := fun w hw => hlt w (List.mem_cons_of_mem _ hw)
    have e4 : W64 = 18446744073709551616 := by decide
    have e3 : I63 = 9223372036854775808 := by decide
    have e2 : (I63 : Int) = 9223372036854775808 := by decide
    cases pend with
    | some p =>
      rw [unpackFactors_some] at h
      simp only [bind_eq_ok, pure_eq_ok] at h
      obtain ⟨l, hl, h⟩ := h
      subst h
      obtain ⟨h1, h2⟩ := ih none l hl ht (by intro p hp; cases hp)
      obtain ⟨a, b, c⟩ := hpend p rfl
      exact ⟨TypedF_cons.mpr ⟨⟨a, b, hv⟩, h1⟩, NoOne_cons.mpr ⟨c, h2⟩⟩
    | none =>
      rw [unpackFactors_none] at h
      split at h
      · simp only [bind_eq_ok, pure_eq_ok] at h
        obtain ⟨l, hl, h⟩ := h
        subst h
        obtain ⟨h1, h2⟩ := ih none l hl ht (by intro p hp; cases hp)
        exact ⟨TypedF_cons.mpr ⟨⟨by decide, by decide, by decide⟩, h1⟩,
          NoOne_cons.mpr ⟨by decide, h2⟩⟩
      · rename_i hv0
        split at h
        · rename_i hodd
          simp only [bind_eq_ok, pure_eq_ok] at h
          obtain ⟨l, hl, h⟩ := h
          subst h
          obtain ⟨h1, h2⟩ := ih none l hl ht (by intro p hp; cases hp)
          have hr := toI64_range (v := if v = 1 then 2 else v) (by split <;> omega)
          refine ⟨TypedF_cons.mpr ⟨⟨hr.1, hr.2, by show (1 : Nat) < W64; decide⟩, h1⟩, NoOne_cons.mpr ⟨?_, h2⟩⟩
          simp only
          unfold toI64
          split <;> split <;> omega
        · rename_i hev
          have hr := toI64_range (v := if v = 2 then 2 else v / 2) (by split <;> omega)
          refine ih _ fs h ht ?_
          intro p hp
          cases hp
          refine ⟨hr.1, hr.2, ?_⟩
          unfold toI64
          split <;> split <;> omega

/-! ### whole relations -/

theorem digits8_sum (x : Nat) :
    x % W64 + x / W64 % W64 * W64 + x / W64 ^ 2 % W64 * W64 ^ 2 + x / W64 ^ 3 % W64 * W64 ^ 3 +
      x / W64 ^ 4 % W64 * W64 ^ 4 + x / W64 ^ 5 % W64 * W64 ^ 5 + x / W64 ^ 6 % W64 * W64 ^ 6 +
      x / W64 ^ 7 % W64 * W64 ^ 7 = x % W64 ^ 8 := by
  have h1 := @Nat.mod_pow_succ x W64 1
  have h2 := @Nat.mod_pow_succ x W64 2
  have h3 := @Nat.mod_pow_succ x W64 3
  have h4 := @Nat.mod_pow_succ x W64 4
  have h5 := @Nat.mod_pow_succ x W64 5
  have h6 := @Nat.mod_pow_succ x W64 6
  have h7 := @Nat.mod_pow_succ x W64 7
  rw [pow_one] at h1
  simp only [Nat.reduceAdd] at h1 h2 h3 h4 h5 h6 h7
  rw [h7, h6, h5, h4, h3, h2, h1]
  ring

/-- 2^512 -/
def X512 : Nat := W64 ^ 8

/-- `unpack ∘ pack`: same x (below 2^512), cofactor, cycle length; factor list normalised. -/
theorem unpack_pack' {r : Relation} {b : List Nat} (h : pack r = .ok b) (hty : Typed r)
    (hno : NoOne r.factors) :
    unpack b = .ok { x := r.x % X512, cofactor := r.cofactor, cyclelen := r.cyclelen,
                     factors := normFactors r.factors } := by
  unfold pack at h
  simp only [bind_eq_ok, pure_eq_ok] at h
  obtain ⟨ints, hints, h⟩ := h
  subst h
  unfold packInts at hints
  simp only [bind_eq_ok, pure_eq_ok] at hints
  obtain ⟨l, hl, hints⟩ := hints
  subst hints
  obtain ⟨hu, hlt⟩ := packFactors_spec _ _ hl hno hty.2.2
  have hW : 0 < W64 := by decide
  have hall : ∀ w ∈ (digits8 r.x ++ r.cofactor :: r.cyclelen :: l), w < W64 := by
    intro w hw
    simp only [digits8, List.cons_append, List.nil_append, List.mem_cons] at hw
    rcases hw with hw | hw | hw | hw | hw | hw | hw | hw | hw | hw | hw
    all_goals first
      | (subst hw; exact Nat.mod_lt _ hW)
      | (subst hw; exact hty.1)
      | (subst hw; exact hty.2.1)
      | exact hlt w hw
  unfold unpack
  have hdec : lebDec (encInts (digits8 r.x ++ r.cofactor :: r.cyclelen :: l)) 0 true =
      digits8 r.x ++ r.cofactor :: r.cyclelen :: l := by
    have := lebDec_encInts (List.tail (digits8 r.x ++ r.cofactor :: r.cyclelen :: l)) (r.x % W64) 0 true
      (by simpa [digits8] using hall)
    simpa [digits8] using this
  rw [hdec]
  simp only [digits8, List.cons_append, List.nil_append, unpackInts, bind_eq_ok, pure_eq_ok]
  refine ⟨_, hu, ?_⟩
  congr 1
  exact digits8_sum r.x

theorem unpack_facts {b : List Nat} {r : Relation} (h : unpack b = .ok r) :
    Typed r ∧ NoOne r.factors ∧ r.x < X512 := by
  unfold unpack at h
  have hlt := lebDec_lt b 0 true (by decide)
  generalize lebDec b 0 true = ints at h hlt
  unfold unpackInts at h
  split at h
  · rename_i x0 x1 x2 x3 x4 x5 x6 x7 cof clen rest
    simp only [bind_eq_ok, pure_eq_ok] at h
    obtain ⟨fs, hfs, h⟩ := h
    subst h
    have hrest : ∀ w ∈ rest, w < W64 := fun w hw => hlt w (by simp [hw])
    obtain ⟨h1, h2⟩ := unpackFactors_typed rest none fs hfs hrest (by intro p hp; cases hp)
    refine ⟨⟨hlt cof (by simp), hlt clen (by simp), h1⟩, h2, ?_⟩
    have a0 := hlt x0 (by simp)
    have a1 := hlt x1 (by simp)
    have a2 := hlt x2 (by simp)
    have a3 := hlt x3 (by simp)
    have a4 := hlt x4 (by simp)
    have a5 := hlt x5 (by simp)
    have a6 := hlt x6 (by simp)
    have a7 := hlt x7 (by simp)
    simp only
    unfold X512
    have : x0 + x1 * W64 + x2 * W64 ^ 2 + x3 * W64 ^ 3 + x4 * W64 ^ 4 + x5 * W64 ^ 5 +
        x6 * W64 ^ 6 + x7 * W64 ^ 7 ≤ (W64 - 1) + (W64 - 1) * W64 + (W64 - 1) * W64 ^ 2 +
        (W64 - 1) * W64 ^ 3 + (W64 - 1) * W64 ^ 4 + (W64 - 1) * W64 ^ 5 + (W64 - 1) * W64 ^ 6 +
        (W64 - 1) * W64 ^ 7 := by
      have b1 : x1 * W64 ≤ (W64 - 1) * W64 := Nat.mul_le_mul_right _ (by omega)
      have b2 : x2 * W64 ^ 2 ≤ (W64 - 1) * W64 ^ 2 := Nat.mul_le_mul_right _ (by omega)
      have b3 : x3 * W64 ^ 3 ≤ (W64 - 1) * W64 ^ 3 := Nat.mul_le_mul_right _ (by omega)
      have b4 : x4 * W64 ^ 4 ≤ (W64 - 1) * W64 ^ 4 := Nat.mul_le_mul_right _ (by omega)
      have b5 : x5 * W64 ^ 5 ≤ (W64 - 1) * W64 ^ 5 := Nat.mul_le_mul_right _ (by omega)
      have b6 : x6 * W64 ^ 6 ≤ (W64 - 1) * W64 ^ 6 := Nat.mul_le_mul_right _ (by omega)
      have b7 : x7 * W64 ^ 7 ≤ (W64 - 1) * W64 ^ 7 := Nat.mul_le_mul_right _ (by omega)
      omega
    refine lt_of_le_of_lt this ?_
    decide
  · simp [throw_ne_ok] at h

/-- packing and unpacking keeps the congruence (x below 2^512) -/
theorem pack_good {n : Nat} {r : Relation} {b : List Nat} (h : pack r = .ok b) (hty : Typed r)
    (hno : NoOne r.factors) (hx : r.x < X512) (hv : Valid n r) :
    ∃ r', unpack b = .ok r' ∧ r'.x = r.x ∧ r'.cofactor = r.cofactor ∧ r'.cyclelen = r.cyclelen ∧
      r'.factors = normFactors r.factors ∧ Valid n r' := by
  refine ⟨_, unpack_pack' h hty hno, Nat.mod_eq_of_lt hx, rfl, rfl, rfl, ?_⟩
  unfold Valid at *
  simp only [Nat.mod_eq_of_lt hx, fprod_norm]
  exact hv

end Ymq.Relations
