/-
C10 — Polynomial products, convolutions and multipoint evaluation match the schoolbook
definitions. Only property theorems live here (helper lemmas: Ymq/Lemmas/{FInt*,Kronecker*,Crt*}).

Reading guide.
* Specifications (`Ymq.PolySpec`, Ymq/Model/PolySpec.lean): `cycCoef size f g k` is coefficient `k` of
  the cyclic product modulo `X^size - 1` of the coefficient functions `f`, `g`; `coef p i` is the `i`-th
  entry of an array (zero beyond the end).
* `Ymq.Kronecker.convolve wrap cyc n k rinv nbits size p q reslen offset` is the model of
  `arith_fft::convolve_modn` (dispatch table translated from the source + `_convolve_modn::<N>`): `p`, `q`
  hold the residues stored in the `MInt`s (Montgomery form), `cyc N` stands for `mulfft::<N>`,
  `zn.redc_large`/`zn.add` are exact modular arithmetic (property C07), `rinv = R⁻¹ mod n`,
  `R = 2^(64k)`. `wrap = true` is the code after commit `fix: convolve_modn dropped the wrap-around
  digits …`; `wrap = false` is the index formula of the pinned tree.
* `Ymq.FInt.FI` is the word-exact model of `FInt<N>` (`N` words + top word), `value` its integer,
  `Norm` the code's normal form, `WfN N` "`N` words below 2^64", `Fmod N = 2^(64N) + 1`.
  `f … = some r` means: no panic site (debug assertion, overflow check, index check) is reached.
* `Ymq.Kronecker.cycFft N` is the transform product as the code forms it: packed words as `FInt<N>` with
  top word 0, the word-level model `Ymq.FInt.mulfft`, values read back. `mulfft_exact` proves that it
  meets `ExactCyc`, so `kronecker_cyclic_fft` has no hypothesis about the transform.
* `Ymq.PolyMul.*` (Ymq/Model/{PolyMul,PolySeries,PolyTree}.lean) are buffer/value-level models of
  `arith_poly.rs` over abstract coefficient operations `Ops α`; `Hom o φ` says that `φ` maps them to the
  operations of a commutative ring (`natOps_hom`: residues modulo `n` to `ZMod n`).
* NOT proved (tied to the schoolbook specification by the correspondence and oracle streams only):
  `MultiZmodP::ntt_inplace` at word level (`convolve_modn_ntt` is the exact convolution inside the
  `arith_poly` models), the branch `|a| ≥ n` of `Poly::roots_eval`, `mul_fft`.
-/
import Ymq.Lemmas.KroneckerModel
import Ymq.Lemmas.KroneckerFft
import Ymq.Lemmas.FIntFft
import Ymq.Lemmas.FIntRoot
import Ymq.Lemmas.CrtLemmas
import Ymq.Lemmas.CrtEstimate
import Ymq.Lemmas.CrtColumns
import Ymq.Lemmas.NttRoots
import Ymq.Lemmas.NttPipeline
import Ymq.Lemmas.CrtBound
import Ymq.Lemmas.NttConvolve
import Ymq.Lemmas.PolyDft
import Ymq.Lemmas.PolyZMod
import Ymq.Lemmas.PolyMiddle
import Ymq.Lemmas.PolyTree
import Ymq.Lemmas.PolyRootsEval
import Ymq.Lemmas.PolyBarrett
import Ymq.Lemmas.PolyRootsUnit
import Ymq.Lemmas.PolyMont
import Ymq.Lemmas.PolyMontFin

namespace Ymq.C10
open Ymq.PolySpec

/-! ## Kronecker substitution: `convolve_modn` -/

section Kronecker
open Ymq.Kronecker Ymq.Gen.Params

/-- **Every arm of the dispatch table of `convolve_modn` meets the preconditions of
`_convolve_modn::<N>`** (`ArmOk`, Ymq/Lemmas/KroneckerDispatch.lean): digits of the packed product
cannot overlap (`size·n² ≤ 2^(64·stride)` for every `n < 2^nbits`), the product does not wrap modulo
`F` (`(2A-1)·stride ≤ N`), the last packed coefficient fits, the transform length `size/A` is within
the precomputed roots (`≤ 256·N`), and the digit slices are admissible for `redc_large` (shorter
than `3·MINT_WORDS` words, between `k` and `k+16` words, value below `n·R²` because `size < 2^64`).
The table is the one translated from the source on every run (`Ymq.Gen.Params`). -/
theorem dispatch_ok (nbits size fsize logpack stride : Nat)
    (h : arith_fft.convolve_dispatch nbits size = some (fsize, logpack, stride))
    (hb : nbits ≤ CONVOLVE_MAX_BITS) :
    ∃ N, CONVOLVE_FSIZE_N.lookup fsize = some N ∧ ArmOk nbits size N logpack stride :=
  dispatch_ok' nbits size fsize logpack stride h hb

example : arith_fft.convolve_dispatch 150 8192 = some (1024, 1, 5) ∧ (150 : Nat) ≤ CONVOLVE_MAX_BITS := by
  decide

/-- **Packing and unpacking are exact.** Let `B = 2^(64·stride)`, `A = 2^logpack`, coefficients
`< n` with `size·n² ≤ B` and `(2A-1)·stride ≤ N`. Then
(1) the packing loop of `_convolve_modn` (which overwrites 8 words per coefficient) produces
`Σ_j p[a·A+j]·B^j`;
(2) the exact integer cyclic product `wordProd … i` of the packed words is below `2^(64N)` — no wrap
modulo `F = 2^(64N)+1`;
(3) its slice `j` (`&vpq[i].0[stride·j .. stride·(j+1)]`) is exactly `digitSum … i j`, the sum of the
coefficient products `p[a·A+j1]·q[b·A+j2]` over `a + b ≡ i (mod L)`, `j1 + j2 = j` — no overlap. -/
theorem pack_unpack (N L logpack stride n : Nat) (p q : Array Nat)
    (hp : ∀ u, coef p u < n) (hq : ∀ u, coef q u < n) (hL : 0 < L)
    (hdig : L * 2 ^ logpack * (n * n) ≤ W ^ stride) (hfit : (2 * 2 ^ logpack - 1) * stride ≤ N)
    (i j : Nat) (hj : j < 2 * 2 ^ logpack - 1) :
    (∀ a, packWord stride (2 ^ logpack) p a = packVal (2 ^ logpack) (W ^ stride) (coef p) a) ∧
    wordProd (2 ^ logpack) (W ^ stride) L (coef p) (coef q) i < W ^ N ∧
    digit N stride (wordProd (2 ^ logpack) (W ^ stride) L (coef p) (coef q) i) j =
      some (digitSum (2 ^ logpack) L (coef p) (coef q) i j) := by
  have hApos : 0 < 2 ^ logpack := Nat.pow_pos (by decide)
  have hn : 0 < n := by have := hp 0; omega
  have hsz : 0 < L * 2 ^ logpack := Nat.mul_pos hL hApos
  have hnB : n ≤ W ^ stride := by
    have h1 : 1 * (n * n) ≤ L * 2 ^ logpack * (n * n) := Nat.mul_le_mul_right _ hsz
    have h2 : n ≤ n * n := Nat.le_mul_self n
    omega
  have hfg : ∀ u v, coef p u * coef q v ≤ (n - 1) * (n - 1) := fun u v =>
    Nat.mul_le_mul (by have := hp u; omega) (by have := hq v; omega)
  have hsq : (n - 1) * (n - 1) < n * n :=
    calc (n - 1) * (n - 1) ≤ (n - 1) * n := Nat.mul_le_mul_left _ (by omega)
      _ < n * n := Nat.mul_lt_mul_of_pos_right (by omega) hn
  have hDB : ∀ i j, digitSum (2 ^ logpack) L (coef p) (coef q) i j < W ^ stride := fun i j =>
    lt_of_le_of_lt (digitSum_le _ _ _ _ _ hfg i j)
      (lt_of_lt_of_le (Nat.mul_lt_mul_of_pos_left hsq hsz) hdig)
  have hdigits := digits_of_sum (W ^ stride) (2 * 2 ^ logpack - 1)
    (fun j => digitSum (2 ^ logpack) L (coef p) (coef q) i j) (fun j _ => hDB i j)
  have hlt : wordProd (2 ^ logpack) (W ^ stride) L (coef p) (coef q) i < W ^ N := by
    rw [wordProd_eq_digits]
    refine lt_of_lt_of_le hdigits.1 ?_
    rw [← pow_mul]
    exact Nat.pow_le_pow_right (by decide) (by rw [Nat.mul_comm]; exact hfit)
  refine ⟨fun a => packWord_eq stride _ p a (fun u => lt_of_lt_of_le (hp u) hnB), hlt, ?_⟩
  rw [digit_eq N stride _ _ ?_ hlt]
  · congr 1
    rw [wordProd_eq_digits]
    exact hdigits.2 j hj
  · calc stride * (j + 1) ≤ stride * (2 * 2 ^ logpack - 1) := Nat.mul_le_mul_left _ (by omega)
      _ = (2 * 2 ^ logpack - 1) * stride := Nat.mul_comm _ _
      _ ≤ N := hfit

/-- non-vacuity of `pack_unpack`: `N = 16`, `A = 2`, `stride = 5`, `n = 7`, one transform word -/
example : (∀ a, packWord 5 (2 ^ 1) #[1, 6] a = packVal (2 ^ 1) (W ^ 5) (coef #[1, 6]) a) ∧
    wordProd (2 ^ 1) (W ^ 5) 1 (coef #[1, 6]) (coef #[3, 2]) 0 < W ^ 16 ∧
    digit 16 5 (wordProd (2 ^ 1) (W ^ 5) 1 (coef #[1, 6]) (coef #[3, 2]) 0) 1 =
      some (digitSum (2 ^ 1) 1 (coef #[1, 6]) (coef #[3, 2]) 0 1) := by
  apply pack_unpack 16 1 1 5 7 #[1, 6] #[3, 2] ?_ ?_ (by decide) (by decide) (by decide) 0 1 (by decide)
  · intro u
    rcases u with _ | _ | u
    · decide
    · decide
    · rw [coef_ge _ _ (by simp)]; decide
  · intro u
    rcases u with _ | _ | u
    · decide
    · decide
    · rw [coef_ge _ _ (by simp)]; decide

/-- the exact cyclic product used by the driver satisfies the hypothesis `ExactCyc` of
`kronecker_cyclic` (non-vacuity of that hypothesis) -/
theorem cycExact_exact (N : Nat) : ExactCyc N (cycExact N) := by
  intro x y hxy hpos hle ⟨m, hm⟩ _ _
  unfold cycExact
  have h1 : ¬ (x.size ≠ y.size) := by omega
  have h2 : ¬ (x.size = 0 ∨ x.size ≠ 2 ^ x.size.log2) := by
    rw [hm, Nat.log2_two_pow]
    have : 0 < 2 ^ m := Nat.pow_pos (by decide)
    omega
  have h3 : ¬ (x.size > 256 * N) := by omega
  simp only [h1, h2, h3, if_false]
  refine ⟨_, rfl, by simp, ?_⟩
  intro i hi
  rw [coef_ofFn _ i hi]

/-- **`convolve_modn` is the cyclic convolution.** For every modulus `n` of `1 ≤ nbits ≤ 500` bits
(`k = ⌈nbits/64⌉` words), every power-of-two `size ≤ 524288` (every arm of the dispatch table),
every operand length `0 < |p| ≤ size`, `|q| ≤ size`, coefficients `< n`, and every output window
`offset + reslen ≤ size`: if the Fermat transform product `cyc N` is the exact cyclic product of the
word vectors (below `2^(64N)`) modulo `2^(64N)+1` for the word counts `N = 2^a ≤ 256` of the table
(hypothesis `ExactCyc`; discharged for the word-level `mulfft` in `kronecker_cyclic_fft`), then the model of `convolve_modn` (after the fix) does not reach a
panic site and returns `res[t] = (Σ_{a+b ≡ offset+t (mod size)} p[a]·q[b]) · R⁻¹ mod n`, i.e. the
Montgomery form of the schoolbook cyclic convolution coefficient `offset + t`. -/
theorem kronecker_cyclic (cyc : Nat → Array Nat → Array Nat → Option (Array Nat))
    (n k rinv nbits size : Nat) (p q : Array Nat) (reslen offset : Nat)
    (hn : 0 < n) (hnb : n < 2 ^ nbits) (hb1 : 0 < nbits) (hb : nbits ≤ 500)
    (hk : k = (nbits + 63) / 64)
    (hp : ∀ u, coef p u < n) (hq : ∀ u, coef q u < n)
    (hps : 0 < p.size) (hps2 : p.size ≤ size) (hqs : q.size ≤ size)
    (hsize : ∃ m, size = 2 ^ m) (h2 : 2 ≤ size) (hmax : size ≤ 524288)
    (hwin : offset + reslen ≤ size)
    (hcyc : ∀ N, (∃ a, N = 2 ^ a) → N ≤ 256 → ExactCyc N (cyc N)) :
    ∃ res, Kronecker.convolve true cyc n k rinv nbits size p q reslen offset = some res ∧ res.size = reslen ∧
      ∀ t < reslen, coef res t = cycCoef size (coef p) (coef q) (offset + t) * rinv % n := by
  -- the table accepts (nbits, size)
  have hdisp : ∃ arm, arith_fft.convolve_dispatch nbits size = some arm := by
    unfold arith_fft.convolve_dispatch
    simp only [Bool.and_eq_true, decide_eq_true_eq]
    split_ifs with h1 h2 h3 h4 h5 h6 h7 h8
    all_goals first | exact ⟨_, rfl⟩ | (exfalso; omega)
  obtain ⟨⟨fsize, logpack, stride⟩, harm⟩ := hdisp
  obtain ⟨N, hN, ok⟩ := dispatch_ok nbits size fsize logpack stride harm hb
  obtain ⟨hNpow, hN256⟩ := fsize_table_ok fsize N hN
  unfold Kronecker.convolve
  rw [harm]
  simp only
  rw [if_neg (by simp only [CONVOLVE_MAX_BITS]; omega), hN]
  simp only
  obtain ⟨m, hm⟩ := hsize
  have hk1 : 1 ≤ k := by omega
  have hWk : W ≤ W ^ k := by
    calc W = W ^ 1 := (pow_one W).symm
      _ ≤ W ^ k := Nat.pow_le_pow_right (by decide) hk1
  have hnk : n ≤ W ^ k := by
    have : 2 ^ nbits ≤ W ^ k := by
      have hW : W = 2 ^ 64 := by decide
      rw [hW, ← pow_mul]
      exact Nat.pow_le_pow_right (by decide) (by omega)
    omega
  have hsmall : size * n ≤ W ^ k * W ^ k :=
    Nat.mul_le_mul (le_trans (le_of_lt ok.small) hWk) hnk
  have hnn : n * n ≤ 2 ^ (2 * nbits) := by
    have : 2 ^ (2 * nbits) = 2 ^ nbits * 2 ^ nbits := by rw [← pow_add]; congr 1; omega
    rw [this]
    exact Nat.mul_le_mul (le_of_lt hnb) (le_of_lt hnb)
  have hdig : size * (n * n) ≤ W ^ (if stride = 0 then 16 else stride) :=
    le_trans (Nat.mul_le_mul_left _ hnn) ok.digit
  obtain ⟨s1, s2, s3⟩ := ok.slice
  by_cases hst : stride = 0
  · subst hst
    obtain ⟨hl0, hN16⟩ := ok.unpacked rfl
    simp only [if_true] at hdig s1 s2 s3
    have hroots := ok.roots
    rw [hl0, pow_zero, Nat.div_one] at hroots
    exact convolveModn_unpacked (cyc N) n k rinv N size logpack p q reslen offset hn hp hq hps hps2 hqs
      (by omega) (by omega) ⟨m, hm⟩ hroots hdig (by omega) hsmall hwin (hcyc N hNpow hN256)
  · simp only [if_neg hst] at hdig s1 s2 s3
    have hAle := ok.pack h2
    have hlm : logpack ≤ m := by
      rw [hm] at hAle
      exact (Nat.pow_le_pow_iff_right (by decide)).1 hAle
    have hdvd : 2 ^ logpack ∣ size := by rw [hm]; exact pow_dvd_pow 2 hlm
    have hApos : 0 < 2 ^ logpack := Nat.pow_pos (by decide)
    obtain ⟨res, h1, h2', h3⟩ := convolveModn_packed (cyc N) n k rinv N size logpack stride p q reslen offset
      hn hp hq hps hps2 hqs hst (Nat.div_pos hAle hApos) (Nat.div_mul_cancel hdvd).symm
      ⟨m - logpack, by rw [hm, Nat.pow_div hlm (by decide)]⟩ ok.roots hdig ok.fit ok.copy
      (by simp only [MINT_WORDS] at s1; omega) (by omega) (by omega) hsmall (hcyc N hNpow hN256)
    exact ⟨res, h1, h2', fun t ht => h3 t ht (by omega)⟩

/-- non-vacuity: all hypotheses of `kronecker_cyclic` are met by `n = 7` (3 bits, `R⁻¹ = 4`),
`size = 8`, with the driver's exact cyclic product. -/
example : ∃ res, Kronecker.convolve true cycExact 7 1 4 3 8 #[1, 2, 3] #[4, 5] 8 0 = some res ∧ res.size = 8 ∧
    ∀ t < 8, coef res t = cycCoef 8 (coef #[1, 2, 3]) (coef #[4, 5]) (0 + t) * 4 % 7 := by
  apply kronecker_cyclic cycExact 7 1 4 3 8 #[1, 2, 3] #[4, 5] 8 0 (by decide) (by decide) (by decide)
    (by decide) (by decide) ?_ ?_ (by decide) (by decide) (by decide) ⟨3, by decide⟩ (by decide)
    (by decide) (by decide) (fun N _ _ => cycExact_exact N)
  · intro u
    rcases u with _ | _ | _ | u
    · decide
    · decide
    · decide
    · rw [coef_ge _ _ (by simp)]; decide
  · intro u
    rcases u with _ | _ | u
    · decide
    · decide
    · rw [coef_ge _ _ (by simp)]; decide

/-- **The word-level `mulfft` is an exact cyclic product**: `ExactCyc N (cycFft N)` for every word
count `N = 2^a ≤ 256` (every `N` of the dispatch table: `fsize_table_ok`). `cycFft` turns the packed
words into `FInt<N>` with top word 0 as `_convolve_modn` does, runs the word-level model of `mulfft`
(recursive `fft` forward on both operands, `FInt::mul` pointwise, `fft` inverse) and reads the
values back: for `2^m ≤ 256N` words below `2^(64N)` no panic site is reached (twiddle exponents within
`u32`, shifts within range, all `debug_assert!(is_reduced)`) and entry `i` is
`(Σ_{a+b ≡ i (mod 2^m)} x_a·y_b) mod (2^(64N)+1)` in canonical form.
Built on `fft_spec`/`mulfft_spec` below, i.e. on `dft_conv` instantiated in `ℤ/(2^(64N)+1)` with the
root `√2^(256N/2^m)` (`root_half`), and on `fint_mul_karatsuba` for the products inside `FInt::mul`. -/
theorem mulfft_exact (N a : Nat) (hNa : N = 2 ^ a) (hN : N ≤ 256) : ExactCyc N (cycFft N) :=
  cycFft_exact N a hNa hN

/-- **`convolve_modn` over the word-level transform is the cyclic convolution**: `kronecker_cyclic`
with `cyc = cycFft` and no hypothesis on the transform. For every modulus of `1..500` bits, every
power-of-two `size ≤ 524288`, operands of any admissible lengths with coefficients `< n` and every
output window, the composed model (dispatch table, packing, word-level `mulfft`, digit extraction,
`redc_large`, scatter with wrap-around) reaches no panic site and returns the Montgomery form of
the schoolbook cyclic convolution. -/
theorem kronecker_cyclic_fft (n k rinv nbits size : Nat) (p q : Array Nat) (reslen offset : Nat)
    (hn : 0 < n) (hnb : n < 2 ^ nbits) (hb1 : 0 < nbits) (hb : nbits ≤ 500)
    (hk : k = (nbits + 63) / 64)
    (hp : ∀ u, coef p u < n) (hq : ∀ u, coef q u < n)
    (hps : 0 < p.size) (hps2 : p.size ≤ size) (hqs : q.size ≤ size)
    (hsize : ∃ m, size = 2 ^ m) (h2 : 2 ≤ size) (hmax : size ≤ 524288)
    (hwin : offset + reslen ≤ size) :
    ∃ res, Kronecker.convolve true cycFft n k rinv nbits size p q reslen offset = some res ∧ res.size = reslen ∧
      ∀ t < reslen, coef res t = cycCoef size (coef p) (coef q) (offset + t) * rinv % n :=
  kronecker_cyclic cycFft n k rinv nbits size p q reslen offset hn hnb hb1 hb hk hp hq hps hps2 hqs hsize h2 hmax
    hwin (fun N ⟨a, ha⟩ hN => cycFft_exact N a ha hN)

/-- non-vacuity: the same instance (`n = 7`, `size = 8`) through the word-level transform -/
example : ∃ res, Kronecker.convolve true cycFft 7 1 4 3 8 #[1, 2, 3] #[4, 5] 8 0 = some res ∧ res.size = 8 ∧
    ∀ t < 8, coef res t = cycCoef 8 (coef #[1, 2, 3]) (coef #[4, 5]) (0 + t) * 4 % 7 := by
  apply kronecker_cyclic_fft 7 1 4 3 8 #[1, 2, 3] #[4, 5] 8 0 (by decide) (by decide) (by decide)
    (by decide) (by decide) ?_ ?_ (by decide) (by decide) (by decide) ⟨3, by decide⟩ (by decide)
    (by decide) (by decide)
  · intro u
    rcases u with _ | _ | _ | u
    · decide
    · decide
    · decide
    · rw [coef_ge _ _ (by simp)]; decide
  · intro u
    rcases u with _ | _ | u
    · decide
    · decide
    · rw [coef_ge _ _ (by simp)]; decide

/-- an exact cyclic product for transform length 1 (`L = 1`: the product of the two words modulo `F`) -/
def cyc1 (N : Nat) (x y : Array Nat) : Option (Array Nat) :=
  some #[coef x 0 * coef y 0 % (W ^ N + 1)]

/-- **Counter-witness for the index formula of the pinned tree (defect F11).** `n = 7`, `R⁻¹ = 4`,
`N = 16`, `A = 2`, `stride = 5`, `size = 2`, `p = q = 1 + X` (Montgomery residues 1): the cyclic square
is `2 + 2X`, i.e. `res = [2·4 mod 7, 2·4 mod 7] = [1, 1]`. With `idx = i·A + j` (no `% size`) the
digit `j = 2` of the only FFT word — the coefficient of `X^2 = X^size` — falls outside the window and is
dropped: the old formula returns `[4, 1]`; with `idx = (i·A + j) % size` the model returns `[1, 1]`.
Replayed on the implementation: `pf_convolve 7 2 0 2 1,1 1,1` answered `1,2` (plain integers) before
the fix and `2,2` after. -/
theorem kronecker_old_index_drops_wrap :
    convolveModn false (cyc1 16) 7 1 4 16 2 1 5 #[1, 1] #[1, 1] 2 0 = some #[4, 1] ∧
    convolveModn true (cyc1 16) 7 1 4 16 2 1 5 #[1, 1] #[1, 1] 2 0 = some #[1, 1] ∧
    (cycCoef 2 (coef #[1, 1]) (coef #[1, 1]) 0 * 4 % 7 = 1 ∧
     cycCoef 2 (coef #[1, 1]) (coef #[1, 1]) 1 * 4 % 7 = 1) := by
  decide +kernel

end Kronecker

/-! ## Fermat-number arithmetic `FInt<N>` -/

section FIntSpecs
open Ymq.FInt Ymq.Limbs

/-- `FInt::reduce`: for ANY top word the routine returns the normal form of the same residue
modulo `F = 2^(64N)+1` (all three branches: `z[0] ≥ top`, borrow chain, borrow out + add back). -/
theorem reduce_spec {N : Nat} (x : FI) (hN : 0 < N) (hx : WfN N x) (ht : x.top < W) :
    ∃ r, reduce x = some r ∧ WfN N r ∧ Norm r ∧ r.value ≡ x.value [MOD Fmod N] :=
  reduce_spec' x hN hx ht

example : reduce ⟨[1, 0], 3⟩ = some ⟨[W - 1, W - 1], 0⟩ ∧ WfN 2 ⟨[1, 0], 3⟩ := by
  refine ⟨by decide, by decide, ?_⟩
  intro a ha; simp at ha; rcases ha with rfl | rfl <;> decide

/-- `FInt::add_assign` (any small top words, operands need not be normalised): normal form of the sum. -/
theorem add_assign_spec {N : Nat} (x y : FI) (hN : 0 < N) (hx : WfN N x) (hy : WfN N y)
    (ht : x.top + y.top + 1 < W) :
    ∃ r, addAssign x y = some r ∧ WfN N r ∧ Norm r ∧ r.value ≡ x.value + y.value [MOD Fmod N] :=
  addAssign_spec' x y hN hx hy ht

/-- `FInt::add_small`: the exact value `self + x` (the result is NOT normalised, as documented). -/
theorem add_small_spec {N : Nat} (a : FI) (x : Nat) (hN : 0 < N) (ha : WfN N a) (hx : x < W)
    (ht : a.top + 1 < W) :
    ∃ r, addSmall a x = some r ∧ WfN N r ∧ r.value = a.value + x ∧ r.top ≤ a.top + 1 :=
  addSmall_spec' a x hN ha hx ht

/-- `FInt::sub_assign` with a normalised subtrahend: normal form of the difference
(`r + y ≡ x`), including the case `y = 2^(64N) ≡ -1`. -/
theorem sub_assign_spec {N : Nat} (x y : FI) (hN : 0 < N) (hx : WfN N x) (hy : WfN N y)
    (hny : Norm y) (ht : x.top + 2 < W) :
    ∃ r, subAssign x y = some r ∧ WfN N r ∧ Norm r ∧ r.value + y.value ≡ x.value [MOD Fmod N] :=
  subAssign_spec' x y hN hx hy hny ht

/-- `butterfly(x, y)`: on normal forms both branches (the `add/sub` fallback when a top word is set
and the fused carry loop) return the normal forms of `x + y` and `x - y`. -/
theorem butterfly_spec {N : Nat} (x y : FI) (hN : 0 < N) (hx : WfN N x) (hy : WfN N y)
    (hnx : Norm x) (hny : Norm y) :
    ∃ a b, butterfly x y = some (a, b) ∧ WfN N a ∧ WfN N b ∧ Norm a ∧ Norm b ∧
      a.value ≡ x.value + y.value [MOD Fmod N] ∧ b.value + y.value ≡ x.value [MOD Fmod N] :=
  butterfly_spec' x y hN hx hy hnx hny

/-- `FInt::shl(s)` for EVERY shift amount: on a normal form no panic site is reached, the result is
a normal form and the residue is multiplied by `2^s`. Covers the reduction `s % 128N`, the `-1 << s`
case, the four whole-word branches (`sw = 0`, `< N`, `= N`, `> N`) with both "common case without
carries" shortcuts and their carry fallbacks, and the bit-shift loop. -/
theorem shl_spec {N : Nat} (x : FI) (s : Nat) (hN : 0 < N) (hx : WfN N x) (hn : Norm x) :
    ∃ r, shl x s = some r ∧ WfN N r ∧ Norm r ∧ r.value ≡ x.value * 2 ^ s [MOD Fmod N] :=
  shl_spec' x s hN hx hn

/-- `FInt::shr(s)`, `s ≤ 128N`: division by `2^s` (`r·2^s ≡ x`). -/
theorem shr_spec {N : Nat} (x : FI) (s : Nat) (hN : 0 < N) (hx : WfN N x) (hn : Norm x)
    (hs : s ≤ 128 * N) :
    ∃ r, shr x s = some r ∧ WfN N r ∧ Norm r ∧ r.value * 2 ^ s ≡ x.value [MOD Fmod N] :=
  shr_spec' x s hN hx hn hs

example : WfN 2 ⟨[5, 7], 0⟩ ∧ Norm ⟨[5, 7], 0⟩ ∧ shl ⟨[5, 7], 0⟩ 64 = some ⟨[W - 7, 4], 0⟩ := by
  refine ⟨⟨by decide, ?_⟩, Or.inl rfl, by decide⟩
  intro a ha; simp at ha; rcases ha with rfl | rfl <;> decide

/-- `√2`: `(2^(48N) - 2^(16N))² ≡ 2 (mod 2^(64N) + 1)` for every `N`. -/
theorem sqrt2_sq (N : Nat) : sqrt2 N * sqrt2 N ≡ 2 [MOD Fmod N] := sqrt2_sq' N

/-- `FInt::twiddle(i, k)` multiplies by `ω^i` with `ω = √2^(256N/2^k)`, a `2^k`-th root of unity,
with the code's exponent formula `shift = (128·i·N) >> k` and its half-shift rule
(`i` odd and `2^k = 256N`): valid whenever `2^k` divides `128N` (pure shifts) or equals `256N`
(`mulfft` asserts `l ≤ 256N`; `N` is a power of two in every instantiation). No u32 overflow for
`128·i·N < 2^32`. -/
theorem twiddle_spec {N : Nat} (x : FI) (i k : Nat) (hN : 0 < N) (hx : WfN N x) (hn : Norm x)
    (hk : k < 32) (hi : 128 * i * N < 2 ^ 32) (hdiv : 2 ^ k ∣ 128 * N ∨ 2 ^ k = 256 * N) :
    ∃ r, twiddle x i k = some r ∧ WfN N r ∧ Norm r ∧
      r.value ≡ x.value * root N k ^ i [MOD Fmod N] :=
  twiddle_spec' x i k hN hx hn hk hi hdiv

/-- the root used at full length is a square root of 2, hence `ω^(2^k) = √2^(256N) ≡ 1`:
`root N k` is a `2^k`-th root of unity whenever `2^k` divides `256N`. -/
theorem root_pow (N k : Nat) (hdvd : 2 ^ k ∣ 256 * N) : root N k ^ 2 ^ k ≡ 1 [MOD Fmod N] := by
  unfold root
  rw [← pow_mul, Nat.div_mul_cancel hdvd, show 256 * N = 2 * (128 * N) by ring]
  exact (sqrt2_pow_even N (128 * N)).trans (pow_period N)

example : (2 : Nat) ^ 12 = 256 * 16 ∧ 128 * 4095 * 16 < 2 ^ 32 := by decide

/-- the twiddle root is PRINCIPAL: `ω^(2^(k-1)) ≡ -1 (mod F)` for `k ≥ 1`, `2^k ∣ 256N` — the
hypothesis of `dft_conv` for the Fermat transform. -/
theorem root_half (N k : Nat) (hk : 0 < k) (hdvd : 2 ^ k ∣ 256 * N) :
    root N k ^ 2 ^ (k - 1) + 1 ≡ 0 [MOD Fmod N] := by
  unfold root
  have he : 256 * N / 2 ^ k * 2 ^ (k - 1) = 2 * (64 * N) := by
    obtain ⟨c, hc⟩ := hdvd
    have hp : 0 < 2 ^ k := Nat.pow_pos (by decide)
    have h2 : 2 ^ k = 2 ^ (k - 1) * 2 := by rw [← pow_succ]; congr 1; omega
    rw [hc, Nat.mul_div_cancel_left _ hp]
    have : 2 * (c * 2 ^ (k - 1)) = 2 * (128 * N) := by
      calc 2 * (c * 2 ^ (k - 1)) = 2 ^ (k - 1) * 2 * c := by ring
        _ = 2 ^ k * c := by rw [← h2]
        _ = 256 * N := hc.symm
        _ = 2 * (128 * N) := by ring
    omega
  rw [← pow_mul, he]
  have h1 := (sqrt2_pow_even N (64 * N)).add_right 1
  refine h1.trans ?_
  have : 2 ^ (64 * N) + 1 = Fmod N := by
    unfold Fmod; rw [show W = 2 ^ 64 by decide, ← pow_mul]
  rw [this]
  exact Nat.modEq_zero_iff_dvd.2 (dvd_refl _)

/-- **The Karatsuba routine inside `FInt::mul` is the exact product of the word vectors** (`kmul`:
`z.fill(0)`, `mulbasic` for `n ≤ 16` words with its `u128`/`u64` overflow checks, else split at `n/2`,
`plo + phi` and `qlo + qhi` with their carries, the middle product with the carry corrections
(`carryp & carryq`, the two conditional `_add_slices`), the low and high products in `tmp`, the two
`_sub_slices`, `carrymid - (carrylo + carryhi)` and its `debug_assert!`, the two `_add_slices` of the
recombination, the propagation of the carry of the low half added by commit b8c535f,
`debug_assert!(carry2 == 0)`). For word vectors of `n` words each with `kOk f n` (halving stays even
down to `≤ 16` words: every `n ≤ 16` and every power of two, `kOk_pow2`) and `|tmp| ≥ 4n`: no panic
site is reached and the `2n` result words are `val p · val q`. -/
theorem fint_mul_karatsuba (f tl : Nat) (p q : List Nat) (hk : kOk f p.length = true)
    (hl : q.length = p.length) (ht : 4 * p.length ≤ tl) (wp : Wf p) (wq : Wf q) :
    ∃ z, kmul f tl p q = some z ∧ z.length = 2 * p.length ∧ Wf z ∧ val z = val p * val q :=
  kmul_spec f tl p q hk hl ht wp wq

example : kmul 2 8 [W - 1, W - 1] [W - 1, W - 1] = some [1, 0, W - 2, W - 1] := by decide

/-- **`FInt::mul` multiplies residues** (both `top = 1` shortcuts and the general branch: the word-level
Karatsuba product `kmul`, then `FInt(z[0], 0).sub(&FInt(z[1], 0))`): on normal forms, for `N` in the
Karatsuba domain, no panic site is reached, the result is a normal form and its residue is the
product. `vz N x` is the residue of `x` in `ZMod (2^(64N)+1)`. -/
theorem mul_spec {N : Nat} (x y : FI) (hN : 0 < N) (hk : kOk KFUEL N = true) (hx : WfN N x) (hy : WfN N y)
    (hnx : Norm x) (hny : Norm y) :
    ∃ r, mul x y = some r ∧ WfN N r ∧ Norm r ∧ vz N r = vz N x * vz N y :=
  mul_spec' x y hN hk hx hy hnx hny

example : mul ⟨[W - 1], 0⟩ ⟨[W - 1], 0⟩ = some ⟨[4], 0⟩ := by decide

/-- **The word-level recursive `fft` is the radix-2 recursion of `dft_conv`** (`Ymq.Dft.fftRec`) in
`ℤ/(2^(64N)+1)`: for `2^k` entries in normal form, `k < 32`, twiddle exponents within `u32`
(`128·2^k·N < 2^32`), `2^k ∣ 128N` or `2^k = 256N`, and `depth + k ≤ 128N`, the model (strided even/odd
recursion, `twiddle(idx, k)` resp. `twiddle(2^k - idx, k)`, `butterfly`, the length-1 and length-2
base cases, `shr(depth + …)` in the inverse direction) reaches no panic site, returns normal forms,
and entry `j` times `2^(depth+k)` (inverse direction; `1` forward) is `fftRec k ω (residues of xs) j`
with `ω = √2^(256N/2^k)` forward and `ω⁻¹ = ω^(2^k-1)` inverse (`rt N k fwd`). -/
theorem fft_spec {N : Nat} (hN : 0 < N) (d : FI) (fwd : Bool) (k : Nat) (xs : List FI) (depth : Nat)
    (hlen : xs.length = 2 ^ k) (hg : Good N xs) (hk : k < 32) (hb : 128 * 2 ^ k * N < 2 ^ 32)
    (hdiv : 2 ^ k ∣ 128 * N ∨ 2 ^ k = 256 * N) (hdep : depth + k ≤ 128 * N) :
    ∃ ys, fft k xs depth fwd = some ys ∧ ys.length = 2 ^ k ∧ Good N ys ∧
      ∀ j, j < 2 ^ k →
        vz N (ys.getD j d) * (if fwd then 1 else 2 ^ (depth + k)) =
          Ymq.Dft.fftRec k (rt N k fwd) (fun i => vz N (xs.getD i d)) j :=
  Ymq.FInt.fft_spec hN d fwd k xs depth hlen hg hk hb hdiv hdep

/-- **`mulfft` is the cyclic convolution modulo `2^(64N)+1`** (`dft_conv` instantiated by the
word-level model): forward `fft` of both operands, `FInt::mul` pointwise, inverse `fft`; for `2^k`
entries in normal form (`Good`), `N` in the Karatsuba domain, `k < 32`, `128·2^k·N < 2^32`, `2^k ∣ 128N` or
`2^k = 256N`: no panic
site, normal forms, and entry `m` has residue `Σ_a p1[a]·p2[(m - a) mod 2^k]`. -/
theorem mulfft_spec {N : Nat} (hN : 0 < N) (hkk : kOk KFUEL N = true) (d : FI) (k : Nat) (p1 p2 : List FI)
    (h1 : p1.length = 2 ^ k) (h2 : p2.length = 2 ^ k) (g1 : Good N p1) (g2 : Good N p2)
    (hk : k < 32) (hb : 128 * 2 ^ k * N < 2 ^ 32) (hdiv : 2 ^ k ∣ 128 * N ∨ 2 ^ k = 256 * N) :
    ∃ out, mulfft N p1 p2 = some out ∧ out.length = 2 ^ k ∧ Good N out ∧
      ∀ m, m < 2 ^ k → vz N (out.getD m d) =
        Ymq.Dft.cyc (2 ^ k) (fun i => vz N (p1.getD i d)) (fun i => vz N (p2.getD i d)) m :=
  Ymq.FInt.mulfft_spec hN hkk d k p1 p2 h1 h2 g1 g2 hk hb hdiv

/-- `N = 1`, length 2: `(3 + 5X)(7 + 11X) mod (X² - 1) = 76 + 68X` -/
example : mulfft 1 [⟨[3], 0⟩, ⟨[5], 0⟩] [⟨[7], 0⟩, ⟨[11], 0⟩] = some [⟨[76], 0⟩, ⟨[68], 0⟩] := by decide

end FIntSpecs

/-! ## Residue number system `MultiZmodP` -/

section CrtSpecs
open Finset

/-- **CRT reconstruction is unique**: for pairwise coprime `p_i` (`P = ∏ p_i`), `0 ≤ V < P` and
`xs_i < p_i` with `V ≡ xs_i·(P/p_i) (mod p_i)` (i.e. `xs_i = x_i·(P/p_i)⁻¹ mod p_i` for the residues
`x_i` of `V`, as computed by `_crt`), there is exactly one `q` with
`V = Σ xs_i·(P/p_i) - q·P`, and `q < w` (so the table `pprods_modn` of `w` multiples suffices). -/
theorem crt_unique (ps : List Nat) (hw : 0 < ps.length) (hco : ps.Pairwise Nat.Coprime)
    (hpos : ∀ p ∈ ps, 0 < p) (xs : Fin ps.length → Nat) (hxs : ∀ i, xs i < ps.get i) (V : Nat)
    (hV : V < ps.prod) (hc : ∀ i, V ≡ xs i * (ps.prod / ps.get i) [MOD ps.get i]) :
    ∃! q, q < ps.length ∧ V + q * ps.prod = ∑ i, xs i * (ps.prod / ps.get i) :=
  Ymq.Crt.crt_unique' ps hw hco hpos xs hxs V hV hc

/-- non-vacuity: `p = (3, 5)`, `V = 7`, `xs = (2, 4)`: `2·5 + 4·3 = 22 = 7 + 1·15` -/
example : ∃! q, q < [3, 5].length ∧
    7 + q * [3, 5].prod = ∑ i : Fin [3, 5].length, (if i.val = 0 then 2 else 4) * ([3, 5].prod / [3, 5].get i) :=
  crt_unique [3, 5] (by decide) (by decide) (by decide) (fun i => if i.val = 0 then 2 else 4) (by decide) 7
    (by decide) (by decide)

/-- **Value assembled by `_crt`**: with the right quotient `q`, `T = pprods_modn[q] + Σ xs_j·crt_p_modn[j]`
is congruent to the reconstructed integer `V` modulo `n` (`crt_p_modn[j] ≡ P/p_j`,
`pprods_modn[q] ≡ -q·P`). -/
theorem crt_value {w : Nat} (n P q V : Nat) (xs cp c : Fin w → Nat) (qp : Nat)
    (hrec : V + q * P = ∑ i, xs i * cp i) (hcn : ∀ i, c i ≡ cp i [MOD n])
    (hqp : qp + q * P ≡ 0 [MOD n]) :
    qp + ∑ i, xs i * c i ≡ V [MOD n] :=
  Ymq.Crt.crt_value' n P q V xs cp c qp hrec hcn hqp

/-- **Quotient estimate of `_crt`, error analysis** (PARTIAL: see below). `S = Σ xs_i·c_i = q·P + V`
with `V < P/2`; the code keeps of each `c_i = P/p_i` the part above a scale `M`, rounds up, sums
`top = Σ xs_i·(c_i/M + 1)` in 128 bits and returns `(top >> 64) / hi` where `hi = ⌊P/(2^64·M)⌋`.
If `Σ xs_i ≤ 2^64` and `2q + 3 ≤ hi`, the estimate is exactly `q`. The three branches of the code are
the instances `M = W^(plen-2)` (`hi ≥ 2^8`), `M = 2^32·W^(plen-2)` (`hi ≥ 2^24`) and
`M = 2^32·W^(plen-3)` (`hi ≥ 2^32`), with `q < w ≤ 26`.
This is the arithmetic core (hence `_partial`); `crt_q_estimate` below ties it to the words read by the
model `Ymq.Crt.qEstimate` and to the tables of `MultiZmodP::new`. Still NOT proved: `V < P/2` from
`w = (2·bits + logsize)/58 + 1` for the values `_crt` is called on (covered by `mzp_crt`, `mzp_redc`:
all three branches, maximal load). -/
theorem crt_q_estimate_partial {w : Nat} (P q V M hi Wd : Nat) (xs c : Fin w → Nat)
    (hM : 0 < M) (hWd : 0 < Wd) (hhi : 0 < hi)
    (hS : V + q * P = ∑ i, xs i * c i) (hV : 2 * V < P)
    (hlo : hi * Wd * M ≤ P) (hup : P < (hi + 1) * Wd * M)
    (hxs : ∑ i, xs i ≤ Wd) (hq : 2 * q + 3 ≤ hi) :
    (∑ i, xs i * (c i / M + 1)) / Wd / hi = q :=
  Ymq.Crt.q_estimate' P q V M hi Wd xs c hM hWd hhi hS hV hlo hup hxs hq

/-- non-vacuity: `P = 101·103`, `V = 1000`, `xs = (96, 15)`, `c = (103, 101)`, `q = 1`; scale `M = 2`,
`Wd = 128`, `hi = 40`: `(96·52 + 15·51)/128/40 = 1` -/
example : (∑ i : Fin 2, (if i.val = 0 then 96 else 15) * ((if i.val = 0 then 103 else 101) / 2 + 1)) / 128 / 40 = 1 :=
  crt_q_estimate_partial (w := 2) 10403 1 1000 2 40 128 (fun i => if i.val = 0 then 96 else 15)
    (fun i => if i.val = 0 then 103 else 101) (by decide) (by decide) (by decide) (by decide) (by decide)
    (by decide) (by decide) (by decide) (by decide)

/-- **The quotient estimate of `_crt`, as the model reads the tables, is the CRT quotient.** For the
context `m` built by the model of `MultiZmodP::new(zn, logsize)` from the translated prime table (any
modulus and size it accepts, `w ≥ 2` primes; `w = 1` does not use the estimate), residues `xs_i < 2^59`,
and `Σ xs_i·(P/p_i) = V + q·P` with `2V < P`, `q ≤ 25` (`crt_unique`: `q < w ≤ 26`): the model
`Ymq.Crt.qEstimate` — branch selection on the top word of `P`, the reads
`crt[plen-1] << 32 | crt[plen-2] >> 32` (no bits are lost by the shift), `crt[plen-2]`,
`crt[plen-2] << 32 | crt[plen-3] >> 32`, the `u128` sums (no overflow), the divisor
(`ptop >> 96`, `hi`, `ptop >> 32`, never zero) — reaches no panic site and returns exactly `q`.
This ties `crt_q_estimate_partial` to the words the model reads (`qEstimate_spec`) and to the actual
tables (`new_estOk`: `P` has exactly `plen` words, `crt_p[i]·p_i = P`, `p_i > 2^58`, three words when the
top word is below `2^8`; decided on the table for every `w ≤ 26`). -/
theorem crt_q_estimate (n logsize : Nat) (m : Ymq.Crt.Mzp) (hm : Ymq.Crt.new n logsize = some m)
    (hw2 : 2 ≤ m.w) (xs : List Nat) (hxs : ∀ i, i < m.w → xs.getD i 0 < 2 ^ 59) (q V : Nat)
    (hS : V + q * m.pprod = ∑ i ∈ range m.w, xs.getD i 0 * m.crtP.getD i 0)
    (hV : 2 * V < m.pprod) (hq : q ≤ 25) : Ymq.Crt.qEstimate m xs = some q :=
  Ymq.Crt.qEstimate_spec m (Ymq.Crt.new_estOk n logsize m hm hw2) xs hxs q V hS hV hq

/-- **`MultiZmodP::_crt` (model `Ymq.Crt.crt`), `w ≥ 2` primes**: for the context built by the model of
`MultiZmodP::new(zn, logsize)` (`n > 0`) and residues `x_j < p_j`, no panic site is reached — every
`mg_mul64` (C07 `mgMul_spec`; the primes of the translated table are `< 2^59` with Montgomery constant
`p - 2`), the quotient estimate (`crt_q_estimate`), the index `pprods_modn[q]`, the `u128` column sums
(never `≥ 2^128`), `assert!(carry == 0)` — the scaled residues `xs_j < p_j`,
`xs_j·2^64 ≡ x_j·crt_pinv[j] (mod p_j)` exist, and whenever `Σ xs_j·(P/p_j) = V + q·P` with `2V < P`,
`q < w` (`crt_unique`), the `kw + 1` words written to `res` are exactly
`pprods_modn[q] + Σ_j xs_j·crt_p_modn[j]` (`crt_value`: congruent to `V` modulo `n`, given
`pprods_modn[q] ≡ -q·P`, which is compared by `mzp_new` only). -/
theorem crt_spec (n logsize : Nat) (m : Ymq.Crt.Mzp) (hm : Ymq.Crt.new n logsize = some m) (hn : 0 < n)
    (hw2 : 2 ≤ m.w) (x : List Nat) (hx : x.length = m.w)
    (hxr : ∀ j, j < m.w → x.getD j 0 < m.primes.getD j 0) :
    ∃ xs : List Nat, xs.length = m.w ∧
      (∀ j, j < m.w → xs.getD j 0 < m.primes.getD j 0 ∧
        xs.getD j 0 * Ymq.Mg64.W % m.primes.getD j 0 = x.getD j 0 * m.crtPinv.getD j 0 % m.primes.getD j 0) ∧
      ∀ q V, V + q * m.pprod = ∑ j ∈ range m.w, xs.getD j 0 * m.crtP.getD j 0 → 2 * V < m.pprod → q < m.w →
        ∃ ws, Ymq.Crt.crt m x = some ws ∧ ws.length = m.kw + 1 ∧
          Ymq.Crt.valWords ws = m.pprodsModn.getD q 0 + ∑ j ∈ range m.w, xs.getD j 0 * m.crtPModn.getD j 0 :=
  Ymq.Crt.crt_spec m (Ymq.Crt.new_crtOk n logsize m hm hn hw2) hw2 x hx hxr

/-- non-vacuity: a 61-bit modulus at `logsize = 3` gets three primes -/
example : (Ymq.Crt.new (2 ^ 61 - 1) 3).map (·.w) = some 3 := by decide +kernel

/-- **The table `NTT_PRIMES`** (translated from the source on every run): the moduli are pairwise
coprime (hypothesis of `crt_unique`), each is `≡ 1 (mod 2^49)` and lies in `(2^58, 2^59)`,
`p·(p-2) ≡ -1 (mod 2^64)` (the constant `p - 2` passed to `mg_mul` by `mg_mul64`), and the listed
element `g` satisfies `g^(2^31) ≡ -1 (mod p)`: it has order exactly `2^32` and `g^(2^(32-k))`, the
root built by `MultiZmodP::new`, is a principal `2^k`-th root of unity (hypothesis of `dft_conv`). -/
theorem ntt_table_ok :
    Ymq.Gen.Params.NTT_PRIME_VALUES.Pairwise Nat.Coprime ∧
    ∀ r ∈ Ymq.Gen.Params.NTT_PRIMES, r.1 % 2 ^ 49 = 1 ∧ 2 ^ 58 < r.1 ∧ r.1 < 2 ^ 59 ∧
      (r.1 * (r.1 - 2) + 1) % 2 ^ 64 = 0 ∧ r.2 ^ 2 ^ 31 % r.1 = r.1 - 1 := by
  refine ⟨Ymq.Crt.primes_coprime, fun r hr => ?_⟩
  obtain ⟨h1, h2, h3, h4, h5⟩ := Ymq.Crt.rows_ok r hr
  exact ⟨h1, h2, h3, h4, by rw [← Ymq.Crt.sqIter_eq]; exact h5⟩

/-- **The root tables of `MultiZmodP::new`** (model `Ymq.Crt.rootsPacked`: `ωs[i] = mg_mul64(g_i^(2^(32-logsize)),
R²)`, the `2^logsize` successive products, the packed levels `roots[log]` = `2^(log-1)` forward then
`2^(log-1)` backward entries, and the `debug_assert!` sanity check `ω^(2^logsize) == 1` at the end of `new`,
PROVED to pass): for every context built by the model of `new` with `logsize ≤ 31` no
panic site is reached and the tables meet `RootsOk`: level `k` holds the Montgomery forms of `ω_k^i` and
`ω_k^(-i)` (`i < 2^(k-1)`), `ω_k = g^(2^(32-k))` (`omk`), with `ω_(k+1)² = ω_k`, `ω_k^(2^(k-1)) = -1`
(principal root: hypothesis of `dft_conv`), `ω_k·ω_k⁻¹ = 1`, for every prime of the context. -/
theorem ntt_roots_spec (n logsize : Nat) (m : Ymq.Crt.Mzp) (hm : Ymq.Crt.new n logsize = some m)
    (hK : m.k ≤ 31) :
    ∃ rts, Ymq.Crt.rootsPacked m = some rts ∧ Ymq.Crt.RootsOk m rts (Ymq.Crt.omk m) :=
  Ymq.Crt.rootsPacked_ok n logsize m hm hK

/-- **`MultiZmodP::ntt_inplace` is the DFT recursion of `dft_conv` per prime** (word-level model
`Ymq.Crt.nttInplace`: `k = 1` butterfly, else the two half transforms, then `muladdsub_inplace` with the
forward or backward half of `roots[k]`; `div_pow2(depth + 1)` at the leaves of the inverse direction;
Montgomery `u64` arithmetic by the C07 models of `mg_mul`/`mg_redc`, every `u64` addition and
subtraction of the butterflies checked). For a context built by the model of `new`, `1 ≤ k ≤ logsize ≤ 31`,
`depth + k ≤ 64` and a vector of `2^k` elements of `w` reduced residues (`VecOk`): no panic site is
reached, every output residue is reduced, and for every prime `j` and index `i`,
`out[i]_j · (1 | 2^(depth+k)) = fftRec k ω (t ↦ v[bitrev k t]_j) i` in `ZMod p_j` — `mfe` reads a residue
out of its Montgomery form, `ω = omk m j k fwd` is `g_j^(2^(32-k))` or its inverse, the input is taken in
bit-reversed order as the code documents. With `dft_conv` (1): `out` is the DFT of the bit-reversed
input. -/
theorem ntt_inplace_spec (n logsize : Nat) (m : Ymq.Crt.Mzp) (hm : Ymq.Crt.new n logsize = some m)
    (hK : m.k ≤ 31) (fwd : Bool) (k : Nat) (v : List (List Nat)) (depth : Nat) (h1 : 1 ≤ k) (hk : k ≤ m.k)
    (hv : Ymq.Crt.VecOk m v (2 ^ k)) (hd : depth + k ≤ 64) :
    ∃ rts, Ymq.Crt.rootsPacked m = some rts ∧
      ∃ out, Ymq.Crt.nttInplace m rts k v depth fwd = some out ∧ Ymq.Crt.VecOk m out (2 ^ k) ∧
        ∀ j, j < m.w → ∀ i, i < 2 ^ k →
          Ymq.Crt.mfe m (out.getD i []) j * (if fwd then 1 else 2 ^ (depth + k)) =
            Ymq.Dft.fftRec k (Ymq.Crt.omk m j k fwd)
              (fun t => Ymq.Crt.mfe m (v.getD (Ymq.Crt.bitrev k t) []) j) i := by
  obtain ⟨rts, e, hr⟩ := Ymq.Crt.rootsPacked_ok n logsize m hm hK
  exact ⟨rts, e, Ymq.Crt.nttInplace_spec m (Ymq.Crt.tabOk_of_new n logsize m hm) rts _ hr fwd k v depth h1 hk hv hd⟩

/-- **The transform pipeline of `convolve_modn_ntt` is the cyclic convolution per prime** (`dft_conv` (3)
instantiated by the word-level model): for a context built by the model of `new`, `1 ≤ K ≤ logsize ≤ 31` and
two vectors `f1`, `f2` of `2^K` elements of reduced residues (as `from_mint` leaves them at the
bit-reversed positions), the forward `ntt_inplace` of both, `mzp.mul`, the swap loop
`if i < irev { swap }` and the inverse `ntt_inplace` reach no panic site, every residue stays reduced,
and residue `j` of element `i` of the result is `Σ_a x_a·y_((i - a) mod 2^K)` in `ZMod p_j`
(`Ymq.Dft.cyc`), `x_t = f1[bitrev K t]_j`, `y_t = f2[bitrev K t]_j` read out of their Montgomery forms.
Not included: `from_mint` before and `redc` (`crt_spec` + `zn.redc`) after, hence the statement modulo
`n`; those two ends are compared by K/O (`pf_convolve_ntt` through the whole word-level model). -/
theorem ntt_pipeline_spec (n logsize : Nat) (m : Ymq.Crt.Mzp) (hm : Ymq.Crt.new n logsize = some m)
    (hK : m.k ≤ 31) (K : Nat) (h1 : 1 ≤ K) (hk : K ≤ m.k) (f1 f2 : List (List Nat))
    (hf1 : Ymq.Crt.VecOk m f1 (2 ^ K)) (hf2 : Ymq.Crt.VecOk m f2 (2 ^ K)) :
    ∃ rts g1 g2 h r, Ymq.Crt.rootsPacked m = some rts ∧ Ymq.Crt.nttInplace m rts K f1 0 true = some g1 ∧
      Ymq.Crt.nttInplace m rts K f2 0 true = some g2 ∧ Ymq.Crt.mulV m g1 g2 = some h ∧
      Ymq.Crt.nttInplace m rts K (Ymq.Crt.swapLoop K (2 ^ K) 0 h) 0 false = some r ∧
      Ymq.Crt.VecOk m r (2 ^ K) ∧
      ∀ j, j < m.w → ∀ i, i < 2 ^ K →
        Ymq.Crt.mfe m (r.getD i []) j =
          Ymq.Dft.cyc (2 ^ K) (fun t => Ymq.Crt.mfe m (f1.getD (Ymq.Crt.bitrev K t) []) j)
            (fun t => Ymq.Crt.mfe m (f2.getD (Ymq.Crt.bitrev K t) []) j) i :=
  Ymq.Crt.nttPipeline_spec n logsize m hm hK K h1 hk f1 f2 hf1 hf2

/-- **`V < P/2` at the `_crt` call sites of `convolve_modn_ntt`.** For the context built by the model of
`MultiZmodP::new(zn, logsize)` (`w = (2·bits(n) + logsize)/58 + 1` primes, each above `2^58`: decided on the
translated table) every integer `V ≤ size·n²` with `size ≤ 2^logsize` — in particular every coefficient
`Σ_(a+b ≡ i) x_a·y_b` of the cyclic product of two operands with entries `< n` (`assert!(mzp.k >= logsize)`
in `convolve_modn_ntt`) — satisfies `2V < P`: the hypothesis of `crt_q_estimate` / `crt_spec` holds where
`redc` is called. -/
theorem crt_call_bound (n logsize : Nat) (m : Ymq.Crt.Mzp) (hm : Ymq.Crt.new n logsize = some m)
    (hn : 0 < n) (size V : Nat) (hs : size ≤ 2 ^ logsize) (hV : V ≤ size * (n * n)) :
    2 * V < m.pprod := by
  rcases Ymq.Crt.crt_call_bound n logsize m hm size V hs hV with h | h
  · exact h
  · omega

/-- **`MultiZmodP::from_mint`** (model `Ymq.Crt.fromMint`; the table `rpowers[j][i] = R^(i+1) mod p_j` of `new`
is proved on the way, `rp_full`): for a reduced `MInt` holding `v < n` (`n` of at most 512 bits) no panic
site is reached (`assert!(sz <= 8)`, the `debug_assert!` on the unused words, the `u128` sums, `mg_redc`),
every residue is reduced and residue `j` is the Montgomery form of `v mod p_j`. -/
theorem from_mint_spec (n logsize : Nat) (m : Ymq.Crt.Mzp) (hm : Ymq.Crt.new n logsize = some m) (hn : 0 < n)
    (hbits : Ymq.Checked.bitlen n ≤ 512) (v : Nat) (hv : v < n) :
    ∃ z, Ymq.Crt.fromMint m (Ymq.Limbs.ofNat 8 v) = some z ∧ Ymq.Crt.EltOk m z ∧
      ∀ j, j < m.w → Ymq.Crt.mfe m z j = ((v : Nat) : ZMod (Ymq.Crt.P m j)) :=
  Ymq.Crt.fromMint_spec n logsize m hm hn hbits v hv

/-- **`pprods_modn[q] ≡ -q·P (mod n)`** for the table built by the model of `MultiZmodP::new`
(`pprod_modn`, its zero special case, the `for _ in 2..w` loop with the conditional subtraction). -/
theorem pprods_modn_spec (n logsize : Nat) (m : Ymq.Crt.Mzp) (hm : Ymq.Crt.new n logsize = some m)
    (hn : 0 < n) (q : Nat) (hq : q < m.w) : (m.pprodsModn.getD q 0 + q * m.pprod) % n = 0 :=
  Ymq.Crt.pprods_neg n logsize m hm hn q hq

/-- **`convolve_modn_ntt` is the cyclic convolution modulo `n`, end to end at word level.** For every modulus
`n > 0` of at most 512 bits (the code's `assert!(sz <= 8)`), every context built by the model of
`MultiZmodP::new(zn, logsize)` with `logsize ≤ 31`, every `size = 2^K` with `1 ≤ K ≤ logsize`
(`assert!(mzp.k >= logsize)`), operands `p1`, `p2` of at most `size` residues `< n` (the integers held by the
`MInt`s, i.e. Montgomery forms; given to the model as 8-word vectors), every `reslen`, `offset` and
`rinv`: the word-level model — root tables, `from_mint` of every coefficient written to its bit-reversed
position, two forward `ntt_inplace`, `mul`, the swap loop, inverse `ntt_inplace`, then for every output
`redc` = `_crt` (quotient estimate, column sums, carry assertion) + `zn.redc` — reaches no panic site and
returns `res[t] = (Σ_(a+b ≡ offset+t (mod size)) p1[a]·p2[b])·rinv mod n` for `offset + t < size` and `0` beyond:
with `rinv = R⁻¹ mod n` the Montgomery form of the schoolbook cyclic convolution coefficient, exactly as
`kronecker_cyclic_fft` states for `convolve_modn`. `V < P/2` at the `_crt` calls is proved from the operand
bounds (`crt_call_bound`), the CRT quotient is `crt_unique`, both `w = 1` and `w ≥ 2` are covered. -/
theorem convolve_modn_ntt_spec (n logsize : Nat) (m : Ymq.Crt.Mzp) (hm : Ymq.Crt.new n logsize = some m)
    (hn : 0 < n) (hbits : Ymq.Checked.bitlen n ≤ 512) (hL : logsize ≤ 31) (K : Nat) (h1 : 1 ≤ K)
    (hk : K ≤ logsize) (p1 p2 : List Nat) (hp1 : ∀ v ∈ p1, v < n) (hp2 : ∀ v ∈ p2, v < n)
    (l1 : p1.length ≤ 2 ^ K) (l2 : p2.length ≤ 2 ^ K) (rinv reslen offset : Nat) :
    ∃ rts res, Ymq.Crt.rootsPacked m = some rts ∧
      Ymq.Crt.convolveNtt m rts rinv (2 ^ K) (p1.map (Ymq.Limbs.ofNat 8)) (p2.map (Ymq.Limbs.ofNat 8))
        reslen offset = some res ∧ res.length = reslen ∧
      ∀ t, t < reslen → res.getD t 0 =
        if offset + t < 2 ^ K then
          cycCoef (2 ^ K) (fun a => p1.getD a 0) (fun a => p2.getD a 0) (offset + t) * rinv % n
        else 0 := by
  obtain ⟨rts, res, e1, e2, e3, e4⟩ := Ymq.Crt.convolveNtt_spec n logsize m hm hn hbits hL K h1 hk p1 p2 hp1 hp2
    l1 l2 rinv reslen offset
  refine ⟨rts, res, e1, e2, e3, fun t ht => ?_⟩
  rw [e4 t ht]
  unfold Ymq.Crt.cycNat cycCoef
  rw [Ymq.Kronecker.sumTo_eq]

/-- non-vacuity: `n = 1000003`, `logsize = 2`, size 4: `(1 + 2X + 3X²)(4 + 5X + 6X²) mod (X⁴ - 1)` -/
example : (Ymq.Crt.new 1000003 2).isSome = true ∧ Ymq.Checked.bitlen 1000003 ≤ 512 := by decide +kernel

end CrtSpecs

/-! ## The transform (stretch goal `dft_conv`) -/

section Transform
open Ymq.Dft

/-- **`dft_conv`.** In any commutative ring, for a root with `ω^(2^(k-1)) = -1` (a principal
`2^k`-th root of unity; `ω = 1` for `k = 0`) and `ω·ω' = 1`:
(1) the radix-2 recursion of `arith_fft::fft` / `MultiZmodP::ntt_inplace` (`fftRec`: transform even
and odd entries with `ω²`, twiddle the odd half by `ω^j`, butterfly) computes the DFT
`Σ_i f i·ω^(ij)`;
(2) transforming again with the inverse root gives `2^k·f` (the code's inverse direction divides by
`2^k`: `shr` / `div_pow2`);
(3) forward transforms, pointwise product, inverse transform = `2^k` times the cyclic convolution
(`mulfft`, `convolve_modn_ntt`).
This is the statement about the algebraic recursion; `fft_spec`/`mulfft_spec` instantiate it by the
word-level model of the Fermat transform (`root_half`: the code's twiddle root meets the hypothesis).
For `MultiZmodP::ntt_inplace` it is not instantiated down to words (`ntt_table_ok` gives the roots). -/
theorem dft_conv {R : Type*} [CommRing R] (k : Nat) (ω ω' : R)
    (hω : k = 0 ∨ ω ^ 2 ^ (k - 1) = -1) (h0 : k = 0 → ω = 1) (hinv : ω * ω' = 1) (f g : Nat → R) :
    (∀ j < 2 ^ k, fftRec k ω f j = dft (2 ^ k) ω f j) ∧
    (∀ m < 2 ^ k, dft (2 ^ k) ω' (dft (2 ^ k) ω f) m = (2 ^ k : R) * f m) ∧
    (∀ m < 2 ^ k, fftRec k ω' (fun j => fftRec k ω f j * fftRec k ω g j) m =
      (2 ^ k : R) * cyc (2 ^ k) f g m) :=
  ⟨fun j hj => fftRec_eq_dft k ω hω f j hj, fun m hm => dft_inverse k ω ω' hω hinv f m hm,
   fun m hm => fft_mul_eq_cyc k ω ω' hω h0 hinv f g m hm⟩

example : (1 = 0 ∨ (-1 : ℤ) ^ 2 ^ (1 - 1) = -1) ∧ (-1 : ℤ) * (-1) = 1 := by decide

end Transform

/-! ## Polynomial products: `_basic_mul`, `karatsuba`, `mul_karatsuba` -/

section Products
open Ymq.PolyMul Polynomial

/-- **`Poly::_basic_mul`, unequal lengths included.** For operands of ANY lengths `|p|, |q| ≥ 1`, any
`z` with `|z| ≥ |p| + |q| - 1` and ANY previous contents of `z`, the model of the double loop — with
the code's "first term" rule `i == 0 || j + 1 == q.len()` — reaches no panic site and leaves in `z`
the schoolbook product followed by zeros: as polynomials over any commutative ring image `φ` of the
coefficient operations, `poly(z') = poly(p)·poly(q)`. (A rule comparing `j + 1` with `p.len()`
instead of `q.len()` breaks this statement for `|p| ≠ |q|`.) -/
theorem basic_mul_spec {α R : Type} [CommRing R] {o : Ops α} {φ : α → R} (h : Hom o φ)
    (z p q : List α) (hp : 1 ≤ p.length) (hq : 1 ≤ q.length) (hz : p.length + q.length - 1 ≤ z.length) :
    ∃ z', basicMul o z p q = some z' ∧ z'.length = z.length ∧
      poly (z'.map φ) = poly (p.map φ) * poly (q.map φ) :=
  basicMul_spec h z p q hp hq hz

/-- **`Poly::karatsuba` equals the schoolbook product.** `karaOk f lp lq zl tl`
(Ymq/Model/PolyMul.lean, executable) says that for operand lengths `lp`, `lq`, `|z| = zl`, `|tmp| = tl`
and recursion fuel `f` no panic site is reached. On that domain the model — threshold 20, the
schoolbook fallback for unbalanced operands added by commit 5b13664, split point
`half = ⌈max(lp, lq)/2⌉`, sums `plo + phi`, `qlo + qhi` built in `tmp[2half..]`, middle product in
`tmp[..2half]` with `z` as scratch, low/high products in `z[..2half]`, `z[2half..]` with
`tmp[2half..]` as scratch, subtraction of the high product on its first `hilen` entries only,
final addition into `z[half..3half]` — returns `poly(z') = poly(p)·poly(q)`, whatever the buffers
contained before. -/
theorem karatsuba_spec {α R : Type} [CommRing R] {o : Ops α} {φ : α → R} (h : Hom o φ)
    (f : Nat) (z p q tmp : List α) (hok : karaOk f p.length q.length z.length tmp.length = true) :
    ∃ z' tmp', karatsuba o f z p q tmp = some (z', tmp') ∧ z'.length = z.length ∧
      tmp'.length = tmp.length ∧ poly (z'.map φ) = poly (p.map φ) * poly (q.map φ) :=
  Ymq.PolyMul.karatsuba_spec h f z p q tmp hok

/-- **the domain is everything**: after the fix EVERY pair of operand lengths `lp, lq ≥ 1` is
admitted as soon as `|z| ≥ lp + lq`, `|tmp| ≥ 3·max(lp, lq)` and the fuel covers
`max(lp, lq) ≤ 20·2^f` — in particular `lp < lq`, 64 × 40 (panic before the fix) and 43 × 22. -/
theorem karatsuba_domain :
    (∀ f lp lq zl tl, 1 ≤ lp → 1 ≤ lq → max lp lq ≤ 20 * 2 ^ f → lp + lq ≤ zl → 3 * max lp lq ≤ tl →
      karaOk (f + 1) lp lq zl tl = true) ∧
    karaOk 64 15 17 32 96 = true ∧ karaOk 64 31 33 64 192 = true ∧ karaOk 64 64 40 128 384 = true :=
  ⟨karaOk_total, by decide, by decide, by decide⟩

/-- **`Poly::mul_karatsuba`** for all lengths `1 ≤ |q| ≤ |p| ≤ 20·2^63` (its buffers are sized by
`|p|`): the schoolbook product padded to `2|p|` coefficients, over any commutative ring image of the
coefficient operations. -/
theorem mul_karatsuba_spec {α R : Type} [CommRing R] {o : Ops α} {φ : α → R} (h : Hom o φ)
    (p q : List α) (hl : q.length ≤ p.length) (h1 : 1 ≤ q.length) (h2 : p.length ≤ 20 * 2 ^ 63) :
    ∃ z', mulKaratsuba o p q = some z' ∧ z'.length = 2 * p.length ∧
      poly (z'.map φ) = poly (p.map φ) * poly (q.map φ) :=
  mulKaratsuba_spec h p q hl h1 h2

/-- the same for what the driver runs (`natOps n`, residues modulo `n > 0`): every coefficient of
the model's answer is congruent modulo `n` to the schoolbook coefficient `PolySpec.mulCoef`. -/
theorem mul_karatsuba_zmod (n : Nat) (hn : 0 < n) (p q : List Nat) (hl : q.length ≤ p.length)
    (h1 : 1 ≤ q.length) (h2 : p.length ≤ 20 * 2 ^ 63) :
    ∃ z', mulKaratsuba (natOps n) p q = some z' ∧ z'.length = 2 * p.length ∧
      ∀ k, ((z'.getD k 0 : ℕ) : ZMod n) =
        ((mulCoef (fun i => p.getD i 0) (fun i => q.getD i 0) k : ℕ) : ZMod n) := by
  obtain ⟨z', e, lz, hp⟩ := mulKaratsuba_spec (natOps_hom n hn) p q hl h1 h2
  refine ⟨z', e, lz, fun k => ?_⟩
  have := congrArg (fun P => P.coeff k) hp
  simp only [coeff_poly, coeff_poly_mul] at this
  rw [getD_map_hom (natOps_hom n hn)] at this
  simp only [getD_map_hom (natOps_hom n hn)] at this
  rw [show (natOps n).zero = 0 from rfl] at this
  rw [this]
  unfold mulCoef
  rw [Ymq.Kronecker.sumTo_eq]
  push_cast
  rfl

example : mulKaratsuba (natOps 7) [1, 2, 3] [1, 1, 1] = some [1, 3, 6, 5, 3, 0] := by decide

end Products

/-! ## Middle product and power series: `_middlemul`, `_inv_mod_xn`, `_div_mod_xn` -/

section Series
open Ymq.PolyMul Polynomial

/-- **`_middlemul` (Hanrot–Quercia–Zimmermann) is the middle slice of the product.** For `|q| = n`,
`1 ≤ n ≤ 2^f` (fuel `f + 1`), `|p| = 2n - 1`, `|z| ≥ n`, scratch `≥ mmNeed n` (the exact requirement of
the recursion: `2|p|` at every level) and an NTT context with `2n ≤ 2^k` if there is one, the model
reaches no panic site and output `i` is coefficient `n - 1 + i` of `p·q`, over any commutative ring
image of the coefficient operations — through `n = 1, 2`, the NTT shortcuts for `n` and `n - 1` a
power of two (`_fft_midmul` is the exact cyclic convolution: the NTT itself is covered by K/O,
`dft_conv`, `crt_*`), and the recursion `a - b`, `c + b`. -/
theorem middlemul_spec {α R : Type} [CommRing R] {o : Ops α} {φ : α → R} (h : Hom o φ) (c : Ctx)
    (f zlen : Nat) (p q : List α) (tmplen : Nat) (h1 : 1 ≤ q.length) (h2 : q.length ≤ 2 ^ f)
    (hp : p.length = 2 * q.length - 1) (hz : q.length ≤ zlen) (ht : mmNeed q.length ≤ tmplen)
    (hfit : Fits c q.length) :
    ∃ m, middlemul c o (f + 1) zlen p q tmplen = some m ∧ m.length = q.length ∧
      ∀ i, i < q.length →
        φ (m.getD i o.zero) = (poly (p.map φ) * poly (q.map φ)).coeff (q.length - 1 + i) :=
  Ymq.PolyMul.middlemul_spec h c f zlen p q tmplen h1 h2 hp hz ht hfit

/-- the public `Poly::middlemul` (scratch `2|p| + 16`) for `1 ≤ |q| ≤ 2^15`; the scratch bounds:
`mmNeed n ≤ 5n - 3` (what `_inv_mod_xn`/`_div_mod_xn` can offer) and `mmNeed n ≤ 4n + d` for
`n ≤ 2^(d+1)` -/
theorem middlemul_pub_spec {α R : Type} [CommRing R] {o : Ops α} {φ : α → R} (h : Hom o φ) (c : Ctx)
    (p q : List α) (h1 : 1 ≤ q.length) (h2 : q.length ≤ 2 ^ 15) (hp : p.length = 2 * q.length - 1)
    (hfit : Fits c q.length) :
    (∃ m, middlemulPub c o p q = some m ∧ m.length = q.length ∧
      ∀ i, i < q.length → φ (m.getD i o.zero) = (poly (p.map φ) * poly (q.map φ)).coeff (q.length - 1 + i)) ∧
    (∀ n, 3 ≤ n → mmNeed n ≤ 5 * n - 3) ∧ (∀ d n, n ≤ 2 ^ (d + 1) → mmNeed n ≤ 4 * n + d) :=
  ⟨middlemulPub_spec h c p q h1 h2 hp hfit, mmNeed_le, mmNeed_depth⟩

/-- **`_inv_mod_xn`: `p · z ≡ 1 (mod x^len)`** for every `1 ≤ len ≤ min(2^f, 2^62)` (fuel `f + 1`),
whenever `zn.inv(p[0])` succeeds, with scratch `≥ 4·len` and a large enough NTT context: no panic
site is reached. The model follows the code after commit f80a81f: base cases of length 1, 2, 3,
precision schedule `half_up = ⌈len/2⌉`, the `1 + xC` shortcut exactly under `z[0] == 1`,
`half_up ≥ 2`, `len = 2·half_up - 1`, `half_up - 1` a power of two, the general branch on the
zero-padded `p[1..]`, then the low product and the negation. -/
theorem inv_mod_xn_spec {α R : Type} [CommRing R] {o : Ops α} {φ : α → R} (h : HomE o φ) (c : Ctx)
    (f : Nat) (p : List α) (tmplen : Nat) (h1 : 1 ≤ p.length) (h2 : p.length ≤ 2 ^ f)
    (h62 : p.length ≤ 2 ^ 62) (ht : 4 * p.length ≤ tmplen) (hfit : Fits c (p.length - p.length / 2))
    (hinv : ∃ i, o.inv (p.getD 0 o.zero) = some i) :
    ∃ z, invModXn c o (f + 1) p tmplen = some z ∧ z.length = p.length ∧
      ∀ k, k < p.length → (poly (p.map φ) * poly (z.map φ)).coeff k = if k = 0 then 1 else 0 :=
  invModXn_spec h c (middleSpec_holds h.toHom c) f p tmplen h1 h2 h62 ht hfit hinv

/-- **`_div_mod_xn` / `Poly::div_mod_xn`: `q · z ≡ p (mod x^len)`** for equal lengths
`1 ≤ len ≤ 2^62`, whenever `zn.inv(q[0])` succeeds; the public wrapper's scratch `6·len` (after the
fix; `5·len` was one short for `len = 3`) always suffices. -/
theorem div_mod_xn_spec {α R : Type} [CommRing R] {o : Ops α} {φ : α → R} (h : HomE o φ) (c : Ctx)
    (p q : List α) (hl : p.length = q.length) (h1 : 1 ≤ q.length) (h62 : q.length ≤ 2 ^ 62)
    (hfit : Fits c (q.length - q.length / 2)) (hinv : ∃ i, o.inv (q.getD 0 o.zero) = some i) :
    ∃ z, divModXnPub c o p q = some z ∧ z.length = q.length ∧
      ∀ k, k < q.length → (poly (q.map φ) * poly (z.map φ)).coeff k = (poly (p.map φ)).coeff k := by
  unfold divModXnPub
  exact divModXn_spec h c (middleSpec_holds h.toHom c) p q (6 * p.length) hl h1 h62 (by omega)
    (fun _ => by omega) hfit hinv

/-- the same for what the driver runs (`natOps n`, `n > 0`; `invMod` is proved sound): the answer of
the model of `Poly::div_mod_xn` satisfies `Σ_{a ≤ k} q[a]·z[k-a] ≡ p[k] (mod n)` for every `k < len`. -/
theorem div_mod_xn_zmod (n : Nat) (hn : 0 < n) (c : Ctx) (p q : List Nat) (hl : p.length = q.length)
    (h1 : 1 ≤ q.length) (h62 : q.length ≤ 2 ^ 62) (hfit : Fits c (q.length - q.length / 2))
    (hinv : ∃ i, Ymq.PolySpec.invMod (q.getD 0 0) n = some i) :
    ∃ z, divModXnPub c (natOps n) p q = some z ∧ z.length = q.length ∧
      ∀ k, k < q.length →
        ((mulCoef (fun i => q.getD i 0) (fun i => z.getD i 0) k : ℕ) : ZMod n) = ((p.getD k 0 : ℕ) : ZMod n) := by
  obtain ⟨z, e, lz, hz⟩ := div_mod_xn_spec (natOps_homE n hn) c p q hl h1 h62 hfit hinv
  refine ⟨z, e, lz, fun k hk => ?_⟩
  have := hz k hk
  rw [coeff_poly_mul, coeff_poly] at this
  simp only [getD_map_hom (natOps_hom n hn)] at this
  rw [show (natOps n).zero = 0 from rfl] at this
  rw [← this]
  unfold mulCoef
  rw [Ymq.Kronecker.sumTo_eq]
  push_cast
  rfl

example : divModXnPub (Ctx.new 1) (natOps 7) [1, 0, 0, 0] [1, 1, 1, 1] = some [1, 6, 0, 0] ∧
    invModXn (Ctx.new 1) (natOps 7) FUEL [1, 1, 1, 1] 24 = some [1, 6, 0, 0] := by decide

end Series

/-! ## Product tree: `_product_tree`, `from_roots` -/

section Trees
open Ymq.PolyMul Polynomial

/-- **`Poly::_product_tree`**: for `|roots| ≥ 1` and `n = 2^bitlen(|roots| - 1) ≤ 2^62` leaves the model
reaches no panic site; the `logn + 1` layers form a chain (`Chain`: every node of layer `i + 1` is the
product of its two children in layer `i`; nodes of layer `i` are monic of degree `2^i`, given by
their low coefficients), built by the three merge forms of the code (`i = 1`, `i = 2` written out,
`_longmul` of the low parts plus `x^d(a + b)` above), and the top node is `x^(n-|roots|)·∏(x - r_i)`. -/
theorem product_tree_spec {α R : Type} [CommRing R] {o : Ops α} {φ : α → R} (h : Hom o φ) (c : Ctx)
    (roots : List α) (h1 : 1 ≤ roots.length) (h62 : Ymq.Checked.bitlen (roots.length - 1) ≤ 62)
    (hfit : Fits c (2 ^ Ymq.Checked.bitlen (roots.length - 1))) :
    ∃ layers, productTree c o roots = some layers ∧
      layers.length = Ymq.Checked.bitlen (roots.length - 1) + 1 ∧ Chain φ 1 layers ∧
      ∃ top, layers.getLast? = some [top] ∧ top.length = 2 ^ Ymq.Checked.bitlen (roots.length - 1) ∧
        mon φ top = rootsPoly φ roots * X ^ (2 ^ Ymq.Checked.bitlen (roots.length - 1) - roots.length) :=
  productTree_spec h c roots h1 h62 hfit

/-- **`Poly::from_roots(roots) = ∏ (x - r_i)`** (`rootsPoly`), `|roots| + 1` coefficients. -/
theorem from_roots_spec {α R : Type} [CommRing R] {o : Ops α} {φ : α → R} (h : Hom o φ) (c : Ctx)
    (roots : List α) (h1 : 1 ≤ roots.length) (h62 : Ymq.Checked.bitlen (roots.length - 1) ≤ 62)
    (hfit : Fits c (2 ^ Ymq.Checked.bitlen (roots.length - 1))) :
    ∃ z, fromRoots c o roots = some z ∧ z.length = roots.length + 1 ∧
      poly (z.map φ) = (roots.map fun r => X - C (φ r)).prod :=
  fromRoots_spec h c roots h1 h62 hfit

example : fromRoots (Ctx.new 1) (natOps 101) [1, 2, 3] = some [95, 11, 95, 1] := by decide

/-! ## Multipoint evaluation: `_multi_eval`, `multi_eval`, `roots_eval` -/

/-- **`Poly::_multi_eval(tree)` evaluates at the leaves of the tree** (Bernstein's scaled remainder
tree as coded: reversed inverse of the top node by `_inv_mod_xn`, one `_middlemul` per node on the way
down, the leaf rule). For any chain of layers with leaves `x + l_j`, top node of `n` low coefficients
(`n ≤ 2^61`, `layers.length = log₂ n + 1`) and `1 ≤ |p| ≤ n + 1`: no panic site is reached and
`vals[j] = p(-l_j)` for every leaf `j`. -/
theorem multi_eval_tree_spec {α R : Type} [CommRing R] [Nontrivial R] {o : Ops α} {φ : α → R}
    (h : HomE o φ) (c : Ctx) (p : List α) (layers : List (List (List α))) (top : List α)
    (hch : Chain φ 1 layers) (htop : layers.getLast? = some [top])
    (hlen : layers.length = top.length.log2 + 1) (hn1 : 1 ≤ top.length) (hn62 : top.length ≤ 2 ^ 61)
    (hp1 : 1 ≤ p.length) (hp2 : p.length ≤ top.length + 1)
    (hfit : Fits c (top.length / 2 + 1)) (hinv : ∃ i, o.inv o.one = some i) :
    ∃ vals, multiEvalTree c o p layers = some vals ∧ vals.length = (layers.getD 0 []).length ∧
      ∀ j, j < (layers.getD 0 []).length →
        φ (vals.getD j o.zero) =
          (poly (p.map φ)).eval (-(φ (((layers.getD 0 []).getD j []).getD 0 o.zero))) :=
  multiEvalTree_spec h c p layers top hch htop hlen hn1 hn62 hp1 hp2 hfit hinv

/-- **`Poly::multi_eval(a)[j] = p(a_j)`** for every point, in order, for `|p| ≥ 1`, `|a| ≥ 1`
(sizes up to `2^60`), a large enough NTT context (if one is used at all) and `zn.inv(1)` succeeding:
no panic site is reached (the `assert!` on the chunk sizes included). The model follows the code
after commit 6f9ca4a: chunk count and length, `a.chunks(chunklen)`, padding of a chunk shorter than
`deg p` with zero points, `_product_tree`, `_multi_eval`, `truncate`. -/
theorem multi_eval_spec {α R : Type} [CommRing R] [Nontrivial R] {o : Ops α} {φ : α → R}
    (h : HomE o φ) (c : Ctx) (p a : List α) (hp1 : 1 ≤ p.length) (ha1 : 1 ≤ a.length)
    (h61 : max a.length (p.length - 1) ≤ 2 ^ 60)
    (hfit : Fits c (2 * max a.length (p.length - 1))) (hinv : ∃ i, o.inv o.one = some i) :
    ∃ v, multiEval c o p a = some v ∧ v.length = a.length ∧
      ∀ j, j < a.length → φ (v.getD j o.zero) = (poly (p.map φ)).eval (φ (a.getD j o.zero)) :=
  multiEval_spec h c p a hp1 ha1 h61 hfit hinv

/-- what the driver runs: residues modulo a prime-or-not `n > 1`, ring context `PolyRing::new(zn, size)` -/
theorem multi_eval_zmod (n : Nat) (hn : 1 < n) (size : Nat) (p a : List Nat) (hp1 : 1 ≤ p.length)
    (ha1 : 1 ≤ a.length) (h61 : max a.length (p.length - 1) ≤ 2 ^ 60)
    (hsize : 2 * max a.length (p.length - 1) ≤ 2 ^ Ymq.Checked.bitlen (size - 1)) :
    ∃ v, multiEval (Ctx.new size) (natOps n) p a = some v ∧ v.length = a.length ∧
      ∀ j, j < a.length →
        ((v.getD j 0 : ℕ) : ZMod n) = (poly (p.map fun x => ((x : ℕ) : ZMod n))).eval ((a.getD j 0 : ℕ) : ZMod n) := by
  haveI : Fact (1 < n) := ⟨hn⟩
  exact multi_eval_spec (natOps_homE n (by omega)) (Ctx.new size) p a hp1 ha1 h61 (fits_new _ _ hsize)
    ⟨1, by
      show Ymq.PolySpec.invMod (1 % n) n = some 1
      rw [Nat.mod_eq_of_lt hn, invMod_one n hn, Nat.mod_eq_of_lt hn]⟩

example : multiEval (Ctx.new 4) (natOps 101) [1, 2, 3] [0, 1, 2, 3, 4] = some [1, 6, 17, 34, 57] := by decide

/-- **`Poly::roots_eval(a, b)[j] = ∏_i (b_j - a_i)`, branch `|a| < n`** (`n = 2^bitlen(|b| - 1)`, the size
of the tree over `b`; the ring context is the code's `PolyRing::new(zn, b.len())`): `from_roots(a)`,
then `_multi_eval` on the tree of `b`, `truncate(b.len())`. No panic site is reached.
The other branch is `roots_eval_spec` below. -/
theorem roots_eval_direct_spec {α R : Type} [CommRing R] [Nontrivial R] {o : Ops α} {φ : α → R}
    (h : HomE o φ) (a b : List α) (hb1 : 1 ≤ b.length) (ha1 : 1 ≤ a.length)
    (hb61 : Ymq.Checked.bitlen (b.length - 1) ≤ 61)
    (hab : a.length < 2 ^ Ymq.Checked.bitlen (b.length - 1)) (hinv : ∃ i, o.inv o.one = some i) :
    ∃ vals, rootsEval o a b = some vals ∧ vals.length = b.length ∧
      ∀ j, j < b.length →
        φ (vals.getD j o.zero) = (a.map fun r => φ (b.getD j o.zero) - φ r).prod :=
  rootsEval_direct_spec h a b hb1 ha1 hb61 hab hinv

example : rootsEval (natOps 101) [1, 2, 3] [0, 5, 7, 9] = some [95, 24, 19, 33] := by decide

/-- **`Poly::roots_eval(a, b)[j] = ∏_i (b_j - a_i)`, both branches**, for `|a| ≥ 1`, `2 ≤ |b| ≤ 2^61`,
over any coefficient operations whose `==` is equality of residues (`HomC`) and with `zn.inv(1)`
succeeding; no panic site is reached. For `|a| ≥ n = 2^bitlen(|b| - 1)` the model follows the code:
reversed top node of the tree over `b` with `revq[n]` left zero, `_inv_mod_xn` of it to `n + 1` terms,
`assert!(revq[0] == 1)`, `a.chunks(n)`, `from_roots` of every chunk, `resize`/conditional subtraction of
`Q`/`assert!`/`truncate`, and for every further chunk the three `_longmul`s (product, high half times
reversed inverse, quotient slice `quo[n-1 .. 2n-2]` times `Q`), the `debug_assert!` that the high
halves agree (PROVED to hold: `barrett_high`, the reversal argument), the subtraction of the low
halves; finally `_multi_eval` on the tree and `truncate(b.len())`.
`|b| = 1` (`n = 1`) is `roots_eval_unit_spec`; `roots_eval_full_spec` joins the two. -/
theorem roots_eval_spec {α R : Type} [CommRing R] [Nontrivial R] {o : Ops α} {φ : α → R}
    (h : HomC o φ) (a b : List α) (ha1 : 1 ≤ a.length) (hb2 : 2 ≤ b.length)
    (hb61 : Ymq.Checked.bitlen (b.length - 1) ≤ 61) (hinv : ∃ i, o.inv o.one = some i) :
    ∃ vals, rootsEval o a b = some vals ∧ vals.length = b.length ∧
      ∀ j, j < b.length →
        φ (vals.getD j o.zero) = (a.map fun r => φ (b.getD j o.zero) - φ r).prod := by
  rcases Nat.lt_or_ge a.length (2 ^ Ymq.Checked.bitlen (b.length - 1)) with hab | hab
  · exact rootsEval_direct_spec h.toHomE a b (by omega) ha1 hb61 hab hinv
  · exact rootsEval_long_spec h a b hb2 hb61 hab hinv

/-- the same for what the driver runs: residues modulo `n > 1` -/
theorem roots_eval_zmod (n : Nat) (hn : 1 < n) (a b : List Nat) (ha1 : 1 ≤ a.length) (hb2 : 2 ≤ b.length)
    (hb61 : Ymq.Checked.bitlen (b.length - 1) ≤ 61) :
    ∃ vals, rootsEval (natOps n) a b = some vals ∧ vals.length = b.length ∧
      ∀ j, j < b.length →
        ((vals.getD j 0 : ℕ) : ZMod n) = (a.map fun r => ((b.getD j 0 : ℕ) : ZMod n) - ((r : ℕ) : ZMod n)).prod := by
  haveI : Fact (1 < n) := ⟨hn⟩
  exact roots_eval_spec (natOps_homC n (by omega)) a b ha1 hb2 hb61
    ⟨1, by
      show Ymq.PolySpec.invMod (1 % n) n = some 1
      rw [Nat.mod_eq_of_lt hn, invMod_one n hn, Nat.mod_eq_of_lt hn]⟩

/-- **`Poly::roots_eval(a, [b])`: a single evaluation point.** The tree over `b` has size `n = 1`, so the code
always takes the chunked branch with chunks of one root: `revq = [1, 0]`, `_inv_mod_xn` returns `[1, -0]` by
its length-2 shortcut (no scratch needed: `tmp` has 6 entries), every round multiplies two constants by
`_longmul`, the quotient slice `quo[0..0]` is EMPTY, the third `_longmul` runs on an empty first operand
(`_basic_mul` zero-fills `z`), the `debug_assert!` compares `pp[1] = 0` with `pq[1] = 0`, and the result is
`pp[0] - 0`. The model reaches no panic site and returns `∏_i (b - a_i)`. -/
theorem roots_eval_unit_spec {α R : Type} [CommRing R] [Nontrivial R] {o : Ops α} {φ : α → R}
    (h : HomC o φ) (a : List α) (b0 : α) (ha1 : 1 ≤ a.length) (hinv : ∃ i, o.inv o.one = some i) :
    ∃ vals, rootsEval o a [b0] = some vals ∧ vals.length = 1 ∧
      φ (vals.getD 0 o.zero) = (a.map fun r => φ b0 - φ r).prod :=
  rootsEval_unit_spec h a b0 ha1 hinv

/-- **`Poly::roots_eval` for every `|a| ≥ 1`, `1 ≤ |b| ≤ 2^61`**: `roots_eval_spec` and `roots_eval_unit_spec`
together. -/
theorem roots_eval_full_spec {α R : Type} [CommRing R] [Nontrivial R] {o : Ops α} {φ : α → R}
    (h : HomC o φ) (a b : List α) (ha1 : 1 ≤ a.length) (hb1 : 1 ≤ b.length)
    (hb61 : Ymq.Checked.bitlen (b.length - 1) ≤ 61) (hinv : ∃ i, o.inv o.one = some i) :
    ∃ vals, rootsEval o a b = some vals ∧ vals.length = b.length ∧
      ∀ j, j < b.length →
        φ (vals.getD j o.zero) = (a.map fun r => φ (b.getD j o.zero) - φ r).prod := by
  rcases Nat.lt_or_ge b.length 2 with hb | hb
  · obtain ⟨b0, rfl⟩ : ∃ b0, b = [b0] := by
      match b, hb1, hb with
      | [b0], _, _ => exact ⟨b0, rfl⟩
    obtain ⟨vals, e, l, hv⟩ := rootsEval_unit_spec h a b0 ha1 hinv
    refine ⟨vals, e, l, fun j hj => ?_⟩
    have : j = 0 := by simpa using hj
    subst this
    simpa using hv
  · exact roots_eval_spec h a b ha1 hb hb61 hinv

/-- the same for what the driver runs with `natOps n` (`pf_roots_eval`) -/
theorem roots_eval_full_zmod (n : Nat) (hn : 1 < n) (a b : List Nat) (ha1 : 1 ≤ a.length) (hb1 : 1 ≤ b.length)
    (hb61 : Ymq.Checked.bitlen (b.length - 1) ≤ 61) :
    ∃ vals, rootsEval (natOps n) a b = some vals ∧ vals.length = b.length ∧
      ∀ j, j < b.length →
        ((vals.getD j 0 : ℕ) : ZMod n) = (a.map fun r => ((b.getD j 0 : ℕ) : ZMod n) - ((r : ℕ) : ZMod n)).prod := by
  haveI : Fact (1 < n) := ⟨hn⟩
  exact roots_eval_full_spec (natOps_homC n (by omega)) a b ha1 hb1 hb61
    ⟨1, by
      show Ymq.PolySpec.invMod (1 % n) n = some 1
      rw [Nat.mod_eq_of_lt hn, invMod_one n hn, Nat.mod_eq_of_lt hn]⟩

example : rootsEval (natOps 101) [1, 2, 3] [7] = some [19] := by decide

/-- the long branch on an instance: `|a| = 5 ≥ n = 2`, three chunks -/
example : rootsEval (natOps 101) [1, 2, 3, 4, 5] [7, 9] = some [13, 54] := by decide

end Trees

/-! ## The production path: Montgomery `ZmodN` operations and the word-level NTT inside arith_poly -/

section Production
open Ymq.PolyMul Polynomial

/-- **The Montgomery operations of `ZmodN` are an instance of the coefficient operations** of every
arith_poly theorem above: `montOps n kw rinv` (`mul a b = a·b·R⁻¹ mod n`, `one = R mod n`,
`inv a = a⁻¹·R² mod n`, `==` on residues; C07 proves that `ZmodN` computes these) maps to `ZMod n` by
`mphi x = x·R⁻¹` as a ring homomorphic image with sound `inv` and sound and complete `==` (`HomC`),
whenever `R·rinv ≡ 1 (mod n)`. So `karatsuba_spec`, `middlemul_spec`, `inv_mod_xn_spec`, `div_mod_xn_spec`,
`product_tree_spec`, `from_roots_spec`, `multi_eval_spec`, `roots_eval_spec` hold verbatim for the
operations the code runs, with values read out of their Montgomery forms. -/
theorem mont_ops_hom (n kw rinv : Nat) (hn : 0 < n) (hR : 2 ^ (64 * kw) * rinv % n = 1 % n) :
    HomC (montOps n kw rinv) (mphi n rinv) :=
  montOps_homC n kw rinv hn hR

/-- **The NTT branch of `_longmul` in the arith_poly models IS the word-level `convolve_modn_ntt`.** Under the
Montgomery operations, for operands of reduced residues, a context built by the model of
`MultiZmodP::new(zn, k)` (`k ≤ 31`, `n` of at most 512 bits) and `bitlen(deg p + deg q) ≤ k`, the list the
model `fftLongmul` writes (exact product coefficients, zero beyond `2^logsize`) equals, entry by entry, the
output of the word-level model of `convolve_modn_ntt(mzp, 2^logsize, p, q, z, 0)` — root tables,
`from_mint`, bit-reversed scatter, `ntt_inplace`, `mul`, swap loop, inverse transform, `_crt`, `zn.redc`
(`convolve_modn_ntt_spec`). This discharges the "exact convolution" assumption of the models at this call. -/
theorem fft_longmul_refines (n k : Nat) (m : Ymq.Crt.Mzp) (hm : Ymq.Crt.new n k = some m) (hn : 0 < n)
    (hbits : Ymq.Checked.bitlen n ≤ 512) (hk31 : k ≤ 31) (kw rinv zlen : Nat) (p q : List Nat)
    (hp1 : 1 ≤ p.length) (hq1 : 1 ≤ q.length) (hpq : 3 ≤ p.length + q.length)
    (hk : Ymq.Checked.bitlen (p.length - 1 + (q.length - 1)) ≤ k)
    (hpn : ∀ v ∈ p, v < n) (hqn : ∀ v ∈ q, v < n) :
    ∃ rts, Ymq.Crt.rootsPacked m = some rts ∧
      Ymq.Crt.convolveNtt m rts rinv (2 ^ Ymq.Checked.bitlen (p.length - 1 + (q.length - 1)))
        (p.map (Ymq.Limbs.ofNat 8)) (q.map (Ymq.Limbs.ofNat 8)) zlen 0 =
      fftLongmul k (montOps n kw rinv) zlen p q :=
  fftLongmul_refines n k m hm hn hbits hk31 kw rinv zlen p q hp1 hq1 hpq hk hpn hqn

/-- **The NTT branch of `_middlemul` (`_fft_midmul`) in the arith_poly models IS the word-level
`convolve_modn_ntt`** with `size = 2|q|`, `offset = |q| - 1` (`|q| = 2^e`, `e + 1 ≤ k`). -/
theorem fft_midmul_refines (n k : Nat) (m : Ymq.Crt.Mzp) (hm : Ymq.Crt.new n k = some m) (hn : 0 < n)
    (hbits : Ymq.Checked.bitlen n ≤ 512) (hk31 : k ≤ 31) (kw rinv zlen e : Nat) (p q : List Nat)
    (hq : q.length = 2 ^ e) (hp : p.length = 2 * q.length - 1) (he : e + 1 ≤ k)
    (hpn : ∀ v ∈ p, v < n) (hqn : ∀ v ∈ q, v < n) :
    ∃ rts, Ymq.Crt.rootsPacked m = some rts ∧
      Ymq.Crt.convolveNtt m rts rinv (2 * q.length) (p.map (Ymq.Limbs.ofNat 8)) (q.map (Ymq.Limbs.ofNat 8))
        zlen (q.length - 1) = fftMidmul k (montOps n kw rinv) zlen p q :=
  fftMidmul_refines n k m hm hn hbits hk31 kw rinv zlen e p q hq hp he hpn hqn

/-- **`Poly::mul_fft` / the production branch of `_longmul`, end to end in one statement.** For the Montgomery
operations, a ring context with NTT (`c.mzp = some k`, the `MultiZmodP` built by `new(zn, k)`), operands
`p`, `q` of reduced residues with `|p| + |q| ≥ 3` and `bitlen(deg p + deg q) ≤ k ≤ 31`: the model of
`Poly::mul_fft` reaches no panic site, its output is exactly the output of the word-level model of
`convolve_modn_ntt`, and read out of Montgomery form it is the polynomial product:
`mphi(z[i]) = (P·Q).coeff i` in `ZMod n`. -/
theorem mul_fft_end_to_end (n k : Nat) (m : Ymq.Crt.Mzp) (hm : Ymq.Crt.new n k = some m) (hn : 0 < n)
    (hbits : Ymq.Checked.bitlen n ≤ 512) (hk31 : k ≤ 31) (kw rinv : Nat)
    (hR : 2 ^ (64 * kw) * rinv % n = 1 % n) (c : Ctx) (hc : c.mzp = some k) (p q : List Nat)
    (hp1 : 1 ≤ p.length) (hq1 : 1 ≤ q.length) (hpq : 3 ≤ p.length + q.length)
    (hk : Ymq.Checked.bitlen (p.length - 1 + (q.length - 1)) ≤ k)
    (hpn : ∀ v ∈ p, v < n) (hqn : ∀ v ∈ q, v < n) :
    ∃ rts z, Ymq.Crt.rootsPacked m = some rts ∧ mulFft c (montOps n kw rinv) p q = some z ∧
      Ymq.Crt.convolveNtt m rts rinv (2 ^ Ymq.Checked.bitlen (p.length - 1 + (q.length - 1)))
        (p.map (Ymq.Limbs.ofNat 8)) (q.map (Ymq.Limbs.ofNat 8)) (p.length + q.length - 1) 0 = some z ∧
      z.length = p.length + q.length - 1 ∧
      ∀ i, i < p.length + q.length - 1 →
        mphi n rinv (z.getD i 0) = (poly (p.map (mphi n rinv)) * poly (q.map (mphi n rinv))).coeff i := by
  obtain ⟨rts, e1, e2⟩ := fftLongmul_refines n k m hm hn hbits hk31 kw rinv (p.length + q.length - 1) p q hp1 hq1
    hpq hk hpn hqn
  have hlt := bitlen_lt (p.length - 1 + (q.length - 1))
  obtain ⟨z, ez, lz, hz⟩ := fftLongmul_spec (montOps_homC n kw rinv hn hR).toHomE.toHom k
    (p.length + q.length - 1) p q hp1 hq1 hpq (by
      have : 2 ^ Ymq.Checked.bitlen (p.length - 1 + (q.length - 1)) ≤ 2 ^ k :=
        Nat.pow_le_pow_right (by decide) hk
      omega)
  refine ⟨rts, z, e1, ?_, by rw [e2, ez], lz, hz⟩
  unfold mulFft
  rw [hc]
  simp only
  rw [if_neg (by omega)]
  exact ez

/-- **`_longmul`, production branch, end to end** (`USE_FFT && p.len() >= FFT_THRESHOLD && zr.mzp.is_some()`):
as `mul_fft_end_to_end`, for any output length `zlen`. -/
theorem longmul_ntt_end_to_end (n k : Nat) (m : Ymq.Crt.Mzp) (hm : Ymq.Crt.new n k = some m) (hn : 0 < n)
    (hbits : Ymq.Checked.bitlen n ≤ 512) (hk31 : k ≤ 31) (kw rinv : Nat)
    (hR : 2 ^ (64 * kw) * rinv % n = 1 % n) (c : Ctx) (hc : c.mzp = some k) (zlen tmplen : Nat)
    (p q : List Nat) (hp28 : Ymq.Gen.Params.FFT_THRESHOLD ≤ p.length) (hq1 : 1 ≤ q.length)
    (hk : Ymq.Checked.bitlen (p.length - 1 + (q.length - 1)) ≤ k)
    (hpn : ∀ v ∈ p, v < n) (hqn : ∀ v ∈ q, v < n) :
    ∃ rts z, Ymq.Crt.rootsPacked m = some rts ∧ longmul c (montOps n kw rinv) zlen tmplen p q = some z ∧
      Ymq.Crt.convolveNtt m rts rinv (2 ^ Ymq.Checked.bitlen (p.length - 1 + (q.length - 1)))
        (p.map (Ymq.Limbs.ofNat 8)) (q.map (Ymq.Limbs.ofNat 8)) zlen 0 = some z ∧ z.length = zlen ∧
      ∀ i, i < zlen →
        mphi n rinv (z.getD i 0) = (poly (p.map (mphi n rinv)) * poly (q.map (mphi n rinv))).coeff i := by
  have h28 : 28 ≤ p.length := hp28
  obtain ⟨rts, e1, e2⟩ := fftLongmul_refines n k m hm hn hbits hk31 kw rinv zlen p q (by omega) hq1 (by omega)
    hk hpn hqn
  have hlt := bitlen_lt (p.length - 1 + (q.length - 1))
  obtain ⟨z, ez, lz, hz⟩ := fftLongmul_spec (montOps_homC n kw rinv hn hR).toHomE.toHom k zlen p q (by omega) hq1
    (by omega) (by
      have : 2 ^ Ymq.Checked.bitlen (p.length - 1 + (q.length - 1)) ≤ 2 ^ k :=
        Nat.pow_le_pow_right (by decide) hk
      omega)
  refine ⟨rts, z, e1, ?_, by rw [e2, ez], lz, hz⟩
  unfold longmul
  rw [hc]
  simp only
  rw [if_pos hp28]
  exact ez

/-- **`Poly::middlemul`, production branch (`|q| = 2^e ≥ FFT_THRESHOLD`), end to end in one statement.** For
the Montgomery operations, a ring context with NTT (`c.mzp = some k`, `e + 1 ≤ k ≤ 31`, the `MultiZmodP` of
`new(zn, k)`) and reduced operands with `|p| = 2|q| - 1`: the model of `Poly::middlemul` reaches no panic
site, its output is the (first `|q|` entries of the) output of the word-level model of
`convolve_modn_ntt(mzp, 2|q|, p, q, z, |q| - 1)`, and read out of Montgomery form it is the middle slice
`(P·Q).coeff(|q| - 1 + i)`. -/
theorem middlemul_ntt_end_to_end (n k : Nat) (m : Ymq.Crt.Mzp) (hm : Ymq.Crt.new n k = some m) (hn : 0 < n)
    (hbits : Ymq.Checked.bitlen n ≤ 512) (hk31 : k ≤ 31) (kw rinv : Nat)
    (hR : 2 ^ (64 * kw) * rinv % n = 1 % n) (c : Ctx) (hc : c.mzp = some k) (e : Nat) (p q : List Nat)
    (hq : q.length = 2 ^ e) (hq28 : Ymq.Gen.Params.FFT_THRESHOLD ≤ q.length) (hp : p.length = 2 * q.length - 1)
    (he : e + 1 ≤ k) (hpn : ∀ v ∈ p, v < n) (hqn : ∀ v ∈ q, v < n) :
    ∃ rts w, Ymq.Crt.rootsPacked m = some rts ∧
      Ymq.Crt.convolveNtt m rts rinv (2 * q.length) (p.map (Ymq.Limbs.ofNat 8)) (q.map (Ymq.Limbs.ofNat 8))
        q.length (q.length - 1) = some w ∧
      middlemulPub c (montOps n kw rinv) p q = some (w.take q.length) ∧ (w.take q.length).length = q.length ∧
      ∀ i, i < q.length → mphi n rinv ((w.take q.length).getD i 0) =
        (poly (p.map (mphi n rinv)) * poly (q.map (mphi n rinv))).coeff (q.length - 1 + i) := by
  have h28 : 28 ≤ q.length := hq28
  have hh := (montOps_homC n kw rinv hn hR).toHomE.toHom
  obtain ⟨rts, e1, e2⟩ := fftMidmul_refines n k m hm hn hbits hk31 kw rinv q.length e p q hq hp he hpn hqn
  have hpow : isPow2 q.length = true := by
    unfold isPow2; rw [hq, Nat.log2_two_pow]; simp
  have h2k : 2 * q.length ≤ 2 ^ k := by
    calc 2 * q.length = 2 ^ (e + 1) := by rw [hq, pow_succ]; ring
      _ ≤ 2 ^ k := Nat.pow_le_pow_right (by decide) he
  obtain ⟨z, ez, lz, hz⟩ := mm_pow2 hh k q.length p q hpow hp le_rfl h2k
  obtain ⟨w, ew⟩ : ∃ w, fftMidmul k (montOps n kw rinv) q.length p q = some w := by
    cases hf : fftMidmul k (montOps n kw rinv) q.length p q with
    | none => rw [hf] at ez; simp at ez
    | some w => exact ⟨w, rfl⟩
  have hzw : z = w.take q.length := by
    rw [ew] at ez; simpa using ez.symm
  refine ⟨rts, w, e1, by rw [e2, ew], ?_, by rw [← hzw]; exact lz, by rw [← hzw]; exact hz⟩
  unfold middlemulPub
  rw [if_neg (by omega), if_neg (by omega)]
  unfold FUEL middlemul
  rw [if_neg (by omega), if_neg (by omega), if_neg (by omega), if_neg (by omega), if_neg (by omega)]
  have hmode : mmMode c q.length = (1, k) := by
    unfold mmMode
    rw [hc]
    simp only
    rw [if_pos hq28, if_pos hpow]
  rw [hmode]
  simp only
  rw [ew]
  rfl

/-- the public routines on the operations the code runs: `Poly::div_mod_xn` under the Montgomery operations
(`q·z ≡ p (mod x^len)` read out of Montgomery form), any ring context -/
theorem div_mod_xn_mont (n kw rinv : Nat) (hn : 0 < n) (hR : 2 ^ (64 * kw) * rinv % n = 1 % n) (c : Ctx)
    (p q : List Nat) (hl : p.length = q.length) (h1 : 1 ≤ q.length) (h62 : q.length ≤ 2 ^ 62)
    (hfit : Fits c (q.length - q.length / 2))
    (hinv : ∃ i, (montOps n kw rinv).inv (q.getD 0 0) = some i) :
    ∃ z, divModXnPub c (montOps n kw rinv) p q = some z ∧ z.length = q.length ∧
      ∀ k, k < q.length →
        (poly (q.map (mphi n rinv)) * poly (z.map (mphi n rinv))).coeff k = (poly (p.map (mphi n rinv))).coeff k :=
  div_mod_xn_spec (montOps_homC n kw rinv hn hR).toHomE c p q hl h1 h62 hfit hinv

/-- `Poly::multi_eval` under the Montgomery operations: the values of `p` at all points -/
theorem multi_eval_mont (n kw rinv : Nat) (hn : 1 < n) (hR : 2 ^ (64 * kw) * rinv % n = 1 % n) (c : Ctx)
    (p a : List Nat) (hp1 : 1 ≤ p.length) (ha1 : 1 ≤ a.length) (h61 : max a.length (p.length - 1) ≤ 2 ^ 60)
    (hfit : Fits c (2 * max a.length (p.length - 1)))
    (hinv : ∃ i, (montOps n kw rinv).inv (montOps n kw rinv).one = some i) :
    ∃ v, multiEval c (montOps n kw rinv) p a = some v ∧ v.length = a.length ∧
      ∀ j, j < a.length →
        mphi n rinv (v.getD j 0) = (poly (p.map (mphi n rinv))).eval (mphi n rinv (a.getD j 0)) := by
  haveI : Fact (1 < n) := ⟨hn⟩
  exact multi_eval_spec (montOps_homC n kw rinv (by omega) hR).toHomE c p a hp1 ha1 h61 hfit hinv

/-- `Poly::roots_eval` under the Montgomery operations: `∏_i (b_j - a_i)`, both branches -/
theorem roots_eval_mont (n kw rinv : Nat) (hn : 1 < n) (hR : 2 ^ (64 * kw) * rinv % n = 1 % n)
    (a b : List Nat) (ha1 : 1 ≤ a.length) (hb2 : 2 ≤ b.length) (hb61 : Ymq.Checked.bitlen (b.length - 1) ≤ 61)
    (hinv : ∃ i, (montOps n kw rinv).inv (montOps n kw rinv).one = some i) :
    ∃ vals, rootsEval (montOps n kw rinv) a b = some vals ∧ vals.length = b.length ∧
      ∀ j, j < b.length →
        mphi n rinv (vals.getD j 0) = (a.map fun r => mphi n rinv (b.getD j 0) - mphi n rinv r).prod := by
  haveI : Fact (1 < n) := ⟨hn⟩
  exact roots_eval_spec (montOps_homC n kw rinv (by omega) hR) a b ha1 hb2 hb61 hinv

/-- **The Montgomery operations on reduced residues** (`montFin : Ops (Fin n)`: the same operations as `montOps`,
on the type of integers `< n` — `MInt`s are reduced by construction, here by typing) are an instance of the
coefficient operations of every arith_poly theorem (`HomC`, `x ↦ x·R⁻¹`). -/
theorem mont_fin_hom (n kw rinv : Nat) (hn : 0 < n) (hR : 2 ^ (64 * kw) * rinv % n = 1 % n) :
    HomC (montFin n kw rinv hn) (fun x => mphi n rinv x.val) :=
  montFin_homC n kw rinv hn hR

/-- **The production path of arith_poly, end to end: the exact product step of the models IS the code's
`_fft_longmul` over the word-level `convolve_modn_ntt`, ON EVERY INPUT.** For the Montgomery operations on
reduced residues, `n > 0` of at most 512 bits, `k ≤ 31`, the `MultiZmodP` built by the model of `new(zn, k)`
and its root tables: for ALL output lengths and ALL operand lists (no size or shape hypothesis: when the
code's checks fail — empty operand, `logsize = 0`, `mzp.k < logsize` — both sides are the same panic),
`fftLongmul k montFin zlen p q`, the step every arith_poly model calls on the NTT branch of `_longmul`, equals
`wordLongmul` = `_fft_longmul` as coded over the word-level model of `convolve_modn_ntt`
(`convolve_modn_ntt_spec`). Since the two functions are extensionally equal, every theorem about a model that
calls this step (`_longmul` in `mergeMonic`/`_product_tree`/`from_roots`, the Newton steps of `_inv_mod_xn`/
`_div_mod_xn`, the Barrett loop of `roots_eval`), instantiated at `montFin` by `mont_fin_hom`, is a theorem
about the composition with the word-level transform: the production path is covered without any assumption
on the NTT. -/
theorem fft_longmul_word_eq (n kw rinv : Nat) (hn : 0 < n) (k : Nat) (m : Ymq.Crt.Mzp)
    (hm : Ymq.Crt.new n k = some m) (hbits : Ymq.Checked.bitlen n ≤ 512) (hk31 : k ≤ 31)
    (rts : List (List (List Nat))) (hrts : Ymq.Crt.rootsPacked m = some rts) (zlen : Nat) (p q : List (Fin n)) :
    (fftLongmul k (montFin n kw rinv hn) zlen p q).map (·.map Fin.val) =
      wordLongmul m rts rinv zlen (p.map Fin.val) (q.map Fin.val) :=
  fftLongmul_word_eq k m hm hbits hk31 rts hrts zlen p q

/-- **The same for the middle-product step**: `fftMidmul k montFin zlen p q`, called by the models on both NTT
shortcuts of `_middlemul` (hence inside `_inv_mod_xn`, `_div_mod_xn`, `_multi_eval`, `multi_eval`,
`roots_eval`), equals on every input `wordMidmul` = `_fft_midmul` as coded (`assert!` on the power of two
and on `|p| = 2|q| - 1`, `convolve_modn_ntt(mzp, 2|q|, p, q, z, |q| - 1)`) over the word-level model. -/
theorem fft_midmul_word_eq (n kw rinv : Nat) (hn : 0 < n) (k : Nat) (m : Ymq.Crt.Mzp)
    (hm : Ymq.Crt.new n k = some m) (hbits : Ymq.Checked.bitlen n ≤ 512) (hk31 : k ≤ 31)
    (rts : List (List (List Nat))) (hrts : Ymq.Crt.rootsPacked m = some rts) (zlen : Nat) (p q : List (Fin n)) :
    (fftMidmul k (montFin n kw rinv hn) zlen p q).map (·.map Fin.val) =
      wordMidmul m rts rinv zlen (p.map Fin.val) (q.map Fin.val) :=
  fftMidmul_word_eq k m hm hbits hk31 rts hrts zlen p q

/-- `Poly::roots_eval` under the Montgomery operations (`pfm_roots_eval`), every `|b| ≥ 1` -/
theorem roots_eval_full_mont (n kw rinv : Nat) (hn : 1 < n) (hR : 2 ^ (64 * kw) * rinv % n = 1 % n)
    (a b : List Nat) (ha1 : 1 ≤ a.length) (hb1 : 1 ≤ b.length) (hb61 : Ymq.Checked.bitlen (b.length - 1) ≤ 61)
    (hinv : ∃ i, (montOps n kw rinv).inv (montOps n kw rinv).one = some i) :
    ∃ vals, rootsEval (montOps n kw rinv) a b = some vals ∧ vals.length = b.length ∧
      ∀ j, j < b.length →
        mphi n rinv (vals.getD j 0) = (a.map fun r => mphi n rinv (b.getD j 0) - mphi n rinv r).prod := by
  haveI : Fact (1 < n) := ⟨hn⟩
  exact roots_eval_full_spec (montOps_homC n kw rinv (by omega) hR) a b ha1 hb1 hb61 hinv

end Production

end Ymq.C10
