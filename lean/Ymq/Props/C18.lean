/-
C18 — "a reported class group is the true class group": the part that can be proved.

PARTIAL BY NATURE. The class number reported by `classgroup::classgroup` is a divisor of a gcd
of determinants selected by an analytic estimate (`estimate`: a truncated Euler product in f64),
and the relations come from a sieve whose correctness rests on the theory of composition of
binary quadratic forms. "The estimate brackets h" is not a theorem here; it is explored by the
correspondence/oracle runs of props/c18.py (independent reduced-form counts). "A sieved relation
is a genuine relation" is proved in Ymq/Props/C18Forms.lean (`relation_genuine`: the prime forms of
the entries of a relation built by `relationOf` compose, by explicit Dirichlet compositions, to the
principal form); that composition is well defined on classes (Gauss) is not formalised, and every
line of relations.sieve of the sampled runs is still re-checked by independent form arithmetic.
`classgroup::legendre` is in Ymq/Props/C18Legendre.lean. Ymq/Props/C18Group.lean: the driver's form arithmetic
(`Form.compose`, `Form.reduce`) is Gauss composition / reduction, the reduced form of a class is unique (so
`classNumber` counts classes), `hprim` of `relation_genuine` from the conductor rejection, `emit_hom` composed with
`relation_genuine` (`emitted_relations_genuine`).
What IS proved in this file, for all inputs, about the models of Ymq/Model/ClassGroup.lean:

* `b_plus_unique`, `bPlus_spec_odd`, `bPlus_spec_even`: the documented sign convention is well
  defined (exactly one normalised root per prime) and `Prime::b_plus` returns it;
* `sign_total`, `sign_exclusive`, `large_sign_consistent`, `poly_factors_total`: the sign
  decision of `sieve_block_poly` / `Poly::factors` is total (no `debug_assert!` can fire),
  exclusive, and the parity rule for large primes is the same convention;
* `store_total`, `complete_relations_emitted`: the store never panics on well-formed histories
  (recursion of `update_tree` terminates within the model's fuel) and never loses a complete relation;
* `relation_no_panic`: no panic site of the relation construction is reachable on its domain;
* `emitted_subset_inputs`, `emit_hom`: for every history of `CRelationSet::add` calls the
  emitted relations are relations that were added; hence every homomorphism that kills the sieved
  relations kills every emitted relation (every line of relations.sieve, `relLine_val`);
* `filter_hom`: the relation filter before the linear algebra only derives consequences of its input;
* `reduced_enum_*`, `reduced_enum`: the reference enumeration of reduced primitive forms is exact.
  That this number IS the class number (Gauss) is the *definition* of `classNumber`, a named
  classical fact that is not proved here;
* `invariants_multiply`, `invariantsOk_spec`: the reported cyclic factors multiply to the reported
  class number whenever the Smith diagonal does (property C19).
-/
import Ymq.Lemmas.ClassGroupStore
import Ymq.Lemmas.ClassGroupForms
import Ymq.Lemmas.ClassGroupSign
import Ymq.Lemmas.ClassGroupRel
import Ymq.Lemmas.ClassGroupTotal
import Ymq.Lemmas.ClassGroupFilter
import Mathlib.Algebra.BigOperators.Group.List.Basic
import Mathlib.Algebra.Group.Basic
import Mathlib.Data.Finset.Card
import Mathlib.Data.List.Basic

namespace Ymq.C18
open Ymq.ClassGroup

/-! ### sign convention -/

/-- For every prime `p` (2 included) and every `D` there is at most one normalised root `b`:
`0 ≤ b ≤ p`, `b ≡ D (mod 2)`, `b² ≡ D (mod 4p)`. This is what makes "the prime form `[p]`" and
hence the sign of an exponent in a relation line well defined. -/
theorem b_plus_unique (D : Int) (p b b' : Nat) (hp : p.Prime) (h : IsBPlus D p b)
    (h' : IsBPlus D p b') : b = b' :=
  isBPlus_unique hp h h'

/-- For an odd `p` and `0 < r < p`, exactly one of the two square roots `r`, `p - r` is odd (and
exactly one is even): the parity requirement selects one of them. -/
theorem parity_exactly_one (p r : Nat) (hodd : p % 2 = 1) (h0 : 0 < r) (hr : r < p) :
    (r % 2 = 1 ∧ (p - r) % 2 = 0) ∨ (r % 2 = 0 ∧ (p - r) % 2 = 1) := by omega

/-- `Prime::b_plus(false)` (odd discriminant `D ≡ 1 mod 4`, odd prime `p`, stored root `r < p` with
`r² ≡ D mod p`, `r = 0` when `p ∣ D`): the code returns the normalised root — one of `r`, `p - r`,
the one that is odd (`p` itself when `r = 0`). -/
theorem bPlus_spec_odd (D : Int) (p r : Nat) (hodd : p % 2 = 1) (hr : r < p) (hD : D % 4 = 1)
    (hroot : (p : Int) ∣ (r : Int) * r - D) :
    ∃ b, bPlus p r false = some b ∧ IsBPlus D p b ∧ (b = r ∨ b = p - r) := by
  obtain ⟨b, hb, hB⟩ := bPlus_odd hodd hr hD hroot
  refine ⟨b, hb, hB, ?_⟩
  unfold bPlus at hb
  simp only [Bool.false_eq_true, if_false] at hb
  split at hb
  · left; simpa using hb.symm
  · split at hb
    · right; simpa using hb.symm
    · simp at hb

/-- `Prime::b_plus(true)` (discriminant `4N`, the factor base was built for `N`: `r² ≡ N mod p`):
the code returns the normalised root for `4N`, the even one of `2r mod p`, `p - (2r mod p)`. -/
theorem bPlus_spec_even (N : Int) (p r : Nat) (hodd : p % 2 = 1)
    (hroot : (p : Int) ∣ (r : Int) * r - N) :
    ∃ b, bPlus p r true = some b ∧ IsBPlus (4 * N) p b ∧ (b = 2 * r % p ∨ b = p - 2 * r % p) := by
  obtain ⟨b, hb, hB⟩ := bPlus_even hodd hroot
  refine ⟨b, hb, hB, ?_⟩
  unfold bPlus at hb
  simp only [if_true] at hb
  split at hb
  · left; simpa using hb.symm
  · split at hb
    · right; simpa using hb.symm
    · simp at hb

/-- Totality of the sign decision: `p` an odd prime of the factor base with normalised root `ref`,
`bx² ≡ D (mod p)` (which holds because `bx² - 4AV = D` and `p ∣ V`): the value compared is `ref`
or `p - ref`, so the `debug_assert!` of `sieve_block_poly` cannot fire and the exponent is `±e`,
positive exactly when `bx mod p = b_plus`. -/
theorem sign_total (D : Int) (p ref : Nat) (bx : Int) (e : Nat) (hp : p.Prime)
    (href : IsBPlus D p ref) (hbx : (p : Int) ∣ bx * bx - D) :
    (modSigned bx p = ref ∧ signedExp p ref bx e = some (e : Int)) ∨
    (modSigned bx p ≠ ref ∧ modSigned bx p = p - ref ∧ signedExp p ref bx e = some (-(e : Int))) := by
  unfold signedExp
  simp only
  rcases modSigned_cases hp href hbx with h | h
  · left; exact ⟨h, by rw [if_pos h]⟩
  · by_cases h' : modSigned bx p = ref
    · left; exact ⟨h', by rw [if_pos h']⟩
    · right; exact ⟨h', h, by rw [if_neg h', if_pos h]⟩

/-- For an odd prime the two outcomes of the comparison exclude each other (`b_plus ≠ p - b_plus`),
whether or not `p` divides `D`. -/
theorem sign_exclusive (p ref : Nat) (hodd : p % 2 = 1) (hle : ref ≤ p) : ref ≠ p - ref :=
  ref_ne_compl hodd hle

/-- The parity rule applied to large primes is the same convention as the comparison with
`b_plus` applied to factor-base primes (`type1` = even discriminant `4N`). -/
theorem large_sign_consistent (D : Int) (p ref : Nat) (bx : Int) (type1 : Bool) (hp : p.Prime)
    (hodd : p % 2 = 1) (href : IsBPlus D p ref) (hbx : (p : Int) ∣ bx * bx - D)
    (hty : type1 = true ↔ (2 : Int) ∣ D) :
    largeSign type1 bx p = 1 ↔ modSigned bx p = ref :=
  largeSign_iff hp hodd href hbx hty

/-- `Poly::factors` is total on its domain, both polynomial types: every prime `(p, r)` of `A` is a
prime whose stored root gives the normalised root `ref` (`bPlus_spec_odd` / `bPlus_spec_even`), the
coefficient satisfies `B ≥ 0` and `y² ≡ D (mod p)` for `y = 2B` (type 1, `D = 4N`) resp. `y = B`
(type 2) — which holds because `p ∣ A`. No `debug_assert!` fires and every sign is `±1`. -/
theorem poly_factors_total (D : Int) (type1 : Bool) (b : Int) (hb : 0 ≤ b) (afs : List (Nat × Nat))
    (h : ∀ pr ∈ afs, pr.1.Prime ∧ (∃ ref, bPlus pr.1 pr.2 type1 = some ref ∧ IsBPlus D pr.1 ref) ∧
      ((pr.1 : Int) ∣ (if type1 then 2 * b else b) * (if type1 then 2 * b else b) - D)) :
    ∃ l, polyFactors type1 b afs = some l ∧ l.map Prod.fst = afs.map Prod.fst ∧
      ∀ x ∈ l, x.2 = 1 ∨ x.2 = -1 :=
  polyFactors_ok hb afs h

/-- The whole relation construction of `sieve_block_poly` (evaluation, `cofactor` trial division,
conversion loop, `Poly::factors`, large primes) reaches no panic site: for a positive definite
polynomial (`A > 0`, `B ≥ 0`) whose form has discriminant `D < 0`, candidate primes that are 2,
conductor primes or factor-base primes with a correct root, and primes of `A` with correct roots.
(`bx² - 4 A P(x) = D` is proved inside: `polyEval_disc`.) -/
theorem relation_no_panic (D : Int) (type1 : Bool) (a b c x : Int) (maxprime maxlarge : Nat)
    (double : Bool) (conductor : List Nat) (fb : List (Nat × Nat)) (facs : List Nat)
    (afs : List (Nat × Nat)) (lp lq : Nat)
    (ha : 0 < a) (hb : 0 ≤ b) (hdisc : polyDisc type1 a b c = D) (hD : D < 0)
    (hfacs : ∀ p ∈ facs, FbOk D type1 conductor fb p)
    (hafs : ∀ pr ∈ afs, pr.1.Prime ∧ ((pr.1 : Int) ∣ a) ∧
      ∃ ref, bPlus pr.1 pr.2 type1 = some ref ∧ IsBPlus D pr.1 ref) :
    relationOf type1 a b c x maxprime maxlarge double conductor fb facs afs lp lq ≠ .panic :=
  relationOf_ne_panic D type1 a b c x maxprime maxlarge double conductor fb facs afs lp lq
    ha hb hdisc hD hfacs hafs

/-! ### the relation store -/

/-- For every history of `add` calls (complete relations, partials, double partials; cycles of
any length in the large prime graph; whatever the fuel), every relation the store has emitted is
one of the relations that were added. The store never combines or alters relations. -/
theorem emitted_subset_inputs (maxlarge : Nat) (rs : List Rel) (s : CSet)
    (h : run { maxlarge := maxlarge } rs = some s) : ∀ r ∈ s.emitted, r ∈ rs := by
  have inv : StoreInv rs s := by
    apply run_inv rs _ s h
    · exact ⟨by simp, by simp⟩
    · exact fun r hr => hr
  intro r hr
  exact inv.1 r (by simpa [CSet.emitted] using hr)

/-- Nothing is lost: every complete relation (no large prime) handed to `add` is among the emitted
relations at the end of the history. -/
theorem complete_relations_emitted (maxlarge : Nat) (rs : List Rel) (s : CSet)
    (h : run { maxlarge := maxlarge } rs = some s) :
    ∀ r ∈ rs, r.large1 = none → r.large2 = none → r ∈ s.emitted := by
  intro r hr h1 h2
  have := run_complete rs _ s h r hr h1 h2
  simpa [CSet.emitted] using this

/-- The relation store is total: for every history of relations whose large primes are below
`u32::MAX` (the sieve only accepts large primes below 2^32 that are prime, so never 2^32 - 1) and
distinct within a relation (`assert!(p != q)`), no panic site of `add` / `add_path` /
`update_tree` is reached — `paths.get(&p).unwrap()` is always defined and the recursion of
`update_tree` ends within the fuel of the model (so the fuel is not an artefact). -/
theorem store_total (maxlarge : Nat) (rs : List Rel) (h : ∀ r ∈ rs, RelOk r) :
    ∃ s, run { maxlarge := maxlarge } rs = some s :=
  run_some rs _ (by intro v hv; simp [verts] at hv) h

/-- value of a relation under an assignment `g` of group elements to primes (factor base primes
and large primes alike): `Σ e • g p` -/
def relVal {G : Type*} [AddCommGroup G] (g : Nat → G) (r : Rel) : G :=
  (r.factors.map fun pe => pe.2 • g pe.1).sum
    + (match r.large1 with | some pe => pe.2 • g pe.1 | none => 0)
    + (match r.large2 with | some pe => pe.2 • g pe.1 | none => 0)

/-- `emit_hom`: let `G` be any abelian group and `g` any assignment of elements of `G` to primes
(e.g. `p ↦` class of the prime form `[p]`). If the induced additive map kills every INPUT relation
(every relation the sieve handed to `add`), it kills every relation EMITTED by the store, for all
histories. Triviality of the lines of relations.sieve is inherited from the sieved relations. -/
theorem emit_hom {G : Type*} [AddCommGroup G] (g : Nat → G) (maxlarge : Nat) (rs : List Rel)
    (s : CSet) (h : run { maxlarge := maxlarge } rs = some s)
    (hin : ∀ r ∈ rs, relVal g r = 0) : ∀ r ∈ s.emitted, relVal g r = 0 :=
  fun r hr => hin r (emitted_subset_inputs maxlarge rs s h r hr)

/-- the same for an arbitrary map on relations (no additivity needed) -/
theorem emit_hom_map {β : Type*} (φ : Rel → β) (z : β) (maxlarge : Nat) (rs : List Rel) (s : CSet)
    (h : run { maxlarge := maxlarge } rs = some s)
    (hin : ∀ r ∈ rs, φ r = z) : ∀ r ∈ s.emitted, φ r = z :=
  fun r hr => hin r (emitted_subset_inputs maxlarge rs s h r hr)

/-- value of a text line of relations.sieve: `p` stands for `g p`, `-p` for `-g p` -/
def lineVal {G : Type*} [AddCommGroup G] (g : Nat → G) (l : List Int) : G :=
  (l.map fun x => if x > 0 then g x.natAbs else -g x.natAbs).sum

theorem lineVal_append {G : Type*} [AddCommGroup G] (g : Nat → G) (l l' : List Int) :
    lineVal g (l ++ l') = lineVal g l + lineVal g l' := by
  simp [lineVal]

theorem lineVal_one {G : Type*} [AddCommGroup G] (g : Nat → G) (pe : Nat × Int) (hp : 0 < pe.1) :
    lineVal g (List.replicate pe.2.natAbs (if pe.2 > 0 then (pe.1 : Int) else -(pe.1 : Int)))
      = pe.2 • g pe.1 := by
  obtain ⟨p, e⟩ := pe
  simp only at hp ⊢
  simp only [lineVal, List.map_replicate, List.sum_replicate]
  by_cases he : e > 0
  · have hpos : ((p : Int) > 0) := by exact_mod_cast hp
    simp only [if_pos he, if_pos hpos, Int.natAbs_natCast]
    rw [← natCast_zsmul]
    congr 1
    omega
  · have hneg : ¬ (-(p : Int) > 0) := by omega
    simp only [if_neg he, if_neg hneg, Int.natAbs_neg, Int.natAbs_natCast]
    rw [smul_neg, ← natCast_zsmul, ← neg_smul]
    congr 1
    omega

/-- The line written to relations.sieve for a relation has the value of the relation (primes are
positive): the text format loses nothing. -/
theorem relLine_val {G : Type*} [AddCommGroup G] (g : Nat → G) (r : Rel)
    (hf : ∀ pe ∈ r.factors, 0 < pe.1) (h1 : ∀ pe, r.large1 = some pe → 0 < pe.1)
    (h2 : ∀ pe, r.large2 = some pe → 0 < pe.1) :
    lineVal g (relLine r) = relVal g r := by
  unfold relLine relVal
  simp only [lineVal_append]
  congr 1
  · congr 1
    · -- factors
      have : ∀ l : List (Nat × Int), (∀ pe ∈ l, 0 < pe.1) →
          lineVal g (l.flatMap fun pe => List.replicate pe.2.natAbs
            (if pe.2 > 0 then (pe.1 : Int) else -(pe.1 : Int))) = (l.map fun pe => pe.2 • g pe.1).sum := by
        intro l
        induction l with
        | nil => intro _; simp [lineVal]
        | cons x t ih =>
          intro hl
          rw [List.flatMap_cons, lineVal_append, List.map_cons, List.sum_cons,
            ih (fun pe hpe => hl pe (List.mem_cons_of_mem _ hpe)),
            lineVal_one g x (hl x List.mem_cons_self)]
      exact this r.factors hf
    · cases h : r.large1 with
      | none => simp [lineVal]
      | some pe => exact lineVal_one g pe (h1 pe h)
  · cases h : r.large2 with
    | none => simp [lineVal]
    | some pe => exact lineVal_one g pe (h2 pe h)

/-! ### the relation filter (`RelFilterSparse`) -/

open Ymq.ClassGroup.Filter in
/-- `filter_hom`: soundness of the relation filter that precedes the linear algebra
(`RelFilterSparse::{new, pivot_one, pivot, rowsub, trim, remove_duplicates}` driven by the loop of
`group_structure_dense`). Whatever pivots are chosen, whatever is trimmed, wherever an `i32`
overflow stops the elimination: if the assignment `g` of elements of an abelian group to primes
kills every relation handed to the filter, then it kills every row the filter keeps
(relations.filtered) and every saved relation `p = ∏ l^e` holds (`g p = Σ e • g l`,
relations.removed). The filter only derives consequences of its input; it cannot introduce a
false relation. (Nothing is claimed about completeness: `trim` discards rows on purpose.) -/
theorem filter_hom {G : Type*} [AddCommGroup G] (g : Nat → G) (rels : List Rel) (s : FSt) (dups : Nat)
    (h : filterDense rels = some (s, dups)) (hin : ∀ r ∈ rels, relVal g r = 0) :
    (∀ row ∈ s.rows, rowVal g row = 0) ∧ (∀ pr ∈ s.removed, g pr.1 = rowVal g pr.2) := by
  have h0 : FInv g (FSt.new rels) := by
    apply new_inv
    intro r hr
    have := hin r hr
    obtain ⟨fs, l1, l2⟩ := r
    cases l1 <;> cases l2 <;>
      simp only [relVal, relRow, rowVal, List.map_append, List.sum_append, List.map_cons, List.map_nil,
        List.sum_cons, List.sum_nil, List.append_nil, add_zero] at this ⊢ <;> exact this
  unfold filterDense at h
  simp only at h
  split at h
  · simp at h
  · rename_i s1 hs1
    have h1 := filterLoop_inv _ _ s1 h0 hs1
    have h2 := removeDuplicates_inv h1
    simp only [Option.some.injEq] at h
    rw [h] at h2
    exact h2

/-! ### reference class number -/

/-- soundness of the enumeration -/
theorem reduced_enum_sound (D : Int) : ∀ f ∈ reducedForms D, IsReducedPrim D f :=
  fun _ h => reducedForms_sound h

/-- completeness of the enumeration -/
theorem reduced_enum_complete (D : Int) : ∀ f, IsReducedPrim D f → f ∈ reducedForms D :=
  fun _ h => reducedForms_complete h

/-- no form is listed twice -/
theorem reduced_enum_nodup (D : Int) : (reducedForms D).Nodup := reducedForms_nodup D

/-- `reducedForms D` enumerates exactly the reduced primitive forms `(a, b, c)` of discriminant `D`
(`b² - 4ac = D`, `|b| ≤ a ≤ c`, `b ≥ 0` if `|b| = a` or `a = c`, `gcd(a, b, c) = 1`), each once; so
`classNumber D` is their number. That every class of primitive positive definite forms contains exactly one
reduced form (Gauss) is `class_representative_unique` in Ymq/Props/C18Group.lean; NAMED CLASSICAL FACT, NOT
PROVED: the number of form classes is the class number `h(D)` of the quadratic order of discriminant `D`. -/
theorem reduced_enum (D : Int) :
    ∃ s : Finset Form, (∀ f, f ∈ s ↔ IsReducedPrim D f) ∧ classNumber D = s.card := by
  refine ⟨(reducedForms D).toFinset, ?_, ?_⟩
  · intro f
    rw [List.mem_toFinset]
    exact ⟨fun h => reducedForms_sound h, fun h => reducedForms_complete h⟩
  · unfold classNumber
    rw [List.toFinset_card_of_nodup (reducedForms_nodup D)]

/-! ### reported structure -/

/-- The cyclic factors reported by `group_structure_dense` (diagonal entries of the reduced
relation matrix different from 1) multiply to the product of the diagonal; hence to the reported
class number `h` whenever the diagonal does (that is the Smith form property C19). -/
theorem invariants_multiply (diag : List Nat) (h : Nat) (hd : diag.prod = h) :
    (invariantsOf diag).prod = h := by
  have key : ∀ l : List Nat, (invariantsOf l).prod = l.prod := by
    intro l
    unfold invariantsOf
    induction l with
    | nil => simp
    | cons x t ih =>
      by_cases hx : x = 1
      · subst hx
        rw [List.filter_cons_of_neg (by simp), ih, List.prod_cons, Nat.one_mul]
      · rw [List.filter_cons_of_pos (by simpa using hx), List.prod_cons, ih, List.prod_cons]
  rw [key, hd]

/-- what the executable check `invariantsOk` (run by the driver on every real result) means -/
theorem invariantsOk_spec (h : Nat) (invs : List Nat) :
    invariantsOk h invs = true ↔ invs.prod = h ∧ ∀ d ∈ invs, d ≠ 1 ∧ d ≠ 0 := by
  unfold invariantsOk
  have hf : ∀ (l : List Nat) (a : Nat), l.foldl (· * ·) a = a * l.prod := by
    intro l
    induction l with
    | nil => intro a; simp
    | cons x t ih => intro a; rw [List.foldl_cons, ih, List.prod_cons, Nat.mul_assoc]
  simp only [Bool.and_eq_true, decide_eq_true_eq, List.all_eq_true, ne_eq, hf, Nat.one_mul]

/-! ### non-vacuity -/

example : IsBPlus (-23) 13 9 := by unfold IsBPlus; decide
example : bPlus 13 6 false = some 7 := by decide
example : IsBPlus (-23) 2 1 ∧ IsBPlus (-56) 2 0 ∧ IsBPlus (-84) 2 2 := by unfold IsBPlus; decide
/-- hypotheses of `bPlus_spec_odd` are satisfiable: D = -23, p = 13, r = 4 (16 ≡ -23 mod 13) -/
example : (13 : Nat) % 2 = 1 ∧ (4 : Nat) < 13 ∧ (-23 : Int) % 4 = 1 ∧ ((13 : Nat) : Int) ∣ ((4 : Nat) : Int) * (4 : Nat) - (-23) := by
  decide
/-- hypotheses of `bPlus_spec_even`: N = -14 (D = -56), p = 3, r = 1 -/
example : (3 : Nat) % 2 = 1 ∧ ((3 : Nat) : Int) ∣ ((1 : Nat) : Int) * (1 : Nat) - (-14) := by decide
/-- `sign_total`: D = -23, p = 13, ref = 9, bx = 17 (17² + 23 = 312 = 13 · 24) -/
example : Nat.Prime 13 ∧ IsBPlus (-23) 13 9 ∧ ((13 : Nat) : Int) ∣ (17 : Int) * 17 - (-23) := by
  refine ⟨by decide, by unfold IsBPlus; decide, by decide⟩
example : signedExp 13 9 17 2 = some (-2) := by decide
example : signedExp 13 9 (-17) 2 = some 2 := by decide
/-- a history with a partial, a second partial closing a cycle through the root, and a double -/
example : (run { maxlarge := 1000 }
    [⟨[(3, 1)], some (101, 1), none⟩, ⟨[(5, 1)], some (101, -1), none⟩, ⟨[(7, 1)], some (101, 1), some (103, 1)⟩]).map
      (fun s => s.emitted.length) = some 2 := by decide
/-- `RelOk` is satisfiable -/
example : RelOk ⟨[(7, 1)], some (101, 1), some (103, 1)⟩ := by
  refine ⟨?_, ?_, ?_⟩
  · intro pe h; simp only [Option.some.injEq] at h; subst h; decide
  · intro pe h; simp only [Option.some.injEq] at h; subst h; decide
  · intro pe qe h1 h2; simp only [Option.some.injEq] at h1 h2; subst h1; subst h2; decide
/-- the filter on a small input (also a K corpus line): `101`, `7`, `5` are eliminated, two rows in `3` remain -/
example : (match Ymq.ClassGroup.Filter.filterDense
    [⟨[(3, 1), (5, -1)], none, none⟩, ⟨[(3, 1)], some (101, 1), none⟩, ⟨[(5, 1)], some (101, -1), none⟩,
     ⟨[(7, 1), (3, 2)], none, none⟩, ⟨[(7, -1), (5, 1)], none, none⟩] with
    | some (s, d) => (s.rows, s.removed, d)
    | none => ([], [], 0))
    = ([[(3, 2)], [(3, 3)]], [(101, [(3, -1)]), (7, [(3, -2)]), (5, [(3, 1)])], 0) := by
  decide +kernel
example : classNumber (-23) = 3 := by decide +kernel
/-- `relation_no_panic` on a real candidate: D = -23, unit polynomial x² + x + 6, x = 1: P = 8 = 2³, y = 3 -/
example : relationOf false 1 1 6 1 151 302 false [] [(2, 1), (3, 1), (13, 9)] [2, 3, 13] [] 1 1
    = .rel ⟨[(2, -3)], none, none⟩ := by decide +kernel
example : polyDisc false 1 1 6 = -23 ∧ FbOk (-23) false [] [(2, 1), (3, 1), (13, 9)] 2 := by
  refine ⟨by decide, Or.inl rfl⟩
example : IsReducedPrim (-23) ⟨2, -1, 3⟩ := by unfold IsReducedPrim Form.disc gcd3; decide
example : invariantsOf [1, 2, 1, 30] = [2, 30] ∧ [1, 2, 1, 30].prod = 60 := by decide
example : invariantsOk 60 [2, 30] = true := by decide

end Ymq.C18
